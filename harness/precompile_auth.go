package main

// Driver "precompile_auth" (property C04): who may a state-changing precompile
// call act for, and how authz grants gate and meter it.
//
// A case is a setup (balances, delegations to two validators, unbonding entries,
// allocated rewards, withdraw addresses, authz grants with chosen type / limit /
// validator list / expiration) and a history of Ethereum transactions signed by
// O.  Every transaction is a chain  O -> [C_i -> [C_j ->]] precompile calls:
// the calls are made by O itself or by the last script contract of the chain
// (the "immediate caller"); all values are zero.  Transactions run through the
// real EvmKeeper.ApplyTransaction; a second run on a copy of the same state with
// a tracer tells which precompile calls failed.  Before and after every
// transaction ALL actors are observed: bank balances (two denominations),
// delegations, unbonding entries, pending rewards, withdraw address, and every
// authz grant in the store.
//
// This file reuses the script contract, the actors and keys of evmexec.go
// (read-only: nothing there is changed).

import (
	"encoding/json"
	"fmt"
	"math/big"
	"sort"
	"strings"
	"time"

	sdkmath "cosmossdk.io/math"
	"github.com/cosmos/cosmos-sdk/crypto/keys/ed25519"
	sdk "github.com/cosmos/cosmos-sdk/types"
	"github.com/cosmos/cosmos-sdk/x/authz"
	banktypes "github.com/cosmos/cosmos-sdk/x/bank/types"
	distrtypes "github.com/cosmos/cosmos-sdk/x/distribution/types"
	stakingtypes "github.com/cosmos/cosmos-sdk/x/staking/types"
	transfertypes "github.com/cosmos/ibc-go/v7/modules/apps/transfer/types"
	clienttypes "github.com/cosmos/ibc-go/v7/modules/core/02-client/types"
	connectiontypes "github.com/cosmos/ibc-go/v7/modules/core/03-connection/types"
	channeltypes "github.com/cosmos/ibc-go/v7/modules/core/04-channel/types"
	commitmenttypes "github.com/cosmos/ibc-go/v7/modules/core/23-commitment/types"
	host "github.com/cosmos/ibc-go/v7/modules/core/24-host"
	ibctm "github.com/cosmos/ibc-go/v7/modules/light-clients/07-tendermint"
	"github.com/ethereum/go-ethereum/accounts/abi"
	"github.com/ethereum/go-ethereum/common"
	ethtypes "github.com/ethereum/go-ethereum/core/types"
	"github.com/ethereum/go-ethereum/crypto"

	cmn "github.com/haqq-network/haqq/precompiles/common"
	distprecompile "github.com/haqq-network/haqq/precompiles/distribution"
	ics20precompile "github.com/haqq-network/haqq/precompiles/ics20"
	stakingprecompile "github.com/haqq-network/haqq/precompiles/staking"
	"github.com/haqq-network/haqq/testutil"
	"github.com/haqq-network/haqq/utils"
	"github.com/haqq-network/haqq/x/evm/statedb"
	evmtypes "github.com/haqq-network/haqq/x/evm/types"
)

func init() { register("precompile_auth", paDriver) }

// ---------------------------------------------------------------- actors
// 0 O (signer)  1 P (another EOA)  2..4 script contracts C1..C3   (as in evmexec.go)
// 5 E: the ICS-20 escrow account of channel-0 (receives only)
const (
	paNAct   = 5 // actors whose assets are observed in full
	paEscrow = 5
	paNVal   = 2
	paDenom2 = "atest" // a second bank denomination (ICS-20 spend limits are per denomination)
)

var paActorName = []string{"O", "P", "C1", "C2", "C3", "escrow"}
var paICS = common.HexToAddress("0x0000000000000000000000000000000000000802")

func paDenomName(d int) string {
	if d == 0 {
		return utils.BaseDenom
	}
	return paDenom2
}

// message types an authorization can be stored under
var paKinds = []string{"delegate", "undelegate", "redelegate", "cancel", "transfer", "send"}

func paKindURL(k string) string {
	switch k {
	case "delegate":
		return sdk.MsgTypeURL(&stakingtypes.MsgDelegate{})
	case "undelegate":
		return sdk.MsgTypeURL(&stakingtypes.MsgUndelegate{})
	case "redelegate":
		return sdk.MsgTypeURL(&stakingtypes.MsgBeginRedelegate{})
	case "cancel":
		return sdk.MsgTypeURL(&stakingtypes.MsgCancelUnbondingDelegation{})
	case "transfer":
		return sdk.MsgTypeURL(&transfertypes.MsgTransfer{})
	case "send":
		return sdk.MsgTypeURL(&banktypes.MsgSend{})
	case "bogus":
		return "/cosmos.gov.v1.MsgVote"
	}
	panic("kind " + k)
}

func paKindIdx(k string) int {
	for i, x := range paKinds {
		if x == k {
			return i
		}
	}
	return 99
}

func paKindOfURL(u string) string {
	for _, k := range paKinds {
		if paKindURL(k) == u {
			return k
		}
	}
	return "other"
}

// ---------------------------------------------------------------- input
type paAlloc struct {
	Chan   int        `json:"chan"`            // channel index (0 = channel-0, the only one that exists)
	Limits [][]string `json:"limits"`          // [denom index, amount | "max"]
	Allow  []int      `json:"allow,omitempty"` // allowed receivers (indices of remote receiver names), empty = any
}

type paGrant struct {
	Granter int       `json:"granter"`
	Grantee int       `json:"grantee"`
	Kind    string    `json:"kind"`              // message type the grant is stored under
	Generic bool      `json:"generic,omitempty"` // a GenericAuthorization (not a Stake/TransferAuthorization): "wrong type"
	Limit   string    `json:"limit,omitempty"`   // stake: "" = unlimited
	Allow   []int     `json:"allowv,omitempty"`  // stake: validator allow list (indices) ...
	Deny    []int     `json:"denyv,omitempty"`   // ... or deny list (exactly one of them non-empty)
	Allocs  []paAlloc `json:"allocs,omitempty"`  // transfer
	Exp     *int64    `json:"exp"`               // expiration in seconds after the setup block time; nil = never expires
}

type paSetup struct {
	Bal      [][]string `json:"bal"`      // [actor][denom]
	Deleg    [][]string `json:"deleg"`    // [actor][validator]
	Unbond   [][]string `json:"unbond"`   // [actor][validator]  unbonding entry created by the setup
	Reward   []string   `json:"reward"`   // tokens allocated per validator after the delegations
	Withdraw []int      `json:"withdraw"` // -1 = self
	Grants   []paGrant  `json:"grants"`
}

type paCall struct {
	M     string   `json:"m"`               // see paMethods
	Who   int      `json:"who"`             // named account: delegator / sender; approve family: grantee
	Val   int      `json:"val,omitempty"`   // validator (source)
	Dst   int      `json:"dst,omitempty"`   // redelegate destination
	Amt   string   `json:"amt,omitempty"`   // amount; "max" = 2^256-1
	To    int      `json:"to,omitempty"`    // setwithdraw target actor
	H     int      `json:"h,omitempty"`     // cancel: 0 = the setup's unbonding entry, 1 = an entry created in this block
	Types []string `json:"types,omitempty"` // approve family: message kinds
	Chan  int      `json:"chan,omitempty"`  // ICS-20 channel index
	Den   int      `json:"den,omitempty"`   // ICS-20 denom index
	Recv  int      `json:"recv,omitempty"`  // ICS-20 receiver index
	Alloc []paAlloc `json:"alloc,omitempty"` // ics_approve
	Catch bool     `json:"catch"`           // the calling contract tolerates a failure of this call
}

type paTx struct {
	Path  []int    `json:"path"` // contracts the call goes through; empty = O calls the precompile itself
	Dt    int64    `json:"dt"`   // seconds the block time advances before this transaction
	Calls []paCall `json:"calls"`
}

type paInput struct {
	Setup paSetup `json:"setup"`
	Txs   []paTx  `json:"txs"`
}

func (t paTx) caller() int {
	if len(t.Path) == 0 {
		return aO
	}
	return t.Path[len(t.Path)-1]
}

var paSpend = map[string]string{"delegate": "delegate", "undelegate": "undelegate", "redelegate": "redelegate", "cancel": "cancel", "ics_transfer": "transfer"}

// ---------------------------------------------------------------- environment
type paEnv struct {
	*Env
	vals   []sdk.ValAddress
	valStr []string
	sABI   abi.ABI
	dABI   abi.ABI
	iABI   abi.ABI
	t0     time.Time
	h0     int64
	escrow sdk.AccAddress
	ibcOK  bool
}

var paBase *paEnv

const paValStake = "1000000000000000000"

func paBaseEnv() *paEnv {
	if paBase != nil {
		return paBase
	}
	e := newEnv()
	e.App.EvmKeeper.WithChainID(e.Ctx)
	vals := e.App.StakingKeeper.GetAllValidators(e.Ctx)
	if len(vals) == 0 {
		panic("no validator")
	}
	v := vals[0]
	cons, err := v.GetConsAddr()
	if err != nil {
		panic(err)
	}
	hdr := e.Ctx.BlockHeader()
	hdr.ProposerAddress = cons
	e.Ctx = e.Ctx.WithBlockHeader(hdr).WithGasMeter(sdk.NewInfiniteGasMeter())
	pe := &paEnv{Env: e, vals: []sdk.ValAddress{v.GetOperator()}, valStr: []string{v.OperatorAddress}}

	// a second bonded validator with the same stake as the genesis validator
	opKey, _ := crypto.HexToECDSA("a1b2c3d4e5f60718293a4b5c6d7e8f90a1b2c3d4e5f60718293a4b5c6d7e8f90")
	op := sdk.AccAddress(crypto.PubkeyToAddress(opKey.PublicKey).Bytes())
	stake, _ := sdkmath.NewIntFromString(paValStake)
	coins := sdk.NewCoins(sdk.NewCoin(utils.BaseDenom, stake))
	if err := testutil.FundAccount(e.Ctx, e.App.BankKeeper, op, coins); err != nil {
		panic(err)
	}
	seed := make([]byte, 32)
	seed[0] = 0x42
	pk := ed25519.GenPrivKeyFromSecret(seed).PubKey()
	zero := sdk.ZeroDec()
	cv, err := stakingtypes.NewMsgCreateValidator(sdk.ValAddress(op), pk, coins[0],
		stakingtypes.NewDescription("v2", "", "", "", ""), stakingtypes.NewCommissionRates(zero, zero, zero), sdk.OneInt())
	if err != nil {
		panic(err)
	}
	sp := e.App.StakingKeeper.GetParams(e.Ctx)
	sp.MinCommissionRate = zero
	if err := e.App.StakingKeeper.SetParams(e.Ctx, sp); err != nil {
		panic(err)
	}
	if _, err := e.runMsg(cv); err != nil {
		panic(fmt.Errorf("create second validator: %w", err))
	}
	if _, err := e.App.StakingKeeper.ApplyAndReturnValidatorSetUpdates(e.Ctx); err != nil {
		panic(err)
	}
	v2, found := e.App.StakingKeeper.GetValidator(e.Ctx, sdk.ValAddress(op))
	if !found || !v2.IsBonded() {
		panic("second validator not bonded")
	}
	pe.vals = append(pe.vals, v2.GetOperator())
	pe.valStr = append(pe.valStr, v2.OperatorAddress)

	pcs := e.App.EvmKeeper.Precompiles(evmAddr[aPS], evmAddr[aPD], paICS)
	pe.sABI = pcs[evmAddr[aPS]].(*stakingprecompile.Precompile).ABI
	pe.dABI = pcs[evmAddr[aPD]].(*distprecompile.Precompile).ABI
	pe.iABI = pcs[paICS].(*ics20precompile.Precompile).ABI

	pe.escrow = transfertypes.GetEscrowAddress("transfer", "channel-0")
	pe.ibcOK = pe.setupIBC() == nil
	pe.t0 = e.Ctx.BlockTime()
	pe.h0 = e.Ctx.BlockHeight()
	paBase = pe
	return pe
}

// setupIBC writes an open transfer channel (channel-0 over connection-0 over a
// tendermint light client of a fictitious counterparty) and its capabilities.
// Nothing is relayed: MsgTransfer only needs the sending side.
func (e *paEnv) setupIBC() (err error) {
	defer func() {
		if r := recover(); r != nil {
			err = fmt.Errorf("ibc setup: %v", r)
		}
	}()
	ctx := e.Ctx
	k := e.App.IBCKeeper
	height := clienttypes.NewHeight(1, 100)
	cs := ibctm.NewClientState("counterparty-1", ibctm.DefaultTrustLevel, 100*24*time.Hour, 200*24*time.Hour, 10*time.Second,
		height, commitmenttypes.GetSDKSpecs(), []string{"upgrade", "upgradedIBCState"})
	cons := ibctm.NewConsensusState(ctx.BlockTime(), commitmenttypes.NewMerkleRoot([]byte("root")), make([]byte, 32))
	clientID, err := k.ClientKeeper.CreateClient(ctx, cs, cons)
	if err != nil {
		return err
	}
	connID := "connection-0"
	prefix := commitmenttypes.NewMerklePrefix([]byte("ibc"))
	conn := connectiontypes.NewConnectionEnd(connectiontypes.OPEN, clientID,
		connectiontypes.NewCounterparty("07-tendermint-0", "connection-0", prefix),
		connectiontypes.ExportedVersionsToProto(connectiontypes.GetCompatibleVersions()), 0)
	k.ConnectionKeeper.SetConnection(ctx, connID, conn)
	port, ch := "transfer", "channel-0"
	channel := channeltypes.NewChannel(channeltypes.OPEN, channeltypes.UNORDERED,
		channeltypes.NewCounterparty("transfer", "channel-0"), []string{connID}, transfertypes.Version)
	k.ChannelKeeper.SetChannel(ctx, port, ch, channel)
	k.ChannelKeeper.SetNextSequenceSend(ctx, port, ch, 1)
	k.ChannelKeeper.SetNextSequenceRecv(ctx, port, ch, 1)
	k.ChannelKeeper.SetNextSequenceAck(ctx, port, ch, 1)
	capName := host.ChannelCapabilityPath(port, ch)
	cp, err := e.App.ScopedIBCKeeper.NewCapability(ctx, capName)
	if err != nil {
		return err
	}
	return e.App.ScopedTransferKeeper.ClaimCapability(ctx, cp, capName)
}

func (b *paEnv) fork() *paEnv {
	cctx, _ := b.Ctx.CacheContext()
	c := *b
	c.Env = &Env{App: b.App, Ctx: cctx, ValPub: b.ValPub}
	return &c
}

func paCoin(d int, amt *big.Int) sdk.Coin {
	return sdk.NewCoin(paDenomName(d), sdkmath.NewIntFromBigInt(amt))
}

func paRecvName(i int) string {
	return []string{"cosmos1receiver0", "cosmos1receiver1", "cosmos1receiver2"}[i%3]
}

func paChanName(i int) string {
	if i == 0 {
		return "channel-0"
	}
	return fmt.Sprintf("channel-%d", 6+i) // does not exist
}

func (e *paEnv) mkAuthorization(g paGrant) (authz.Authorization, error) {
	if g.Generic {
		return authz.NewGenericAuthorization(paKindURL(g.Kind)), nil
	}
	switch g.Kind {
	case "delegate", "undelegate", "redelegate", "cancel":
		at := map[string]stakingtypes.AuthorizationType{
			"delegate":   stakingtypes.AuthorizationType_AUTHORIZATION_TYPE_DELEGATE,
			"undelegate": stakingtypes.AuthorizationType_AUTHORIZATION_TYPE_UNDELEGATE,
			"redelegate": stakingtypes.AuthorizationType_AUTHORIZATION_TYPE_REDELEGATE,
			"cancel":     stakingtypes.AuthorizationType_AUTHORIZATION_TYPE_CANCEL_UNBONDING_DELEGATION}[g.Kind]
		var lim *sdk.Coin
		if g.Limit != "" {
			c := paCoin(0, bigOf(g.Limit))
			lim = &c
		}
		var al, dl []sdk.ValAddress
		for _, v := range g.Allow {
			al = append(al, e.vals[v])
		}
		for _, v := range g.Deny {
			dl = append(dl, e.vals[v])
		}
		return stakingtypes.NewStakeAuthorization(al, dl, at, lim)
	case "transfer":
		return e.mkTransferAuthz(g.Allocs), nil
	}
	return nil, fmt.Errorf("cannot build an authorization of kind %s", g.Kind)
}

func (e *paEnv) mkTransferAuthz(allocs []paAlloc) *transfertypes.TransferAuthorization {
	as := []transfertypes.Allocation{}
	for _, a := range allocs {
		cs := sdk.Coins{}
		for _, l := range a.Limits {
			d := int(bigOf(l[0]).Int64())
			amt := abi.MaxUint256
			if l[1] != "max" {
				amt = bigOf(l[1])
			}
			cs = append(cs, sdk.Coin{Denom: paDenomName(d), Amount: sdkmath.NewIntFromBigInt(amt)})
		}
		cs = cs.Sort()
		al := []string{}
		for _, r := range a.Allow {
			al = append(al, paRecvName(r))
		}
		as = append(as, transfertypes.Allocation{SourcePort: "transfer", SourceChannel: paChanName(a.Chan), SpendLimit: cs, AllowList: al})
	}
	return &transfertypes.TransferAuthorization{Allocations: as}
}

func (e *paEnv) setup(s paSetup) error {
	k := e.App.EvmKeeper
	codeHash := crypto.Keccak256Hash(scriptCode)
	k.SetCode(e.Ctx, codeHash.Bytes(), scriptCode)
	for a := 0; a < paNAct; a++ {
		tot := bigOf(s.Bal[a][0])
		for v := 0; v < paNVal; v++ {
			tot = new(big.Int).Add(tot, bigOf(s.Deleg[a][v]))
			tot = new(big.Int).Add(tot, bigOf(s.Unbond[a][v]))
		}
		acc := statedb.Account{Nonce: 0, Balance: tot, CodeHash: evmtypes.EmptyCodeHash}
		if a >= aC1 {
			acc.Nonce = 1
			acc.CodeHash = codeHash.Bytes()
		}
		if err := k.SetAccount(e.Ctx, evmAddr[a], acc); err != nil {
			return err
		}
		if b2 := bigOf(s.Bal[a][1]); b2.Sign() > 0 {
			if err := testutil.FundAccount(e.Ctx, e.App.BankKeeper, accOf(a), sdk.NewCoins(paCoin(1, b2))); err != nil {
				return err
			}
		}
	}
	for a := 0; a < paNAct; a++ {
		for v := 0; v < paNVal; v++ {
			dl := new(big.Int).Add(bigOf(s.Deleg[a][v]), bigOf(s.Unbond[a][v]))
			if dl.Sign() > 0 {
				if _, err := e.runMsg(stakingtypes.NewMsgDelegate(accOf(a), e.vals[v], paCoin(0, dl))); err != nil {
					return fmt.Errorf("setup delegate: %w", err)
				}
			}
			if u := bigOf(s.Unbond[a][v]); u.Sign() > 0 {
				if _, err := e.runMsg(stakingtypes.NewMsgUndelegate(accOf(a), e.vals[v], paCoin(0, u))); err != nil {
					return fmt.Errorf("setup undelegate: %w", err)
				}
			}
		}
	}
	for a := 0; a < paNAct && a < len(s.Withdraw); a++ {
		if s.Withdraw[a] >= 0 && s.Withdraw[a] != a {
			if err := e.App.DistrKeeper.SetWithdrawAddr(e.Ctx, accOf(a), accOf(s.Withdraw[a])); err != nil {
				return fmt.Errorf("setup withdraw addr: %w", err)
			}
		}
	}
	for _, g := range s.Grants {
		az, err := e.mkAuthorization(g)
		if err != nil {
			return err
		}
		var exp *time.Time
		if g.Exp != nil {
			// SaveGrant refuses an expiration that is not in the future: write such grants at an earlier block time
			t := e.t0.Add(time.Duration(*g.Exp) * time.Second)
			exp = &t
			ctx := e.Ctx
			if !t.After(ctx.BlockTime()) {
				ctx = ctx.WithBlockTime(t.Add(-time.Hour))
			}
			if err := e.App.AuthzKeeper.SaveGrant(ctx, accOf(g.Grantee), accOf(g.Granter), az, exp); err != nil {
				return fmt.Errorf("setup grant: %w", err)
			}
			continue
		}
		if err := e.App.AuthzKeeper.SaveGrant(e.Ctx, accOf(g.Grantee), accOf(g.Granter), az, nil); err != nil {
			return fmt.Errorf("setup grant: %w", err)
		}
	}
	// rewards accrue only after the height moved past the delegations
	e.Ctx = e.Ctx.WithBlockHeight(e.Ctx.BlockHeight() + 1)
	for v := 0; v < paNVal && v < len(s.Reward); v++ {
		if r := bigOf(s.Reward[v]); r.Sign() > 0 {
			coins := sdk.NewCoins(paCoin(0, r))
			if err := testutil.FundModuleAccount(e.Ctx, e.App.BankKeeper, distrtypes.ModuleName, coins); err != nil {
				return err
			}
			val := e.App.StakingKeeper.Validator(e.Ctx, e.vals[v])
			e.App.DistrKeeper.AllocateTokensToValidator(e.Ctx, val, sdk.NewDecCoinsFromCoins(coins...))
		}
	}
	return nil
}

// ---------------------------------------------------------------- observation
type paGrantObs struct {
	Granter int      `json:"granter"` // actor index, -2 = not an actor
	Grantee int      `json:"grantee"`
	Kind    string   `json:"kind"`   // message type it is stored under
	Type    string   `json:"type"`   // stake | transfer | generic | send | other
	Limit   string   `json:"limit"`  // stake: amount or "inf"
	Allow   []int    `json:"allowv"` // stake
	Deny    []int    `json:"denyv"`
	Allocs  []string `json:"allocs"` // transfer: "chan|d:amt,d:amt|r,r"
	Exp     string   `json:"exp"`    // seconds after the setup time, "never"
}

func (g paGrantObs) key() string {
	return fmt.Sprintf("%d>%d:%s", g.Granter, g.Grantee, g.Kind)
}
func (g paGrantObs) String() string {
	return fmt.Sprintf("%s=%s[%s|%v|%v|%v]exp=%s", g.key(), g.Type, g.Limit, g.Allow, g.Deny, g.Allocs, g.Exp)
}

type paObs struct {
	Bal      [][]string   `json:"bal"`      // [actor 0..5][denom]
	Deleg    [][]string   `json:"deleg"`    // [actor][validator]
	Unbond   [][][]string `json:"unbond"`   // [actor][validator][0 = created by the setup, 1 = created later]
	Reward   [][]string   `json:"reward"`   // [actor][validator] pending (truncated); -1 = the delegation's distribution record is missing
	Withdraw []int        `json:"withdraw"` // actor index, -2 = other address
	Grants   []paGrantObs `json:"grants"`   // every grant in the authz store, sorted
}

func (e *paEnv) pendingReward(a, v int) (out *big.Int) {
	defer func() {
		if r := recover(); r != nil {
			out = big.NewInt(-1)
		}
	}()
	cctx, _ := e.Ctx.CacheContext()
	val := e.App.StakingKeeper.Validator(cctx, e.vals[v])
	del := e.App.StakingKeeper.Delegation(cctx, accOf(a), e.vals[v])
	if del == nil || val == nil {
		return big.NewInt(0)
	}
	end := e.App.DistrKeeper.IncrementValidatorPeriod(cctx, val)
	r := e.App.DistrKeeper.CalculateDelegationRewards(cctx, val, del, end)
	t, _ := r.TruncateDecimal()
	return t.AmountOf(utils.BaseDenom).BigInt()
}

func (e *paEnv) actorOf(addr sdk.AccAddress) int {
	for a := 0; a < paNAct; a++ {
		if accOf(a).Equals(addr) {
			return a
		}
	}
	if addr.Equals(e.escrow) {
		return paEscrow
	}
	return -2
}

func (e *paEnv) valIdx(s string) int {
	for i, v := range e.valStr {
		if v == s {
			return i
		}
	}
	return -2
}

func (e *paEnv) observe() paObs {
	o := paObs{}
	for a := 0; a <= paEscrow; a++ {
		addr := e.escrow
		if a < paNAct {
			addr = accOf(a)
		}
		o.Bal = append(o.Bal, []string{
			e.App.BankKeeper.GetBalance(e.Ctx, addr, utils.BaseDenom).Amount.String(),
			e.App.BankKeeper.GetBalance(e.Ctx, addr, paDenom2).Amount.String()})
	}
	for a := 0; a < paNAct; a++ {
		ds, us, rs := []string{}, [][]string{}, []string{}
		for v := 0; v < paNVal; v++ {
			d := big.NewInt(0)
			if del, found := e.App.StakingKeeper.GetDelegation(e.Ctx, accOf(a), e.vals[v]); found {
				val, _ := e.App.StakingKeeper.GetValidator(e.Ctx, e.vals[v])
				d = val.TokensFromShares(del.Shares).TruncateInt().BigInt()
			}
			ds = append(ds, d.String())
			u0, u1 := big.NewInt(0), big.NewInt(0)
			if ubd, found := e.App.StakingKeeper.GetUnbondingDelegation(e.Ctx, accOf(a), e.vals[v]); found {
				for _, en := range ubd.Entries {
					if en.CreationHeight <= e.h0 {
						u0.Add(u0, en.Balance.BigInt())
					} else {
						u1.Add(u1, en.Balance.BigInt())
					}
				}
			}
			us = append(us, []string{u0.String(), u1.String()})
			rs = append(rs, e.pendingReward(a, v).String())
		}
		o.Deleg = append(o.Deleg, ds)
		o.Unbond = append(o.Unbond, us)
		o.Reward = append(o.Reward, rs)
		o.Withdraw = append(o.Withdraw, e.actorOf(e.App.DistrKeeper.GetDelegatorWithdrawAddr(e.Ctx, accOf(a))))
	}
	o.Grants = []paGrantObs{}
	e.App.AuthzKeeper.IterateGrants(e.Ctx, func(granter, grantee sdk.AccAddress, g authz.Grant) bool {
		az, err := g.GetAuthorization()
		go_ := paGrantObs{Granter: e.actorOf(granter), Grantee: e.actorOf(grantee), Type: "other", Limit: "", Allow: []int{}, Deny: []int{}, Allocs: []string{}}
		if err != nil {
			go_.Kind = "undecodable"
		} else {
			go_.Kind = paKindOfURL(az.MsgTypeURL())
			switch t := az.(type) {
			case *stakingtypes.StakeAuthorization:
				go_.Type = "stake"
				go_.Limit = "inf"
				if t.MaxTokens != nil {
					go_.Limit = t.MaxTokens.Amount.String()
				}
				for _, s := range t.GetAllowList().GetAddress() {
					go_.Allow = append(go_.Allow, e.valIdx(s))
				}
				for _, s := range t.GetDenyList().GetAddress() {
					go_.Deny = append(go_.Deny, e.valIdx(s))
				}
				sort.Ints(go_.Allow)
				sort.Ints(go_.Deny)
			case *transfertypes.TransferAuthorization:
				go_.Type = "transfer"
				for _, al := range t.Allocations {
					ls := []string{}
					for _, c := range al.SpendLimit {
						d := 0
						if c.Denom != utils.BaseDenom {
							d = 1
						}
						amt := c.Amount.String()
						if c.Amount.BigInt().Cmp(abi.MaxUint256) == 0 {
							amt = "max"
						}
						ls = append(ls, fmt.Sprintf("%d:%s", d, amt))
					}
					rs := []string{}
					for _, r := range al.AllowList {
						rs = append(rs, r[len(r)-1:])
					}
					go_.Allocs = append(go_.Allocs, fmt.Sprintf("%s|%s|%s", strings.TrimPrefix(al.SourceChannel, "channel-"), strings.Join(ls, ","), strings.Join(rs, ",")))
				}
			case *authz.GenericAuthorization:
				go_.Type = "generic"
			case *banktypes.SendAuthorization:
				go_.Type = "send"
				go_.Limit = t.SpendLimit.String()
			}
		}
		go_.Exp = "never"
		if g.Expiration != nil {
			go_.Exp = fmt.Sprint(int64(g.Expiration.Sub(e.t0) / time.Second))
		}
		o.Grants = append(o.Grants, go_)
		return false
	})
	sort.Slice(o.Grants, func(i, j int) bool {
		a, b := o.Grants[i], o.Grants[j]
		if a.Granter != b.Granter {
			return a.Granter < b.Granter
		}
		if a.Grantee != b.Grantee {
			return a.Grantee < b.Grantee
		}
		return paKindIdx(a.Kind) < paKindIdx(b.Kind)
	})
	return o
}

// ---------------------------------------------------------------- encoding of calls
func paAmt(s string) *big.Int {
	if s == "max" {
		return abi.MaxUint256
	}
	return bigOf(s)
}

func (e *paEnv) packCall(c paCall) (target common.Address, data []byte) {
	var err error
	urls := []string{}
	for _, t := range c.Types {
		urls = append(urls, paKindURL(t))
	}
	switch c.M {
	case "delegate", "undelegate":
		data, err = e.sABI.Pack(c.M, evmAddr[c.Who], e.valStr[c.Val], paAmt(c.Amt))
		target = evmAddr[aPS]
	case "redelegate":
		data, err = e.sABI.Pack("redelegate", evmAddr[c.Who], e.valStr[c.Val], e.valStr[c.Dst], paAmt(c.Amt))
		target = evmAddr[aPS]
	case "cancel":
		data, err = e.sABI.Pack("cancelUnbondingDelegation", evmAddr[c.Who], e.valStr[c.Val], paAmt(c.Amt), big.NewInt(e.h0+int64(c.H)))
		target = evmAddr[aPS]
	case "createval":
		seed := make([]byte, 32)
		seed[0] = 0x77
		pk := ed25519.GenPrivKeyFromSecret(seed).PubKey()
		desc := stakingprecompile.Description{Moniker: "v3"}
		comm := stakingprecompile.Commission{Rate: big.NewInt(0), MaxRate: big.NewInt(0), MaxChangeRate: big.NewInt(0)}
		data, err = e.sABI.Pack("createValidator", desc, comm, big.NewInt(1), evmAddr[c.Who],
			sdk.ValAddress(accOf(c.Who)).String(), base64Std(pk.Bytes()), paAmt(c.Amt))
		target = evmAddr[aPS]
	case "approve", "increase", "decrease":
		name := map[string]string{"approve": "approve", "increase": "increaseAllowance", "decrease": "decreaseAllowance"}[c.M]
		data, err = e.sABI.Pack(name, evmAddr[c.Who], paAmt(c.Amt), urls)
		target = evmAddr[aPS]
	case "revoke":
		data, err = e.sABI.Pack("revoke", evmAddr[c.Who], urls)
		target = evmAddr[aPS]
	case "withdraw":
		data, err = e.dABI.Pack("withdrawDelegatorRewards", evmAddr[c.Who], e.valStr[c.Val])
		target = evmAddr[aPD]
	case "setwithdraw":
		data, err = e.dABI.Pack("setWithdrawAddress", evmAddr[c.Who], accOf(c.To).String())
		target = evmAddr[aPD]
	case "claim":
		data, err = e.dABI.Pack("claimRewards", evmAddr[c.Who], uint32(10))
		target = evmAddr[aPD]
	case "commission":
		// the named account is the validator operator in hex form of actor Who
		data, err = e.dABI.Pack("withdrawValidatorCommission", sdk.ValAddress(accOf(c.Who)).String())
		target = evmAddr[aPD]
	case "ics_transfer":
		data, err = e.iABI.Pack("transfer", "transfer", paChanName(c.Chan), paDenomName(c.Den), paAmt(c.Amt), evmAddr[c.Who], paRecvName(c.Recv),
			clienttypes.NewHeight(1, 1000), uint64(0), "")
		target = paICS
	case "ics_approve":
		as := []cmn.ICS20Allocation{}
		for _, a := range c.Alloc {
			cs := []cmn.Coin{}
			for _, l := range a.Limits {
				cs = append(cs, cmn.Coin{Denom: paDenomName(int(bigOf(l[0]).Int64())), Amount: paAmt(l[1])})
			}
			sort.Slice(cs, func(i, j int) bool { return cs[i].Denom < cs[j].Denom })
			al := []string{}
			for _, r := range a.Allow {
				al = append(al, paRecvName(r))
			}
			as = append(as, cmn.ICS20Allocation{SourcePort: "transfer", SourceChannel: paChanName(a.Chan), SpendLimit: cs, AllowList: al})
		}
		data, err = e.iABI.Pack("approve", evmAddr[c.Who], as)
		target = paICS
	case "ics_revoke":
		data, err = e.iABI.Pack("revoke", evmAddr[c.Who])
		target = paICS
	case "ics_increase", "ics_decrease":
		name := map[string]string{"ics_increase": "increaseAllowance", "ics_decrease": "decreaseAllowance"}[c.M]
		data, err = e.iABI.Pack(name, evmAddr[c.Who], "transfer", paChanName(c.Chan), paDenomName(c.Den), paAmt(c.Amt))
		target = paICS
	default:
		panic("bad precompile method " + c.M)
	}
	if err != nil {
		panic(fmt.Errorf("pack %s: %w", c.M, err))
	}
	return
}

func (e *paEnv) buildTx(t paTx) *ethtypes.Transaction {
	var to common.Address
	var data []byte
	if len(t.Path) == 0 {
		if len(t.Calls) != 1 {
			panic("a direct transaction carries exactly one call")
		}
		to, data = e.packCall(t.Calls[0])
	} else {
		body := []byte{}
		for _, c := range t.Calls {
			tg, d := e.packCall(c)
			var flags byte = 4 // forward a bounded amount of gas: a failing precompile burns what it was given
			if c.Catch {
				flags |= 1
			}
			body = append(body, encCall(flags, tg.Bytes(), big.NewInt(0), d)...)
		}
		for i := len(t.Path) - 1; i >= 1; i-- {
			// the outer contract calls the inner one and propagates its failure
			body = encCall(0, evmAddr[t.Path[i]].Bytes(), big.NewInt(0), body)
		}
		to, data = evmAddr[t.Path[0]], body
	}
	nonce := e.App.EvmKeeper.GetNonce(e.Ctx, evmAddr[aO])
	tx := ethtypes.NewTx(&ethtypes.LegacyTx{Nonce: nonce, GasPrice: big.NewInt(0), Gas: 2_000_000_000, To: &to, Value: big.NewInt(0), Data: data})
	signer := ethtypes.LatestSignerForChainID(e.App.EvmKeeper.ChainID())
	stx, err := ethtypes.SignTx(tx, signer, evmKeyO)
	if err != nil {
		panic(err)
	}
	return stx
}

// runTx executes the transaction through the real keeper.  With a tracer it
// calls ApplyMessageWithConfig (used only to learn which calls failed).
func (e *paEnv) runTx(tx *ethtypes.Transaction, tr *treeTracer) (bool, string) {
	ev := &evmEnv{Env: e.Env}
	ok, s := ev.run(tx, tr)
	return ok, s
}

// callResults: per call of the transaction, did the precompile frame succeed
func paCallResults(t paTx, root *frameEv) []bool {
	res := make([]bool, len(t.Calls))
	if root == nil {
		return res
	}
	f := root
	if len(t.Path) == 0 {
		res[0] = root.Err == ""
		return res
	}
	for i := 1; i < len(t.Path); i++ {
		if len(f.Children) == 0 {
			return res
		}
		f = f.Children[0]
	}
	for i := range t.Calls {
		if i < len(f.Children) {
			res[i] = f.Children[i].Err == ""
		}
	}
	return res
}

func base64Std(b []byte) string {
	const tbl = "ABCDEFGHIJKLMNOPQRSTUVWXYZabcdefghijklmnopqrstuvwxyz0123456789+/"
	out := []byte{}
	for i := 0; i < len(b); i += 3 {
		var n uint32
		rem := len(b) - i
		switch {
		case rem >= 3:
			n = uint32(b[i])<<16 | uint32(b[i+1])<<8 | uint32(b[i+2])
			out = append(out, tbl[n>>18&63], tbl[n>>12&63], tbl[n>>6&63], tbl[n&63])
		case rem == 2:
			n = uint32(b[i])<<16 | uint32(b[i+1])<<8
			out = append(out, tbl[n>>18&63], tbl[n>>12&63], tbl[n>>6&63], '=')
		default:
			n = uint32(b[i]) << 16
			out = append(out, tbl[n>>18&63], tbl[n>>12&63], '=', '=')
		}
	}
	return string(out)
}

// ---------------------------------------------------------------- one case
type paTxRes struct {
	OK    bool   `json:"ok"`
	Err   string `json:"err,omitempty"`
	Calls []bool `json:"calls"` // per call: the precompile frame succeeded
	After paObs  `json:"after"`
}

type paResult struct {
	Pre paObs     `json:"pre"`
	Txs []paTxRes `json:"txs"`
}

func paRunCase(id string, in paInput) Case {
	base := paBaseEnv()
	kb, _ := json.Marshal(in)
	c := Case{ID: id, Kind: "history", Input: in, CoqList: "cases", Key: string(kb)}
	e := base.fork()
	if err := e.setup(in.Setup); err != nil {
		c.OracleOK = true
		c.Tags = []string{"setup-failed"}
		c.OracleMsg = "setup failed (case skipped): " + err.Error()
		return c
	}
	res := paResult{Pre: e.observe()}
	for _, t := range in.Txs {
		e.Ctx = e.Ctx.WithBlockTime(e.Ctx.BlockTime().Add(time.Duration(t.Dt) * time.Second))
		// which calls fail? (copy of the same state, tracer attached)
		e2 := e.fork()
		tr := &treeTracer{}
		e2.runTx(e2.buildTx(t), tr)
		ok, errStr := e.runTx(e.buildTx(t), nil)
		r := paTxRes{OK: ok, Err: errStr, Calls: paCallResults(t, tr.root), After: e.observe()}
		if !ok {
			for i := range r.Calls {
				r.Calls[i] = false
			}
		}
		res.Txs = append(res.Txs, r)
	}
	c.Obs = res
	c.OracleOK = true
	return c
}

func paDriver(cfg Config, out *Out) error {
	if cfg.Replay != "" {
		i := 0
		return readReplayInputs(cfg.Replay, func(raw json.RawMessage) error {
			var in paInput
			if err := json.Unmarshal(raw, &in); err != nil {
				return err
			}
			out.Emit(paRunCase(fmt.Sprintf("replay-%d", i), in))
			i++
			return nil
		})
	}
	return nil
}
