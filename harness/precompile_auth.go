package main

// Driver "precompile_auth" (property C04): who may a state-changing precompile
// call act for, and how authz grants gate and meter it.
//
// A case is a setup (balances, delegations to two validators, unbonding entries,
// allocated rewards, withdraw addresses, authz grants with chosen type / limit /
// validator list / expiration) and a history of Ethereum transactions signed by
// O.  Every transaction is a chain  O -> [C_i -> [C_j ->]] precompile calls:
// the calls are made by O itself or by the last script contract of the chain
// (the "immediate caller"); all values are zero.  Transactions run through the
// real EvmKeeper.ApplyTransaction; a second run on a copy of the same state with
// a tracer tells which precompile calls failed.  Before and after every
// transaction ALL actors are observed: bank balances (two denominations),
// delegations, unbonding entries, pending rewards, withdraw address, and every
// authz grant in the store.
//
// This file reuses the script contract, the actors and keys of evmexec.go
// (read-only: nothing there is changed).

import (
	"encoding/json"
	"fmt"
	"math/big"
	"sort"
	"strings"
	"time"

	sdkmath "cosmossdk.io/math"
	"github.com/cosmos/cosmos-sdk/crypto/keys/ed25519"
	sdk "github.com/cosmos/cosmos-sdk/types"
	"github.com/cosmos/cosmos-sdk/x/authz"
	banktypes "github.com/cosmos/cosmos-sdk/x/bank/types"
	distrtypes "github.com/cosmos/cosmos-sdk/x/distribution/types"
	stakingtypes "github.com/cosmos/cosmos-sdk/x/staking/types"
	transfertypes "github.com/cosmos/ibc-go/v7/modules/apps/transfer/types"
	clienttypes "github.com/cosmos/ibc-go/v7/modules/core/02-client/types"
	connectiontypes "github.com/cosmos/ibc-go/v7/modules/core/03-connection/types"
	channeltypes "github.com/cosmos/ibc-go/v7/modules/core/04-channel/types"
	commitmenttypes "github.com/cosmos/ibc-go/v7/modules/core/23-commitment/types"
	host "github.com/cosmos/ibc-go/v7/modules/core/24-host"
	ibctm "github.com/cosmos/ibc-go/v7/modules/light-clients/07-tendermint"
	"github.com/ethereum/go-ethereum/accounts/abi"
	"github.com/ethereum/go-ethereum/common"
	ethtypes "github.com/ethereum/go-ethereum/core/types"
	"github.com/ethereum/go-ethereum/crypto"

	cmn "github.com/haqq-network/haqq/precompiles/common"
	distprecompile "github.com/haqq-network/haqq/precompiles/distribution"
	ics20precompile "github.com/haqq-network/haqq/precompiles/ics20"
	stakingprecompile "github.com/haqq-network/haqq/precompiles/staking"
	"github.com/haqq-network/haqq/testutil"
	"github.com/haqq-network/haqq/utils"
	"github.com/haqq-network/haqq/x/evm/statedb"
	evmtypes "github.com/haqq-network/haqq/x/evm/types"
)

func init() { register("precompile_auth", paDriver) }

// ---------------------------------------------------------------- actors
// 0 O (signer)  1 P (another EOA)  2..4 script contracts C1..C3   (as in evmexec.go)
// 5 E: the ICS-20 escrow account of channel-0, 6 E1: that of channel-1 (they receive only)
const (
	paNAct    = 5 // actors whose assets are observed in full
	paEscrow  = 5
	paEscrow2 = 6
	paNChan   = 2 // open transfer channels: channel-0, channel-1
	paNVal    = 2
	paDenom2 = "atest" // a second bank denomination (ICS-20 spend limits are per denomination)
)

var paActorName = []string{"O", "P", "C1", "C2", "C3", "escrow", "escrow1"}
var paICS = common.HexToAddress("0x0000000000000000000000000000000000000802")

func paDenomName(d int) string {
	if d == 0 {
		return utils.BaseDenom
	}
	return paDenom2
}

// message types an authorization can be stored under
var paKinds = []string{"delegate", "undelegate", "redelegate", "cancel", "transfer", "send"}

func paKindURL(k string) string {
	switch k {
	case "delegate":
		return sdk.MsgTypeURL(&stakingtypes.MsgDelegate{})
	case "undelegate":
		return sdk.MsgTypeURL(&stakingtypes.MsgUndelegate{})
	case "redelegate":
		return sdk.MsgTypeURL(&stakingtypes.MsgBeginRedelegate{})
	case "cancel":
		return sdk.MsgTypeURL(&stakingtypes.MsgCancelUnbondingDelegation{})
	case "transfer":
		return sdk.MsgTypeURL(&transfertypes.MsgTransfer{})
	case "send":
		return sdk.MsgTypeURL(&banktypes.MsgSend{})
	case "bogus":
		return "/cosmos.gov.v1.MsgVote"
	}
	panic("kind " + k)
}

func paKindIdx(k string) int {
	for i, x := range paKinds {
		if x == k {
			return i
		}
	}
	return 99
}

func paKindOfURL(u string) string {
	for _, k := range paKinds {
		if paKindURL(k) == u {
			return k
		}
	}
	return "other"
}

// ---------------------------------------------------------------- input
type paAlloc struct {
	Chan   int        `json:"chan"`            // channel index: 0 = channel-0, 1 = channel-1 (both open), 2.. = channel-8.. (do not exist)
	Limits [][]string `json:"limits"`          // [denom index, amount | "max"]
	Allow  []int      `json:"allow,omitempty"` // allowed receivers (indices of remote receiver names), empty = any
}

type paGrant struct {
	Granter int       `json:"granter"`
	Grantee int       `json:"grantee"`
	Kind    string    `json:"kind"`              // message type the grant is stored under
	Generic bool      `json:"generic,omitempty"` // a GenericAuthorization (not a Stake/TransferAuthorization): "wrong type"
	Limit   string    `json:"limit,omitempty"`   // stake: "" = unlimited
	Allow   []int     `json:"allowv,omitempty"`  // stake: validator allow list (indices) ...
	Deny    []int     `json:"denyv,omitempty"`   // ... or deny list (exactly one of them non-empty)
	Allocs  []paAlloc `json:"allocs,omitempty"`  // transfer
	Exp     *int64    `json:"exp"`               // expiration in seconds after the setup block time; nil = never expires
}

type paSetup struct {
	Bal      [][]string `json:"bal"`      // [actor][denom]
	Deleg    [][]string `json:"deleg"`    // [actor][validator]
	Unbond   [][]string `json:"unbond"`   // [actor][validator]  unbonding entry created by the setup
	Reward   []string   `json:"reward"`   // tokens allocated per validator after the delegations
	Withdraw []int      `json:"withdraw"` // -1 = self
	Grants   []paGrant  `json:"grants"`
}

type paCall struct {
	M     string   `json:"m"`               // see paMethods
	Who   int      `json:"who"`             // named account: delegator / sender; approve family: grantee
	Val   int      `json:"val,omitempty"`   // validator (source)
	Dst   int      `json:"dst,omitempty"`   // redelegate destination
	Amt   string   `json:"amt,omitempty"`   // amount; "max" = 2^256-1
	To    int      `json:"to,omitempty"`    // setwithdraw target actor
	H     int      `json:"h,omitempty"`     // cancel: 0 = the setup's unbonding entry, 1 = an entry created in this block
	Types []string `json:"types,omitempty"` // approve family: message kinds
	Chan  int      `json:"chan,omitempty"`  // ICS-20 channel index
	Den   int      `json:"den,omitempty"`   // ICS-20 denom index
	Recv  int      `json:"recv,omitempty"`  // ICS-20 receiver index
	Alloc []paAlloc `json:"alloc,omitempty"` // ics_approve
	Catch bool     `json:"catch"`           // the calling contract tolerates a failure of this call
}

type paTx struct {
	Path  []int    `json:"path"` // contracts the call goes through; empty = O calls the precompile itself
	Dt    int64    `json:"dt"`   // seconds the block time advances before this transaction
	Calls []paCall `json:"calls"`
}

type paInput struct {
	Setup paSetup `json:"setup"`
	Txs   []paTx  `json:"txs"`
}

func (t paTx) caller() int {
	if len(t.Path) == 0 {
		return aO
	}
	return t.Path[len(t.Path)-1]
}

var paSpend = map[string]string{"delegate": "delegate", "undelegate": "undelegate", "redelegate": "redelegate", "cancel": "cancel", "ics_transfer": "transfer"}

// ---------------------------------------------------------------- environment
type paEnv struct {
	*Env
	vals   []sdk.ValAddress
	valStr []string
	sABI   abi.ABI
	dABI   abi.ABI
	iABI   abi.ABI
	t0     time.Time
	h0     int64
	escrow sdk.AccAddress
	escrow2 sdk.AccAddress
	ibcOK  bool
}

var paBase *paEnv

const paValStake = "1000000000000000000"

func paBaseEnv() *paEnv {
	if paBase != nil {
		return paBase
	}
	e := newEnv()
	e.App.EvmKeeper.WithChainID(e.Ctx)
	vals := e.App.StakingKeeper.GetAllValidators(e.Ctx)
	if len(vals) == 0 {
		panic("no validator")
	}
	v := vals[0]
	cons, err := v.GetConsAddr()
	if err != nil {
		panic(err)
	}
	hdr := e.Ctx.BlockHeader()
	hdr.ProposerAddress = cons
	e.Ctx = e.Ctx.WithBlockHeader(hdr).WithGasMeter(sdk.NewInfiniteGasMeter())
	pe := &paEnv{Env: e, vals: []sdk.ValAddress{v.GetOperator()}, valStr: []string{v.OperatorAddress}}

	// a second bonded validator with the same stake as the genesis validator
	opKey, _ := crypto.HexToECDSA("a1b2c3d4e5f60718293a4b5c6d7e8f90a1b2c3d4e5f60718293a4b5c6d7e8f90")
	op := sdk.AccAddress(crypto.PubkeyToAddress(opKey.PublicKey).Bytes())
	stake, _ := sdkmath.NewIntFromString(paValStake)
	coins := sdk.NewCoins(sdk.NewCoin(utils.BaseDenom, stake))
	if err := testutil.FundAccount(e.Ctx, e.App.BankKeeper, op, coins); err != nil {
		panic(err)
	}
	seed := make([]byte, 32)
	seed[0] = 0x42
	pk := ed25519.GenPrivKeyFromSecret(seed).PubKey()
	zero := sdk.ZeroDec()
	cv, err := stakingtypes.NewMsgCreateValidator(sdk.ValAddress(op), pk, coins[0],
		stakingtypes.NewDescription("v2", "", "", "", ""), stakingtypes.NewCommissionRates(zero, zero, zero), sdk.OneInt())
	if err != nil {
		panic(err)
	}
	sp := e.App.StakingKeeper.GetParams(e.Ctx)
	sp.MinCommissionRate = zero
	if err := e.App.StakingKeeper.SetParams(e.Ctx, sp); err != nil {
		panic(err)
	}
	if _, err := e.runMsg(cv); err != nil {
		panic(fmt.Errorf("create second validator: %w", err))
	}
	if _, err := e.App.StakingKeeper.ApplyAndReturnValidatorSetUpdates(e.Ctx); err != nil {
		panic(err)
	}
	v2, found := e.App.StakingKeeper.GetValidator(e.Ctx, sdk.ValAddress(op))
	if !found || !v2.IsBonded() {
		panic("second validator not bonded")
	}
	pe.vals = append(pe.vals, v2.GetOperator())
	pe.valStr = append(pe.valStr, v2.OperatorAddress)

	pcs := e.App.EvmKeeper.Precompiles(evmAddr[aPS], evmAddr[aPD], paICS)
	pe.sABI = pcs[evmAddr[aPS]].(*stakingprecompile.Precompile).ABI
	pe.dABI = pcs[evmAddr[aPD]].(*distprecompile.Precompile).ABI
	pe.iABI = pcs[paICS].(*ics20precompile.Precompile).ABI

	pe.escrow = transfertypes.GetEscrowAddress("transfer", "channel-0")
	pe.escrow2 = transfertypes.GetEscrowAddress("transfer", "channel-1")
	pe.ibcOK = pe.setupIBC() == nil
	pe.t0 = e.Ctx.BlockTime()
	pe.h0 = e.Ctx.BlockHeight()
	paBase = pe
	return pe
}

// setupIBC writes an open transfer channel (channel-0 over connection-0 over a
// tendermint light client of a fictitious counterparty) and its capabilities.
// Nothing is relayed: MsgTransfer only needs the sending side.
func (e *paEnv) setupIBC() error {
	if err := setupIBCChannel(e.Env); err != nil {
		return err
	}
	return paOpenSecondChannel(e.Env)
}

// paOpenSecondChannel: a second open transfer channel (channel-1) over the same connection, so that one
// TransferAuthorization can carry several allocations (ValidateBasic refuses two allocations of one channel,
// approve() refuses a channel that does not exist) and spends can be made per channel.
func paOpenSecondChannel(e *Env) (err error) {
	defer func() {
		if r := recover(); r != nil {
			err = fmt.Errorf("ibc setup (channel-1): %v", r)
		}
	}()
	ctx := e.Ctx
	k := e.App.IBCKeeper
	port, ch := "transfer", "channel-1"
	channel := channeltypes.NewChannel(channeltypes.OPEN, channeltypes.UNORDERED,
		channeltypes.NewCounterparty("transfer", "channel-1"), []string{"connection-0"}, transfertypes.Version)
	k.ChannelKeeper.SetChannel(ctx, port, ch, channel)
	k.ChannelKeeper.SetNextSequenceSend(ctx, port, ch, 1)
	k.ChannelKeeper.SetNextSequenceRecv(ctx, port, ch, 1)
	k.ChannelKeeper.SetNextSequenceAck(ctx, port, ch, 1)
	capName := host.ChannelCapabilityPath(port, ch)
	cp, err := e.App.ScopedIBCKeeper.NewCapability(ctx, capName)
	if err != nil {
		return err
	}
	return e.App.ScopedTransferKeeper.ClaimCapability(ctx, cp, capName)
}

func setupIBCChannel(e *Env) (err error) {
	defer func() {
		if r := recover(); r != nil {
			err = fmt.Errorf("ibc setup: %v", r)
		}
	}()
	ctx := e.Ctx
	k := e.App.IBCKeeper
	height := clienttypes.NewHeight(1, 100)
	// trusting period of two centuries: the histories let years pass without a client update, and an expired
	// client would make SendPacket fail after the escrow (a partial effect of a failed call: property C05)
	cs := ibctm.NewClientState("counterparty-1", ibctm.DefaultTrustLevel, 200*365*24*time.Hour, 250*365*24*time.Hour, 10*time.Second,
		height, commitmenttypes.GetSDKSpecs(), []string{"upgrade", "upgradedIBCState"})
	cons := ibctm.NewConsensusState(ctx.BlockTime(), commitmenttypes.NewMerkleRoot([]byte("root")), make([]byte, 32))
	clientID, err := k.ClientKeeper.CreateClient(ctx, cs, cons)
	if err != nil {
		return err
	}
	connID := "connection-0"
	prefix := commitmenttypes.NewMerklePrefix([]byte("ibc"))
	conn := connectiontypes.NewConnectionEnd(connectiontypes.OPEN, clientID,
		connectiontypes.NewCounterparty("07-tendermint-0", "connection-0", prefix),
		connectiontypes.ExportedVersionsToProto(connectiontypes.GetCompatibleVersions()), 0)
	k.ConnectionKeeper.SetConnection(ctx, connID, conn)
	port, ch := "transfer", "channel-0"
	channel := channeltypes.NewChannel(channeltypes.OPEN, channeltypes.UNORDERED,
		channeltypes.NewCounterparty("transfer", "channel-0"), []string{connID}, transfertypes.Version)
	k.ChannelKeeper.SetChannel(ctx, port, ch, channel)
	k.ChannelKeeper.SetNextSequenceSend(ctx, port, ch, 1)
	k.ChannelKeeper.SetNextSequenceRecv(ctx, port, ch, 1)
	k.ChannelKeeper.SetNextSequenceAck(ctx, port, ch, 1)
	capName := host.ChannelCapabilityPath(port, ch)
	cp, err := e.App.ScopedIBCKeeper.NewCapability(ctx, capName)
	if err != nil {
		return err
	}
	return e.App.ScopedTransferKeeper.ClaimCapability(ctx, cp, capName)
}

func (b *paEnv) fork() *paEnv {
	cctx, _ := b.Ctx.CacheContext()
	c := *b
	c.Env = &Env{App: b.App, Ctx: cctx, ValPub: b.ValPub}
	return &c
}

func paCoin(d int, amt *big.Int) sdk.Coin {
	return sdk.NewCoin(paDenomName(d), sdkmath.NewIntFromBigInt(amt))
}

func paRecvName(i int) string {
	return []string{"cosmos1receiver0", "cosmos1receiver1", "cosmos1receiver2"}[i%3]
}

// paChanNum: the channel number behind a channel index (the number is what the observation and the model see)
func paChanNum(i int) int {
	if i < paNChan {
		return i
	}
	return 6 + i // does not exist
}

func paChanName(i int) string { return fmt.Sprintf("channel-%d", paChanNum(i)) }

func (e *paEnv) mkAuthorization(g paGrant) (authz.Authorization, error) {
	if g.Generic {
		return authz.NewGenericAuthorization(paKindURL(g.Kind)), nil
	}
	switch g.Kind {
	case "delegate", "undelegate", "redelegate", "cancel":
		at := map[string]stakingtypes.AuthorizationType{
			"delegate":   stakingtypes.AuthorizationType_AUTHORIZATION_TYPE_DELEGATE,
			"undelegate": stakingtypes.AuthorizationType_AUTHORIZATION_TYPE_UNDELEGATE,
			"redelegate": stakingtypes.AuthorizationType_AUTHORIZATION_TYPE_REDELEGATE,
			"cancel":     stakingtypes.AuthorizationType_AUTHORIZATION_TYPE_CANCEL_UNBONDING_DELEGATION}[g.Kind]
		var lim *sdk.Coin
		if g.Limit != "" {
			c := paCoin(0, bigOf(g.Limit))
			lim = &c
		}
		var al, dl []sdk.ValAddress
		for _, v := range g.Allow {
			al = append(al, e.vals[v])
		}
		for _, v := range g.Deny {
			dl = append(dl, e.vals[v])
		}
		return stakingtypes.NewStakeAuthorization(al, dl, at, lim)
	case "transfer":
		return e.mkTransferAuthz(g.Allocs), nil
	}
	return nil, fmt.Errorf("cannot build an authorization of kind %s", g.Kind)
}

func (e *paEnv) mkTransferAuthz(allocs []paAlloc) *transfertypes.TransferAuthorization {
	as := []transfertypes.Allocation{}
	for _, a := range allocs {
		cs := sdk.Coins{}
		for _, l := range a.Limits {
			d := int(bigOf(l[0]).Int64())
			amt := abi.MaxUint256
			if l[1] != "max" {
				amt = bigOf(l[1])
			}
			cs = append(cs, sdk.Coin{Denom: paDenomName(d), Amount: sdkmath.NewIntFromBigInt(amt)})
		}
		cs = cs.Sort()
		al := []string{}
		for _, r := range a.Allow {
			al = append(al, paRecvName(r))
		}
		as = append(as, transfertypes.Allocation{SourcePort: "transfer", SourceChannel: paChanName(a.Chan), SpendLimit: cs, AllowList: al})
	}
	return &transfertypes.TransferAuthorization{Allocations: as}
}

func (e *paEnv) setup(s paSetup) error {
	k := e.App.EvmKeeper
	codeHash := crypto.Keccak256Hash(scriptCode)
	k.SetCode(e.Ctx, codeHash.Bytes(), scriptCode)
	for a := 0; a < paNAct; a++ {
		tot := bigOf(s.Bal[a][0])
		for v := 0; v < paNVal; v++ {
			tot = new(big.Int).Add(tot, bigOf(s.Deleg[a][v]))
			tot = new(big.Int).Add(tot, bigOf(s.Unbond[a][v]))
		}
		acc := statedb.Account{Nonce: 0, Balance: tot, CodeHash: evmtypes.EmptyCodeHash}
		if a >= aC1 {
			acc.Nonce = 1
			acc.CodeHash = codeHash.Bytes()
		}
		if err := k.SetAccount(e.Ctx, evmAddr[a], acc); err != nil {
			return err
		}
		if b2 := bigOf(s.Bal[a][1]); b2.Sign() > 0 {
			if err := testutil.FundAccount(e.Ctx, e.App.BankKeeper, accOf(a), sdk.NewCoins(paCoin(1, b2))); err != nil {
				return err
			}
		}
	}
	for a := 0; a < paNAct; a++ {
		for v := 0; v < paNVal; v++ {
			dl := new(big.Int).Add(bigOf(s.Deleg[a][v]), bigOf(s.Unbond[a][v]))
			if dl.Sign() > 0 {
				if _, err := e.runMsg(stakingtypes.NewMsgDelegate(accOf(a), e.vals[v], paCoin(0, dl))); err != nil {
					return fmt.Errorf("setup delegate: %w", err)
				}
			}
			if u := bigOf(s.Unbond[a][v]); u.Sign() > 0 {
				if _, err := e.runMsg(stakingtypes.NewMsgUndelegate(accOf(a), e.vals[v], paCoin(0, u))); err != nil {
					return fmt.Errorf("setup undelegate: %w", err)
				}
			}
		}
	}
	for a := 0; a < paNAct && a < len(s.Withdraw); a++ {
		if s.Withdraw[a] >= 0 && s.Withdraw[a] != a {
			if err := e.App.DistrKeeper.SetWithdrawAddr(e.Ctx, accOf(a), accOf(s.Withdraw[a])); err != nil {
				return fmt.Errorf("setup withdraw addr: %w", err)
			}
		}
	}
	for _, g := range s.Grants {
		az, err := e.mkAuthorization(g)
		if err != nil {
			return err
		}
		var exp *time.Time
		if g.Exp != nil {
			// SaveGrant refuses an expiration that is not in the future: write such grants at an earlier block time
			t := e.t0.Add(time.Duration(*g.Exp) * time.Second)
			exp = &t
			ctx := e.Ctx
			if !t.After(ctx.BlockTime()) {
				ctx = ctx.WithBlockTime(t.Add(-time.Hour))
			}
			if err := e.App.AuthzKeeper.SaveGrant(ctx, accOf(g.Grantee), accOf(g.Granter), az, exp); err != nil {
				return fmt.Errorf("setup grant: %w", err)
			}
			continue
		}
		if err := e.App.AuthzKeeper.SaveGrant(e.Ctx, accOf(g.Grantee), accOf(g.Granter), az, nil); err != nil {
			return fmt.Errorf("setup grant: %w", err)
		}
	}
	// rewards accrue only after the height moved past the delegations
	e.Ctx = e.Ctx.WithBlockHeight(e.Ctx.BlockHeight() + 1)
	for v := 0; v < paNVal && v < len(s.Reward); v++ {
		if r := bigOf(s.Reward[v]); r.Sign() > 0 {
			coins := sdk.NewCoins(paCoin(0, r))
			if err := testutil.FundModuleAccount(e.Ctx, e.App.BankKeeper, distrtypes.ModuleName, coins); err != nil {
				return err
			}
			val := e.App.StakingKeeper.Validator(e.Ctx, e.vals[v])
			e.App.DistrKeeper.AllocateTokensToValidator(e.Ctx, val, sdk.NewDecCoinsFromCoins(coins...))
		}
	}
	return nil
}

// ---------------------------------------------------------------- observation
type paGrantObs struct {
	Granter int      `json:"granter"` // actor index, -2 = not an actor
	Grantee int      `json:"grantee"`
	Kind    string   `json:"kind"`   // message type it is stored under
	Type    string   `json:"type"`   // stake | transfer | generic | send | other
	Limit   string   `json:"limit"`  // stake: amount or "inf"
	Allow   []int    `json:"allowv"` // stake
	Deny    []int    `json:"denyv"`
	Allocs  []string `json:"allocs"` // transfer: "chan|d:amt,d:amt|r,r"
	Exp     string   `json:"exp"`    // seconds after the setup time, "never"
}

func (g paGrantObs) key() string {
	return fmt.Sprintf("%d>%d:%s", g.Granter, g.Grantee, g.Kind)
}
func (g paGrantObs) String() string {
	return fmt.Sprintf("%s=%s[%s|%v|%v|%v]exp=%s", g.key(), g.Type, g.Limit, g.Allow, g.Deny, g.Allocs, g.Exp)
}

type paObs struct {
	Bal      [][]string   `json:"bal"`      // [actor 0..6][denom]  (5, 6: the escrow accounts of channel-0, channel-1)
	Deleg    [][]string   `json:"deleg"`    // [actor][validator]
	Unbond   [][][]string `json:"unbond"`   // [actor][validator][0 = created by the setup, 1 = created later]
	Reward   [][]string   `json:"reward"`   // [actor][validator] pending (truncated); -1 = the delegation's distribution record is missing
	Withdraw []int        `json:"withdraw"` // actor index, -2 = other address
	Grants   []paGrantObs `json:"grants"`   // every grant in the authz store, sorted
}

func (e *paEnv) pendingReward(a, v int) (out *big.Int) {
	defer func() {
		if r := recover(); r != nil {
			out = big.NewInt(-1)
		}
	}()
	cctx, _ := e.Ctx.CacheContext()
	val := e.App.StakingKeeper.Validator(cctx, e.vals[v])
	del := e.App.StakingKeeper.Delegation(cctx, accOf(a), e.vals[v])
	if del == nil || val == nil {
		return big.NewInt(0)
	}
	end := e.App.DistrKeeper.IncrementValidatorPeriod(cctx, val)
	r := e.App.DistrKeeper.CalculateDelegationRewards(cctx, val, del, end)
	t, _ := r.TruncateDecimal()
	return t.AmountOf(utils.BaseDenom).BigInt()
}

func (e *paEnv) actorOf(addr sdk.AccAddress) int {
	for a := 0; a < paNAct; a++ {
		if accOf(a).Equals(addr) {
			return a
		}
	}
	if addr.Equals(e.escrow) {
		return paEscrow
	}
	if addr.Equals(e.escrow2) {
		return paEscrow2
	}
	return -2
}

func (e *paEnv) valIdx(s string) int {
	for i, v := range e.valStr {
		if v == s {
			return i
		}
	}
	return -2
}

func (e *paEnv) observe() paObs {
	o := paObs{}
	for a := 0; a <= paEscrow2; a++ {
		addr := e.escrow
		if a == paEscrow2 {
			addr = e.escrow2
		}
		if a < paNAct {
			addr = accOf(a)
		}
		o.Bal = append(o.Bal, []string{
			e.App.BankKeeper.GetBalance(e.Ctx, addr, utils.BaseDenom).Amount.String(),
			e.App.BankKeeper.GetBalance(e.Ctx, addr, paDenom2).Amount.String()})
	}
	for a := 0; a < paNAct; a++ {
		ds, us, rs := []string{}, [][]string{}, []string{}
		for v := 0; v < paNVal; v++ {
			d := big.NewInt(0)
			if del, found := e.App.StakingKeeper.GetDelegation(e.Ctx, accOf(a), e.vals[v]); found {
				val, _ := e.App.StakingKeeper.GetValidator(e.Ctx, e.vals[v])
				d = val.TokensFromShares(del.Shares).TruncateInt().BigInt()
			}
			ds = append(ds, d.String())
			u0, u1 := big.NewInt(0), big.NewInt(0)
			if ubd, found := e.App.StakingKeeper.GetUnbondingDelegation(e.Ctx, accOf(a), e.vals[v]); found {
				for _, en := range ubd.Entries {
					if en.CreationHeight <= e.h0 {
						u0.Add(u0, en.Balance.BigInt())
					} else {
						u1.Add(u1, en.Balance.BigInt())
					}
				}
			}
			us = append(us, []string{u0.String(), u1.String()})
			rs = append(rs, e.pendingReward(a, v).String())
		}
		o.Deleg = append(o.Deleg, ds)
		o.Unbond = append(o.Unbond, us)
		o.Reward = append(o.Reward, rs)
		o.Withdraw = append(o.Withdraw, e.actorOf(e.App.DistrKeeper.GetDelegatorWithdrawAddr(e.Ctx, accOf(a))))
	}
	o.Grants = []paGrantObs{}
	e.App.AuthzKeeper.IterateGrants(e.Ctx, func(granter, grantee sdk.AccAddress, g authz.Grant) bool {
		az, err := g.GetAuthorization()
		go_ := paGrantObs{Granter: e.actorOf(granter), Grantee: e.actorOf(grantee), Type: "other", Limit: "", Allow: []int{}, Deny: []int{}, Allocs: []string{}}
		if err != nil {
			go_.Kind = "undecodable"
		} else {
			go_.Kind = paKindOfURL(az.MsgTypeURL())
			switch t := az.(type) {
			case *stakingtypes.StakeAuthorization:
				go_.Type = "stake"
				go_.Limit = "inf"
				if t.MaxTokens != nil {
					go_.Limit = t.MaxTokens.Amount.String()
				}
				for _, s := range t.GetAllowList().GetAddress() {
					go_.Allow = append(go_.Allow, e.valIdx(s))
				}
				for _, s := range t.GetDenyList().GetAddress() {
					go_.Deny = append(go_.Deny, e.valIdx(s))
				}
			case *transfertypes.TransferAuthorization:
				go_.Type = "transfer"
				for _, al := range t.Allocations {
					ls := []string{}
					for _, c := range al.SpendLimit {
						d := 0
						if c.Denom != utils.BaseDenom {
							d = 1
						}
						amt := c.Amount.String()
						if c.Amount.BigInt().Cmp(abi.MaxUint256) == 0 {
							amt = "max"
						}
						ls = append(ls, fmt.Sprintf("%d:%s", d, amt))
					}
					rs := []string{}
					for _, r := range al.AllowList {
						rs = append(rs, r[len(r)-1:])
					}
					go_.Allocs = append(go_.Allocs, fmt.Sprintf("%s|%s|%s", strings.TrimPrefix(al.SourceChannel, "channel-"), strings.Join(ls, ","), strings.Join(rs, ",")))
				}
			case *authz.GenericAuthorization:
				go_.Type = "generic"
			case *banktypes.SendAuthorization:
				go_.Type = "send"
				go_.Limit = t.SpendLimit.String()
			}
		}
		go_.Exp = "never"
		if g.Expiration != nil {
			go_.Exp = fmt.Sprint(int64(g.Expiration.Sub(e.t0) / time.Second))
		}
		o.Grants = append(o.Grants, go_)
		return false
	})
	sort.Slice(o.Grants, func(i, j int) bool {
		a, b := o.Grants[i], o.Grants[j]
		if a.Granter != b.Granter {
			return a.Granter < b.Granter
		}
		if a.Grantee != b.Grantee {
			return a.Grantee < b.Grantee
		}
		return paKindIdx(a.Kind) < paKindIdx(b.Kind)
	})
	return o
}

// ---------------------------------------------------------------- encoding of calls
func paAmt(s string) *big.Int {
	if s == "max" {
		return abi.MaxUint256
	}
	return bigOf(s)
}

func (e *paEnv) packCall(c paCall) (target common.Address, data []byte) {
	var err error
	urls := []string{}
	for _, t := range c.Types {
		urls = append(urls, paKindURL(t))
	}
	switch c.M {
	case "delegate", "undelegate":
		data, err = e.sABI.Pack(c.M, evmAddr[c.Who], e.valStr[c.Val], paAmt(c.Amt))
		target = evmAddr[aPS]
	case "redelegate":
		data, err = e.sABI.Pack("redelegate", evmAddr[c.Who], e.valStr[c.Val], e.valStr[c.Dst], paAmt(c.Amt))
		target = evmAddr[aPS]
	case "cancel":
		data, err = e.sABI.Pack("cancelUnbondingDelegation", evmAddr[c.Who], e.valStr[c.Val], paAmt(c.Amt), big.NewInt(e.h0+int64(c.H)))
		target = evmAddr[aPS]
	case "createval":
		seed := make([]byte, 32)
		seed[0] = 0x77
		pk := ed25519.GenPrivKeyFromSecret(seed).PubKey()
		desc := stakingprecompile.Description{Moniker: "v3"}
		comm := stakingprecompile.Commission{Rate: big.NewInt(0), MaxRate: big.NewInt(0), MaxChangeRate: big.NewInt(0)}
		data, err = e.sABI.Pack("createValidator", desc, comm, big.NewInt(1), evmAddr[c.Who],
			sdk.ValAddress(accOf(c.Who)).String(), base64Std(pk.Bytes()), paAmt(c.Amt))
		target = evmAddr[aPS]
	case "approve", "increase", "decrease":
		name := map[string]string{"approve": "approve", "increase": "increaseAllowance", "decrease": "decreaseAllowance"}[c.M]
		data, err = e.sABI.Pack(name, evmAddr[c.Who], paAmt(c.Amt), urls)
		target = evmAddr[aPS]
	case "revoke":
		data, err = e.sABI.Pack("revoke", evmAddr[c.Who], urls)
		target = evmAddr[aPS]
	case "withdraw":
		data, err = e.dABI.Pack("withdrawDelegatorRewards", evmAddr[c.Who], e.valStr[c.Val])
		target = evmAddr[aPD]
	case "setwithdraw":
		data, err = e.dABI.Pack("setWithdrawAddress", evmAddr[c.Who], accOf(c.To).String())
		target = evmAddr[aPD]
	case "claim":
		data, err = e.dABI.Pack("claimRewards", evmAddr[c.Who], uint32(10))
		target = evmAddr[aPD]
	case "commission":
		// the named account is the validator operator in hex form of actor Who
		data, err = e.dABI.Pack("withdrawValidatorCommission", sdk.ValAddress(accOf(c.Who)).String())
		target = evmAddr[aPD]
	case "ics_transfer":
		data, err = e.iABI.Pack("transfer", "transfer", paChanName(c.Chan), paDenomName(c.Den), paAmt(c.Amt), evmAddr[c.Who], paRecvName(c.Recv),
			clienttypes.NewHeight(1, 1000), uint64(0), "")
		target = paICS
	case "ics_approve":
		as := []cmn.ICS20Allocation{}
		for _, a := range c.Alloc {
			cs := []cmn.Coin{}
			for _, l := range a.Limits {
				cs = append(cs, cmn.Coin{Denom: paDenomName(int(bigOf(l[0]).Int64())), Amount: paAmt(l[1])})
			}
			sort.Slice(cs, func(i, j int) bool { return cs[i].Denom < cs[j].Denom })
			al := []string{}
			for _, r := range a.Allow {
				al = append(al, paRecvName(r))
			}
			as = append(as, cmn.ICS20Allocation{SourcePort: "transfer", SourceChannel: paChanName(a.Chan), SpendLimit: cs, AllowList: al})
		}
		data, err = e.iABI.Pack("approve", evmAddr[c.Who], as)
		target = paICS
	case "ics_revoke":
		data, err = e.iABI.Pack("revoke", evmAddr[c.Who])
		target = paICS
	case "ics_increase", "ics_decrease":
		name := map[string]string{"ics_increase": "increaseAllowance", "ics_decrease": "decreaseAllowance"}[c.M]
		data, err = e.iABI.Pack(name, evmAddr[c.Who], "transfer", paChanName(c.Chan), paDenomName(c.Den), paAmt(c.Amt))
		target = paICS
	default:
		panic("bad precompile method " + c.M)
	}
	if err != nil {
		panic(fmt.Errorf("pack %s: %w", c.M, err))
	}
	return
}

func (e *paEnv) buildTx(t paTx) *ethtypes.Transaction {
	var to common.Address
	var data []byte
	if len(t.Path) == 0 {
		if len(t.Calls) != 1 {
			panic("a direct transaction carries exactly one call")
		}
		to, data = e.packCall(t.Calls[0])
	} else {
		body := []byte{}
		for _, c := range t.Calls {
			tg, d := e.packCall(c)
			var flags byte = 4 // forward a bounded amount of gas: a failing precompile burns what it was given
			if c.Catch {
				flags |= 1
			}
			body = append(body, encCall(flags, tg.Bytes(), big.NewInt(0), d)...)
		}
		for i := len(t.Path) - 1; i >= 1; i-- {
			// the outer contract calls the inner one and propagates its failure
			body = encCall(0, evmAddr[t.Path[i]].Bytes(), big.NewInt(0), body)
		}
		to, data = evmAddr[t.Path[0]], body
	}
	nonce := e.App.EvmKeeper.GetNonce(e.Ctx, evmAddr[aO])
	tx := ethtypes.NewTx(&ethtypes.LegacyTx{Nonce: nonce, GasPrice: big.NewInt(0), Gas: 2_000_000_000, To: &to, Value: big.NewInt(0), Data: data})
	signer := ethtypes.LatestSignerForChainID(e.App.EvmKeeper.ChainID())
	stx, err := ethtypes.SignTx(tx, signer, evmKeyO)
	if err != nil {
		panic(err)
	}
	return stx
}

// runTx executes the transaction through the real keeper.  With a tracer it
// calls ApplyMessageWithConfig (used only to learn which calls failed).
func (e *paEnv) runTx(tx *ethtypes.Transaction, tr *treeTracer) (bool, string) {
	ev := &evmEnv{Env: e.Env}
	ok, s := ev.run(tx, tr)
	return ok, s
}

// callResults: per call of the transaction, did the precompile frame succeed
func paCallResults(t paTx, root *frameEv) []bool {
	res := make([]bool, len(t.Calls))
	if root == nil {
		return res
	}
	f := root
	if len(t.Path) == 0 {
		res[0] = root.Err == ""
		return res
	}
	for i := 1; i < len(t.Path); i++ {
		if len(f.Children) == 0 {
			return res
		}
		f = f.Children[0]
	}
	for i := range t.Calls {
		if i < len(f.Children) {
			res[i] = f.Children[i].Err == ""
		}
	}
	return res
}

func base64Std(b []byte) string {
	const tbl = "ABCDEFGHIJKLMNOPQRSTUVWXYZabcdefghijklmnopqrstuvwxyz0123456789+/"
	out := []byte{}
	for i := 0; i < len(b); i += 3 {
		var n uint32
		rem := len(b) - i
		switch {
		case rem >= 3:
			n = uint32(b[i])<<16 | uint32(b[i+1])<<8 | uint32(b[i+2])
			out = append(out, tbl[n>>18&63], tbl[n>>12&63], tbl[n>>6&63], tbl[n&63])
		case rem == 2:
			n = uint32(b[i])<<16 | uint32(b[i+1])<<8
			out = append(out, tbl[n>>18&63], tbl[n>>12&63], tbl[n>>6&63], '=')
		default:
			n = uint32(b[i]) << 16
			out = append(out, tbl[n>>18&63], tbl[n>>12&63], '=', '=')
		}
	}
	return string(out)
}

// ---------------------------------------------------------------- Coq printing
func coqNs(xs []int) string {
	out := []string{}
	for _, x := range xs {
		out = append(out, coqN(x))
	}
	return coqList(out)
}

func coqGrid(g [][]string) string {
	rows := []string{}
	for _, r := range g {
		rows = append(rows, coqStrs(r))
	}
	return coqList(rows)
}

var paCoqKind = map[string]string{"delegate": "MDelegate", "undelegate": "MUndelegate", "redelegate": "MRedelegate",
	"cancel": "MCancel", "transfer": "MTransfer", "send": "MSend"}

func coqOptAmt(s string) string {
	if s == "max" {
		return "None"
	}
	return "(Some " + coqZ(bigOf(s)) + ")"
}

func coqAmt(s string) string { return coqZ(paAmt(s)) }

func coqTypes(ts []string) string {
	out := []string{}
	for _, t := range ts {
		if k, ok := paCoqKind[t]; ok {
			out = append(out, "Some "+k)
		} else {
			out = append(out, "None")
		}
	}
	return coqList(out)
}

func coqAllocs(as []paAlloc) string {
	out := []string{}
	for _, a := range as {
		ls := []string{}
		for _, l := range a.Limits {
			ls = append(ls, fmt.Sprintf("(%s%%N, %s)", l[0], coqAmt(l[1])))
		}
		out = append(out, fmt.Sprintf("mkalloc %s %s %s", coqN(paChanNum(a.Chan)), coqList(ls), coqNs(a.Allow)))
	}
	return coqList(out)
}

func coqCall(c paCall) string {
	switch c.M {
	case "delegate":
		return fmt.Sprintf("CDelegate %s %s %s", coqN(c.Who), coqN(c.Val), coqAmt(c.Amt))
	case "undelegate":
		return fmt.Sprintf("CUndelegate %s %s %s", coqN(c.Who), coqN(c.Val), coqAmt(c.Amt))
	case "redelegate":
		return fmt.Sprintf("CRedelegate %s %s %s %s", coqN(c.Who), coqN(c.Val), coqN(c.Dst), coqAmt(c.Amt))
	case "cancel":
		return fmt.Sprintf("CCancel %s %s %s", coqN(c.Who), coqN(c.Val), coqAmt(c.Amt))
	case "approve":
		return fmt.Sprintf("CApprove %s %s %s", coqN(c.Who), coqOptAmt(c.Amt), coqTypes(c.Types))
	case "increase":
		return fmt.Sprintf("CIncrease %s %s %s", coqN(c.Who), coqOptAmt(c.Amt), coqTypes(c.Types))
	case "decrease":
		return fmt.Sprintf("CDecrease %s %s %s", coqN(c.Who), coqOptAmt(c.Amt), coqTypes(c.Types))
	case "revoke":
		return fmt.Sprintf("CRevoke %s %s", coqN(c.Who), coqTypes(c.Types))
	case "setwithdraw":
		return fmt.Sprintf("CSetWithdraw %s %s", coqN(c.Who), coqN(c.To))
	case "withdraw":
		return fmt.Sprintf("CWithdraw %s %s", coqN(c.Who), coqN(c.Val))
	case "claim":
		return fmt.Sprintf("CClaim %s", coqN(c.Who))
	case "ics_transfer":
		return fmt.Sprintf("CIcsTransfer %s %s %s %s %s", coqN(c.Who), coqN(paChanNum(c.Chan)), coqN(c.Den), coqAmt(c.Amt), coqN(c.Recv%3))
	case "ics_approve":
		return fmt.Sprintf("CIcsApprove %s %s", coqN(c.Who), coqAllocs(c.Alloc))
	case "ics_revoke":
		return fmt.Sprintf("CIcsRevoke %s", coqN(c.Who))
	case "ics_increase":
		return fmt.Sprintf("CIcsIncrease %s %s %s %s", coqN(c.Who), coqN(paChanNum(c.Chan)), coqN(c.Den), coqAmt(c.Amt))
	case "ics_decrease":
		return fmt.Sprintf("CIcsDecrease %s %s %s %s", coqN(c.Who), coqN(paChanNum(c.Chan)), coqN(c.Den), coqAmt(c.Amt))
	}
	return ""
}

// the model covers every method except createValidator and withdrawValidatorCommission (identity list only)
func paModelled(in paInput) bool {
	for _, t := range in.Txs {
		for _, c := range t.Calls {
			if coqCall(c) == "" {
				return false
			}
		}
	}
	return true
}

func (g paGrantObs) coq() (string, bool) {
	k, ok := paCoqKind[g.Kind]
	if !ok || g.Granter < 0 || g.Granter >= paNAct || g.Grantee < 0 || g.Grantee >= paNAct {
		return "", false
	}
	var a string
	switch g.Type {
	case "stake":
		lim := "None"
		if g.Limit != "inf" {
			lim = "(Some " + coqZ(bigOf(g.Limit)) + ")"
		}
		a = fmt.Sprintf("AStake %s %s %s", lim, coqNs(g.Allow), coqNs(g.Deny))
	case "transfer":
		as := []string{}
		for _, s := range g.Allocs {
			f := strings.Split(s, "|")
			ls := []string{}
			if f[1] != "" {
				for _, l := range strings.Split(f[1], ",") {
					dl := strings.Split(l, ":")
					ls = append(ls, fmt.Sprintf("(%s%%N, %s)", dl[0], coqAmt(dl[1])))
				}
			}
			rs := []string{}
			if f[2] != "" {
				for _, r := range strings.Split(f[2], ",") {
					rs = append(rs, r+"%N")
				}
			}
			as = append(as, fmt.Sprintf("mkalloc %s%%N %s %s", f[0], coqList(ls), coqList(rs)))
		}
		a = "ATransfer " + coqList(as)
	case "generic":
		a = "AGeneric"
	default:
		return "", false
	}
	exp := "None"
	if g.Exp != "never" {
		exp = "(Some " + coqZ(bigOf(g.Exp)) + ")"
	}
	return fmt.Sprintf("(%s, %s, %s, mkgrant (%s) %s)", coqN(g.Granter), coqN(g.Grantee), k, a, exp), true
}

func coqGrants(gs []paGrantObs) (string, bool) {
	out := []string{}
	for _, g := range gs {
		s, ok := g.coq()
		if !ok {
			return "", false
		}
		out = append(out, s)
	}
	return coqList(out), true
}

func (o paObs) coq(ok bool, calls []bool) (string, bool) {
	cs := []string{}
	for _, c := range calls {
		cs = append(cs, coqBool(c))
	}
	ub := []string{}
	for _, a := range o.Unbond {
		row := []string{}
		for _, v := range a {
			row = append(row, fmt.Sprintf("(%s, %s)", coqZ(bigOf(v[0])), coqZ(bigOf(v[1]))))
		}
		ub = append(ub, coqList(row))
	}
	ws := []string{}
	for _, w := range o.Withdraw {
		ws = append(ws, coqZi(int64(w)))
	}
	gs, gok := coqGrants(o.Grants)
	if !gok {
		return "", false
	}
	return fmt.Sprintf("mkobs %s %s %s %s %s %s %s %s", coqBool(ok), coqList(cs), coqGrid(o.Bal), coqGrid(o.Deleg), coqList(ub),
		coqGrid(o.Reward), coqList(ws), gs), true
}

func (e *paEnv) valOrder() []int {
	idx := []int{}
	for i := range e.vals {
		idx = append(idx, i)
	}
	sort.Slice(idx, func(i, j int) bool { return string(e.vals[idx[i]]) < string(e.vals[idx[j]]) })
	return idx
}

func (e *paEnv) coqCase(in paInput, res paResult) (string, bool) {
	ub := [][]string{}
	for _, a := range res.Pre.Unbond {
		row := []string{}
		for _, v := range a {
			row = append(row, v[0])
		}
		ub = append(ub, row)
	}
	ws := []string{}
	for _, w := range res.Pre.Withdraw {
		if w < 0 {
			return "", false
		}
		ws = append(ws, coqN(w))
	}
	gs, ok := coqGrants(res.Pre.Grants)
	if !ok {
		return "", false
	}
	txs := []string{}
	for _, t := range in.Txs {
		cs := []string{}
		for _, c := range t.Calls {
			cs = append(cs, fmt.Sprintf("(%s, %s)", coqCall(c), coqBool(c.Catch)))
		}
		txs = append(txs, fmt.Sprintf("(%s, %s, %s)", coqZi(t.Dt), coqN(t.caller()), coqList(cs)))
	}
	ubt := int64(e.App.StakingKeeper.UnbondingTime(e.Ctx) / time.Second)
	hc := fmt.Sprintf("mkhcase %s %s %s %s %s %s %s %s %s", coqNs(e.valOrder()), coqZi(ubt), coqGrid(res.Pre.Bal[:paNAct]), coqGrid(res.Pre.Deleg),
		coqGrid(ub), coqGrid(res.Pre.Reward), coqList(ws), gs, coqList(txs))
	os := []string{}
	for _, r := range res.Txs {
		s, ok := r.After.coq(r.OK, r.Calls)
		if !ok {
			return "", false
		}
		os = append(os, s)
	}
	return fmt.Sprintf("(%s, %s)", hc, coqList(os)), true
}

// ---------------------------------------------------------------- the property, evaluated on the observations
func paCmp(a, b string) int { return bigOf(a).Cmp(bigOf(b)) }

func paGrantMap(o paObs) map[string]paGrantObs {
	m := map[string]paGrantObs{}
	for _, g := range o.Grants {
		m[g.key()] = g
	}
	return m
}

// paFrame: accounts other than the signer and the immediate caller can at most receive
func paFrame(before, after paObs, caller int) []string {
	msgs := []string{}
	for a := 0; a <= paEscrow2; a++ {
		if a == aO || a == caller {
			continue
		}
		for d := 0; d < 2; d++ {
			if paCmp(after.Bal[a][d], before.Bal[a][d]) < 0 {
				msgs = append(msgs, fmt.Sprintf("balance[%s][%s] fell from %s to %s", paActorName[a], paDenomName(d), before.Bal[a][d], after.Bal[a][d]))
			}
		}
		if a >= paNAct {
			continue
		}
		for v := 0; v < paNVal; v++ {
			if paCmp(after.Deleg[a][v], before.Deleg[a][v]) < 0 {
				msgs = append(msgs, fmt.Sprintf("delegation[%s][v%d] fell from %s to %s", paActorName[a], v, before.Deleg[a][v], after.Deleg[a][v]))
			}
			for h := 0; h < 2; h++ {
				if paCmp(after.Unbond[a][v][h], before.Unbond[a][v][h]) < 0 {
					msgs = append(msgs, fmt.Sprintf("unbonding[%s][v%d] fell from %s to %s", paActorName[a], v, before.Unbond[a][v][h], after.Unbond[a][v][h]))
				}
			}
			if paCmp(after.Reward[a][v], before.Reward[a][v]) < 0 {
				msgs = append(msgs, fmt.Sprintf("pending-rewards[%s][v%d] fell from %s to %s", paActorName[a], v, before.Reward[a][v], after.Reward[a][v]))
			}
		}
		if after.Withdraw[a] != before.Withdraw[a] {
			msgs = append(msgs, fmt.Sprintf("withdraw-address[%s] changed from %d to %d", paActorName[a], before.Withdraw[a], after.Withdraw[a]))
		}
	}
	// grants belong to their granter
	bm, am := paGrantMap(before), paGrantMap(after)
	for k, g := range bm {
		if g.Granter == aO || g.Granter == caller {
			continue
		}
		if h, ok := am[k]; !ok || h.String() != g.String() {
			msgs = append(msgs, fmt.Sprintf("grant %s of a third account changed", g.String()))
		}
	}
	for k, g := range am {
		if g.Granter == aO || g.Granter == caller {
			continue
		}
		if _, ok := bm[k]; !ok {
			msgs = append(msgs, fmt.Sprintf("grant %s appeared in the name of a third account", g.String()))
		}
	}
	return msgs
}

// paEffect: did the named account's stake / funds move the way the spend call moves them
func paEffect(before, after paObs, c paCall) bool {
	w := c.Who
	if w >= paNAct {
		return false
	}
	switch c.M {
	case "delegate", "undelegate":
		return before.Deleg[w][c.Val] != after.Deleg[w][c.Val]
	case "redelegate":
		return before.Deleg[w][c.Val] != after.Deleg[w][c.Val] || before.Deleg[w][c.Dst] != after.Deleg[w][c.Dst]
	case "cancel":
		return before.Unbond[w][c.Val][0] != after.Unbond[w][c.Val][0]
	case "ics_transfer":
		// every channel escrows into its own account
		if c.Chan >= paNChan {
			return false
		}
		return before.Bal[paEscrow+c.Chan][c.Den] != after.Bal[paEscrow+c.Chan][c.Den]
	}
	return false
}

func paHas(xs []int, v int) bool {
	for _, x := range xs {
		if x == v {
			return true
		}
	}
	return false
}

// paCovers: is g a live grant covering the spend call c at time now (seconds after the setup time)?
// returns (covered, limited, limit)
func paCovers(g paGrantObs, c paCall, now int64) (bool, bool, *big.Int) {
	if g.Exp != "never" && bigOf(g.Exp).Int64() < now {
		return false, false, nil
	}
	amt := paAmt(c.Amt)
	switch c.M {
	case "delegate", "undelegate", "redelegate", "cancel":
		if g.Type != "stake" {
			return false, false, nil
		}
		val := c.Val
		if c.M == "redelegate" {
			val = c.Dst
		}
		if paHas(g.Deny, val) || (len(g.Allow) > 0 && !paHas(g.Allow, val)) {
			return false, false, nil
		}
		if g.Limit == "inf" {
			return true, false, nil
		}
		return bigOf(g.Limit).Cmp(amt) >= 0, true, bigOf(g.Limit)
	case "ics_transfer":
		if g.Type != "transfer" {
			return false, false, nil
		}
		for _, s := range g.Allocs {
			f := strings.Split(s, "|")
			if f[0] != strings.TrimPrefix(paChanName(c.Chan), "channel-") {
				continue
			}
			if f[2] != "" && !strings.Contains(","+f[2]+",", fmt.Sprintf(",%d,", c.Recv%3)) {
				return false, false, nil
			}
			for _, l := range strings.Split(f[1], ",") {
				dl := strings.Split(l, ":")
				if len(dl) == 2 && dl[0] == fmt.Sprint(c.Den) {
					if dl[1] == "max" {
						return true, false, nil
					}
					return bigOf(dl[1]).Cmp(amt) >= 0, true, bigOf(dl[1])
				}
			}
			return false, false, nil
		}
	}
	return false, false, nil
}

// paLimitOf extracts the remaining limit that the spend call c draws on (nil: no such limit / no grant)
func paLimitOf(g paGrantObs, c paCall) *big.Int {
	if c.M == "ics_transfer" {
		for _, s := range g.Allocs {
			f := strings.Split(s, "|")
			if f[0] != strings.TrimPrefix(paChanName(c.Chan), "channel-") {
				continue
			}
			for _, l := range strings.Split(f[1], ",") {
				dl := strings.Split(l, ":")
				if len(dl) == 2 && dl[0] == fmt.Sprint(c.Den) && dl[1] != "max" {
					return bigOf(dl[1])
				}
			}
			return nil
		}
		return nil
	}
	if g.Type == "stake" && g.Limit != "inf" {
		return bigOf(g.Limit)
	}
	return nil
}

// paGrantClause: a spend by a caller that is not the signer needs a live covering grant signer -> caller,
// a limited grant goes down by exactly the amount, an unlimited one does not change
func paGrantClause(before, after paObs, t paTx, now int64) []string {
	caller := t.caller()
	if caller == aO || len(t.Calls) != 1 {
		return nil
	}
	c := t.Calls[0]
	if c.M == "createval" {
		// createValidator stakes the named account's coins; no authorization covers MsgCreateValidator, so a caller
		// that is not the signer can never have "a live grant covering the message type": any effect is a violation
		if w := c.Who; w < paNAct && (paCmp(after.Bal[w][0], before.Bal[w][0]) < 0) {
			return []string{fmt.Sprintf("createValidator by %s (not the signer) staked %s's coins (balance %s -> %s): no grant covers it",
				paActorName[caller], paActorName[w], before.Bal[w][0], after.Bal[w][0])}
		}
		return nil
	}
	kind, ok := paSpend[c.M]
	if !ok {
		return nil
	}
	key := fmt.Sprintf("%d>%d:%s", aO, caller, kind)
	gb, hasB := paGrantMap(before)[key]
	ga, hasA := paGrantMap(after)[key]
	msgs := []string{}
	if !paEffect(before, after, c) {
		if hasB != hasA || (hasB && gb.String() != ga.String()) {
			msgs = append(msgs, fmt.Sprintf("the %s call of %s had no effect but the grant changed from %v to %v", c.M, paActorName[caller], gb, ga))
		}
		return msgs
	}
	if !hasB {
		return []string{fmt.Sprintf("%s by %s (not the signer) took effect without any grant %s", c.M, paActorName[caller], key)}
	}
	cov, limited, lim := paCovers(gb, c, now)
	if !cov {
		return []string{fmt.Sprintf("%s of %s by %s (not the signer) took effect although the grant %s does not cover it at time %d", c.M, c.Amt, paActorName[caller], gb.String(), now)}
	}
	if !limited {
		if !hasA || ga.String() != gb.String() {
			msgs = append(msgs, fmt.Sprintf("an unlimited grant changed by a spend: %v -> %v", gb, ga))
		}
		return msgs
	}
	left := new(big.Int).Sub(lim, paAmt(c.Amt))
	var got *big.Int
	if hasA {
		got = paLimitOf(ga, c)
	}
	switch {
	case got == nil && left.Sign() != 0:
		msgs = append(msgs, fmt.Sprintf("limit %s, spent %s: the remaining limit should be %s but the grant / allowance is gone (%v)", lim, c.Amt, left, ga))
	case got != nil && got.Cmp(left) != 0:
		msgs = append(msgs, fmt.Sprintf("limit %s, spent %s: the remaining limit is %s, not %s", lim, c.Amt, got, left))
	}
	if hasA && (ga.Exp != gb.Exp || fmt.Sprint(ga.Allow) != fmt.Sprint(gb.Allow) || fmt.Sprint(ga.Deny) != fmt.Sprint(gb.Deny)) {
		msgs = append(msgs, fmt.Sprintf("the spend changed the grant's expiration or validator list: %v -> %v", gb, ga))
	}
	return msgs
}

// ---------------------------------------------------------------- finding classes (shape of the input at the point of the call)
// "authz:grant-rejects-after-spend": a staking / ICS-20 spend by a contract whose grant from the signer is
// live and large enough but (a) does not admit the validator, or (b) expires exactly at the block time.
func paClass(before paObs, t paTx, now int64) string {
	caller := t.caller()
	if caller == aO {
		return ""
	}
	gm := paGrantMap(before)
	for _, c := range t.Calls {
		kind, ok := paSpend[c.M]
		if !ok || (c.Who != aO && c.Who != caller) {
			continue
		}
		g, has := gm[fmt.Sprintf("%d>%d:%s", aO, caller, kind)]
		if !has || (g.Exp != "never" && bigOf(g.Exp).Int64() < now) {
			continue
		}
		amt := paAmt(c.Amt)
		expiresNow := g.Exp != "never" && bigOf(g.Exp).Int64() == now
		if c.M == "ics_transfer" {
			cov, limited, lim := paCovers(g, c, now)
			if !cov || !limited || !expiresNow {
				continue
			}
			exhausts := lim.Cmp(amt) == 0 && len(g.Allocs) == 1 && !strings.Contains(g.Allocs[0], ",")
			if !exhausts {
				return "authz:grant-rejects-after-spend" // the updated grant cannot be saved
			}
			continue
		}
		if g.Type != "stake" || (g.Limit != "inf" && bigOf(g.Limit).Cmp(amt) < 0) {
			continue
		}
		val := c.Val
		if c.M == "redelegate" {
			val = c.Dst
		}
		if paHas(g.Deny, val) || (len(g.Allow) > 0 && !paHas(g.Allow, val)) {
			return "authz:grant-rejects-after-spend" // Accept rejects the validator after the message ran
		}
		if expiresNow && !(g.Limit != "inf" && bigOf(g.Limit).Cmp(amt) == 0) {
			return "authz:grant-rejects-after-spend" // the updated grant cannot be saved
		}
	}
	return ""
}

// ---------------------------------------------------------------- one case
type paTxRes struct {
	OK    bool     `json:"ok"`
	Err   string   `json:"err,omitempty"`
	Calls []bool   `json:"calls"` // per call: the precompile frame succeeded
	Errs  []string `json:"errs"`  // per call: why the precompile frame failed
	After paObs    `json:"after"`
}

type paResult struct {
	Pre paObs     `json:"pre"`
	Txs []paTxRes `json:"txs"`
}

func paCallFrames(t paTx, root *frameEv) []*frameEv {
	res := make([]*frameEv, len(t.Calls))
	if root == nil {
		return res
	}
	if len(t.Path) == 0 {
		res[0] = root
		return res
	}
	f := root
	for i := 1; i < len(t.Path); i++ {
		if len(f.Children) == 0 {
			return res
		}
		f = f.Children[0]
	}
	for i := range t.Calls {
		if i < len(f.Children) {
			res[i] = f.Children[i]
		}
	}
	return res
}

func paIdentityErr(s string) bool {
	return strings.Contains(s, "is not the same as delegator address") || strings.Contains(s, "does not match the delegator address") ||
		strings.Contains(s, "is not the same as sender address") || strings.Contains(s, "is not the origin address")
}

var paCoqMethod = map[string]string{"delegate": "SDelegate", "undelegate": "SUndelegate", "redelegate": "SRedelegate", "cancel": "SCancelUnbonding",
	"createval": "SCreateValidator", "approve": "SApprove", "revoke": "SRevoke", "increase": "SIncreaseAllowance", "decrease": "SDecreaseAllowance",
	"setwithdraw": "DSetWithdrawAddress", "withdraw": "DWithdrawDelegatorRewards", "commission": "DWithdrawValidatorCommission", "claim": "DClaimRewards",
	"ics_transfer": "ITransfer", "ics_approve": "IApprove", "ics_revoke": "IRevoke", "ics_increase": "IIncreaseAllowance", "ics_decrease": "IDecreaseAllowance"}

func paRunCase(id string, in paInput) []Case {
	base := paBaseEnv()
	kb, _ := json.Marshal(in)
	c := Case{ID: id, Kind: "history", Input: in, CoqList: "cases", Key: string(kb)}
	e := base.fork()
	if err := e.setup(in.Setup); err != nil {
		c.OracleOK = true
		c.Tags = []string{"setup-failed"}
		c.OracleMsg = "setup failed (case skipped): " + err.Error()
		return []Case{c}
	}
	res := paResult{Pre: e.observe()}
	before := res.Pre
	msgs := []string{}
	tags := map[string]bool{}
	idCases := []Case{}
	nontrivial := false
	now := int64(0)
	acc := newPaAccounting(res.Pre)
	for ti, t := range in.Txs {
		now += t.Dt
		e.Ctx = e.Ctx.WithBlockTime(e.t0.Add(time.Duration(now) * time.Second))
		// which calls fail, and why? (copy of the same state, tracer attached)
		e2 := e.fork()
		tr := &treeTracer{}
		e2.runTx(e2.buildTx(t), tr)
		ok, errStr := e.runTx(e.buildTx(t), nil)
		r := paTxRes{OK: ok, Err: errStr, After: e.observe()}
		frames := paCallFrames(t, tr.root)
		for _, f := range frames {
			r.Calls = append(r.Calls, ok && f != nil && f.Err == "")
			es := "not-run"
			if f != nil {
				es = f.Err
			}
			r.Errs = append(r.Errs, es)
		}
		res.Txs = append(res.Txs, r)
		after := r.After
		caller := t.caller()

		// ---- the property
		for _, m := range paFrame(before, after, caller) {
			msgs = append(msgs, fmt.Sprintf("tx %d (caller %s): a third account is affected: %s", ti, paActorName[caller], m))
		}
		for _, m := range paGrantClause(before, after, t, now) {
			msgs = append(msgs, fmt.Sprintf("tx %d: %s", ti, m))
		}
		for _, m := range acc.step(before, after, t, r.Calls) {
			msgs = append(msgs, fmt.Sprintf("tx %d: %s", ti, m))
		}
		if cl := paClass(before, t, now); cl != "" {
			c.Class = cl
		}

		// ---- distribution tags
		shape := []string{"direct", "via-contract", "via-two-contracts"}[len(t.Path)]
		for i, cc := range t.Calls {
			rel := "third"
			switch {
			case cc.Who == aO:
				rel = "signer"
			case cc.Who == caller:
				rel = "caller"
			}
			out := "fail"
			if r.Calls[i] {
				out = "ok"
				nontrivial = true
			}
			tags[fmt.Sprintf("%s:%s:named=%s:%s", cc.M, shape, rel, out)] = true
			switch cc.M {
			case "ics_approve":
				nc := 0
				for _, al := range cc.Alloc {
					nc += len(al.Limits)
				}
				tags[fmt.Sprintf("ics_approve:allocations=%d:coins=%d:%s", len(cc.Alloc), nc, out)] = true
			case "ics_transfer", "ics_increase", "ics_decrease":
				tags[fmt.Sprintf("%s:%s:%s:%s", cc.M, paChanName(cc.Chan), paDenomName(cc.Den), out)] = true
			}
			if !r.Calls[i] && paIdentityErr(r.Errs[i]) {
				tags["rejected-by-identity:"+cc.M] = true
			}
		}
		if len(t.Calls) == 1 && len(in.Txs) == 1 && frames[0] != nil {
			cc := t.Calls[0]
			rej := !r.Calls[0] && paIdentityErr(r.Errs[0])
			idCases = append(idCases, Case{ID: id + "#id", Kind: "identity", Input: in, CoqList: "idcases", OracleOK: true, Nontrivial: true,
				Key:  fmt.Sprintf("id:%s:%d:%d", cc.M, caller, cc.Who),
				Obs:  map[string]interface{}{"method": cc.M, "caller": caller, "named": cc.Who, "rejected_by_identity_check": rej, "err": r.Errs[0]},
				Coq:  fmt.Sprintf("(%s, %s, %s, %s, %s)", paCoqMethod[cc.M], coqN(aO), coqN(caller), coqN(cc.Who), coqBool(rej)),
				Tags: []string{"identity-verdict"}})
		}
		before = after
	}
	c.Obs = res
	c.OracleOK = len(msgs) == 0
	c.OracleMsg = strings.Join(msgs, "; ")
	c.Nontrivial = nontrivial
	for t := range tags {
		c.Tags = append(c.Tags, t)
	}
	sort.Strings(c.Tags)
	if paModelled(in) {
		if s, ok := e.coqCase(in, res); ok {
			c.Coq = s
		}
	}
	return append([]Case{c}, idCases...)
}

// ---------------------------------------------------------------- running allowance (over a history)
// Per (grantee, message kind) of the signer's grants: what was granted since the last successful approve
// (+ increases - decreases) and what was spent since; spent must never exceed granted.
type paAcct struct {
	known   bool
	limited bool
	granted *big.Int
	spent   *big.Int
}
type paAccounting struct {
	m map[string]*paAcct
	// ICS-20: per grantee, the allowance of every (channel, denomination) of the signer's TransferAuthorization
	ics        map[int]*paIcsAcct
	icsUnknown bool // after a transaction whose calls cannot be told apart: nothing is known about grantees not in ics
}

// paIcsAcct: what the signer granted one grantee since the grant was last (re)defined by approve / revoke,
// per "channel number:denomination index"; a pair that is not listed was granted nothing.
type paIcsAcct struct {
	known bool
	ent   map[string]*paAcct
}

func paIcsKey(chanNum, den int) string { return fmt.Sprintf("%d:%d", chanNum, den) }

// paIcsFromAllocs: the allowances a list of allocations grants (first allocation of a channel, first coin of a
// denomination, as TransferAuthorization.Accept reads them)
func paIcsFromAllocs(allocs []paAlloc) *paIcsAcct {
	x := &paIcsAcct{known: true, ent: map[string]*paAcct{}}
	seenCh := map[int]bool{}
	for _, al := range allocs {
		cn := paChanNum(al.Chan)
		if seenCh[cn] {
			continue
		}
		seenCh[cn] = true
		for _, l := range al.Limits {
			k := paIcsKey(cn, int(bigOf(l[0]).Int64()))
			if _, dup := x.ent[k]; dup {
				continue
			}
			if l[1] == "max" || paAmt(l[1]).Cmp(abi.MaxUint256) == 0 {
				x.ent[k] = &paAcct{known: true, limited: false}
			} else {
				x.ent[k] = &paAcct{known: true, limited: true, granted: paAmt(l[1]), spent: big.NewInt(0)}
			}
		}
	}
	return x
}

// paIcsFromObs: the same from an observed grant ("chan|d:amt,d:amt|r,r")
func paIcsFromObs(g paGrantObs) *paIcsAcct {
	x := &paIcsAcct{known: true, ent: map[string]*paAcct{}}
	if g.Type != "transfer" {
		return x // any other authorization under MsgTransfer grants the precompile nothing
	}
	seenCh := map[string]bool{}
	for _, s := range g.Allocs {
		f := strings.Split(s, "|")
		if seenCh[f[0]] {
			continue
		}
		seenCh[f[0]] = true
		if f[1] == "" {
			continue
		}
		for _, l := range strings.Split(f[1], ",") {
			dl := strings.Split(l, ":")
			k := f[0] + ":" + dl[0]
			if _, dup := x.ent[k]; dup {
				continue
			}
			if dl[1] == "max" {
				x.ent[k] = &paAcct{known: true, limited: false}
			} else {
				x.ent[k] = &paAcct{known: true, limited: true, granted: bigOf(dl[1]), spent: big.NewInt(0)}
			}
		}
	}
	return x
}

func (a *paAccounting) icsOf(grantee int) *paIcsAcct {
	if x, ok := a.ics[grantee]; ok {
		return x
	}
	x := &paIcsAcct{known: !a.icsUnknown, ent: map[string]*paAcct{}}
	a.ics[grantee] = x
	return x
}

// stepIcs: the ICS-20 part of the running allowance.  approve(grantee, allocations) (re)defines the allowance of
// EVERY (channel, denomination) as exactly the amounts the call names (nothing for the pairs it does not name);
// increase / decrease change one pair; revoke leaves nothing; a transfer by the grantee that took effect is spent
// from the pair of its channel and denomination.  Spent must never exceed granted.
func (a *paAccounting) stepIcs(before, after paObs, t paTx, calls []bool) []string {
	c := t.Calls[0]
	caller := t.caller()
	gkey := func(grantee int) string { return fmt.Sprintf("%d>%d:transfer", aO, grantee) }
	unchanged := func(grantee int) bool {
		gb, hb := paGrantMap(before)[gkey(grantee)]
		ga, ha := paGrantMap(after)[gkey(grantee)]
		return hb == ha && (!hb || gb.String() == ga.String())
	}
	switch c.M {
	case "ics_approve", "ics_revoke", "ics_increase", "ics_decrease":
		if c.Who >= paNAct {
			return nil
		}
		if !calls[0] {
			if !unchanged(c.Who) {
				a.ics[c.Who] = &paIcsAcct{known: false} // a failed call that wrote: nothing is known any more
			}
			return nil
		}
		switch c.M {
		case "ics_approve":
			a.ics[c.Who] = paIcsFromAllocs(c.Alloc)
		case "ics_revoke":
			a.ics[c.Who] = &paIcsAcct{known: true, ent: map[string]*paAcct{}}
		default:
			x := a.icsOf(c.Who)
			if !x.known {
				return nil
			}
			k := paIcsKey(paChanNum(c.Chan), c.Den)
			en := x.ent[k]
			amt := paAmt(c.Amt)
			switch {
			case en == nil:
				// the call succeeded on an allowance the accounting does not list: stop accounting this grantee
				x.known = false
			case !en.limited:
				if c.M == "ics_decrease" && amt.Sign() > 0 {
					// the unbounded sentinel minus the amount: a new, limited allowance
					x.ent[k] = &paAcct{known: true, limited: true, granted: new(big.Int).Sub(abi.MaxUint256, amt), spent: big.NewInt(0)}
				}
			case c.M == "ics_increase":
				en.granted = new(big.Int).Add(en.granted, amt)
				if new(big.Int).Sub(en.granted, en.spent).Cmp(abi.MaxUint256) == 0 {
					en.limited = false // increased to exactly the sentinel: unbounded from now on
				}
			default:
				en.granted = new(big.Int).Sub(en.granted, amt)
			}
		}
	case "ics_transfer":
		if caller == aO || !paEffect(before, after, c) {
			return nil
		}
		x := a.icsOf(caller)
		if !x.known {
			return nil
		}
		k := paIcsKey(paChanNum(c.Chan), c.Den)
		en := x.ent[k]
		if en == nil {
			en = &paAcct{known: true, limited: true, granted: big.NewInt(0), spent: big.NewInt(0)}
			x.ent[k] = en
		}
		if en.limited {
			en.spent = new(big.Int).Add(en.spent, paAmt(c.Amt))
			if en.spent.Cmp(en.granted) > 0 {
				return []string{fmt.Sprintf("%s has transferred %s %s of the signer's funds over %s, but the signer's approve / increaseAllowance / decreaseAllowance calls since the "+
					"last approve grant %s only %s %s on that channel", paActorName[caller], en.spent, paDenomName(c.Den), paChanName(c.Chan), paActorName[caller], en.granted, paDenomName(c.Den))}
			}
		}
	}
	return nil
}

// the grants the signer gave before the history count as approvals of their limit
func newPaAccounting(pre paObs) *paAccounting {
	a := &paAccounting{m: map[string]*paAcct{}, ics: map[int]*paIcsAcct{}}
	for _, g := range pre.Grants {
		if g.Granter == aO && g.Kind == "transfer" && g.Grantee >= 0 && g.Grantee < paNAct {
			a.ics[g.Grantee] = paIcsFromObs(g)
		}
		if g.Granter != aO || g.Type != "stake" {
			continue
		}
		k := fmt.Sprintf("%d:%s", g.Grantee, g.Kind)
		if g.Limit == "inf" {
			a.m[k] = &paAcct{known: true, limited: false}
		} else {
			a.m[k] = &paAcct{known: true, limited: true, granted: bigOf(g.Limit), spent: big.NewInt(0)}
		}
	}
	return a
}

func (a *paAccounting) step(before, after paObs, t paTx, calls []bool) []string {
	msgs := []string{}
	caller := t.caller()
	if len(t.Calls) != 1 {
		// several calls in one transaction: the per-call effects are not separable from the outside; restart the accounting
		a.m = map[string]*paAcct{}
		a.ics = map[int]*paIcsAcct{}
		a.icsUnknown = true
		return nil
	}
	c := t.Calls[0]
	if strings.HasPrefix(c.M, "ics_") {
		return a.stepIcs(before, after, t, calls)
	}
	switch c.M {
	case "approve", "increase", "decrease", "revoke":
		if !calls[0] {
			// a failed call over several types may have written some of them: forget those
			for _, ty := range c.Types {
				delete(a.m, fmt.Sprintf("%d:%s", c.Who, ty))
			}
			return nil
		}
		for _, ty := range c.Types {
			k := fmt.Sprintf("%d:%s", c.Who, ty)
			switch c.M {
			case "approve":
				if c.Amt == "max" {
					a.m[k] = &paAcct{known: true, limited: false}
				} else {
					a.m[k] = &paAcct{known: true, limited: true, granted: paAmt(c.Amt), spent: big.NewInt(0)}
				}
			case "revoke":
				a.m[k] = &paAcct{known: true, limited: true, granted: big.NewInt(0), spent: big.NewInt(0)}
			case "increase":
				if x := a.m[k]; x != nil && x.known && x.limited {
					x.granted = new(big.Int).Add(x.granted, paAmt(c.Amt))
				}
			case "decrease":
				if x := a.m[k]; x != nil && x.known && x.limited {
					x.granted = new(big.Int).Sub(x.granted, paAmt(c.Amt))
				}
			}
		}
	case "delegate", "undelegate", "redelegate", "cancel":
		if caller == aO || !paEffect(before, after, c) {
			return nil
		}
		k := fmt.Sprintf("%d:%s", caller, paSpend[c.M])
		if x := a.m[k]; x != nil && x.known && x.limited {
			x.spent = new(big.Int).Add(x.spent, paAmt(c.Amt))
			if x.spent.Cmp(x.granted) > 0 {
				msgs = append(msgs, fmt.Sprintf("%s has spent %s of the signer's %s allowance of %s granted since the last approve", paActorName[caller], x.spent, paSpend[c.M], x.granted))
			}
		}
	}
	return msgs
}

// ---------------------------------------------------------------- generators
func paI64p(x int64) *int64 { return &x }

func paStdSetup() paSetup {
	s := paSetup{Reward: []string{"50000000000000000", "30000000000000000"}, Withdraw: []int{-1, -1, -1, -1, -1}}
	for a := 0; a < paNAct; a++ {
		s.Bal = append(s.Bal, []string{"5000", "700"})
		s.Deleg = append(s.Deleg, []string{"2000", "1000"})
		s.Unbond = append(s.Unbond, []string{"300", "200"})
	}
	return s
}

type paNamedCase struct {
	name string
	in   paInput
}

func paPaths() [][]int { return [][]int{{}, {aC1}, {aC1, aC2}} }

func paSpendCall(m string, who int) paCall {
	switch m {
	case "delegate":
		return paCall{M: m, Who: who, Val: 1, Amt: "300", Catch: true}
	case "undelegate":
		return paCall{M: m, Who: who, Val: 1, Amt: "300", Catch: true}
	case "redelegate":
		return paCall{M: m, Who: who, Val: 0, Dst: 1, Amt: "300", Catch: true}
	case "cancel":
		return paCall{M: m, Who: who, Val: 1, Amt: "100", Catch: true}
	case "ics_transfer":
		return paCall{M: m, Who: who, Chan: 0, Den: 0, Amt: "300", Recv: 0, Catch: true}
	}
	panic(m)
}

// the grant states of the matrix for a spend of `amt` by `grantee` (granter: the signer unless stated)
type paGState struct {
	name   string
	grants func(grantee int, kind string, amt int64) []paGrant
	dt     int64
}

func paStakeGStates() []paGState {
	both := []int{0, 1}
	mk := func(lim string, allow, deny []int, exp *int64) func(int, string, int64) []paGrant {
		return func(g int, k string, amt int64) []paGrant {
			l := lim
			switch lim {
			case "below":
				l = fmt.Sprint(amt - 1)
			case "equal":
				l = fmt.Sprint(amt)
			case "above":
				l = fmt.Sprint(amt + 700)
			}
			return []paGrant{{Granter: aO, Grantee: g, Kind: k, Limit: l, Allow: allow, Deny: deny, Exp: exp}}
		}
	}
	other := map[string]string{"delegate": "undelegate", "undelegate": "redelegate", "redelegate": "cancel", "cancel": "delegate"}
	return []paGState{
		{"absent", func(int, string, int64) []paGrant { return nil }, 0},
		{"expired", mk("above", both, nil, paI64p(1000)), 1001},
		{"expires-this-block", mk("above", both, nil, paI64p(1000)), 1000},
		{"expires-this-block-unlimited", mk("", both, nil, paI64p(1000)), 1000},
		{"expires-this-block-exhausted", mk("equal", both, nil, paI64p(1000)), 1000},
		{"other-message-type", func(g int, k string, amt int64) []paGrant {
			return []paGrant{{Granter: aO, Grantee: g, Kind: other[k], Limit: "", Allow: both, Exp: paI64p(5000)}}
		}, 0},
		{"generic-authorization", func(g int, k string, amt int64) []paGrant {
			return []paGrant{{Granter: aO, Grantee: g, Kind: k, Generic: true, Exp: paI64p(5000)}}
		}, 0},
		{"validator-not-in-allow-list", mk("above", []int{0}, nil, paI64p(5000)), 0},
		{"validator-in-deny-list", mk("above", nil, []int{1}, paI64p(5000)), 0},
		{"other-validator-in-deny-list", mk("above", nil, []int{0}, paI64p(5000)), 0},
		{"limit-below", mk("below", both, nil, paI64p(5000)), 0},
		{"limit-equal", mk("equal", both, nil, paI64p(5000)), 0},
		{"limit-above", mk("above", both, nil, paI64p(5000)), 0},
		{"unlimited", mk("", both, nil, paI64p(5000)), 0},
		{"never-expires", mk("above", both, nil, nil), 100000},
		{"granted-by-third-account", func(g int, k string, amt int64) []paGrant {
			return []paGrant{{Granter: aP, Grantee: g, Kind: k, Limit: "", Allow: both, Exp: paI64p(5000)}}
		}, 0},
		{"granted-to-another-contract", func(g int, k string, amt int64) []paGrant {
			return []paGrant{{Granter: aO, Grantee: aC3, Kind: k, Limit: "", Allow: both, Exp: paI64p(5000)}}
		}, 0},
	}
}

func paIcsGStates() []paGState {
	mk := func(allocs func(amt int64) []paAlloc, exp *int64) func(int, string, int64) []paGrant {
		return func(g int, k string, amt int64) []paGrant {
			return []paGrant{{Granter: aO, Grantee: g, Kind: "transfer", Allocs: allocs(amt), Exp: exp}}
		}
	}
	one := func(delta int64) func(int64) []paAlloc {
		return func(amt int64) []paAlloc {
			return []paAlloc{{Chan: 0, Limits: [][]string{{"0", fmt.Sprint(amt + delta)}}}}
		}
	}
	return []paGState{
		{"absent", func(int, string, int64) []paGrant { return nil }, 0},
		{"expired", mk(one(700), paI64p(1000)), 1001},
		{"expires-this-block", mk(one(700), paI64p(1000)), 1000},
		{"expires-this-block-exhausted", mk(one(0), paI64p(1000)), 1000},
		{"generic-authorization", func(g int, k string, amt int64) []paGrant {
			return []paGrant{{Granter: aO, Grantee: g, Kind: "transfer", Generic: true, Exp: paI64p(5000)}}
		}, 0},
		{"receiver-not-allowed", mk(func(amt int64) []paAlloc {
			return []paAlloc{{Chan: 0, Limits: [][]string{{"0", fmt.Sprint(amt + 700)}}, Allow: []int{1, 2}}}
		}, paI64p(5000)), 0},
		{"receiver-allowed", mk(func(amt int64) []paAlloc {
			return []paAlloc{{Chan: 0, Limits: [][]string{{"0", fmt.Sprint(amt + 700)}}, Allow: []int{1, 0}}}
		}, paI64p(5000)), 0},
		{"other-denomination-only", mk(func(amt int64) []paAlloc {
			return []paAlloc{{Chan: 0, Limits: [][]string{{"1", fmt.Sprint(amt + 700)}}}}
		}, paI64p(5000)), 0},
		{"limit-below", mk(one(-1), paI64p(5000)), 0},
		{"limit-equal", mk(one(0), paI64p(5000)), 0},
		{"limit-equal-other-denomination-left", mk(func(amt int64) []paAlloc {
			return []paAlloc{{Chan: 0, Limits: [][]string{{"0", fmt.Sprint(amt)}, {"1", "55"}}}}
		}, paI64p(5000)), 0},
		{"limit-above", mk(one(700), paI64p(5000)), 0},
		{"unbounded", mk(func(amt int64) []paAlloc {
			return []paAlloc{{Chan: 0, Limits: [][]string{{"0", "max"}}}}
		}, paI64p(5000)), 0},
		{"granted-by-third-account", func(g int, k string, amt int64) []paGrant {
			return []paGrant{{Granter: aP, Grantee: g, Kind: "transfer", Allocs: one(700)(amt), Exp: paI64p(5000)}}
		}, 0},
		// ---- several allocations in one grant: the allocation of the channel of the spend decides, whatever the others allow
		{"two-channels-this-one-smaller", mk(func(amt int64) []paAlloc {
			return []paAlloc{{Chan: 0, Limits: [][]string{{"0", fmt.Sprint(amt - 1)}}}, {Chan: 1, Limits: [][]string{{"0", fmt.Sprint(amt + 700)}}}}
		}, paI64p(5000)), 0},
		{"two-channels-this-one-larger", mk(func(amt int64) []paAlloc {
			return []paAlloc{{Chan: 1, Limits: [][]string{{"0", "5"}}}, {Chan: 0, Limits: [][]string{{"0", fmt.Sprint(amt + 700)}, {"1", "8"}}}}
		}, paI64p(5000)), 0},
		{"two-channels-this-one-exhausted", mk(func(amt int64) []paAlloc {
			return []paAlloc{{Chan: 1, Limits: [][]string{{"0", "40"}, {"1", "9"}}, Allow: []int{1}}, {Chan: 0, Limits: [][]string{{"0", fmt.Sprint(amt)}}}}
		}, paI64p(5000)), 0},
		{"other-channel-only", mk(func(amt int64) []paAlloc {
			return []paAlloc{{Chan: 1, Limits: [][]string{{"0", fmt.Sprint(amt + 700)}}}}
		}, paI64p(5000)), 0},
		{"two-channels-other-unbounded", mk(func(amt int64) []paAlloc {
			return []paAlloc{{Chan: 1, Limits: [][]string{{"0", "max"}}}, {Chan: 0, Limits: [][]string{{"0", fmt.Sprint(amt - 1)}}}}
		}, paI64p(5000)), 0},
	}
}

// grant states for a spend of `amt` over channel-1 (the second open channel)
func paIcsChan1GStates() []paGState {
	mk := func(allocs func(amt int64) []paAlloc) func(int, string, int64) []paGrant {
		return func(g int, k string, amt int64) []paGrant {
			return []paGrant{{Granter: aO, Grantee: g, Kind: "transfer", Allocs: allocs(amt), Exp: paI64p(5000)}}
		}
	}
	two := func(d0, d1 int64) func(int64) []paAlloc {
		return func(amt int64) []paAlloc {
			return []paAlloc{{Chan: 0, Limits: [][]string{{"0", fmt.Sprint(amt + d0)}}}, {Chan: 1, Limits: [][]string{{"0", fmt.Sprint(amt + d1)}, {"1", "33"}}}}
		}
	}
	return []paGState{
		{"absent", func(int, string, int64) []paGrant { return nil }, 0},
		{"channel-0-only", mk(func(amt int64) []paAlloc { return []paAlloc{{Chan: 0, Limits: [][]string{{"0", fmt.Sprint(amt + 700)}}}} }), 0},
		{"this-channel-below-other-above", mk(two(700, -1)), 0},
		{"this-channel-equal-other-below", mk(two(-200, 0)), 0},
		{"this-channel-above-other-below", mk(two(-200, 700)), 0},
		{"this-channel-unbounded", mk(func(amt int64) []paAlloc {
			return []paAlloc{{Chan: 0, Limits: [][]string{{"0", "7"}}}, {Chan: 1, Limits: [][]string{{"0", "max"}}}}
		}), 0},
	}
}

// paMatrix enumerates the identity matrix x grant states (every case: one transaction with one call)
func paMatrix() []paNamedCase {
	out := []paNamedCase{}
	add := func(name string, s paSetup, path []int, dt int64, c paCall) {
		out = append(out, paNamedCase{name, paInput{Setup: s, Txs: []paTx{{Path: path, Dt: dt, Calls: []paCall{c}}}}})
	}
	callerOf := func(path []int) int {
		if len(path) == 0 {
			return aO
		}
		return path[len(path)-1]
	}
	named := func(path []int) []int {
		ns := []int{aO, aP, aC3}
		if len(path) > 0 {
			ns = append(ns, callerOf(path))
		}
		if len(path) > 1 {
			ns = append(ns, path[0])
		}
		return ns
	}
	amtOf := func(c paCall) int64 { return bigOf(c.Amt).Int64() }
	// ---- spends
	for _, m := range []string{"delegate", "undelegate", "redelegate", "cancel", "ics_transfer"} {
		states := paStakeGStates()
		if m == "ics_transfer" {
			states = paIcsGStates()
		}
		for _, path := range paPaths() {
			caller := callerOf(path)
			for _, who := range named(path) {
				c := paSpendCall(m, who)
				for _, gs := range states {
					if caller == aO && gs.name != "absent" && gs.name != "unlimited" && gs.name != "unbounded" {
						continue // the signer needs no grant: two grant states suffice
					}
					if who != aO && who != caller && gs.name != "absent" && gs.name != "unlimited" && gs.name != "unbounded" && gs.name != "granted-by-third-account" {
						continue // rejected by the identity check whatever the grants are
					}
					s := paStdSetup()
					grantee := caller
					if caller == aO {
						grantee = aC1
					}
					s.Grants = gs.grants(grantee, paSpend[m], amtOf(c))
					if who == aP && gs.name == "granted-by-third-account" && m != "ics_transfer" {
						// a third account that did grant the caller: still not the caller's to spend
						s.Grants = append(s.Grants, paGrant{Granter: aO, Grantee: grantee, Kind: paSpend[m], Allow: []int{0, 1}, Exp: paI64p(5000)})
					}
					add(fmt.Sprintf("%s/%d-hops/named=%s/%s", m, len(path), paActorName[who], gs.name), s, path, gs.dt, c)
				}
			}
		}
	}
	// ---- ICS-20 spends over the second channel (its own allocation, its own escrow account)
	for _, path := range paPaths() {
		caller := callerOf(path)
		whos := []int{aO}
		if caller != aO {
			whos = append(whos, caller)
		}
		for _, who := range whos {
			for di, den := range []int{0, 1} {
				c := paCall{M: "ics_transfer", Who: who, Chan: 1, Den: den, Amt: []string{"300", "33"}[di], Recv: 1, Catch: true}
				for _, gs := range paIcsChan1GStates() {
					if caller == aO && gs.name != "absent" && gs.name != "channel-0-only" {
						continue
					}
					if den == 1 && gs.name != "this-channel-above-other-below" && gs.name != "channel-0-only" {
						continue
					}
					s := paStdSetup()
					grantee := caller
					if caller == aO {
						grantee = aC1
					}
					s.Grants = gs.grants(grantee, "transfer", 300)
					add(fmt.Sprintf("ics_transfer-channel-1/%d-hops/named=%s/d%d/%s", len(path), paActorName[who], den, gs.name), s, path, gs.dt, c)
				}
			}
		}
	}
	// ---- distribution (no grant is ever consulted) and the two identity-only methods
	for _, m := range []string{"setwithdraw", "withdraw", "claim", "commission", "createval"} {
		for _, path := range paPaths() {
			caller := callerOf(path)
			for _, who := range named(path) {
				for gi := 0; gi < 2; gi++ {
					if gi == 1 && (m == "commission" || m == "createval") {
						continue
					}
					s := paStdSetup()
					s.Withdraw = []int{aP, -1, aC3, -1, -1} // rewards of O go to P, those of C1 to C3
					if gi == 1 && caller != aO {
						for _, k := range []string{"delegate", "undelegate"} {
							s.Grants = append(s.Grants, paGrant{Granter: aO, Grantee: caller, Kind: k, Allow: []int{0, 1}, Exp: paI64p(5000)})
						}
					}
					c := paCall{M: m, Who: who, Val: 1, To: aC3, Amt: "1000", Catch: true}
					if m == "setwithdraw" && who == aC3 {
						c.To = aP
					}
					add(fmt.Sprintf("%s/%d-hops/named=%s/grants=%d", m, len(path), paActorName[who], gi), s, path, 0, c)
				}
			}
		}
	}
	// ---- authorization methods: the granter is always the signer, whoever calls
	pre := []struct {
		name string
		g    func(grantee int, kind string) []paGrant
		dt   int64
	}{
		{"absent", func(int, string) []paGrant { return nil }, 0},
		{"limited", func(g int, k string) []paGrant {
			return []paGrant{{Granter: aO, Grantee: g, Kind: k, Limit: "1000", Allow: []int{0}, Exp: paI64p(5000)}}
		}, 0},
		{"unlimited", func(g int, k string) []paGrant {
			return []paGrant{{Granter: aO, Grantee: g, Kind: k, Allow: []int{0, 1}, Exp: paI64p(5000)}}
		}, 0},
		{"expired", func(g int, k string) []paGrant {
			return []paGrant{{Granter: aO, Grantee: g, Kind: k, Limit: "1000", Allow: []int{0, 1}, Exp: paI64p(1000)}}
		}, 2000},
		{"expires-this-block", func(g int, k string) []paGrant {
			return []paGrant{{Granter: aO, Grantee: g, Kind: k, Limit: "1000", Allow: []int{0, 1}, Exp: paI64p(1000)}}
		}, 1000},
		{"generic", func(g int, k string) []paGrant {
			return []paGrant{{Granter: aO, Grantee: g, Kind: k, Generic: true, Exp: paI64p(5000)}}
		}, 0},
		{"third-account-granted-the-same", func(g int, k string) []paGrant {
			return []paGrant{{Granter: aP, Grantee: g, Kind: k, Limit: "1000", Allow: []int{0, 1}, Exp: paI64p(5000)},
				{Granter: g, Grantee: aP, Kind: k, Limit: "77", Allow: []int{0, 1}, Exp: paI64p(5000)}}
		}, 0},
	}
	for _, m := range []string{"approve", "increase", "decrease", "revoke"} {
		for _, path := range paPaths() {
			caller := callerOf(path)
			grantees := []int{aP, aC3}
			if caller != aO {
				grantees = append(grantees, caller)
			}
			for gi, grantee := range grantees {
				for pi, ps := range pre {
					amts := []string{"400", "0", "1000", "1001", "max"}
					if m == "revoke" {
						amts = []string{""}
					}
					for ai, amt := range amts {
						if (gi+pi+ai+len(path))%2 == 1 && !(grantee == caller && pi <= 2) {
							continue // thin out the combinations that differ only in the spectator
						}
						for ti, types := range [][]string{{"delegate"}, {"undelegate", "cancel"}, {"redelegate", "bogus", "delegate"}, {"transfer"}} {
							if ti > 0 && (pi > 1 || ai > 1) {
								continue
							}
							s := paStdSetup()
							for _, k := range types {
								if _, ok := paCoqKind[k]; ok && k != "transfer" {
									s.Grants = append(s.Grants, ps.g(grantee, k)...)
								}
							}
							add(fmt.Sprintf("%s/%d-hops/grantee=%s/%s/amt=%s/types=%d", m, len(path), paActorName[grantee], ps.name, amt, ti), s, path, ps.dt,
								paCall{M: m, Who: grantee, Amt: amt, Types: types, Catch: true})
						}
					}
				}
			}
		}
	}
	// ---- ICS-20 authorization methods
	icsPre := []struct {
		name string
		g    func(grantee int) []paGrant
		dt   int64
	}{
		{"absent", func(int) []paGrant { return nil }, 0},
		{"two-denominations", func(g int) []paGrant {
			return []paGrant{{Granter: aO, Grantee: g, Kind: "transfer", Allocs: []paAlloc{{Chan: 0, Limits: [][]string{{"0", "1000"}, {"1", "50"}}, Allow: []int{0}}}, Exp: paI64p(5000)}}
		}, 0},
		{"unbounded", func(g int) []paGrant {
			return []paGrant{{Granter: aO, Grantee: g, Kind: "transfer", Allocs: []paAlloc{{Chan: 0, Limits: [][]string{{"0", "max"}}}}, Exp: paI64p(5000)}}
		}, 0},
		{"expired", func(g int) []paGrant {
			return []paGrant{{Granter: aO, Grantee: g, Kind: "transfer", Allocs: []paAlloc{{Chan: 0, Limits: [][]string{{"0", "1000"}}}}, Exp: paI64p(1000)}}
		}, 2000},
		{"generic", func(g int) []paGrant {
			return []paGrant{{Granter: aO, Grantee: g, Kind: "transfer", Generic: true, Exp: paI64p(5000)}}
		}, 0},
		{"two-channels", func(g int) []paGrant {
			return []paGrant{{Granter: aO, Grantee: g, Kind: "transfer", Allocs: []paAlloc{{Chan: 0, Limits: [][]string{{"0", "1000"}, {"1", "50"}}, Allow: []int{0}},
				{Chan: 1, Limits: [][]string{{"0", "70"}}}}, Exp: paI64p(5000)}}
		}, 0},
	}
	// one approve() with SEVERAL allocations: different channels, denominations and limits, several coins per allocation
	multi := []struct {
		name  string
		alloc []paAlloc
	}{
		{"two-channels-small-then-huge", []paAlloc{{Chan: 0, Limits: [][]string{{"0", "10"}}}, {Chan: 1, Limits: [][]string{{"0", "1000000000000000000"}}}}},
		{"two-channels-reversed-two-coins-each", []paAlloc{{Chan: 1, Limits: [][]string{{"0", "777"}, {"1", "5"}}}, {Chan: 0, Limits: [][]string{{"0", "3"}, {"1", "60000"}}}}},
		{"two-channels-uneven-coins", []paAlloc{{Chan: 0, Limits: [][]string{{"0", "800"}, {"1", "9"}}, Allow: []int{2}}, {Chan: 1, Limits: [][]string{{"1", "44"}}}}},
		{"two-channels-one-then-two-coins", []paAlloc{{Chan: 1, Limits: [][]string{{"1", "6"}}}, {Chan: 0, Limits: [][]string{{"0", "max"}, {"1", "123"}}}}},
		{"duplicate-channel", []paAlloc{{Chan: 0, Limits: [][]string{{"0", "10"}}}, {Chan: 0, Limits: [][]string{{"0", "999"}}}}},
		{"three-allocations-one-missing-channel", []paAlloc{{Chan: 0, Limits: [][]string{{"0", "10"}}}, {Chan: 1, Limits: [][]string{{"0", "20"}}}, {Chan: 2, Limits: [][]string{{"0", "30"}}}}},
	}
	for _, path := range paPaths() {
		caller := callerOf(path)
		grantee := aC2
		if caller == aC2 {
			grantee = aC2 // the caller grants itself the signer's funds
		}
		for _, ps := range icsPre {
			s := func() paSetup { x := paStdSetup(); x.Grants = ps.g(grantee); return x }
			add(fmt.Sprintf("ics_approve/%d-hops/%s", len(path), ps.name), s(), path, ps.dt,
				paCall{M: "ics_approve", Who: grantee, Alloc: []paAlloc{{Chan: 0, Limits: [][]string{{"0", "800"}, {"1", "9"}}, Allow: []int{2}}}, Catch: true})
			add(fmt.Sprintf("ics_approve-missing-channel/%d-hops/%s", len(path), ps.name), s(), path, ps.dt,
				paCall{M: "ics_approve", Who: grantee, Alloc: []paAlloc{{Chan: 0, Limits: [][]string{{"0", "800"}}}, {Chan: 2, Limits: [][]string{{"0", "5"}}}}, Catch: true})
			for _, mu := range multi {
				add(fmt.Sprintf("ics_approve-%s/%d-hops/%s", mu.name, len(path), ps.name), s(), path, ps.dt, paCall{M: "ics_approve", Who: grantee, Alloc: mu.alloc, Catch: true})
			}
			if ps.name == "two-channels" || ps.name == "absent" {
				for _, amt := range []string{"30", "70", "71"} {
					add(fmt.Sprintf("ics_increase-channel-1/%d-hops/%s/%s", len(path), ps.name, amt), s(), path, ps.dt,
						paCall{M: "ics_increase", Who: grantee, Chan: 1, Den: 0, Amt: amt, Catch: true})
					add(fmt.Sprintf("ics_decrease-channel-1/%d-hops/%s/%s", len(path), ps.name, amt), s(), path, ps.dt,
						paCall{M: "ics_decrease", Who: grantee, Chan: 1, Den: 0, Amt: amt, Catch: true})
				}
			}
			add(fmt.Sprintf("ics_revoke/%d-hops/%s", len(path), ps.name), s(), path, ps.dt, paCall{M: "ics_revoke", Who: grantee, Catch: true})
			for _, amt := range []string{"400", "1000", "1001"} {
				for _, den := range []int{0, 1} {
					if den == 1 && amt != "400" {
						continue
					}
					add(fmt.Sprintf("ics_increase/%d-hops/%s/%s/d%d", len(path), ps.name, amt, den), s(), path, ps.dt,
						paCall{M: "ics_increase", Who: grantee, Chan: 0, Den: den, Amt: amt, Catch: true})
					add(fmt.Sprintf("ics_decrease/%d-hops/%s/%s/d%d", len(path), ps.name, amt, den), s(), path, ps.dt,
						paCall{M: "ics_decrease", Who: grantee, Chan: 0, Den: den, Amt: amt, Catch: true})
				}
			}
		}
	}
	return out
}

// ---- random histories: approve / increase / decrease / revoke by the signer (directly or through a
// contract), spends by the grantee contracts, distribution calls, time passing
func paGenHistory(r *Rng) paInput {
	s := paSetup{Reward: []string{"0", "0"}, Withdraw: []int{-1, -1, -1, -1, -1}}
	for v := 0; v < paNVal; v++ {
		if r.Chance(60) {
			s.Reward[v] = new(big.Int).Mul(big.NewInt(int64(10+r.Intn(200))), new(big.Int).Exp(big.NewInt(10), big.NewInt(15), nil)).String()
		}
	}
	for a := 0; a < paNAct; a++ {
		s.Bal = append(s.Bal, []string{fmt.Sprint(2000 + r.Intn(8000)), fmt.Sprint(r.Intn(3) * 400)})
		dl, ub := []string{}, []string{}
		for v := 0; v < paNVal; v++ {
			d, u := 0, 0
			if r.Chance(65) {
				d = 500 * (1 + r.Intn(6))
			}
			if r.Chance(35) {
				u = 100 * (1 + r.Intn(5))
			}
			dl = append(dl, fmt.Sprint(d))
			ub = append(ub, fmt.Sprint(u))
		}
		s.Deleg = append(s.Deleg, dl)
		s.Unbond = append(s.Unbond, ub)
		if r.Chance(20) {
			s.Withdraw[a] = r.Intn(paNAct)
		}
	}
	kinds := []string{"delegate", "undelegate", "redelegate", "cancel"}
	for _, g := range []int{aC1, aC2} {
		for _, k := range kinds {
			if !r.Chance(45) {
				continue
			}
			gr := paGrant{Granter: aO, Grantee: g, Kind: k, Exp: paI64p(int64(1000 + r.Intn(3)*40000000))}
			if r.Chance(70) {
				gr.Limit = fmt.Sprint(200 + r.Intn(1500))
			}
			switch r.Intn(8) {
			case 0:
				gr.Allow = []int{r.Intn(2)}
			case 1:
				gr.Deny = []int{r.Intn(2)}
			default:
				gr.Allow = []int{0, 1}
			}
			if r.Chance(8) {
				gr.Exp = nil
			}
			s.Grants = append(s.Grants, gr)
		}
		if r.Chance(40) {
			lim := fmt.Sprint(200 + r.Intn(1500))
			if r.Chance(20) {
				lim = "max"
			}
			al := paAlloc{Chan: 0, Limits: [][]string{{"0", lim}}}
			if r.Chance(30) {
				al.Limits = append(al.Limits, []string{"1", fmt.Sprint(100 + r.Intn(500))})
			}
			if r.Chance(25) {
				al.Allow = []int{r.Intn(3)}
			}
			s.Grants = append(s.Grants, paGrant{Granter: aO, Grantee: g, Kind: "transfer", Allocs: []paAlloc{al}, Exp: paI64p(int64(1000 + r.Intn(3)*40000000))})
		}
	}
	if r.Chance(30) {
		s.Grants = append(s.Grants, paGrant{Granter: aP, Grantee: aC1, Kind: "delegate", Limit: "900", Allow: []int{0, 1}, Exp: paI64p(90000000)})
	}
	in := paInput{Setup: s}
	nUnd, nRed, poisoned := 0, 0, false
	lastApproved := map[int]string{}
	amount := func() string {
		switch r.Intn(10) {
		case 0:
			return "1"
		case 1:
			return fmt.Sprint(2000 + r.Intn(9000))
		}
		return fmt.Sprint(50 + r.Intn(700))
	}
	genCall := func(caller int) paCall {
		named := caller
		if caller != aO && r.Chance(60) {
			named = aO
		}
		if r.Chance(6) {
			named = r.Intn(paNAct)
		}
		grantee := []int{aC1, aC1, aC2, aC2, aP, aC3}[r.Intn(6)]
		k := r.Intn(100)
		switch {
		case k < 14:
			a := []string{amount(), amount(), "0", "max"}[r.Intn(4)]
			lastApproved[grantee] = a
			return paCall{M: "approve", Who: grantee, Amt: a, Types: paGenTypes(r), Catch: r.Chance(85)}
		case k < 22:
			return paCall{M: "increase", Who: grantee, Amt: amount(), Types: paGenTypes(r), Catch: r.Chance(85)}
		case k < 30:
			a := amount()
			// boundary: decrease by exactly what was approved last (the limit goes to zero)
			if la, ok := lastApproved[grantee]; ok && la != "max" && la != "0" && r.Chance(45) {
				a = la
			}
			return paCall{M: "decrease", Who: grantee, Amt: a, Types: paGenTypes(r), Catch: r.Chance(85)}
		case k < 35:
			return paCall{M: "revoke", Who: grantee, Types: paGenTypes(r), Catch: r.Chance(85)}
		case k < 50:
			if r.Chance(10) {
				poisoned = true
			}
			return paCall{M: "delegate", Who: named, Val: r.Intn(2), Amt: amount(), Catch: r.Chance(85)}
		case k < 60 && nUnd < 6:
			nUnd++
			return paCall{M: "undelegate", Who: named, Val: r.Intn(2), Amt: amount(), Catch: r.Chance(85)}
		case k < 68 && nRed < 6 && !poisoned:
			nRed++
			v := r.Intn(2)
			return paCall{M: "redelegate", Who: named, Val: v, Dst: 1 - v, Amt: amount(), Catch: r.Chance(85)}
		case k < 74 && !poisoned:
			return paCall{M: "cancel", Who: named, Val: r.Intn(2), Amt: fmt.Sprint(50 + r.Intn(300)), Catch: r.Chance(85)}
		case k < 78:
			return paCall{M: "setwithdraw", Who: named, To: r.Intn(paNAct), Catch: r.Chance(85)}
		case k < 83:
			return paCall{M: "withdraw", Who: named, Val: r.Intn(2), Catch: r.Chance(85)}
		case k < 86:
			return paCall{M: "claim", Who: named, Catch: r.Chance(85)}
		case k < 93:
			return paCall{M: "ics_transfer", Who: named, Chan: 0, Den: r.Intn(2), Amt: amount(), Recv: r.Intn(3), Catch: r.Chance(85)}
		case k < 95:
			return paCall{M: "ics_approve", Who: grantee, Alloc: []paAlloc{{Chan: 0, Limits: [][]string{{"0", amount()}}}}, Catch: r.Chance(85)}
		case k < 97:
			return paCall{M: "ics_increase", Who: grantee, Chan: 0, Den: r.Intn(2), Amt: amount(), Catch: r.Chance(85)}
		case k < 99:
			return paCall{M: "ics_decrease", Who: grantee, Chan: 0, Den: r.Intn(2), Amt: amount(), Catch: r.Chance(85)}
		}
		return paCall{M: "ics_revoke", Who: grantee, Catch: r.Chance(85)}
	}
	// the delegate amounts above the balance can leave a delegation without its distribution record; the
	// model covers that for delegate / undelegate / withdraw / claim only, so redelegate / cancel stop being generated then
	nTx := 4 + r.Intn(6)
	for i := 0; i < nTx; i++ {
		t := paTx{Path: [][]int{{}, {aC1}, {aC2}, {aC1, aC2}, {aC2, aC1}, {aC3}}[r.Intn(6)]}
		switch r.Intn(12) {
		case 0:
			t.Dt = 10
		case 1:
			t.Dt = 86400
		case 2:
			t.Dt = int64(31536000 - 5)
		case 3:
			t.Dt = 40000000
		case 4:
			t.Dt = 1000
		}
		n := 1
		if len(t.Path) > 0 && r.Chance(30) {
			n = 2 + r.Intn(2)
		}
		for j := 0; j < n; j++ {
			t.Calls = append(t.Calls, genCall(t.caller()))
		}
		in.Txs = append(in.Txs, t)
	}
	return in
}

// ---- ICS-20 histories: approve / increaseAllowance / decreaseAllowance calls that carry SEVERAL allocations
// (different channels, denominations and limits in one call, one or two coins per allocation), spends by the
// grantee contracts per channel and denomination with amounts at and around the limits of ALL allocations of
// the grantee's last approve (so that a limit that leaked from one allocation into another is overspent), a few
// staking calls in between, time passing.
func paGenIcsAllocs(r *Rng, valid bool) []paAlloc {
	amount := func() string {
		switch r.Intn(20) {
		case 0:
			return "max"
		case 1:
			return "1000000000000000000"
		case 2, 3, 4, 5:
			return fmt.Sprint(1 + r.Intn(20))
		case 6, 7, 8:
			return fmt.Sprint(2000 + r.Intn(9000))
		case 9:
			if !valid {
				return "0"
			}
		}
		return fmt.Sprint(50 + r.Intn(700))
	}
	chans := []int{0, 1}
	if r.Chance(50) {
		chans = []int{1, 0}
	}
	n := 2
	switch k := r.Intn(10); {
	case k < 3:
		n = 1
	case k < 4 && !valid:
		n = 3
	}
	switch {
	case n == 1 && r.Chance(50):
		chans = chans[1:]
	case n == 3 && r.Chance(50):
		chans = []int{chans[0], chans[1], chans[0]} // the same channel twice: ValidateBasic refuses
	case n == 3:
		chans = []int{chans[0], 2, chans[1]} // a channel that does not exist
	}
	out := []paAlloc{}
	for i := 0; i < n; i++ {
		al := paAlloc{Chan: chans[i]}
		switch r.Intn(9) {
		case 0, 1, 2, 3:
			al.Limits = [][]string{{"0", amount()}}
		case 4:
			al.Limits = [][]string{{"1", amount()}}
		default:
			al.Limits = [][]string{{"0", amount()}, {"1", amount()}}
		}
		if r.Chance(20) {
			al.Allow = []int{r.Intn(3)}
		}
		out = append(out, al)
	}
	return out
}

func paGenIcsHistory(r *Rng) paInput {
	s := paSetup{Reward: []string{"0", "0"}, Withdraw: []int{-1, -1, -1, -1, -1}}
	for a := 0; a < paNAct; a++ {
		s.Bal = append(s.Bal, []string{fmt.Sprint(4000 + r.Intn(9000)), fmt.Sprint(600 + r.Intn(2500))})
		d := 0
		if r.Chance(40) {
			d = 500 * (1 + r.Intn(4))
		}
		s.Deleg = append(s.Deleg, []string{fmt.Sprint(d), "0"})
		s.Unbond = append(s.Unbond, []string{"0", "0"})
	}
	// the limits the signer gave every grantee last (all allocations, all coins): the spends aim at them
	lastLimits := map[int][]string{}
	note := func(g int, as []paAlloc) {
		ls := []string{}
		for _, a := range as {
			for _, l := range a.Limits {
				if l[1] != "max" && len(l[1]) < 10 {
					ls = append(ls, l[1])
				}
			}
		}
		lastLimits[g] = ls
	}
	for _, g := range []int{aC1, aC2} {
		if r.Chance(50) {
			as := paGenIcsAllocs(r, true)
			s.Grants = append(s.Grants, paGrant{Granter: aO, Grantee: g, Kind: "transfer", Allocs: as, Exp: paI64p(int64(1000 + r.Intn(3)*40000000))})
			note(g, as)
		}
		if r.Chance(20) {
			s.Grants = append(s.Grants, paGrant{Granter: aO, Grantee: g, Kind: "delegate", Limit: fmt.Sprint(200 + r.Intn(900)), Allow: []int{0, 1}, Exp: paI64p(90000000)})
		}
	}
	if r.Chance(15) {
		s.Grants = append(s.Grants, paGrant{Granter: aP, Grantee: aC1, Kind: "transfer", Allocs: paGenIcsAllocs(r, true), Exp: paI64p(90000000)})
	}
	in := paInput{Setup: s}
	amount := func() string {
		switch r.Intn(10) {
		case 0:
			return "1"
		case 1:
			return fmt.Sprint(2000 + r.Intn(9000))
		}
		return fmt.Sprint(50 + r.Intn(700))
	}
	// an amount at or next to one of the limits of the grantee's last approve (ANY allocation, ANY coin of it)
	near := func(g int) string {
		ls := lastLimits[g]
		if len(ls) == 0 || r.Chance(30) {
			return amount()
		}
		l := bigOf(ls[r.Intn(len(ls))])
		switch r.Intn(6) {
		case 0:
			l = new(big.Int).Add(l, big.NewInt(1))
		case 1:
			if l.Cmp(big.NewInt(1)) > 0 {
				l = new(big.Int).Sub(l, big.NewInt(1))
			}
		case 2:
			if l.Cmp(big.NewInt(3)) > 0 {
				l = new(big.Int).Rsh(l, 1)
			}
		}
		if l.Sign() <= 0 {
			return "1"
		}
		return l.String()
	}
	lastGrantee := -1
	genCall := func(caller int) paCall {
		grantee := []int{aC1, aC1, aC2, aC2, aP, aC3}[r.Intn(6)]
		ch := r.Intn(2)
		if r.Chance(4) {
			ch = 2
		}
		k := r.Intn(100)
		switch {
		case k < 22:
			as := paGenIcsAllocs(r, r.Chance(88))
			note(grantee, as)
			lastGrantee = grantee
			return paCall{M: "ics_approve", Who: grantee, Alloc: as, Catch: r.Chance(85)}
		case k < 31:
			return paCall{M: "ics_increase", Who: grantee, Chan: ch, Den: r.Intn(2), Amt: near(grantee), Catch: r.Chance(85)}
		case k < 41:
			return paCall{M: "ics_decrease", Who: grantee, Chan: ch, Den: r.Intn(2), Amt: near(grantee), Catch: r.Chance(85)}
		case k < 44:
			return paCall{M: "ics_revoke", Who: grantee, Catch: r.Chance(85)}
		case k < 88:
			named := aO
			if caller != aO && r.Chance(20) {
				named = caller
			}
			if r.Chance(4) {
				named = r.Intn(paNAct)
			}
			return paCall{M: "ics_transfer", Who: named, Chan: ch, Den: r.Intn(2), Amt: near(caller), Recv: r.Intn(3), Catch: r.Chance(85)}
		case k < 92:
			return paCall{M: "approve", Who: grantee, Amt: amount(), Types: []string{"delegate"}, Catch: r.Chance(85)}
		case k < 97:
			named := caller
			if caller != aO && r.Chance(60) {
				named = aO
			}
			return paCall{M: "delegate", Who: named, Val: 0, Amt: amount(), Catch: r.Chance(85)}
		}
		return paCall{M: "claim", Who: caller, Catch: r.Chance(85)}
	}
	nTx := 4 + r.Intn(6)
	for i := 0; i < nTx; i++ {
		paths := [][]int{{}, {aC1}, {aC2}, {aC1, aC2}, {aC2, aC1}, {aC3}}
		t := paTx{Path: paths[r.Intn(6)]}
		// after an approve for a contract, let that contract call more often than chance would
		if (lastGrantee == aC1 || lastGrantee == aC2) && r.Chance(45) {
			if r.Chance(75) {
				t.Path = []int{lastGrantee}
			} else {
				t.Path = []int{aC1 + aC2 - lastGrantee, lastGrantee}
			}
		}
		switch r.Intn(16) {
		case 0:
			t.Dt = 10
		case 1:
			t.Dt = 86400
		case 2:
			t.Dt = int64(31536000 - 5)
		case 3:
			t.Dt = 40000000
		case 4:
			t.Dt = 1000
		}
		n := 1
		if len(t.Path) > 0 && r.Chance(15) {
			n = 2
		}
		for j := 0; j < n; j++ {
			t.Calls = append(t.Calls, genCall(t.caller()))
		}
		in.Txs = append(in.Txs, t)
	}
	return in
}

func paGenTypes(r *Rng) []string {
	switch r.Intn(10) {
	case 0:
		return []string{"delegate", "undelegate"}
	case 1:
		return []string{"redelegate", "bogus"}
	case 2:
		return []string{"cancel"}
	case 3:
		return []string{"undelegate"}
	case 4:
		return []string{"redelegate"}
	}
	return []string{"delegate"}
}

// ---------------------------------------------------------------- driver
// One run = the identity x grant-state matrix followed by cfg.N random histories.
// args: matrix=<k>  run about k cells of the matrix (every (size/k)-th cell, offset derived from the seed;
//                   default: the whole matrix);  part=matrix|histories|ics  run only that part;
//       ics=<p>     number of ICS-20 multi-allocation histories, in percent of n (default 40).
func paDriver(cfg Config, out *Out) error {
	emit := func(cs []Case) {
		for _, c := range cs {
			out.Emit(c)
		}
	}
	if cfg.Replay != "" {
		i := 0
		return readReplayInputs(cfg.Replay, func(raw json.RawMessage) error {
			var in paInput
			if err := json.Unmarshal(raw, &in); err != nil {
				return err
			}
			emit(paRunCase(fmt.Sprintf("replay-%d", i), in))
			i++
			return nil
		})
	}
	part := cfg.Args["part"]
	if part == "" || part == "matrix" {
		m := paMatrix()
		stride := 1
		if k := int(bigOf(cfg.Args["matrix"]).Int64()); k > 0 && k < len(m) {
			stride = (len(m) + k - 1) / k
		}
		off := int(cfg.Seed % uint64(stride))
		for i := off; i < len(m); i += stride {
			cs := paRunCase(fmt.Sprintf("m%d:%s", i, m[i].name), m[i].in)
			for k := range cs {
				cs[k].Tags = append(cs[k].Tags, "matrix")
			}
			emit(cs)
		}
	}
	if part != "matrix" && part != "ics" {
		r := NewRng(cfg.Seed)
		for i := 0; i < cfg.N; i++ {
			cs := paRunCase(fmt.Sprintf("h%d-%d", cfg.Seed, i), paGenHistory(r.Fork()))
			for k := range cs {
				cs[k].Tags = append(cs[k].Tags, "history")
			}
			emit(cs)
		}
	}
	if part != "matrix" && part != "histories" {
		// a second stream (its own PRNG, so that the histories above are what they were): ICS-20 histories with
		// several allocations per approve and spends per channel; ics=<percent of n>, default 40
		pct := 40
		if k := int(bigOf(cfg.Args["ics"]).Int64()); k > 0 {
			pct = k
		}
		r := NewRng(cfg.Seed ^ 0x1c520a110c5)
		for i := 0; i < (cfg.N*pct+99)/100; i++ {
			cs := paRunCase(fmt.Sprintf("i%d-%d", cfg.Seed, i), paGenIcsHistory(r.Fork()))
			for k := range cs {
				cs[k].Tags = append(cs[k].Tags, "ics-history")
			}
			emit(cs)
		}
	}
	return nil
}
