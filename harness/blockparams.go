package main

// Block histories, part two (property C15; the generator is shared with C01):
//
//  1. governance PARAMETER CHANGES as an explicit operation of a block: {"k":"param","s":<module>,"x":[[key,value],..]}.
//     The current parameters of the module are read, the listed keys overwritten, and the result goes through the
//     module's real MsgUpdateParams handler (application message router, signer = the governance authority) on a
//     branch of the deliver state, as the execution of a passed proposal does; coinomics and liquidvesting keep
//     their parameters in x/params, they are changed by a ParameterChangeProposal inside gov's MsgExecLegacyContent.
//  2. user transactions that name a BLOCKED ADDRESS (a module account or a precompile address) as recipient,
//     withdraw address, delegator ...: actor indices bhBlockedBase+k (see actorAddr) are usable wherever an
//     operation names an actor; "multisend" is a further transaction kind.
//
// The generator emits both ("param", "toblocked" = one of the ordinary kinds aimed at a blocked address) and, after
// a parameter change, aims the next few transactions at blocked addresses.

import (
	"fmt"
	"math/big"
	"sort"
	"strconv"
	"strings"
	"time"

	sdkmath "cosmossdk.io/math"
	sdk "github.com/cosmos/cosmos-sdk/types"
	authtypes "github.com/cosmos/cosmos-sdk/x/auth/types"
	banktypes "github.com/cosmos/cosmos-sdk/x/bank/types"
	consensustypes "github.com/cosmos/cosmos-sdk/x/consensus/types"
	distrtypes "github.com/cosmos/cosmos-sdk/x/distribution/types"
	govtypes "github.com/cosmos/cosmos-sdk/x/gov/types"
	govv1 "github.com/cosmos/cosmos-sdk/x/gov/types/v1"
	paramproposal "github.com/cosmos/cosmos-sdk/x/params/types/proposal"
	slashingtypes "github.com/cosmos/cosmos-sdk/x/slashing/types"
	stakingtypes "github.com/cosmos/cosmos-sdk/x/staking/types"
	"github.com/ethereum/go-ethereum/common"

	"github.com/haqq-network/haqq/app"
	"github.com/haqq-network/haqq/utils"
	coinomicstypes "github.com/haqq-network/haqq/x/coinomics/types"
	erc20types "github.com/haqq-network/haqq/x/erc20/types"
	evmtypes "github.com/haqq-network/haqq/x/evm/types"
	feemarkettypes "github.com/haqq-network/haqq/x/feemarket/types"
	liquidvestingtypes "github.com/haqq-network/haqq/x/liquidvesting/types"
	vestingtypes "github.com/haqq-network/haqq/x/vesting/types"
)

// ---------------------------------------------------------------- blocked addresses as actors
const (
	bhBlockedBase = 500 // actor 500+k = k-th module account, 520+i = i-th precompile address
	bhPrecompBase = 520
)

type bhBlockedAddr struct {
	Name string
	Addr common.Address
}

// bhBlocked[k] is actor bhBlockedBase+k; the model (Bank/InvariantModel.v) calls it 100+k.  The first ten are the
// module accounts of bankops.go in that order, then the other module accounts of the application; 20.. are the
// precompile addresses.  Entries that do not exist stay empty.
var bhBlocked [26]bhBlockedAddr

func init() {
	perms := app.GetMaccPerms()
	order := []string{}
	for _, m := range boModules {
		order = append(order, m.Name)
	}
	order = append(order, "transfer", "interchainaccounts", vestingtypes.ModuleName)
	seen := map[string]bool{}
	k := 0
	for _, n := range order {
		seen[n] = true
		if _, ok := perms[n]; ok {
			bhBlocked[k] = bhBlockedAddr{n, common.BytesToAddress(authtypes.NewModuleAddress(n))}
		}
		k++
	}
	var rest []string
	for n := range perms {
		if !seen[n] {
			rest = append(rest, n)
		}
	}
	sort.Strings(rest)
	for _, n := range rest {
		if k < bhPrecompBase-bhBlockedBase {
			bhBlocked[k] = bhBlockedAddr{n, common.BytesToAddress(authtypes.NewModuleAddress(n))}
			k++
		}
	}
	for i, hx := range evmtypes.AvailableEVMExtensions {
		if j := bhPrecompBase - bhBlockedBase + i; j < len(bhBlocked) {
			bhBlocked[j] = bhBlockedAddr{"precompile " + hx, common.HexToAddress(hx)}
		}
	}
	// generator: the new kinds, and the directories whose code they exercise
	bhKindWeights["param"] = 3
	bhKindWeights["toblocked"] = 5
	bhKindWeights["multisend"] = 1
	for _, d := range []string{"x/bank", "x/erc20", "app"} {
		bhFocusKinds[d] = append(bhFocusKinds[d], "param", "toblocked")
	}
}

// blockedActor resolves actor indices bhBlockedBase.. (hooked into actorAddr).
func blockedActor(i int) (common.Address, bool) {
	k := i - bhBlockedBase
	if k < 0 || k >= len(bhBlocked) || bhBlocked[k].Name == "" {
		return common.Address{}, false
	}
	return bhBlocked[k].Addr, true
}

func blockedName(i int) string {
	if _, ok := blockedActor(i); ok {
		return bhBlocked[i-bhBlockedBase].Name
	}
	return ""
}

// strict: module accounts whose balance a registered invariant ties to the module's records by an EQUATION
var bhStrictBlocked = []int{bhBlockedBase + 1, bhBlockedBase + 2, bhBlockedBase + 3, bhBlockedBase + 4} // distribution, bonded, not-bonded, gov

func blockedActors() []int {
	var out []int
	for k := range bhBlocked {
		if bhBlocked[k].Name != "" {
			out = append(out, bhBlockedBase+k)
		}
	}
	return out
}

// namedBlocked: the blocked addresses a transaction names as the party that would RECEIVE coins.
func namedBlocked(t bhTx) []int {
	var out []int
	switch t.K {
	case "send", "ethsend", "redeem", "liquidate", "converterc20", "vest":
		if _, ok := blockedActor(t.T); ok {
			out = append(out, t.T)
		}
	case "multisend":
		for _, o := range t.X {
			if i, err := strconv.Atoi(o[0]); err == nil {
				if _, ok := blockedActor(i); ok {
					out = append(out, i)
				}
			}
		}
	}
	return out
}

// ---------------------------------------------------------------- transactions
func (r *Replica) buildTxExt(ctx sdk.Context, t bhTx, f int) ([]byte, error) {
	switch t.K {
	case "param":
		return nil, nil // direct operation
	case "multisend":
		// one input (the signer), outputs t.X = [actor, amount] of denomination t.D
		denom := t.D
		if denom == "" {
			denom = utils.BaseDenom
		}
		total := sdkmath.ZeroInt()
		var outs []banktypes.Output
		for _, o := range t.X {
			i, err := strconv.Atoi(o[0])
			if err != nil {
				return nil, err
			}
			amt := intA(o[1])
			total = total.Add(amt)
			outs = append(outs, banktypes.Output{Address: sdk.AccAddress(actorAddr(i).Bytes()).String(), Coins: sdk.Coins{sdk.Coin{Denom: denom, Amount: amt}}})
		}
		msg := &banktypes.MsgMultiSend{Inputs: []banktypes.Input{{Address: bhUserAcc[f].String(), Coins: sdk.Coins{sdk.Coin{Denom: denom, Amount: total}}}}, Outputs: outs}
		return r.signCosmos(ctx, f, 600_000, msg)
	}
	return nil, fmt.Errorf("unknown tx kind %q", t.K)
}

func (r *Replica) runDirectExt(t bhTx) string {
	switch t.K {
	case "param":
		return r.direct(func(ctx sdk.Context) error {
			msgs, err := r.paramMsgs(ctx, t)
			if err != nil {
				return err
			}
			for _, m := range msgs {
				if err := routeMsg(r.App, ctx, m); err != nil {
					return err
				}
			}
			return nil
		})
	}
	return "error: unknown direct op"
}

// routeMsg: ValidateBasic and the handler the application's message router has for the message.
func routeMsg(a *app.Haqq, ctx sdk.Context, msg sdk.Msg) error {
	if err := msg.ValidateBasic(); err != nil {
		return err
	}
	h := a.MsgServiceRouter().Handler(msg)
	if h == nil {
		return fmt.Errorf("no handler for %T", msg)
	}
	_, err := h(ctx, msg)
	return err
}

var bhParamModules = []string{"erc20", "evm", "bank", "banksend", "staking", "distribution", "gov", "slashing", "coinomics", "liquidvesting", "feemarket", "consensus"}

func parseBool(v string) (bool, error) {
	switch v {
	case "true":
		return true, nil
	case "false":
		return false, nil
	}
	return false, fmt.Errorf("not a bool: %q", v)
}

// paramMsgs builds the message(s) of a parameter operation from the module's CURRENT parameters and the
// overrides t.X.  Only the keys listed here can be changed (denominations, chain config, extra EIPs, validator
// count ... stay as they are); active precompiles must come from the implemented set.
func (r *Replica) paramMsgs(ctx sdk.Context, t bhTx) ([]sdk.Msg, error) {
	a := r.App
	auth := authtypes.NewModuleAddress(govtypes.ModuleName).String()
	bad := func(k string) error { return fmt.Errorf("param %s: unknown key %q", t.S, k) }
	dec := func(v string) (sdk.Dec, error) { return sdk.NewDecFromStr(v) }
	legacy := func(subspace string, changes []paramproposal.ParamChange) ([]sdk.Msg, error) {
		m, err := govv1.NewLegacyContent(paramproposal.NewParameterChangeProposal("parameters", "change of "+subspace, changes), auth)
		if err != nil {
			return nil, err
		}
		return []sdk.Msg{m}, nil
	}
	switch t.S {
	case "erc20":
		p := a.Erc20Keeper.GetParams(ctx)
		for _, kv := range t.X {
			b, err := parseBool(kv[1])
			if err != nil {
				return nil, err
			}
			switch kv[0] {
			case "EnableErc20":
				p.EnableErc20 = b
			case "EnableEVMHook":
				p.EnableEVMHook = b
			default:
				return nil, bad(kv[0])
			}
		}
		return []sdk.Msg{&erc20types.MsgUpdateParams{Authority: auth, Params: p}}, nil
	case "evm":
		p := a.EvmKeeper.GetParams(ctx)
		for _, kv := range t.X {
			switch kv[0] {
			case "EnableCall", "EnableCreate":
				b, err := parseBool(kv[1])
				if err != nil {
					return nil, err
				}
				if kv[0] == "EnableCall" {
					p.EnableCall = b
				} else {
					p.EnableCreate = b
				}
			case "ActivePrecompiles": // comma separated, each one of the implemented precompiles
				var act []string
				for _, hx := range strings.Split(kv[1], ",") {
					if hx == "" {
						continue
					}
					ok := false
					for _, av := range evmtypes.AvailableEVMExtensions {
						ok = ok || av == hx
					}
					if !ok {
						return nil, fmt.Errorf("precompile %s is not implemented", hx)
					}
					act = append(act, hx)
				}
				p.ActivePrecompiles = act
			default:
				return nil, bad(kv[0])
			}
		}
		return []sdk.Msg{&evmtypes.MsgUpdateParams{Authority: auth, Params: p}}, nil
	case "bank":
		p := a.BankKeeper.GetParams(ctx)
		for _, kv := range t.X {
			if kv[0] != "DefaultSendEnabled" {
				return nil, bad(kv[0])
			}
			b, err := parseBool(kv[1])
			if err != nil {
				return nil, err
			}
			p.DefaultSendEnabled = b
		}
		return []sdk.Msg{&banktypes.MsgUpdateParams{Authority: auth, Params: p}}, nil
	case "banksend": // keys are denominations, values true / false / default
		m := &banktypes.MsgSetSendEnabled{Authority: auth}
		for _, kv := range t.X {
			if kv[1] == "default" {
				m.UseDefaultFor = append(m.UseDefaultFor, kv[0])
				continue
			}
			b, err := parseBool(kv[1])
			if err != nil {
				return nil, err
			}
			m.SendEnabled = append(m.SendEnabled, &banktypes.SendEnabled{Denom: kv[0], Enabled: b})
		}
		return []sdk.Msg{m}, nil
	case "staking":
		p := a.StakingKeeper.GetParams(ctx)
		for _, kv := range t.X {
			n, err := strconv.ParseUint(kv[1], 10, 32)
			if err != nil {
				return nil, err
			}
			switch kv[0] {
			case "UnbondingSecs":
				p.UnbondingTime = time.Duration(n) * time.Second
			case "MaxEntries":
				p.MaxEntries = uint32(n)
			case "HistoricalEntries":
				p.HistoricalEntries = uint32(n)
			default:
				return nil, bad(kv[0])
			}
		}
		return []sdk.Msg{&stakingtypes.MsgUpdateParams{Authority: auth, Params: p}}, nil
	case "distribution":
		p := a.DistrKeeper.GetParams(ctx)
		for _, kv := range t.X {
			switch kv[0] {
			case "WithdrawAddrEnabled":
				b, err := parseBool(kv[1])
				if err != nil {
					return nil, err
				}
				p.WithdrawAddrEnabled = b
			case "CommunityTax":
				d, err := dec(kv[1])
				if err != nil {
					return nil, err
				}
				p.CommunityTax = d
			default:
				return nil, bad(kv[0])
			}
		}
		return []sdk.Msg{&distrtypes.MsgUpdateParams{Authority: auth, Params: p}}, nil
	case "gov":
		p := a.GovKeeper.GetParams(ctx)
		for _, kv := range t.X {
			b, err := parseBool(kv[1])
			if err != nil {
				return nil, err
			}
			switch kv[0] {
			case "BurnVoteQuorum":
				p.BurnVoteQuorum = b
			case "BurnProposalDepositPrevote":
				p.BurnProposalDepositPrevote = b
			case "BurnVoteVeto":
				p.BurnVoteVeto = b
			default:
				return nil, bad(kv[0])
			}
		}
		return []sdk.Msg{&govv1.MsgUpdateParams{Authority: auth, Params: p}}, nil
	case "slashing":
		p := a.SlashingKeeper.GetParams(ctx)
		for _, kv := range t.X {
			d, err := dec(kv[1])
			if err != nil {
				return nil, err
			}
			switch kv[0] {
			case "SlashFractionDowntime":
				p.SlashFractionDowntime = d
			case "SlashFractionDoubleSign":
				p.SlashFractionDoubleSign = d
			default:
				return nil, bad(kv[0])
			}
		}
		return []sdk.Msg{&slashingtypes.MsgUpdateParams{Authority: auth, Params: p}}, nil
	case "coinomics":
		var ch []paramproposal.ParamChange
		for _, kv := range t.X {
			switch kv[0] {
			case "EnableCoinomics":
				if _, err := parseBool(kv[1]); err != nil {
					return nil, err
				}
				ch = append(ch, paramproposal.NewParamChange(coinomicstypes.ModuleName, string(coinomicstypes.ParamStoreKeyEnableCoinomics), kv[1]))
			case "RewardCoefficient":
				d, err := dec(kv[1])
				if err != nil {
					return nil, err
				}
				ch = append(ch, paramproposal.NewParamChange(coinomicstypes.ModuleName, string(coinomicstypes.ParamStoreKeyRewardCoefficient), `"`+d.String()+`"`))
			default:
				return nil, bad(kv[0])
			}
		}
		return legacy(coinomicstypes.ModuleName, ch)
	case "feemarket":
		// every field of the module's parameters; the ranges are those of its own validation, except that
		// ElasticityMultiplier = 0 is refused here (it passes Params.Validate and halts every node in the next BeginBlock)
		p := a.FeeMarketKeeper.GetParams(ctx)
		for _, kv := range t.X {
			switch kv[0] {
			case "NoBaseFee":
				b, err := parseBool(kv[1])
				if err != nil {
					return nil, err
				}
				p.NoBaseFee = b
			case "BaseFee":
				v, ok := new(big.Int).SetString(kv[1], 10)
				if !ok {
					return nil, fmt.Errorf("param feemarket: bad BaseFee %q", kv[1])
				}
				p.BaseFee = sdkmath.NewIntFromBigInt(v)
			case "MinGasPrice", "MinGasMultiplier":
				d, err := dec(kv[1])
				if err != nil {
					return nil, err
				}
				if kv[0] == "MinGasPrice" {
					p.MinGasPrice = d
				} else {
					p.MinGasMultiplier = d
				}
			case "BaseFeeChangeDenominator", "ElasticityMultiplier":
				n, err := strconv.ParseUint(kv[1], 10, 32)
				if err != nil {
					return nil, err
				}
				if kv[0] == "BaseFeeChangeDenominator" {
					p.BaseFeeChangeDenominator = uint32(n)
				} else {
					if n == 0 {
						return nil, fmt.Errorf("param feemarket: ElasticityMultiplier 0 is not generated (halts every node)")
					}
					p.ElasticityMultiplier = uint32(n)
				}
			case "EnableHeight":
				n, err := strconv.ParseInt(kv[1], 10, 64)
				if err != nil {
					return nil, err
				}
				p.EnableHeight = n
			default:
				return nil, bad(kv[0])
			}
		}
		return []sdk.Msg{&feemarkettypes.MsgUpdateParams{Authority: auth, Params: p}}, nil
	case "consensus": // the consensus parameter Block.MaxGas (x/consensus MsgUpdateParams; in force from the next block)
		cp, err := a.ConsensusParamsKeeper.Get(ctx)
		if err != nil || cp == nil || cp.Block == nil || cp.Evidence == nil || cp.Validator == nil {
			return nil, fmt.Errorf("param consensus: no stored consensus parameters")
		}
		blk := *cp.Block
		for _, kv := range t.X {
			if kv[0] != "MaxGas" {
				return nil, bad(kv[0])
			}
			n, err := strconv.ParseInt(kv[1], 10, 64)
			if err != nil {
				return nil, err
			}
			if n == 0 {
				return nil, fmt.Errorf("param consensus: MaxGas 0 is not generated (gas target 0 halts every node)")
			}
			blk.MaxGas = n
		}
		return []sdk.Msg{&consensustypes.MsgUpdateParams{Authority: auth, Block: &blk, Evidence: cp.Evidence, Validator: cp.Validator}}, nil
	case "liquidvesting":
		var ch []paramproposal.ParamChange
		for _, kv := range t.X {
			switch kv[0] {
			case "EnableLiquidVesting":
				if _, err := parseBool(kv[1]); err != nil {
					return nil, err
				}
				ch = append(ch, paramproposal.NewParamChange(liquidvestingtypes.ModuleName, string(liquidvestingtypes.ParamStoreKeyEnableLiquidVesting), kv[1]))
			case "MinimumLiquidationAmount":
				ch = append(ch, paramproposal.NewParamChange(liquidvestingtypes.ModuleName, string(liquidvestingtypes.ParamStoreKeyMinimumLiquidationAmount), `"`+bigA(kv[1]).String()+`"`))
			default:
				return nil, bad(kv[0])
			}
		}
		return legacy(liquidvestingtypes.ModuleName, ch)
	}
	return nil, fmt.Errorf("param: unknown module %q", t.S)
}

// ---------------------------------------------------------------- generator
type bhGenExt struct {
	sweep   int            // transactions still to be aimed at blocked addresses (after a parameter change)
	changed [][3]string    // module, key, value before the first change: candidates for "change it back"
	setwd   map[int]bool   // users that tried to set a blocked withdraw address (a withdraw follows)
}

// extKind overrides the kind drawn by pickKind while a sweep is on.
func (g *bhGenerator) extKind(k string) string {
	if g.ext.sweep > 0 {
		g.ext.sweep--
		if g.r.Chance(70) {
			return "toblocked"
		}
	}
	return k
}

func boolS(b bool) string {
	if b {
		return "true"
	}
	return "false"
}

// genParam chooses a parameter operation by looking at the current parameters.
func (g *bhGenerator) genParam(h *histRun, t *bhTx) {
	r := g.r
	a := h.Rep.App
	ctx := h.Rep.ctx()
	t.K, t.F, t.T, t.V, t.V2, t.N = "param", 0, 0, 0, 0, 0
	if len(g.ext.changed) > 0 && r.Chance(40) { // put an earlier change back
		i := r.Intn(len(g.ext.changed))
		c := g.ext.changed[i]
		g.ext.changed = append(g.ext.changed[:i], g.ext.changed[i+1:]...)
		t.S, t.X = c[0], [][2]string{{c[1], c[2]}}
		g.ext.sweep = 2 + r.Intn(4)
		return
	}
	mods := []string{"erc20", "erc20", "erc20", "erc20", "erc20", "evm", "evm", "bank", "banksend", "staking", "staking", "distribution", "distribution", "gov", "gov", "slashing", "coinomics", "coinomics", "liquidvesting"}
	if g.fee != nil && g.fee.fee != nil {
		// a history with a fee-market regime also moves it on the way
		mods = append(mods, "feemarket", "feemarket", "feemarket", "feemarket", "feemarket", "consensus", "consensus")
	}
	t.S = mods[r.Intn(len(mods))]
	set := func(key, old, val string) {
		t.X = append(t.X, [2]string{key, val})
		g.ext.changed = append(g.ext.changed, [3]string{t.S, key, old})
	}
	pickS := func(xs ...string) string { return xs[r.Intn(len(xs))] }
	switch t.S {
	case "erc20":
		p := a.Erc20Keeper.GetParams(ctx)
		// a history with the v1.7.5 upgrade keeps x/erc20 enabled: the handler redeems every liquid token and calls
		// log.Fatalf when a redeem fails ("erc20 module is disabled"), which ends the process — on every node alike,
		// a chain halt and not a divergence, and nothing a harness in the same process can observe
		if g.upgrade < 0 && r.Chance(75) {
			set("EnableErc20", boolS(p.EnableErc20), boolS(!p.EnableErc20))
		} else {
			set("EnableEVMHook", boolS(p.EnableEVMHook), boolS(!p.EnableEVMHook))
		}
	case "evm":
		p := a.EvmKeeper.GetParams(ctx)
		switch r.Intn(3) {
		case 0:
			set("EnableCall", boolS(p.EnableCall), boolS(!p.EnableCall))
		case 1:
			set("EnableCreate", boolS(p.EnableCreate), boolS(!p.EnableCreate))
		default: // a subset of the implemented precompiles
			var act []string
			for _, hx := range evmtypes.AvailableEVMExtensions {
				if r.Chance(60) {
					act = append(act, hx)
				}
			}
			set("ActivePrecompiles", strings.Join(p.ActivePrecompiles, ","), strings.Join(act, ","))
		}
	case "bank":
		p := a.BankKeeper.GetParams(ctx)
		set("DefaultSendEnabled", boolS(p.DefaultSendEnabled), boolS(!p.DefaultSendEnabled))
	case "banksend":
		d := pickS(utils.BaseDenom, utils.BaseDenom, testDenom, bhExtraDenoms[r.Intn(len(bhExtraDenoms))])
		set(d, "default", pickS("false", "false", "true", "default"))
	case "staking":
		p := a.StakingKeeper.GetParams(ctx)
		switch r.Intn(3) {
		case 0:
			set("UnbondingSecs", fmt.Sprint(int64(p.UnbondingTime/time.Second)), pickS("10", "20", "90", "600"))
		case 1:
			set("MaxEntries", fmt.Sprint(p.MaxEntries), pickS("1", "2", "7"))
		default:
			set("HistoricalEntries", fmt.Sprint(p.HistoricalEntries), pickS("0", "3", "10000"))
		}
	case "distribution":
		p := a.DistrKeeper.GetParams(ctx)
		if r.Bool() {
			set("WithdrawAddrEnabled", boolS(p.WithdrawAddrEnabled), boolS(!p.WithdrawAddrEnabled))
		} else {
			set("CommunityTax", p.CommunityTax.String(), pickS("0", "0.02", "0.5", "1"))
		}
	case "gov":
		p := a.GovKeeper.GetParams(ctx)
		switch r.Intn(3) {
		case 0:
			set("BurnVoteQuorum", boolS(p.BurnVoteQuorum), boolS(!p.BurnVoteQuorum))
		case 1:
			set("BurnProposalDepositPrevote", boolS(p.BurnProposalDepositPrevote), boolS(!p.BurnProposalDepositPrevote))
		default:
			set("BurnVoteVeto", boolS(p.BurnVoteVeto), boolS(!p.BurnVoteVeto))
		}
	case "slashing":
		p := a.SlashingKeeper.GetParams(ctx)
		if r.Bool() {
			set("SlashFractionDowntime", p.SlashFractionDowntime.String(), pickS("0", "0.01", "0.2"))
		} else {
			set("SlashFractionDoubleSign", p.SlashFractionDoubleSign.String(), pickS("0.05", "0.5"))
		}
	case "coinomics":
		p := a.CoinomicsKeeper.GetParams(ctx)
		if r.Chance(60) {
			set("EnableCoinomics", boolS(p.EnableCoinomics), boolS(!p.EnableCoinomics))
		} else {
			set("RewardCoefficient", p.RewardCoefficient.String(), pickS("0", "7.8", "50"))
		}
	case "feemarket":
		p := a.FeeMarketKeeper.GetParams(ctx)
		low := g.fee != nil && g.fee.name == "low-base-fee"
		switch k := r.Intn(100); {
		case k < 30:
			if low {
				set("BaseFee", p.BaseFee.String(), pickS("0", "1", "3", "7", "8", "9", "20", "64"))
			} else {
				set("BaseFee", p.BaseFee.String(), pickS("0", "7", "100", "1000000000", "30000000000"))
			}
		case k < 45:
			set("MinGasPrice", p.MinGasPrice.String(), pickS("0", "0", "0.5", "1", "10", "1000000000"))
		case k < 60:
			set("BaseFeeChangeDenominator", fmt.Sprint(p.BaseFeeChangeDenominator), pickS("1", "2", "8", "8", "50", "1000", "4294967295"))
		case k < 75:
			set("ElasticityMultiplier", fmt.Sprint(p.ElasticityMultiplier), pickS("1", "2", "2", "3", "4", "10"))
		case k < 88:
			set("MinGasMultiplier", p.MinGasMultiplier.String(), pickS("0", "0.1", "0.5", "1"))
		case k < 96:
			set("NoBaseFee", boolS(p.NoBaseFee), boolS(!p.NoBaseFee))
		default:
			set("EnableHeight", fmt.Sprint(p.EnableHeight), fmt.Sprint(h.Rep.Height+int64(r.Intn(3))))
		}
	case "consensus":
		set("MaxGas", fmt.Sprint(h.Rep.blockMaxGas(ctx)), pickS("-1", "6000000", "8000000", "12000000", "20000000", "40000000"))
	case "liquidvesting":
		p := a.LiquidVestingKeeper.GetParams(ctx)
		if r.Chance(60) {
			set("EnableLiquidVesting", boolS(p.EnableLiquidVesting), boolS(!p.EnableLiquidVesting))
		} else {
			set("MinimumLiquidationAmount", p.MinimumLiquidationAmount.String(), pickS("1", "1000", "1000000000000000000000"))
		}
	}
	if r.Chance(8) {
		t.X = append(t.X, [2]string{"NoSuchKey", "true"}) // refused as a whole
	}
	g.ext.sweep = 3 + r.Intn(5)
}

// genExt fills in the kinds of this file.  "toblocked" becomes one of the ordinary kinds with a blocked address
// as the named party, so that the result replays through the ordinary transaction builder.
func (g *bhGenerator) genExt(h *histRun, t *bhTx) {
	r := g.r
	a := h.Rep.App
	ctx := h.Rep.ctx()
	spend := func(u int) *big.Int {
		return a.BankKeeper.SpendableCoins(ctx, bhUserAcc[u]).AmountOf(utils.BaseDenom).BigInt()
	}
	small := func(u int) string { return g.fraction(new(big.Int).Quo(spend(u), big.NewInt(200))) }
	target := func() int {
		if r.Chance(60) {
			return bhStrictBlocked[r.Intn(len(bhStrictBlocked))]
		}
		all := blockedActors()
		return all[r.Intn(len(all))]
	}
	switch t.K {
	case "param":
		g.genParam(h, t)
	case "multisend":
		n := 1 + r.Intn(3)
		for i := 0; i < n; i++ {
			to := r.Intn(bhNU)
			if r.Chance(30) {
				to = target()
			}
			t.X = append(t.X, [2]string{fmt.Sprint(to), small(t.F)})
		}
		if r.Chance(15) {
			t.D = testDenom
			for i := range t.X {
				t.X[i][1] = fmt.Sprint(1 + r.Intn(5000))
			}
		}
	case "toblocked":
		if g.ext.setwd == nil {
			g.ext.setwd = map[int]bool{}
		}
		t.T = target()
		t.A = small(t.F)
		switch k := r.Intn(100); {
		case k < 38:
			t.K = "send"
			if r.Chance(25) {
				t.D = testDenom
				t.A = fmt.Sprint(1 + r.Intn(5000))
			}
		case k < 48:
			t.K = "multisend"
			t.X = [][2]string{{fmt.Sprint(t.T), t.A}}
			if r.Bool() {
				t.X = append(t.X, [2]string{fmt.Sprint(r.Intn(bhNU)), small(t.F)})
			}
			if r.Chance(30) {
				t.X = append([][2]string{{fmt.Sprint(r.Intn(bhNU)), small(t.F)}}, t.X...)
			}
			t.T = 0
		case k < 58:
			t.K = "ethsend"
		case k < 63:
			t.K = "ethcall" // a script contract pays the blocked address
			t.B = []bhInstr{{Op: "call", T: t.T, A: fmt.Sprint(1 + r.Intn(5000)), Catch: r.Bool()}, {Op: "sstore", K: 1, V: 1}}
			t.T = bhNU + r.Intn(bhNC)
			t.A = "10000"
		case k < 72:
			// the withdraw address: rewards would be paid to it
			for u := 0; u < bhNU; u++ {
				if g.ext.setwd[u] && r.Chance(60) {
					if ds := a.StakingKeeper.GetDelegatorDelegations(ctx, bhUserAcc[u], 4); len(ds) > 0 {
						delete(g.ext.setwd, u)
						t.K, t.F, t.T, t.A = "withdraw", u, 0, ""
						t.V = valIndexOf(ds[r.Intn(len(ds))].ValidatorAddress)
						return
					}
				}
			}
			t.K, t.A = "setwithdraw", ""
			for try := 0; try < 6; try++ {
				u := r.Intn(bhNU)
				if len(a.StakingKeeper.GetDelegatorDelegations(ctx, bhUserAcc[u], 1)) > 0 {
					t.F = u
					break
				}
			}
			g.ext.setwd[t.F] = true
		case k < 77:
			t.K, t.A = "redeem", "1000"
			t.D = "aLIQUID0"
			if ds := a.LiquidVestingKeeper.GetAllDenoms(ctx); len(ds) > 0 {
				t.D = ds[r.Intn(len(ds))].BaseDenom
				for u := 0; u < bhNU; u++ {
					if bal := a.BankKeeper.GetBalance(ctx, bhUserAcc[u], t.D).Amount; bal.IsPositive() {
						t.F, t.A = u, g.fraction(bal.BigInt())
					}
				}
			}
		case k < 82:
			t.K, t.A = "liquidate", "5000"
			for u := 0; u < bhNU; u++ {
				if va, ok := a.AccountKeeper.GetAccount(ctx, bhUserAcc[u]).(*vestingtypes.ClawbackVestingAccount); ok {
					if l := va.GetLockedUpCoins(ctx.BlockTime()).AmountOf(utils.BaseDenom); l.IsPositive() {
						t.F, t.A = u, g.fraction(l.BigInt())
					}
				}
			}
		case k < 86:
			t.K, t.D, t.A = "converterc20", testDenom, "10"
			if pairs := a.Erc20Keeper.GetTokenPairs(ctx); len(pairs) > 0 {
				p := pairs[r.Intn(len(pairs))]
				t.D = p.Denom
				for u := 0; u < bhNU; u++ {
					if bal := erc20BalanceOf(h.Rep, ctx, p.GetERC20Contract(), bhUserEth[u]); bal.Sign() > 0 {
						t.F, t.A = u, g.fraction(bal)
					}
				}
			}
		case k < 89:
			t.K, t.D = "convertcoin", testDenom
			t.A = g.fraction(a.BankKeeper.GetBalance(ctx, bhUserAcc[t.F], testDenom).Amount.BigInt())
		case k < 93:
			t.K = []string{"daotransferamt", "daotransfer"}[r.Intn(2)]
			t.A = "1"
			for u := 0; u < bhNU; u++ {
				if bal := a.DaoKeeper.GetAccountBalances(ctx, bhUserAcc[u]); !bal.IsZero() {
					t.F, t.D, t.A = u, bal[0].Denom, g.fraction(bal[0].Amount.BigInt())
				}
			}
		case k < 97:
			t.K, t.N, t.N2, t.V = "vest", 60, 0, 0
		case k < 99:
			t.K = "authzexec" // a delegation in the name of the blocked address
		default:
			t.K, t.S, t.A = "propose", "spend", mulE18(10).String() // community pool spend with a blocked recipient
		}
	}
}

// ---------------------------------------------------------------- what the model is told about a history
// Model names (Bank/InvariantModel.v): users keep their index, blocked actor 500+k is account 100+k.
func modelAcc(actor int) int {
	if _, ok := blockedActor(actor); ok {
		return actor - bhBlockedBase + 100
	}
	if actor >= 0 && actor < bhNU {
		return actor
	}
	return 99 // some other address (a contract, a fresh account): not blocked
}

func modelDenom(d string) int {
	if d == "" {
		return 0
	}
	for i := 0; i < boND; i++ {
		if boDenom(i) == d {
			return i
		}
	}
	return 98
}

// histCoq: the term (uop, accepted) of an operation the model has a rule for — the x/erc20 parameter EnableErc20 and the
// signed sends / multi-sends that name a blocked recipient — or "".
func histCoq(t bhTx, accepted bool) string {
	f := ((t.F % bhNU) + bhNU) % bhNU
	switch t.K {
	case "param":
		if t.S != "erc20" {
			return ""
		}
		for _, kv := range t.X {
			if kv[0] == "EnableErc20" && (kv[1] == "true" || kv[1] == "false") {
				return fmt.Sprintf("(UParamErc20 %s, %s)", kv[1], coqBool(accepted))
			}
		}
	case "send":
		if len(namedBlocked(t)) == 0 {
			return ""
		}
		return fmt.Sprintf("(UMsgSend %s %s %s %s false 0%%Z, %s)", coqN(f), coqN(modelAcc(t.T)), coqN(modelDenom(t.D)), coqZ(bigA(t.A)), coqBool(accepted))
	case "multisend":
		if len(namedBlocked(t)) == 0 {
			return ""
		}
		var outs []string
		for _, o := range t.X {
			i, _ := strconv.Atoi(o[0])
			outs = append(outs, fmt.Sprintf("(%s, %s)", coqN(modelAcc(i)), coqZ(bigA(o[1]))))
		}
		return fmt.Sprintf("(UMsgMultiSend %s %s %s, %s)", coqN(f), coqN(modelDenom(t.D)), coqList(outs), coqBool(accepted))
	}
	return ""
}
