package main

// Driver "coinomics" (property C13): the real coinomics EndBlocker /
// MintAndAllocate on a real app.  Per case: the bank supply and the bonded pool
// balance are set with real bank operations, max supply, params
// (EnableCoinomics, RewardCoefficient), PrevBlockTS and the block time are
// chosen; then one or several blocks run the real EndBlocker, with the bonded
// amount and params changed between blocks.  Observed after every block:
// supply, fee collector balance, coinomics module balance, params, PrevBlockTS,
// and the year Go computed for the block time.
//
// The oracle evaluates the property text with big.Rat interval arithmetic,
// independently of the Coq model and of the LegacyDec library: the year by a
// separate civil-from-days algorithm and the Gregorian leap rule, the formula
// bonded x rc% x elapsed / year with the rounding slack that "18-decimal fixed
// point, rounded to the nearest unit" allows, the cap rule, auto-disable, the
// first-block rule, destination of the minted coins.

import (
	"encoding/json"
	"fmt"
	"math/big"
	"strings"
	"time"

	sdkmath "cosmossdk.io/math"
	sdk "github.com/cosmos/cosmos-sdk/types"
	authtypes "github.com/cosmos/cosmos-sdk/x/auth/types"
	stakingtypes "github.com/cosmos/cosmos-sdk/x/staking/types"

	"github.com/haqq-network/haqq/utils"
	coinomicstypes "github.com/haqq-network/haqq/x/coinomics/types"
	evmtypes "github.com/haqq-network/haqq/x/evm/types"
)

func init() { register("coinomics", coinomicsDriver) }

const cnDenom = utils.BaseDenom

type cnParams struct {
	Enabled bool   `json:"enabled"`
	RC      string `json:"rc"` // RewardCoefficient, LegacyDec as its scaled integer
}

type cnBlock struct {
	TS     int64     `json:"ts"` // block time, Unix ms
	Bonded string    `json:"bonded"`
	Params *cnParams `json:"params,omitempty"` // governance change before the EndBlocker
}

type cnInput struct {
	Kind      string    `json:"kind"` // hist | year
	PrevTS    string    `json:"prev_ts,omitempty"`
	MaxSupply string    `json:"max_supply,omitempty"`
	P         cnParams  `json:"p"`
	Supply    string    `json:"supply,omitempty"`
	Blocks    []cnBlock `json:"blocks,omitempty"`
	MS        int64     `json:"ms,omitempty"` // year
}

type cnState struct {
	Panic   bool   `json:"panic,omitempty"`
	PrevTS  string `json:"prev_ts"`
	Max     string `json:"max_supply"`
	Enabled bool   `json:"enabled"`
	RC      string `json:"rc"`
	Supply  string `json:"supply"`
	FeeCol  string `json:"fee_collector"`
	ModBal  string `json:"module"`
	Year    int64  `json:"year"`
}

func (s cnState) coq() string {
	return fmt.Sprintf("(mkst %s %s %s %s %s %s %s)", coqZ(mustBig(s.PrevTS)), coqZ(mustBig(s.Max)), coqBool(s.Enabled),
		coqZ(mustBig(s.RC)), coqZ(mustBig(s.Supply)), coqZ(mustBig(s.FeeCol)), coqZ(mustBig(s.ModBal)))
}

func cnObserve(e *Env, ctx sdk.Context) cnState {
	k := e.App.CoinomicsKeeper
	p := k.GetParams(ctx)
	bal := func(mod string) string {
		return e.App.BankKeeper.GetBalance(ctx, authtypes.NewModuleAddress(mod), cnDenom).Amount.String()
	}
	return cnState{
		PrevTS: k.GetPrevBlockTS(ctx).String(), Max: k.GetMaxSupply(ctx).Amount.String(), Enabled: p.EnableCoinomics,
		RC: p.RewardCoefficient.BigInt().String(), Supply: e.App.BankKeeper.GetSupply(ctx, cnDenom).Amount.String(),
		FeeCol: bal(authtypes.FeeCollectorName), ModBal: bal(coinomicstypes.ModuleName),
	}
}

// cnSetSupply makes the bank supply of the native denom exactly `supply`, all of
// it held by the evm module account (which may mint and burn), using only real
// bank operations: every balance is swept there, the difference minted/burned.
func cnSetSupply(e *Env, ctx sdk.Context, supply *big.Int) error {
	bk := e.App.BankKeeper
	evmAddr := authtypes.NewModuleAddress(evmtypes.ModuleName)
	// make sure the module accounts exist as module accounts before coins arrive
	for _, m := range []string{evmtypes.ModuleName, coinomicstypes.ModuleName, authtypes.FeeCollectorName, stakingtypes.BondedPoolName} {
		e.App.AccountKeeper.GetModuleAccount(ctx, m)
	}
	type hold struct {
		a sdk.AccAddress
		c sdk.Coin
	}
	var hs []hold
	bk.IterateAllBalances(ctx, func(a sdk.AccAddress, c sdk.Coin) bool {
		if c.Denom == cnDenom && !a.Equals(evmAddr) && c.Amount.IsPositive() {
			hs = append(hs, hold{a, c})
		}
		return false
	})
	for _, h := range hs {
		if err := bk.SendCoins(ctx, h.a, evmAddr, sdk.NewCoins(h.c)); err != nil {
			return fmt.Errorf("sweep %s: %w", h.a, err)
		}
	}
	cur := bk.GetSupply(ctx, cnDenom).Amount.BigInt()
	switch d := new(big.Int).Sub(supply, cur); d.Sign() {
	case 1:
		return bk.MintCoins(ctx, evmtypes.ModuleName, sdk.NewCoins(sdk.NewCoin(cnDenom, sdkmath.NewIntFromBigInt(d))))
	case -1:
		return bk.BurnCoins(ctx, evmtypes.ModuleName, sdk.NewCoins(sdk.NewCoin(cnDenom, sdkmath.NewIntFromBigInt(d.Neg(d)))))
	}
	return nil
}

// cnSetBonded moves coins between the evm module account (the reserve) and the
// bonded pool so that staking's TotalBondedTokens is exactly `bonded`.
func cnSetBonded(e *Env, ctx sdk.Context, bonded *big.Int) error {
	bk := e.App.BankKeeper
	cur := e.App.StakingKeeper.TotalBondedTokens(ctx).BigInt()
	d := new(big.Int).Sub(bonded, cur)
	coin := func(x *big.Int) sdk.Coins { return sdk.NewCoins(sdk.NewCoin(cnDenom, sdkmath.NewIntFromBigInt(x))) }
	switch d.Sign() {
	case 1:
		return bk.SendCoinsFromModuleToModule(ctx, evmtypes.ModuleName, stakingtypes.BondedPoolName, coin(d))
	case -1:
		return bk.SendCoinsFromModuleToModule(ctx, stakingtypes.BondedPoolName, evmtypes.ModuleName, coin(d.Neg(d)))
	}
	return nil
}

// ---------------------------------------------------------------- independent calendar
// civilYear: year of a day number (days since 1970-01-01) by the era-based
// civil-from-days algorithm (not the one Go's time package uses).
func civilYear(days *big.Int) *big.Int {
	z := new(big.Int).Add(days, big.NewInt(719468)) // days since 0000-03-01
	era := new(big.Int)
	doe := new(big.Int)
	era.DivMod(z, big.NewInt(146097), doe) // Euclidean: 0 <= doe < 146097
	d := doe.Int64()
	yoe := (d - d/1460 + d/36524 - d/146096) / 365 // [0, 399]
	doy := d - (365*yoe + yoe/4 - yoe/100)         // [0, 365], March-based
	mp := (5*doy + 2) / 153                        // [0, 11]
	y := new(big.Int).Mul(era, big.NewInt(400))
	y.Add(y, big.NewInt(yoe))
	if mp >= 10 { // January, February belong to the next civil year
		y.Add(y, big.NewInt(1))
	}
	return y
}

func yearOfMs(ms int64) *big.Int {
	days := new(big.Int)
	days.Div(big.NewInt(ms), big.NewInt(86400000)) // Euclidean = floor for a positive divisor
	return civilYear(days)
}

func gregLeap(y *big.Int) bool {
	m := func(k int64) bool { return new(big.Int).Mod(y, big.NewInt(k)).Sign() == 0 }
	return (m(4) && !m(100)) || m(400)
}

// ---------------------------------------------------------------- the property
type ratIv struct{ lo, hi *big.Rat }

func ivMul(a, b ratIv) ratIv {
	ps := []*big.Rat{new(big.Rat).Mul(a.lo, b.lo), new(big.Rat).Mul(a.lo, b.hi), new(big.Rat).Mul(a.hi, b.lo), new(big.Rat).Mul(a.hi, b.hi)}
	lo, hi := ps[0], ps[0]
	for _, p := range ps[1:] {
		if p.Cmp(lo) < 0 {
			lo = p
		}
		if p.Cmp(hi) > 0 {
			hi = p
		}
	}
	return ratIv{lo, hi}
}
func ivWiden(a ratIv, by *big.Rat) ratIv {
	return ratIv{new(big.Rat).Sub(a.lo, by), new(big.Rat).Add(a.hi, by)}
}

var (
	ratU     = new(big.Rat).SetFrac(big.NewInt(1), e18) // 10^-18
	ratHalfU = new(big.Rat).Quo(ratU, big.NewRat(2, 1))
	ratHalf  = big.NewRat(1, 2)
)

// cnFormula: bonded x rc% x elapsed / year "evaluated in 18-decimal fixed
// point": every intermediate value is within half a unit of the 18th decimal of
// the exact one (the division is first cut at 36 decimals).  Returns the exact
// rational and the interval the fixed-point value may lie in.
func cnFormula(bonded, rcScaled *big.Int, elapsed int64, yearMs int64) (*big.Rat, ratIv) {
	rate := new(big.Rat).SetFrac(rcScaled, new(big.Int).Mul(e18, big.NewInt(100)))
	frac := big.NewRat(elapsed, yearMs)
	b := new(big.Rat).SetInt(bonded)
	exact := new(big.Rat).Mul(new(big.Rat).Mul(b, rate), frac)
	rateIv := ivWiden(ratIv{rate, rate}, ratHalfU)
	fracIv := ivWiden(ratIv{frac, frac}, new(big.Rat).Add(ratHalfU, new(big.Rat).Mul(ratU, ratU)))
	p1 := ivWiden(ivMul(ratIv{b, b}, rateIv), ratHalfU)
	p2 := ivWiden(ivMul(p1, fracIv), ratHalfU)
	return exact, p2
}

// cnHist: what the oracle knows about the previous block of the history (nil for the first block, whose
// reference is the stored PrevBlockTS): its time, and whether minting was on when its EndBlocker ran.
type cnHist struct {
	TS      int64
	Minting bool // minting was on and the block was an ordinary one (time not running backwards, no panic)
	Off     bool // minting was off
}

// cnOracle checks one block: pre -> post for block (ts, bonded).  The property speaks about the history: "elapsed
// measured between consecutive block timestamps" and "nothing is minted while minting is disabled or on the first
// block after activation" — so the reference time is the PREVIOUS BLOCK's time and a block that follows a block with
// minting off is a first block after activation, whatever timestamp the store still holds.
func cnOracle(pre, post cnState, ts int64, bonded *big.Int, prev *cnHist) (msg string, tags []string) {
	B := func(s string) *big.Int { return mustBig(s) }
	minted := new(big.Int).Sub(B(post.Supply), B(pre.Supply))
	dFee := new(big.Int).Sub(B(post.FeeCol), B(pre.FeeCol))
	// always: destination, cap, parameters untouched
	if minted.Sign() < 0 {
		return fmt.Sprintf("supply decreased by %s", new(big.Int).Neg(minted)), nil
	}
	if dFee.Cmp(minted) != 0 {
		return fmt.Sprintf("minted %s but the fee collector received %s", minted, dFee), nil
	}
	if post.ModBal != pre.ModBal {
		return fmt.Sprintf("coinomics module balance changed %s -> %s", pre.ModBal, post.ModBal), nil
	}
	if post.Max != pre.Max || post.RC != pre.RC {
		return "max supply or reward coefficient changed by the EndBlocker", nil
	}
	capv := B(pre.Max)
	if B(pre.Supply).Cmp(capv) > 0 {
		capv = B(pre.Supply)
	}
	if B(post.Supply).Cmp(capv) > 0 {
		return fmt.Sprintf("supply %s lifted above the maximum %s (was %s)", post.Supply, pre.Max, pre.Supply), nil
	}
	if !pre.Enabled {
		if minted.Sign() != 0 || post.Enabled {
			return fmt.Sprintf("minting disabled but minted %s / enabled=%v", minted, post.Enabled), nil
		}
		return "", []string{"disabled"}
	}
	if prev != nil && prev.Off {
		// first block after a re-activation
		if minted.Sign() != 0 {
			return fmt.Sprintf("first block after minting was switched on again minted %s (the previous block, at %d, ran with minting off; stored PrevBlockTS %s)",
				minted, prev.TS, pre.PrevTS), []string{"reactivation"}
		}
		return "", []string{"first-block", "reactivation"}
	}
	if prev != nil && prev.Minting && B(pre.PrevTS).Sign() != 0 && pre.PrevTS != fmt.Sprint(prev.TS) {
		return fmt.Sprintf("the elapsed time is not measured from the previous block: PrevBlockTS %s, previous block time %d", pre.PrevTS, prev.TS), nil
	}
	if B(pre.PrevTS).Sign() == 0 {
		if minted.Sign() != 0 {
			return fmt.Sprintf("first block after activation minted %s", minted), nil
		}
		if post.PrevTS != fmt.Sprint(ts) || !post.Enabled {
			return fmt.Sprintf("first block after activation: PrevBlockTS %s (block time %d), enabled %v", post.PrevTS, ts, post.Enabled), nil
		}
		return "", []string{"first-block"}
	}
	if !B(pre.PrevTS).IsInt64() {
		return "", []string{"ood:prev-ts-range"}
	}
	year := yearOfMs(ts)
	yearMs := int64(31536000000)
	if gregLeap(year) {
		yearMs = 31622400000
		tags = append(tags, "leap-year")
	}
	if !year.IsInt64() || year.Int64() != post.Year {
		return fmt.Sprintf("block time %d ms lies in year %s, the implementation used %d", ts, year, post.Year), tags
	}
	elapsed := new(big.Int).Sub(big.NewInt(ts), B(pre.PrevTS))
	if !elapsed.IsInt64() {
		return "", append(tags, "ood:elapsed-range")
	}
	exact, iv := cnFormula(bonded, B(pre.RC), elapsed.Int64(), yearMs)
	room := new(big.Rat).SetInt(new(big.Int).Sub(B(pre.Max), B(pre.Supply))) // max - supply
	mustCap := iv.lo.Cmp(room) > 0
	mayCap := iv.hi.Cmp(room) > 0
	mr := new(big.Rat).SetInt(minted)
	ok := false
	why := []string{}
	// scenario A: not capped
	if !mustCap {
		switch {
		case post.Enabled && minted.Sign() == 0 && iv.lo.Sign() < 0:
			ok = true // formula amount negative (or possibly so): nothing minted
			if exact.Sign() < 0 {
				tags = append(tags, "mint:none-negative")
			} else {
				tags = append(tags, "mint:zero")
			}
		case post.Enabled && iv.hi.Sign() >= 0 &&
			mr.Cmp(new(big.Rat).Sub(iv.lo, ratHalf)) >= 0 && mr.Cmp(new(big.Rat).Add(iv.hi, ratHalf)) <= 0 &&
			post.PrevTS == fmt.Sprint(ts):
			ok = true
			if minted.Sign() > 0 {
				tags = append(tags, "mint:formula")
			} else {
				tags = append(tags, "mint:zero")
			}
		default:
			why = append(why, fmt.Sprintf("not capped would need minted within [%s, %s] +- 1/2, enabled, PrevBlockTS=%d",
				iv.lo.FloatString(3), iv.hi.FloatString(3), ts))
		}
	}
	// scenario B: the block crosses (or is above) the maximum
	if !ok && mayCap {
		rem := new(big.Int).Sub(B(pre.Max), B(pre.Supply))
		if rem.Sign() < 0 {
			rem = big.NewInt(0)
		}
		if !post.Enabled && minted.Cmp(rem) == 0 {
			ok = true
			if rem.Sign() > 0 {
				tags = append(tags, "mint:remainder")
			} else {
				tags = append(tags, "mint:at-or-above-cap")
			}
		} else {
			why = append(why, fmt.Sprintf("crossing the maximum would need minted = remainder %s and minting switched off", rem))
		}
	}
	if !ok {
		return fmt.Sprintf("bonded %s x rc %s e-18 %% x elapsed %s ms / year %d ms = %s; supply %s, max %s: minted %s, enabled %v, PrevBlockTS %s; %s",
			bonded, pre.RC, elapsed, yearMs, exact.FloatString(3), pre.Supply, pre.Max, minted, post.Enabled, post.PrevTS, strings.Join(why, "; ")), tags
	}
	return "", tags
}

// ---------------------------------------------------------------- running a case
func cnInDomain(in cnInput) bool {
	lim := new(big.Int).Lsh(big.NewInt(1), 180)
	small := func(s string) bool { x := mustBig(s); return new(big.Int).Abs(x).Cmp(lim) < 0 }
	if !small(in.Supply) || !small(in.MaxSupply) || !small(in.P.RC) {
		return false
	}
	for _, b := range in.Blocks {
		if !small(b.Bonded) || (b.Params != nil && !small(b.Params.RC)) {
			return false
		}
	}
	return true
}

func cnSetParams(e *Env, ctx sdk.Context, p cnParams) {
	e.App.CoinomicsKeeper.SetParams(ctx, coinomicstypes.Params{MintDenom: cnDenom, EnableCoinomics: p.Enabled,
		RewardCoefficient: sdkmath.LegacyNewDecFromBigIntWithPrec(mustBig(p.RC), 18)})
}

func cnRunHist(id string, in cnInput) Case {
	fail := func(m string) Case {
		return Case{ID: id, Kind: "hist", Input: in, OracleOK: false, OracleMsg: "harness: " + m, Key: id}
	}
	e := forkEnv()
	ctx := e.Ctx
	k := e.App.CoinomicsKeeper
	if err := cnSetSupply(e, ctx, mustBig(in.Supply)); err != nil {
		return fail(err.Error())
	}
	k.SetMaxSupply(ctx, sdk.Coin{Denom: cnDenom, Amount: sdkmath.NewIntFromBigInt(mustBig(in.MaxSupply))})
	cnSetParams(e, ctx, in.P)
	k.SetPrevBlockTS(ctx, sdkmath.NewIntFromBigInt(mustBig(in.PrevTS)))
	if err := cnSetBonded(e, ctx, big.NewInt(0)); err != nil {
		return fail(err.Error())
	}
	init := cnObserve(e, ctx)
	if init.Supply != in.Supply || init.FeeCol != "0" || init.ModBal != "0" || init.PrevTS != in.PrevTS || init.Max != in.MaxSupply {
		return fail(fmt.Sprintf("could not establish the initial state: %+v", init))
	}
	inDom := cnInDomain(in)
	pre := init
	obs := []cnState{}
	steps := []string{}
	msg := ""
	tagset := []string{"hist", fmt.Sprintf("blocks:%d", len(in.Blocks))}
	nMint := 0
	var prevBlk *cnHist
	for i, b := range in.Blocks {
		bctx := ctx.WithBlockTime(time.UnixMilli(b.TS).UTC()).WithBlockHeight(int64(2 + i))
		pc := "None"
		if b.Params != nil {
			cnSetParams(e, bctx, *b.Params)
			pc = fmt.Sprintf("(Some (%s, %s))", coqBool(b.Params.Enabled), coqZ(mustBig(b.Params.RC)))
			pre.Enabled, pre.RC = b.Params.Enabled, mustBig(b.Params.RC).String()
		}
		bonded := mustBig(b.Bonded)
		if err := cnSetBonded(e, bctx, bonded); err != nil {
			return fail(fmt.Sprintf("block %d: set bonded: %v", i, err))
		}
		year := int64(bctx.BlockTime().Year())
		panicked := false
		func() {
			defer func() {
				if r := recover(); r != nil {
					panicked = true
				}
			}()
			k.EndBlocker(bctx)
		}()
		blk := fmt.Sprintf("(mkblk %s %s %s)", coqZi(b.TS), coqZ(bonded), pc)
		if panicked {
			obs = append(obs, cnState{Panic: true, Year: year})
			steps = append(steps, fmt.Sprintf("(%s, (%s, None))", blk, coqZi(year)))
			tagset = append(tagset, "panic")
			if inDom && msg == "" {
				msg = fmt.Sprintf("block %d: EndBlocker panicked", i)
			}
			break
		}
		post := cnObserve(e, bctx)
		post.Year = year
		obs = append(obs, post)
		steps = append(steps, fmt.Sprintf("(%s, (%s, Some %s))", blk, coqZi(year), post.coq()))
		if got := e.App.StakingKeeper.TotalBondedTokens(bctx).String(); got != b.Bonded {
			return fail(fmt.Sprintf("block %d: bonded pool holds %s, wanted %s", i, got, b.Bonded))
		}
		if inDom {
			m, tags := cnOracle(pre, post, b.TS, bonded, prevBlk)
			tagset = append(tagset, tags...)
			if m != "" && msg == "" {
				msg = fmt.Sprintf("block %d: %s", i, m)
			}
			for _, t := range tags {
				if strings.HasPrefix(t, "mint:formula") || t == "mint:remainder" {
					nMint++
				}
			}
		} else {
			tagset = append(tagset, "ood:huge-values")
		}
		{
			// an ordinary minting block: minting on, time not behind the reference, supply not above the maximum
			// (otherwise the implementation keeps the old reference: negative formula amount, outside the statement)
			ord := pre.Enabled && mustBig(pre.PrevTS).IsInt64() && mustBig(pre.PrevTS).Int64() <= b.TS &&
				mustBig(pre.Supply).Cmp(mustBig(pre.Max)) <= 0 && bonded.Sign() >= 0 && mustBig(pre.RC).Sign() >= 0 && b.TS != 0
			prevBlk = &cnHist{TS: b.TS, Minting: ord, Off: !pre.Enabled}
		}
		pre = post
	}
	// history: total minted within the headroom
	if msg == "" && inDom && len(obs) > 0 && !obs[len(obs)-1].Panic {
		total := new(big.Int).Sub(mustBig(obs[len(obs)-1].Supply), mustBig(in.Supply))
		head := new(big.Int).Sub(mustBig(in.MaxSupply), mustBig(in.Supply))
		if head.Sign() < 0 {
			head = big.NewInt(0)
		}
		if total.Cmp(head) > 0 {
			msg = fmt.Sprintf("history minted %s in total, headroom was %s", total, head)
		}
	}
	kb, _ := json.Marshal(in)
	return Case{ID: id, Kind: "hist", Input: in, Obs: obs,
		Coq:     fmt.Sprintf("(%s, [%s])", init.coq(), strings.Join(steps, ";\n    ")),
		CoqList: "hist", OracleOK: msg == "", OracleMsg: msg, Nontrivial: nMint > 0, Key: string(kb), Tags: uniqSorted(tagset)}
}

func cnRunYear(id string, in cnInput) Case {
	y := int64(time.UnixMilli(in.MS).UTC().Year())
	want := yearOfMs(in.MS)
	msg := ""
	if !want.IsInt64() || want.Int64() != y {
		msg = fmt.Sprintf("Year() of %d ms = %d, the Gregorian calendar says %s", in.MS, y, want)
	}
	tag := "year:common"
	if gregLeap(want) {
		tag = "year:leap"
	}
	return Case{ID: id, Kind: "year", Input: in, Obs: y, Coq: fmt.Sprintf("(%s, %s)", coqZi(in.MS), coqZi(y)), CoqList: "years",
		OracleOK: msg == "", OracleMsg: msg, Nontrivial: true, Key: fmt.Sprint("year:", in.MS), Tags: []string{"year", tag}}
}

func cnRun(id string, in cnInput) Case {
	if in.Kind == "year" {
		return cnRunYear(id, in)
	}
	return cnRunHist(id, in)
}

// ---------------------------------------------------------------- generators
var cnBoundaries = []int64{
	1672531200000,   // 2023-01-01
	1704067200000,   // 2024-01-01 (leap year begins)
	1709164800000,   // 2024-02-29
	1709251200000,   // 2024-03-01
	1735689600000,   // 2025-01-01 (leap year ends)
	4102444800000,   // 2100-01-01 (divisible by 100: not leap)
	4107542400000,   // 2100-03-01
	4133980800000,   // 2101-01-01
	13569465600000,  // 2400-01-01 (divisible by 400: leap)
	13574563200000,  // 2400-02-29
	13601088000000,  // 2401-01-01
	946684800000,    // 2000-01-01
	0,               // 1970-01-01
	-86400000,       // 1969-12-31
	-62135596800000, // 0001-01-01
	-62167219200000, // 0000-01-01
}

func cnGenTS(r *Rng) int64 {
	switch k := r.Intn(100); {
	case k < 45:
		b := cnBoundaries[r.Intn(len(cnBoundaries))]
		return b + []int64{-5000, -1000, -1, 0, 1, 999, 1000, 5000, 86399999, 86400000}[r.Intn(10)]
	case k < 85:
		return 1_577_836_800_000 + int64(r.U64()%uint64(400_000_000_000)) // 2020 .. 2032
	case k < 93:
		return int64(r.U64()%uint64(40_000_000_000_000)) - 10_000_000_000_000
	default:
		x := int64(r.U64() >> uint(1+r.Intn(20)))
		if r.Bool() {
			x = -x
		}
		return x
	}
}

func cnGenElapsed(r *Rng) int64 {
	switch k := r.Intn(100); {
	case k < 5:
		return 0
	case k < 11:
		return -int64(1 + r.Intn(10000))
	case k < 18:
		return []int64{1, 999, 1000, 1001}[r.Intn(4)]
	case k < 60:
		return int64(4000 + r.Intn(4000))
	case k < 70:
		return 86400000
	case k < 76:
		return []int64{31536000000, 31622400000, 31535999999, 31622400001}[r.Intn(4)]
	default:
		return int64(r.U64() % 20_000_000_000)
	}
}

func cnGenRC(r *Rng) *big.Int {
	switch k := r.Intn(100); {
	case k < 40:
		return new(big.Int).Mul(big.NewInt(78), new(big.Int).Quo(e18, big.NewInt(10))) // 7.8
	case k < 47:
		return big.NewInt(0)
	case k < 54:
		return big.NewInt(int64(1 + r.Intn(100))) // 10^-18 scale: tiny
	case k < 62:
		return new(big.Int).Mul(big.NewInt(100), e18)
	case k < 70:
		return new(big.Int).Mul(big.NewInt(int64(1000+r.Intn(100000))), e18) // large
	case k < 74:
		return new(big.Int).Neg(r.Big(62)) // negative (not excluded by the param validation)
	default:
		return r.Big(70)
	}
}

func cnGenBonded(r *Rng) *big.Int {
	switch k := r.Intn(100); {
	case k < 6:
		return big.NewInt(0)
	case k < 12:
		return big.NewInt(int64(1 + r.Intn(1000)))
	case k < 50:
		x := new(big.Int).Mul(big.NewInt(int64(1+r.Intn(2_000_000_000))), e18) // up to 2*10^9 whole coins
		return x.Add(x, r.Below(e18))
	case k < 75:
		return r.Big(100)
	case k < 90:
		x := r.Big(120)
		return x.Add(x, new(big.Int).Lsh(big.NewInt(1), 100))
	default:
		return r.Big(64)
	}
}

// cnLibMint: the formula amount computed with the real LegacyDec library; used
// by the generator only, to place the maximum supply at the boundary.
func cnLibMint(bonded, rc *big.Int, ts, prev int64) *big.Int {
	year := time.UnixMilli(ts).UTC().Year()
	yr := int64(31536000000)
	if (year%4 == 0 && year%100 != 0) || year%400 == 0 {
		yr = 31622400000
	}
	b := sdkmath.LegacyNewDecFromBigInt(bonded)
	rate := sdkmath.LegacyNewDecFromBigIntWithPrec(rc, 18).Quo(sdkmath.LegacyNewDec(100))
	fr := sdkmath.LegacyNewDec(ts).Sub(sdkmath.LegacyNewDec(prev)).Quo(sdkmath.LegacyNewDec(yr))
	return b.Mul(rate).Mul(fr).RoundInt().BigInt()
}

func cnGenHist(r *Rng) cnInput {
	ts := cnGenTS(r)
	el := cnGenElapsed(r)
	prev := ts - el
	bonded := cnGenBonded(r)
	rc := cnGenRC(r)
	supply := new(big.Int).Add(bonded, r.Big(1+bonded.BitLen()))
	if r.Chance(10) {
		supply = new(big.Int).Set(bonded)
	}
	in := cnInput{Kind: "hist", P: cnParams{Enabled: !r.Chance(7), RC: rc.String()}, Supply: supply.String()}
	if r.Chance(7) || prev == 0 {
		in.PrevTS = "0"
	} else {
		in.PrevTS = fmt.Sprint(prev)
	}
	// maximum supply relative to where the first block would land
	var maxS *big.Int
	func() {
		defer func() {
			if x := recover(); x != nil {
				maxS = new(big.Int).Lsh(supply, 1)
			}
		}()
		m := cnLibMint(bonded, rc, ts, prev)
		if m.Sign() < 0 {
			m = big.NewInt(0)
		}
		land := new(big.Int).Add(supply, m)
		switch k := r.Intn(100); {
		case k < 40:
			maxS = new(big.Int).Mul(big.NewInt(100_000_000_000), e18) // mainnet cap 10^11 coins
			if maxS.Cmp(land) < 0 {
				maxS = new(big.Int).Lsh(land, 2)
			}
		case k < 50:
			maxS = new(big.Int).Sub(land, big.NewInt(1)) // cap - 1: this block crosses
		case k < 60:
			maxS = new(big.Int).Set(land) // exactly reached
		case k < 68:
			maxS = new(big.Int).Add(land, big.NewInt(1))
		case k < 74:
			maxS = new(big.Int).Set(supply) // already at the cap
		case k < 80:
			maxS = new(big.Int).Sub(supply, big.NewInt(int64(1+r.Intn(1000)))) // supply above the cap
		case k < 84:
			maxS = big.NewInt(0)
		case k < 92: // somewhere inside this block's mint
			maxS = new(big.Int).Add(supply, r.Below(new(big.Int).Add(m, big.NewInt(1))))
		default: // a few blocks ahead
			maxS = new(big.Int).Add(land, new(big.Int).Mul(m, big.NewInt(int64(1+r.Intn(4)))))
		}
		if maxS.Sign() < 0 {
			maxS = big.NewInt(0)
		}
	}()
	in.MaxSupply = maxS.String()
	n := 1
	if r.Chance(40) {
		n = 2 + r.Intn(7)
	}
	t := ts
	for i := 0; i < n; i++ {
		b := cnBlock{TS: t, Bonded: bonded.String()}
		if i > 0 && r.Chance(25) {
			nb := cnGenBonded(r)
			if nb.Cmp(supply) <= 0 {
				bonded = nb
				b.Bonded = nb.String()
			}
		}
		if i > 0 && r.Chance(20) {
			p := cnParams{Enabled: !r.Chance(25), RC: rc.String()}
			if r.Chance(40) {
				rc = cnGenRC(r)
				p.RC = rc.String()
			}
			b.Params = &p
		}
		in.Blocks = append(in.Blocks, b)
		t += cnGenElapsed(r)
	}
	return in
}

// cnGenHuge: values at the edge of the 315-bit LegacyDec range (NewDecFromStr
// of the bonded amount / supply fails, products overflow): the code panics.
func cnGenHuge(r *Rng) cnInput {
	in := cnGenHist(r)
	top := new(big.Int).Lsh(big.NewInt(1), 256)
	top.Sub(top, big.NewInt(1))
	supply := new(big.Int).Sub(top, r.Big(200))
	bonded := new(big.Int).Rsh(supply, uint(r.Intn(3)))
	in.Supply = supply.String()
	in.MaxSupply = top.String()
	in.Blocks = in.Blocks[:1]
	in.Blocks[0].Bonded = bonded.String()
	in.Blocks[0].Params = nil
	if r.Bool() {
		in.Supply = new(big.Int).Lsh(big.NewInt(1), 200).String()
		in.Blocks[0].Bonded = new(big.Int).Lsh(big.NewInt(1), 199).String()
		in.P.RC = new(big.Int).Lsh(big.NewInt(1), uint(200+r.Intn(110))).String()
	}
	return in
}

func cnGenYear(r *Rng) cnInput {
	var ms int64
	switch k := r.Intn(100); {
	case k < 40:
		ms = cnBoundaries[r.Intn(len(cnBoundaries))] + int64(r.Intn(3)-1)
	case k < 70:
		// around January 1st of a random year in [-5000, 12000]
		y := int64(r.Intn(17000) - 5000)
		ms = time.Date(int(y), 1, 1, 0, 0, 0, 0, time.UTC).UnixMilli() + int64(r.Intn(3)-1)
	default:
		ms = int64(r.U64())
	}
	return cnInput{Kind: "year", MS: ms}
}

func coinomicsDriver(cfg Config, out *Out) error {
	if cfg.Replay != "" {
		i := 0
		return readReplayInputs(cfg.Replay, func(raw json.RawMessage) error {
			var in cnInput
			if err := json.Unmarshal(raw, &in); err != nil {
				return err
			}
			out.Emit(cnRun(fmt.Sprintf("replay-%d", i), in))
			i++
			return nil
		})
	}
	r := NewRng(cfg.Seed)
	for i := 0; i < cfg.N; i++ {
		cr := r.Fork()
		var in cnInput
		switch k := i % 25; {
		case k < 20:
			in = cnGenHist(cr)
		case k == 20:
			in = cnGenHuge(cr)
		default:
			in = cnGenYear(cr)
		}
		out.Emit(cnRun(fmt.Sprintf("s%d-%d", cfg.Seed, i), in))
	}
	return nil
}
