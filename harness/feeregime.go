package main

// FEE-MARKET REGIME of a block history (properties C01 / C15; the generator is shared).
//
// The base fee is consensus state that EVERY block rewrites in BeginBlock (x/feemarket CalculateBaseFee): it is
// stored in the module's parameters, charged by every transaction and visible to contracts (BASEFEE).  Which of
// the branches of that computation a history reaches is decided by things the default test setups never vary:
//
//	the consensus parameter Block.MaxGas   -1 = "unlimited": the gas target is MaxUint64 / elasticity and no block is
//	                                       ever above it; finite: the target is MaxGas / ElasticityMultiplier
//	x/feemarket parameters                 BaseFee (1e9 by default; tiny values make base * delta / target / denominator
//	                                       truncate to zero: the "minimum step" of the increase branch and the natural floor
//	                                       of the decrease branch), BaseFeeChangeDenominator, ElasticityMultiplier,
//	                                       MinGasPrice (lower bound of the decrease branch, also a fee floor of both
//	                                       transaction routes), MinGasMultiplier (the gas figure of a block is
//	                                       max(wanted * multiplier, used)), NoBaseFee, EnableHeight
//
// A regime is part of the explicit input: bhGenesis.Fee (genesis parameters + MaxGas handed to InitChain) and the
// parameter operations {"k":"param","s":"feemarket"|"consensus",...} of blockparams.go (real MsgUpdateParams handlers
// with the governance authority).  The fees of generated transactions follow the fee market of the state they are
// built on (gas x max(base fee, MinGasPrice)), so they are still accepted.  Blocks marked heavy by the generator are
// filled with explicit filler transactions until their gas figure is above the target; quiet blocks are empty.
//
// ElasticityMultiplier = 0 and a gas target of 0 (MaxGas = 0, or MaxGas < ElasticityMultiplier) make
// CalculateBaseFee divide by zero in BeginBlock on every node alike (recorded observations: a chain halt, not a
// divergence); the generator stays away from them.

import (
	"fmt"
	"math/big"
	"strings"

	sdkmath "cosmossdk.io/math"
	tmproto "github.com/cometbft/cometbft/proto/tendermint/types"
	sdk "github.com/cosmos/cosmos-sdk/types"
	ethtypes "github.com/ethereum/go-ethereum/core/types"

	"github.com/haqq-network/haqq/app"
	evmtypes "github.com/haqq-network/haqq/x/evm/types"
	feemarkettypes "github.com/haqq-network/haqq/x/feemarket/types"
)

type bhFeeMarket struct {
	NoBaseFee    bool   `json:"nobasefee,omitempty"`
	BaseFee      string `json:"basefee"`               // aISLM per gas
	MinGasPrice  string `json:"mingasprice,omitempty"` // decimal, "" = 0
	Denom        uint32 `json:"denom"`                 // BaseFeeChangeDenominator
	Elasticity   uint32 `json:"elasticity"`            // ElasticityMultiplier
	MinGasMult   string `json:"mingasmult,omitempty"`  // decimal in [0,1], "" = the default 0.5
	EnableHeight int64  `json:"enableheight,omitempty"`
	MaxGas       int64  `json:"maxgas"` // consensus Block.MaxGas (-1 = unlimited)
}

func decOr(s string, def sdk.Dec) sdk.Dec {
	if s == "" {
		return def
	}
	d, err := sdk.NewDecFromStr(s)
	if err != nil || d.IsNegative() {
		return def
	}
	return d
}

func (f *bhFeeMarket) params() feemarkettypes.Params {
	p := feemarkettypes.DefaultParams()
	p.NoBaseFee = f.NoBaseFee
	p.BaseFee = sdkmath.NewIntFromBigInt(new(big.Int).Abs(bigA(f.BaseFee)))
	p.MinGasPrice = decOr(f.MinGasPrice, sdk.ZeroDec())
	p.BaseFeeChangeDenominator = f.Denom
	p.ElasticityMultiplier = f.Elasticity
	p.MinGasMultiplier = decOr(f.MinGasMult, feemarkettypes.DefaultMinGasMultiplier)
	if p.MinGasMultiplier.GT(sdk.OneDec()) {
		p.MinGasMultiplier = sdk.OneDec()
	}
	if f.EnableHeight > 0 {
		p.EnableHeight = f.EnableHeight
	}
	return p
}

// bhConsensusParams: what InitChain is given.
func bhConsensusParams(g bhGenesis) *tmproto.ConsensusParams {
	if g.Fee == nil {
		return app.DefaultConsensusParams
	}
	d := app.DefaultConsensusParams
	blk := *d.Block
	blk.MaxGas = g.Fee.MaxGas
	if blk.MaxGas < -1 {
		blk.MaxGas = -1
	}
	return &tmproto.ConsensusParams{Block: &blk, Evidence: d.Evidence, Validator: d.Validator, Version: d.Version}
}

// ---------------------------------------------------------------- prices of generated transactions
// priceFloor: the price per gas a transaction built on the state in ctx has to offer on either route:
// max(base fee, ceil(MinGasPrice)).
func (r *Replica) priceFloor(ctx sdk.Context) *big.Int {
	bf := new(big.Int).Set(r.baseFee(ctx))
	mgp := r.App.FeeMarketKeeper.GetParams(ctx).MinGasPrice
	if !mgp.IsNil() && mgp.IsPositive() {
		if m := mgp.Ceil().TruncateInt().BigInt(); m.Cmp(bf) > 0 {
			return m
		}
	}
	return bf
}

// ethPrices fills in the price fields of an Ethereum transaction: legacy = floor + 1; dynamic = fee cap 2*floor + 1
// and a tip that lifts the effective price (base fee + tip) to the floor.
func (r *Replica) ethPrices(ctx sdk.Context, args *evmtypes.EvmTxArgs, dynamic bool) {
	bf := r.baseFee(ctx)
	floor := r.priceFloor(ctx)
	if dynamic {
		args.GasFeeCap = new(big.Int).Add(new(big.Int).Mul(floor, big.NewInt(2)), big.NewInt(1))
		tip := big.NewInt(1)
		if floor.Cmp(bf) > 0 {
			tip.Add(tip, new(big.Int).Sub(floor, bf))
		}
		args.GasTipCap = tip
		args.Accesses = &ethtypes.AccessList{}
	} else {
		args.GasPrice = new(big.Int).Add(floor, big.NewInt(1))
	}
}

// ---------------------------------------------------------------- what a block did to the base fee
// feeStep: one BeginBlock of the leading replica as far as the fee market goes.
type feeStep struct {
	Height int64
	P      fmParams // parameters the computation read (BaseFee = the parent's)
	MaxGas int64
	G      uint64 // stored gas figure of the parent block
	After  string // BaseFee parameter after BeginBlock
	Kind   string // branch by the closed formula (feeKind)
	Agrees bool   // the stored value is the one the closed formula gives
}

func fmParamsOf(p feemarkettypes.Params) fmParams {
	out := fmParams{NoBaseFee: p.NoBaseFee, Denom: p.BaseFeeChangeDenominator, Elasticity: p.ElasticityMultiplier, BaseFee: "nil",
		EnableHeight: p.EnableHeight, MinGasPrice: "0", MinGasMult: "0"}
	if !p.BaseFee.IsNil() {
		out.BaseFee = p.BaseFee.BigInt().String()
	}
	if !p.MinGasPrice.IsNil() {
		out.MinGasPrice = p.MinGasPrice.BigInt().String()
	}
	if !p.MinGasMultiplier.IsNil() {
		out.MinGasMult = p.MinGasMultiplier.BigInt().String()
	}
	return out
}

// feeKind names the branch of the EIP-1559 update the closed formula (feemarket.go: fmDomainOf / fmFormula, the
// specification side of property C17) takes, and the value it gives ("" = the stored parameter stays as it is).
func feeKind(p fmParams, height int64, maxGas int64, g uint64) (kind string, want string) {
	d := fmDomainOf(p, height, &maxGas)
	if !d.in {
		if d.why == "enable-height" && p.BaseFee != "nil" {
			return "enable-height", p.BaseFee
		}
		return d.why, ""
	}
	gb := new(big.Int).SetUint64(g)
	adm := fmFormula(d, gb)
	want = adm[0].String() // below the target: max(., MinGasPrice truncated), what the code stores
	switch gb.Cmp(d.T) {
	case 0:
		return "unchanged", want
	case 1:
		x := new(big.Int).Sub(gb, d.T)
		x.Mul(x, d.base)
		x.Quo(x, d.T)
		x.Quo(x, d.d)
		if x.Sign() == 0 {
			return "increase-min-step", want
		}
		return "increase", want
	}
	x := new(big.Int).Sub(d.T, gb)
	x.Mul(x, d.base)
	x.Quo(x, d.T)
	x.Quo(x, d.d)
	switch {
	case new(big.Int).Sub(d.base, x).Cmp(d.mFloor) < 0:
		return "decrease-to-min-gas-price", want
	case x.Sign() == 0:
		return "decrease-zero-delta", want
	}
	return "decrease", want
}

// feeTrack follows the fee market of the leading replica through stepHooks.
type feeTrack struct {
	parent feemarkettypes.Params // parameters as of the end of the previous block (the genesis before the first)
	Steps  []feeStep
}

func newFeeTrack(g bhGenesis) *feeTrack {
	p := feemarkettypes.DefaultParams()
	if g.Fee != nil {
		p = g.Fee.params()
	}
	return &feeTrack{parent: p}
}

func (r *Replica) blockMaxGas(ctx sdk.Context) int64 {
	if cp := r.App.BaseApp.GetConsensusParams(ctx); cp != nil && cp.Block != nil {
		return cp.Block.MaxGas
	}
	return -1
}

func (ft *feeTrack) afterBeginBlock(h *histRun, height int64) {
	r := h.Rep
	ctx := r.ctx()
	now := r.App.FeeMarketKeeper.GetParams(ctx)
	st := feeStep{Height: height, P: fmParamsOf(ft.parent), MaxGas: r.blockMaxGas(ctx), G: r.App.FeeMarketKeeper.GetBlockGasWanted(ctx), After: "nil"}
	if !now.BaseFee.IsNil() {
		st.After = now.BaseFee.BigInt().String()
	}
	var want string
	st.Kind, want = feeKind(st.P, height, st.MaxGas, st.G)
	if want == "" {
		want = st.P.BaseFee
	}
	st.Agrees = want == st.After
	ft.Steps = append(ft.Steps, st)
}

func (ft *feeTrack) afterEndBlock(h *histRun, height int64) {
	ft.parent = h.Rep.App.FeeMarketKeeper.GetParams(h.Rep.ctx())
}

// coq: the steps as a list of fee_obs (App/DeterminismModel.v, section 6)
func (ft *feeTrack) coq() string {
	var items []string
	for _, s := range ft.Steps {
		after := "None"
		if s.After != "nil" {
			after = "(Some " + coqZ(mustBig(s.After)) + ")"
		}
		items = append(items, fmt.Sprintf("(%s, %s, (Some %s), %s, %s)", s.P.coq(), coqZi(s.Height), coqZi(s.MaxGas), coqZ(new(big.Int).SetUint64(s.G)), after))
	}
	return coqList(items)
}

// tags: which branches the history took, how often the minimum step, and whether something that is not a block
// input (a restart, a throw-away application) happened to a replica between two minimum steps.
func (ft *feeTrack) tags(blocks []bhBlock) []string {
	seen := map[string]bool{}
	var minSteps []int
	for i, s := range ft.Steps {
		seen["fee:"+s.Kind] = true
		if s.Kind == "increase-min-step" {
			minSteps = append(minSteps, i)
		}
		if !s.Agrees {
			seen["fee:stored-base-fee-differs-from-closed-formula"] = true
		}
	}
	switch n := len(minSteps); {
	case n >= 2:
		seen["fee:min-step-twice-or-more"] = true
		for b := minSteps[0] + 1; b <= minSteps[n-1] && b < len(blocks); b++ {
			for _, p := range blocks[b].Pre {
				if p.K == "restart" || p.K == "construct" {
					seen["fee:"+p.K+"-between-min-steps"] = true
				}
			}
		}
	case n == 1:
		seen["fee:min-step-once"] = true
	}
	var out []string
	for k := range seen {
		out = append(out, k)
	}
	return out
}

// ---------------------------------------------------------------- generator
type feeGen struct {
	name  string // regime family, for the evidence
	fee   *bhFeeMarket
	heavy map[int]bool // blocks filled above the gas target
	quiet map[int]bool // blocks without transactions of the generator
}

func pickStr(r *Rng, xs ...string) string { return xs[r.Intn(len(xs))] }
func pickU32(r *Rng, xs ...uint32) uint32 { return xs[r.Intn(len(xs))] }

// newFeeGen draws the regime of a history.  r is a generator of its own: histories of the default regime are the
// ones the main generator produced before this dimension existed.
func newFeeGen(r *Rng, nblocks int) *feeGen {
	g := &feeGen{heavy: map[int]bool{}, quiet: map[int]bool{}}
	mark := func(m map[int]bool, n int) {
		for i := 0; i < n && nblocks > 1; i++ {
			m[r.Intn(nblocks-1)] = true // the base fee moves in the BeginBlock of the following block
		}
	}
	switch k := r.Intn(100); {
	case k < 36:
		g.name = "default"
		return g
	case k < 70:
		// a base fee at or near its natural floor (where a long quiet period takes it), finite block gas
		g.name = "low-base-fee"
		g.fee = &bhFeeMarket{
			BaseFee:     pickStr(r, "0", "1", "2", "3", "5", "6", "7", "7", "8", "9", "10", "15", "20", "40", "100"),
			Denom:       pickU32(r, 8, 8, 8, 8, 2, 50),
			Elasticity:  pickU32(r, 1, 2, 2, 2, 3, 4),
			MaxGas:      fmPick64(r, 6_000_000, 8_000_000, 10_000_000, 16_000_000),
			MinGasMult:  pickStr(r, "0.5", "0.5", "1", "0.1"),
			MinGasPrice: pickStr(r, "", "", "", "", "0.5", "1", "3"),
		}
		mark(g.heavy, 2+r.Intn(3))
		mark(g.quiet, 1+r.Intn(3))
	default:
		g.name = "wide"
		g.fee = &bhFeeMarket{
			NoBaseFee:    r.Chance(8),
			BaseFee:      pickStr(r, "0", "1", "7", "13", "1000", "1000000000", "1000000000", "1000000000000"),
			Denom:        pickU32(r, 1, 2, 8, 8, 50, 1000, 1_000_000, 4294967295),
			Elasticity:   pickU32(r, 1, 2, 2, 3, 4, 10),
			MaxGas:       fmPick64(r, -1, -1, 6_000_000, 8_000_000, 12_000_000, 20_000_000, 40_000_000, 3_000_000),
			MinGasMult:   pickStr(r, "0", "0.1", "0.5", "0.5", "0.99", "1"),
			MinGasPrice:  pickStr(r, "", "", "0.5", "1", "10", "1000000000", "2500000000"),
			EnableHeight: fmPick64(r, 0, 0, 0, 0, 3, 6),
		}
		mark(g.heavy, 1+r.Intn(3))
		mark(g.quiet, r.Intn(3))
	}
	for b := range g.heavy {
		delete(g.quiet, b)
	}
	return g
}

// fillerNeeded: the block in progress is marked heavy and its gas figure so far (max(wanted * MinGasMultiplier, used)
// as EndBlock will compute it) is not yet above the gas target.
func (g *bhGenerator) fillerNeeded(rep *Replica, blockIdx int) bool {
	if g.fee == nil || g.fee.fee == nil || !g.fee.heavy[blockIdx] {
		return false
	}
	ctx := rep.ctx()
	p := rep.App.FeeMarketKeeper.GetParams(ctx)
	if !p.IsBaseFeeEnabled(ctx.BlockHeight()) || p.ElasticityMultiplier == 0 {
		return false // nothing is accumulated
	}
	mg := rep.blockMaxGas(ctx)
	if mg <= 0 {
		return false // unlimited block gas: no block is above the target
	}
	target := uint64(mg) / uint64(p.ElasticityMultiplier)
	wanted := sdk.NewDec(int64(rep.App.FeeMarketKeeper.GetTransientGasWanted(ctx))).Mul(p.MinGasMultiplier).TruncateInt().Uint64()
	return wanted <= target && p.MinGasMultiplier.IsPositive()
}

// fillerTx: a cheap contract call with a generous gas limit; only its declared gas matters.
func (g *bhGenerator) fillerTx(rep *Replica) *bhTx {
	r := g.r
	return &bhTx{K: "ethcall", F: r.Intn(bhNU), T: bhNU + r.Intn(bhNC), A: "0", N: int64(r.Intn(2)),
		B: []bhInstr{{Op: "sstore", K: uint64(r.Intn(6)), V: uint64(1 + r.Intn(3))}}}
}

var _ = strings.Join
