package main

// Driver "feemarket", case kind "real" (property C17): the block gas figure is
// produced by the real pipeline, nothing is written into the transient store
// by the harness.  A real application is initialised with a consensus
// Block.MaxGas and fee market parameters chosen by the input; every block is
// BeginBlock, DeliverTx of real signed transactions (Cosmos bank sends, one or
// several messages; Ethereum legacy transactions: transfers, calls of a gas
// burning contract, several MsgEthereumTx in one transaction; transactions that
// fail in the ante handler, transactions that fail in execution, undecodable
// bytes), EndBlock, Commit.
//
// After every block the stored figure and the base fee the next BeginBlock
// computes are compared with the property's formula, evaluated by the harness
// from the delivered transactions alone:
//   declared  = sum of the gas limits of the transactions whose ante handler
//               succeeded (observed through the sender's sequence: the ante
//               handler's writes are kept exactly when it succeeds),
//   used      = sum of the gas the transactions report (at most their limit),
//               at most the block gas limit,
//   figure    = max(declared x MinGasMultiplier, used),
//   base fee' = EIP-1559(base fee, figure, T = MaxGas / elasticity).
// The per-block transaction list (declared, used, passed ante) goes into the
// Coq term: the model accumulates the declared gas as GasWantedDecorator /
// AddTransientGasWanted do and is evaluated on the same blocks.

import (
	"encoding/json"
	"fmt"
	"math/big"
	"strings"
	"time"

	sdkmath "cosmossdk.io/math"
	dbm "github.com/cometbft/cometbft-db"
	tmproto "github.com/cometbft/cometbft/proto/tendermint/types"
	clienttx "github.com/cosmos/cosmos-sdk/client/tx"
	codectypes "github.com/cosmos/cosmos-sdk/codec/types"
	sdk "github.com/cosmos/cosmos-sdk/types"
	"github.com/cosmos/cosmos-sdk/types/tx/signing"
	authsigning "github.com/cosmos/cosmos-sdk/x/auth/signing"
	authtx "github.com/cosmos/cosmos-sdk/x/auth/tx"
	banktypes "github.com/cosmos/cosmos-sdk/x/bank/types"
	"github.com/ethereum/go-ethereum/common"
	ethtypes "github.com/ethereum/go-ethereum/core/types"
	"github.com/ethereum/go-ethereum/crypto"

	haqqtypes "github.com/haqq-network/haqq/types"
	"github.com/haqq-network/haqq/utils"
	"github.com/haqq-network/haqq/x/evm/statedb"
	evmtypes "github.com/haqq-network/haqq/x/evm/types"
	feemarkettypes "github.com/haqq-network/haqq/x/feemarket/types"
)

// one transaction of a "real" block
type fmRTx struct {
	Route string   `json:"route"`           // bank | eth | raw (undecodable bytes)
	From  int      `json:"from"`            // sender: chain account 0..5
	Gas   []uint64 `json:"gas,omitempty"`   // declared gas: bank: the gas limit of the transaction; eth: one limit per MsgEthereumTx
	N     int      `json:"n,omitempty"`     // bank: number of MsgSend messages (default 1)
	Kind  string   `json:"kind,omitempty"`  // eth: transfer (default) | spin (loop Iter times, about 40 gas each) | burn (loop until out of gas)
	Iter  int      `json:"iter,omitempty"`  // eth spin: iterations
	Fault string   `json:"fault,omitempty"` // seq: signed for a wrong sequence / nonce (ante fails); fee: price below the base fee (ante fails); funds: bank send above the balance (execution fails)
}

type fmRTxObs struct {
	Declared string `json:"declared"`
	Used     string `json:"used"` // gas charged to the block: reported GasUsed, at most the declared limit
	Ante     bool   `json:"ante"` // the ante handler succeeded (sender sequence advanced)
	Code     uint32 `json:"code"`
	Space    string `json:"codespace,omitempty"`
}

type fmRBlockObs struct {
	Panic   bool       `json:"panic,omitempty"`
	BaseFee string     `json:"base_fee"` // fee market base fee parameter after BeginBlock
	Stored  string     `json:"stored"`   // fee market block gas after EndBlock + Commit
	Txs     []fmRTxObs `json:"txs"`
}

var (
	fmSpinAddr = common.HexToAddress("0xC170000000000000000000000000000000000017")
	// loop calldata[0..32) times, about 40 gas per iteration
	fmSpinCode = assemble(`
0 CALLDATALOAD
loop:
DUP1 ISZERO @end JUMPI
1 SWAP1 SUB
@loop JUMP
end:
STOP`)
	fmSink = common.HexToAddress("0x5100000000000000000000000000000000000017")
)

func fmGenesisParams(p fmParams) feemarkettypes.Params {
	return feemarkettypes.Params{
		NoBaseFee:                p.NoBaseFee,
		BaseFeeChangeDenominator: p.Denom,
		ElasticityMultiplier:     p.Elasticity,
		BaseFee:                  sdkmath.NewIntFromBigInt(mustBig(p.BaseFee)),
		EnableHeight:             p.EnableHeight,
		MinGasPrice:              sdkmath.LegacyNewDecFromBigIntWithPrec(mustBig(p.MinGasPrice), 18),
		MinGasMultiplier:         sdkmath.LegacyNewDecFromBigIntWithPrec(mustBig(p.MinGasMult), 18),
	}
}

// the price every well-formed transaction offers: twice the larger of base fee
// and minimum gas price (rounded up), plus 10
func fmPrice(base *big.Int, mgp *big.Int) *big.Int {
	m := new(big.Int).Quo(mgp, e18)
	if new(big.Int).Rem(mgp, e18).Sign() != 0 {
		m.Add(m, big.NewInt(1))
	}
	if base != nil && base.Cmp(m) > 0 {
		m = new(big.Int).Set(base)
	}
	m.Mul(m, big.NewInt(2))
	return m.Add(m, big.NewInt(10))
}

func fmLowPrice(base *big.Int, mgp *big.Int) *big.Int {
	m := new(big.Int).Quo(mgp, e18)
	if base != nil && base.Cmp(m) > 0 {
		m = new(big.Int).Set(base)
	}
	if m.Sign() > 0 {
		m.Sub(m, big.NewInt(1))
	}
	return m
}

func (t fmRTx) declared() *big.Int {
	s := new(big.Int)
	for _, g := range t.Gas {
		s.Add(s, new(big.Int).SetUint64(g))
	}
	return s
}

// fmBuildBank: a Cosmos transaction of N bank sends signed by account From.
func fmBuildBank(c *Chain, ctx sdk.Context, t fmRTx, price *big.Int) ([]byte, error) {
	ca := chainAcct(t.From)
	b := c.TxCfg.NewTxBuilder()
	n := t.N
	if n < 1 {
		n = 1
	}
	amt := sdkmath.NewInt(1)
	if t.Fault == "funds" {
		bal := c.App.BankKeeper.GetBalance(ctx, ca.Acc, utils.BaseDenom).Amount
		amt = bal.AddRaw(1)
	}
	msgs := []sdk.Msg{}
	for i := 0; i < n; i++ {
		msgs = append(msgs, banktypes.NewMsgSend(ca.Acc, sdk.AccAddress(fmSink.Bytes()), sdk.Coins{{Denom: utils.BaseDenom, Amount: amt}}))
	}
	if err := b.SetMsgs(msgs...); err != nil {
		return nil, err
	}
	gas := uint64(0)
	if len(t.Gas) > 0 {
		gas = t.Gas[0]
	}
	b.SetGasLimit(gas)
	fee := new(big.Int).Mul(price, new(big.Int).SetUint64(gas))
	if fee.Sign() > 0 {
		b.SetFeeAmount(sdk.Coins{{Denom: utils.BaseDenom, Amount: sdkmath.NewIntFromBigInt(fee)}})
	}
	acc := c.App.AccountKeeper.GetAccount(ctx, ca.Acc)
	if acc == nil {
		return nil, fmt.Errorf("sender account missing")
	}
	seq := acc.GetSequence()
	if t.Fault == "seq" {
		seq += 3
	}
	mode := signing.SignMode_SIGN_MODE_DIRECT
	sig := signing.SignatureV2{PubKey: ca.Priv.PubKey(), Data: &signing.SingleSignatureData{SignMode: mode}, Sequence: seq}
	if err := b.SetSignatures(sig); err != nil {
		return nil, err
	}
	sd := authsigning.SignerData{ChainID: chainID, AccountNumber: acc.GetAccountNumber(), Sequence: seq}
	sig, err := clienttx.SignWithPrivKey(mode, sd, b, ca.Priv, c.TxCfg, seq)
	if err != nil {
		return nil, err
	}
	if err := b.SetSignatures(sig); err != nil {
		return nil, err
	}
	return c.TxCfg.TxEncoder()(b.GetTx())
}

// fmBuildEth: one Cosmos transaction wrapping len(Gas) signed legacy Ethereum
// transactions of account From (consecutive nonces), the way clients build it.
func fmBuildEth(c *Chain, ctx sdk.Context, t fmRTx, price *big.Int) ([]byte, error) {
	ca := chainAcct(t.From)
	key, err := ca.Priv.ToECDSA()
	if err != nil {
		return nil, err
	}
	nonce := c.App.EvmKeeper.GetNonce(ctx, ca.Eth)
	if t.Fault == "seq" {
		nonce += 3
	}
	signer := ethtypes.LatestSignerForChainID(c.EthChain)
	b := c.TxCfg.NewTxBuilder()
	msgs := []sdk.Msg{}
	fee := sdkmath.ZeroInt()
	gas := uint64(0)
	for i, g := range t.Gas {
		to := fmSink
		value := big.NewInt(1)
		var data []byte
		switch t.Kind {
		case "spin":
			to, value, data = fmSpinAddr, big.NewInt(0), word(big.NewInt(int64(t.Iter)))
		case "burn":
			to, value, data = fmSpinAddr, big.NewInt(0), word(new(big.Int).Sub(new(big.Int).Lsh(big.NewInt(1), 255), big.NewInt(1)))
		}
		stx, err := ethtypes.SignTx(ethtypes.NewTx(&ethtypes.LegacyTx{Nonce: nonce + uint64(i), To: &to, Value: value, Gas: g,
			GasPrice: new(big.Int).Set(price), Data: data}), signer, key)
		if err != nil {
			return nil, err
		}
		msg := &evmtypes.MsgEthereumTx{}
		if err := msg.FromEthereumTx(stx); err != nil {
			return nil, err
		}
		msgs = append(msgs, msg)
		fee = fee.Add(sdkmath.NewIntFromBigInt(msg.GetFee()))
		gas += g
	}
	if err := b.SetMsgs(msgs...); err != nil {
		return nil, err
	}
	opt, err := codectypes.NewAnyWithValue(&evmtypes.ExtensionOptionsEthereumTx{})
	if err != nil {
		return nil, err
	}
	b.(authtx.ExtensionOptionsTxBuilder).SetExtensionOptions(opt)
	b.SetGasLimit(gas)
	if fee.IsPositive() {
		b.SetFeeAmount(sdk.Coins{{Denom: utils.BaseDenom, Amount: fee}})
	}
	return c.TxCfg.TxEncoder()(b.GetTx())
}

func fmSeqOf(c *Chain, ctx sdk.Context, i int) uint64 {
	acc := c.App.AccountKeeper.GetAccount(ctx, chainAcct(i).Acc)
	if acc == nil {
		return 0
	}
	return acc.GetSequence()
}

func minBig(a, b *big.Int) *big.Int {
	if a.Cmp(b) < 0 {
		return a
	}
	return b
}

func fmRunReal(id string, in fmInput) (out []Case) {
	kb, _ := json.Marshal(in)
	fail := func(msg string) []Case {
		return []Case{{ID: id, Kind: "real", Input: in, OracleOK: false, OracleMsg: "harness: " + msg, Key: string(kb), Obligation: true}}
	}
	if in.P.BaseFee == "nil" || in.MaxGas == nil {
		return fail("real histories need stored parameters and consensus parameters")
	}
	gp := fmGenesisParams(in.P)
	if err := gp.Validate(); err != nil {
		return fail("parameters: " + err.Error())
	}
	cp := *chainConsensusParams
	cp.Block = &tmproto.BlockParams{MaxBytes: chainConsensusParams.Block.MaxBytes, MaxGas: *in.MaxGas}
	g0 := mustBig(in.G0)
	var c *Chain
	func() {
		defer func() {
			if r := recover(); r != nil {
				out = fail(fmt.Sprintf("InitChain: %v", r))
			}
		}()
		c = newChainCP(dbm.NewMemDB(), &cp, func(gs haqqtypes.GenesisState) {
			gs[feemarkettypes.ModuleName] = chainEnc.Codec.MustMarshalJSON(&feemarkettypes.GenesisState{Params: gp, BlockGas: g0.Uint64()})
		})
	}()
	if c == nil {
		return out
	}
	mult := mustBig(in.P.MinGasMult)
	mgp := mustBig(in.P.MinGasPrice)
	limit := new(big.Int).Set(maxUint64Big) // what a transaction may declare at most
	var meterLimit *big.Int                 // BaseApp's block gas meter: nil = infinite
	if *in.MaxGas > 0 {
		limit = big.NewInt(*in.MaxGas)
		meterLimit = limit
	}
	k := c.App.FeeMarketKeeper
	obs := []fmRBlockObs{}
	steps := []string{}
	tags := []string{"real", fmt.Sprintf("real:max-gas=%d", *in.MaxGas), "real:mult=" + in.P.MinGasMult}
	msg := ""
	established := false
	nOK := 0
	prevFigure := new(big.Int).Set(g0) // the figure the next BeginBlock must use
	for i, b := range in.Blocks {
		height := int64(i + 1)
		o := fmRBlockObs{Txs: []fmRTxObs{}}
		pre := gp // the parameters before this block: genesis, then the committed state
		if i > 0 {
			pre = k.GetParams(c.QueryCtx())
		}
		func() {
			defer func() {
				if r := recover(); r != nil {
					o.Panic = true
				}
			}()
			c.Begin(5 * time.Second)
		}()
		if o.Panic {
			obs = append(obs, o)
			steps = append(steps, fmt.Sprintf("((%s, %s, []), None)", coqZi(height), coqOptI64(in.MaxGas)))
			tags = append(tags, "real:panic")
			if msg == "" {
				msg = fmt.Sprintf("block %d: BeginBlock panicked inside the property's domain", i)
			}
			break
		}
		ctx := c.Ctx()
		if i == 0 {
			// the gas burning contract (no transaction, no gas)
			if err := c.Direct(func(ctx sdk.Context) error {
				h := crypto.Keccak256Hash(fmSpinCode)
				c.App.EvmKeeper.SetCode(ctx, h.Bytes(), fmSpinCode)
				return c.App.EvmKeeper.SetAccount(ctx, fmSpinAddr, statedb.Account{Nonce: 1, Balance: big.NewInt(0), CodeHash: h.Bytes()})
			}); err != nil {
				return fail("contract: " + err.Error())
			}
		}
		post := k.GetParams(ctx)
		o.BaseFee = post.BaseFee.String()
		enabled := k.GetBaseFeeEnabled(ctx)

		// ---- the base fee of this block against the formula, from the previous block's figure
		if msg == "" {
			pp := in.P
			pp.BaseFee = pre.BaseFee.String()
			dom := fmDomainOf(pp, height, in.MaxGas)
			if dom.in {
				nOK++
				if m := fmCheckValue(dom, prevFigure, o.BaseFee); m != "" {
					msg = fmt.Sprintf("block %d (height %d): the previous block's gas figure is %s by the property; %s", i, height, prevFigure, m)
				}
				if dom.base.Cmp(dom.mFloor) >= 0 {
					established = true
				}
				if established && msg == "" && mustBig(o.BaseFee).Cmp(dom.mFloor) < 0 {
					msg = fmt.Sprintf("block %d: base fee %s fell below the minimum gas price %s e-18 after having been at or above it", i, o.BaseFee, dom.mgp)
				}
				switch prevFigure.Cmp(dom.T) {
				case 0:
					tags = append(tags, "branch:target")
				case 1:
					tags = append(tags, "branch:above")
				default:
					tags = append(tags, "branch:below")
				}
			} else {
				tags = append(tags, "ood:"+dom.why)
			}
		}

		// ---- the transactions
		price := fmPrice(post.BaseFee.BigInt(), mgp)
		declared := new(big.Int) // of the transactions that passed the ante handler
		used := new(big.Int)
		dtx := []string{}
		for _, t := range b.Txs {
			p := price
			if t.Fault == "fee" {
				p = fmLowPrice(post.BaseFee.BigInt(), mgp)
			}
			var bz []byte
			var err error
			switch t.Route {
			case "bank":
				bz, err = fmBuildBank(c, c.Ctx(), t, p)
			case "eth":
				bz, err = fmBuildEth(c, c.Ctx(), t, p)
			case "raw":
				bz = []byte{0xff, 0x01, 0x02, byte(t.From)}
			default:
				err = fmt.Errorf("unknown route %q", t.Route)
			}
			if err != nil {
				return fail("build: " + err.Error())
			}
			seq0 := fmSeqOf(c, c.Ctx(), t.From)
			res := c.Deliver(bz)
			seq1 := fmSeqOf(c, c.Ctx(), t.From)
			d := t.declared()
			if t.Route == "raw" {
				d = new(big.Int)
			}
			u := big.NewInt(res.GasUsed)
			if res.GasWanted > 0 {
				u = minBig(u, new(big.Int).SetUint64(uint64(res.GasWanted)))
			}
			to := fmRTxObs{Declared: d.String(), Used: u.String(), Ante: seq1 > seq0, Code: res.Code, Space: res.Codespace}
			o.Txs = append(o.Txs, to)
			dtx = append(dtx, fmt.Sprintf("mkdtx %s %s %s", coqZ(d), coqZ(u), coqBool(to.Ante)))
			if to.Ante {
				declared.Add(declared, d)
			}
			used.Add(used, u)
			switch {
			case res.Code == 0:
				tags = append(tags, "tx:"+t.Route+":ok")
			case to.Ante:
				tags = append(tags, "tx:"+t.Route+":exec-fail")
			case strings.Contains(res.Log, "no block gas left"):
				tags = append(tags, "tx:"+t.Route+":no-block-gas")
			default:
				tags = append(tags, "tx:"+t.Route+":ante-fail")
			}
			if len(t.Gas) > 1 || t.N > 1 {
				tags = append(tags, "tx:"+t.Route+":multi-msg")
			}
		}
		func() {
			defer func() {
				if r := recover(); r != nil {
					o.Panic = true
				}
			}()
			c.End()
		}()
		blk := fmt.Sprintf("(%s, %s, %s)", coqZi(height), coqOptI64(in.MaxGas), coqList(dtx))
		if o.Panic {
			obs = append(obs, o)
			steps = append(steps, fmt.Sprintf("(%s, None)", blk))
			tags = append(tags, "real:panic")
			if msg == "" {
				msg = fmt.Sprintf("block %d: EndBlock / Commit panicked", i)
			}
			break
		}
		stored := new(big.Int).SetUint64(k.GetBlockGasWanted(c.QueryCtx()))
		o.Stored = stored.String()
		obs = append(obs, o)
		steps = append(steps, fmt.Sprintf("(%s, Some ((Some %s), %s))", blk, coqZ(post.BaseFee.BigInt()), coqZ(stored)))

		// ---- the figure of this block by the property
		blockUsed := used
		if meterLimit != nil {
			blockUsed = minBig(used, meterLimit)
		}
		nTxs := len(b.Txs)
		tags = append(tags, fmt.Sprintf("real:txs=%d", nTxs))
		T := fmTargetOf(in.P, in.MaxGas)
		if declared.Cmp(limit) > 0 {
			tags = append(tags, "real:declared>limit")
		} else if declared.Cmp(limit) == 0 && declared.Sign() > 0 {
			tags = append(tags, "real:declared=limit")
		}
		if T != nil {
			dm := new(big.Int).Mul(declared, mult)
			dm.Quo(dm, e18)
			switch dm.Cmp(T) {
			case 1:
				tags = append(tags, "real:declared*mult>T")
			case 0:
				tags = append(tags, "real:declared*mult=T")
			default:
				tags = append(tags, "real:declared*mult<T")
			}
			if dm.Cmp(blockUsed) > 0 {
				tags = append(tags, "gas:wanted-wins")
			} else {
				tags = append(tags, "gas:used-wins")
			}
		}
		figureByProperty, figureOK := false, false
		if enabled {
			m, d := fmGasOracle(declared, blockUsed, mult, o.Stored)
			if d {
				figureByProperty, figureOK = true, m == ""
				if m != "" && msg == "" {
					msg = fmt.Sprintf("block %d (height %d, %d txs, gas limit %s): %s [declared = gas limits of the transactions that passed the ante handler, used = gas reported by the transactions]",
						i, height, nTxs, limit, m)
				}
			}
		}
		if figureByProperty {
			// the figure the property feeds to the next base fee, computed here (the stored
			// one only when it is this figure up to the rounding the text leaves open)
			f := new(big.Int).Mul(declared, mult)
			f.Quo(f, e18)
			if f.Cmp(blockUsed) < 0 {
				f = new(big.Int).Set(blockUsed)
			}
			prevFigure = f
			if figureOK {
				prevFigure = stored
			}
		} else {
			tags = append(tags, "real:figure-ood")
			prevFigure = stored
		}
	}
	return []Case{{ID: id, Kind: "real", Input: in, Obs: obs,
		Coq:     fmt.Sprintf("(%s, %s, [%s])", in.P.coq(), coqZ(g0), strings.Join(steps, ";\n    ")),
		CoqList: "real", OracleOK: msg == "", OracleMsg: msg, Nontrivial: nOK >= 2, Key: string(kb), Tags: uniqSorted(tags)}}
}

// ---------------------------------------------------------------- generator
func fmPick64(r *Rng, xs ...int64) int64 { return xs[r.Intn(len(xs))] }

// fmSplit cuts total into k parts, each within [lo, hi] (the caller makes sure k*lo <= total <= k*hi).
func fmSplit(r *Rng, total uint64, k int, lo, hi uint64) []uint64 {
	parts := make([]uint64, k)
	rest := total
	for i := 0; i < k; i++ {
		parts[i] = lo
		rest -= lo
	}
	for rest > 0 {
		progress := false
		for i := 0; i < k && rest > 0; i++ {
			room := hi - parts[i]
			if room == 0 {
				continue
			}
			add := rest
			if i < k-1 || true {
				share := rest/uint64(k) + 1
				add = share/2 + uint64(r.Intn(int(share/2+1)))
				if add == 0 {
					add = 1
				}
			}
			if add > room {
				add = room
			}
			if add > rest {
				add = rest
			}
			parts[i] += add
			rest -= add
			progress = progress || add > 0
		}
		if !progress {
			break
		}
	}
	return parts
}

func fmGenReal(r *Rng) fmInput {
	p := fmParams{Denom: []uint32{8, 8, 1, 2, 50}[r.Intn(5)], Elasticity: uint32(1 + r.Intn(4))}
	if r.Chance(35) {
		p.Elasticity = 2
	}
	switch k := r.Intn(100); {
	case k < 12:
		p.MinGasMult = "0"
	case k < 30:
		p.MinGasMult = "200000000000000000"
	case k < 70:
		p.MinGasMult = "500000000000000000"
	case k < 88:
		p.MinGasMult = e18.String()
	case k < 94:
		p.MinGasMult = new(big.Int).Quo(e18, big.NewInt(3)).String()
	default:
		p.MinGasMult = r.Below(new(big.Int).Add(e18, big.NewInt(1))).String()
	}
	var maxGas int64
	switch k := r.Intn(100); {
	case k < 80:
		maxGas = fmPick64(r, 2_000_000, 3_000_000, 5_000_000, 10_000_000, 20_000_000, 20_000_000, 40_000_000)
	case k < 88:
		maxGas = 2_000_000 + int64(r.Intn(38_000_001))
	default:
		maxGas = -1
	}
	base := big.NewInt(fmPick64(r, 7, 100, 1000, 1_000_000_000, 1_000_000_000, 20_000_000_000))
	if r.Chance(15) {
		base = big.NewInt(int64(1 + r.Intn(2_000_000_000)))
	}
	p.BaseFee = base.String()
	switch k := r.Intn(100); {
	case k < 45:
		p.MinGasPrice = "0"
	case k < 70:
		p.MinGasPrice = new(big.Int).Mul(r.Below(new(big.Int).Add(base, big.NewInt(1))), e18).String()
	case k < 80:
		p.MinGasPrice = new(big.Int).Mul(base, e18).String()
	case k < 90:
		x := new(big.Int).Mul(r.Below(base), e18)
		p.MinGasPrice = x.Add(x, r.Below(e18)).String()
	default: // above the base fee (class K2 for monotonicity, which real histories do not evaluate)
		x := new(big.Int).Add(base, big.NewInt(int64(1+r.Intn(100))))
		p.MinGasPrice = x.Mul(x, e18).String()
	}
	if r.Chance(5) {
		p.NoBaseFee = true
	}
	if r.Chance(15) {
		p.EnableHeight = int64(1 + r.Intn(3))
	}
	in := fmInput{Kind: "real", P: p, MaxGas: i64p(maxGas)}
	L := uint64(40_000_000) // the scale of the declared amounts
	if maxGas > 0 {
		L = uint64(maxGas)
	}
	T := L / uint64(p.Elasticity)
	switch k := r.Intn(100); {
	case k < 30:
		in.G0 = "0"
	case k < 50:
		in.G0 = fmt.Sprint(T)
	case k < 65:
		in.G0 = fmt.Sprint(2 * T)
	default:
		in.G0 = fmt.Sprint(uint64(r.Intn(int(2*T + 2))))
	}
	mult := mustBig(p.MinGasMult)
	// declared total at which floor(total x mult) reaches T
	var dT uint64
	if mult.Sign() > 0 {
		x := new(big.Int).Mul(new(big.Int).SetUint64(T), e18)
		x.Add(x, new(big.Int).Sub(mult, big.NewInt(1)))
		x.Quo(x, mult)
		if x.IsUint64() {
			dT = x.Uint64()
		}
	}
	const minGas = 160_000 // enough for a one-message bank send
	nb := 2 + r.Intn(4)
	for bi := 0; bi < nb; bi++ {
		var total uint64
		switch k := r.Intn(100); {
		case k < 8:
			total = 0
		case k < 20:
			total = uint64(minGas * (1 + r.Intn(4)))
		case k < 34:
			total = dT
		case k < 46:
			total = dT + uint64(r.Intn(5)) - 2
		case k < 56:
			total = L
		case k < 66:
			total = L + 1 + uint64(r.Intn(1000))
		case k < 76:
			total = 2 * L
		case k < 90:
			total = L + uint64(r.Intn(int(6*L)))
		default:
			total = uint64(r.Intn(int(L)))
		}
		if maxGas < 0 && r.Chance(50) {
			total = uint64(r.Intn(20_000_000))
		}
		blk := fmBlock{Txs: []fmRTx{}}
		if total >= minGas {
			kmin := int((total + L - 1) / L)
			kmax := int(total / minGas)
			if kmax > 8 {
				kmax = 8
			}
			if kmin <= kmax {
				k := kmin + r.Intn(kmax-kmin+1)
				if r.Chance(40) && kmax >= 5 && kmin <= 5 {
					k = 5
				}
				bankHeavy := total > L/2
				for _, g := range fmSplit(r, total, k, minGas, L) {
					t := fmRTx{From: r.Intn(chainNAccts), Gas: []uint64{g}}
					q := r.Intn(100)
					if bankHeavy {
						q = q * 35 / 100 // mostly bank sends: the block declares much and uses little
						if r.Chance(15) {
							q = 65 + r.Intn(35)
						}
					}
					switch {
					case q < 55:
						t.Route = "bank"
						if r.Chance(20) && g >= 300_000 {
							t.N = 2 + r.Intn(3)
						}
					case q < 65:
						t.Route, t.Fault = "bank", "funds"
					case q < 80:
						t.Route, t.Kind = "eth", "transfer"
					case q < 90:
						t.Route, t.Kind, t.Iter = "eth", "spin", r.Intn(int(g/45)+1)
					case q < 95:
						t.Route, t.Kind = "eth", "burn"
					default:
						t.Route, t.Kind = "eth", "transfer"
						if g >= 100_000 {
							a := 30_000 + uint64(r.Intn(int(g-60_000)))
							t.Gas = []uint64{a, g - a}
						}
					}
					blk.Txs = append(blk.Txs, t)
				}
			}
		}
		// transactions that are not meant to count
		for r.Chance(25) && len(blk.Txs) < 10 {
			t := fmRTx{From: r.Intn(chainNAccts), Gas: []uint64{uint64(200_000 + r.Intn(800_000))}}
			switch r.Intn(7) {
			case 0:
				t.Route, t.Fault = "bank", "seq"
			case 1:
				t.Route, t.Fault = "bank", "fee"
			case 2:
				t.Route, t.Fault = "eth", "seq"
			case 3:
				t.Route, t.Fault = "eth", "fee"
			case 4:
				t.Route, t.Gas = "raw", nil
			case 5:
				t.Route, t.Gas = "bank", []uint64{L + 1 + uint64(r.Intn(1000))} // above the block gas limit
			default:
				t.Route, t.Gas = "bank", []uint64{uint64(20_000 + r.Intn(60_000))} // runs out of gas in the ante handler
			}
			pos := r.Intn(len(blk.Txs) + 1)
			blk.Txs = append(blk.Txs[:pos], append([]fmRTx{t}, blk.Txs[pos:]...)...)
		}
		in.Blocks = append(in.Blocks, blk)
	}
	if maxGas < 0 && r.Chance(25) {
		// unlimited block gas: declared amounts around 2^63, where EndBlock's MaxInt64 guard and the
		// uint64 addition of the running total act (out of the property's domain; model only)
		in.P.BaseFee = "7"
		in.P.MinGasPrice = "0"
		// (a transaction may declare at most 2^63-1: ValidateBasic; three of them wrap the running total)
		top := uint64(1)<<63 - 1
		txs := []fmRTx{}
		for j, n := 0, 1+r.Intn(5); j < n; j++ {
			txs = append(txs, fmRTx{Route: "bank", From: 1 + j, Gas: []uint64{top - uint64(r.Intn(3))}})
		}
		in.Blocks[r.Intn(len(in.Blocks))].Txs = txs
	}
	return in
}
