package main

// The environment-probe contract of the "replicas" driver (property C01).
//
// A contract, hand-assembled below and deployed by a transaction in the first
// block of a history, that reads everything the EVM lets a contract see of its
// environment and makes committed state depend on it:
//
//	calldata = 32-byte words w_0 .. w_{n-1}; w >= 0 (signed) is an absolute height,
//	           w < 0 the relative height NUMBER + w
//	memory   0x000 digest
//	         0x020 NUMBER TIMESTAMP COINBASE CHAINID BASEFEE GASLIMIT DIFFICULTY(PREVRANDAO)
//	               SELFBALANCE ORIGIN GASPRICE                                 (10 words)
//	         0x160 BLOCKHASH(NUMBER - k) for k in probeBacks                   (13 words)
//	         0x300 BLOCKHASH(height_i) for every calldata word                 (n words)
//	storage  slot 0 = digest = keccak256(memory[0x20 .. 0x300 + 32 n)), slot 1+i = BLOCKHASH(height_i)
//	returns  memory[0 .. 0x300 + 32 n)
//
// so the ResponseDeliverTx data, the gas used (a zero hash stored into a fresh slot
// costs less than a non-zero one) and the application hash all move when any of
// these values differs between replicas.  The same call is served as an eth_call /
// estimateGas / trace query on single replicas between blocks (replica_perturb.go).
//
// headerHash / tweakHeader complete the block headers of the C01 histories so that
// a stored header validates and hashes like a CometBFT header (Version.Block,
// ValidatorsHash, ...): without that GetHashFn answers zero for every height and
// nothing could be observed.

import (
	"crypto/sha256"
	"encoding/hex"
	"encoding/json"
	"fmt"
	"math/big"
	"strconv"
	"strings"

	abci "github.com/cometbft/cometbft/abci/types"
	tmproto "github.com/cometbft/cometbft/proto/tendermint/types"
	tmversion "github.com/cometbft/cometbft/proto/tendermint/version"
	tmtypes "github.com/cometbft/cometbft/types"
	"github.com/cometbft/cometbft/version"
	sdk "github.com/cosmos/cosmos-sdk/types"
	"github.com/ethereum/go-ethereum/common"
	"github.com/ethereum/go-ethereum/common/hexutil"
	ethtypes "github.com/ethereum/go-ethereum/core/types"
	"github.com/ethereum/go-ethereum/crypto"

	testtx "github.com/haqq-network/haqq/testutil/tx"
	haqqtypes "github.com/haqq-network/haqq/types"
	"github.com/haqq-network/haqq/utils"
	evmtypes "github.com/haqq-network/haqq/x/evm/types"
)

// opcodes the probe needs beside the ones of asm.go
var probeOps = map[string]byte{
	"DIV": 0x04, "SLT": 0x12, "XOR": 0x18, "SHA3": 0x20, "GASPRICE": 0x3a, "BLOCKHASH": 0x40, "COINBASE": 0x41,
	"TIMESTAMP": 0x42, "NUMBER": 0x43, "DIFFICULTY": 0x44, "GASLIMIT": 0x45, "CHAINID": 0x46, "BASEFEE": 0x48,
}

// probeBacks: the fixed distances k for BLOCKHASH(NUMBER - k); 0 and 257 are outside the opcode's window
var probeBacks = []int64{0, 1, 2, 3, 4, 5, 8, 16, 64, 128, 255, 256, 257}

var probeEnvNames = []string{"number", "timestamp", "coinbase", "chainid", "basefee", "gaslimit", "difficulty", "selfbalance", "origin", "gasprice"}

const (
	probeEnvOff   = 0x20
	probeBackOff  = 0x20 + 10*32       // 0x160
	probeReqOff   = 0x160 + 13*32      // 0x300
	probeHashSpan = probeReqOff - 0x20 // 0x2e0: bytes hashed before the per-request words
)

func probeAsm() string {
	var sb strings.Builder
	for i, op := range []string{"NUMBER", "TIMESTAMP", "COINBASE", "CHAINID", "BASEFEE", "GASLIMIT", "DIFFICULTY", "SELFBALANCE", "ORIGIN", "GASPRICE"} {
		fmt.Fprintf(&sb, "  %s %d MSTORE\n", op, probeEnvOff+32*i)
	}
	for i, k := range probeBacks {
		// SUB computes top - next: NUMBER - k (wraps below zero: the opcode then sees a huge number)
		fmt.Fprintf(&sb, "  %d NUMBER SUB BLOCKHASH %d MSTORE\n", k, probeBackOff+32*i)
	}
	fmt.Fprintf(&sb, `
  0
loop:
  CALLDATASIZE DUP2 LT ISZERO @done JUMPI
  DUP1 CALLDATALOAD
  0 DUP2 SLT ISZERO @abs JUMPI
  NUMBER ADD
abs:
  BLOCKHASH
  DUP1 DUP3 %d ADD MSTORE
  DUP2 32 SWAP1 DIV 1 ADD
  SSTORE
  32 ADD
  @loop JUMP
done:
  %d ADD
  DUP1 32 SHA3
  DUP1 0 MSTORE
  0 SSTORE
  32 ADD 0 RETURN
`, probeReqOff, probeHashSpan)
	return sb.String()
}

func probeAssemble() []byte {
	for k, v := range probeOps {
		if old, ok := opcodes[k]; ok && old != v {
			panic("asm: opcode clash " + k)
		}
		opcodes[k] = v
	}
	return assemble(probeAsm())
}

var probeRuntime = probeAssemble()

// init code: CODECOPY(0, 12, len) ; RETURN(0, len) ; runtime code
var probeInit = func() []byte {
	n := len(probeRuntime)
	pre := []byte{0x61, byte(n >> 8), byte(n), 0x80, 0x60, 12, 0x60, 0, 0x39, 0x60, 0, 0xf3}
	return append(pre, probeRuntime...)
}()

// parseReqs: "2,-1,-300" -> heights (>= 0 absolute, < 0 relative to NUMBER)
func parseReqs(s string) []int64 {
	var out []int64
	for _, f := range strings.Split(s, ",") {
		f = strings.TrimSpace(f)
		if f == "" {
			continue
		}
		v, err := strconv.ParseInt(f, 10, 64)
		if err != nil {
			continue
		}
		out = append(out, v)
	}
	return out
}

func fmtReqs(rs []int64) string {
	ss := make([]string, len(rs))
	for i, r := range rs {
		ss[i] = strconv.FormatInt(r, 10)
	}
	return strings.Join(ss, ",")
}

var two256 = new(big.Int).Lsh(big.NewInt(1), 256)

func probeCalldata(reqs []int64) []byte {
	var out []byte
	for _, r := range reqs {
		x := big.NewInt(r)
		if r < 0 {
			x.Add(x, two256)
		}
		out = append(out, word(x)...)
	}
	return out
}

// ---------------------------------------------------------------- transactions
func (r *Replica) evmChainID() *big.Int {
	if c := r.App.EvmKeeper.ChainID(); c != nil && c.Sign() > 0 {
		return c
	}
	c, err := haqqtypes.ParseChainID(chainID)
	if err != nil {
		panic(err)
	}
	return c
}

// ethMsg builds and signs a MsgEthereumTx of user `signer` against the state in ctx (to == nil: contract creation).
func (r *Replica) ethMsg(ctx sdk.Context, signer int, to *common.Address, value *big.Int, data []byte, gas uint64, dynamic bool, nonceOff uint64) (*evmtypes.MsgEthereumTx, error) {
	chain := r.evmChainID()
	nonce := r.App.EvmKeeper.GetNonce(ctx, bhUserEth[signer]) + nonceOff
	args := &evmtypes.EvmTxArgs{ChainID: chain, Nonce: nonce, To: to, Amount: value, GasLimit: gas, Input: data}
	r.ethPrices(ctx, args, dynamic)
	msg := evmtypes.NewTx(args)
	msg.From = bhUserEth[signer].Hex()
	if err := msg.Sign(ethtypes.LatestSignerForChainID(chain), testtx.NewSigner(bhUserKey[signer])); err != nil {
		return nil, err
	}
	msg.From = ""
	return msg, nil
}

func (r *Replica) ethTxBytes(msg *evmtypes.MsgEthereumTx) ([]byte, error) {
	tx, err := msg.BuildTx(r.TxCfg.NewTxBuilder(), utils.BaseDenom)
	if err != nil {
		return nil, err
	}
	return r.TxCfg.TxEncoder()(tx)
}

func (r *Replica) signProbeDeploy(ctx sdk.Context, signer int, dynamic bool) ([]byte, error) {
	nonce := r.App.EvmKeeper.GetNonce(ctx, bhUserEth[signer])
	msg, err := r.ethMsg(ctx, signer, nil, big.NewInt(0), probeInit, 1_500_000, dynamic, 0)
	if err != nil {
		return nil, err
	}
	r.Probe = crypto.CreateAddress(bhUserEth[signer], nonce)
	return r.ethTxBytes(msg)
}

func (r *Replica) signProbeCall(ctx sdk.Context, signer int, reqs string, dynamic bool) ([]byte, error) {
	if r.Probe == (common.Address{}) {
		return nil, fmt.Errorf("the probe contract is not deployed in this history")
	}
	to := r.Probe
	rs := parseReqs(reqs)
	msg, err := r.ethMsg(ctx, signer, &to, big.NewInt(0), probeCalldata(rs), probeGas(len(rs)), dynamic, 0)
	if err != nil {
		return nil, err
	}
	return r.ethTxBytes(msg)
}

// probeGas: a limit close to what the call needs (about 50,000 + 22,100 per stored non-zero hash): the gas
// used that is reported is at least half the limit (feemarket MinGasMultiplier), a generous limit would hide
// that a zero hash costs less to store than a non-zero one.
func probeGas(n int) uint64 { return 150_000 + 25_000*uint64(n) }

// probeRet extracts the contract's return data from a successful ResponseDeliverTx.
func probeRet(data []byte) string {
	er, err := evmtypes.DecodeTxResponse(data)
	if err != nil || er.VmError != "" {
		return ""
	}
	return hex.EncodeToString(er.Ret)
}

// ---------------------------------------------------------------- decoding
// bhObservation: one BLOCKHASH the probe evaluated
type bhObservation struct {
	Cur     int64    // NUMBER seen by the contract
	Req     *big.Int // the 256-bit word handed to the opcode
	NonZero bool
}

// probeDecode splits return data into the environment words and the BLOCKHASH observations.
func probeDecode(ret []byte, reqs []int64) (env map[string]string, obs []bhObservation, ok bool) {
	if len(ret) < probeReqOff || len(ret)%32 != 0 {
		return nil, nil, false
	}
	w := func(i int) *big.Int { return new(big.Int).SetBytes(ret[32*i : 32*i+32]) }
	env = map[string]string{"digest": hex.EncodeToString(ret[:8])}
	for i, n := range probeEnvNames {
		env[n] = w(1 + i).String()
	}
	if !w(1).IsInt64() {
		return env, nil, false
	}
	cur := w(1).Int64()
	mod := func(x int64) *big.Int {
		v := big.NewInt(x)
		if v.Sign() < 0 {
			v.Add(v, two256)
		}
		return v
	}
	for i, k := range probeBacks {
		obs = append(obs, bhObservation{Cur: cur, Req: mod(cur - k), NonZero: w(probeBackOff/32+i).Sign() != 0})
	}
	for i, rq := range reqs {
		idx := probeReqOff/32 + i
		if 32*idx+32 > len(ret) {
			break
		}
		h := rq
		if rq < 0 {
			h = cur + rq
		}
		obs = append(obs, bhObservation{Cur: cur, Req: mod(h), NonZero: w(idx).Sign() != 0})
	}
	return env, obs, true
}

// ---------------------------------------------------------------- queries (ABCI Query, as the JSON-RPC server issues them)
func (r *Replica) probeCallRequest(signer int, reqs []int64) ([]byte, error) {
	from := bhUserEth[((signer%bhNU)+bhNU)%bhNU]
	to := r.Probe
	data := hexutil.Bytes(probeCalldata(reqs))
	args, err := json.Marshal(evmtypes.TransactionArgs{From: &from, To: &to, Data: &data})
	if err != nil {
		return nil, err
	}
	req := evmtypes.EthCallRequest{Args: args, GasCap: 25_000_000, ProposerAddress: sdk.ConsAddress(valCons(0)), ChainId: r.evmChainID().Int64()}
	return req.Marshal()
}

func (r *Replica) abciQuery(path string, data []byte) (res abci.ResponseQuery, pan string) {
	defer func() {
		if x := recover(); x != nil {
			pan = fmt.Sprintf("Query panic: %v", x)
		}
	}()
	res = r.App.Query(abci.RequestQuery{Path: path, Data: data})
	return
}

// ---------------------------------------------------------------- headers
var consensusHash = func() []byte { h := sha256.Sum256([]byte("verif consensus params")); return h[:] }()

func valSetHash(vs []valEntry) []byte {
	h := sha256.New()
	h.Write([]byte("verif validator set"))
	for _, v := range vs {
		h.Write(v.Cons)
		fmt.Fprintf(h, ":%d;", v.Power)
	}
	return h.Sum(nil)
}

// headerHash: the CometBFT hash of a header, nil when the header is not a complete one.
func headerHash(hdr tmproto.Header) []byte {
	h, err := tmtypes.HeaderFromProto(&hdr)
	if err != nil {
		return nil
	}
	return h.Hash()
}

// tweakHeader (stepHooks.TweakRaw of the C01 histories): the fields CometBFT always fills.
func tweakHeader(h *histRun, rb *rawBlock) {
	hdr := &rb.Hdr
	hdr.Version = tmversion.Consensus{Block: version.BlockProtocol}
	hdr.ValidatorsHash = valSetHash(h.Track.sets[1])
	hdr.NextValidatorsHash = valSetHash(h.Track.sets[2])
	hdr.ConsensusHash = consensusHash
	if len(hdr.ProposerAddress) != 20 {
		hdr.ProposerAddress = make([]byte, 20)
	}
	if n := len(h.Raw); n > 0 {
		if ph := headerHash(h.Raw[n-1].Hdr); ph != nil {
			part := sha256.Sum256(ph)
			hdr.LastBlockId = tmproto.BlockID{Hash: ph, PartSetHeader: tmproto.PartSetHeader{Total: 1, Hash: part[:]}}
		}
	}
}
