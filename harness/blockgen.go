package main

// Generator of block histories.  Every choice derives from one Rng; operations
// are chosen while the history runs on the leading replica so that most of them
// are valid (an existing delegation is undelegated, an open proposal is voted
// on, a vesting account with locked coins liquidates, ...), with a share of
// deliberately invalid ones.  The result is the explicit operation list, which
// replays without the generator.

import (
	"fmt"
	"math/big"
	"sort"
	"strings"

	sdk "github.com/cosmos/cosmos-sdk/types"
	govv1 "github.com/cosmos/cosmos-sdk/x/gov/types/v1"
	stakingtypes "github.com/cosmos/cosmos-sdk/x/staking/types"

	"github.com/haqq-network/haqq/utils"
	vestingtypes "github.com/haqq-network/haqq/x/vesting/types"
)

type bhGenerator struct {
	r        *Rng
	fresh    int    // counter of never-used addresses paid by generated programs
	focus    string // "" or a /repo directory whose code the history should exercise more
	nblocks  int
	downFrom int // downtime campaign: validator index absent during [downFrom, downTo)
	downTo   int
	downVal  int
	evidAt   int // block index with double-sign evidence (-1 = none)
	upgrade  int // block index at which the v1.7.5 upgrade is scheduled (-1 = none)
	kinds    []string
	weights  []int
	dist     map[string]int
	grants   [][3]int // authz grants made so far: granter, grantee, validator
	regcoin  bool     // scripted prefix: register the test coin through governance
	// governance: denominations and outcomes
	extra    bool        // genesis funds the further denominations
	minDep   [][2]string // further coins of the gov min deposit
	noBurn   int         // burn switches turned off at genesis
	mood     int         // 0 mixed votes, 1 mostly NoWithVeto, 2 mostly Yes, 3 hardly any voting power votes (quorum fails)
	burnAt   int         // scripted: at this block a proposal with a deposit in several denominations is submitted ... (-1 = none)
	burnHow  int         // ... and one block later 0: every validator operator votes NoWithVeto, 1: nobody votes (no quorum), 2: its deposit stays below the minimum
	burnProp uint64      // id of the scripted proposal once it is known
	ext      bhGenExt    // parameter operations and blocked recipients (blockparams.go)
	fee      *feeGen     // fee-market regime of the history (feeregime.go)
	fillers  map[int]int // filler transactions emitted per block
}

var bhKindWeights = map[string]int{
	"send": 8, "delegate": 8, "undelegate": 6, "redelegate": 4, "cancelunbond": 2, "withdraw": 5, "commission": 2,
	"setwithdraw": 2, "fundpool": 2, "unjail": 3, "createval": 2, "propose": 4, "deposit": 3, "vote": 6,
	"vest": 6, "clawback": 3, "convertvest": 1, "liquidate": 5, "redeem": 4, "daofund": 4, "daotransfer": 2, "daotransferamt": 2,
	"convertcoin": 4, "converterc20": 3, "authzgrant": 2, "authzexec": 2, "ethsend": 6, "ethcall": 10, "ethpcall": 6,
	"ethbatch": 2,
}

var bhFocusKinds = map[string][]string{
	"x/evm":           {"ethsend", "ethcall", "ethpcall", "ethbatch"},
	"x/evm/statedb":   {"ethcall", "ethpcall"},
	"x/evm/keeper":    {"ethcall", "ethpcall", "ethsend"},
	"precompiles":     {"ethcall", "ethpcall"},
	"x/ucdao":         {"daofund", "daotransfer", "daotransferamt"},
	"x/erc20":         {"convertcoin", "converterc20", "propose", "vote", "liquidate"},
	"x/liquidvesting": {"vest", "liquidate", "redeem"},
	"x/vesting":       {"vest", "clawback", "convertvest", "delegate"},
	"x/coinomics":     {"delegate", "undelegate"},
	"x/bank":          {"propose", "deposit", "undelegate", "redelegate"},
	"app":             {"send", "ethcall", "propose", "vote"},
	"app/upgrades":    {"vest", "liquidate"},
}

func newBhGenerator(r *Rng, nblocks int, focus string) *bhGenerator {
	g := &bhGenerator{r: r, focus: focus, nblocks: nblocks, evidAt: -1, upgrade: -1, dist: map[string]int{}, fillers: map[int]int{}}
	// the fee-market regime comes from a generator of its own, split off without advancing r
	g.fee = newFeeGen(&Rng{s: r.s ^ 0x5EEDFEE5C0FFEE}, nblocks)
	names := []string{}
	for k := range bhKindWeights {
		names = append(names, k)
	}
	sort.Strings(names)
	boost := map[string]bool{}
	for dir, ks := range bhFocusKinds {
		if focus != "" && (strings.HasPrefix(focus, dir) || strings.HasPrefix(dir, focus)) {
			for _, k := range ks {
				boost[k] = true
			}
		}
	}
	for _, k := range names {
		w := bhKindWeights[k]
		if boost[k] {
			w *= 5
		}
		g.kinds = append(g.kinds, k)
		g.weights = append(g.weights, w)
	}
	if r.Chance(60) && nblocks >= 8 {
		g.downVal = r.Intn(4)
		g.downFrom = 2 + r.Intn(nblocks/2)
		g.downTo = g.downFrom + 4 + r.Intn(6)
	}
	if r.Chance(35) && nblocks >= 6 {
		g.evidAt = 3 + r.Intn(nblocks-4)
	}
	g.regcoin = r.Chance(55) || strings.HasPrefix(focus, "x/erc20")
	g.extra = r.Chance(65)
	if r.Chance(25) { // a min deposit in two denominations
		g.minDep = [][2]string{{testDenom, "500"}}
		if g.extra && r.Bool() {
			g.minDep = [][2]string{{bhExtraDenoms[r.Intn(len(bhExtraDenoms))], "500"}}
		}
	}
	if r.Chance(15) {
		g.noBurn = 1 << uint(r.Intn(3))
	}
	g.mood = []int{0, 0, 1, 1, 2, 3}[r.Intn(6)]
	g.burnAt = -1
	if (r.Chance(50) || strings.HasPrefix(focus, "x/bank")) && nblocks >= 8 {
		g.burnAt = 2 + r.Intn(nblocks/3)
		g.burnHow = r.Intn(3)
	}
	if strings.HasPrefix(focus, "app/upgrades") || (focus == "" && r.Chance(8)) {
		if nblocks >= 8 {
			g.upgrade = nblocks - 3
		}
	}
	return g
}

func (g *bhGenerator) genesis() bhGenesis {
	r := g.r
	return bhGenesis{NVal: 2 + r.Intn(3), MaxVals: 3 + r.Intn(3), Coinomics: r.Chance(80), Window: 4 + 2*r.Intn(3),
		UnbondSecs: []int{15, 40, 120}[r.Intn(3)], VoteSecs: []int{12, 25, 60}[r.Intn(3)],
		Extra: g.extra, MinDep: g.minDep, NoBurn: g.noBurn, Fee: g.fee.fee}
}

func (g *bhGenerator) block(i int) bhBlock {
	r := g.r
	b := bhBlock{Proposer: r.Intn(8)}
	switch k := r.Intn(100); {
	case k < 75:
		b.DT = int64(1 + r.Intn(8))
	case k < 93:
		b.DT = int64(10 + r.Intn(60))
	case k < 98:
		b.DT = int64(600 + r.Intn(6000))
	default:
		b.DT = int64(86400 + r.Intn(86400))
	}
	if i >= g.downFrom && i < g.downTo {
		b.Absent = append(b.Absent, g.downVal)
	}
	if r.Chance(6) {
		b.Absent = append(b.Absent, r.Intn(4))
	}
	if i == g.evidAt {
		b.Evidence = []bhEvidence{{Val: r.Intn(4), Back: int64(1 + r.Intn(3))}}
	}
	return b
}

func (g *bhGenerator) ntx(i int) int {
	n := g.r.Intn(7)
	if g.r.Chance(10) {
		n = 0
	}
	if g.fee.quiet[i] {
		n = 0
	}
	if g.fee.heavy[i] && n < 3 {
		n = 3
	}
	if i == g.upgrade {
		n++
	}
	if g.regcoin && i == 0 {
		n = 1 + g.r.Intn(3)
	}
	if g.regcoin && i == 1 {
		n = 4 + g.r.Intn(3)
	}
	if i == g.burnAt && n < 1 {
		n = 1
	}
	if i == g.burnAt+1 && g.burnAt >= 0 && g.burnHow == 0 && n < 4 {
		n = 4
	}
	return n
}

func (g *bhGenerator) pickKind() string {
	tot := 0
	for _, w := range g.weights {
		tot += w
	}
	x := g.r.Intn(tot)
	for i, w := range g.weights {
		if x < w {
			return g.kinds[i]
		}
		x -= w
	}
	return "send"
}

// fraction returns a positive amount not above avail most of the time.
func (g *bhGenerator) fraction(avail *big.Int) string {
	r := g.r
	if avail.Sign() <= 0 {
		return big.NewInt(int64(1 + r.Intn(1000))).String()
	}
	switch k := r.Intn(100); {
	case k < 4:
		return new(big.Int).Add(avail, big.NewInt(1)).String() // one more than available
	case k < 10:
		return avail.String() // everything
	case k < 14:
		return big.NewInt(int64(1 + r.Intn(3))).String() // dust
	case k < 16:
		return "0"
	}
	x := new(big.Int).Mul(avail, big.NewInt(int64(1+r.Intn(120))))
	x.Quo(x, big.NewInt(1000))
	if x.Sign() == 0 {
		x.SetInt64(1)
	}
	return x.String()
}

func valIndexOf(oper string) int {
	for v := 0; v < bhNV+bhNU; v++ {
		if valOper(v).String() == oper {
			// validators created later by U0..U3 share the operator address with the genesis validator
			return v
		}
	}
	return 0
}

func (g *bhGenerator) genProgram(depth int, origin int, self int) []bhInstr {
	r := g.r
	n := 1 + r.Intn(4)
	out := []bhInstr{}
	for i := 0; i < n; i++ {
		switch k := r.Intn(100); {
		case k < 22:
			out = append(out, bhInstr{Op: "sstore", K: uint64(r.Intn(6)), V: uint64(r.Intn(4))})
		case k < 30:
			out = append(out, bhInstr{Op: "log"})
		case k < 38:
			out = append(out, bhInstr{Op: "balance", T: r.Intn(bhNU + bhNC)})
		case k < 50:
			if r.Chance(25) {
				// pay several addresses that do not exist yet: one transaction creates several accounts
				for j, m := 0, 2+r.Intn(5); j < m; j++ {
					g.fresh++
					out = append(out, bhInstr{Op: "call", T: 1000 + g.fresh, A: big.NewInt(int64(1 + r.Intn(40))).String(), Catch: true})
				}
				continue
			}
			out = append(out, bhInstr{Op: "call", T: r.Intn(bhNU), A: big.NewInt(int64(r.Intn(5000))).String(), Catch: r.Bool()})
		case k < 68 && depth < 2:
			c := bhNU + r.Intn(bhNC)
			sub := g.genProgram(depth+1, origin, c)
			if r.Chance(25) {
				sub = append(sub, bhInstr{Op: "revert"})
			}
			out = append(out, bhInstr{Op: "call", T: c, A: big.NewInt(int64(r.Intn(3000))).String(), Catch: r.Chance(70), B: sub})
		case k < 96:
			who := origin
			if r.Chance(35) {
				who = self
			} else if r.Chance(10) {
				who = r.Intn(bhNU)
			}
			p := bhInstr{Op: "pcall", W: who, Val: r.Intn(4), Val2: r.Intn(4), Catch: r.Chance(70), T: r.Intn(bhNU)}
			p.M = []string{"delegate", "delegate", "undelegate", "redelegate", "withdraw", "withdraw", "setwithdraw", "claim", "commission"}[r.Intn(9)]
			p.A = new(big.Int).Mul(big.NewInt(int64(1+r.Intn(2000))), big.NewInt(1_000_000_000_000)).String()
			if r.Chance(6) {
				p.A = "0"
			}
			p.NV = r.Chance(85)
			out = append(out, p)
		default:
			if depth > 0 {
				out = append(out, bhInstr{Op: "revert"})
			}
		}
	}
	// rarely a script contract destroys itself at the end of its frame (its code is gone for the rest of the history;
	// what it delegated or left unbonding stays in the staking module without an account behind it)
	if depth > 0 && self >= bhNU && r.Chance(3) && (len(out) == 0 || out[len(out)-1].Op != "revert") {
		out = append(out, bhInstr{Op: "selfdestruct", T: r.Intn(bhNU)})
	}
	return out
}

// genTx chooses the i-th transaction of the block in progress from the state of the leading replica.
func (g *bhGenerator) genTx(h *histRun, b *bhBlock, blockIdx, i int) *bhTx {
	r := g.r
	rep := h.Rep
	ctx := rep.ctx()
	a := rep.App
	if blockIdx == g.upgrade && i == 0 {
		g.dist["upgrade"]++
		return &bhTx{K: "upgrade", S: "v1.7.5"}
	}
	if g.regcoin && blockIdx == 1 && i < 4 {
		g.dist["vote"]++
		return &bhTx{K: "vote", F: i, N: 1, V: 1}
	}
	// otherCoins: up to max coins of denominations other than the native one that u holds as bank coins
	// (the test coin, the further genesis denominations, liquid tokens converted back from their ERC20 form)
	otherCoins := func(u, max int) [][2]string {
		var held sdk.Coins
		for _, c := range a.BankKeeper.GetAllBalances(ctx, bhUserAcc[u]) {
			if c.Denom != utils.BaseDenom {
				held = append(held, c)
			}
		}
		var out [][2]string
		for n := 0; n < max && len(held) > 0; n++ {
			j := r.Intn(len(held))
			c := held[j]
			held = append(held[:j], held[j+1:]...)
			amt := big.NewInt(int64(1 + r.Intn(5000)))
			if amt.Cmp(c.Amount.BigInt()) > 0 && !r.Chance(5) {
				amt = c.Amount.BigInt()
			}
			out = append(out, [2]string{c.Denom, amt.String()})
		}
		return out
	}
	minDepX := func() [][2]string { return append([][2]string{}, g.minDep...) }
	if g.regcoin && blockIdx == 0 && i == 0 {
		g.dist["propose"]++
		return &bhTx{K: "propose", F: r.Intn(bhNU), S: "registercoin", A: mulE18(10).String(), X: minDepX()}
	}
	if blockIdx == g.burnAt && i == 0 {
		// scripted: a proposal whose deposit has the native coin and other denominations ...
		g.dist["propose"]++
		u := r.Intn(bhNU)
		t := &bhTx{K: "propose", F: u, S: "text", A: mulE18(10).String(), X: append(minDepX(), otherCoins(u, 1+r.Intn(3))...)}
		if g.burnHow == 2 { // ... that stays in the deposit period until it is dropped
			t.A, t.X = mulE18(int64(1+r.Intn(9))).String(), otherCoins(u, 1+r.Intn(3))
		}
		if id, err := a.GovKeeper.GetProposalID(ctx); err == nil {
			g.burnProp = id
		}
		return t
	}
	if g.burnAt >= 0 && blockIdx == g.burnAt+1 && g.burnHow == 0 && i < 4 {
		// ... and is vetoed by the operators of the genesis validators (they hold the voting power)
		g.dist["vote"]++
		return &bhTx{K: "vote", F: i, N: int64(g.burnProp), V: 4}
	}
	if g.fillers[blockIdx] < 4 && g.fillerNeeded(rep, blockIdx) {
		g.fillers[blockIdx]++
		g.dist["filler"]++
		return g.fillerTx(rep)
	}
	k := g.extKind(g.pickKind())
	if k == "redeem" && len(a.LiquidVestingKeeper.GetAllDenoms(ctx)) == 0 {
		k = "liquidate"
	}
	if k == "liquidate" || k == "clawback" {
		any := false
		for u := 0; u < bhNU; u++ {
			if _, ok := a.AccountKeeper.GetAccount(ctx, bhUserAcc[u]).(*vestingtypes.ClawbackVestingAccount); ok {
				any = true
			}
		}
		if !any {
			k = "vest"
		}
	}
	f := r.Intn(bhNU)
	t := &bhTx{K: k, F: f, T: r.Intn(bhNU), V: r.Intn(4), V2: r.Intn(4), N: int64(r.Intn(2))}
	spend := func(u int) *big.Int {
		return a.BankKeeper.SpendableCoins(ctx, bhUserAcc[u]).AmountOf(utils.BaseDenom).BigInt()
	}
	isVesting := func(u int) bool {
		_, ok := a.AccountKeeper.GetAccount(ctx, bhUserAcc[u]).(*vestingtypes.ClawbackVestingAccount)
		return ok
	}
	vals := a.StakingKeeper.GetAllValidators(ctx)
	pickVal := func() int {
		if len(vals) == 0 || r.Chance(5) {
			return r.Intn(6)
		}
		return valIndexOf(vals[r.Intn(len(vals))].OperatorAddress)
	}
	withDelegation := func() (int, int, *big.Int, bool) {
		for try := 0; try < 6; try++ {
			u := r.Intn(bhNU)
			ds := a.StakingKeeper.GetDelegatorDelegations(ctx, bhUserAcc[u], 8)
			if len(ds) == 0 {
				continue
			}
			d := ds[r.Intn(len(ds))]
			v, ok := a.StakingKeeper.GetValidator(ctx, d.GetValidatorAddr())
			if !ok {
				continue
			}
			return u, valIndexOf(d.ValidatorAddress), v.TokensFromShares(d.Shares).TruncateInt().BigInt(), true
		}
		return 0, 0, nil, false
	}
	switch k {
	case "send":
		if r.Chance(20) {
			t.D = testDenom
			if oc := otherCoins(f, 1); len(oc) > 0 && r.Bool() {
				t.D = oc[0][0]
			}
			t.A = g.fraction(a.BankKeeper.GetBalance(ctx, bhUserAcc[f], t.D).Amount.BigInt())
		} else {
			t.A = g.fraction(spend(f))
		}
		if r.Chance(8) {
			t.T = bhNU + r.Intn(bhNC)
		}
	case "delegate":
		t.V = pickVal()
		t.A = g.fraction(spend(f))
	case "undelegate", "redelegate":
		if u, v, amt, ok := withDelegation(); ok {
			t.F, t.V, t.A = u, v, g.fraction(amt)
		} else {
			t.A = "1000"
		}
		t.V2 = pickVal()
	case "cancelunbond":
		t.A = "1000"
		for try := 0; try < 6; try++ {
			u := r.Intn(bhNU)
			ubds := a.StakingKeeper.GetUnbondingDelegations(ctx, bhUserAcc[u], 8)
			if len(ubds) == 0 {
				continue
			}
			ub := ubds[r.Intn(len(ubds))]
			e := ub.Entries[r.Intn(len(ub.Entries))]
			t.F, t.V, t.N, t.A = u, valIndexOf(ub.ValidatorAddress), e.CreationHeight, g.fraction(e.Balance.BigInt())
			break
		}
	case "withdraw":
		if u, v, _, ok := withDelegation(); ok {
			t.F, t.V = u, v
		}
	case "commission", "unjail":
		t.F = r.Intn(bhNU)
		if r.Chance(80) && len(vals) > 0 {
			pick := vals[r.Intn(len(vals))]
			if k == "unjail" {
				for _, v := range vals {
					if v.Jailed {
						pick = v
					}
				}
			}
			t.F = valIndexOf(pick.OperatorAddress) % bhNU
			if vi := valIndexOf(pick.OperatorAddress); vi >= bhNV {
				t.F = vi - bhNV
			}
		}
	case "fundpool":
		t.A = g.fraction(new(big.Int).Quo(spend(f), big.NewInt(50)))
		if r.Chance(35) {
			t.X = otherCoins(f, 1+r.Intn(2))
			if r.Chance(30) {
				t.A = "0" // other denominations only
			}
		}
	case "createval":
		t.F = bhNV + r.Intn(bhNU-bhNV)
		t.A = g.fraction(spend(t.F))
	case "propose":
		t.S = []string{"text", "text", "registercoin", "registercoin", "spend"}[r.Intn(5)]
		t.A = []string{"0", mulE18(1).String(), mulE18(10).String(), mulE18(12).String()}[r.Intn(4)]
		if r.Chance(50) {
			t.X = otherCoins(f, 1+r.Intn(3))
		}
		if len(g.minDep) > 0 && r.Chance(70) {
			t.X = append(minDepX(), t.X...)
		}
	case "deposit", "vote":
		t.N = int64(1 + r.Intn(3))
		var open []uint64
		for _, p := range a.GovKeeper.GetProposals(ctx) {
			if (k == "deposit" && p.Status == govv1.StatusDepositPeriod) || (k == "vote" && p.Status == govv1.StatusVotingPeriod) {
				open = append(open, p.Id)
			}
		}
		if len(open) > 0 && r.Chance(92) {
			t.N = int64(open[r.Intn(len(open))])
		}
		t.A = []string{mulE18(1).String(), mulE18(5).String(), mulE18(10).String()}[r.Intn(3)]
		if k == "deposit" && r.Chance(45) {
			t.X = otherCoins(f, 1+r.Intn(2))
			if len(g.minDep) > 0 && r.Chance(60) {
				t.X = append(minDepX(), t.X...)
			}
			if r.Chance(15) {
				t.A = "0" // other denominations only
			}
		}
		t.V = [][]int{{1, 1, 1, 2, 3, 4, 4}, {4, 4, 4, 4, 1, 3, 2}, {1, 1, 1, 1, 1, 2, 4}, {1, 2, 3, 4, 4, 1, 1}}[g.mood][r.Intn(7)]
		if k == "vote" && g.mood == 3 {
			t.F = bhNV + r.Intn(bhNU-bhNV) // mostly accounts without voting power: the quorum is missed
		} else if k == "vote" && r.Chance(70) && len(vals) > 0 { // validators' operators carry the voting power
			vi := valIndexOf(vals[r.Intn(len(vals))].OperatorAddress)
			t.F = vi % bhNU
			if vi >= bhNV {
				t.F = vi - bhNV
			}
		}
	case "vest":
		t.T = bhNV + r.Intn(bhNU-bhNV)
		if r.Chance(10) {
			t.T = r.Intn(bhNU)
		}
		for t.F == t.T {
			t.F = r.Intn(bhNU)
		}
		t.N = []int64{10, 20, 60, 300, 86400}[r.Intn(5)]
		t.N2 = []int64{0, -t.N / 2, -t.N, -5, 10}[r.Intn(5)]
		t.V = r.Intn(3)
		t.A = g.fraction(new(big.Int).Quo(spend(t.F), big.NewInt(4)))
		if isVesting(t.T) || r.Chance(15) {
			t.S = "merge"
		}
		if r.Chance(12) {
			t.S += " stake"
			t.V2 = pickVal()
		}
		if r.Chance(15) {
			// a grant in several denominations: the further coins vest first (one short period of their own), the
			// main coin afterwards — so that the part vested at some time may lack the bond denomination
			t.X = otherCoins(t.F, 1+r.Intn(2))
			if r.Chance(50) {
				t.S += " stake"
				t.V2 = pickVal()
			}
		}
	case "clawback", "convertvest", "liquidate":
		var vs []int
		for u := 0; u < bhNU; u++ {
			if isVesting(u) {
				vs = append(vs, u)
			}
		}
		if len(vs) > 0 && r.Chance(92) {
			u := vs[r.Intn(len(vs))]
			va := a.AccountKeeper.GetAccount(ctx, bhUserAcc[u]).(*vestingtypes.ClawbackVestingAccount)
			if k == "liquidate" {
				for _, x := range vs {
					xa := a.AccountKeeper.GetAccount(ctx, bhUserAcc[x]).(*vestingtypes.ClawbackVestingAccount)
					if xa.GetVestingCoins(ctx.BlockTime()).IsZero() && xa.GetLockedUpCoins(ctx.BlockTime()).AmountOf(utils.BaseDenom).GT(sdk.NewInt(1000)) && r.Chance(70) {
						u, va = x, xa
					}
				}
			}
			switch k {
			case "clawback":
				t.T = u
				for x := 0; x < bhNU; x++ {
					if bhUserAcc[x].String() == va.FunderAddress {
						t.F = x
					}
				}
				if r.Chance(8) {
					t.F = r.Intn(bhNU)
				}
			case "convertvest":
				t.F = u
			case "liquidate":
				t.F = u
				t.T = u
				if r.Chance(40) {
					t.T = r.Intn(bhNU)
				}
				locked := va.GetLockedUpCoins(ctx.BlockTime()).AmountOf(utils.BaseDenom).BigInt()
				t.A = g.fraction(locked)
			}
		} else {
			t.A = "5000"
		}
	case "redeem":
		t.A = "1000"
		denoms := a.LiquidVestingKeeper.GetAllDenoms(ctx)
		if len(denoms) > 0 {
			d := denoms[r.Intn(len(denoms))]
			t.D = d.BaseDenom
			// holders keep liquid tokens mostly as ERC20 balance; the message converts back what is missing
			for try := 0; try < 8; try++ {
				u := r.Intn(bhNU)
				id := a.Erc20Keeper.GetTokenPairID(ctx, d.BaseDenom)
				pair, ok := a.Erc20Keeper.GetTokenPair(ctx, id)
				if !ok {
					break
				}
				bal := erc20BalanceOf(rep, ctx, pair.GetERC20Contract(), bhUserEth[u])
				bal.Add(bal, a.BankKeeper.GetBalance(ctx, bhUserAcc[u], d.BaseDenom).Amount.BigInt())
				if bal.Sign() > 0 {
					t.F, t.A = u, g.fraction(bal)
					break
				}
			}
		} else {
			t.D = "aLIQUID0"
		}
	case "daofund":
		t.A = g.fraction(new(big.Int).Quo(spend(f), big.NewInt(20)))
		if r.Chance(10) {
			t.D = testDenom // not an allowed DAO denomination
			t.A = "5"
		}
	case "daotransfer", "daotransferamt":
		for try := 0; try < 6; try++ {
			u := r.Intn(bhNU)
			bal := a.DaoKeeper.GetAccountBalances(ctx, bhUserAcc[u])
			if bal.IsZero() {
				continue
			}
			t.F = u
			t.D = bal[0].Denom
			t.A = g.fraction(bal[0].Amount.BigInt())
			break
		}
		if t.A == "" {
			t.A = "1"
		}
		if r.Chance(15) {
			t.T = t.F
		}
	case "convertcoin":
		t.D = testDenom
		if ds := a.LiquidVestingKeeper.GetAllDenoms(ctx); len(ds) > 0 && r.Chance(30) {
			t.D = ds[r.Intn(len(ds))].BaseDenom
		}
		t.A = g.fraction(a.BankKeeper.GetBalance(ctx, bhUserAcc[f], t.D).Amount.BigInt())
	case "converterc20":
		t.D = testDenom
		pairs := a.Erc20Keeper.GetTokenPairs(ctx)
		if len(pairs) > 0 {
			p := pairs[r.Intn(len(pairs))]
			t.D = p.Denom
			for try := 0; try < 8; try++ {
				u := r.Intn(bhNU)
				bal := erc20BalanceOf(rep, ctx, p.GetERC20Contract(), bhUserEth[u])
				if bal.Sign() > 0 {
					t.F, t.A = u, g.fraction(bal)
					break
				}
			}
		}
		if t.A == "" {
			t.A = "10"
		}
	case "authzgrant":
		t.V = pickVal()
		if r.Chance(45) {
			// the grantee is a script contract: its staking precompile calls for the signer (and for itself: the
			// precompile wants the signer's grant whenever the caller is not the signer) can then succeed
			t.T = bhNU + r.Intn(bhNC)
			if r.Chance(50) {
				t.S = "undelegate"
			}
		} else if t.T != t.F {
			g.grants = append(g.grants, [3]int{t.F, t.T, t.V})
		}
	case "authzexec":
		t.V = pickVal()
		if len(g.grants) > 0 && r.Chance(90) {
			gr := g.grants[r.Intn(len(g.grants))]
			t.T, t.F, t.V = gr[0], gr[1], gr[2] // the grantee signs, the granter's coins are delegated
		}
		t.A = g.fraction(new(big.Int).Quo(spend(t.T), big.NewInt(10)))
	case "ethsend":
		t.A = g.fraction(new(big.Int).Quo(spend(f), big.NewInt(10)))
		if r.Chance(15) {
			t.T = bhNU + r.Intn(bhNC)
		}
	case "ethbatch":
		t.A = big.NewInt(int64(1 + r.Intn(5000))).String()
		t.V = r.Intn(2)
		switch {
		case r.Chance(40): // all messages properly signed
			t.N = 0
		case r.Chance(50): // two messages invalid in different ways (the result must name the first)
			a, b := 1+r.Intn(3), 1+r.Intn(3)
			for b == a {
				b = 1 + r.Intn(3)
			}
			t.N = int64(a + 4*b)
			if r.Chance(30) {
				t.N = int64(4*a + 16*b)
			}
		default:
			t.N = int64(r.Intn(64))
		}
	case "ethcall":
		t.T = bhNU + r.Intn(bhNC)
		t.A = big.NewInt(int64(r.Intn(20000))).String()
		t.B = g.genProgram(0, f, t.T)
	case "ethpcall":
		p := g.genProgram(2, f, f)
		var pc *bhInstr
		for try := 0; try < 20 && pc == nil; try++ {
			for i := range p {
				if p[i].Op == "pcall" {
					pc = &p[i]
				}
			}
			if pc == nil {
				p = g.genProgram(2, f, f)
			}
		}
		if pc == nil {
			pc = &bhInstr{Op: "pcall", M: "claim", W: f}
		}
		if pc.W >= bhNU {
			pc.W = f
		}
		if u, v, amt, ok := withDelegation(); ok && r.Chance(60) && (pc.M == "undelegate" || pc.M == "redelegate" || pc.M == "withdraw") {
			t.F, pc.W, pc.Val = u, u, v
			pc.A = g.fraction(amt)
		}
		t.B = []bhInstr{*pc}
		if r.Chance(6) {
			t.A = "7"
		}
	default:
		g.genExt(h, t) // param, toblocked, multisend: blockparams.go
	}
	g.dist[t.K]++
	return t
}

func erc20BalanceOf(rep *Replica, ctx sdk.Context, contract, who [20]byte) (out *big.Int) {
	defer func() {
		if x := recover(); x != nil {
			out = big.NewInt(0)
		}
	}()
	cctx, _ := ctx.CacheContext()
	b := rep.App.Erc20Keeper.BalanceOf(cctx, erc20ABI(), contract, who)
	if b == nil {
		return big.NewInt(0)
	}
	return b
}

var _ = stakingtypes.Bonded
var _ = fmt.Sprint
