package main

// Driver "evmexec" (properties C02, C05, C16): call trees over a generic script
// contract, executed by the real EVM keeper (ApplyTransaction) on a real app.

import (
	"encoding/json"
	"fmt"
	"math/big"
	"sort"
	"strings"
	"time"

	sdkmath "cosmossdk.io/math"
	sdk "github.com/cosmos/cosmos-sdk/types"
	authtypes "github.com/cosmos/cosmos-sdk/x/auth/types"
	distrtypes "github.com/cosmos/cosmos-sdk/x/distribution/types"
	stakingtypes "github.com/cosmos/cosmos-sdk/x/staking/types"
	"github.com/ethereum/go-ethereum/accounts/abi"
	"github.com/ethereum/go-ethereum/common"
	ethtypes "github.com/ethereum/go-ethereum/core/types"
	"github.com/ethereum/go-ethereum/core/vm"
	"github.com/ethereum/go-ethereum/crypto"

	distprecompile "github.com/haqq-network/haqq/precompiles/distribution"
	clienttypes "github.com/cosmos/ibc-go/v7/modules/core/02-client/types"
	transfertypes "github.com/cosmos/ibc-go/v7/modules/apps/transfer/types"
	ics20precompile "github.com/haqq-network/haqq/precompiles/ics20"
	stakingprecompile "github.com/haqq-network/haqq/precompiles/staking"
	"github.com/haqq-network/haqq/testutil"
	"github.com/haqq-network/haqq/utils"
	"github.com/haqq-network/haqq/x/evm/statedb"
	evmtypes "github.com/haqq-network/haqq/x/evm/types"
)

func init() { register("evmexec", evmDriver) }

// ---------------------------------------------------------------- actors
// 0 O (tx signer)  1 P (another EOA)  2..4 script contracts C1..C3
// 5 staking precompile  6 distribution precompile
// 7 bonded pool  8 not-bonded pool  9 distribution module  10 evm module  11 fee collector
// 12 ICS-20 precompile  13 escrow account of transfer/channel-0
// 14,15 / 16,17 / 18,19 the addresses at which C1 / C2 / C3 create their first and second contract (CREATE address
// of creator and account nonce 1, 2)
const (
	aO = iota
	aP
	aC1
	aC2
	aC3
	aPS
	aPD
	aBonded
	aNotBonded
	aDistr
	aEvm
	aFeeColl
	aPI
	aEscrow
	aNew0 // first CREATE address
	evmNActors = aNew0 + 6
)

var evmActorName = []string{"O", "P", "C1", "C2", "C3", "staking-precompile", "distribution-precompile",
	"bonded-pool", "not-bonded-pool", "distribution-module", "evm-module", "fee-collector",
	"ics20-precompile", "ibc-escrow", "C1-new1", "C1-new2", "C2-new1", "C2-new2", "C3-new1", "C3-new2"}

// evmLib holds a copy of the script interpreter: constructors DELEGATECALL into it (never called directly, never dirty)
var evmLib = common.HexToAddress("0x11B0000000000000000000000000000000000001")

// createAddrs are the actors at which contract c creates (creator nonce 1, 2)
func createAddrs(c int) []int {
	if c < aC1 || c > aC3 {
		panic("only C1..C3 create contracts")
	}
	return []int{aNew0 + 2*(c-aC1), aNew0 + 2*(c-aC1) + 1}
}

// actorOf maps an address back to its actor (-1 = unknown)
func actorOf(a common.Address) int {
	for i := range evmAddr {
		if evmAddr[i] == a {
			return i
		}
	}
	return -1
}

// matchChild returns the trace frame of a call-like instruction (nil = never entered) and advances the child index
func matchChild(e *evmEnv, self int, in evmInstr, ev *frameEv, child *int) *frameEv {
	if ev == nil || *child >= len(ev.Children) {
		return nil
	}
	c := ev.Children[*child]
	if in.Op == "create" {
		for _, t := range createAddrs(self) {
			if c.To == evmAddr[t] {
				*child++
				return c
			}
		}
		return nil
	}
	if c.To == callTarget(e, in) {
		*child++
		return c
	}
	return nil
}

var (
	evmKeyO, _ = crypto.HexToECDSA("b71c71a67e1177ad4e901695e1b4b9ee17ae16c6668d313eac2f96dbcda3f291")
	evmKeyP, _ = crypto.HexToECDSA("c87509a1c067bbde78beb793e6fa76530b6382a4c0241e5e4a9ec0a0f44dc0d3")
	evmAddr    [evmNActors]common.Address
)

func init() {
	evmAddr[aO] = crypto.PubkeyToAddress(evmKeyO.PublicKey)
	evmAddr[aP] = crypto.PubkeyToAddress(evmKeyP.PublicKey)
	evmAddr[aC1] = common.HexToAddress("0xC100000000000000000000000000000000000001")
	evmAddr[aC2] = common.HexToAddress("0xC200000000000000000000000000000000000002")
	evmAddr[aC3] = common.HexToAddress("0xC300000000000000000000000000000000000003")
	evmAddr[aPS] = common.HexToAddress("0x0000000000000000000000000000000000000800")
	evmAddr[aPD] = common.HexToAddress("0x0000000000000000000000000000000000000801")
	evmAddr[aBonded] = common.BytesToAddress(authtypes.NewModuleAddress(stakingtypes.BondedPoolName))
	evmAddr[aNotBonded] = common.BytesToAddress(authtypes.NewModuleAddress(stakingtypes.NotBondedPoolName))
	evmAddr[aDistr] = common.BytesToAddress(authtypes.NewModuleAddress(distrtypes.ModuleName))
	evmAddr[aEvm] = common.BytesToAddress(authtypes.NewModuleAddress(evmtypes.ModuleName))
	evmAddr[aFeeColl] = common.BytesToAddress(authtypes.NewModuleAddress(authtypes.FeeCollectorName))
	evmAddr[aPI] = common.HexToAddress("0x0000000000000000000000000000000000000802")
	evmAddr[aEscrow] = common.BytesToAddress(transfertypes.GetEscrowAddress("transfer", "channel-0"))
	for c := aC1; c <= aC3; c++ {
		for i, a := range createAddrs(c) {
			evmAddr[a] = crypto.CreateAddress(evmAddr[c], uint64(1+i))
		}
	}
}

// ---------------------------------------------------------------- input
type evmPCall struct {
	Method string `json:"m"`             // delegate undelegate withdraw setwithdraw claim ibctransfer
	Who    int    `json:"who"`           // the named delegator argument (actor)
	Amt    string `json:"amt,omitempty"` // delegate / undelegate amount
	To     int    `json:"to,omitempty"`  // setwithdraw target (actor)
}

type evmInstr struct {
	Op     string     `json:"op"` // sstore log revert balance selfdestruct call pcall create
	K      uint64     `json:"k,omitempty"`
	V      uint64     `json:"v,omitempty"`
	Addr   int        `json:"addr,omitempty"` // balance target / call target / selfdestruct beneficiary (actor)
	Value  string     `json:"value,omitempty"`
	Catch  bool       `json:"catch,omitempty"`
	Record bool       `json:"record,omitempty"`
	NoCode bool       `json:"nocode,omitempty"` // create: the constructor returns empty runtime code
	Body   []evmInstr `json:"body,omitempty"`
	P      *evmPCall  `json:"p,omitempty"`
}

type evmGrant struct {
	Grantee int    `json:"grantee"`
	Kind    string `json:"kind"`            // delegate undelegate transfer
	Limit   string `json:"limit,omitempty"` // "" = unlimited
}

type evmSetup struct {
	Bal      []string   `json:"bal"`      // initial bank balance of actors 0..4
	Deleg    []string   `json:"deleg"`    // initial delegation of actors 0..4 to the validator ("" / "0" = none)
	Reward   string     `json:"reward"`   // tokens allocated to the validator as rewards after the delegations
	Withdraw []int      `json:"withdraw"` // preset withdraw address of actors 0..4 (-1 = default = self)
	Grants   []evmGrant `json:"grants"`   // staking grants given by O
	WdOff    bool       `json:"wd_off,omitempty"` // distribution param withdraw_addr_enabled = false
}

type evmInput struct {
	Setup evmSetup   `json:"setup"`
	To    int        `json:"to"`    // actor the transaction is sent to (a script contract or a precompile)
	Value string     `json:"value"` // tx value
	Body  []evmInstr `json:"body,omitempty"`
	P     *evmPCall  `json:"p,omitempty"` // direct EOA -> precompile call
	// position of the transaction in its block: logs emitted by earlier transactions of the block and the
	// transaction index (the transient counters TxConfig is built from); zero = first transaction
	PriorLogs int `json:"prior_logs,omitempty"`
	TxIndex   int `json:"tx_index,omitempty"`
}

func bigOf(s string) *big.Int {
	if s == "" {
		return big.NewInt(0)
	}
	v, ok := new(big.Int).SetString(s, 10)
	if !ok {
		panic("bad int " + s)
	}
	return v
}

// ---------------------------------------------------------------- environment
type evmEnv struct {
	lastLogs []*evmtypes.Log // logs of the response of the last transaction run without a tracer
	logBase  uint64         // block log counter and tx index before it
	txIndex  uint64
	*Env
	valAddr sdk.ValAddress
	valStr  string
	sABI    abi.ABI
	dABI    abi.ABI
	iABI    abi.ABI
}

var evmBase *evmEnv

func evmBaseEnv() *evmEnv {
	if evmBase != nil {
		return evmBase
	}
	e := newEnv()
	e.App.EvmKeeper.WithChainID(e.Ctx)
	vals := e.App.StakingKeeper.GetAllValidators(e.Ctx)
	if len(vals) == 0 {
		panic("no validator")
	}
	v := vals[0]
	cons, err := v.GetConsAddr()
	if err != nil {
		panic(err)
	}
	hdr := e.Ctx.BlockHeader()
	hdr.ProposerAddress = cons
	e.Ctx = e.Ctx.WithBlockHeader(hdr).WithGasMeter(sdk.NewInfiniteGasMeter())
	ee := &evmEnv{Env: e, valAddr: v.GetOperator(), valStr: v.OperatorAddress}
	pcs := e.App.EvmKeeper.Precompiles(evmAddr[aPS], evmAddr[aPD], evmAddr[aPI])
	ee.sABI = pcs[evmAddr[aPS]].(*stakingprecompile.Precompile).ABI
	ee.dABI = pcs[evmAddr[aPD]].(*distprecompile.Precompile).ABI
	ee.iABI = pcs[evmAddr[aPI]].(*ics20precompile.Precompile).ABI
	if err := setupIBCChannel(e); err != nil {
		panic(err)
	}
	// zero commission so that rewards go to delegators
	evmBase = ee
	return ee
}

func (b *evmEnv) fork() *evmEnv {
	cctx, _ := b.Ctx.CacheContext()
	return &evmEnv{Env: &Env{App: b.App, Ctx: cctx, ValPub: b.ValPub}, valAddr: b.valAddr, valStr: b.valStr, sABI: b.sABI, dABI: b.dABI, iABI: b.iABI}
}

func accOf(a int) sdk.AccAddress { return sdk.AccAddress(evmAddr[a].Bytes()) }

func (e *evmEnv) setup(s evmSetup) error {
	k := e.App.EvmKeeper
	codeHash := crypto.Keccak256Hash(scriptCode)
	k.SetCode(e.Ctx, codeHash.Bytes(), scriptCode)
	if err := k.SetAccount(e.Ctx, evmLib, statedb.Account{Nonce: 1, Balance: big.NewInt(0), CodeHash: codeHash.Bytes()}); err != nil {
		return err
	}
	for a := 0; a <= aC3; a++ {
		bal := bigOf(s.Bal[a])
		dl := big.NewInt(0)
		if a < len(s.Deleg) {
			dl = bigOf(s.Deleg[a])
		}
		tot := new(big.Int).Add(bal, dl)
		acc := statedb.Account{Nonce: 0, Balance: tot, CodeHash: evmtypes.EmptyCodeHash}
		if a >= aC1 {
			acc.Nonce = 1
			acc.CodeHash = codeHash.Bytes()
		}
		if err := k.SetAccount(e.Ctx, evmAddr[a], acc); err != nil {
			return err
		}
	}
	for a := 0; a <= aC3 && a < len(s.Deleg); a++ {
		dl := bigOf(s.Deleg[a])
		if dl.Sign() > 0 {
			msg := stakingtypes.NewMsgDelegate(accOf(a), e.valAddr, sdk.NewCoin(utils.BaseDenom, sdkmath.NewIntFromBigInt(dl)))
			if _, err := e.runMsg(msg); err != nil {
				return fmt.Errorf("setup delegate: %w", err)
			}
		}
	}
	defer func() {
		if s.WdOff {
			p := e.App.DistrKeeper.GetParams(e.Ctx)
			p.WithdrawAddrEnabled = false
			_ = e.App.DistrKeeper.SetParams(e.Ctx, p)
		}
	}()
	for a := 0; a <= aC3 && a < len(s.Withdraw); a++ {
		if s.Withdraw[a] >= 0 && s.Withdraw[a] != a {
			if err := e.App.DistrKeeper.SetWithdrawAddr(e.Ctx, accOf(a), accOf(s.Withdraw[a])); err != nil {
				return fmt.Errorf("setup withdraw addr: %w", err)
			}
		}
	}
	for _, g := range s.Grants {
		if g.Kind == "transfer" {
			lim := transfertypes.UnboundedSpendLimit()
			if g.Limit != "" {
				lim = sdkmath.NewIntFromBigInt(bigOf(g.Limit))
			}
			ta := transfertypes.NewTransferAuthorization(transfertypes.Allocation{SourcePort: "transfer", SourceChannel: "channel-0",
				SpendLimit: sdk.NewCoins(sdk.NewCoin(utils.BaseDenom, lim))})
			exp := e.Ctx.BlockTime().Add(24 * time.Hour)
			if err := e.App.AuthzKeeper.SaveGrant(e.Ctx, accOf(g.Grantee), accOf(aO), ta, &exp); err != nil {
				return err
			}
			continue
		}
		var lim *sdk.Coin
		if g.Limit != "" {
			c := sdk.NewCoin(utils.BaseDenom, sdkmath.NewIntFromBigInt(bigOf(g.Limit)))
			lim = &c
		}
		at := stakingtypes.AuthorizationType_AUTHORIZATION_TYPE_DELEGATE
		if g.Kind == "undelegate" {
			at = stakingtypes.AuthorizationType_AUTHORIZATION_TYPE_UNDELEGATE
		}
		sa, err := stakingtypes.NewStakeAuthorization([]sdk.ValAddress{e.valAddr}, nil, at, lim)
		if err != nil {
			return err
		}
		exp := e.Ctx.BlockTime().Add(24 * time.Hour)
		if err := e.App.AuthzKeeper.SaveGrant(e.Ctx, accOf(g.Grantee), accOf(aO), sa, &exp); err != nil {
			return err
		}
	}
	// rewards accrue only after the height moved past the delegations
	e.Ctx = e.Ctx.WithBlockHeight(e.Ctx.BlockHeight() + 1)
	if r := bigOf(s.Reward); r.Sign() > 0 {
		coins := sdk.NewCoins(sdk.NewCoin(utils.BaseDenom, sdkmath.NewIntFromBigInt(r)))
		if err := testutil.FundModuleAccount(e.Ctx, e.App.BankKeeper, distrtypes.ModuleName, coins); err != nil {
			return err
		}
		val := e.App.StakingKeeper.Validator(e.Ctx, e.valAddr)
		e.App.DistrKeeper.AllocateTokensToValidator(e.Ctx, val, sdk.NewDecCoinsFromCoins(coins...))
	}
	return nil
}

// ---------------------------------------------------------------- observation
type evmObs struct {
	OK       bool       `json:"ok"` // transaction executed without VM error
	Err      string     `json:"err,omitempty"`
	Bal      []string   `json:"bal"`      // bank balance of every actor
	Supply   string     `json:"supply"`   // total supply relative to the supply before the tx
	Deleg    []string   `json:"deleg"`    // delegated tokens of actors 0..4
	Unbond   []string   `json:"unbond"`   // unbonding tokens of actors 0..4
	Withdraw []int      `json:"withdraw"` // withdraw address of actors 0..4 as actor index (-2 = unknown address)
	Reward   []string   `json:"reward"`   // pending (truncated) rewards of actors 0..4
	Storage  [][]string `json:"storage"`  // [contract, slot, value] non-zero
	Grants   []string   `json:"grants"`   // remaining limit of O's delegate/undelegate grant per grantee "g:kind:limit"
	Alive    []int      `json:"alive"`    // C1..C3 and the six CREATE addresses: 0 no auth account, 1 account without code, 2 with code
	Nonce    []int      `json:"nonce"`    // CREATEs made by C1..C3 (account nonce - 1)
	Logs     []string   `json:"logs"`     // the logs of the transaction response, in order: the emitting actor
	LogMeta  string     `json:"log_meta,omitempty"` // what is wrong with log / tx indices, block log counter (empty = consistent)
}

func (e *evmEnv) pendingReward(a int) (out *big.Int) {
	// a delegation whose distribution starting info is missing makes the SDK panic: report -1
	defer func() {
		if r := recover(); r != nil {
			out = big.NewInt(-1)
		}
	}()
	cctx, _ := e.Ctx.CacheContext()
	val := e.App.StakingKeeper.Validator(cctx, e.valAddr)
	del := e.App.StakingKeeper.Delegation(cctx, accOf(a), e.valAddr)
	if del == nil || val == nil {
		return big.NewInt(0)
	}
	end := e.App.DistrKeeper.IncrementValidatorPeriod(cctx, val)
	r := e.App.DistrKeeper.CalculateDelegationRewards(cctx, val, del, end)
	t, _ := r.TruncateDecimal()
	return t.AmountOf(utils.BaseDenom).BigInt()
}

func (e *evmEnv) observe(ok bool, errStr string, supply0 *big.Int, slots map[[2]uint64]bool) evmObs {
	o := evmObs{OK: ok, Err: errStr, Logs: []string{}}
	{
		// the logs of the response: who emitted them, and the bookkeeping around them (log index = block log counter
		// + position, transaction index, the block's counters after the transaction)
		byAddr := map[common.Address]int{}
		for a := 0; a < evmNActors; a++ {
			byAddr[evmAddr[a]] = a
		}
		meta := []string{}
		for i, l := range e.lastLogs {
			name := "?" + l.Address
			if a, ok := byAddr[common.HexToAddress(l.Address)]; ok {
				name = evmActorName[a]
			}
			o.Logs = append(o.Logs, name)
			if l.Index != e.logBase+uint64(i) {
				meta = append(meta, fmt.Sprintf("log %d has index %d, block log counter before the transaction %d", i, l.Index, e.logBase))
			}
			if l.TxIndex != e.txIndex {
				meta = append(meta, fmt.Sprintf("log %d has transaction index %d, not %d", i, l.TxIndex, e.txIndex))
			}
		}
		if e.lastLogs != nil || ok {
			if got := e.App.EvmKeeper.GetLogSizeTransient(e.Ctx); ok && got != e.logBase+uint64(len(e.lastLogs)) {
				meta = append(meta, fmt.Sprintf("block log counter %d after %d + %d logs", got, e.logBase, len(e.lastLogs)))
			}
		}
		o.LogMeta = strings.Join(meta, "; ")
	}
	for a := 0; a < evmNActors; a++ {
		o.Bal = append(o.Bal, e.App.BankKeeper.GetBalance(e.Ctx, accOf(a), utils.BaseDenom).Amount.String())
	}
	sup := e.App.BankKeeper.GetSupply(e.Ctx, utils.BaseDenom).Amount.BigInt()
	o.Supply = new(big.Int).Sub(sup, supply0).String()
	idx := map[string]int{}
	for a := 0; a < evmNActors; a++ {
		idx[accOf(a).String()] = a
	}
	for a := 0; a <= aC3; a++ {
		d := big.NewInt(0)
		if del, found := e.App.StakingKeeper.GetDelegation(e.Ctx, accOf(a), e.valAddr); found {
			val, _ := e.App.StakingKeeper.GetValidator(e.Ctx, e.valAddr)
			d = val.TokensFromShares(del.Shares).TruncateInt().BigInt()
		}
		o.Deleg = append(o.Deleg, d.String())
		u := big.NewInt(0)
		if ubd, found := e.App.StakingKeeper.GetUnbondingDelegation(e.Ctx, accOf(a), e.valAddr); found {
			for _, en := range ubd.Entries {
				u.Add(u, en.Balance.BigInt())
			}
		}
		o.Unbond = append(o.Unbond, u.String())
		w := e.App.DistrKeeper.GetDelegatorWithdrawAddr(e.Ctx, accOf(a))
		if i, ok := idx[w.String()]; ok {
			o.Withdraw = append(o.Withdraw, i)
		} else {
			o.Withdraw = append(o.Withdraw, -2)
		}
		o.Reward = append(o.Reward, e.pendingReward(a).String())
	}
	keys := [][2]uint64{}
	for k := range slots {
		keys = append(keys, k)
	}
	sort.Slice(keys, func(i, j int) bool {
		if keys[i][0] != keys[j][0] {
			return keys[i][0] < keys[j][0]
		}
		return keys[i][1] < keys[j][1]
	})
	o.Storage = [][]string{}
	for _, k := range keys {
		v := e.App.EvmKeeper.GetState(e.Ctx, evmAddr[k[0]], common.BigToHash(new(big.Int).SetUint64(k[1])))
		if (v != common.Hash{}) {
			o.Storage = append(o.Storage, []string{fmt.Sprint(k[0]), fmt.Sprint(k[1]), new(big.Int).SetBytes(v.Bytes()).String()})
		}
	}
	for _, a := range []int{aC1, aC2, aC3, aNew0, aNew0 + 1, aNew0 + 2, aNew0 + 3, aNew0 + 4, aNew0 + 5} {
		st := 0
		if acc := e.App.EvmKeeper.GetAccount(e.Ctx, evmAddr[a]); acc != nil && e.App.AccountKeeper.GetAccount(e.Ctx, accOf(a)) != nil {
			st = 1
			if acc.IsContract() {
				st = 2
			}
		}
		o.Alive = append(o.Alive, st)
	}
	for a := aC1; a <= aC3; a++ {
		n := int(e.App.EvmKeeper.GetNonce(e.Ctx, evmAddr[a]))
		if n > 0 { // a deleted contract has no account: nonce 0
			n--
		}
		o.Nonce = append(o.Nonce, n)
	}
	o.Grants = []string{}
	for g := aP; g <= aC3; g++ {
		for _, kind := range []string{"delegate", "undelegate", "transfer"} {
			url := sdk.MsgTypeURL(&stakingtypes.MsgDelegate{})
			if kind == "undelegate" {
				url = sdk.MsgTypeURL(&stakingtypes.MsgUndelegate{})
			} else if kind == "transfer" {
				url = sdk.MsgTypeURL(&transfertypes.MsgTransfer{})
			}
			az, _ := e.App.AuthzKeeper.GetAuthorization(e.Ctx, accOf(g), accOf(aO), url)
			if az == nil {
				continue
			}
			lim := "inf"
			if sa, ok := az.(*stakingtypes.StakeAuthorization); ok && sa.MaxTokens != nil {
				lim = sa.MaxTokens.Amount.String()
			}
			if ta, ok := az.(*transfertypes.TransferAuthorization); ok {
				lim = "none"
				for _, al := range ta.Allocations {
					if al.SourceChannel == "channel-0" {
						if l := al.SpendLimit.AmountOf(utils.BaseDenom); !l.Equal(transfertypes.UnboundedSpendLimit()) {
							lim = l.String()
						} else {
							lim = "inf"
						}
					}
				}
			}
			o.Grants = append(o.Grants, fmt.Sprintf("%d:%s:%s", g, kind, lim))
		}
	}
	return o
}

// ---------------------------------------------------------------- encoding of programs
func (e *evmEnv) packP(p *evmPCall) (target int, data []byte) {
	var err error
	switch p.Method {
	case "delegate", "undelegate":
		data, err = e.sABI.Pack(p.Method, evmAddr[p.Who], e.valStr, bigOf(p.Amt))
		target = aPS
	case "withdraw":
		data, err = e.dABI.Pack("withdrawDelegatorRewards", evmAddr[p.Who], e.valStr)
		target = aPD
	case "setwithdraw":
		data, err = e.dABI.Pack("setWithdrawAddress", evmAddr[p.Who], accOf(p.To).String())
		target = aPD
	case "claim":
		data, err = e.dABI.Pack("claimRewards", evmAddr[p.Who], uint32(10))
		target = aPD
	case "ibctransfer":
		data, err = e.iABI.Pack("transfer", "transfer", "channel-0", utils.BaseDenom, bigOf(p.Amt), evmAddr[p.Who], "cosmos1receiver0",
			clienttypes.NewHeight(1, 1000), uint64(0), "")
		target = aPI
	default:
		panic("bad precompile method " + p.Method)
	}
	if err != nil {
		panic(err)
	}
	return
}

// encodeBody returns the script bytes; slots collects every storage slot the
// program can touch (contract actor, key), given the contract `self` executing it.
func (e *evmEnv) encodeBody(self int, body []evmInstr, slots map[[2]uint64]bool) []byte {
	out := []byte{}
	for i, in := range body {
		p := uint64(len(out))
		switch in.Op {
		case "sstore":
			out = append(out, encSStore(in.K, in.V)...)
			slots[[2]uint64{uint64(self), in.K}] = true
		case "log":
			out = append(out, encLog()...)
		case "revert":
			out = append(out, encRevert()...)
		case "balance":
			out = append(out, encBalance(evmAddr[in.Addr].Bytes())...)
		case "selfdestruct":
			// SELFDESTRUCT halts the frame: it is always the last instruction of a body (the model relies on it)
			if i != len(body)-1 {
				panic("selfdestruct must be the last instruction of a body")
			}
			out = append(out, encSelfdestruct(evmAddr[in.Addr].Bytes())...)
		case "create":
			var flags byte
			if in.Catch {
				flags |= 1
			}
			if in.Record {
				flags |= 2
				slots[[2]uint64{uint64(self), 0xC0DE0000 + p}] = true
			}
			// the constructor body runs as the new contract, whichever of the creator's addresses it lands on:
			// its storage slots are collected for both
			var script []byte
			for _, t := range createAddrs(self) {
				script = e.encodeBody(t, in.Body, slots)
			}
			out = append(out, encCreate(flags, bigOf(in.Value), ctorInit(evmLib.Bytes(), script, !in.NoCode))...)
		case "call", "pcall":
			var flags byte
			if in.Catch {
				flags |= 1
			}
			if in.Record {
				flags |= 2
				slots[[2]uint64{uint64(self), 0xC0DE0000 + p}] = true
			}
			if in.Op == "pcall" {
				flags |= 4
				t, data := e.packP(in.P)
				out = append(out, encCall(flags, evmAddr[t].Bytes(), bigOf(in.Value), data)...)
			} else {
				var payload []byte
				if in.Addr >= aC1 && in.Addr <= aC3 {
					payload = e.encodeBody(in.Addr, in.Body, slots)
				}
				out = append(out, encCall(flags, evmAddr[in.Addr].Bytes(), bigOf(in.Value), payload)...)
			}
		default:
			panic("bad instr " + in.Op)
		}
	}
	return out
}

// ---------------------------------------------------------------- execution
type frameEv struct {
	To       common.Address
	Err      string
	Children []*frameEv
}

type treeTracer struct {
	root  *frameEv
	stack []*frameEv
}

func (t *treeTracer) CaptureTxStart(uint64) {}
func (t *treeTracer) CaptureTxEnd(uint64)   {}
func (t *treeTracer) CaptureStart(_ *vm.EVM, _ common.Address, to common.Address, _ bool, _ []byte, _ uint64, _ *big.Int) {
	t.root = &frameEv{To: to}
	t.stack = []*frameEv{t.root}
}
func (t *treeTracer) CaptureEnd(_ []byte, _ uint64, _ time.Duration, err error) {
	if err != nil && t.root != nil {
		t.root.Err = err.Error()
	}
}
func (t *treeTracer) CaptureEnter(typ vm.OpCode, _ common.Address, to common.Address, _ []byte, _ uint64, _ *big.Int) {
	f := &frameEv{To: to}
	top := t.stack[len(t.stack)-1]
	switch typ {
	case vm.SELFDESTRUCT: // the interpreter reports SELFDESTRUCT as a pseudo-frame: not a call
	case vm.DELEGATECALL: // the constructor stub running the script as the new contract: transparent
		f = top
	default:
		top.Children = append(top.Children, f)
	}
	t.stack = append(t.stack, f)
}
func (t *treeTracer) CaptureExit(_ []byte, _ uint64, err error) {
	n := len(t.stack)
	// a transparent (DELEGATECALL) entry is the same object as its parent: its error is the stub's business
	if err != nil && !(n >= 2 && t.stack[n-1] == t.stack[n-2]) {
		t.stack[n-1].Err = err.Error()
	}
	t.stack = t.stack[:n-1]
}
func (t *treeTracer) CaptureState(uint64, vm.OpCode, uint64, uint64, *vm.ScopeContext, []byte, int, error) {
}
func (t *treeTracer) CaptureFault(uint64, vm.OpCode, uint64, uint64, *vm.ScopeContext, int, error) {}

func (e *evmEnv) buildTx(in evmInput, slots map[[2]uint64]bool) *ethtypes.Transaction {
	var data []byte
	to := evmAddr[in.To]
	if in.P != nil {
		t, d := e.packP(in.P)
		to, data = evmAddr[t], d
	} else {
		data = e.encodeBody(in.To, in.Body, slots)
	}
	nonce := e.App.EvmKeeper.GetNonce(e.Ctx, evmAddr[aO])
	tx := ethtypes.NewTx(&ethtypes.LegacyTx{Nonce: nonce, GasPrice: big.NewInt(0), Gas: 2_000_000_000, To: &to, Value: bigOf(in.Value), Data: data})
	signer := ethtypes.LatestSignerForChainID(e.App.EvmKeeper.ChainID())
	stx, err := ethtypes.SignTx(tx, signer, evmKeyO)
	if err != nil {
		panic(err)
	}
	return stx
}

// run executes the transaction through the real keeper.  With a tracer it
// calls ApplyMessageWithConfig directly (used only to learn which frames failed).
func (e *evmEnv) run(tx *ethtypes.Transaction, tr *treeTracer) (ok bool, errStr string) {
	defer func() {
		if r := recover(); r != nil {
			ok, errStr = false, fmt.Sprintf("panic: %v", r)
		}
		// the failure path of ApplyTransaction consumes the whole (infinite) limit
		e.Ctx = e.Ctx.WithGasMeter(sdk.NewInfiniteGasMeter())
	}()
	k := e.App.EvmKeeper
	// as the ante handler does: the transaction starts with a fresh (infinite) gas meter
	e.Ctx = e.Ctx.WithGasMeter(sdk.NewInfiniteGasMeter())
	if tr == nil {
		e.lastLogs = nil
		res, err := k.ApplyTransaction(e.Ctx, tx)
		if err != nil {
			return false, "error: " + err.Error()
		}
		e.lastLogs = res.Logs
		return !res.Failed(), res.VmError
	}
	cfg, err := k.EVMConfig(e.Ctx, sdk.ConsAddress(e.Ctx.BlockHeader().ProposerAddress), k.ChainID())
	if err != nil {
		return false, err.Error()
	}
	signer := ethtypes.MakeSigner(cfg.ChainConfig, big.NewInt(e.Ctx.BlockHeight()))
	msg, err := tx.AsMessage(signer, cfg.BaseFee)
	if err != nil {
		return false, err.Error()
	}
	res, err := k.ApplyMessageWithConfig(e.Ctx, msg, tr, true, cfg, k.TxConfig(e.Ctx, tx.Hash()))
	if err != nil {
		return false, "error: " + err.Error()
	}
	return !res.Failed(), res.VmError
}

// eraseFailed returns the program in which every call that the trace shows as
// failed (or that was never entered) is replaced by what a frame that "leaves
// no trace" leaves: nothing, except the caller's own record of the failure.
// base is the calldata offset bookkeeping needed to keep record slots stable.
func eraseFailed(e *evmEnv, self int, body []evmInstr, ev *frameEv) []evmInstr {
	out := []evmInstr{}
	child := 0
	off := uint64(0)
	for _, in := range body {
		sz := uint64(len(e.encodeBody(self, []evmInstr{in}, map[[2]uint64]bool{})))
		switch in.Op {
		case "call", "pcall", "create":
			ce := matchChild(e, self, in, ev, &child)
			failed := ce == nil || ce.Err != ""
			if failed && in.Op == "create" && ce != nil {
				// a creation whose constructor failed still moves the creator's nonce (that happens before the
				// frame): what "leaves no trace" leaves is the minimal failing creation
				c := in
				c.Value, c.Body, c.Record, c.Catch = "", []evmInstr{{Op: "revert"}}, false, true
				out = append(out, c)
				if in.Record {
					out = append(out, evmInstr{Op: "sstore", K: 0xC0DE0000 + off, V: 1})
				}
				if !in.Catch {
					out = append(out, evmInstr{Op: "revert"})
				}
			} else if failed {
				if in.Record {
					out = append(out, evmInstr{Op: "sstore", K: 0xC0DE0000 + off, V: 1})
				}
				if !in.Catch {
					out = append(out, evmInstr{Op: "revert"})
				}
			} else {
				c := in
				if in.Op == "call" {
					c.Body = eraseFailed(e, in.Addr, in.Body, ce)
				}
				if in.Op == "create" {
					c.Body = eraseFailed(e, actorOf(ce.To), in.Body, ce)
				}
				if in.Record {
					// keep the record slot where the original program put it
					c.Record = false
					out = append(out, c, evmInstr{Op: "sstore", K: 0xC0DE0000 + off, V: 2})
				} else {
					out = append(out, c)
				}
			}
		default:
			out = append(out, in)
		}
		off += sz
	}
	return out
}

func callTarget(e *evmEnv, in evmInstr) common.Address {
	if in.Op == "pcall" {
		t, _ := e.packP(in.P)
		return evmAddr[t]
	}
	return evmAddr[in.Addr]
}

// ---------------------------------------------------------------- Coq printing
func coqPCall(p *evmPCall) string {
	switch p.Method {
	case "delegate":
		return fmt.Sprintf("(PDelegate %s %s)", coqN(p.Who), coqZ(bigOf(p.Amt)))
	case "undelegate":
		return fmt.Sprintf("(PUndelegate %s %s)", coqN(p.Who), coqZ(bigOf(p.Amt)))
	case "withdraw":
		return fmt.Sprintf("(PWithdraw %s)", coqN(p.Who))
	case "setwithdraw":
		return fmt.Sprintf("(PSetWithdraw %s %s)", coqN(p.Who), coqN(p.To))
	case "claim":
		return fmt.Sprintf("(PClaim %s)", coqN(p.Who))
	case "ibctransfer":
		return fmt.Sprintf("(PTransfer %s %s)", coqN(p.Who), coqZ(bigOf(p.Amt)))
	}
	panic("method")
}

// coqSelf is the contract whose body coqBody is printing (needed for the CREATE address lists)
var coqSelf int

func coqBody(body []evmInstr) string {
	xs := []string{}
	off := uint64(0)
	for _, in := range body {
		switch in.Op {
		case "sstore":
			xs = append(xs, fmt.Sprintf("ISStore %d%%Z %d%%Z", in.K, in.V))
			off += 65
		case "log":
			xs = append(xs, "ILog")
			off++
		case "revert":
			xs = append(xs, "IRevert")
			off++
		case "balance":
			xs = append(xs, fmt.Sprintf("IBalance %s", coqN(in.Addr)))
			off += 33
		case "selfdestruct":
			xs = append(xs, fmt.Sprintf("ISelfdestruct %s", coqN(in.Addr)))
			off += 33
		case "call":
			rec := "None"
			if in.Record {
				rec = fmt.Sprintf("(Some %d%%Z)", 0xC0DE0000+off)
			}
			savedSelf := coqSelf
			coqSelf = in.Addr
			xs = append(xs, fmt.Sprintf("ICall %s %s %s %s %s", coqN(in.Addr), coqZ(bigOf(in.Value)), coqBool(in.Catch), rec, coqBody(in.Body)))
			coqSelf = savedSelf
			off += 98 + 0 // payload length added below
			off += uint64(bodyLen(in))
		case "pcall":
			rec := "None"
			if in.Record {
				rec = fmt.Sprintf("(Some %d%%Z)", 0xC0DE0000+off)
			}
			xs = append(xs, fmt.Sprintf("IPre %s %s %s %s", coqPCall(in.P), coqZ(bigOf(in.Value)), coqBool(in.Catch), rec))
			off += 98 + uint64(bodyLen(in))
		case "create":
			rec := "None"
			if in.Record {
				rec = fmt.Sprintf("(Some %d%%Z)", 0xC0DE0000+off)
			}
			ads := []string{}
			for _, a := range createAddrs(coqSelf) {
				ads = append(ads, coqN(a))
			}
			saved := coqSelf
			coqSelf = createAddrs(saved)[0] // a created contract does not create again (generator), so its own list is never used
			xs = append(xs, fmt.Sprintf("ICreate %s %s %s %s %s %s", coqList(ads), coqZ(bigOf(in.Value)), coqBool(in.Catch), rec, coqBool(!in.NoCode), coqBody(in.Body)))
			coqSelf = saved
			off += 66 + uint64(len(ctorInit(evmLib.Bytes(), evmBaseEnv().encodeBody(createAddrs(saved)[0], in.Body, map[[2]uint64]bool{}), !in.NoCode)))
		}
	}
	return coqList(xs)
}

// bodyLen is the payload length of a call instruction (needed for record slots).
func bodyLen(in evmInstr) int {
	e := evmBaseEnv()
	if in.Op == "pcall" {
		_, d := e.packP(in.P)
		return len(d)
	}
	if in.Addr >= aC1 && in.Addr <= aC3 {
		return len(e.encodeBody(in.Addr, in.Body, map[[2]uint64]bool{}))
	}
	return 0
}

func coqStrs(xs []string) string {
	out := []string{}
	for _, x := range xs {
		out = append(out, coqZ(bigOf(x)))
	}
	return coqList(out)
}

func (o evmObs) coq() string {
	ws := []string{}
	for _, w := range o.Withdraw {
		ws = append(ws, coqZ(big.NewInt(int64(w))))
	}
	st := []string{}
	for _, s := range o.Storage {
		st = append(st, fmt.Sprintf("(%s%%N, %s%%Z, %s%%Z)", s[0], s[1], s[2]))
	}
	al, nc := []string{}, []string{}
	for _, a := range o.Alive {
		al = append(al, coqZ(big.NewInt(int64(a))))
	}
	for _, a := range o.Nonce {
		nc = append(nc, coqZ(big.NewInt(int64(a))))
	}
	return fmt.Sprintf("(mkeobs %s %s %s %s %s %s %s %s %s %s)", coqBool(o.OK), coqStrs(o.Bal), coqZ(bigOf(o.Supply)),
		coqStrs(o.Deleg), coqStrs(o.Unbond), coqList(ws), coqList(st), coqList(al), coqList(nc), coqZ(big.NewInt(int64(len(o.Logs)))))
}

func evmOrder() string {
	idx := []int{}
	for a := 0; a < evmNActors; a++ {
		idx = append(idx, a)
	}
	sort.Slice(idx, func(i, j int) bool { return string(evmAddr[idx[i]].Bytes()) < string(evmAddr[idx[j]].Bytes()) })
	xs := []string{}
	for _, a := range idx {
		xs = append(xs, coqN(a))
	}
	return coqList(xs)
}

func coqSlots(slots map[[2]uint64]bool) string {
	keys := [][2]uint64{}
	for k := range slots {
		keys = append(keys, k)
	}
	sort.Slice(keys, func(i, j int) bool {
		if keys[i][0] != keys[j][0] {
			return keys[i][0] < keys[j][0]
		}
		return keys[i][1] < keys[j][1]
	})
	xs := []string{}
	for _, k := range keys {
		xs = append(xs, fmt.Sprintf("(%d%%N, %d%%Z)", k[0], k[1]))
	}
	return coqList(xs)
}

func (in evmInput) coq(rewards []string, slots map[[2]uint64]bool) string {
	gs := []string{}
	for _, g := range in.Setup.Grants {
		lim := "None"
		if g.Limit != "" {
			lim = "(Some " + coqZ(bigOf(g.Limit)) + ")"
		}
		gs = append(gs, fmt.Sprintf("(%s, %s, %s)", coqN(g.Grantee), coqN(map[string]int{"undelegate": 0, "delegate": 1, "transfer": 2}[g.Kind]), lim))
	}
	ws := []string{}
	for a, w := range in.Setup.Withdraw {
		if w < 0 {
			w = a
		}
		ws = append(ws, coqN(w))
	}
	top := ""
	if in.P != nil {
		top = fmt.Sprintf("(TopPre %s)", coqPCall(in.P))
	} else {
		coqSelf = in.To
		top = fmt.Sprintf("(TopCall %s %s)", coqN(in.To), coqBody(in.Body))
	}
	return fmt.Sprintf("(mkecase %s %s %s %s %s %s %s %s %s "+coqBool(in.Setup.WdOff)+")", coqStrs(in.Setup.Bal), coqStrs(in.Setup.Deleg), coqStrs(rewards),
		coqList(ws), coqList(gs), evmOrder(), coqSlots(slots), coqZ(bigOf(in.Value)), top) // e_wd_disabled appended below
}

// ---------------------------------------------------------------- one case
type evmResult struct {
	Obs      evmObs   `json:"obs"`
	Pre      evmObs   `json:"pre"`
	Frames   string   `json:"frames"`
	Erased   *evmObs  `json:"erased_obs,omitempty"`
	Native   *evmObs  `json:"native_obs,omitempty"`
	Features []string `json:"features"`
}

func frameString(f *frameEv) string {
	if f == nil {
		return "-"
	}
	s := "ok"
	if f.Err != "" {
		s = "fail"
	}
	if len(f.Children) > 0 {
		cs := []string{}
		for _, c := range f.Children {
			cs = append(cs, frameString(c))
		}
		s += "[" + strings.Join(cs, ",") + "]"
	}
	return s
}

func evmRunCase(id string, in evmInput, prop string) Case {
	base := evmBaseEnv()
	slots := map[[2]uint64]bool{}
	mk := func() (*evmEnv, *big.Int, error) {
		e := base.fork()
		if err := e.setup(in.Setup); err != nil {
			return nil, nil, err
		}
		e.logBase, e.txIndex = uint64(in.PriorLogs), uint64(in.TxIndex)
		e.App.EvmKeeper.SetLogSizeTransient(e.Ctx, e.logBase)
		e.App.EvmKeeper.SetTxIndexTransient(e.Ctx, e.txIndex)
		return e, e.App.BankKeeper.GetSupply(e.Ctx, utils.BaseDenom).Amount.BigInt(), nil
	}
	kb, _ := json.Marshal(in)
	c := Case{ID: id, Kind: "tree", Input: in, CoqList: "cases", Key: string(kb)}
	e, sup0, err := mk()
	if err != nil {
		c.OracleOK = true
		c.Tags = []string{"setup-failed"}
		c.OracleMsg = "setup failed (case skipped): " + err.Error()
		return c
	}
	tx := e.buildTx(in, slots)
	pre := e.observe(true, "", sup0, slots)
	ok, errStr := e.run(tx, nil)
	obs := e.observe(ok, errStr, sup0, slots)
	res := evmResult{Obs: obs, Pre: pre}

	// which frames failed? (separate copy of the same state, tracer attached)
	e2, _, _ := mk()
	tr := &treeTracer{}
	e2.run(e2.buildTx(in, map[[2]uint64]bool{}), tr)
	res.Frames = frameString(tr.root)

	feats := evmFeatures(in, pre, tr.root)
	res.Features = feats
	c.Tags = feats
	c.Class = evmClass(in, pre, tr.root, prop)
	c.Nontrivial = ok && (in.P != nil || len(in.Body) > 0)

	msgs := []string{}
	// ---- C02: supply unchanged, closed-system conservation
	if prop == "C02" || prop == "all" {
		m, burned := evmBalanceOracle(e, in, pre, obs, tr.root)
		if want := new(big.Int).Neg(burned).String(); obs.Supply != want {
			msgs = append(msgs, fmt.Sprintf("C02: total supply of the native coin changed by %s (sanctioned burn by self-destructed contracts: %s)", obs.Supply, burned))
		}
		if m != "" {
			msgs = append(msgs, "C02: "+m)
		}
	}
	// ---- C05: a reverted frame leaves no trace (metamorphic: erase the failed frames)
	if prop == "C05" || prop == "all" {
		if obs.LogMeta != "" {
			msgs = append(msgs, "C05: the logs of the transaction are not those of its surviving frames in order: "+obs.LogMeta)
		}
		if !ok {
			if d := evmDiff(pre, obs, false); d != "" {
				msgs = append(msgs, "C05: the transaction failed but state changed: "+d)
			}
		} else if in.P == nil && strings.Contains(res.Frames, "fail") || strings.Contains(res.Frames, "-") {
			in2 := in
			in2.Body = eraseFailed(e, in.To, in.Body, tr.root)
			e3, sup3, err := mk()
			if err == nil {
				slots3 := map[[2]uint64]bool{}
				for k := range slots {
					slots3[k] = true
				}
				tx3 := e3.buildTx(in2, slots3)
				ok3, err3 := e3.run(tx3, nil)
				o3 := e3.observe(ok3, err3, sup3, slots3)
				res.Erased = &o3
				if d := evmDiff(o3, obs, true); d != "" {
					msgs = append(msgs, "C05: state differs from the same transaction with the failed frames removed: "+d)
				}
			}
		}
	}
	// ---- C16: owner call == native message (direct EOA call only)
	if (prop == "C16" || prop == "all") && in.P != nil && in.P.Who == aO && bigOf(in.Value).Sign() == 0 {
		e4, sup4, err := mk()
		if err == nil {
			nerr := e4.native(in.P)
			o4 := e4.observe(nerr == nil, "", sup4, slots)
			if nerr != nil {
				o4.Err = nerr.Error()
			}
			res.Native = &o4
			o4.Logs = obs.Logs // a native message emits no EVM log: the comparison is about Cosmos state
			if o4.OK != obs.OK {
				msgs = append(msgs, fmt.Sprintf("C16: precompile call ok=%v but native message ok=%v (%s | %s)", obs.OK, o4.OK, obs.Err, o4.Err))
			} else if d := evmDiff(o4, obs, true); d != "" {
				msgs = append(msgs, "C16: state after the precompile call differs from the native message: "+d)
			}
		}
	}
	c.Obs = res
	c.OracleOK = len(msgs) == 0
	c.OracleMsg = strings.Join(msgs, "; ")
	rew := pre.Reward
	c.Coq = fmt.Sprintf("(%s, %s, %s)", in.coq(rew, slots), coqStrs(pre.Bal[5:]), obs.coq())
	return c
}

func (e *evmEnv) native(p *evmPCall) error {
	var msg sdk.Msg
	switch p.Method {
	case "delegate":
		msg = stakingtypes.NewMsgDelegate(accOf(p.Who), e.valAddr, sdk.NewCoin(utils.BaseDenom, sdkmath.NewIntFromBigInt(bigOf(p.Amt))))
	case "undelegate":
		msg = stakingtypes.NewMsgUndelegate(accOf(p.Who), e.valAddr, sdk.NewCoin(utils.BaseDenom, sdkmath.NewIntFromBigInt(bigOf(p.Amt))))
	case "withdraw":
		msg = distrtypes.NewMsgWithdrawDelegatorReward(accOf(p.Who), e.valAddr)
	case "setwithdraw":
		msg = distrtypes.NewMsgSetWithdrawAddress(accOf(p.Who), accOf(p.To))
	case "claim":
		// claimRewards = withdraw from every validator the delegator is bonded to (at most one here)
		if _, found := e.App.StakingKeeper.GetDelegation(e.Ctx, accOf(p.Who), e.valAddr); !found {
			return nil
		}
		msg = distrtypes.NewMsgWithdrawDelegatorReward(accOf(p.Who), e.valAddr)
	case "ibctransfer":
		msg = transfertypes.NewMsgTransfer("transfer", "channel-0", sdk.NewCoin(utils.BaseDenom, sdkmath.NewIntFromBigInt(bigOf(p.Amt))),
			accOf(p.Who).String(), "cosmos1receiver0", clienttypes.NewHeight(1, 1000), 0, "")
	}
	_, err := e.runMsg(msg)
	return err
}

func evmDiff(want, got evmObs, withOK bool) string {
	d := []string{}
	if withOK && want.OK != got.OK {
		d = append(d, fmt.Sprintf("ok %v vs %v", want.OK, got.OK))
	}
	for a := range want.Bal {
		if want.Bal[a] != got.Bal[a] {
			d = append(d, fmt.Sprintf("balance[%s] %s vs %s", evmActorName[a], want.Bal[a], got.Bal[a]))
		}
	}
	if want.Supply != got.Supply {
		d = append(d, fmt.Sprintf("supply delta %s vs %s", want.Supply, got.Supply))
	}
	for a := range want.Deleg {
		if want.Deleg[a] != got.Deleg[a] {
			d = append(d, fmt.Sprintf("delegation[%s] %s vs %s", evmActorName[a], want.Deleg[a], got.Deleg[a]))
		}
		if want.Unbond[a] != got.Unbond[a] {
			d = append(d, fmt.Sprintf("unbonding[%s] %s vs %s", evmActorName[a], want.Unbond[a], got.Unbond[a]))
		}
		if want.Withdraw[a] != got.Withdraw[a] {
			d = append(d, fmt.Sprintf("withdraw-address[%s] %d vs %d", evmActorName[a], want.Withdraw[a], got.Withdraw[a]))
		}
		if want.Reward[a] != got.Reward[a] {
			d = append(d, fmt.Sprintf("pending-rewards[%s] %s vs %s", evmActorName[a], want.Reward[a], got.Reward[a]))
		}
	}
	if fmt.Sprint(want.Storage) != fmt.Sprint(got.Storage) {
		d = append(d, fmt.Sprintf("storage %v vs %v", want.Storage, got.Storage))
	}
	if fmt.Sprint(want.Alive) != fmt.Sprint(got.Alive) {
		d = append(d, fmt.Sprintf("contract accounts (0 none, 1 without code, 2 with code) %v vs %v", want.Alive, got.Alive))
	}
	if fmt.Sprint(want.Nonce) != fmt.Sprint(got.Nonce) {
		d = append(d, fmt.Sprintf("creations counted by the contracts' nonces %v vs %v", want.Nonce, got.Nonce))
	}
	if fmt.Sprint(want.Grants) != fmt.Sprint(got.Grants) {
		d = append(d, fmt.Sprintf("grants %v vs %v", want.Grants, got.Grants))
	}
	if fmt.Sprint(want.Logs) != fmt.Sprint(got.Logs) {
		d = append(d, fmt.Sprintf("logs of the transaction (emitters in order) %v vs %v", want.Logs, got.Logs))
	}
	return strings.Join(d, ", ")
}

// ---------------------------------------------------------------- reference accounting (property C02)
// evmBalanceOracle computes every account's expected bank balance from the
// property's own reading: value moves with successful calls, a successful
// precompile call has the bank effect of the native message, and a frame that
// failed (per the trace) has no effect.
//
// Self-destruct: the contract's whole balance moves to the beneficiary; what a
// self-destructed contract holds when it is deleted at the end of the transaction
// (the self-beneficiary case, or value that reached it afterwards) is destroyed:
// the sanctioned burn, returned as the second result.
func evmBalanceOracle(e *evmEnv, in evmInput, pre, obs evmObs, root *frameEv) (string, *big.Int) {
	burned := big.NewInt(0)
	dead := map[int]bool{}
	bal := make([]*big.Int, evmNActors)
	for a := range bal {
		bal[a] = bigOf(pre.Bal[a])
	}
	deleg := make([]*big.Int, evmNActors)
	pend := make([]*big.Int, evmNActors)
	wd := make([]int, evmNActors)
	for a := 0; a < evmNActors; a++ {
		deleg[a], pend[a], wd[a] = big.NewInt(0), big.NewInt(0), a // created contracts: no delegation, default withdraw address
		if a < 5 {
			deleg[a] = bigOf(pre.Deleg[a])
			pend[a] = bigOf(pre.Reward[a])
			wd[a] = pre.Withdraw[a]
		}
	}
	move := func(from, to int, v *big.Int) {
		bal[from].Sub(bal[from], v)
		bal[to].Add(bal[to], v)
	}
	payout := func(who int) {
		if deleg[who].Sign() > 0 && pend[who].Sign() > 0 && wd[who] >= 0 {
			move(aDistr, wd[who], pend[who])
		}
		pend[who] = big.NewInt(0)
	}
	applyP := func(p *evmPCall) {
		switch p.Method {
		case "delegate":
			payout(p.Who)
			move(p.Who, aBonded, bigOf(p.Amt))
			deleg[p.Who].Add(deleg[p.Who], bigOf(p.Amt))
		case "undelegate":
			payout(p.Who)
			move(aBonded, aNotBonded, bigOf(p.Amt))
			deleg[p.Who].Sub(deleg[p.Who], bigOf(p.Amt))
		case "withdraw", "claim":
			payout(p.Who)
		case "setwithdraw":
			wd[p.Who] = p.To
		case "ibctransfer":
			move(p.Who, aEscrow, bigOf(p.Amt))
		}
	}
	var walk func(self int, body []evmInstr, ev *frameEv)
	walk = func(self int, body []evmInstr, ev *frameEv) {
		child := 0
		for _, ins := range body {
			if ins.Op == "selfdestruct" {
				// reached only when the frame did not fail before (the walk enters successful frames only)
				if ins.Addr == self {
					// the balance is credited to the contract and then zeroed: destroyed at once
					burned.Add(burned, bal[self])
					bal[self] = big.NewInt(0)
				} else {
					move(self, ins.Addr, new(big.Int).Set(bal[self]))
				}
				dead[self] = true
				continue
			}
			if ins.Op != "call" && ins.Op != "pcall" && ins.Op != "create" {
				continue
			}
			ce := matchChild(e, self, ins, ev, &child)
			if ce == nil || ce.Err != "" {
				continue
			}
			if ins.Op == "create" {
				t := actorOf(ce.To)
				move(self, t, bigOf(ins.Value))
				walk(t, ins.Body, ce)
				continue
			}
			if ins.Op == "pcall" {
				t, _ := e.packP(ins.P)
				move(self, t, bigOf(ins.Value))
				applyP(ins.P)
			} else {
				move(self, ins.Addr, bigOf(ins.Value))
				if ins.Addr >= aC1 && ins.Addr <= aC3 {
					walk(ins.Addr, ins.Body, ce)
				}
			}
		}
	}
	if root != nil && root.Err == "" && obs.OK {
		if in.P != nil {
			t, _ := e.packP(in.P)
			move(aO, t, bigOf(in.Value))
			applyP(in.P)
		} else {
			move(aO, in.To, bigOf(in.Value))
			walk(in.To, in.Body, root)
		}
		for a := range dead {
			burned.Add(burned, bal[a])
			bal[a] = big.NewInt(0)
		}
	}
	d := []string{}
	for a := 0; a < evmNActors; a++ {
		if bal[a].String() != obs.Bal[a] {
			d = append(d, fmt.Sprintf("%s has %s, expected %s (before %s)", evmActorName[a], obs.Bal[a], bal[a], pre.Bal[a]))
		}
	}
	if len(d) > 0 {
		return "bank balances differ from before + received - paid/delegated: " + strings.Join(d, "; "), burned
	}
	return "", burned
}

// ---------------------------------------------------------------- features and finding classes
type pcallSite struct {
	P           *evmPCall
	Caller      int
	Value       string
	FailedAbove bool // the call itself or a frame around it failed while the tx succeeded
	CallerDirty bool // the calling contract wrote storage / received or sent value before the call (statically)
}

func evmSites(in evmInput, root *frameEv) []pcallSite {
	sites := []pcallSite{}
	if in.P != nil {
		sites = append(sites, pcallSite{P: in.P, Caller: aO, Value: in.Value, FailedAbove: root != nil && root.Err != ""})
		return sites
	}
	var walk func(self int, body []evmInstr, ev *frameEv, failed bool, dirty bool)
	walk = func(self int, body []evmInstr, ev *frameEv, failed bool, dirty bool) {
		child := 0
		for _, ins := range body {
			switch ins.Op {
			case "sstore":
				dirty = true
			case "call", "pcall", "create":
				var ce *frameEv
				if ev != nil && child < len(ev.Children) {
					ce = ev.Children[child]
					child++
				}
				f := failed || ce == nil || ce.Err != ""
				if ins.Op == "pcall" {
					sites = append(sites, pcallSite{P: ins.P, Caller: self, Value: ins.Value, FailedAbove: f, CallerDirty: dirty})
				} else if ins.Op == "create" {
					t := createAddrs(self)[0]
					if ce != nil && actorOf(ce.To) >= 0 {
						t = actorOf(ce.To)
					}
					walk(t, ins.Body, ce, f, true)
				} else if ins.Addr >= aC1 && ins.Addr <= aC3 {
					walk(ins.Addr, ins.Body, ce, f, bigOf(ins.Value).Sign() > 0)
				}
				if bigOf(ins.Value).Sign() > 0 || ins.Record {
					dirty = true
				}
			}
		}
	}
	walk(in.To, in.Body, root, root != nil && root.Err != "", bigOf(in.Value).Sign() > 0)
	return sites
}

func evmFeatures(in evmInput, pre evmObs, root *frameEv) []string {
	f := []string{}
	if in.P != nil {
		f = append(f, "top:eoa->precompile")
	} else {
		f = append(f, "top:eoa->contract")
	}
	if bigOf(in.Value).Sign() > 0 {
		f = append(f, "tx-value")
	}
	fs := frameString(root)
	if strings.Contains(fs, "fail") {
		f = append(f, "has-failed-frame")
	}
	var sdw func(self int, body []evmInstr)
	sdw = func(self int, body []evmInstr) {
		for _, ins := range body {
			switch ins.Op {
			case "selfdestruct":
				if ins.Addr == self {
					f = append(f, "selfdestruct:to-self")
				} else {
					f = append(f, "selfdestruct:to-other")
				}
			case "call":
				if ins.Addr >= aC1 && ins.Addr <= aC3 {
					sdw(ins.Addr, ins.Body)
				}
			case "create":
				f = append(f, "create")
				if bigOf(ins.Value).Sign() > 0 {
					f = append(f, "create:with-value")
				}
				if len(ins.Body) > 0 && ins.Body[len(ins.Body)-1].Op == "revert" {
					f = append(f, "create:constructor-reverts")
				}
				sdw(createAddrs(self)[0], ins.Body)
			}
		}
	}
	sdw(in.To, in.Body)
	if root != nil && root.Err != "" {
		f = append(f, "tx-failed")
	}
	for _, s := range evmSites(in, root) {
		rel := "other"
		if s.P.Who == s.Caller {
			rel = "caller"
		} else if s.P.Who == aO {
			rel = "origin"
		}
		t := fmt.Sprintf("pc:%s:named=%s", s.P.Method, rel)
		if s.FailedAbove {
			t += ":in-failed-frame"
		}
		f = append(f, t)
	}
	sort.Strings(f)
	out := f[:0]
	for i, x := range f {
		if i == 0 || x != f[i-1] {
			out = append(out, x)
		}
	}
	return out
}

// evmClass names the known-finding class an input falls in ("" = none).  The
// predicates look only at the shape of the input (and which frames fail), never
// at the amounts by which the property is missed.
func evmClass(in evmInput, pre evmObs, root *frameEv, prop string) string {
	txOK := root != nil && root.Err == ""
	sites := evmSites(in, root)
	any := func(f func(s pcallSite) bool) bool {
		for _, s := range sites {
			if f(s) {
				return true
			}
		}
		return false
	}
	k5 := func(s pcallSite) bool { return bigOf(s.Value).Sign() > 0 && s.Caller != aO && txOK }
	k3 := func(s pcallSite) bool { return s.FailedAbove && txOK && s.Caller != aO }
	pays := func(s pcallSite) bool {
		if s.P.Who >= len(pre.Deleg) { // a freshly created contract has no delegation
			return false
		}
		hasDel := bigOf(pre.Deleg[s.P.Who]).Sign() > 0
		pending := hasDel && bigOf(pre.Reward[s.P.Who]).Sign() > 0
		return pending && (s.P.Method == "delegate" || s.P.Method == "undelegate" || s.P.Method == "withdraw" || s.P.Method == "claim")
	}
	k9 := func(s pcallSite) bool { return s.P.Method == "delegate" && s.P.Who == aO && s.Caller != aO && txOK }
	k9t := func(s pcallSite) bool { return s.P.Method == "ibctransfer" && s.P.Who == aO && s.Caller != aO && txOK }
	switch prop {
	case "C05":
		// only the revert-related class is a C05 finding
		if any(k3) || any(k5) {
			return "evm:precompile-effect-in-reverted-frame"
		}
		return ""
	case "C16":
		if any(pays) {
			return "evm:rewards-paid-out-by-precompile"
		}
		return ""
	}
	switch {
	case any(k5):
		return "evm:value-to-stateful-precompile-tolerated" // K5
	case any(k3):
		return "evm:precompile-effect-in-reverted-frame" // K3
	case any(pays):
		return "evm:rewards-paid-out-by-precompile" // K4 / K6
	case any(k9):
		return "evm:contract-moves-origin-funds" // K9
	case any(k9t):
		return "evm:contract-transfers-origin-funds" // K15
	}
	return ""
}

// ---------------------------------------------------------------- generator
func evmGenP(r *Rng, caller int, s evmSetup) *evmPCall {
	// created contracts (actors beyond C3) have no entry in the setup lists
	balOf := func(a int) *big.Int {
		if a < len(s.Bal) {
			return bigOf(s.Bal[a])
		}
		return big.NewInt(100)
	}
	delOf := func(a int) *big.Int {
		if a < len(s.Deleg) {
			return bigOf(s.Deleg[a])
		}
		return big.NewInt(0)
	}
	who := caller
	switch r.Intn(10) {
	case 0, 1, 2, 3:
		who = aO
	case 4:
		who = r.Intn(5)
	}
	m := []string{"delegate", "delegate", "undelegate", "withdraw", "withdraw", "setwithdraw", "claim", "ibctransfer", "ibctransfer"}[r.Intn(9)]
	if (m == "withdraw" || m == "undelegate") && delOf(who).Sign() == 0 && r.Chance(85) {
		m = "delegate"
	}
	p := &evmPCall{Method: m, Who: who}
	switch m {
	case "delegate", "ibctransfer":
		b := balOf(who)
		switch r.Intn(8) {
		case 0:
			p.Amt = new(big.Int).Add(b, big.NewInt(1)).String() // above the balance
		case 1:
			p.Amt = b.String()
		default:
			p.Amt = new(big.Int).Add(r.Below(new(big.Int).Add(new(big.Int).Quo(b, big.NewInt(4)), big.NewInt(1))), big.NewInt(1)).String()
		}
	case "undelegate":
		d := delOf(who)
		switch r.Intn(8) {
		case 0:
			p.Amt = new(big.Int).Add(d, big.NewInt(1)).String()
		case 1:
			p.Amt = d.String()
		default:
			p.Amt = new(big.Int).Add(r.Below(new(big.Int).Add(new(big.Int).Quo(d, big.NewInt(3)), big.NewInt(1))), big.NewInt(1)).String()
		}
		if p.Amt == "0" {
			p.Amt = "1"
		}
	case "setwithdraw":
		p.To = r.Intn(5)
		if r.Chance(25) {
			p.To = 5 + r.Intn(9) // a precompile or module address: the bank refuses those as withdraw address (the escrow account, 13, is allowed)
		} else if r.Chance(10) {
			p.To = aNew0 + r.Intn(6) // an address without an account
		}
	}
	return p
}

// evmSdPct is the chance (percent) that a generated body ends in SELFDESTRUCT; evmGen raises it for a fifth of the cases
var evmSdPct = 4

// evmCrPct is the chance (percent) per instruction slot of a CREATE; evmGen raises it for a seventh of the cases
var evmCrPct = 2
var evmCrSites = map[int]int{}

// evmRecv is the value the frame being generated has just received ("" = none): a quarter of the value-carrying
// calls forward exactly that amount, so that the frame's balance returns to what it was when it was loaded
var evmRecv = ""

func evmGenBody(r *Rng, self int, depth int, s evmSetup) []evmInstr {
	body := evmGenBody0(r, self, depth, s)
	if len(body) > 0 && body[len(body)-1].Op == "revert" {
		return body
	}
	if r.Chance(evmSdPct) {
		b := []int{aO, aP, aC1, aC2, aC3, self, self}[r.Intn(7)]
		if r.Chance(8) {
			b = 5 + r.Intn(9) // a precompile / module address (the bank refuses to credit those), or the escrow account
		}
		body = append(body, evmInstr{Op: "selfdestruct", Addr: b})
	}
	return body
}

func evmGenBody0(r *Rng, self int, depth int, s evmSetup) []evmInstr {
	n := 1 + r.Intn(4)
	body := []evmInstr{}
	for i := 0; i < n; i++ {
		if self >= aC1 && self <= aC3 && depth < 3 && evmCrSites[self] < 2 && r.Chance(evmCrPct) {
			evmCrSites[self]++ // the model knows two CREATE addresses per creator: at most two creation sites each
			// CREATE: the constructor runs a script as the new contract; it may fail, return no code, self-destruct
			ins := evmInstr{Op: "create", Catch: r.Chance(75), Record: r.Chance(50), NoCode: r.Chance(20)}
			if r.Chance(60) {
				ins.Value = fmt.Sprint(1 + r.Intn(200))
			}
			saved := evmRecv
			evmRecv = ins.Value
			ins.Body = evmGenBody(r, createAddrs(self)[0], depth+1, s)
			evmRecv = saved
			if r.Chance(25) && (len(ins.Body) == 0 || (ins.Body[len(ins.Body)-1].Op != "revert" && ins.Body[len(ins.Body)-1].Op != "selfdestruct")) {
				ins.Body = append(ins.Body, evmInstr{Op: "revert"})
			}
			body = append(body, ins)
			continue
		}
		if self >= aC1 && self <= aC3 && depth < 3 && i == 0 && r.Chance(60) {
			// the EVM looks at an address that has no account, a precompile call makes the bank create and credit it
			// (rewards paid to a withdraw address without an account), then the EVM sends value to it
			who := -1
			for _, a := range []int{aO, self} {
				if a < len(s.Withdraw) && s.Withdraw[a] >= aNew0 && a < len(s.Deleg) && s.Deleg[a] != "0" {
					who = a
				}
			}
			if who >= 0 {
				x := s.Withdraw[who]
				probe := evmInstr{Op: "balance", Addr: x}
				if r.Chance(30) {
					probe = evmInstr{Op: "call", Addr: x, Catch: true}
				}
				m := []string{"withdraw", "withdraw", "claim", "delegate"}[r.Intn(4)]
				pc := &evmPCall{Method: m, Who: who}
				if m == "delegate" {
					pc.Amt = fmt.Sprint(1 + r.Intn(50))
				}
				body = append(body, probe, evmInstr{Op: "pcall", P: pc, Catch: true, Record: r.Chance(40)})
				if r.Chance(80) {
					body = append(body, evmInstr{Op: "call", Addr: x, Catch: r.Chance(70), Value: fmt.Sprint(1 + r.Intn(40))})
				}
				if r.Chance(40) {
					body = append(body, evmInstr{Op: "balance", Addr: x})
				}
				continue
			}
		}
		if self >= aC1 && self <= aC3 && depth < 3 && r.Chance(5) {
			// a slot is changed by this frame and written back to the value it had before the transaction (0) by a
			// nested frame of the same contract that fails: the write-back must be undone with the frame
			k := uint64(r.Intn(3))
			inner := []evmInstr{{Op: "sstore", K: k, V: 0}}
			if r.Chance(40) {
				inner = append(inner, evmInstr{Op: "sstore", K: uint64(r.Intn(3)), V: uint64(r.Intn(4))})
			}
			if r.Chance(30) {
				inner = append(inner, evmInstr{Op: "log"})
			}
			inner = append(inner, evmInstr{Op: "revert"})
			via := evmInstr{Op: "call", Addr: self, Catch: true, Record: r.Chance(50), Body: inner}
			if r.Chance(30) { // re-entered through another contract, which propagates the failure
				o := []int{aC1, aC2, aC3}[r.Intn(3)]
				if o != self {
					via = evmInstr{Op: "call", Addr: o, Catch: true, Record: r.Chance(50), Body: []evmInstr{{Op: "call", Addr: self, Body: inner}}}
				}
			}
			body = append(body, evmInstr{Op: "sstore", K: k, V: uint64(1 + r.Intn(3))}, via)
			if r.Chance(50) {
				body = append(body, evmInstr{Op: "sstore", K: uint64(r.Intn(3)), V: uint64(r.Intn(4))})
			}
			continue
		}
		k := r.Intn(100)
		switch {
		case k < 22:
			body = append(body, evmInstr{Op: "sstore", K: uint64(r.Intn(3)), V: uint64(r.Intn(4))})
		case k < 27:
			body = append(body, evmInstr{Op: "log"})
		case k < 34:
			ba := r.Intn(5)
			if r.Chance(20) {
				ba = []int{aBonded, aNotBonded, aDistr, aEvm, aFeeColl, aEscrow, aNew0, aNew0 + 2}[r.Intn(8)]
			}
			body = append(body, evmInstr{Op: "balance", Addr: ba})
		case k < 62 && depth < 3:
			t := []int{aC1, aC2, aC3, aP, aO}[r.Intn(5)]
			if evmSdPct > 10 && r.Chance(50) {
				t = []int{aC1, aC2, self}[r.Intn(3)] // few contracts, called repeatedly: life after self-destruct
			}
			if evmCrPct > 10 && r.Chance(35) {
				t = aNew0 + r.Intn(6) // a CREATE address: funded before the creation, or called after it
			}
			if t >= evmNActors || t < 0 { // self may be a created contract
				t = aC1
			}
			modAcc := r.Chance(7)
			if modAcc {
				// a module account (or the escrow account) as the target of a zero-value call: it gets loaded into
				// the cache, nothing else; a later precompile call may move coins into or out of it
				t = []int{aBonded, aNotBonded, aDistr, aEvm, aFeeColl, aEscrow}[r.Intn(6)]
			}
			ins := evmInstr{Op: "call", Addr: t, Catch: r.Chance(75), Record: r.Chance(40)}
			if r.Chance(45) && !(modAcc && r.Chance(95)) {
				ins.Value = fmt.Sprint(1 + r.Intn(50))
				if evmRecv != "" && evmRecv != "0" && r.Chance(30) {
					ins.Value = evmRecv
				}
			}
			if t >= aC1 {
				saved := evmRecv
				evmRecv = ins.Value
				if t <= aC3 {
					ins.Body = evmGenBody(r, t, depth+1, s)
				}
				evmRecv = saved
			}
			body = append(body, ins)
		case k < 95:
			ins := evmInstr{Op: "pcall", P: evmGenP(r, self, s), Catch: r.Chance(75), Record: r.Chance(40)}
			if r.Chance(6) {
				ins.Value = fmt.Sprint(1 + r.Intn(9))
			}
			body = append(body, ins)
		default:
			body = append(body, evmInstr{Op: "revert"})
			return body
		}
	}
	return body
}

// evmGenBlockPos: the transaction is not the first of its block in 40% of the cases
func evmGenBlockPos(r *Rng, in *evmInput) {
	if r.Chance(40) {
		in.PriorLogs = 1 + r.Intn(7)
		in.TxIndex = 1 + r.Intn(3)
	}
}

func evmGen(r *Rng) evmInput {
	s := evmSetup{Bal: make([]string, 5), Deleg: make([]string, 5), Withdraw: make([]int, 5)}
	for a := 0; a < 5; a++ {
		s.Bal[a] = fmt.Sprint(1000 + r.Intn(9000))
		if a == aP && r.Chance(50) {
			s.Bal[a] = "0"
		}
		s.Deleg[a] = "0"
		if r.Chance(55) {
			s.Deleg[a] = fmt.Sprint(1000 * (1 + r.Intn(5)))
		}
		s.Withdraw[a] = -1
		if r.Chance(15) {
			s.Withdraw[a] = r.Intn(5)
		} else if r.Chance(6) {
			// rewards go to an address that has no account yet (one of the CREATE addresses): the bank creates it when
			// the precompile pays out, behind the back of a StateDB that may have looked at the address before
			s.Withdraw[a] = aNew0 + r.Intn(6)
		}
	}
	s.WdOff = r.Chance(8)
	s.Reward = "0"
	if r.Chance(65) {
		// the validator holds 10^18 self-bonded tokens: scale so that a delegation d earns about d*k/1000
		s.Reward = new(big.Int).Mul(big.NewInt(int64(10+r.Intn(990))), new(big.Int).Exp(big.NewInt(10), big.NewInt(15), nil)).String()
	}
	for g := aC1; g <= aC3; g++ {
		for _, kind := range []string{"delegate", "undelegate", "transfer"} {
			if r.Chance(75) {
				gr := evmGrant{Grantee: g, Kind: kind}
				if r.Chance(40) {
					gr.Limit = fmt.Sprint(1 + r.Intn(3000))
				}
				s.Grants = append(s.Grants, gr)
			}
		}
	}
	in := evmInput{Setup: s, Value: "0"}
	if r.Chance(30) {
		in.Value = fmt.Sprint(1 + r.Intn(100))
	}
	if r.Chance(22) {
		in.P = evmGenP(r, aO, s)
		if in.P.Who != aO && r.Chance(70) {
			in.P.Who = aO
		}
		in.To, _ = evmBaseEnv().packP(in.P)
		if r.Chance(90) {
			in.Value = "0"
		}
	} else {
		in.To = aC1 + r.Intn(3)
		evmSdPct, evmCrPct = 4, 2
		if r.Chance(20) {
			evmSdPct = 35
		} else if r.Chance(18) {
			evmCrPct = 22
		}
		evmRecv = in.Value
		evmCrSites = map[int]int{}
		in.Body = evmGenBody(r, in.To, 1, s)
		evmRecv = ""
		evmSdPct, evmCrPct = 4, 2
	}
	evmGenBlockPos(r, &in)
	return in
}

func evmDriver(cfg Config, out *Out) error {
	prop := cfg.Args["prop"]
	if prop == "" {
		prop = "all"
	}
	if cfg.Replay != "" {
		i := 0
		return readReplayInputs(cfg.Replay, func(raw json.RawMessage) error {
			var in evmInput
			if err := json.Unmarshal(raw, &in); err != nil {
				return err
			}
			out.Emit(evmRunCase(fmt.Sprintf("replay-%d", i), in, prop))
			i++
			return nil
		})
	}
	r := NewRng(cfg.Seed)
	for i := 0; i < cfg.N; i++ {
		out.Emit(evmRunCase(fmt.Sprintf("s%d-%d", cfg.Seed, i), evmGen(r.Fork()), prop))
	}
	return nil
}
