package main

// Driver "stakestates" (property C16): owner call == native message over UNUSUAL
// staking / distribution states.
//
// A case is (signer, script, call).  The script is an explicit list of state-building
// operations (kept in the input: replay and shrinking work on it) that is run on a fork
// of a base environment with THREE validators (the genesis validator, the second
// validator of the C04 environment, a third one with a 10 % commission and a minimum
// self-delegation), four accounts with known keys (O, P and the two operators), a
// plain account W and the genesis delegator G, and an open IBC channel.  The script
// empties, jails, slashes validators, lets blocks end and time pass, fills unbonding
// and redelegation entry lists, allocates rewards, sets withdraw addresses, ...
//
// The call names one precompile method and its arguments; the named account is the
// signer.  It is executed on two forks of the SAME state:
//   (a) an Ethereum transaction signer -> precompile (value 0, gas price 0) through
//       the real EvmKeeper.ApplyTransaction;
//   (b) the corresponding native message(s) through the real message router.
// The property: same success / failure, and the same Cosmos state afterwards.  The
// state comparison is a FULL key/value diff of every persistent store of the
// application except the EVM module's own store (nonce, code, logs, tx index), with
// the signer's auth-account sequence masked; gas price is zero, so there is no fee.
//
// Known deviation (K6, class evm:rewards-paid-out-by-precompile, DESIGN.md section 6):
// the final StateDB commit rewrites the bank balance of every account the EVM dirtied.
// A direct owner call dirties the signer only through the precompile's balance mirror
// (delegate: SubBalance(amount); withdrawDelegatorRewards: AddBalance(reward)), so the
// class is:  delegate while the SDK hook pays the signer's pending rewards of that
// delegation out to the signer itself (mirror forgets them), or withdrawDelegatorRewards
// while the rewards are paid out to another withdraw address (mirror credits the signer
// anyway).  Both are decided from the input state, never from the observed difference.
//
// For delegate / undelegate the case also carries a Coq term: the numbers of the
// pre-state the share arithmetic depends on, and what both routes did, to be compared
// with coq/Staking/StakeModel.v (list "stake").

import (
	"bytes"
	"crypto/ecdsa"
	"encoding/hex"
	"encoding/json"
	"fmt"
	"math/big"
	"sort"
	"strings"
	"time"

	sdkmath "cosmossdk.io/math"
	"github.com/cosmos/cosmos-sdk/crypto/keys/ed25519"
	"github.com/cosmos/cosmos-sdk/store/rootmulti"
	storetypes "github.com/cosmos/cosmos-sdk/store/types"
	sdk "github.com/cosmos/cosmos-sdk/types"
	authtypes "github.com/cosmos/cosmos-sdk/x/auth/types"
	distrtypes "github.com/cosmos/cosmos-sdk/x/distribution/types"
	stakingtypes "github.com/cosmos/cosmos-sdk/x/staking/types"
	transfertypes "github.com/cosmos/ibc-go/v7/modules/apps/transfer/types"
	clienttypes "github.com/cosmos/ibc-go/v7/modules/core/02-client/types"
	"github.com/ethereum/go-ethereum/accounts/abi"
	"github.com/ethereum/go-ethereum/common"
	ethtypes "github.com/ethereum/go-ethereum/core/types"
	"github.com/ethereum/go-ethereum/crypto"

	"github.com/haqq-network/haqq/testutil"
	"github.com/haqq-network/haqq/utils"
	"github.com/haqq-network/haqq/x/evm/statedb"
	evmtypes "github.com/haqq-network/haqq/x/evm/types"
)

func init() { register("stakestates", ssDriver) }

// ---------------------------------------------------------------- actors
// 0 O  1 P  2 Op1 (operator of validator 1)  3 Op2 (operator of validator 2)   -- keys known: may sign
// 4 W (a plain account, receives only)  5 G (the genesis delegator of validator 0; script only)
// withdraw targets additionally: 6 bonded pool (blocked module account)  7 distribution module account
const (
	ssO = iota
	ssP
	ssOp1
	ssOp2
	ssW
	ssG
	ssNAct
	ssBondedPool = 6
	ssDistrMod   = 7
	ssNVal       = 3
	ssNoVal      = 3 // validator index of an address without a validator record
)

var ssActorName = []string{"O", "P", "Op1", "Op2", "W", "G", "bonded-pool", "distribution-module"}

const ssOp1KeyHex = "a1b2c3d4e5f60718293a4b5c6d7e8f90a1b2c3d4e5f60718293a4b5c6d7e8f90" // as in paBaseEnv
const ssOp2KeyHex = "5d6e7f8091a2b3c4d5e6f708192a3b4c5d6e7f8091a2b3c4d5e6f708192a3b4c"

// ---------------------------------------------------------------- input
type ssOp struct {
	Op   string `json:"op"`             // fund delegate undelegate redelegate empty jail unjail slash endblock advance reward setwithdraw wdoff mincomm
	Who  int    `json:"who,omitempty"`  // actor
	Val  int    `json:"val,omitempty"`  // validator
	Dst  int    `json:"dst,omitempty"`  // redelegate destination
	Amt  string `json:"amt,omitempty"`  // amount; undelegate: "all" = the whole delegation (by shares)
	To   int    `json:"to,omitempty"`   // setwithdraw target
	Bp   int    `json:"bp,omitempty"`   // slash fraction / mincomm rate in basis points
	Back int64  `json:"back,omitempty"` // slash: infraction height = current height - back
	Dt   int64  `json:"dt,omitempty"`   // advance: seconds
	Dh   int64  `json:"dh,omitempty"`   // advance: heights
}

type ssCall struct {
	M     string `json:"m"`               // delegate undelegate redelegate cancel withdraw setwithdraw claim commission transfer createval
	Val   int    `json:"val"`             // validator (source); 3 = an address without a validator record
	Dst   int    `json:"dst,omitempty"`   // redelegate destination
	Amt   string `json:"amt,omitempty"`   // number expression (stakecreate.go): decimal | A^B | all bal entry vtok max, joined by + and -: all+1, bal+2^64, 2^255 (resolved on the state the script built)
	VS    string `json:"vs,omitempty"`    // the validator argument as a string: "" its address | malformed | foreign | empty | acc | upper
	DS    string `json:"ds,omitempty"`    // ... the redelegation destination
	ToS   string `json:"to_s,omitempty"`  // setwithdraw: the withdrawer as a string: "" | malformed | foreign | empty | valoper | upper
	HHi   bool   `json:"height_hi,omitempty"` // cancel: the precompile is given creation height + 2^64 (no native message can carry it: recorded, nothing demanded)
	Rcv   string `json:"rcv,omitempty"`   // transfer: receiver "" (an address) | empty | long
	Memo  string `json:"memo,omitempty"`  // transfer: memo "" | long
	Tmo   string `json:"tmo,omitempty"`   // transfer: timeout "" (height 1-1000, no timestamp) | zero (neither) | passed (height 1-1) | max (2^64-1 everywhere) | stamp (timestamp only, 2^63)
	CV    *ssCreate `json:"cv,omitempty"` // createval: the arguments
	Entry int    `json:"entry,omitempty"` // cancel: index of the signer's unbonding entry whose creation height is passed; -1 = a height without an entry
	To    int    `json:"to,omitempty"`    // setwithdraw target
	Max   uint32 `json:"max,omitempty"`   // claimRewards: maxRetrieve
	Chan  int    `json:"chan,omitempty"`  // transfer: 0 = channel-0, else a channel that does not exist
}

type ssInput struct {
	Signer int    `json:"signer"` // 0..3: the named account = transaction signer = sender of the native message
	Script []ssOp `json:"script"`
	Call   ssCall `json:"call"`
}

// ---------------------------------------------------------------- environment
type ssEnv struct {
	*paEnv
	acc  [ssNAct]sdk.AccAddress
	keys [4]*ecdsa.PrivateKey
	cons []sdk.ConsAddress
	noV  sdk.ValAddress

	lastDiff []ssDiffEntry // the complete store diff of the last case (ssRestCase)
}

var ssBase *ssEnv

const ssFunds = "50000000000000000000" // 50e18 for every actor with a key

func ssBaseEnv() *ssEnv {
	if ssBase != nil {
		return ssBase
	}
	pb := paBaseEnv().fork() // a private copy-on-write layer on top of the C04 base (two validators, IBC channel)
	if !pb.ibcOK {
		panic("stakestates: IBC channel setup failed")
	}
	e := &ssEnv{paEnv: pb}
	k1, _ := crypto.HexToECDSA(ssOp1KeyHex)
	k2, _ := crypto.HexToECDSA(ssOp2KeyHex)
	e.keys = [4]*ecdsa.PrivateKey{evmKeyO, evmKeyP, k1, k2}
	for i, k := range e.keys {
		e.acc[i] = sdk.AccAddress(crypto.PubkeyToAddress(k.PublicKey).Bytes())
	}
	if !sdk.ValAddress(e.acc[ssOp1]).Equals(pb.vals[1]) {
		panic("stakestates: the operator key of the second validator of paBaseEnv changed")
	}
	w := make([]byte, 20)
	w[0], w[19] = 0xD0, 0x07
	e.acc[ssW] = sdk.AccAddress(w)
	dels := e.App.StakingKeeper.GetValidatorDelegations(e.Ctx, pb.vals[0])
	if len(dels) != 1 {
		panic("stakestates: the genesis validator should have one delegator")
	}
	e.acc[ssG] = dels[0].GetDelegatorAddr()
	nv := make([]byte, 20)
	nv[0], nv[19] = 0xEE, 0x01
	e.noV = sdk.ValAddress(nv)

	funds, _ := sdkmath.NewIntFromString(ssFunds)
	for _, a := range []int{ssO, ssP} {
		acct := statedb.Account{Nonce: 0, Balance: funds.BigInt(), CodeHash: evmtypes.EmptyCodeHash}
		if err := e.App.EvmKeeper.SetAccount(e.Ctx, common.BytesToAddress(e.acc[a]), acct); err != nil {
			panic(err)
		}
	}
	for _, a := range []int{ssOp1, ssOp2} {
		if err := testutil.FundAccount(e.Ctx, e.App.BankKeeper, e.acc[a], sdk.NewCoins(sdk.NewCoin(utils.BaseDenom, funds))); err != nil {
			panic(err)
		}
	}
	// on a live chain the precompiles have been called before: their (empty) auth accounts exist.  (The first call
	// ever creates them - go-ethereum touches the callee - which shifts every later account number.)
	for _, a := range []common.Address{evmAddr[aPS], evmAddr[aPD], paICS} {
		if err := e.App.EvmKeeper.SetAccount(e.Ctx, a, statedb.Account{Nonce: 0, Balance: big.NewInt(0), CodeHash: evmtypes.EmptyCodeHash}); err != nil {
			panic(err)
		}
	}
	// third validator: 10 % commission, minimum self-delegation 5e17, self-stake 1e18
	stake, _ := sdkmath.NewIntFromString(paValStake)
	minSelf, _ := sdkmath.NewIntFromString("500000000000000000")
	seed := make([]byte, 32)
	seed[0] = 0x43
	pk := ed25519.GenPrivKeyFromSecret(seed).PubKey()
	cv, err := stakingtypes.NewMsgCreateValidator(sdk.ValAddress(e.acc[ssOp2]), pk, sdk.NewCoin(utils.BaseDenom, stake),
		stakingtypes.NewDescription("v3", "", "", "", ""),
		stakingtypes.NewCommissionRates(sdk.NewDecWithPrec(10, 2), sdk.NewDecWithPrec(20, 2), sdk.NewDecWithPrec(1, 2)), minSelf)
	if err != nil {
		panic(err)
	}
	if _, err := e.runMsg(cv); err != nil {
		panic(fmt.Errorf("stakestates: create third validator: %w", err))
	}
	if _, err := e.App.StakingKeeper.ApplyAndReturnValidatorSetUpdates(e.Ctx); err != nil {
		panic(err)
	}
	v3, found := e.App.StakingKeeper.GetValidator(e.Ctx, sdk.ValAddress(e.acc[ssOp2]))
	if !found || !v3.IsBonded() {
		panic("stakestates: third validator not bonded")
	}
	e.vals = append(append([]sdk.ValAddress{}, pb.vals...), v3.GetOperator())
	e.valStr = append(append([]string{}, pb.valStr...), v3.OperatorAddress)
	for _, va := range e.vals {
		v, _ := e.App.StakingKeeper.GetValidator(e.Ctx, va)
		c, err := v.GetConsAddr()
		if err != nil {
			panic(err)
		}
		e.cons = append(e.cons, c)
	}
	// the next block: the setup's delegations are in the past
	e.Ctx = e.Ctx.WithBlockHeight(e.Ctx.BlockHeight() + 1).WithBlockTime(e.Ctx.BlockTime().Add(5 * time.Second))
	e.t0 = e.Ctx.BlockTime()
	e.h0 = e.Ctx.BlockHeight()
	ssBase = e
	return e
}

func (b *ssEnv) fork() *ssEnv {
	c := *b
	c.paEnv = b.paEnv.fork()
	return &c
}

func (e *ssEnv) target(to int) sdk.AccAddress {
	switch {
	case to >= 0 && to < ssNAct:
		return e.acc[to]
	case to == ssBondedPool:
		return authtypes.NewModuleAddress(stakingtypes.BondedPoolName)
	default:
		return authtypes.NewModuleAddress(distrtypes.ModuleName)
	}
}

func (e *ssEnv) valAddr(v int) sdk.ValAddress {
	if v >= 0 && v < ssNVal {
		return e.vals[v]
	}
	return e.noV
}

func ssCoin(x *big.Int) sdk.Coin { return sdk.NewCoin(utils.BaseDenom, sdkmath.NewIntFromBigInt(x)) }

// ---------------------------------------------------------------- script
// every operation runs on its own cache layer: an operation that fails (or panics)
// leaves no trace, the script goes on
func (e *ssEnv) apply(op ssOp) (err error) {
	outer := e.Ctx
	cctx, write := outer.CacheContext()
	e.Ctx = cctx
	defer func() {
		if r := recover(); r != nil {
			err = fmt.Errorf("panic: %v", r)
		}
		hdr := e.Ctx.BlockHeader()
		if err == nil {
			write()
		}
		e.Ctx = outer.WithBlockHeader(hdr) // advance / endblock move the header
		if err != nil {
			e.Ctx = outer
		}
	}()
	sk, dk := e.App.StakingKeeper, e.App.DistrKeeper
	amt := func() *big.Int { return bigOf(op.Amt) }
	if op.Who < 0 || op.Who >= ssNAct || op.Val < 0 || op.Val >= ssNVal || op.Dst < 0 || op.Dst >= ssNVal {
		return fmt.Errorf("bad index")
	}
	switch op.Op {
	case "fund":
		return testutil.FundAccount(e.Ctx, e.App.BankKeeper, e.acc[op.Who], sdk.NewCoins(ssCoin(amt())))
	case "delegate":
		_, err = e.runMsg(stakingtypes.NewMsgDelegate(e.acc[op.Who], e.vals[op.Val], ssCoin(amt())))
		return err
	case "undelegate":
		if op.Amt == "all" {
			d, found := sk.GetDelegation(e.Ctx, e.acc[op.Who], e.vals[op.Val])
			if !found {
				return fmt.Errorf("no delegation")
			}
			_, err = sk.Undelegate(e.Ctx, e.acc[op.Who], e.vals[op.Val], d.Shares)
			return err
		}
		_, err = e.runMsg(stakingtypes.NewMsgUndelegate(e.acc[op.Who], e.vals[op.Val], ssCoin(amt())))
		return err
	case "redelegate":
		if op.Amt == "all" {
			d, found := sk.GetDelegation(e.Ctx, e.acc[op.Who], e.vals[op.Val])
			if !found {
				return fmt.Errorf("no delegation")
			}
			_, err = sk.BeginRedelegation(e.Ctx, e.acc[op.Who], e.vals[op.Val], e.vals[op.Dst], d.Shares)
			return err
		}
		_, err = e.runMsg(stakingtypes.NewMsgBeginRedelegate(e.acc[op.Who], e.vals[op.Val], e.vals[op.Dst], ssCoin(amt())))
		return err
	case "empty":
		// every delegator, the operator included, leaves
		for _, d := range sk.GetValidatorDelegations(e.Ctx, e.vals[op.Val]) {
			if _, err := sk.Undelegate(e.Ctx, d.GetDelegatorAddr(), e.vals[op.Val], d.Shares); err != nil {
				return err
			}
		}
		return nil
	case "jail":
		sk.Jail(e.Ctx, e.cons[op.Val])
		return nil
	case "unjail":
		sk.Unjail(e.Ctx, e.cons[op.Val])
		return nil
	case "slash":
		v, found := sk.GetValidator(e.Ctx, e.vals[op.Val])
		if !found {
			return fmt.Errorf("no validator")
		}
		h := e.Ctx.BlockHeight() - op.Back
		if h < 0 {
			h = 0
		}
		sk.Slash(e.Ctx, e.cons[op.Val], h, v.PotentialConsensusPower(sk.PowerReduction(e.Ctx)), sdk.NewDecWithPrec(int64(op.Bp), 4))
		return nil
	case "endblock":
		sk.BlockValidatorUpdates(e.Ctx)
		e.Ctx = e.Ctx.WithBlockHeight(e.Ctx.BlockHeight() + 1).WithBlockTime(e.Ctx.BlockTime().Add(5 * time.Second))
		return nil
	case "advance":
		if op.Dt < 0 || op.Dh < 0 {
			return fmt.Errorf("backwards")
		}
		e.Ctx = e.Ctx.WithBlockHeight(e.Ctx.BlockHeight() + op.Dh).WithBlockTime(e.Ctx.BlockTime().Add(time.Duration(op.Dt) * time.Second))
		return nil
	case "reward":
		val := sk.Validator(e.Ctx, e.vals[op.Val])
		if val == nil {
			return fmt.Errorf("no validator")
		}
		coins := sdk.NewCoins(ssCoin(amt()))
		if err := testutil.FundModuleAccount(e.Ctx, e.App.BankKeeper, distrtypes.ModuleName, coins); err != nil {
			return err
		}
		dk.AllocateTokensToValidator(e.Ctx, val, sdk.NewDecCoinsFromCoins(coins...))
		return nil
	case "setwithdraw":
		return dk.SetWithdrawAddr(e.Ctx, e.acc[op.Who], e.target(op.To))
	case "wdoff":
		p := dk.GetParams(e.Ctx)
		p.WithdrawAddrEnabled = false
		return dk.SetParams(e.Ctx, p)
	case "mincomm":
		// governance sets the staking parameter MinCommissionRate (basis points)
		if op.Bp < 0 || op.Bp > 10000 {
			return fmt.Errorf("bad rate")
		}
		p := sk.GetParams(e.Ctx)
		p.MinCommissionRate = sdk.NewDecWithPrec(int64(op.Bp), 4)
		return sk.SetParams(e.Ctx, p)
	}
	return fmt.Errorf("unknown op %q", op.Op)
}

// ---------------------------------------------------------------- snapshot of what the call depends on
type ssValSnap struct {
	Found    bool   `json:"found"`
	Tokens   string `json:"tokens"`
	Shares   string `json:"shares"` // LegacyDec as its integer (value * 10^18)
	Status   int    `json:"status"` // 1 unbonded 2 unbonding 3 bonded
	Jailed   bool   `json:"jailed"`
	MinSelf  string `json:"min_self"`
	Comm     string `json:"commission"`                // accumulated commission, truncated
	CommDust bool   `json:"commission_dust,omitempty"` // accumulated commission is not zero but below one unit
}

type ssEntry struct {
	H       int64  `json:"h"` // creation height relative to the base height
	Balance string `json:"balance"`
	Mature  bool   `json:"mature"`
}

type ssSnap struct {
	Height   int64       `json:"height"` // relative to the base height
	Time     int64       `json:"time"`   // seconds after the base time
	Vals     []ssValSnap `json:"vals"`
	Bal      string      `json:"bal"`      // the signer's balance of the bond denomination
	Shares   []string    `json:"shares"`   // the signer's delegation shares per validator ("" = no delegation)
	Tokens   []string    `json:"tokens"`   // ... their token worth, truncated
	Entries  [][]ssEntry `json:"entries"`  // the signer's unbonding entries per validator
	Reds     [][]int     `json:"reds"`     // the signer's redelegation entries [src][dst]
	Pending  []string    `json:"pending"`  // the signer's pending rewards per validator, truncated; -1 = distribution record missing
	Withdraw int         `json:"withdraw"` // the signer's withdraw address: actor index, -2 = other
	WdOn     bool        `json:"wd_enabled"`
	MaxEnt   uint32      `json:"max_entries"`
	Supply   string      `json:"supply"`
}

func (e *ssEnv) pending(del sdk.AccAddress, v int) (out *big.Int) {
	defer func() {
		if r := recover(); r != nil {
			out = big.NewInt(-1)
		}
	}()
	cctx, _ := e.Ctx.CacheContext()
	val := e.App.StakingKeeper.Validator(cctx, e.vals[v])
	d := e.App.StakingKeeper.Delegation(cctx, del, e.vals[v])
	if d == nil || val == nil {
		return big.NewInt(0)
	}
	end := e.App.DistrKeeper.IncrementValidatorPeriod(cctx, val)
	r := e.App.DistrKeeper.CalculateDelegationRewards(cctx, val, d, end)
	t, _ := r.TruncateDecimal()
	return t.AmountOf(utils.BaseDenom).BigInt()
}

func (e *ssEnv) actorOfAddr(a sdk.AccAddress) int {
	for i := 0; i < ssNAct; i++ {
		if e.acc[i].Equals(a) {
			return i
		}
	}
	return -2
}

func (e *ssEnv) snap(signer int) ssSnap {
	sk := e.App.StakingKeeper
	s := ssSnap{Height: e.Ctx.BlockHeight() - e.h0, Time: int64(e.Ctx.BlockTime().Sub(e.t0) / time.Second),
		WdOn: e.App.DistrKeeper.GetWithdrawAddrEnabled(e.Ctx), MaxEnt: sk.MaxEntries(e.Ctx),
		Supply: e.App.BankKeeper.GetSupply(e.Ctx, utils.BaseDenom).Amount.String()}
	who := e.acc[signer]
	s.Bal = e.App.BankKeeper.GetBalance(e.Ctx, who, utils.BaseDenom).Amount.String()
	s.Withdraw = e.actorOfAddr(e.App.DistrKeeper.GetDelegatorWithdrawAddr(e.Ctx, who))
	for v := 0; v < ssNVal; v++ {
		vs := ssValSnap{Tokens: "0", Shares: "0", MinSelf: "0", Comm: "0"}
		val, found := sk.GetValidator(e.Ctx, e.vals[v])
		if found {
			vs = ssValSnap{Found: true, Tokens: val.Tokens.String(), Shares: val.DelegatorShares.BigInt().String(), Status: int(val.Status),
				Jailed: val.Jailed, MinSelf: val.MinSelfDelegation.String()}
			c := e.App.DistrKeeper.GetValidatorAccumulatedCommission(e.Ctx, e.vals[v]).Commission
			t, _ := c.TruncateDecimal()
			vs.Comm = t.AmountOf(utils.BaseDenom).String()
			vs.CommDust = !c.IsZero() && t.IsZero()
		}
		s.Vals = append(s.Vals, vs)
		sh, tk := "", "0"
		if d, ok := sk.GetDelegation(e.Ctx, who, e.vals[v]); ok {
			sh = d.Shares.BigInt().String()
			if found && val.DelegatorShares.IsPositive() {
				tk = val.TokensFromShares(d.Shares).TruncateInt().String()
			}
		}
		s.Shares = append(s.Shares, sh)
		s.Tokens = append(s.Tokens, tk)
		es := []ssEntry{}
		if ubd, ok := sk.GetUnbondingDelegation(e.Ctx, who, e.vals[v]); ok {
			for _, en := range ubd.Entries {
				es = append(es, ssEntry{H: en.CreationHeight - e.h0, Balance: en.Balance.String(), Mature: en.IsMature(e.Ctx.BlockTime())})
			}
		}
		s.Entries = append(s.Entries, es)
		row := []int{}
		for d := 0; d < ssNVal; d++ {
			n := 0
			if red, ok := sk.GetRedelegation(e.Ctx, who, e.vals[v], e.vals[d]); ok {
				n = len(red.Entries)
			}
			row = append(row, n)
		}
		s.Reds = append(s.Reds, row)
		s.Pending = append(s.Pending, e.pending(who, v).String())
	}
	return s
}

// ---------------------------------------------------------------- the call: resolved arguments, both encodings
type ssResolved struct {
	Amt    string `json:"amt"`
	Height int64  `json:"height"` // cancel: absolute creation height passed
	Claim  []int  `json:"claim,omitempty"`
	Val    string `json:"val_arg"`           // the validator argument as passed on both routes
	Dst    string `json:"dst_arg,omitempty"` // the destination argument
	To     string `json:"to_arg,omitempty"`  // the withdrawer argument
	CV     *ssCreateRes `json:"cv,omitempty"`
}

func (e *ssEnv) resolve(in ssInput, pre ssSnap) (ssResolved, error) {
	c := in.Call
	r := ssResolved{}
	v := c.Val
	get := func(s string) *big.Int {
		if s == "" {
			return big.NewInt(0)
		}
		return bigOf(s)
	}
	var entryBal *big.Int = big.NewInt(0)
	r.Height = e.Ctx.BlockHeight() + 3
	if v >= 0 && v < ssNVal && c.Entry >= 0 && c.Entry < len(pre.Entries[v]) {
		entryBal = get(pre.Entries[v][c.Entry].Balance)
		r.Height = pre.Entries[v][c.Entry].H + e.h0
	}
	tok, vtok := big.NewInt(0), big.NewInt(0)
	if v >= 0 && v < ssNVal {
		tok, vtok = get(pre.Tokens[v]), get(pre.Vals[v].Tokens)
	}
	a, err := ssU256(c.Amt, map[string]*big.Int{"all": tok, "bal": get(pre.Bal), "entry": entryBal, "vtok": vtok, "max": abi.MaxUint256})
	if err != nil {
		return r, err
	}
	if r.Val, err = ssAddrString(e.valAddr(c.Val), c.VS); err != nil {
		return r, err
	}
	if r.Dst, err = ssAddrString(e.valAddr(c.Dst), c.DS); err != nil {
		return r, err
	}
	if r.To, err = ssAccString(e.target(c.To), c.ToS); err != nil {
		return r, err
	}
	if c.M == "commission" {
		// the named account is the validator whose operator is the signer
		if r.Val, err = ssAddrString(sdk.ValAddress(e.acc[in.Signer]), c.VS); err != nil {
			return r, err
		}
	}
	if c.M == "createval" {
		if r.CV, err = e.resolveCreate(in, pre); err != nil {
			return r, err
		}
	}
	r.Amt = a.String()
	return r, nil
}

func ssReceiver(kind string) string {
	switch kind {
	case "empty":
		return ""
	case "long":
		return "cosmos1" + strings.Repeat("q", 3000)
	}
	return "cosmos1receiver0"
}

func ssTimeoutHeight(kind string) clienttypes.Height {
	switch kind {
	case "zero", "stamp":
		return clienttypes.NewHeight(0, 0)
	case "passed":
		return clienttypes.NewHeight(1, 1)
	case "max":
		return clienttypes.NewHeight(^uint64(0), ^uint64(0))
	}
	return clienttypes.NewHeight(1, 1000)
}

func ssTimeoutStamp(kind string) uint64 {
	switch kind {
	case "max":
		return ^uint64(0)
	case "stamp":
		return 1 << 63
	}
	return 0
}

func ssMemo(kind string) string {
	if kind == "long" {
		return strings.Repeat("m", 40000)
	}
	return ""
}

func ssChan(i int) string {
	if i == 0 {
		return "channel-0"
	}
	return "channel-7"
}

func (e *ssEnv) pack(in ssInput, r ssResolved) (to common.Address, data []byte, err error) {
	defer func() {
		if x := recover(); x != nil {
			err = fmt.Errorf("pack: %v", x)
		}
	}()
	c := in.Call
	who := common.BytesToAddress(e.acc[in.Signer])
	amt := bigOf(r.Amt)
	vs := r.Val
	switch c.M {
	case "delegate", "undelegate":
		data, err = e.sABI.Pack(c.M, who, vs, amt)
		to = evmAddr[aPS]
	case "redelegate":
		data, err = e.sABI.Pack("redelegate", who, vs, r.Dst, amt)
		to = evmAddr[aPS]
	case "cancel":
		h := big.NewInt(r.Height)
		if c.HHi {
			h = new(big.Int).Add(h, new(big.Int).Lsh(big.NewInt(1), 64))
		}
		data, err = e.sABI.Pack("cancelUnbondingDelegation", who, vs, amt, h)
		to = evmAddr[aPS]
	case "createval":
		data, err = e.packCreate(in, r.CV)
		to = evmAddr[aPS]
	case "withdraw":
		data, err = e.dABI.Pack("withdrawDelegatorRewards", who, vs)
		to = evmAddr[aPD]
	case "setwithdraw":
		data, err = e.dABI.Pack("setWithdrawAddress", who, r.To)
		to = evmAddr[aPD]
	case "claim":
		data, err = e.dABI.Pack("claimRewards", who, c.Max)
		to = evmAddr[aPD]
	case "commission":
		// the named account is the validator whose operator is the signer
		data, err = e.dABI.Pack("withdrawValidatorCommission", vs)
		to = evmAddr[aPD]
	case "transfer":
		data, err = e.iABI.Pack("transfer", "transfer", ssChan(c.Chan), utils.BaseDenom, amt, who, ssReceiver(c.Rcv), ssTimeoutHeight(c.Tmo), ssTimeoutStamp(c.Tmo), ssMemo(c.Memo))
		to = paICS
	default:
		err = fmt.Errorf("unknown method %q", c.M)
	}
	return
}

// natives: the message(s) a user would submit instead (one transaction, all or nothing)
func (e *ssEnv) natives(in ssInput, r ssResolved) ([]sdk.Msg, []int, error) {
	c := in.Call
	who := e.acc[in.Signer]
	coin := ssCoin(bigOf(r.Amt))
	// the messages carry the same strings the precompile is given (the constructors of the SDK do nothing but String())
	ws, va := who.String(), r.Val
	switch c.M {
	case "delegate":
		return []sdk.Msg{&stakingtypes.MsgDelegate{DelegatorAddress: ws, ValidatorAddress: va, Amount: coin}}, nil, nil
	case "undelegate":
		return []sdk.Msg{&stakingtypes.MsgUndelegate{DelegatorAddress: ws, ValidatorAddress: va, Amount: coin}}, nil, nil
	case "redelegate":
		return []sdk.Msg{&stakingtypes.MsgBeginRedelegate{DelegatorAddress: ws, ValidatorSrcAddress: va, ValidatorDstAddress: r.Dst, Amount: coin}}, nil, nil
	case "cancel":
		return []sdk.Msg{&stakingtypes.MsgCancelUnbondingDelegation{DelegatorAddress: ws, ValidatorAddress: va, Amount: coin, CreationHeight: r.Height}}, nil, nil
	case "withdraw":
		return []sdk.Msg{&distrtypes.MsgWithdrawDelegatorReward{DelegatorAddress: ws, ValidatorAddress: va}}, nil, nil
	case "setwithdraw":
		return []sdk.Msg{&distrtypes.MsgSetWithdrawAddress{DelegatorAddress: ws, WithdrawAddress: r.To}}, nil, nil
	case "createval":
		m, err := e.nativeCreate(in, r.CV)
		if err != nil {
			return nil, nil, err
		}
		return []sdk.Msg{m}, nil, nil
	case "claim":
		// claimRewards(delegator, n): withdraw from the first n validators the delegator is bonded to
		msgs, idx := []sdk.Msg{}, []int{}
		for _, v := range e.App.StakingKeeper.GetDelegatorValidators(e.Ctx, who, c.Max) {
			msgs = append(msgs, distrtypes.NewMsgWithdrawDelegatorReward(who, v.GetOperator()))
			idx = append(idx, e.valIdx(v.OperatorAddress))
		}
		return msgs, idx, nil
	case "commission":
		return []sdk.Msg{&distrtypes.MsgWithdrawValidatorCommission{ValidatorAddress: va}}, nil, nil
	case "transfer":
		return []sdk.Msg{transfertypes.NewMsgTransfer("transfer", ssChan(c.Chan), coin, who.String(), ssReceiver(c.Rcv), ssTimeoutHeight(c.Tmo), ssTimeoutStamp(c.Tmo), ssMemo(c.Memo))}, nil, nil
	}
	return nil, nil, fmt.Errorf("unknown method %q", c.M)
}

// runMsgs: baseapp.runMsgs for one transaction: every message through the router on ONE
// cache layer that is written back only if all of them succeed
func (e *ssEnv) runMsgs(msgs []sdk.Msg) (err error) {
	cctx, write := e.Ctx.CacheContext()
	defer func() {
		if r := recover(); r != nil {
			err = fmt.Errorf("panic: %v", r)
		}
	}()
	for _, msg := range msgs {
		if vb, ok := msg.(interface{ ValidateBasic() error }); ok {
			if err := vb.ValidateBasic(); err != nil {
				return err
			}
		}
		h := e.App.MsgServiceRouter().Handler(msg)
		if h == nil {
			return fmt.Errorf("no handler for %T", msg)
		}
		if _, err := h(cctx, msg); err != nil {
			return err
		}
	}
	write()
	return nil
}

// proposer: ApplyTransaction looks the block proposer up in the staking store (coinbase);
// a real block is proposed by a bonded validator
func (e *ssEnv) setProposer() bool {
	pick := -1
	for v := 0; v < ssNVal; v++ {
		val, found := e.App.StakingKeeper.GetValidator(e.Ctx, e.vals[v])
		if found && val.IsBonded() && !val.Jailed {
			pick = v
			break
		}
	}
	if pick < 0 {
		return false
	}
	hdr := e.Ctx.BlockHeader()
	hdr.ProposerAddress = e.cons[pick]
	e.Ctx = e.Ctx.WithBlockHeader(hdr)
	return true
}

func (e *ssEnv) runEth(signer int, to common.Address, data []byte) (bool, string) {
	from := common.BytesToAddress(e.acc[signer])
	nonce := e.App.EvmKeeper.GetNonce(e.Ctx, from)
	tx := ethtypes.NewTx(&ethtypes.LegacyTx{Nonce: nonce, GasPrice: big.NewInt(0), Gas: 2_000_000_000, To: &to, Value: big.NewInt(0), Data: data})
	stx, err := ethtypes.SignTx(tx, ethtypes.LatestSignerForChainID(e.App.EvmKeeper.ChainID()), e.keys[signer])
	if err != nil {
		return false, "sign: " + err.Error()
	}
	ev := &evmEnv{Env: e.Env}
	return ev.run(stx, nil)
}

// ---------------------------------------------------------------- full store comparison
func (e *ssEnv) storeKeys() []*storetypes.KVStoreKey {
	rs, ok := e.App.CommitMultiStore().(*rootmulti.Store)
	if !ok {
		panic("stakestates: the multistore is not a rootmulti.Store")
	}
	out := []*storetypes.KVStoreKey{}
	for name, k := range rs.StoreKeysByName() {
		kk, ok := k.(*storetypes.KVStoreKey)
		if !ok || name == evmtypes.StoreKey {
			continue // transient / memory stores; the EVM module's own store is outside the property
		}
		out = append(out, kk)
	}
	sort.Slice(out, func(i, j int) bool { return out[i].Name() < out[j].Name() })
	return out
}

func ssDump(ctx sdk.Context, k *storetypes.KVStoreKey) map[string][]byte {
	m := map[string][]byte{}
	it := ctx.KVStore(k).Iterator(nil, nil)
	defer it.Close()
	for ; it.Valid(); it.Next() {
		m[string(it.Key())] = append([]byte{}, it.Value()...)
	}
	return m
}

type ssDiffEntry struct {
	Store   string `json:"store"`
	FullKey string `json:"-"`
	Key     string `json:"key"`
	A       string `json:"eth"`    // value after the Ethereum transaction ("-" = absent)
	B       string `json:"native"` // value after the native message
	What    string `json:"what,omitempty"`
}

func ssHex(b []byte, present bool) string {
	if !present {
		return "-"
	}
	s := hex.EncodeToString(b)
	if len(s) > 96 {
		s = s[:96] + "…"
	}
	return s
}

// describe: a short name for the kind of record (first key byte of the SDK stores)
func ssDescribe(store string, key []byte) string {
	if len(key) == 0 {
		return ""
	}
	names := map[string]map[byte]string{
		"staking": {0x11: "last-validator-power", 0x12: "last-total-power", 0x21: "validator", 0x22: "validator-by-cons", 0x23: "validator-by-power",
			0x31: "delegation", 0x32: "unbonding-delegation", 0x33: "unbonding-by-validator", 0x34: "redelegation", 0x35: "redelegation-by-src",
			0x36: "redelegation-by-dst", 0x37: "unbonding-id", 0x38: "unbonding-index", 0x39: "unbonding-type", 0x41: "unbonding-queue",
			0x42: "redelegation-queue", 0x43: "validator-queue", 0x50: "historical-info"},
		"distribution": {0x00: "fee-pool", 0x01: "proposer", 0x02: "outstanding-rewards", 0x03: "withdraw-address", 0x04: "delegator-starting-info",
			0x05: "historical-rewards", 0x06: "current-rewards", 0x07: "accumulated-commission", 0x08: "slash-event"},
		"bank": {0x00: "supply", 0x01: "denom-metadata", 0x02: "balance", 0x03: "denom-address-index"},
		"acc":  {0x01: "account", 0x02: "account-number-index"},
	}
	if m, ok := names[store]; ok {
		if n, ok := m[key[0]]; ok {
			return n
		}
	}
	return ""
}

// ssStoreDiff compares every persistent store of the two forks.  The account of the
// signer is compared with its sequence masked.
func (e *ssEnv) storeDiff(a, b *ssEnv, signer sdk.AccAddress) []ssDiffEntry {
	out := []ssDiffEntry{}
	skey := string(authtypes.AddressStoreKey(signer))
	for _, k := range e.storeKeys() {
		ma, mb := ssDump(a.Ctx, k), ssDump(b.Ctx, k)
		keys := map[string]bool{}
		for x := range ma {
			keys[x] = true
		}
		for x := range mb {
			keys[x] = true
		}
		ks := []string{}
		for x := range keys {
			ks = append(ks, x)
		}
		sort.Strings(ks)
		for _, x := range ks {
			va, ina := ma[x]
			vb, inb := mb[x]
			if ina && inb && bytes.Equal(va, vb) {
				continue
			}
			if k.Name() == authtypes.StoreKey && x == skey && ina && inb {
				aa, ab := a.App.AccountKeeper.GetAccount(a.Ctx, signer), b.App.AccountKeeper.GetAccount(b.Ctx, signer)
				if aa != nil && ab != nil {
					_ = aa.SetSequence(0)
					_ = ab.SetSequence(0)
					if aa.String() == ab.String() {
						continue
					}
				}
			}
			out = append(out, ssDiffEntry{Store: k.Name(), FullKey: hex.EncodeToString([]byte(x)), Key: ssHex([]byte(x), true), A: ssHex(va, ina), B: ssHex(vb, inb), What: ssDescribe(k.Name(), []byte(x))})
		}
	}
	return out
}

// ---------------------------------------------------------------- class (known finding K6), from the input state only
// The signer is journal-dirty at the final commit iff the precompile mirrored a balance change
// into the StateDB: delegate (SubBalance of the amount) and withdrawDelegatorRewards (AddBalance
// of the reward).  The commit then rewrites the signer's bank balance with the mirrored value.
func ssClass(in ssInput, pre ssSnap, r ssResolved) string {
	c := in.Call
	if c.M == "commission" && c.VS == "upper" {
		return "evm:upper-case-operator-address-panics"
	}
	if c.M == "commission" {
		// candidate finding (not in known_findings.json; see proposed_known_findings_c16.json): the signer's validator has
		// accumulated a commission that is not zero but truncates to zero coins: the native message succeeds paying nothing,
		// EmitWithdrawValidatorCommissionEvent indexes coins[0] of the empty result and panics
		for v, op := range []int{-1, ssOp1, ssOp2} {
			if op == in.Signer && pre.Vals[v].CommDust {
				return "evm:commission-below-one-unit-panics"
			}
		}
		return ""
	}
	if c.Val < 0 || c.Val >= ssNVal {
		return ""
	}
	pend := bigOf(pre.Pending[c.Val]).Sign() > 0 && pre.Shares[c.Val] != ""
	switch c.M {
	case "delegate":
		// the SDK hook pays the pending rewards of the existing delegation out first: to the signer itself
		if pend && pre.Withdraw == in.Signer && bigOf(r.Amt).Sign() > 0 {
			return "evm:rewards-paid-out-by-precompile"
		}
	case "withdraw":
		// the rewards go to another account, the mirror credits the signer
		if pend && pre.Withdraw != in.Signer {
			return "evm:rewards-paid-out-by-precompile"
		}
	}
	return ""
}

// ---------------------------------------------------------------- one case
type ssRouteObs struct {
	OK     bool       `json:"ok"`
	Err    string     `json:"err,omitempty"`
	Val    *ssValSnap `json:"val,omitempty"` // the call's validator afterwards
	Shares string     `json:"shares"`        // the signer's delegation shares at it ("" = none)
	Bal    string     `json:"bal"`           // the signer's balance
	Supply string     `json:"supply_delta"`  // change of the total supply
	NEnt   int        `json:"entries"`       // the signer's unbonding entries at it
	New    *ssNewVal  `json:"owner_validator,omitempty"` // createval: the validator record of the signer as operator
}

type ssObs struct {
	ScriptErrs []string      `json:"script_errors,omitempty"`
	Pre        ssSnap        `json:"pre"`
	Resolved   ssResolved    `json:"resolved"`
	Eth        ssRouteObs    `json:"eth"`
	Native     ssRouteObs    `json:"native"`
	Diff       []ssDiffEntry `json:"diff,omitempty"`
	NDiff      int           `json:"n_diff"`
}

func (e *ssEnv) routeObs(in ssInput, ok bool, errStr string, pre ssSnap) ssRouteObs {
	s := e.snap(in.Signer)
	o := ssRouteObs{OK: ok, Err: errStr, Bal: s.Bal, Supply: new(big.Int).Sub(bigOf(s.Supply), bigOf(pre.Supply)).String()}
	if v := in.Call.Val; v >= 0 && v < ssNVal {
		vs := s.Vals[v]
		o.Val = &vs
		o.Shares = s.Shares[v]
		o.NEnt = len(s.Entries[v])
	}
	if in.Call.M == "createval" {
		o.Val, o.Shares, o.NEnt = nil, "", 0
		o.New = e.ownerVal(in.Signer)
	}
	return o
}

func ssErrClass(s string) string {
	// a short, address-free error class for the distribution tags
	for _, k := range []string{"insufficient delegation shares", "insufficient funds", "invalid shares amount", "too many unbonding", "too many redelegation",
		"transitive", "no delegation", "validator does not exist", "no validator", "no unbonding", "invalid delegation amount", "invalid amount", "invalid height",
		"already processed", "exchange rate", "no delegation distribution info", "no validator commission", "set withdraw address disabled", "not allowed to receive",
		"channel not found", "self redelegation", "entry not found", "amount is greater", "panic", "invalid coins", "invalid shares",
		"commission", "validator already exist", "pubkey", "minimum self delegation", "empty description", "length", "validator address is invalid",
		"invalid address", "decoding bech32", "invalid delegator", "invalid validator", "invalid receiver", "memo"} {
		if strings.Contains(s, k) {
			return strings.ReplaceAll(k, " ", "-")
		}
	}
	if s == "" {
		return "none"
	}
	return "other"
}

func ssRunCase(id string, in ssInput) Case {
	kb, _ := json.Marshal(in)
	c := Case{ID: id, Kind: "stake-state", Input: in, Key: string(kb)}
	skip := func(why string) Case {
		c.OracleOK = true
		c.Tags = []string{"skipped:" + why}
		c.OracleMsg = "case skipped: " + why
		return c
	}
	if in.Signer < 0 || in.Signer > ssOp2 {
		return skip("bad-signer")
	}
	base := ssBaseEnv()
	e := base.fork()
	obs := ssObs{}
	for i, op := range in.Script {
		if err := e.apply(op); err != nil {
			obs.ScriptErrs = append(obs.ScriptErrs, fmt.Sprintf("%d:%s:%s", i, op.Op, ssErrClass(err.Error())))
		}
	}
	if !e.setProposer() {
		return skip("no-bonded-validator")
	}
	pre := e.snap(in.Signer)
	obs.Pre = pre
	res, err := e.resolve(in, pre)
	if err != nil {
		return skip("bad-call")
	}
	to, data, err := e.pack(in, res)
	if err != nil {
		return skip("bad-call")
	}
	msgs, claimIdx, err := e.natives(in, res)
	if err != nil {
		return skip("bad-call")
	}
	res.Claim = claimIdx
	obs.Resolved = res

	ea := e.fork()
	okA, errA := ea.runEth(in.Signer, to, data)
	eb := e.fork()
	errB := eb.runMsgs(msgs)
	okB, errBs := errB == nil, ""
	if errB != nil {
		errBs = errB.Error()
	}
	obs.Eth = ea.routeObs(in, okA, errA, pre)
	obs.Native = eb.routeObs(in, okB, errBs, pre)
	diff := e.storeDiff(ea, eb, e.acc[in.Signer])
	base.lastDiff = diff
	obs.NDiff = len(diff)
	if len(diff) > 12 {
		diff = diff[:12]
	}
	obs.Diff = diff

	msgsOut := []string{}
	if okA != okB {
		msgsOut = append(msgsOut, fmt.Sprintf("the precompile call ok=%v but the native message ok=%v (eth: %s | native: %s)", okA, okB, errA, errBs))
	}
	if obs.NDiff > 0 {
		parts := []string{}
		for _, d := range diff {
			parts = append(parts, fmt.Sprintf("%s/%s[%s] eth=%s native=%s", d.Store, d.What, d.Key, d.A, d.B))
		}
		msgsOut = append(msgsOut, fmt.Sprintf("Cosmos state after the precompile call differs from the state after the native message in %d record(s): %s", obs.NDiff, strings.Join(parts, "; ")))
	}
	c.Obs = obs
	c.OracleOK = len(msgsOut) == 0
	c.OracleMsg = strings.Join(msgsOut, "; ")
	c.Class = ssClass(in, pre, res)
	c.Nontrivial = okA && okB
	c.Tags = ssTags(in, pre, res, obs)
	if in.Call.M == "cancel" && in.Call.HHi {
		// the precompile was given a creation height that no MsgCancelUnbondingDelegation can carry (int64): there is no
		// corresponding native message, the property demands nothing; what the precompile did is recorded
		how := "refused"
		if okA {
			how = "accepted"
			if okB && obs.NDiff == 0 {
				how = "accepted-as-the-low-64-bits"
			}
		}
		c.OracleOK, c.OracleMsg, c.Class, c.Nontrivial = true, "", "", false
		c.Tags = append(c.Tags, "cancel:height+2^64:"+how+"-by-precompile")
		return c
	}
	if in.Call.M == "commission" && in.Call.VS == "upper" && !ssDemandUpperCaseOperator {
		// finding F14 (repaired in /repo): withdrawValidatorCommission given the operator address in
		// upper case - a valid bech32 string, the native message is accepted - makes the precompile panic
		// (precompiles/common HexAddressFromBech32String looks for the lower-case substring "valoper" and otherwise calls
		// MustAccAddressFromBech32).  Demanded like every other case since the repair.
		how := "same-outcome"
		if okA != okB {
			how = "precompile-fails-native-succeeds"
			if okA {
				how = "precompile-succeeds-native-fails"
			}
		}
		c.OracleOK, c.OracleMsg, c.Class, c.Nontrivial = true, "", "", false
		c.Tags = append(c.Tags, "commission:upper-case-operator-address:"+how)
		return c
	}
	if in.Call.M == "createval" {
		hadOwner := ssHadOwner(e, in.Signer)
		c.Tags = append(c.Tags, ssCreateTags(in, res.CV, hadOwner)...)
		sort.Strings(c.Tags)
		c.Coq = ssCoqCreate(pre, res.CV, hadOwner, obs)
		c.CoqList = "create"
		return c
	}
	if s := ssCoq(in, pre, res, obs); s != "" {
		c.Coq = s
		c.CoqList = "stake"
	}
	return c
}

// ssDemandUpperCaseOperator: see ssRunCase; set to true once the deviation is listed in known_findings.json (class
// evm:upper-case-operator-address-panics) or repaired in /repo
const ssDemandUpperCaseOperator = true // repaired in /repo fd596d1 (F14): demanded

func ssHadOwner(e *ssEnv, signer int) bool {
	_, found := e.App.StakingKeeper.GetValidator(e.Ctx, sdk.ValAddress(e.acc[signer]))
	return found
}

// ssRestCase: an input inside the known class must not hide anything else.  When both routes succeed, the
// recorded deviation touches exactly the signer's balance of the bond denomination (and its index entry) and the
// total supply, by exactly the rewards paid out; every other record of every store must still agree.  This second
// case carries no class: a failure of it is a violation.  (When the Ethereum transaction fails at the final commit
// - amount above the balance held before the call - nothing of it remains; that outcome is pinned by the model.)
func ssRestCase(e *ssEnv, c Case, in ssInput) (Case, bool) {
	obs, ok := c.Obs.(ssObs)
	if !ok || c.Class == "" || !obs.Eth.OK || !obs.Native.OK {
		return Case{}, false
	}
	full := e.lastDiff
	signer := e.acc[in.Signer]
	balKey := hex.EncodeToString(append(append([]byte{0x02, byte(len(signer))}, signer...), []byte(utils.BaseDenom)...))
	idxKey := hex.EncodeToString(append(append(append([]byte{0x03}, []byte(utils.BaseDenom)...), 0x00, byte(len(signer))), signer...))
	supKey := hex.EncodeToString(append([]byte{0x00}, []byte(utils.BaseDenom)...))
	msgs := []string{}
	for _, d := range full {
		if d.Store == "bank" && (d.FullKey == balKey || d.FullKey == idxKey || d.FullKey == supKey) {
			continue
		}
		msgs = append(msgs, fmt.Sprintf("%s/%s[%s] eth=%s native=%s", d.Store, d.What, d.Key, d.A, d.B))
	}
	rew := bigOf(obs.Pre.Pending[in.Call.Val])
	dBal := new(big.Int).Sub(bigOf(obs.Eth.Bal), bigOf(obs.Native.Bal))
	dSup := new(big.Int).Sub(bigOf(obs.Eth.Supply), bigOf(obs.Native.Supply))
	want := new(big.Int).Neg(rew) // delegate: the rewards paid to the signer are overwritten
	if in.Call.M == "withdraw" {
		want = rew // the signer is credited although the rewards went to the withdraw address
	}
	if !(dBal.Sign() == 0 || dBal.Cmp(want) == 0) || dBal.Cmp(dSup) != 0 {
		msgs = append(msgs, fmt.Sprintf("the signer's balance differs by %s and the supply by %s (recorded deviation: both %s)", dBal, dSup, want))
	}
	r := Case{ID: c.ID + "#rest", Kind: "stake-state-rest", Input: in, Key: c.Key + "#rest", Nontrivial: true,
		Tags: []string{"known-class:everything-else-compared"}, OracleOK: len(msgs) == 0}
	if len(msgs) > 0 {
		if len(msgs) > 12 {
			msgs = msgs[:12]
		}
		r.OracleMsg = "inside the known class evm:rewards-paid-out-by-precompile, apart from the signer's balance and the total supply: " + strings.Join(msgs, "; ")
		r.Obs = obs
	}
	return r, true
}

// ---------------------------------------------------------------- distribution tags
func ssTags(in ssInput, pre ssSnap, r ssResolved, obs ssObs) []string {
	c := in.Call
	out := "both-ok"
	switch {
	case !obs.Eth.OK && !obs.Native.OK:
		out = "both-fail:" + ssErrClass(obs.Native.Err)
	case obs.Eth.OK != obs.Native.OK:
		out = "outcome-differs"
	}
	tags := []string{"m:" + c.M + ":" + out, "signer:" + ssActorName[in.Signer]}
	feat := func(v int, role string) {
		if v < 0 || v >= ssNVal {
			tags = append(tags, role+":no-record")
			return
		}
		vs := pre.Vals[v]
		switch {
		case !vs.Found:
			tags = append(tags, role+":removed")
		default:
			st := []string{"", "unbonded", "unbonding", "bonded"}[vs.Status]
			tags = append(tags, role+":"+st)
			if vs.Jailed {
				tags = append(tags, role+":jailed")
			}
			tk, sh := bigOf(vs.Tokens), bigOf(vs.Shares)
			switch {
			case tk.Sign() == 0 && sh.Sign() == 0:
				tags = append(tags, role+":emptied")
			case tk.Sign() == 0:
				tags = append(tags, role+":tokens-zero-shares-positive")
			case new(big.Int).Mul(tk, big.NewInt(1e18)).Cmp(sh) != 0:
				tags = append(tags, role+":rate-not-one")
			}
		}
		if n := len(pre.Entries[v]); n > 0 {
			tags = append(tags, fmt.Sprintf("%s:ubd-entries=%d", role, n))
			for _, en := range pre.Entries[v] {
				if en.Mature {
					tags = append(tags, role+":mature-entry")
					break
				}
			}
		}
		if pre.Shares[v] != "" {
			tags = append(tags, role+":has-delegation")
		}
		if bigOf(pre.Pending[v]).Sign() > 0 {
			tags = append(tags, role+":pending-rewards")
		}
		for s := 0; s < ssNVal; s++ {
			if pre.Reds[s][v] > 0 {
				tags = append(tags, role+":redelegation-into-it")
			}
			if pre.Reds[v][s] > 0 {
				tags = append(tags, fmt.Sprintf("%s:redelegation-out=%d", role, pre.Reds[v][s]))
			}
		}
		if bigOf(vs.Comm).Sign() > 0 {
			tags = append(tags, role+":commission")
		}
	}
	switch c.M {
	case "delegate", "undelegate", "cancel", "withdraw":
		feat(c.Val, "val")
	case "redelegate":
		feat(c.Val, "src")
		feat(c.Dst, "dst")
	}
	if pre.Withdraw != in.Signer {
		tags = append(tags, "withdraw-address-other")
	}
	if !pre.WdOn {
		tags = append(tags, "withdraw-address-disabled")
	}
	a := bigOf(r.Amt)
	switch {
	case c.M == "withdraw" || c.M == "setwithdraw" || c.M == "claim" || c.M == "commission" || c.M == "createval":
	case a.Sign() == 0:
		tags = append(tags, "amt:zero")
	case a.Cmp(big.NewInt(1000)) <= 0:
		tags = append(tags, "amt:dust")
	case a.Cmp(abi.MaxUint256) == 0:
		tags = append(tags, "amt:max")
	case a.BitLen() > 63:
		// from 2^63: an amount that does not fit a 64-bit integer
		tags = append(tags, "amt:"+ssNumClass(a))
		if strings.IndexAny(c.Amt, "abcdefghijklmnopqrstuvwxyz") >= 0 {
			tags = append(tags, "amt:valid-plus-high-bits")
		}
	default:
		tags = append(tags, "amt:"+map[bool]string{true: "symbolic", false: "plain"}[strings.IndexAny(c.Amt, "abcdefghijklmnopqrstuvwxyz") >= 0])
	}
	if c.VS != "" {
		tags = append(tags, "val-arg:"+c.VS)
	}
	if c.DS != "" && c.M == "redelegate" {
		tags = append(tags, "dst-arg:"+c.DS)
	}
	if c.ToS != "" && c.M == "setwithdraw" {
		tags = append(tags, "withdrawer-arg:"+c.ToS)
	}
	if c.M == "transfer" && (c.Rcv != "" || c.Memo != "" || c.Tmo != "") {
		tags = append(tags, "transfer:receiver="+c.Rcv+":memo="+c.Memo+":timeout="+c.Tmo)
	}
	if len(obs.ScriptErrs) > 0 {
		tags = append(tags, "script-op-failed")
	}
	sort.Strings(tags)
	return tags
}

// ---------------------------------------------------------------- Coq term (delegate / undelegate)
// (mk_sin validator delegation entries max bal rew operator, method, amount, (ok_eth, ok_native, validator', delegation'))
func ssCoqVal(v *ssValSnap) string {
	if v == nil || !v.Found {
		return "None"
	}
	return fmt.Sprintf("(Some (mk_val %s %s %s %s %s))", coqZ(bigOf(v.Tokens)), coqZ(bigOf(v.Shares)), coqN(v.Status), coqBool(v.Jailed), coqZ(bigOf(v.MinSelf)))
}

func ssCoqOptZ(s string) string {
	if s == "" {
		return "None"
	}
	return "(Some " + coqZ(bigOf(s)) + ")"
}

func ssCoq(in ssInput, pre ssSnap, r ssResolved, obs ssObs) string {
	c := in.Call
	if c.M != "delegate" && c.M != "undelegate" {
		return ""
	}
	var pv *ssValSnap
	sh, nent, rew, oper := "", 0, "0", false
	// a validator argument that is not an operator address of this chain names no validator: for the model the
	// state holds no validator record and no delegation under that name
	named := c.VS == "" || c.VS == "upper"
	if c.Val >= 0 && c.Val < ssNVal && named {
		v := pre.Vals[c.Val]
		pv = &v
		sh = pre.Shares[c.Val]
		nent = len(pre.Entries[c.Val])
		// what the SDK hook pays to the signer itself before the debit
		if sh != "" && pre.Withdraw == in.Signer && bigOf(pre.Pending[c.Val]).Sign() > 0 {
			rew = pre.Pending[c.Val]
		}
		oper = (c.Val == 1 && in.Signer == ssOp1) || (c.Val == 2 && in.Signer == ssOp2)
	}
	m := "SDelegate"
	if c.M == "undelegate" {
		m = "SUndelegate"
	}
	sin := fmt.Sprintf("mk_sin %s %s %s %s %s %s %s", ssCoqVal(pv), ssCoqOptZ(sh), coqN(nent), coqN(int(pre.MaxEnt)), coqZ(bigOf(pre.Bal)), coqZ(bigOf(rew)), coqBool(oper))
	ro := func(o ssRouteObs) string {
		if !named {
			return fmt.Sprintf("mk_sout %s None None", coqBool(o.OK))
		}
		return fmt.Sprintf("mk_sout %s %s %s", coqBool(o.OK), ssCoqVal(o.Val), ssCoqOptZ(o.Shares))
	}
	return fmt.Sprintf("(%s, %s, %s, (%s), (%s))", sin, m, coqZ(bigOf(r.Amt)), ro(obs.Eth), ro(obs.Native))
}

// ---------------------------------------------------------------- generator
func ssE15(k int64) *big.Int {
	return new(big.Int).Mul(big.NewInt(k), big.NewInt(1_000_000_000_000_000))
}

func ssAmtStr(r *Rng) string {
	switch r.Intn(10) {
	case 0:
		return fmt.Sprint(1 + r.Intn(999))
	case 1:
		return "1000000000000000000"
	case 2, 3:
		return new(big.Int).Add(ssE15(int64(1+r.Intn(3000))), big.NewInt(int64(r.Intn(1_000_000_000)))).String()
	}
	return ssE15(int64(1 + r.Intn(4000))).String()
}

func ssPick(r *Rng, opts []string, weights []int) string {
	tot := 0
	for _, w := range weights {
		tot += w
	}
	x := r.Intn(tot)
	for i, w := range weights {
		if x < w {
			return opts[i]
		}
		x -= w
	}
	return opts[0]
}

// ssCallAmtHi: an amount that needs more than 64 bits: a valid amount of this method with bits set above bit 63 /
// bit 127 / bit 254, or a bare power of two and its neighbours
func ssCallAmtHi(r *Rng, m string) string {
	base := map[string][]string{"delegate": {"bal", "1", "vtok"}, "undelegate": {"all", "all-1", "1"}, "redelegate": {"all", "all-1", "1"},
		"cancel": {"entry", "1"}, "transfer": {"bal", "1"}}[m]
	if len(base) == 0 || r.Chance(35) {
		return ssHuge[r.Intn(len(ssHuge))]
	}
	b := base[r.Intn(len(base))]
	if r.Chance(40) {
		b = ssAmtStr(r)
	}
	return ssHigh(r, b)
}

func ssCallAmt(r *Rng, m string) string {
	if r.Chance(9) {
		return ssCallAmtHi(r, m)
	}
	switch m {
	case "delegate":
		s := ssPick(r, []string{"plain", "bal", "bal+1", "0", "dust", "max", "vtok"}, []int{55, 5, 8, 5, 15, 4, 8})
		switch s {
		case "plain":
			return ssAmtStr(r)
		case "dust":
			return fmt.Sprint(1 + r.Intn(50))
		}
		return s
	case "undelegate", "redelegate":
		s := ssPick(r, []string{"all", "all+1", "all-1", "plain", "dust", "0", "max", "vtok"}, []int{25, 12, 10, 28, 10, 5, 5, 5})
		switch s {
		case "plain":
			return ssAmtStr(r)
		case "dust":
			return fmt.Sprint(1 + r.Intn(50))
		}
		return s
	case "cancel":
		s := ssPick(r, []string{"entry", "entry+1", "dust", "plain", "0", "max"}, []int{38, 15, 15, 22, 5, 5})
		switch s {
		case "plain":
			return ssAmtStr(r)
		case "dust":
			return fmt.Sprint(1 + r.Intn(50))
		}
		return s
	case "transfer":
		s := ssPick(r, []string{"plain", "bal", "bal+1", "0"}, []int{70, 10, 10, 10})
		if s == "plain" {
			return ssAmtStr(r)
		}
		return s
	}
	return ""
}

var ssMethods = []string{"delegate", "undelegate", "redelegate", "cancel", "withdraw", "setwithdraw", "claim", "commission", "transfer"}

func ssRandCall(r *Rng, m string, v int) ssCall {
	c := ssCall{M: m, Val: v, Dst: r.Intn(ssNVal), Amt: ssCallAmt(r, m)}
	if r.Chance(4) {
		c.Val = ssNoVal
	}
	kinds := []string{"malformed", "foreign", "empty", "acc", "upper", "upper"}
	if r.Chance(5) && m != "setwithdraw" && m != "claim" && m != "transfer" {
		c.VS = kinds[r.Intn(len(kinds))]
	}
	switch m {
	case "redelegate":
		if r.Chance(90) {
			c.Dst = (c.Val + 1 + r.Intn(2)) % ssNVal
		}
		if r.Chance(3) {
			c.Dst = ssNoVal
		}
		if r.Chance(4) {
			c.DS = kinds[r.Intn(len(kinds))]
		}
	case "cancel":
		c.Entry = r.Intn(3)
		if r.Chance(20) {
			c.Entry = -1
		} else if r.Chance(15) {
			c.Entry = 3 + r.Intn(5)
		}
		if r.Chance(5) {
			c.HHi = true
		}
	case "setwithdraw":
		c.To = r.Intn(8)
		if r.Chance(12) {
			c.ToS = []string{"malformed", "foreign", "empty", "valoper", "upper"}[r.Intn(5)]
		}
	case "claim":
		c.Max = uint32(r.Intn(5))
		if r.Chance(40) {
			c.Max = 10
		}
	case "transfer":
		if r.Chance(15) {
			c.Chan = 1
		}
		if r.Chance(8) {
			c.Rcv = []string{"empty", "long"}[r.Intn(2)]
		}
		if r.Chance(4) {
			c.Memo = "long"
		}
		if r.Chance(12) {
			c.Tmo = []string{"zero", "passed", "max", "stamp"}[r.Intn(4)]
		}
	}
	return c
}

func ssRandOp(r *Rng, signer int) ssOp {
	who := signer
	if r.Chance(30) {
		who = r.Intn(ssNAct - 1) // not G
		if who == ssW {
			who = ssP
		}
	}
	v := r.Intn(ssNVal)
	switch ssPick(r, []string{"delegate", "undelegate", "redelegate", "advance", "endblock", "reward", "jail", "unjail", "slash", "empty", "setwithdraw", "wdoff", "fund"},
		[]int{25, 15, 10, 10, 9, 8, 4, 2, 6, 3, 5, 1, 2}) {
	case "delegate":
		return ssOp{Op: "delegate", Who: who, Val: v, Amt: ssAmtStr(r)}
	case "undelegate":
		if r.Chance(25) {
			return ssOp{Op: "undelegate", Who: who, Val: v, Amt: "all"}
		}
		return ssOp{Op: "undelegate", Who: who, Val: v, Amt: ssAmtStr(r)}
	case "redelegate":
		return ssOp{Op: "redelegate", Who: who, Val: v, Dst: (v + 1 + r.Intn(2)) % ssNVal, Amt: ssAmtStr(r)}
	case "advance":
		if r.Chance(15) {
			return ssOp{Op: "advance", Dt: 22 * 24 * 3600, Dh: int64(1 + r.Intn(5))}
		}
		return ssOp{Op: "advance", Dt: int64(5 * (1 + r.Intn(4))), Dh: int64(1 + r.Intn(3))}
	case "endblock":
		return ssOp{Op: "endblock"}
	case "reward":
		return ssOp{Op: "reward", Val: v, Amt: ssAmtStr(r)}
	case "jail":
		return ssOp{Op: "jail", Val: v}
	case "unjail":
		return ssOp{Op: "unjail", Val: v}
	case "slash":
		bp := 1 + r.Intn(9999)
		if r.Chance(10) {
			bp = 10000
		}
		return ssOp{Op: "slash", Val: v, Bp: bp, Back: int64(r.Intn(3))}
	case "empty":
		return ssOp{Op: "empty", Val: v}
	case "setwithdraw":
		return ssOp{Op: "setwithdraw", Who: who, To: r.Intn(ssNAct - 1)}
	case "wdoff":
		return ssOp{Op: "wdoff"}
	}
	return ssOp{Op: "fund", Who: who, Amt: ssAmtStr(r)}
}

const ssUnbondSecs = 22 * 24 * 3600 // longer than the unbonding time (21 days)

func ssGen(r *Rng) ssInput {
	if r.Chance(14) {
		return ssGenCreate(r)
	}
	in := ssInput{Signer: []int{ssO, ssO, ssO, ssP, ssOp1, ssOp2}[r.Intn(6)]}
	add := func(ops ...ssOp) { in.Script = append(in.Script, ops...) }
	next := func() { add(ssOp{Op: "advance", Dt: 5, Dh: 1}) }
	s := in.Signer
	v := r.Intn(ssNVal)
	o1, o2 := (v+1)%ssNVal, (v+2)%ssNVal
	if r.Bool() {
		o1, o2 = o2, o1
	}
	var pref []string // methods the scenario is about
	call := ssCall{}
	fixed := false
	switch r.Intn(12) {
	case 0: // validator emptied: every delegator left, the record stays
		if r.Chance(60) {
			add(ssOp{Op: "delegate", Who: s, Val: v, Amt: ssAmtStr(r)})
			next()
		}
		if r.Chance(40) {
			add(ssOp{Op: "delegate", Who: s, Val: o1, Amt: ssAmtStr(r)})
			next()
		}
		add(ssOp{Op: "empty", Val: v})
		if r.Chance(50) {
			add(ssOp{Op: "endblock"})
		}
		if r.Chance(30) {
			m := ssPick(r, []string{"redelegate", "cancel", "undelegate", "withdraw"}, []int{40, 30, 15, 15})
			call = ssRandCall(r, m, v)
			if m == "redelegate" { // into the emptied validator
				call.Val, call.Dst = o1, v
			}
		} else {
			call = ssRandCall(r, "delegate", v)
		}
		fixed = true
	case 1: // jailed
		add(ssOp{Op: "delegate", Who: s, Val: v, Amt: ssAmtStr(r)})
		next()
		if r.Chance(30) {
			add(ssOp{Op: "reward", Val: v, Amt: ssAmtStr(r)})
		}
		add(ssOp{Op: "jail", Val: v})
		if r.Chance(50) {
			add(ssOp{Op: "endblock"})
		}
		pref = []string{"delegate", "undelegate", "redelegate", "withdraw", "cancel"}
	case 2: // unbonding / unbonded with remaining delegations
		add(ssOp{Op: "delegate", Who: s, Val: v, Amt: ssAmtStr(r)})
		next()
		if r.Chance(40) {
			add(ssOp{Op: "undelegate", Who: s, Val: v, Amt: fmt.Sprint(1 + r.Intn(1000000))})
		}
		add(ssOp{Op: "jail", Val: v}, ssOp{Op: "endblock"})
		if r.Chance(55) {
			add(ssOp{Op: "advance", Dt: ssUnbondSecs, Dh: int64(1 + r.Intn(9))}, ssOp{Op: "endblock"})
		}
		pref = []string{"undelegate", "redelegate", "delegate", "cancel", "withdraw"}
	case 3: // slashed: tokens != shares
		add(ssOp{Op: "delegate", Who: s, Val: v, Amt: ssAmtStr(r)})
		next()
		if r.Chance(40) {
			add(ssOp{Op: "undelegate", Who: s, Val: v, Amt: fmt.Sprint(1 + r.Intn(100000000))})
			next()
		}
		bp := 1 + r.Intn(9999)
		if r.Chance(8) {
			bp = 10000
		}
		add(ssOp{Op: "slash", Val: v, Bp: bp, Back: int64(r.Intn(3))})
		if r.Chance(40) {
			add(ssOp{Op: "delegate", Who: []int{s, ssP}[r.Intn(2)], Val: v, Amt: ssAmtStr(r)})
			if r.Chance(50) {
				next()
				add(ssOp{Op: "slash", Val: v, Bp: 1 + r.Intn(5000)})
			}
		}
		pref = []string{"delegate", "undelegate", "undelegate", "redelegate", "cancel"}
	case 4: // the delegator's unbonding entry list is full (or nearly)
		add(ssOp{Op: "delegate", Who: s, Val: v, Amt: ssE15(int64(3000 + r.Intn(2000))).String()})
		n := 7
		if r.Chance(30) {
			n = 6
		}
		for i := 0; i < n; i++ {
			next()
			add(ssOp{Op: "undelegate", Who: s, Val: v, Amt: ssE15(int64(1 + r.Intn(200))).String()})
		}
		pref = []string{"undelegate", "undelegate", "cancel", "redelegate", "delegate"}
	case 5: // an active redelegation into the source validator
		add(ssOp{Op: "delegate", Who: s, Val: o1, Amt: ssAmtStr(r)})
		next()
		add(ssOp{Op: "redelegate", Who: s, Val: o1, Dst: v, Amt: "all"})
		if r.Chance(50) {
			next()
		}
		call = ssRandCall(r, ssPick(r, []string{"redelegate", "undelegate", "delegate"}, []int{70, 20, 10}), v)
		if call.M == "redelegate" {
			call.Dst = []int{o2, o1}[r.Intn(2)]
		}
		fixed = true
	case 6: // redelegation entry list full
		add(ssOp{Op: "delegate", Who: s, Val: v, Amt: ssE15(int64(3000 + r.Intn(2000))).String()})
		n := 7
		if r.Chance(30) {
			n = 6
		}
		for i := 0; i < n; i++ {
			next()
			add(ssOp{Op: "redelegate", Who: s, Val: v, Dst: o1, Amt: ssE15(int64(1 + r.Intn(200))).String()})
		}
		call = ssRandCall(r, "redelegate", v)
		call.Dst = []int{o1, o1, o2}[r.Intn(3)]
		fixed = true
	case 7: // unbonding entries at different creation heights
		add(ssOp{Op: "delegate", Who: s, Val: v, Amt: ssE15(int64(2000 + r.Intn(2000))).String()})
		for i, n := 0, 1+r.Intn(4); i < n; i++ {
			if r.Chance(80) {
				next()
			}
			add(ssOp{Op: "undelegate", Who: s, Val: v, Amt: ssAmtStr(r)})
		}
		if r.Chance(50) {
			next()
		}
		call = ssRandCall(r, "cancel", v)
		fixed = true
	case 8: // pending rewards, withdraw address
		add(ssOp{Op: "delegate", Who: s, Val: v, Amt: ssAmtStr(r)})
		if r.Chance(50) {
			add(ssOp{Op: "delegate", Who: s, Val: o1, Amt: ssAmtStr(r)})
		}
		next()
		if r.Chance(85) {
			add(ssOp{Op: "reward", Val: v, Amt: ssAmtStr(r)})
		}
		if r.Chance(40) {
			add(ssOp{Op: "reward", Val: o1, Amt: ssAmtStr(r)})
		}
		if r.Chance(45) {
			add(ssOp{Op: "setwithdraw", Who: s, To: []int{ssW, ssP, ssOp1}[r.Intn(3)]})
		}
		if r.Chance(15) {
			add(ssOp{Op: "wdoff"})
		}
		pref = []string{"withdraw", "withdraw", "claim", "claim", "delegate", "undelegate", "redelegate", "setwithdraw", "setwithdraw"}
	case 9: // commission of an operator
		add(ssOp{Op: "delegate", Who: ssP, Val: 2, Amt: ssAmtStr(r)})
		next()
		if r.Chance(85) {
			add(ssOp{Op: "reward", Val: 2, Amt: ssAmtStr(r)})
		}
		if r.Chance(30) {
			add(ssOp{Op: "reward", Val: 1, Amt: ssAmtStr(r)})
		}
		in.Signer = []int{ssOp2, ssOp2, ssOp2, ssOp1, ssO}[r.Intn(5)]
		s = in.Signer
		if r.Chance(30) {
			add(ssOp{Op: "setwithdraw", Who: s, To: []int{ssW, ssP}[r.Intn(2)]})
		}
		v = 2
		pref = []string{"commission", "commission", "commission", "withdraw", "claim", "undelegate"}
	case 10: // time advanced past the completion time
		add(ssOp{Op: "delegate", Who: s, Val: v, Amt: ssAmtStr(r)})
		next()
		add(ssOp{Op: "undelegate", Who: s, Val: v, Amt: fmt.Sprint(1 + r.Intn(1000000000))})
		if r.Chance(50) {
			add(ssOp{Op: "redelegate", Who: s, Val: v, Dst: o1, Amt: fmt.Sprint(1 + r.Intn(1000000000))})
		}
		add(ssOp{Op: "advance", Dt: ssUnbondSecs, Dh: int64(1 + r.Intn(9))})
		if r.Chance(50) {
			add(ssOp{Op: "endblock"})
		}
		pref = []string{"cancel", "cancel", "undelegate", "redelegate", "delegate"}
	default: // random mix
		for i, n := 0, 3+r.Intn(8); i < n; i++ {
			add(ssRandOp(r, s))
		}
	}
	for r.Chance(25) && len(in.Script) < 20 {
		add(ssRandOp(r, s))
	}
	if !fixed {
		m := ssMethods[r.Intn(len(ssMethods))]
		if len(pref) > 0 && r.Chance(80) {
			m = pref[r.Intn(len(pref))]
		}
		if r.Chance(15) {
			v = r.Intn(ssNVal)
		}
		call = ssRandCall(r, m, v)
	}
	in.Call = call
	return in
}

func ssEmit(out *Out, id string, in ssInput) {
	c := ssRunCase(id, in)
	out.Emit(c)
	if r, ok := ssRestCase(ssBaseEnv(), c, in); ok {
		out.Emit(r)
	}
}

func ssDriver(cfg Config, out *Out) error {
	if cfg.Replay != "" {
		i := 0
		return readReplayInputs(cfg.Replay, func(raw json.RawMessage) error {
			var in ssInput
			if err := json.Unmarshal(raw, &in); err != nil {
				return err
			}
			if in.Call.M == "" {
				return nil // a replay line of another driver
			}
			ssEmit(out, fmt.Sprintf("replay-%d", i), in)
			i++
			return nil
		})
	}
	r := NewRng(NewRng(cfg.Seed).U64() ^ 0x5353) // NewRng(s+1) is NewRng(s) advanced by one step: mix, so that neighbouring seeds differ
	for i := 0; i < cfg.N; i++ {
		ssEmit(out, fmt.Sprintf("ss%d-%d", cfg.Seed, i), ssGen(r.Fork()))
	}
	return nil
}
