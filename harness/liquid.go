package main

// Driver "liquid" (property C11): liquid vesting.
//
// Two kinds of cases:
//   - "pure": the schedule functions of x/liquidvesting/types/schedule.go called
//     directly (SubtractAmountFromPeriods, ExtractUpcomingPeriods/ExtractPastPeriods,
//     ReplacePeriodsTail, CurrentPeriodShift);
//   - "hist": histories of liquidate / transfer / redeem messages over four
//     accounts, through the application's message router on a real app (every
//     Liquidate deploys the ERC20 contract of the new token pair in the EVM).

import (
	"encoding/json"
	"errors"
	"fmt"
	"math/big"
	"regexp"
	"sort"
	"strings"
	"time"

	"cosmossdk.io/math"
	sdk "github.com/cosmos/cosmos-sdk/types"
	sdkerrors "github.com/cosmos/cosmos-sdk/types/errors"
	authtypes "github.com/cosmos/cosmos-sdk/x/auth/types"
	sdkvesting "github.com/cosmos/cosmos-sdk/x/auth/vesting/types"
	banktypes "github.com/cosmos/cosmos-sdk/x/bank/types"
	stakingtypes "github.com/cosmos/cosmos-sdk/x/staking/types"
	"github.com/ethereum/go-ethereum/common"
	"github.com/ethereum/go-ethereum/crypto"

	"github.com/haqq-network/haqq/contracts"
	"github.com/haqq-network/haqq/testutil"
	haqqtypes "github.com/haqq-network/haqq/types"
	erc20types "github.com/haqq-network/haqq/x/erc20/types"
	lvtypes "github.com/haqq-network/haqq/x/liquidvesting/types"
	vestingtypes "github.com/haqq-network/haqq/x/vesting/types"
)

func init() { register("liquid", liquidDriver) }

const (
	lqNA    = 4
	lqT0    = int64(1_700_000_000)
	lqDenom = "aISLM"
)

// ---------------------------------------------------------------- periods
// lqP is a period projected on one denomination: (length, amount).
type lqP struct {
	L int64
	A *big.Int
}

func (p lqP) MarshalJSON() ([]byte, error) {
	return json.Marshal([]interface{}{p.L, p.A.String()})
}
func (p *lqP) UnmarshalJSON(b []byte) error {
	var raw []json.RawMessage
	if err := json.Unmarshal(b, &raw); err != nil {
		return err
	}
	if len(raw) != 2 {
		return fmt.Errorf("period: want [length, \"amount\"]")
	}
	if err := json.Unmarshal(raw[0], &p.L); err != nil {
		return err
	}
	var s string
	if err := json.Unmarshal(raw[1], &s); err != nil {
		return err
	}
	v, ok := new(big.Int).SetString(s, 10)
	if !ok {
		return fmt.Errorf("bad int %q", s)
	}
	p.A = v
	return nil
}

func lqCoqPs(ps []lqP) string {
	out := make([]string, 0, len(ps))
	for _, p := range ps {
		out = append(out, fmt.Sprintf("(%s, %s)", coqZi(p.L), coqZ(p.A)))
	}
	return coqList(out)
}

func lqProject(ps sdkvesting.Periods, denom string) []lqP {
	out := make([]lqP, 0, len(ps))
	for _, p := range ps {
		out = append(out, lqP{p.Length, new(big.Int).Set(p.Amount.AmountOf(denom).BigInt())})
	}
	return out
}

func lqTotal(ps []lqP) *big.Int {
	t := big.NewInt(0)
	for _, p := range ps {
		t.Add(t, p.A)
	}
	return t
}

func lqTotalLen(ps []lqP) int64 {
	var t int64
	for _, p := range ps {
		t += p.L
	}
	return t
}

// lqEv is the reference meaning of a schedule: the sum of the amounts of all
// events whose absolute time (start + cumulative length) is <= t.
func lqEv(start int64, ps []lqP, t int64) *big.Int {
	s := big.NewInt(0)
	at := start
	for _, p := range ps {
		at += p.L
		if at <= t {
			s.Add(s, p.A)
		}
	}
	return s
}

// lqBoundaries adds the absolute event times of a schedule, each -1/0/+1.
func lqBoundaries(set map[int64]bool, start int64, ps []lqP) {
	at := start
	for _, d := range []int64{-1, 0, 1} {
		set[start+d] = true
	}
	for _, p := range ps {
		at += p.L
		for _, d := range []int64{-1, 0, 1} {
			set[at+d] = true
		}
	}
}

func lqSortedTimes(set map[int64]bool) []int64 {
	ts := make([]int64, 0, len(set))
	for t := range set {
		ts = append(ts, t)
	}
	sort.Slice(ts, func(i, j int) bool { return ts[i] < ts[j] })
	return ts
}

func lqCoinsMap(cs sdk.Coins) (map[string]*big.Int, bool) {
	m := map[string]*big.Int{}
	neg := false
	for _, c := range cs {
		if c.Amount.IsNil() {
			continue
		}
		v := c.Amount.BigInt()
		if v.Sign() < 0 {
			neg = true
		}
		if v.Sign() == 0 {
			continue
		}
		if old, ok := m[c.Denom]; ok {
			m[c.Denom] = new(big.Int).Add(old, v)
		} else {
			m[c.Denom] = new(big.Int).Set(v)
		}
	}
	return m, neg
}

func lqMapsEqual(a, b map[string]*big.Int) bool {
	if len(a) != len(b) {
		return false
	}
	for k, v := range a {
		w, ok := b[k]
		if !ok || v.Cmp(w) != 0 {
			return false
		}
	}
	return true
}

// ================================================================ pure cases
type lqPurePer struct {
	L int64       `json:"l"`
	A string      `json:"a"`           // amount of the split denomination
	O [][2]string `json:"o,omitempty"` // other coins of the period: [denom, amount]
}

type lqPureIn struct {
	Kind  string      `json:"kind"` // "pure"
	Fn    string      `json:"fn"`   // sub | extract | tail | shift
	Denom string      `json:"denom,omitempty"`
	Ps    []lqPurePer `json:"ps"`
	Sub   string      `json:"sub,omitempty"`
	Repl  []lqPurePer `json:"repl,omitempty"`
	S     int64       `json:"s,omitempty"`
	E     int64       `json:"e,omitempty"`
	T     int64       `json:"t,omitempty"`
}

func lqBig(s string) *big.Int {
	v, ok := new(big.Int).SetString(s, 10)
	if !ok {
		return big.NewInt(0)
	}
	return v
}

func lqPurePeriods(ps []lqPurePer, denom string) sdkvesting.Periods {
	out := make(sdkvesting.Periods, 0, len(ps))
	for _, p := range ps {
		cs := []sdk.Coin{}
		if a := lqBig(p.A); a.Sign() > 0 {
			cs = append(cs, sdk.NewCoin(denom, math.NewIntFromBigInt(a)))
		}
		for _, o := range p.O {
			if a := lqBig(o[1]); a.Sign() > 0 && o[0] != denom {
				cs = append(cs, sdk.NewCoin(o[0], math.NewIntFromBigInt(a)))
			}
		}
		out = append(out, sdkvesting.Period{Length: p.L, Amount: sdk.NewCoins(cs...)})
	}
	return out
}

func lqCopyPeriods(ps sdkvesting.Periods) sdkvesting.Periods {
	out := make(sdkvesting.Periods, len(ps))
	for i, p := range ps {
		cs := make(sdk.Coins, len(p.Amount))
		for j, c := range p.Amount {
			cs[j] = sdk.Coin{Denom: c.Denom, Amount: math.NewIntFromBigInt(new(big.Int).Set(c.Amount.BigInt()))}
		}
		out[i] = sdkvesting.Period{Length: p.Length, Amount: cs}
	}
	return out
}

func lqPeriodEq(a, b sdkvesting.Period) bool {
	ma, _ := lqCoinsMap(a.Amount)
	mb, _ := lqCoinsMap(b.Amount)
	return a.Length == b.Length && lqMapsEqual(ma, mb)
}

type lqPureObs struct {
	Err      string   `json:"err,omitempty"`
	Dec      []lqP    `json:"dec,omitempty"`
	Diff     []lqP    `json:"diff,omitempty"`
	DecFull  []string `json:"dec_coins,omitempty"`
	DiffFull []string `json:"diff_coins,omitempty"`
	Upcoming []lqP    `json:"upcoming,omitempty"`
	Past     []lqP    `json:"past,omitempty"`
	Res      []lqP    `json:"res,omitempty"`
	Shift    *int64   `json:"shift,omitempty"`
}

func lqCoinsStrings(ps sdkvesting.Periods) []string {
	out := []string{}
	for _, p := range ps {
		out = append(out, fmt.Sprintf("%d:%s", p.Length, p.Amount.String()))
	}
	return out
}

func lqTagSet(m map[string]bool) []string {
	tl := make([]string, 0, len(m))
	for t := range m {
		tl = append(tl, t)
	}
	sort.Strings(tl)
	return tl
}

var lq2_100 = new(big.Int).Lsh(big.NewInt(1), 100)

func lqShapeTags(tags map[string]bool, ps []lqP) {
	tags[fmt.Sprintf("n=%d", len(ps))] = true
	for _, p := range ps {
		if p.A.Sign() == 0 {
			tags["zero-amt-periods"] = true
		}
		if p.L == 0 {
			tags["zero-len-periods"] = true
		}
		if p.A.Cmp(lq2_100) >= 0 {
			tags["amt>=2^100"] = true
		}
	}
}

func lqRunPure(id string, in lqPureIn) Case {
	in.Kind = "pure"
	denom := in.Denom
	if denom == "" {
		denom = lqDenom
	}
	ps := lqPurePeriods(in.Ps, denom)
	ps0 := lqCopyPeriods(ps) // pristine copy: the oracle never reads what the callee might have touched
	proj := lqProject(ps0, denom)
	tags := map[string]bool{}
	lqShapeTags(tags, proj)
	obs := lqPureObs{}
	coq, msg := "", ""
	nontrivial := false
	panicked := ""
	call := func(f func()) {
		defer func() {
			if r := recover(); r != nil {
				panicked = fmt.Sprintf("panic: %v", r)
			}
		}()
		f()
	}
	switch in.Fn {
	case "sub":
		sub := lqBig(in.Sub)
		if sub.Sign() < 0 {
			sub = big.NewInt(0)
		}
		for _, p := range in.Ps {
			if len(p.O) > 0 {
				tags["multi-denom"] = true
			}
		}
		var dec, diff sdkvesting.Periods
		var err error
		call(func() {
			dec, diff, err = lvtypes.SubtractAmountFromPeriods(ps, sdk.NewCoin(denom, math.NewIntFromBigInt(sub)))
		})
		total := lqTotal(proj)
		switch {
		case sub.Cmp(total) == 0:
			tags["sub=total"] = true
		case sub.Cmp(new(big.Int).Add(total, big.NewInt(1))) == 0:
			tags["sub=total+1"] = true
		case sub.Cmp(new(big.Int).Sub(total, big.NewInt(1))) == 0:
			tags["sub=total-1"] = true
		}
		if sub.Cmp(big.NewInt(1)) == 0 {
			tags["sub=1"] = true
		}
		if sub.Sign() == 0 {
			tags["sub=0"] = true
		}
		if total.Sign() == 0 {
			tags["total=0"] = true
		}
		if lqMulOverflows(proj, sub) {
			tags["amount*sub>=2^256"] = true
		}
		if panicked != "" {
			msg = panicked
			obs.Err = panicked
			coq = fmt.Sprintf("(PSub %s %s None)", lqCoqPs(proj), coqZ(sub))
			tags["pure:sub:panic"] = true
			break
		}
		if err != nil {
			obs.Err = err.Error()
			tags["pure:sub:err"] = true
			coq = fmt.Sprintf("(PSub %s %s None)", lqCoqPs(proj), coqZ(sub))
			if !(total.Cmp(sub) < 0 || total.Sign() == 0) {
				msg = fmt.Sprintf("subtracting %s from periods holding %s refused (%s)", sub, total, err)
			}
			break
		}
		tags["pure:sub:ok"] = true
		nontrivial = true
		pd, pf := lqProject(dec, denom), lqProject(diff, denom)
		obs.Dec, obs.Diff = pd, pf
		obs.DecFull, obs.DiffFull = lqCoinsStrings(dec), lqCoinsStrings(diff)
		coq = fmt.Sprintf("(PSub %s %s (Some (%s, %s)))", lqCoqPs(proj), coqZ(sub), lqCoqPs(pd), lqCoqPs(pf))
		if total.Sign() > 0 && sub.Sign() > 0 {
			fl := big.NewInt(0)
			for _, p := range proj {
				q := new(big.Int).Mul(p.A, sub)
				fl.Add(fl, q.Quo(q, total))
			}
			if fl.Cmp(sub) < 0 {
				tags["residue>0"] = true
			}
		}
		msg = lqOracleSub(ps0, denom, sub, total, dec, diff)
	case "extract":
		tags["pure:extract"] = true
		var up, past sdkvesting.Periods
		call(func() {
			up = lvtypes.ExtractUpcomingPeriods(in.S, in.E, ps, in.T)
			past = lvtypes.ExtractPastPeriods(in.S, in.E, ps, in.T)
		})
		if panicked != "" {
			msg = panicked
			obs.Err = panicked
			coq = fmt.Sprintf("(PExtract %s %s %s %s [] [])", coqZi(in.S), coqZi(in.E), lqCoqPs(proj), coqZi(in.T))
			break
		}
		nontrivial = true
		pu, pp := lqProject(up, denom), lqProject(past, denom)
		obs.Upcoming, obs.Past = pu, pp
		coq = fmt.Sprintf("(PExtract %s %s %s %s %s %s)", coqZi(in.S), coqZi(in.E), lqCoqPs(proj), coqZi(in.T), lqCoqPs(pu), lqCoqPs(pp))
		switch {
		case in.T <= in.S:
			tags["extract:t<=start"] = true
		case in.T >= in.E:
			tags["extract:t>=end"] = true
		default:
			tags["extract:inside"] = true
		}
		if len(past) > 0 && len(up) > 0 {
			tags["extract:both-nonempty"] = true
		}
		// past ++ upcoming is the input; inside (start, end) the cut is at t
		if len(past)+len(up) != len(ps0) {
			msg = fmt.Sprintf("past (%d) and upcoming (%d) periods do not partition the %d periods", len(past), len(up), len(ps0))
			break
		}
		for i := range ps0 {
			var q sdkvesting.Period
			if i < len(past) {
				q = past[i]
			} else {
				q = up[i-len(past)]
			}
			if !lqPeriodEq(ps0[i], q) {
				msg = fmt.Sprintf("period %d changed by the extraction", i)
			}
		}
		if msg == "" && in.S < in.T && in.T < in.E {
			at := in.S
			for i, p := range ps0 {
				at += p.Length
				if i < len(past) && at > in.T {
					msg = fmt.Sprintf("period %d ends at %d > t=%d but is reported as past", i, at, in.T)
					break
				}
				if i == len(past) && at <= in.T {
					msg = fmt.Sprintf("period %d ends at %d <= t=%d but is reported as upcoming", i, at, in.T)
					break
				}
			}
		}
	case "tail":
		tags["pure:tail"] = true
		repl := lqPurePeriods(in.Repl, denom)
		repl0 := lqCopyPeriods(repl)
		var res sdkvesting.Periods
		call(func() { res = lvtypes.ReplacePeriodsTail(ps, repl) })
		prepl := lqProject(repl0, denom)
		if panicked != "" {
			msg = panicked
			obs.Err = panicked
			coq = fmt.Sprintf("(PTail %s %s [])", lqCoqPs(proj), lqCoqPs(prepl))
			break
		}
		nontrivial = true
		pr := lqProject(res, denom)
		obs.Res = pr
		coq = fmt.Sprintf("(PTail %s %s %s)", lqCoqPs(proj), lqCoqPs(prepl), lqCoqPs(pr))
		switch {
		case len(repl0) > len(ps0):
			tags["tail:longer"] = true
		case len(repl0) == len(ps0):
			tags["tail:same-length"] = true
		case len(repl0) == 0:
			tags["tail:empty"] = true
		default:
			tags["tail:shorter"] = true
		}
		keep := len(ps0) - len(repl0)
		if keep < 0 {
			keep = 0
		}
		if len(res) != keep+len(repl0) {
			msg = fmt.Sprintf("result has %d periods, expected %d kept + %d replaced", len(res), keep, len(repl0))
			break
		}
		for i := range res {
			want := sdkvesting.Period{}
			if i < keep {
				want = ps0[i]
			} else {
				want = repl0[i-keep]
			}
			if !lqPeriodEq(want, res[i]) {
				msg = fmt.Sprintf("period %d of the result is neither the untouched prefix nor the replacement", i)
			}
		}
	case "shift":
		tags["pure:shift"] = true
		var sh int64
		call(func() { sh = lvtypes.CurrentPeriodShift(in.S, in.T, ps) })
		if panicked != "" {
			msg = panicked
			obs.Err = panicked
			coq = fmt.Sprintf("(PShift %s %s %s 0%%Z)", coqZi(in.S), coqZi(in.T), lqCoqPs(proj))
			break
		}
		nontrivial = true
		obs.Shift = &sh
		coq = fmt.Sprintf("(PShift %s %s %s %s)", coqZi(in.S), coqZi(in.T), lqCoqPs(proj), coqZi(sh))
		if sh > 0 {
			tags["shift>0"] = true
		} else {
			tags["shift=0"] = true
		}
		if sh < 0 {
			msg = fmt.Sprintf("negative shift %d", sh)
			break
		}
		if in.S < in.T {
			at := in.S
			for i, p := range ps0 {
				if at+p.Length > in.T { // first period that contains now
					if at+sh != in.T {
						msg = fmt.Sprintf("period %d starts at %d and contains now=%d, shift is %d", i, at, in.T, sh)
					}
					break
				}
				at += p.Length
			}
		}
	default:
		msg = "unknown pure function " + in.Fn
	}
	kb, _ := json.Marshal(in)
	return Case{
		ID: id, Kind: "pure", Input: in, Obs: obs, Coq: coq, CoqList: "pure",
		OracleOK: msg == "", OracleMsg: msg, Nontrivial: nontrivial, Key: string(kb), Tags: lqTagSet(tags),
	}
}

// lqMulOverflows: some period amount times the subtrahend does not fit the 256
// bits of math.Int (only reachable with amounts far above the aISLM supply).
func lqMulOverflows(ps []lqP, sub *big.Int) bool {
	for _, p := range ps {
		if new(big.Int).Mul(p.A, sub).BitLen() > 256 {
			return true
		}
	}
	return false
}

// lqOracleSub: the split is exact (property C11, first sentence), on the full
// Coins of every period, by arithmetic on the returned lists only.
func lqOracleSub(ps0 sdkvesting.Periods, denom string, sub, total *big.Int, dec, diff sdkvesting.Periods) string {
	if total.Sign() <= 0 || sub.Sign() < 0 || sub.Cmp(total) > 0 {
		return fmt.Sprintf("subtracting %s from periods holding %s accepted", sub, total)
	}
	if len(dec) != len(ps0) || len(diff) != len(ps0) {
		return fmt.Sprintf("%d periods split into %d remaining and %d moved periods", len(ps0), len(dec), len(diff))
	}
	moved := big.NewInt(0)
	for i := range ps0 {
		if dec[i].Length != ps0[i].Length || diff[i].Length != ps0[i].Length {
			return fmt.Sprintf("period %d: lengths %d (original) %d (remaining) %d (moved)", i, ps0[i].Length, dec[i].Length, diff[i].Length)
		}
		mo, _ := lqCoinsMap(ps0[i].Amount)
		md, negd := lqCoinsMap(dec[i].Amount)
		mf, negf := lqCoinsMap(diff[i].Amount)
		if negd || negf {
			return fmt.Sprintf("period %d: negative amount (remaining %s, moved %s)", i, dec[i].Amount, diff[i].Amount)
		}
		for k := range mf {
			if k != denom {
				return fmt.Sprintf("period %d: moved part contains denomination %s", i, k)
			}
		}
		sum := map[string]*big.Int{}
		for k, v := range md {
			sum[k] = new(big.Int).Set(v)
		}
		for k, v := range mf {
			if old, ok := sum[k]; ok {
				sum[k] = new(big.Int).Add(old, v)
			} else {
				sum[k] = new(big.Int).Set(v)
			}
		}
		if !lqMapsEqual(sum, mo) {
			return fmt.Sprintf("period %d: remaining %s + moved %s != original %s", i, dec[i].Amount, diff[i].Amount, ps0[i].Amount)
		}
		if v, ok := mf[denom]; ok {
			moved.Add(moved, v)
		}
	}
	if moved.Cmp(sub) != 0 {
		return fmt.Sprintf("moved total %s != requested %s", moved, sub)
	}
	return ""
}

// ---------------------------------------------------------------- pure generator
// big: also amounts up to 2^200, for which amount*sub exceeds the 256 bits of
// math.Int (SubtractAmountFromPeriods then panics with "integer overflow"; see
// lqOverflowClass); off unless -arg big=1.
func lqGenAmounts(r *Rng, n int, big200 bool) []*big.Int {
	out := make([]*big.Int, n)
	style := r.Intn(8)
	var eq *big.Int
	for i := range out {
		switch style {
		case 0: // small
			out[i] = big.NewInt(int64(r.Intn(100)))
		case 1: // many zero-amount periods
			if r.Chance(60) {
				out[i] = big.NewInt(0)
			} else {
				out[i] = big.NewInt(int64(1 + r.Intn(1000)))
			}
		case 2: // near 2^120
			out[i] = new(big.Int).Add(new(big.Int).Lsh(big.NewInt(1), 119), r.Big(119))
		case 3: // up to 2^200 (only with big=1), else up to 2^120
			if big200 && r.Chance(50) {
				out[i] = r.Big(200)
			} else {
				out[i] = r.Big(120)
			}
		case 4: // all equal
			if eq == nil {
				eq = new(big.Int).Add(r.Big([]int{3, 20, 64, 120}[r.Intn(4)]), big.NewInt(1))
			}
			out[i] = new(big.Int).Set(eq)
		case 5: // one huge + many tiny
			out[i] = big.NewInt(int64(r.Intn(4)))
		default:
			out[i] = r.Big([]int{8, 32, 64, 100}[r.Intn(4)])
		}
	}
	if style == 5 && n > 0 {
		top := 24
		if big200 {
			top = 90
		}
		out[r.Intn(n)] = new(big.Int).Add(new(big.Int).Lsh(big.NewInt(1), uint(100+r.Intn(top))), r.Big(64))
	}
	return out
}

func lqGenLengths(r *Rng, n int) []int64 {
	out := make([]int64, n)
	style := r.Intn(5)
	for i := range out {
		switch style {
		case 0: // many zero-length periods
			if r.Chance(60) {
				out[i] = 0
			} else {
				out[i] = int64(1 + r.Intn(50))
			}
		case 1:
			out[i] = int64(1 + r.Intn(100))
		case 2: // large
			out[i] = int64(r.U64() % (1 << 36))
		default:
			switch r.Intn(4) {
			case 0:
				out[i] = 0
			case 1:
				out[i] = int64(1 + r.Intn(10))
			case 2:
				out[i] = int64(1 + r.Intn(100000))
			default:
				out[i] = int64(r.U64() % (1 << 30))
			}
		}
	}
	return out
}

func lqGenN(r *Rng) int {
	switch k := r.Intn(20); {
	case k == 0:
		return 0
	case k <= 2:
		return 1
	case k <= 4:
		return 2
	}
	return 3 + r.Intn(10)
}

func lqGenPurePeriods(r *Rng, n int, multi, big200 bool) []lqPurePer {
	am, ln := lqGenAmounts(r, n, big200), lqGenLengths(r, n)
	others := []string{"uatom", "zzz", "aAAA"} // sorts after / after / before aISLM
	nOther := 1 + r.Intn(2)
	r0 := r.Intn(3)
	out := make([]lqPurePer, n)
	for i := range out {
		out[i] = lqPurePer{L: ln[i], A: am[i].String()}
		if multi {
			for k := 0; k < nOther; k++ {
				if r.Chance(70) {
					out[i].O = append(out[i].O, [2]string{others[(r0+k)%3], new(big.Int).Add(r.Big(70), big.NewInt(1)).String()})
				}
			}
			if len(out[i].O) > 0 && r.Chance(15) {
				out[i].A = "0" // a period without the split denomination
			}
		}
	}
	return out
}

func lqGenPure(r *Rng, big200 bool) lqPureIn {
	in := lqPureIn{Kind: "pure"}
	k := r.Intn(100)
	n := lqGenN(r)
	switch {
	case k < 50:
		in.Fn = "sub"
		in.Ps = lqGenPurePeriods(r, n, r.Chance(22), big200)
		total := big.NewInt(0)
		for _, p := range in.Ps {
			total.Add(total, lqBig(p.A))
		}
		var sub *big.Int
		switch c := r.Intn(20); {
		case c < 4:
			sub = new(big.Int).Set(total)
		case c < 6:
			sub = big.NewInt(1)
		case c == 6:
			sub = big.NewInt(0)
		case c == 7:
			sub = new(big.Int).Sub(total, big.NewInt(1))
		case c == 8:
			sub = new(big.Int).Add(total, big.NewInt(1))
		case c == 9:
			sub = new(big.Int).Add(total, new(big.Int).Add(r.Big(64), big.NewInt(1)))
		default:
			sub = new(big.Int).Add(r.Below(total), big.NewInt(1))
		}
		if sub.Sign() < 0 {
			sub = big.NewInt(0)
		}
		in.Sub = sub.String()
	case k < 70, k >= 80:
		in.Ps = lqGenPurePeriods(r, n, false, false)
		if r.Chance(70) { // keep times in a realistic window most of the time
			for i := range in.Ps {
				in.Ps[i].L %= 5000
			}
		}
		in.S = lqT0 - int64(r.Intn(5000))
		var tl int64
		ends := []int64{in.S}
		for _, p := range in.Ps {
			tl += p.L
			ends = append(ends, in.S+tl)
		}
		in.E = in.S + tl
		if r.Chance(35) {
			in.E += int64(1 + r.Intn(3000))
		}
		switch c := r.Intn(10); {
		case c < 6:
			in.T = ends[r.Intn(len(ends))] + int64(r.Intn(3)-1)
		case c == 6:
			in.T = in.S - int64(r.Intn(100))
		case c == 7:
			in.T = in.E + int64(r.Intn(3)-1)
		case c == 8:
			in.T = in.E + int64(r.Intn(5000))
		default:
			in.T = in.S + int64(r.U64()%uint64(in.E-in.S+2))
		}
		if k < 70 {
			in.Fn = "extract"
		} else {
			in.Fn = "shift"
			in.E = 0
		}
	default:
		in.Fn = "tail"
		in.Ps = lqGenPurePeriods(r, n, false, false)
		m := lqGenN(r)
		switch r.Intn(5) {
		case 0:
			m = n
		case 1:
			if n > 0 {
				m = r.Intn(n + 1)
			}
		}
		in.Repl = lqGenPurePeriods(r, m, false, false)
	}
	return in
}

// ================================================================ histories
type lqOp struct {
	Op    string `json:"op"` // mkvest fund params liq redeem xfer | probe | delegate clawback (outside the Coq model)
	A     int    `json:"a,omitempty"`
	Start int64  `json:"start,omitempty"`
	Lock  []lqP  `json:"lock,omitempty"`
	Vest  []lqP  `json:"vest,omitempty"`
	X     string `json:"x,omitempty"`
	En    bool   `json:"en,omitempty"`
	Min   string `json:"min,omitempty"`
	T     int64  `json:"t,omitempty"`
	From  int    `json:"from,omitempty"`
	To    int    `json:"to,omitempty"`
	D     int    `json:"d,omitempty"`
	Via   string `json:"via,omitempty"` // xfer: "send" (bank MsgSend) or "multisend" (bank MsgMultiSend), not part of the model; mkvest: "msg" = by MsgConvertIntoVestingAccount (outside the model)
	Ts    []int64 `json:"ts,omitempty"` // probe only: the block time advances through these values
}

type lqHistIn struct {
	Kind string `json:"kind"` // "hist"
	Ops  []lqOp `json:"ops"`
}

func (op lqOp) x() *big.Int { return lqBig(op.X) }

func (op lqOp) coq() string {
	switch op.Op {
	case "mkvest":
		return fmt.Sprintf("(MkVest %s %s %s %s)", coqN(op.A), coqZi(op.Start), lqCoqPs(op.Lock), lqCoqPs(op.Vest))
	case "fund":
		return fmt.Sprintf("(Fund %s %s)", coqN(op.A), coqZ(op.x()))
	case "params":
		return fmt.Sprintf("(SetParams %s %s)", coqBool(op.En), coqZ(lqBig(op.Min)))
	case "liq":
		return fmt.Sprintf("(Liquidate %s %s %s %s)", coqZi(op.T), coqN(op.From), coqN(op.To), coqZ(op.x()))
	case "redeem":
		return fmt.Sprintf("(Redeem %s %s %s %s %s)", coqZi(op.T), coqN(op.From), coqN(op.To), coqN(op.D), coqZ(op.x()))
	case "xfer":
		return fmt.Sprintf("(Xfer %s %s %s %s)", coqN(op.From), coqN(op.To), coqN(op.D), coqZ(op.x()))
	case "probe":
		ts := make([]string, 0, len(op.Ts))
		for _, t := range op.Ts {
			ts = append(ts, coqZi(t))
		}
		return fmt.Sprintf("(Probe %s)", coqList(ts))
	}
	panic("bad op " + op.Op)
}

func (op lqOp) valid() error {
	okA := func(a int) bool { return a >= 0 && a < lqNA }
	switch op.Op {
	case "mkvest", "fund", "delegate", "clawback":
		if !okA(op.A) {
			return fmt.Errorf("account %d out of range", op.A)
		}
	case "params", "probe":
	case "liq", "redeem", "xfer":
		if !okA(op.From) || !okA(op.To) || op.D < 0 {
			return fmt.Errorf("account / denom out of range")
		}
	default:
		return fmt.Errorf("unknown op %q", op.Op)
	}
	return nil
}

type lqAcct struct {
	Start, End int64
	Orig       *big.Int
	Lock, Vest []lqP
}

type lqDen struct {
	Start, End int64
	Ps         []lqP
}

type lqSnap struct {
	Bank    [lqNA]*big.Int
	Accts   [lqNA]*lqAcct
	Escrow  *big.Int
	Counter int
	Denoms  map[int]*lqDen
	HoldB   [][lqNA]*big.Int // bank coins of aLIQUID<d>
	HoldE   [][lqNA]*big.Int // ERC20 tokens of the pair's contract
	Supply  []*big.Int
	Stray   string
	Deleg   [lqNA]*big.Int // bonded + unbonding tokens of the account (staking keeper)
	DelRec  [lqNA]*big.Int // DelegatedFree + DelegatedVesting recorded on the vesting account
}

func (s *lqSnap) hold(d, a int) *big.Int {
	if d < 0 || d >= len(s.HoldB) {
		return big.NewInt(0)
	}
	return new(big.Int).Add(s.HoldB[d][a], s.HoldE[d][a])
}

var lqModAddr = authtypes.NewModuleAddress(lvtypes.ModuleName)
var lqErc20Addr = authtypes.NewModuleAddress(erc20types.ModuleName)

func lqLiquidName(d int) string { return lvtypes.DenomBaseNameFromID(uint64(d)) }

func lqSnapshot(e *Env) *lqSnap {
	s := &lqSnap{Denoms: map[int]*lqDen{}}
	stray := func(f string, a ...interface{}) {
		if s.Stray == "" {
			s.Stray = fmt.Sprintf(f, a...)
		}
	}
	bk := e.App.BankKeeper
	for a := 0; a < lqNA; a++ {
		s.Bank[a] = bk.GetBalance(e.Ctx, addrN(a), lqDenom).Amount.BigInt()
		s.Deleg[a] = e.App.StakingKeeper.GetDelegatorBonded(e.Ctx, addrN(a)).Add(e.App.StakingKeeper.GetDelegatorUnbonding(e.Ctx, addrN(a))).BigInt()
		s.DelRec[a] = big.NewInt(0)
		acc := e.App.AccountKeeper.GetAccount(e.Ctx, addrN(a))
		if acc == nil {
			stray("account %d disappeared", a)
			continue
		}
		va, ok := acc.(*vestingtypes.ClawbackVestingAccount)
		if !ok {
			continue
		}
		one := func(what string, cs sdk.Coins) {
			for _, c := range cs {
				if c.Denom != lqDenom {
					stray("account %d: %s contains %s", a, what, c)
				}
			}
		}
		one("original vesting", va.OriginalVesting)
		for _, p := range va.LockupPeriods {
			one("a lockup period", p.Amount)
		}
		for _, p := range va.VestingPeriods {
			one("a vesting period", p.Amount)
		}
		s.DelRec[a] = va.DelegatedFree.Add(va.DelegatedVesting...).AmountOf(lqDenom).BigInt()
		s.Accts[a] = &lqAcct{
			Start: va.StartTime.Unix(), End: va.EndTime,
			Orig: new(big.Int).Set(va.OriginalVesting.AmountOf(lqDenom).BigInt()),
			Lock: lqProject(va.LockupPeriods, lqDenom), Vest: lqProject(va.VestingPeriods, lqDenom),
		}
	}
	s.Escrow = bk.GetBalance(e.Ctx, lqModAddr, lqDenom).Amount.BigInt()
	s.Counter = int(e.App.LiquidVestingKeeper.GetDenomCounter(e.Ctx))
	for d := 0; d < s.Counter; d++ {
		name := lqLiquidName(d)
		if den, found := e.App.LiquidVestingKeeper.GetDenom(e.Ctx, name); found {
			if den.OriginalDenom != lqDenom {
				stray("liquid denom %s records original denom %q", name, den.OriginalDenom)
			}
			for _, p := range den.LockupPeriods {
				for _, c := range p.Amount {
					if c.Denom != lqDenom {
						stray("liquid denom %s: a period contains %s", name, c)
					}
				}
			}
			s.Denoms[d] = &lqDen{Start: den.StartTime.Unix(), End: den.EndTime.Unix(), Ps: lqProject(den.LockupPeriods, lqDenom)}
		}
		var hb, he [lqNA]*big.Int
		sumAll, sumE := big.NewInt(0), big.NewInt(0)
		var pair *erc20types.TokenPair
		if pid := e.App.Erc20Keeper.GetTokenPairID(e.Ctx, name); len(pid) > 0 {
			if p, ok := e.App.Erc20Keeper.GetTokenPair(e.Ctx, pid); ok {
				pair = &p
			}
		}
		for a := 0; a < lqNA; a++ {
			hb[a] = bk.GetBalance(e.Ctx, addrN(a), name).Amount.BigInt()
			he[a] = big.NewInt(0)
			if pair != nil {
				v := e.App.Erc20Keeper.BalanceOf(e.Ctx, contracts.ERC20MinterBurnerDecimalsContract.ABI, pair.GetERC20Contract(), common.BytesToAddress(addrN(a).Bytes()))
				if v == nil {
					stray("balanceOf(%s, account %d) failed", name, a)
				} else {
					he[a] = v
				}
			}
			sumE.Add(sumE, he[a])
			sumAll.Add(sumAll, hb[a])
			sumAll.Add(sumAll, he[a])
		}
		s.HoldB = append(s.HoldB, hb)
		s.HoldE = append(s.HoldE, he)
		sup := bk.GetSupply(e.Ctx, name).Amount.BigInt()
		s.Supply = append(s.Supply, sup)
		if esc := bk.GetBalance(e.Ctx, lqErc20Addr, name).Amount.BigInt(); esc.Cmp(sumE) != 0 {
			stray("%s: the erc20 module escrows %s coins but the four accounts hold %s ERC20 tokens", name, esc, sumE)
		}
		if sup.Cmp(sumAll) != 0 {
			stray("%s: bank supply %s != %s held (coins + ERC20) by the four accounts", name, sup, sumAll)
		}
		if m := bk.GetBalance(e.Ctx, lqModAddr, name).Amount; !m.IsZero() {
			stray("the liquidvesting module account holds %s%s", m, name)
		}
	}
	return s
}

// observation as JSON
type lqAcctObs struct {
	Start int64  `json:"start"`
	End   int64  `json:"end"`
	Orig  string `json:"orig"`
	Lock  []lqP  `json:"lock"`
	Vest  []lqP  `json:"vest"`
}
type lqDenObs struct {
	ID    int   `json:"id"`
	Start int64 `json:"start"`
	End   int64 `json:"end"`
	Ps    []lqP `json:"periods"`
}
type lqStepObs struct {
	Res     int          `json:"res"`
	Err     string       `json:"err,omitempty"`
	Bank    []string     `json:"bank"`
	Accts   []*lqAcctObs `json:"accts"`
	Escrow  string       `json:"escrow"`
	Counter int          `json:"counter"`
	Denoms  []lqDenObs   `json:"denoms"`
	Liq     [][]string   `json:"liq"`    // denom, holder, tokens, of which bank coins
	Supply  [][]string   `json:"supply"` // denom, supply
	Locked  [][]string   `json:"locked,omitempty"` // per block time of the op: LockedCoins (aISLM) of the four accounts
}

func (s *lqSnap) obs(res int, err error, rows [][]*big.Int) (lqStepObs, string) {
	o := lqStepObs{Res: res, Escrow: s.Escrow.String(), Counter: s.Counter, Denoms: []lqDenObs{}, Liq: [][]string{}, Supply: [][]string{}}
	if err != nil {
		// the "lesser than %d" message of Liquidate prints a pointer: not canonical
		o.Err = lqPtrRe.ReplaceAllString(err.Error(), "{ptr}")
		if len(o.Err) > 200 {
			o.Err = o.Err[:200]
		}
	}
	bank, accts, dens, liq, sup := []string{}, []string{}, []string{}, []string{}, []string{}
	for a := 0; a < lqNA; a++ {
		o.Bank = append(o.Bank, s.Bank[a].String())
		bank = append(bank, coqZ(s.Bank[a]))
		if v := s.Accts[a]; v == nil {
			o.Accts = append(o.Accts, nil)
			accts = append(accts, "None")
		} else {
			o.Accts = append(o.Accts, &lqAcctObs{v.Start, v.End, v.Orig.String(), v.Lock, v.Vest})
			accts = append(accts, fmt.Sprintf("(Some (%s, %s, %s, %s, %s))", coqZi(v.Start), coqZi(v.End), coqZ(v.Orig), lqCoqPs(v.Lock), lqCoqPs(v.Vest)))
		}
	}
	for d := 0; d < s.Counter; d++ {
		if den, ok := s.Denoms[d]; ok {
			o.Denoms = append(o.Denoms, lqDenObs{d, den.Start, den.End, den.Ps})
			dens = append(dens, fmt.Sprintf("(%s, (%s, %s, %s))", coqN(d), coqZi(den.Start), coqZi(den.End), lqCoqPs(den.Ps)))
		}
		for a := 0; a < lqNA; a++ {
			if h := s.hold(d, a); h.Sign() != 0 {
				o.Liq = append(o.Liq, []string{fmt.Sprint(d), fmt.Sprint(a), h.String(), s.HoldB[d][a].String()})
				liq = append(liq, fmt.Sprintf("(%s, %s, %s)", coqN(d), coqN(a), coqZ(h)))
			}
		}
		if s.Supply[d].Sign() != 0 {
			o.Supply = append(o.Supply, []string{fmt.Sprint(d), s.Supply[d].String()})
			sup = append(sup, fmt.Sprintf("(%s, %s)", coqN(d), coqZ(s.Supply[d])))
		}
	}
	lockedRows := []string{}
	for _, row := range rows {
		js, cs := []string{}, []string{}
		for _, v := range row {
			js = append(js, v.String())
			cs = append(cs, coqZ(v))
		}
		o.Locked = append(o.Locked, js)
		lockedRows = append(lockedRows, coqList(cs))
	}
	c := fmt.Sprintf("(mkobs %s %s %s %s %s %s %s %s %s)", coqN(res), coqList(bank), coqList(accts), coqZ(s.Escrow), coqN(s.Counter),
		coqList(dens), coqList(liq), coqList(sup), coqList(lockedRows))
	return o, c
}

var lqPtrRe = regexp.MustCompile(`\{\d+\}`)

func lqErrCode(err error) int {
	switch {
	case err == nil:
		return 0
	case errors.Is(err, lvtypes.ErrModuleIsDisabled):
		return 1
	case errors.Is(err, lvtypes.ErrLiquidationFailed):
		return 4
	case errors.Is(err, lvtypes.ErrRedeemFailed):
		return 6
	case errors.Is(err, sdkerrors.ErrInvalidRequest):
		return 2
	case errors.Is(err, sdkerrors.ErrNotFound):
		return 3
	case errors.Is(err, sdkerrors.ErrInvalidCoins):
		return 5
	case errors.Is(err, sdkerrors.ErrInsufficientFunds):
		return 7
	}
	return 9
}

// ---------------------------------------------------------------- environment
var lqBase *Env

// lqFork: a fresh copy-on-write view of the application in which the four
// accounts exist as EthAccounts, liquid vesting is enabled with minimum amount 1
// and the block header names the genesis validator as proposer (EVM coinbase).
func lqFork() *Env {
	if lqBase == nil {
		e := forkEnv()
		vals := e.App.StakingKeeper.GetAllValidators(e.Ctx)
		if len(vals) == 0 {
			panic("no validator in genesis")
		}
		cons, err := vals[0].GetConsAddr()
		if err != nil {
			panic(err)
		}
		hdr := e.Ctx.BlockHeader()
		hdr.ProposerAddress = cons
		e.Ctx = e.Ctx.WithBlockHeader(hdr).WithGasMeter(sdk.NewInfiniteGasMeter())
		e.App.EvmKeeper.WithChainID(e.Ctx)
		for a := 0; a < lqNA; a++ {
			acc := e.App.AccountKeeper.NewAccount(e.Ctx, &haqqtypes.EthAccount{
				BaseAccount: authtypes.NewBaseAccountWithAddress(addrN(a)),
				CodeHash:    common.BytesToHash(crypto.Keccak256(nil)).String(),
			})
			e.App.AccountKeeper.SetAccount(e.Ctx, acc)
		}
		if err := e.App.LiquidVestingKeeper.SetParams(e.Ctx, lvtypes.NewParams(math.NewInt(1), true)); err != nil {
			panic(err)
		}
		lqBase = e
	}
	cctx, _ := lqBase.Ctx.CacheContext()
	return &Env{App: lqBase.App, Ctx: cctx, ValPub: lqBase.ValPub}
}

func lqSdkPeriods(ps []lqP) sdkvesting.Periods {
	out := make(sdkvesting.Periods, 0, len(ps))
	for _, p := range ps {
		cs := sdk.NewCoins()
		if p.A.Sign() > 0 {
			cs = sdk.NewCoins(sdk.NewCoin(lqDenom, math.NewIntFromBigInt(p.A)))
		}
		out = append(out, sdkvesting.Period{Length: p.L, Amount: cs})
	}
	return out
}

var errLqSetup = errors.New("set-up op refused by the harness")
var errLqXferAmount = errors.New("non-positive transfer amount")
var errLqXferFunds = errors.New("holder has not enough liquid tokens")

// lqApply runs one op on the real application; the int is the result code.
func lqApply(e *Env, op lqOp, pre *lqSnap) (int, error) {
	switch op.Op {
	case "mkvest":
		acc := e.App.AccountKeeper.GetAccount(e.Ctx, addrN(op.A))
		if _, is := acc.(*vestingtypes.ClawbackVestingAccount); is {
			return 8, errLqSetup
		}
		if op.Via == "msg" {
			// the real message of x/vesting, signed by a funder of its own (outside the Coq model)
			if op.T != 0 {
				e.Ctx = e.Ctx.WithBlockTime(time.Unix(op.T, 0).UTC())
			}
			if t := lqTotal(op.Lock); t.Sign() > 0 {
				if err := testutil.FundAccount(e.Ctx, e.App.BankKeeper, lqFunderAddr, sdk.NewCoins(sdk.NewCoin(lqDenom, math.NewIntFromBigInt(t)))); err != nil {
					return 9, err
				}
			}
			_, err := e.runMsg(vestingtypes.NewMsgConvertIntoVestingAccount(lqFunderAddr, addrN(op.A), time.Unix(op.Start, 0).UTC(),
				lqSdkPeriods(op.Lock), lqSdkPeriods(op.Vest), false, false, nil))
			return lqErrCode(err), err
		}
		for _, p := range append(append([]lqP{}, op.Lock...), op.Vest...) {
			if p.L < 0 || p.A.Sign() < 0 {
				return 8, errLqSetup
			}
		}
		total := lqTotal(op.Lock)
		if total.Cmp(lqTotal(op.Vest)) != 0 {
			return 8, errLqSetup
		}
		eth, ok := acc.(*haqqtypes.EthAccount)
		if !ok {
			return 9, fmt.Errorf("account %d is a %T", op.A, acc)
		}
		orig := sdk.NewCoins()
		if total.Sign() > 0 {
			orig = sdk.NewCoins(sdk.NewCoin(lqDenom, math.NewIntFromBigInt(total)))
		}
		va := vestingtypes.NewClawbackVestingAccount(eth.GetBaseAccount(), lqModAddr, orig, time.Unix(op.Start, 0).UTC(),
			lqSdkPeriods(op.Lock), lqSdkPeriods(op.Vest), nil)
		if total.Sign() > 0 {
			if err := testutil.FundAccount(e.Ctx, e.App.BankKeeper, addrN(op.A), orig); err != nil {
				return 9, err
			}
		}
		e.App.AccountKeeper.SetAccount(e.Ctx, va)
		return 0, nil
	case "fund":
		x := op.x()
		if x.Sign() < 0 {
			return 8, errLqSetup
		}
		if x.Sign() == 0 {
			return 0, nil
		}
		if err := testutil.FundAccount(e.Ctx, e.App.BankKeeper, addrN(op.A), sdk.NewCoins(sdk.NewCoin(lqDenom, math.NewIntFromBigInt(x)))); err != nil {
			return 9, err
		}
		return 0, nil
	case "params":
		m := lqBig(op.Min)
		if m.Sign() <= 0 {
			return 8, errLqSetup
		}
		if err := e.App.LiquidVestingKeeper.SetParams(e.Ctx, lvtypes.NewParams(math.NewIntFromBigInt(m), op.En)); err != nil {
			return 9, err
		}
		return 0, nil
	case "liq":
		e.Ctx = e.Ctx.WithBlockTime(time.Unix(op.T, 0).UTC())
		_, err := e.runMsg(&lvtypes.MsgLiquidate{
			LiquidateFrom: addrN(op.From).String(), LiquidateTo: addrN(op.To).String(),
			Amount: sdk.Coin{Denom: lqDenom, Amount: math.NewIntFromBigInt(op.x())},
		})
		return lqErrCode(err), err
	case "redeem":
		e.Ctx = e.Ctx.WithBlockTime(time.Unix(op.T, 0).UTC())
		_, err := e.runMsg(&lvtypes.MsgRedeem{
			RedeemFrom: addrN(op.From).String(), RedeemTo: addrN(op.To).String(),
			Amount: sdk.Coin{Denom: lqLiquidName(op.D), Amount: math.NewIntFromBigInt(op.x())},
		})
		return lqErrCode(err), err
	case "xfer":
		x := op.x()
		if x.Sign() <= 0 {
			return 5, errLqXferAmount
		}
		if pre.hold(op.D, op.From).Cmp(x) < 0 {
			return 7, errLqXferFunds
		}
		// all messages of the transfer on one cache: all-or-nothing
		cctx, write := e.Ctx.CacheContext()
		sub := &Env{App: e.App, Ctx: cctx, ValPub: e.ValPub}
		name := lqLiquidName(op.D)
		from := addrN(op.From)
		coins := sdk.NewCoins(sdk.NewCoin(name, math.NewIntFromBigInt(x)))
		if op.Via == "multisend" || op.From == op.To {
			// coins on the bank layer: convert the shortfall out of the ERC20
			// contract (as Redeem does), then MsgMultiSend (no ERC20 hook)
			if bal := pre.HoldB[op.D][op.From]; bal.Cmp(x) < 0 {
				pid := e.App.Erc20Keeper.GetTokenPairID(e.Ctx, name)
				pair, ok := e.App.Erc20Keeper.GetTokenPair(e.Ctx, pid)
				if !ok {
					return 9, fmt.Errorf("no token pair for %s", name)
				}
				short := new(big.Int).Sub(x, bal)
				if _, err := sub.runMsg(erc20types.NewMsgConvertERC20(math.NewIntFromBigInt(short), from, pair.GetERC20Contract(), common.BytesToAddress(from.Bytes()))); err != nil {
					return 9, fmt.Errorf("convert erc20: %w", err)
				}
			}
			msg := banktypes.NewMsgMultiSend([]banktypes.Input{banktypes.NewInput(from, coins)}, []banktypes.Output{banktypes.NewOutput(addrN(op.To), coins)})
			if _, err := sub.runMsg(msg); err != nil {
				return 9, fmt.Errorf("bank multisend: %w", err)
			}
		} else {
			// haqq's bank MsgSend moves a registered denom on the ERC20 layer: it
			// converts the sender's coins into tokens and calls transfer()
			if _, err := sub.runMsg(banktypes.NewMsgSend(from, addrN(op.To), coins)); err != nil {
				return 9, fmt.Errorf("bank send: %w", err)
			}
		}
		write()
		return 0, nil
	case "probe":
		// the block time itself is advanced by lqRunHist, one value after the other
		return 0, nil
	case "delegate":
		if op.T != 0 {
			e.Ctx = e.Ctx.WithBlockTime(time.Unix(op.T, 0).UTC())
		}
		vals := e.App.StakingKeeper.GetAllValidators(e.Ctx)
		if len(vals) == 0 {
			return 9, fmt.Errorf("no validator")
		}
		_, err := e.runMsg(&stakingtypes.MsgDelegate{DelegatorAddress: addrN(op.A).String(), ValidatorAddress: vals[0].GetOperator().String(),
			Amount: sdk.Coin{Denom: lqDenom, Amount: math.NewIntFromBigInt(op.x())}})
		return lqErrCode(err), err
	case "clawback":
		if op.T != 0 {
			e.Ctx = e.Ctx.WithBlockTime(time.Unix(op.T, 0).UTC())
		}
		funder := lqModAddr
		if va, ok := e.App.AccountKeeper.GetAccount(e.Ctx, addrN(op.A)).(*vestingtypes.ClawbackVestingAccount); ok {
			if f, err := sdk.AccAddressFromBech32(va.FunderAddress); err == nil {
				funder = f
			}
		}
		_, err := e.runMsg(vestingtypes.NewMsgClawback(funder, addrN(op.A), lqSinkAddr))
		return lqErrCode(err), err
	}
	return 9, fmt.Errorf("bad op")
}

// ---------------------------------------------------------------- oracle
func lqPsEq(a, b []lqP) bool {
	if len(a) != len(b) {
		return false
	}
	for i := range a {
		if a[i].L != b[i].L || a[i].A.Cmp(b[i].A) != 0 {
			return false
		}
	}
	return true
}

func lqAcctEq(a, b *lqAcct) bool {
	if a == nil || b == nil {
		return a == b
	}
	return a.Start == b.Start && a.End == b.End && a.Orig.Cmp(b.Orig) == 0 && lqPsEq(a.Lock, b.Lock) && lqPsEq(a.Vest, b.Vest)
}

// lqSame: which part of the state differs ("" = none); holdings are compared as
// totals (coins + ERC20) unless exact is set.
func lqSame(pre, post *lqSnap, exact bool, skipBank, skipAcct, skipHoldDenom int) string {
	for a := 0; a < lqNA; a++ {
		if a != skipBank && pre.Bank[a].Cmp(post.Bank[a]) != 0 {
			return fmt.Sprintf("aISLM balance of account %d changed from %s to %s", a, pre.Bank[a], post.Bank[a])
		}
		if a != skipAcct && !lqAcctEq(pre.Accts[a], post.Accts[a]) {
			return fmt.Sprintf("vesting record of account %d changed", a)
		}
	}
	for d := 0; d < pre.Counter && d < post.Counter; d++ {
		if d == skipHoldDenom {
			continue
		}
		for a := 0; a < lqNA; a++ {
			if pre.hold(d, a).Cmp(post.hold(d, a)) != 0 {
				return fmt.Sprintf("holding of aLIQUID%d by account %d changed from %s to %s", d, a, pre.hold(d, a), post.hold(d, a))
			}
			if exact && pre.HoldB[d][a].Cmp(post.HoldB[d][a]) != 0 {
				return fmt.Sprintf("aLIQUID%d coins of account %d changed from %s to %s", d, a, pre.HoldB[d][a], post.HoldB[d][a])
			}
		}
		if pre.Supply[d].Cmp(post.Supply[d]) != 0 {
			return fmt.Sprintf("supply of aLIQUID%d changed from %s to %s", d, pre.Supply[d], post.Supply[d])
		}
		dp, okp := pre.Denoms[d]
		dq, okq := post.Denoms[d]
		if okp != okq || (okp && (dp.Start != dq.Start || dp.End != dq.End || !lqPsEq(dp.Ps, dq.Ps))) {
			return fmt.Sprintf("schedule of aLIQUID%d changed", d)
		}
	}
	return ""
}

func lqOracle(op lqOp, res int, pre, post *lqSnap) string {
	if post.Stray != "" {
		return post.Stray
	}
	// (1) backing
	if post.Escrow.Sign() < 0 {
		return "negative escrow"
	}
	sumSupply := big.NewInt(0)
	for d := 0; d < post.Counter; d++ {
		if post.Supply[d].Sign() < 0 {
			return fmt.Sprintf("negative supply of aLIQUID%d", d)
		}
		sumSupply.Add(sumSupply, post.Supply[d])
		for a := 0; a < lqNA; a++ {
			if post.HoldB[d][a].Sign() < 0 || post.HoldE[d][a].Sign() < 0 {
				return fmt.Sprintf("negative holding of aLIQUID%d by account %d", d, a)
			}
		}
		if den, ok := post.Denoms[d]; ok {
			for i, p := range den.Ps {
				if p.A.Sign() < 0 {
					return fmt.Sprintf("aLIQUID%d: period %d has negative amount %s", d, i, p.A)
				}
			}
			if t := lqTotal(den.Ps); t.Cmp(post.Supply[d]) != 0 {
				return fmt.Sprintf("aLIQUID%d: recorded schedule sums to %s, supply is %s", d, t, post.Supply[d])
			}
		} else if post.Supply[d].Sign() != 0 {
			return fmt.Sprintf("aLIQUID%d is not registered but has supply %s", d, post.Supply[d])
		}
	}
	if sumSupply.Cmp(post.Escrow) != 0 {
		return fmt.Sprintf("liquid tokens in circulation %s != aISLM held by the module %s", sumSupply, post.Escrow)
	}
	for a := 0; a < lqNA; a++ {
		if post.Bank[a].Sign() < 0 {
			return fmt.Sprintf("negative balance of account %d", a)
		}
		if v := post.Accts[a]; v != nil {
			if v.Orig.Sign() < 0 {
				return fmt.Sprintf("account %d: negative original vesting", a)
			}
			for i, p := range v.Lock {
				if p.A.Sign() < 0 {
					return fmt.Sprintf("account %d: lockup period %d has negative amount %s", a, i, p.A)
				}
			}
		}
	}
	if res != 0 {
		if post.Counter != pre.Counter {
			return fmt.Sprintf("failed %s (code %d) changed the denom counter", op.Op, res)
		}
		if post.Escrow.Cmp(pre.Escrow) != 0 {
			return fmt.Sprintf("failed %s (code %d) changed the escrow", op.Op, res)
		}
		if m := lqSame(pre, post, true, -1, -1, -1); m != "" {
			return fmt.Sprintf("failed %s (code %d) had an effect: %s", op.Op, res, m)
		}
		return ""
	}
	x := op.x()
	switch op.Op {
	case "liq":
		return lqOracleLiq(op, x, pre, post)
	case "redeem":
		return lqOracleRedeem(op, x, pre, post)
	case "xfer":
		if post.Counter != pre.Counter || post.Escrow.Cmp(pre.Escrow) != 0 {
			return "transfer changed counter or escrow"
		}
		if m := lqSame(pre, post, false, -1, -1, op.D); m != "" {
			return "transfer: " + m
		}
		if op.D >= pre.Counter {
			return "transfer of an unknown denom succeeded"
		}
		for a := 0; a < lqNA; a++ {
			want := pre.hold(op.D, a)
			if a == op.From {
				want.Sub(want, x)
			}
			if a == op.To {
				want.Add(want, x)
			}
			if want.Cmp(post.hold(op.D, a)) != 0 {
				return fmt.Sprintf("transfer of %s aLIQUID%d %d->%d: account %d holds %s, expected %s", x, op.D, op.From, op.To, a, post.hold(op.D, a), want)
			}
		}
		if pre.Supply[op.D].Cmp(post.Supply[op.D]) != 0 {
			return "transfer changed the supply"
		}
		dp, dq := pre.Denoms[op.D], post.Denoms[op.D]
		if (dp == nil) != (dq == nil) || (dp != nil && (dp.Start != dq.Start || dp.End != dq.End || !lqPsEq(dp.Ps, dq.Ps))) {
			return "transfer changed the schedule of the denom"
		}
	case "probe":
		if post.Counter != pre.Counter || post.Escrow.Cmp(pre.Escrow) != 0 {
			return "the passing of time changed counter or escrow"
		}
		if m := lqSame(pre, post, true, -1, -1, -1); m != "" {
			return "the passing of time: " + m
		}
	case "delegate", "clawback":
		// not part of liquid vesting: only that nothing of the liquid-vesting state moves
		if post.Counter != pre.Counter || post.Escrow.Cmp(pre.Escrow) != 0 {
			return op.Op + " changed counter or escrow"
		}
		if m := lqSame(pre, post, true, op.A, op.A, -1); m != "" {
			return op.Op + ": " + m
		}
		if post.Bank[op.A].Cmp(pre.Bank[op.A]) > 0 {
			return op.Op + " increased the balance of the account"
		}
	}
	return ""
}

func lqOracleLiq(op lqOp, x *big.Int, pre, post *lqSnap) string {
	A, B := op.From, op.To
	if x.Sign() <= 0 {
		return "liquidation of a non-positive amount succeeded"
	}
	pa, qa := pre.Accts[A], post.Accts[A]
	if pa == nil || qa == nil {
		return "liquidation from an account without vesting record succeeded"
	}
	if len(pa.Lock) != len(qa.Lock) {
		return fmt.Sprintf("lockup schedule has %d periods after, %d before", len(qa.Lock), len(pa.Lock))
	}
	moved := big.NewInt(0)
	for i := range pa.Lock {
		if pa.Lock[i].L != qa.Lock[i].L {
			return fmt.Sprintf("lockup period %d: length changed from %d to %d", i, pa.Lock[i].L, qa.Lock[i].L)
		}
		d := new(big.Int).Sub(pa.Lock[i].A, qa.Lock[i].A)
		if qa.Lock[i].A.Sign() < 0 || d.Sign() < 0 {
			return fmt.Sprintf("lockup period %d: %s before, %s after", i, pa.Lock[i].A, qa.Lock[i].A)
		}
		moved.Add(moved, d)
	}
	if moved.Cmp(x) != 0 {
		return fmt.Sprintf("lockup schedule decreased by %s, requested %s", moved, x)
	}
	id := pre.Counter
	if post.Counter != id+1 {
		return fmt.Sprintf("denom counter %d -> %d", pre.Counter, post.Counter)
	}
	den := post.Denoms[id]
	if den == nil {
		return fmt.Sprintf("aLIQUID%d is not registered after the liquidation", id)
	}
	if post.Supply[id].Cmp(x) != 0 {
		return fmt.Sprintf("supply of aLIQUID%d is %s, liquidated %s", id, post.Supply[id], x)
	}
	for a := 0; a < lqNA; a++ {
		want := big.NewInt(0)
		if a == B {
			want = x
		}
		if post.hold(id, a).Cmp(want) != 0 {
			return fmt.Sprintf("account %d holds %s aLIQUID%d, expected %s", a, post.hold(id, a), id, want)
		}
	}
	if new(big.Int).Sub(pre.Bank[A], x).Cmp(post.Bank[A]) != 0 {
		return fmt.Sprintf("aISLM balance of the liquidating account %s -> %s, liquidated %s", pre.Bank[A], post.Bank[A], x)
	}
	if new(big.Int).Add(pre.Escrow, x).Cmp(post.Escrow) != 0 {
		return fmt.Sprintf("escrow %s -> %s, liquidated %s", pre.Escrow, post.Escrow, x)
	}
	if new(big.Int).Sub(pa.Orig, x).Cmp(qa.Orig) != 0 {
		return fmt.Sprintf("original vesting %s -> %s, liquidated %s", pa.Orig, qa.Orig, x)
	}
	if m := lqSame(pre, post, false, A, A, -1); m != "" {
		return "liquidation: " + m
	}
	// the split in time: what the token releases plus what stays on the account
	// is what the account released before, at every instant
	ts := map[int64]bool{op.T: true}
	lqBoundaries(ts, pa.Start, pa.Lock)
	lqBoundaries(ts, den.Start, den.Ps)
	for _, t := range lqSortedTimes(ts) {
		l := new(big.Int).Add(lqEv(den.Start, den.Ps, t), lqEv(qa.Start, qa.Lock, t))
		if r := lqEv(pa.Start, pa.Lock, t); l.Cmp(r) != 0 {
			return fmt.Sprintf("split in time at t=%d: liquid token releases %s, account keeps %s released, the original schedule released %s",
				t, lqEv(den.Start, den.Ps, t), lqEv(qa.Start, qa.Lock, t), r)
		}
	}
	return ""
}

func lqOracleRedeem(op lqOp, x *big.Int, pre, post *lqSnap) string {
	H, R, d := op.From, op.To, op.D
	if x.Sign() <= 0 {
		return "redeem of a non-positive amount succeeded"
	}
	if d >= pre.Counter || pre.Denoms[d] == nil {
		return "redeem of an unregistered denom succeeded"
	}
	if post.Counter != pre.Counter {
		return "redeem changed the denom counter"
	}
	for a := 0; a < lqNA; a++ {
		want := pre.hold(d, a)
		if a == H {
			want.Sub(want, x)
		}
		if want.Cmp(post.hold(d, a)) != 0 {
			return fmt.Sprintf("redeem of %s aLIQUID%d by %d: account %d holds %s, expected %s", x, d, H, a, post.hold(d, a), want)
		}
	}
	if new(big.Int).Sub(pre.Supply[d], x).Cmp(post.Supply[d]) != 0 {
		return fmt.Sprintf("supply %s -> %s, redeemed %s", pre.Supply[d], post.Supply[d], x)
	}
	if new(big.Int).Sub(pre.Escrow, x).Cmp(post.Escrow) != 0 {
		return fmt.Sprintf("escrow %s -> %s, redeemed %s", pre.Escrow, post.Escrow, x)
	}
	if new(big.Int).Add(pre.Bank[R], x).Cmp(post.Bank[R]) != 0 {
		return fmt.Sprintf("aISLM balance of the recipient %s -> %s, redeemed %s", pre.Bank[R], post.Bank[R], x)
	}
	if m := lqSame(pre, post, false, R, R, d); m != "" {
		return "redeem: " + m
	}
	dp, dq := pre.Denoms[d], post.Denoms[d]
	rel := make([]lqP, len(dp.Ps))
	if dq == nil {
		for i, p := range dp.Ps {
			rel[i] = lqP{p.L, new(big.Int).Set(p.A)}
		}
		if lqTotal(dp.Ps).Cmp(x) != 0 {
			return fmt.Sprintf("denom deleted although %s of %s were redeemed", x, lqTotal(dp.Ps))
		}
	} else {
		if dq.Start != dp.Start || dq.End != dp.End || len(dq.Ps) != len(dp.Ps) {
			return "start, end or number of periods of the denom's schedule changed"
		}
		for i := range dp.Ps {
			if dp.Ps[i].L != dq.Ps[i].L {
				return fmt.Sprintf("denom period %d: length changed", i)
			}
			df := new(big.Int).Sub(dp.Ps[i].A, dq.Ps[i].A)
			if df.Sign() < 0 || dq.Ps[i].A.Sign() < 0 {
				return fmt.Sprintf("denom period %d: %s before, %s after", i, dp.Ps[i].A, dq.Ps[i].A)
			}
			rel[i] = lqP{dp.Ps[i].L, df}
		}
		if lqTotal(rel).Cmp(x) != 0 {
			return fmt.Sprintf("denom schedule decreased by %s, redeemed %s", lqTotal(rel), x)
		}
		if lqTotal(dq.Ps).Sign() == 0 {
			return "denom with an empty schedule is still registered"
		}
	}
	// nothing is released earlier than the liquid token's schedule released it
	pr, qr := pre.Accts[R], post.Accts[R]
	origB, origA := big.NewInt(0), big.NewInt(0)
	ub := func(t int64) *big.Int {
		if pr == nil {
			return big.NewInt(0)
		}
		return lqEv(pr.Start, pr.Lock, t)
	}
	ua := func(t int64) *big.Int {
		if qr == nil {
			return big.NewInt(0)
		}
		return lqEv(qr.Start, qr.Lock, t)
	}
	ts := map[int64]bool{op.T: true}
	lqBoundaries(ts, dp.Start, dp.Ps)
	if pr != nil {
		origB = pr.Orig
		lqBoundaries(ts, pr.Start, pr.Lock)
	}
	if qr != nil {
		origA = qr.Orig
		lqBoundaries(ts, qr.Start, qr.Lock)
	}
	if pr != nil && qr == nil {
		return "redeem removed the recipient's vesting record"
	}
	for _, t := range lqSortedTimes(ts) {
		allowed := new(big.Int).Add(ub(t), lqEv(dp.Start, rel, t))
		if after := ua(t); after.Cmp(allowed) > 0 {
			if pr != nil && pr.Start < dp.Start {
				return fmt.Sprintf("redeem into existing vesting account released earlier: t=%d, after=%s, allowed=%s (account start %d, denom start %d)",
					t, after, allowed, pr.Start, dp.Start)
			}
			return fmt.Sprintf("redeem released earlier than the liquid schedule: t=%d, after=%s, allowed=%s", t, after, allowed)
		}
	}
	dOrig := new(big.Int).Sub(origA, origB)
	switch {
	case dOrig.Sign() == 0:
		if !lqAcctEq(pr, qr) {
			return "recipient's schedule changed although its original vesting did not"
		}
		if e := lqEv(dp.Start, rel, op.T); e.Cmp(x) != 0 {
			return fmt.Sprintf("coins returned without lock although the liquid schedule had released only %s of %s at t=%d", e, x, op.T)
		}
	case dOrig.Cmp(x) == 0:
		for _, t := range lqSortedTimes(ts) {
			if t < op.T {
				continue
			}
			lockedA := new(big.Int).Sub(origA, ua(t))
			lockedB := new(big.Int).Sub(origB, ub(t))
			need := new(big.Int).Add(lockedB, new(big.Int).Sub(x, lqEv(dp.Start, rel, t)))
			if lockedA.Cmp(need) < 0 {
				return fmt.Sprintf("locked after redeem at t=%d is %s, the schedules demand %s", t, lockedA, need)
			}
		}
	default:
		return fmt.Sprintf("recipient's original vesting %s -> %s, redeemed %s", origB, origA, x)
	}
	return ""
}

// ---------------------------------------------------------------- running a history
type lqGenFn func(i int, s *lqSnap) (lqOp, bool)

func lqRunHist(id string, next lqGenFn) Case {
	e := lqFork()
	pre := lqSnapshot(e)
	in := lqHistIn{Kind: "hist"}
	steps := []string{}
	obsAll := []lqStepObs{}
	oracleMsg := ""
	if pre.Stray != "" {
		oracleMsg = "initial state: " + pre.Stray
	}
	tags := map[string]bool{}
	nLiq, nMove := 0, 0
	everHeld := map[int]map[int]bool{}
	tor := newLqTimeOracle(tags)
	timeMsgSeen := false // the reported failure is the time oracle's
	tokensInto := map[int]map[int]int64{} // target -> liquid denom redeemed into it -> the denom's end
	liquidatedBy := map[int]bool{}
	outOfModel := false // from the first delegate / clawback op on the history is outside the Coq model
	for i := 0; ; i++ {
		op, ok := next(i, pre)
		if !ok {
			break
		}
		in.Ops = append(in.Ops, op)
		if err := op.valid(); err != nil {
			return Case{ID: id, Kind: "hist", Input: in, OracleOK: false, OracleMsg: "malformed input: " + err.Error(), Key: id}
		}
		if op.Op == "delegate" || op.Op == "clawback" || (op.Op == "mkvest" && op.Via == "msg") {
			outOfModel = true
			tags["outside-model-suffix"] = true
		}
		res, err := lqApply(e, op, pre)
		rows := [][]*big.Int{}
		timeMsg := ""
		switch op.Op {
		case "liq", "redeem":
			rows = append(rows, lqLockedRow(e, op.T))
		case "probe":
			for _, t := range op.Ts {
				e.Ctx = e.Ctx.WithBlockTime(time.Unix(t, 0).UTC())
				rows = append(rows, lqLockedRow(e, t))
				if timeMsg == "" {
					timeMsg = tor.check(e, i, op)
				}
			}
		}
		post := lqSnapshot(e)
		if !outOfModel {
			for a := 0; a < lqNA; a++ {
				if post.DelRec[a].Sign() != 0 && post.Stray == "" {
					post.Stray = fmt.Sprintf("account %d has delegated coins recorded", a)
				}
			}
		}
		o, c := post.obs(res, err, rows)
		obsAll = append(obsAll, o)
		if !outOfModel {
			steps = append(steps, fmt.Sprintf("(%s,\n    %s)", op.coq(), c))
		}
		if res == 0 {
			tor.record(i, op, pre, post, e.Ctx.BlockTime().Unix())
		}
		if op.Op != "probe" && timeMsg == "" {
			timeMsg = tor.check(e, i, op)
		}
		tags[fmt.Sprintf("%s:%d", op.Op, res)] = true
		if res == 0 {
			switch op.Op {
			case "liq":
				nLiq++
				liquidatedBy[op.From] = true
				if op.From == op.To {
					tags["liq:to-self"] = true
				}
				if pre.Accts[op.To] != nil && op.To != op.From {
					tags["liq:to-vesting-account"] = true
				}
			case "xfer":
				nMove++
				if op.From == op.To {
					tags["xfer:self"] = true
				}
				if op.D < len(pre.HoldB) && pre.HoldB[op.D][op.From].Cmp(op.x()) < 0 {
					tags["xfer:from-erc20"] = true
				}
				if op.Via == "multisend" || op.From == op.To {
					tags["xfer:via-multisend"] = true
				} else {
					tags["xfer:via-send"] = true
				}
			case "redeem":
				nMove++
				pr, dp := pre.Accts[op.To], pre.Denoms[op.D]
				switch {
				case pr == nil:
					tags["redeem:into-plain"] = true
				case dp != nil && pr.Start < dp.Start:
					tags["redeem:into-vesting-earlier-start"] = true
				case dp != nil && pr.Start > dp.Start:
					tags["redeem:into-vesting-later-start"] = true
				default:
					tags["redeem:into-vesting-same-start"] = true
				}
				if op.From == op.To {
					tags["redeem:to-self"] = true
				}
				if dp != nil {
					// the target's own end against the token's, own locked coins, earlier tokens in the same account
					if pr != nil {
						switch {
						case pr.End < dp.End:
							tags["redeem:target-ends-earlier"] = true
						case pr.End == dp.End:
							tags["redeem:target-ends-same"] = true
						default:
							tags["redeem:target-ends-later"] = true
						}
						if lqEv(pr.Start, pr.Lock, op.T).Cmp(pr.Orig) < 0 {
							tags["redeem:target-has-locked-coins"] = true
						} else {
							tags["redeem:target-nothing-locked"] = true
						}
						if pre.Deleg[op.To].Sign() > 0 {
							tags["redeem:target-delegating"] = true
						}
					}
					for d0, end0 := range tokensInto[op.To] {
						if d0 == op.D {
							continue
						}
						switch {
						case end0 < dp.End:
							tags["redeem:longer-token-after-shorter"] = true
						case end0 > dp.End:
							tags["redeem:shorter-token-after-longer"] = true
						default:
							tags["redeem:second-token-same-end"] = true
						}
					}
					if tokensInto[op.To] == nil {
						tokensInto[op.To] = map[int]int64{}
					}
					tokensInto[op.To][op.D] = dp.End
					if liquidatedBy[op.To] {
						tags["redeem:into-a-liquidator"] = true
					}
				}
				if lqAcctEq(pr, post.Accts[op.To]) {
					tags["redeem:all-past"] = true
				}
				if post.Denoms[op.D] == nil {
					tags["redeem:full-denom-deleted"] = true
				} else {
					tags["redeem:partial"] = true
				}
				if op.D < len(pre.HoldB) && pre.HoldB[op.D][op.From].Sign() > 0 {
					tags["redeem:from-bank-coins"] = true
				}
			}
		}
		for d := 0; d < post.Counter; d++ {
			for a := 0; a < lqNA; a++ {
				if post.hold(d, a).Sign() > 0 {
					if everHeld[d] == nil {
						everHeld[d] = map[int]bool{}
					}
					everHeld[d][a] = true
				}
			}
			if len(everHeld[d]) >= 2 {
				tags["multi-holder"] = true
			}
		}
		if oracleMsg == "" {
			if m := lqOracle(op, res, pre, post); m != "" {
				oracleMsg = fmt.Sprintf("step %d (%s): %s", i, op.Op, m)
			} else if timeMsg != "" {
				oracleMsg = fmt.Sprintf("step %d (%s): %s", i, op.Op, timeMsg)
				timeMsgSeen = true
			}
		}
		pre = post
	}
	maxBits := 0
	for _, op := range in.Ops {
		for _, p := range op.Lock {
			if p.A.BitLen() > maxBits {
				maxBits = p.A.BitLen()
			}
		}
	}
	switch {
	case maxBits > 100:
		tags["amt-scale:2^120"] = true
	case maxBits > 40:
		tags["amt-scale:2^64"] = true
	default:
		tags["amt-scale:2^20"] = true
	}
	tags[fmt.Sprintf("liq-ok=%d", nLiq)] = true
	if tor.checks > 0 {
		tags["timecheck:run"] = true
	}
	kb, _ := json.Marshal(in.Ops)
	return Case{
		ID: id, Kind: "hist", Input: in, Obs: obsAll,
		Coq: "[" + strings.Join(steps, ";\n   ") + "]", CoqList: "hist",
		OracleOK: oracleMsg == "", OracleMsg: oracleMsg, Class: lqClassOf(tor, oracleMsg, timeMsgSeen),
		Nontrivial: nLiq >= 1 && nMove >= 1, Key: string(kb), Tags: lqTagSet(tags),
	}
}

// lqClassOf: the known-finding class K18 is attributed only when the reported failure is the time oracle's and the
// oracle put it into one of the two input shapes (redeem into an account whose own vesting still runs; clawback on such
// an account afterwards)
func lqClassOf(tor *lqTimeOracle, msg string, timeMsgSeen bool) string {
	if msg == "" || !timeMsgSeen {
		return ""
	}
	return tor.class
}

// ---------------------------------------------------------------- history generator
// The generator looks at the implementation's current state (never at the
// model) to steer towards messages that succeed; the oracle does not use it.
type lqGen struct {
	r       *Rng
	bits    int
	nops    int
	nvest   int
	cur     int64
	enabled bool
}

func newLqGen(r *Rng) *lqGen {
	return &lqGen{r: r, bits: []int{20, 64, 120}[r.Intn(3)], nops: 6 + r.Intn(9), nvest: 1 + r.Intn(3), cur: lqT0 + int64(r.Intn(50)), enabled: true}
}

func (g *lqGen) amount() *big.Int {
	r := g.r
	if r.Chance(60) { // at full scale
		v := new(big.Int).Lsh(big.NewInt(1), uint(g.bits-1))
		return v.Add(v, r.Big(g.bits-1))
	}
	return new(big.Int).Add(r.Big(g.bits), big.NewInt(1))
}

// mkvest: start = 0 means "choose a start before `before` such that part of the
// lockup is usually still ahead".
func (g *lqGen) mkvest(a int, start, before int64) lqOp {
	r := g.r
	np := 1 + r.Intn(6)
	lock := []lqP{}
	for i := 0; i < np; i++ {
		l := int64(1 + r.Intn(2000))
		if r.Chance(18) {
			l = 0
		}
		am := g.amount()
		if r.Chance(15) {
			am = big.NewInt(0)
		}
		if r.Chance(8) {
			am = big.NewInt(int64(1 + r.Intn(3)))
		}
		lock = append(lock, lqP{l, am})
	}
	if start == 0 {
		span := lqTotalLen(lock)
		if span > 5000 || r.Chance(20) {
			span = 5000
		}
		start = before - 1 - int64(r.Intn(int(span)+1))
	}
	total := lqTotal(lock)
	var vest []lqP
	switch k := r.Intn(100); {
	case k < 76:
		vest = []lqP{{0, new(big.Int).Set(total)}}
	case k < 86: // vesting still running at the times of the history
		part := r.Below(new(big.Int).Add(total, big.NewInt(1)))
		vest = []lqP{{int64(100 + r.Intn(1000)), part}, {int64(20000 + r.Intn(5000)), new(big.Int).Sub(total, part)}}
	case k < 94: // vesting already finished
		part := r.Below(new(big.Int).Add(total, big.NewInt(1)))
		vest = []lqP{{int64(r.Intn(3)), part}, {0, big.NewInt(0)}, {int64(r.Intn(3)), new(big.Int).Sub(total, part)}}
	case k < 97: // totals differ: refused
		vest = []lqP{{0, new(big.Int).Add(total, big.NewInt(1))}}
	default: // negative length: refused
		vest = []lqP{{-1, new(big.Int).Set(total)}}
	}
	return lqOp{Op: "mkvest", A: a, Start: start, Lock: lock, Vest: vest}
}

func lqLockedAt(v *lqAcct, t int64) *big.Int {
	if v == nil {
		return big.NewInt(0)
	}
	l := new(big.Int).Sub(v.Orig, lqEv(v.Start, v.Lock, t))
	if l.Sign() < 0 {
		return big.NewInt(0)
	}
	if lqEv(v.Start, v.Vest, t).Cmp(lqTotal(v.Vest)) != 0 || t <= v.Start {
		return big.NewInt(0) // vesting ongoing: nothing can be liquidated
	}
	return l
}

func (g *lqGen) pickAmount(avail *big.Int) *big.Int {
	r := g.r
	if avail.Sign() <= 0 {
		return new(big.Int).Add(r.Big(g.bits), big.NewInt(1))
	}
	switch k := r.Intn(100); {
	case k < 35:
		return new(big.Int).Set(avail)
	case k < 45:
		return big.NewInt(1)
	case k < 85:
		return new(big.Int).Add(r.Below(avail), big.NewInt(1))
	case k < 95:
		return new(big.Int).Add(avail, big.NewInt(int64(1+r.Intn(3))))
	case k < 98:
		return big.NewInt(0)
	}
	return big.NewInt(-int64(1 + r.Intn(5)))
}

// time of the next message: mostly moving forward, often exactly at / next to an
// event of the given schedule
func (g *lqGen) pickTime(start int64, ps []lqP) int64 {
	r := g.r
	t := g.cur
	switch k := r.Intn(100); {
	case k < 25:
		t = g.cur + int64(r.Intn(3))
	case k < 45:
		t = g.cur + int64(r.Intn(400))
	case k < 75 && len(ps) > 0:
		at := start
		n := r.Intn(len(ps)) + 1
		for _, p := range ps[:n] {
			at += p.L
		}
		t = at + int64(r.Intn(3)-1)
	case k < 85:
		t = start + lqTotalLen(ps) + int64(r.Intn(500)) - 1
	case k < 92:
		t = g.cur - int64(r.Intn(200))
	default:
		t = g.cur + int64(r.Intn(3000))
	}
	if t < lqT0-10 {
		t = lqT0 - 10
	}
	if t > g.cur || r.Chance(50) {
		if t >= g.cur-300 {
			g.cur = t
		}
	}
	return t
}

func (g *lqGen) next(i int, s *lqSnap) (lqOp, bool) {
	r := g.r
	if i >= g.nops {
		return lqOp{}, false
	}
	if i < g.nvest {
		a := r.Intn(lqNA)
		if r.Chance(85) { // mostly distinct accounts
			for k := 0; k < lqNA && s.Accts[a] != nil; k++ {
				a = (a + 1) % lqNA
			}
		}
		start := int64(0)
		if r.Chance(12) {
			start = lqT0 + int64(r.Intn(3000))
		}
		return g.mkvest(a, start, lqT0), true
	}
	type holding struct{ d, a int }
	holds := []holding{}
	for d := 0; d < s.Counter; d++ {
		for a := 0; a < lqNA; a++ {
			if s.hold(d, a).Sign() > 0 {
				holds = append(holds, holding{d, a})
			}
		}
	}
	k := r.Intn(100)
	if !g.enabled && r.Chance(45) {
		k = 96 // switch the module on again
	}
	live, free := []int{}, 0 // accounts with coins that can be liquidated now / without vesting record
	for a := 0; a < lqNA; a++ {
		if s.Accts[a] == nil {
			free++
		} else if lqLockedAt(s.Accts[a], g.cur).Sign() > 0 {
			live = append(live, a)
		}
	}
	var wLiq, wRedeem, wXfer, wMk, wFund int
	switch {
	case len(holds) == 0 && len(live) > 0:
		wLiq, wRedeem, wXfer, wMk, wFund = 72, 4, 4, 10, 5
	case len(holds) == 0:
		wLiq, wRedeem, wXfer, wMk, wFund = 25, 4, 4, 55, 6
	case len(live) > 0:
		wLiq, wRedeem, wXfer, wMk, wFund = 24, 37, 22, 7, 4
	default:
		wLiq, wRedeem, wXfer, wMk, wFund = 8, 44, 26, 12, 4
	}
	if free == 0 && wMk > 8 {
		wLiq, wMk = wLiq+wMk-8, 8
	}
	switch {
	case k < wLiq:
		from := r.Intn(lqNA)
		if len(live) > 0 && r.Chance(90) {
			from = live[r.Intn(len(live))]
		}
		var t int64
		if v := s.Accts[from]; v != nil {
			t0 := g.cur
			t = g.pickTime(v.Start, v.Lock)
			if lqLockedAt(v, t).Sign() == 0 && lqLockedAt(v, t0).Sign() > 0 && r.Chance(85) {
				t, g.cur = t0, t0 // stay inside the lockup
			}
		} else {
			t = g.pickTime(g.cur, nil)
		}
		x := g.pickAmount(lqLockedAt(s.Accts[from], t))
		to := from
		if r.Chance(70) {
			to = r.Intn(lqNA)
		}
		return lqOp{Op: "liq", T: t, From: from, To: to, X: x.String()}, true
	case k < wLiq+wRedeem:
		var d, from int
		avail := big.NewInt(0)
		if len(holds) > 0 && r.Chance(90) {
			h := holds[r.Intn(len(holds))]
			d, from = h.d, h.a
			avail = s.hold(d, from)
		} else {
			d, from = r.Intn(s.Counter+3), r.Intn(lqNA)
			avail = s.hold(d, from)
		}
		var t int64
		if den := s.Denoms[d]; den != nil {
			t = g.pickTime(den.Start, den.Ps)
		} else {
			t = g.pickTime(g.cur, nil)
		}
		to := from
		if r.Chance(78) {
			to = r.Intn(lqNA)
		}
		return lqOp{Op: "redeem", T: t, From: from, To: to, D: d, X: g.pickAmount(avail).String()}, true
	case k < wLiq+wRedeem+wXfer:
		var d, from int
		if len(holds) > 0 && r.Chance(92) {
			h := holds[r.Intn(len(holds))]
			d, from = h.d, h.a
		} else {
			d, from = r.Intn(s.Counter+2), r.Intn(lqNA)
		}
		to := from
		if r.Chance(80) {
			to = r.Intn(lqNA)
		}
		via := "send"
		if to == from || r.Chance(40) {
			via = "multisend"
		}
		return lqOp{Op: "xfer", From: from, To: to, D: d, X: g.pickAmount(s.hold(d, from)).String(), Via: via}, true
	case k < wLiq+wRedeem+wXfer+wMk:
		a := r.Intn(lqNA)
		if r.Chance(80) {
			for j := 0; j < lqNA && s.Accts[a] != nil; j++ {
				a = (a + 1) % lqNA
			}
		}
		start := int64(0)
		if r.Chance(50) {
			start = g.cur + int64(r.Intn(1000)) // later than every denom so far
		}
		return g.mkvest(a, start, g.cur), true
	case k < wLiq+wRedeem+wXfer+wMk+wFund:
		x := r.Big(g.bits)
		if r.Chance(8) {
			x = big.NewInt(-1)
		}
		return lqOp{Op: "fund", A: r.Intn(lqNA), X: x.String()}, true
	default:
		op := lqOp{Op: "params", En: true, Min: "1"}
		switch {
		case !g.enabled:
		case r.Chance(45):
			op.En = false
		case r.Chance(80):
			op.Min = new(big.Int).Add(r.Big(g.bits/2), big.NewInt(1)).String()
		default:
			op.Min = []string{"0", "-3"}[r.Intn(2)]
		}
		if lqBig(op.Min).Sign() > 0 {
			g.enabled = op.En
		}
		return op, true
	}
}

// ---------------------------------------------------------------- driver
func liquidDriver(cfg Config, out *Out) error {
	lqStrict = cfg.Args["strict"] != "0" // the full reading of "releases nothing earlier" is demanded by default
	if cfg.Replay != "" {
		i := 0
		return readReplayInputs(cfg.Replay, func(raw json.RawMessage) error {
			var probe struct {
				Kind string `json:"kind"`
			}
			if err := json.Unmarshal(raw, &probe); err != nil {
				return err
			}
			id := fmt.Sprintf("replay-%d", i)
			i++
			switch probe.Kind {
			case "pure":
				var in lqPureIn
				if err := json.Unmarshal(raw, &in); err != nil {
					return err
				}
				out.Emit(lqRunPure(id, in))
			case "hist":
				var in lqHistIn
				if err := json.Unmarshal(raw, &in); err != nil {
					return err
				}
				ops := in.Ops
				out.Emit(lqRunHist(id, func(i int, _ *lqSnap) (lqOp, bool) {
					if i >= len(ops) {
						return lqOp{}, false
					}
					return ops[i], true
				}))
			default:
				return fmt.Errorf("input %d: unknown kind %q", i-1, probe.Kind)
			}
			return nil
		})
	}
	// one history for every lqPurePerHist pure cases
	nHist := cfg.N / (lqPurePerHist + 1)
	if nHist < 1 {
		nHist = 1
	}
	nPure := cfg.N - nHist
	switch cfg.Args["part"] {
	case "pure":
		nPure, nHist = cfg.N, 0
	case "hist":
		nPure, nHist = 0, cfg.N
	}
	r := NewRng(cfg.Seed)
	for i := 0; i < nPure; i++ {
		out.Emit(lqRunPure(fmt.Sprintf("s%d-p%d", cfg.Seed, i), lqGenPure(r.Fork(), cfg.Args["big"] == "1")))
	}
	for i := 0; i < nHist; i++ {
		id := fmt.Sprintf("s%d-h%d", cfg.Seed, i)
		if i%2 == 1 && cfg.Args["scen"] != "0" || cfg.Args["scen"] == "1" {
			// several tokens with different ends redeemed into one account, probes over time
			out.Emit(lqRunHist(id, newLqScen(r.Fork()).next))
			continue
		}
		g := newLqGen(r.Fork())
		maxT, probed := lqT0, false
		out.Emit(lqRunHist(id, func(i int, s *lqSnap) (lqOp, bool) {
			if op, ok := g.next(i, s); ok {
				if op.T > maxT {
					maxT = op.T
				}
				return op, true
			}
			if probed {
				return lqOp{}, false
			}
			probed = true // the block time moves on over every event and end of the final state
			return lqOp{Op: "probe", Ts: lqProbeTimes(s, nil, maxT, g.r, 24, true)}, true
		}))
	}
	return nil
}

const lqPurePerHist = 7
