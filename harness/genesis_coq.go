package main

// Coq rendering of one genesis round trip (type gcase of coq/Genesis/CaseModel.v):
// both exported documents, module by module, with addresses, denominations,
// identifiers interned by their rank in store-key order, parameter sets and
// byte strings interned by first occurrence, Keccak / pair-id tables computed
// with the real functions.

import (
	"bytes"
	"encoding/json"
	"fmt"
	"math/big"
	"sort"
	"strings"
	"time"

	"github.com/cosmos/cosmos-sdk/codec"
	sdk "github.com/cosmos/cosmos-sdk/types"
	authtypes "github.com/cosmos/cosmos-sdk/x/auth/types"
	sdkvesting "github.com/cosmos/cosmos-sdk/x/auth/vesting/types"
	"github.com/ethereum/go-ethereum/common"
	"github.com/ethereum/go-ethereum/crypto"

	"github.com/haqq-network/haqq/app"
	coinomicstypes "github.com/haqq-network/haqq/x/coinomics/types"
	epochstypes "github.com/haqq-network/haqq/x/epochs/types"
	erc20types "github.com/haqq-network/haqq/x/erc20/types"
	evmtypes "github.com/haqq-network/haqq/x/evm/types"
	feemarkettypes "github.com/haqq-network/haqq/x/feemarket/types"
	liquidvestingtypes "github.com/haqq-network/haqq/x/liquidvesting/types"
	ucdaotypes "github.com/haqq-network/haqq/x/ucdao/types"
)

// rankInterner: values are ranked by byte order, so that order in the model
// coincides with store iteration order.
type rankInterner struct {
	vals map[string]bool
	rank map[string]int
}

func newRank() *rankInterner { return &rankInterner{vals: map[string]bool{}} }
func (r *rankInterner) add(s string) { r.vals[s] = true }
func (r *rankInterner) freeze() {
	ks := make([]string, 0, len(r.vals))
	for k := range r.vals {
		ks = append(ks, k)
	}
	sort.Strings(ks)
	r.rank = map[string]int{}
	for i, k := range ks {
		r.rank[k] = i
	}
}
func (r *rankInterner) id(s string) string {
	i, ok := r.rank[s]
	if !ok {
		panic("rank interner: unknown value " + s)
	}
	return coqN(i)
}

// seqInterner: first occurrence order; id 0 can be reserved.
type seqInterner struct {
	ids  map[string]int
	next int
}

func newSeq(reserveZero string, reserve bool) *seqInterner {
	s := &seqInterner{ids: map[string]int{}}
	if reserve {
		s.ids[reserveZero] = 0
		s.next = 1
	}
	return s
}
func (s *seqInterner) id(v string) int {
	if i, ok := s.ids[v]; ok {
		return i
	}
	s.ids[v] = s.next
	s.next++
	return s.next - 1
}

func coqZs(s string) string {
	v, ok := new(big.Int).SetString(s, 10)
	if !ok {
		panic("bad integer " + s)
	}
	return coqZ(v)
}
func coqNbig(v *big.Int) string { return v.String() + "%N" }
func unixNano(t time.Time) string {
	if t.IsZero() {
		return "0%Z"
	}
	v := new(big.Int).Mul(big.NewInt(t.Unix()), big.NewInt(1_000_000_000))
	v.Add(v, big.NewInt(int64(t.Nanosecond())))
	return coqZ(v)
}

type genDocs struct {
	co  coinomicstypes.GenesisState
	fm  feemarkettypes.GenesisState
	ep  epochstypes.GenesisState
	e2  erc20types.GenesisState
	lv  liquidvestingtypes.GenesisState
	dao ucdaotypes.GenesisState
	evm evmtypes.GenesisState
}

func parseDocs(cdc codec.Codec, gs map[string]json.RawMessage) (d genDocs, err error) {
	defer func() {
		if r := recover(); r != nil {
			err = fmt.Errorf("cannot decode exported document: %v", r)
		}
	}()
	cdc.MustUnmarshalJSON(gs[coinomicstypes.ModuleName], &d.co)
	cdc.MustUnmarshalJSON(gs[feemarkettypes.ModuleName], &d.fm)
	cdc.MustUnmarshalJSON(gs[epochstypes.ModuleName], &d.ep)
	cdc.MustUnmarshalJSON(gs[erc20types.ModuleName], &d.e2)
	cdc.MustUnmarshalJSON(gs[liquidvestingtypes.ModuleName], &d.lv)
	cdc.MustUnmarshalJSON(gs[ucdaotypes.ModuleName], &d.dao)
	cdc.MustUnmarshalJSON(gs[evmtypes.ModuleName], &d.evm)
	return d, nil
}

func canonOf(cdc codec.Codec, m codec.ProtoMarshaler) string {
	bz, err := cdc.MarshalJSON(m)
	if err != nil {
		panic(err)
	}
	s, _ := canonJSON(bz)
	return s
}

// genesisCoq renders the gcase.  a1/ctx1 give the EthAccounts of the exporting application.
func genesisCoq(a1 *app.Haqq, ctx1 sdk.Context, gs1, gs2 map[string]json.RawMessage, height int64, t time.Time) (string, error) {
	cdc := a1.AppCodec()
	d1, err := parseDocs(cdc, gs1)
	if err != nil {
		return "", err
	}
	d2, err := parseDocs(cdc, gs2)
	if err != nil {
		return "", err
	}
	docs := []*genDocs{&d1, &d2}

	denoms, addrs, epochIDs, pairIDs := newRank(), newRank(), newRank(), newRank()
	params := newSeq("", false)
	codes := newSeq("", true)
	hashes := newSeq("", false)
	addPeriods := func(ps sdkvesting.Periods) {
		for _, p := range ps {
			for _, c := range p.Amount {
				denoms.add(c.Denom)
			}
		}
	}
	// every account of the auth module with its kind (by concrete Go type) and code hash
	type authEnt struct{ addr, kind, hash string }
	auth := []authEnt{}
	coqKind := map[string]string{"eth": "KEth", "clawback": "KClawback", "module": "KModule", "base": "KBase"}
	a1.AccountKeeper.IterateAccounts(ctx1, func(acc authtypes.AccountI) bool {
		kind, ch := accKind(acc)
		ad := string(acc.GetAddress().Bytes())
		auth = append(auth, authEnt{ad, coqKind[kind], ch.Hex()})
		addrs.add(ad)
		return false
	})
	for _, d := range docs {
		denoms.add(d.co.MaxSupply.Denom)
		for _, e := range d.ep.Epochs {
			epochIDs.add(e.Identifier)
		}
		for _, p := range d.e2.TokenPairs {
			denoms.add(p.Denom)
			addrs.add(string(common.HexToAddress(p.Erc20Address).Bytes()))
			pairIDs.add(string(p.GetID()))
		}
		for _, ld := range d.lv.Denoms {
			denoms.add(ld.BaseDenom)
			denoms.add(ld.DisplayDenom)
			denoms.add(ld.OriginalDenom)
			addPeriods(ld.LockupPeriods)
		}
		for _, b := range d.dao.Balances {
			ad, err := sdk.AccAddressFromBech32(b.Address)
			if err != nil {
				return "", err
			}
			// store key order: length prefix, then the bytes
			addrs.add(string(ad))
			for _, c := range b.Coins {
				denoms.add(c.Denom)
			}
		}
		for _, c := range d.dao.TotalBalance {
			denoms.add(c.Denom)
		}
		for _, acc := range d.evm.Accounts {
			addrs.add(string(common.HexToAddress(acc.Address).Bytes()))
		}
	}
	denoms.freeze()
	addrs.freeze()
	epochIDs.freeze()
	pairIDs.freeze()

	coins := func(cs sdk.Coins) string {
		out := []string{}
		for _, c := range cs {
			out = append(out, fmt.Sprintf("(%s, %s)", denoms.id(c.Denom), coqZ(c.Amount.BigInt())))
		}
		return coqList(out)
	}
	periods := func(ps sdkvesting.Periods) string {
		out := []string{}
		for _, p := range ps {
			out = append(out, fmt.Sprintf("(%s, %s)", coqZi(p.Length), coins(p.Amount)))
		}
		return coqList(out)
	}

	co := func(d *genDocs) string {
		prev := big.NewInt(0)
		if !d.co.PrevBlockTs.IsNil() {
			prev = d.co.PrevBlockTs.BigInt()
		}
		return fmt.Sprintf("(mk_cog %s %s (%s, %s))", coqN(params.id("co:"+canonOf(cdc, &d.co.Params))), coqZ(prev),
			denoms.id(d.co.MaxSupply.Denom), coqZ(d.co.MaxSupply.Amount.BigInt()))
	}
	fm := func(d *genDocs) string {
		return fmt.Sprintf("(mk_fmg %s %s)", coqN(params.id("fm:"+canonOf(cdc, &d.fm.Params))), coqNbig(new(big.Int).SetUint64(d.fm.BlockGas)))
	}
	ep := func(d *genDocs) string {
		out := []string{}
		for _, e := range d.ep.Epochs {
			out = append(out, fmt.Sprintf("(%s, mk_ep %s %s %s %s %s %s)", epochIDs.id(e.Identifier), unixNano(e.StartTime),
				coqZi(int64(e.Duration)), coqZi(e.CurrentEpoch), unixNano(e.CurrentEpochStartTime), coqBool(e.EpochCountingStarted), coqZi(e.CurrentEpochStartHeight)))
		}
		return coqList(out)
	}
	pidTbl := map[string]bool{}
	e2 := func(d *genDocs) string {
		out := []string{}
		for _, p := range d.e2.TokenPairs {
			ad := addrs.id(string(common.HexToAddress(p.Erc20Address).Bytes()))
			out = append(out, fmt.Sprintf("mk_pair %s %s %s %s", ad, denoms.id(p.Denom), coqBool(p.Enabled), coqN(int(p.ContractOwner))))
			pidTbl[fmt.Sprintf("(%s, %s, %s)", ad, denoms.id(p.Denom), pairIDs.id(string(p.GetID())))] = true
		}
		return fmt.Sprintf("(mk_e2g %s %s %s)", coqBool(d.e2.Params.EnableErc20), coqBool(d.e2.Params.EnableEVMHook), coqList(out))
	}
	lv := func(d *genDocs) string {
		out := []string{}
		for _, ld := range d.lv.Denoms {
			out = append(out, fmt.Sprintf("mk_ld %s %s %s %s %s %s", denoms.id(ld.BaseDenom), denoms.id(ld.DisplayDenom), denoms.id(ld.OriginalDenom),
				unixNano(ld.StartTime), unixNano(ld.EndTime), periods(ld.LockupPeriods)))
		}
		return fmt.Sprintf("(mk_lvg %s %s %s)", coqN(params.id("lv:"+canonOf(cdc, &d.lv.Params))), coqNbig(new(big.Int).SetUint64(d.lv.DenomCounter)), coqList(out))
	}
	dao := func(d *genDocs) string {
		out := []string{}
		for _, b := range d.dao.Balances {
			ad, _ := sdk.AccAddressFromBech32(b.Address)
			out = append(out, fmt.Sprintf("(%s, %s)", addrs.id(string(ad)), coins(b.Coins)))
		}
		return fmt.Sprintf("(mk_daog %s %s %s)", coqN(params.id("dao:"+canonOf(cdc, &d.dao.Params))), coqList(out), coins(d.dao.TotalBalance))
	}
	codeBytes := map[int][]byte{0: {}}
	evm := func(d *genDocs) string {
		out := []string{}
		for _, acc := range d.evm.Accounts {
			cid := codes.id(strings.ToLower(acc.Code))
			codeBytes[cid] = common.Hex2Bytes(acc.Code)
			st := []string{}
			for _, kv := range acc.Storage {
				st = append(st, fmt.Sprintf("(%s, %s)", coqNbig(common.HexToHash(kv.Key).Big()), coqNbig(common.HexToHash(kv.Value).Big())))
			}
			out = append(out, fmt.Sprintf("mk_ea %s %s %s", addrs.id(string(common.HexToAddress(acc.Address).Bytes())), coqN(cid), coqList(st)))
		}
		return fmt.Sprintf("(mk_evmg %s %s)", coqN(params.id("evm:"+canonOf(cdc, &d.evm.Params))), coqList(out))
	}

	coS := fmt.Sprintf("(%s, %s)", co(&d1), co(&d2))
	fmS := fmt.Sprintf("(%s, %s)", fm(&d1), fm(&d2))
	epS := fmt.Sprintf("(%s, %s)", ep(&d1), ep(&d2))
	e2S := fmt.Sprintf("(%s, %s)", e2(&d1), e2(&d2))
	lvS := fmt.Sprintf("(%s, %s)", lv(&d1), lv(&d2))
	daoS := fmt.Sprintf("(%s, %s)", dao(&d1), dao(&d2))
	evmS := fmt.Sprintf("(%s, %s)", evm(&d1), evm(&d2))

	pids := []string{}
	for k := range pidTbl {
		pids = append(pids, k)
	}
	sort.Strings(pids)
	sort.Slice(auth, func(i, j int) bool { return bytes.Compare([]byte(auth[i].addr), []byte(auth[j].addr)) < 0 })
	authS := []string{}
	for _, e := range auth {
		authS = append(authS, fmt.Sprintf("(%s, (%s, %s))", addrs.id(e.addr), e.kind, coqN(hashes.id(e.hash))))
	}
	hashS := []string{}
	cids := []int{}
	for cid := range codeBytes {
		cids = append(cids, cid)
	}
	sort.Ints(cids)
	for _, cid := range cids {
		hashS = append(hashS, fmt.Sprintf("(%s, %s)", coqN(cid), coqN(hashes.id(crypto.Keccak256Hash(codeBytes[cid]).Hex()))))
	}
	return fmt.Sprintf("(mk_gcase %s %s\n   %s\n   %s\n   %s\n   %s\n   %s\n   %s\n   %s\n   %s\n   %s\n   %s)",
		coqZi(height), unixNano(t), coS, fmS, epS, coqList(pids), e2S, lvS, daoS, coqList(authS), coqList(hashS), evmS), nil
}
