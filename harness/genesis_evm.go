package main

// Driver "genesis" (property C19), EVM state on accounts of every type that can
// hold it:
//   - history ops that put contract code and storage onto a fresh address (plain
//     EthAccount), onto an address that was funded ahead of the deployment, and
//     onto an address that was first turned into a ClawbackVestingAccount (the
//     future CREATE address of a deployer; x/vesting refuses to convert an
//     existing contract, not the reverse), with and without constructor storage,
//     followed by SSTORE-changing calls;
//   - the oracle's view of "who holds EVM state": the accounts of the auth module
//     with a non-empty code hash (by their concrete Go type, not by the interface
//     the export uses) and every address that owns a key of the EVM storage
//     prefix (read from the KV store, not through the keeper's export path).

import (
	"bytes"
	"encoding/hex"
	"encoding/json"
	"fmt"
	"math/big"
	"sort"
	"strings"
	"time"

	sdk "github.com/cosmos/cosmos-sdk/types"
	authtypes "github.com/cosmos/cosmos-sdk/x/auth/types"
	sdkvesting "github.com/cosmos/cosmos-sdk/x/auth/vesting/types"
	banktypes "github.com/cosmos/cosmos-sdk/x/bank/types"
	"github.com/ethereum/go-ethereum/common"
	"github.com/ethereum/go-ethereum/crypto"
	"github.com/gogo/protobuf/proto"

	"github.com/haqq-network/haqq/app"
	haqqtypes "github.com/haqq-network/haqq/types"
	"github.com/haqq-network/haqq/utils"
	evmtypes "github.com/haqq-network/haqq/x/evm/types"
	vestingtypes "github.com/haqq-network/haqq/x/vesting/types"
)

// ---------------------------------------------------------------- the small contract
// runtime (three shapes, all hand-assembled):
//   calldata empty      -> return one 32-byte word: SLOAD(ret slot)  (shape 2: a constant baked into the code)
//   calldata non-empty  -> a list of (key, value) words: SSTORE(key, value) for each pair; STOP
//                          (one pair = one changed slot; the pairs (slot_i, 0) for every constructor slot = the
//                          contract clears all its storage in one call)
// init code: SSTORE(slot_i, val_i) for the constructor slots, then one of the ENDINGS below.
func smallRuntime(kind int, v uint64) []byte {
	var get string
	switch ((kind % 3) + 3) % 3 {
	case 0:
		get = "0 SLOAD"
	case 1:
		get = "1 SLOAD 0 ADD" // other bytes, other code hash; returns slot 1
	default:
		get = fmt.Sprintf("%d", v|1) // storage-less answer: the code itself varies with v
	}
	return assemble("CALLDATASIZE @set JUMPI " + get + " 0 MSTORE 32 0 RETURN " +
		"set: 0 loop: DUP1 CALLDATASIZE GT ISZERO @end JUMPI DUP1 32 ADD CALLDATALOAD DUP2 CALLDATALOAD SSTORE 64 ADD @loop JUMP end: STOP")
}

// How a constructor ends (hOp.End of "deployc" / "create2").  Whatever the ending, the constructor's SSTOREs
// come first: an ending that leaves NO code behind still leaves the storage behind (the account then has
// nonce 1, the empty code hash and live storage slots: not an externally owned account, although it looks
// like one to anything that only asks "is the code empty?").
const (
	endRuntime      = 0 // RETURN the runtime                                  -> code + storage
	endReturnEmpty  = 1 // RETURN(0, 0): zero-length runtime                   -> NO code, storage stays
	endStop         = 2 // STOP without RETURN                                 -> NO code, storage stays
	endSelfdestruct = 3 // SELFDESTRUCT(caller) after storing                  -> no account at all (an account that was there before is removed)
	endOneByte      = 4 // RETURN one byte of code (00 = STOP): the control    -> 1 byte of code + storage
	endRevert       = 5 // REVERT after storing: the creation fails, the nonce is used up
	endChild        = 6 // CREATE a child whose constructor stores the same slots and STOPs (codeless child with
	//                     storage at CreateAddress(contract, 1)), record its address in slot 0x99, RETURN the runtime (nonce 2)
	endChildOneByte = 7 // the same with a child that returns one byte of code (control)
	nEndings        = 8
)

func endName(e int) string {
	return []string{"runtime", "return-empty", "stop", "selfdestruct", "one-byte", "revert", "child-codeless", "child-one-byte"}[((e%nEndings)+nEndings)%nEndings]
}

// endLeavesNoCode: the successful creation leaves an account without code.
func endLeavesNoCode(e int) bool {
	e = ((e % nEndings) + nEndings) % nEndings
	return e == endReturnEmpty || e == endStop
}

// ctorSlots: the constructor's writes (slot, value), n of them, never a zero value.
func ctorSlots(kind int, n int, v uint64) [][2]uint64 {
	out := [][2]uint64{}
	for i := 0; i < n; i++ {
		slot := uint64(i)
		if i >= 2 {
			slot = uint64(i)*7 + uint64(((kind%3)+3)%3) + 0x100 // a slot that is not one of the small numbers
		}
		val := v + uint64(i)
		if val == 0 {
			val = 0x2a
		}
		out = append(out, [2]uint64{slot, val})
	}
	return out
}

// allCtorSlots: every slot a constructor of any shape may have written (for the "clear everything" call).
func allCtorSlots() []uint64 {
	return []uint64{0, 1, 2*7 + 0 + 0x100, 2*7 + 1 + 0x100, 2*7 + 2 + 0x100}
}

func ctorStores(kind, n int, v uint64) string {
	src := []string{}
	for _, kv := range ctorSlots(kind, n, v) {
		src = append(src, fmt.Sprintf("%d %d SSTORE", kv[1], kv[0]))
	}
	return strings.Join(src, " ")
}

// returnTail: PUSH2 len DUP1 PUSH2 off PUSH1 0 CODECOPY PUSH1 0 RETURN (13 bytes) followed by the bytes to return,
// for a tail that starts at offset at.
func returnTail(at int, body []byte) []byte {
	off := at + 13
	cp := []byte{0x61, byte(len(body) >> 8), byte(len(body)), 0x80, 0x61, byte(off >> 8), byte(off), 0x60, 0, 0x39, 0x60, 0, 0xf3}
	return append(cp, body...)
}

// ctorCode: prefix (assembled source that falls through), the constructor slots, the ending.
func ctorCode(prefix string, kind, n int, v uint64, end int) []byte {
	end = ((end % nEndings) + nEndings) % nEndings
	code := []byte{}
	if src := strings.TrimSpace(prefix + " " + ctorStores(kind, n, v)); src != "" {
		code = assemble(src)
	}
	switch end {
	case endReturnEmpty:
		return append(code, assemble("0 0 RETURN")...)
	case endStop:
		return append(code, 0x00)
	case endSelfdestruct:
		return append(code, assemble("CALLER SELFDESTRUCT")...)
	case endOneByte:
		return append(code, returnTail(len(code), []byte{0x00})...)
	case endRevert:
		return append(code, assemble("0 0 REVERT")...)
	case endChild, endChildOneByte:
		childEnd := endStop
		if end == endChildOneByte {
			childEnd = endOneByte
		}
		child := ctorCode("", kind, n, v, childEnd)
		rt := smallRuntime(kind, v)
		// PUSH2 clen PUSH2 coff PUSH1 0 CODECOPY PUSH2 clen PUSH1 0 PUSH1 0 CREATE PUSH1 0x99 SSTORE   (20 bytes)
		coff := len(code) + 20 + 13 + len(rt)
		mk := []byte{0x61, byte(len(child) >> 8), byte(len(child)), 0x61, byte(coff >> 8), byte(coff), 0x60, 0, 0x39,
			0x61, byte(len(child) >> 8), byte(len(child)), 0x60, 0, 0x60, 0, 0xf0, 0x60, 0x99, 0x55}
		code = append(code, mk...)
		code = append(code, returnTail(len(code), rt)...)
		return append(code, child...)
	}
	return append(code, returnTail(len(code), smallRuntime(kind, v))...)
}

func smallInit(kind int, n int, v uint64, end int) []byte { return ctorCode("", kind, n, v, end) }

// The CREATE2 factory: calldata = salt (32 bytes) ++ init code; CREATE2(callvalue, init code, salt); the resulting
// address (0 after a failed creation) is recorded in the factory's slot [salt].
var factoryRuntime = assemble("32 CALLDATASIZE SUB DUP1 32 0 CALLDATACOPY 0 CALLDATALOAD SWAP1 0 CALLVALUE CREATE2 0 CALLDATALOAD SSTORE STOP")

// create2Init: init code that FAILS (SSTORE, then REVERT) while the new account holds no balance and behaves like
// ctorCode otherwise: the same salt and init code give the same address, so a first attempt without value
// fails at X, and a second attempt with value succeeds at the very same X.
func create2Init(kind, n int, v uint64, end int) []byte {
	return ctorCode("SELFBALANCE @go JUMPI 77 7 SSTORE 0 0 REVERT go:", kind, n, v, end)
}

// ---------------------------------------------------------------- ops
// futureCreate: the address at which deployer b's (K+1)-th next contract will live.  A cosmos
// transaction signed by the deployer itself consumes one sequence number first.
func (h *hist) futureCreate(ctx sdk.Context, b int, k uint64, signerIsDeployer bool) common.Address {
	nonce := h.c.App.EvmKeeper.GetNonce(ctx, chainAcct(b).Eth) + k%3
	if signerIsDeployer {
		nonce++
	}
	return crypto.CreateAddress(chainAcct(b).Eth, nonce)
}

// vestSchedule: the shapes of the "vest" op plus two more.
func vestSchedule(now time.Time, kind int, amt *big.Int) (start time.Time, lock, vestp sdkvesting.Periods) {
	half := new(big.Int).Quo(amt, big.NewInt(2))
	rest := new(big.Int).Sub(amt, half)
	q := new(big.Int).Quo(amt, big.NewInt(4))
	q4 := new(big.Int).Sub(amt, new(big.Int).Mul(q, big.NewInt(3)))
	p := func(l int64, v *big.Int) sdkvesting.Period {
		return sdkvesting.Period{Length: l, Amount: sdk.NewCoins(coinOf(utils.BaseDenom, v))}
	}
	switch kind {
	case 0: // vesting in progress (half vested), everything still locked
		start = now.Add(-100 * time.Second)
		vestp = sdkvesting.Periods{p(50, q), p(60, q), p(100000, q), p(100000, q4)}
		lock = sdkvesting.Periods{p(300000, amt)}
	case 1: // fully vested, lockup in progress (can be liquidated)
		start = now.Add(-1000 * time.Second)
		vestp = sdkvesting.Periods{p(1, amt)}
		lock = sdkvesting.Periods{p(500, half), p(500000, q), p(500000, new(big.Int).Sub(rest, q))}
	case 2: // lockup partly released, vesting instant
		start = now.Add(-10 * time.Second)
		vestp = sdkvesting.Periods{p(1, amt)}
		lock = sdkvesting.Periods{p(5, half), p(1000000, rest)}
	case 3: // partially vested and partially unlocked
		start = now.Add(-100 * time.Second)
		vestp = sdkvesting.Periods{p(50, half), p(100000, rest)}
		lock = sdkvesting.Periods{p(60, q), p(200000, new(big.Int).Sub(amt, q))}
	default: // everything vested and unlocked already
		start = now.Add(-100 * time.Second)
		vestp = sdkvesting.Periods{p(1, amt)}
		lock = sdkvesting.Periods{p(50, amt)}
	}
	return
}

func (h *hist) applyEvm(op hOp, a, b int) (error, bool) {
	c := h.c
	ctx := c.Ctx()
	switch op.Op {
	case "vestat":
		// a clawback vesting account at the future CREATE address of deployer b (funder a; the account
		// itself has no key).  kind 0..4: MsgCreateClawbackVestingAccount with the schedule shapes above;
		// kind 5..6: MsgConvertIntoVestingAccount (which also accepts an address that holds nothing yet),
		// 6 with stake = true: the vested half is delegated on behalf of the new account.
		kind := ((op.Kind % 7) + 7) % 7
		x := h.futureCreate(ctx, b, op.K, a == b)
		to := sdk.AccAddress(x.Bytes())
		amt := amtOf(op.Amt, islm(5000))
		var msg sdk.Msg
		if kind <= 4 {
			start, lock, vestp := vestSchedule(c.Hdr.Time, kind, amt)
			msg = vestingtypes.NewMsgCreateClawbackVestingAccount(chainAcct(a).Acc, to, start, lock, vestp, false)
		} else {
			start, lock, vestp := vestSchedule(c.Hdr.Time, 3, amt)
			vals := c.App.StakingKeeper.GetAllValidators(ctx)
			msg = vestingtypes.NewMsgConvertIntoVestingAccount(chainAcct(a).Acc, to, start, lock, vestp, false, kind == 6, vals[0].GetOperator())
		}
		bz, err := c.CosmosTx(ctx, a, 1_500_000, msg)
		if err := h.deliver(bz, err); err != nil {
			return err, true
		}
		h.vest = append(h.vest, to)
		h.vestKey = append(h.vestKey, -1)
		h.planned = append(h.planned, x)
		return nil, true
	case "prefund":
		// the counterfactual address is funded ahead of the deployment: a plain EthAccount with a balance
		x := h.futureCreate(ctx, b, op.K, a == b) // either kind of transfer consumes one sequence number of its signer
		if op.Kind%2 == 0 {
			bz, err := c.CosmosTx(ctx, a, 300_000, banktypes.NewMsgSend(chainAcct(a).Acc, sdk.AccAddress(x.Bytes()), sdk.NewCoins(coinOf(utils.BaseDenom, amtOf(op.Amt, big.NewInt(777))))))
			if err := h.deliver(bz, err); err != nil {
				return err, true
			}
		} else {
			bz, _, err := c.EthTx(ctx, a, &x, amtOf(op.Amt, big.NewInt(12345)), nil, 100_000, 0)
			if err := h.deliver(bz, err); err != nil {
				return err, true
			}
		}
		h.planned = append(h.planned, x)
		return nil, true
	case "deployc":
		// the small contract, from deployer a at its current nonce: K constructor slots, code shape Kind,
		// constructor ending End (runtime / zero-length RETURN / STOP / SELFDESTRUCT / one byte / REVERT / child)
		ca := chainAcct(a)
		nonce := c.App.EvmKeeper.GetNonce(ctx, ca.Eth)
		n := int(op.K % 4)
		bz, _, err := c.EthTx(ctx, a, nil, amtOf(op.Amt, big.NewInt(0)), smallInit(op.Kind, n, op.V, op.End), 900_000, 0)
		if err != nil {
			return err, true
		}
		res := c.Deliver(bz)
		h.gasUsed += res.GasUsed
		if res.Code != 0 || ethFailed(res) {
			return fmt.Errorf("deployc failed: code %d %s", res.Code, trunc(res.Log, 200)), true
		}
		x := crypto.CreateAddress(ca.Eth, nonce)
		h.small = append(h.small, x)
		if e := ((op.End % nEndings) + nEndings) % nEndings; e == endChild || e == endChildOneByte {
			h.planned = append(h.planned, crypto.CreateAddress(x, 1)) // the child: queried, never poked by index
		}
		return nil, true
	case "poke":
		// an SSTORE-changing call of a small contract (V = 0 clears the slot); Kind 1: one call that clears every
		// slot a constructor may have written; Kind 2: the slot K and all constructor slots are set to V, V+1, ...
		// (an address without code simply receives the call's value)
		if len(h.small) == 0 {
			return fmt.Errorf("no small contract"), true
		}
		to := h.small[((op.B%len(h.small))+len(h.small))%len(h.small)]
		data := append(wordU(op.K), wordU(op.V)...)
		switch op.Kind {
		case 1:
			data = []byte{}
			for _, k := range allCtorSlots() {
				data = append(data, append(wordU(k), wordU(0)...)...)
			}
		case 2:
			for i, k := range allCtorSlots() {
				data = append(data, append(wordU(k), wordU(op.V+uint64(i)+1)...)...)
			}
		}
		bz, _, err := c.EthTx(ctx, a, &to, amtOf(op.Amt, big.NewInt(0)), data, 400_000, 0)
		if err != nil {
			return err, true
		}
		res := c.Deliver(bz)
		h.gasUsed += res.GasUsed
		if res.Code != 0 || ethFailed(res) {
			return fmt.Errorf("poke failed: code %d %s", res.Code, trunc(res.Log, 200)), true
		}
		return nil, true
	case "factory":
		// the CREATE2 factory, from deployer a
		ca := chainAcct(a)
		nonce := c.App.EvmKeeper.GetNonce(ctx, ca.Eth)
		bz, _, err := c.EthTx(ctx, a, nil, big.NewInt(0), deployInit(factoryRuntime), 600_000, 0)
		if err != nil {
			return err, true
		}
		res := c.Deliver(bz)
		h.gasUsed += res.GasUsed
		if res.Code != 0 || ethFailed(res) {
			return fmt.Errorf("factory failed: code %d %s", res.Code, trunc(res.Log, 200)), true
		}
		h.factories = append(h.factories, crypto.CreateAddress(ca.Eth, nonce))
		return nil, true
	case "create2":
		// factory B creates (salt V, shape Kind, K constructor slots, ending End) with the value Amt: the init code
		// reverts while the new account has no balance, so the same op with Amt = 0 and then Amt > 0 is a failed and
		// then a successful creation at the same address
		if len(h.factories) == 0 {
			return fmt.Errorf("no factory"), true
		}
		f := h.factories[((op.B%len(h.factories))+len(h.factories))%len(h.factories)]
		init := create2Init(op.Kind, int(op.K%4), op.V, op.End)
		salt := common.BytesToHash(wordU(op.V))
		x := crypto.CreateAddress2(f, salt, crypto.Keccak256(init))
		bz, _, err := c.EthTx(ctx, a, &f, amtOf(op.Amt, big.NewInt(0)), append(wordU(op.V), init...), 900_000, 0)
		if err != nil {
			return err, true
		}
		res := c.Deliver(bz)
		h.gasUsed += res.GasUsed
		if res.Code != 0 || ethFailed(res) {
			return fmt.Errorf("create2 failed: code %d %s", res.Code, trunc(res.Log, 200)), true
		}
		known := false
		for _, s := range h.small {
			known = known || s == x
		}
		if !known {
			h.small = append(h.small, x) // also after the failed attempt: the address is queried on both chains
		}
		if c.App.EvmKeeper.GetNonce(c.Ctx(), x) == 0 {
			return fmt.Errorf("create2: the creation inside the factory call failed (no account at %s)", x.Hex()), true
		}
		return nil, true
	}
	return nil, false
}

// ---------------------------------------------------------------- who holds EVM state
type evmHolder struct {
	Addr     common.Address
	Kind     string // eth | clawback | module | base | none (no auth account)
	GoType   string
	CodeHash common.Hash
	Code     []byte
	Slots    map[common.Hash]common.Hash
}

var emptyCodeHash = common.BytesToHash(evmtypes.EmptyCodeHash)

// accKind: the account type as the auth module stores it, by concrete Go type.
func accKind(acc authtypes.AccountI) (kind string, codeHash common.Hash) {
	switch t := acc.(type) {
	case *haqqtypes.EthAccount:
		return "eth", t.GetCodeHash()
	case *vestingtypes.ClawbackVestingAccount:
		return "clawback", t.GetCodeHash()
	case authtypes.ModuleAccountI:
		return "module", emptyCodeHash
	}
	return "base", emptyCodeHash
}

// evmHolders: every address with a non-empty code hash in the auth module or with at least one
// key under the EVM module's storage prefix.
func evmHolders(a *app.Haqq, ctx sdk.Context) map[common.Address]*evmHolder {
	out := map[common.Address]*evmHolder{}
	a.AccountKeeper.IterateAccounts(ctx, func(acc authtypes.AccountI) bool {
		kind, ch := accKind(acc)
		if ch != emptyCodeHash && ch != (common.Hash{}) {
			ad := common.BytesToAddress(acc.GetAddress())
			out[ad] = &evmHolder{Addr: ad, Kind: kind, GoType: fmt.Sprintf("%T", acc), CodeHash: ch,
				Code: a.EvmKeeper.GetCode(ctx, ch), Slots: map[common.Hash]common.Hash{}}
		}
		return false
	})
	store := ctx.KVStore(a.GetKey(evmtypes.StoreKey))
	it := sdk.KVStorePrefixIterator(store, evmtypes.KeyPrefixStorage)
	defer it.Close()
	for ; it.Valid(); it.Next() {
		k := it.Key()
		if len(k) != 1+common.AddressLength+common.HashLength {
			continue
		}
		ad := common.BytesToAddress(k[1 : 1+common.AddressLength])
		hd, ok := out[ad]
		if !ok {
			hd = &evmHolder{Addr: ad, Kind: "none", CodeHash: emptyCodeHash, Slots: map[common.Hash]common.Hash{}}
			if acc := a.AccountKeeper.GetAccount(ctx, sdk.AccAddress(ad.Bytes())); acc != nil {
				hd.Kind, hd.CodeHash = accKind(acc)
				hd.GoType = fmt.Sprintf("%T", acc)
			}
			out[ad] = hd
		}
		hd.Slots[common.BytesToHash(k[1+common.AddressLength:])] = common.BytesToHash(it.Value())
	}
	return out
}

func sortedHolders(m map[common.Address]*evmHolder) []*evmHolder {
	out := []*evmHolder{}
	for _, h := range m {
		out = append(out, h)
	}
	sort.Slice(out, func(i, j int) bool { return bytes.Compare(out[i].Addr.Bytes(), out[j].Addr.Bytes()) < 0 })
	return out
}

func (h *evmHolder) describe() string {
	return fmt.Sprintf("%s account, code hash %s, %d bytes of code, %d storage slots", h.Kind, shortHash(h.CodeHash), len(h.Code), len(h.Slots))
}

func shortHash(x common.Hash) string {
	if x == emptyCodeHash {
		return "empty"
	}
	return x.Hex()[:12] + "…"
}

// evmDocCheck: the evm section of an exported document against the chain it was exported from:
// the entries that carry code or storage are exactly the holders, with exactly their code and storage.
func evmDocCheck(doc *evmtypes.GenesisState, holders map[common.Address]*evmHolder) []string {
	msgs := []string{}
	seen := map[common.Address]bool{}
	for _, acc := range doc.Accounts {
		ad := common.HexToAddress(acc.Address)
		hd, isHolder := holders[ad]
		if seen[ad] {
			msgs = append(msgs, fmt.Sprintf("exported evm.accounts lists %s twice", ad.Hex()))
		}
		seen[ad] = true
		if !isHolder {
			if acc.Code != "" || len(acc.Storage) > 0 {
				msgs = append(msgs, fmt.Sprintf("exported evm.accounts invents EVM state for %s (%d hex digits of code, %d storage entries; the chain has neither)", ad.Hex(), len(acc.Code), len(acc.Storage)))
			}
			continue
		}
		if !strings.EqualFold(acc.Code, common.Bytes2Hex(hd.Code)) {
			msgs = append(msgs, fmt.Sprintf("exported evm.accounts entry of %s: code %q, the chain holds %q", ad.Hex(), trunc(acc.Code, 40), trunc(common.Bytes2Hex(hd.Code), 40)))
		}
		got := map[common.Hash]common.Hash{}
		for _, kv := range acc.Storage {
			got[common.HexToHash(kv.Key)] = common.HexToHash(kv.Value)
		}
		for k, v := range hd.Slots {
			if g, ok := got[k]; !ok {
				msgs = append(msgs, fmt.Sprintf("exported evm.accounts entry of %s lacks storage slot %s (= %s on the chain)", ad.Hex(), k.Big().String(), v.Big().String()))
			} else if g != v {
				msgs = append(msgs, fmt.Sprintf("exported evm.accounts entry of %s: storage slot %s = %s, on the chain %s", ad.Hex(), k.Big().String(), g.Big().String(), v.Big().String()))
			}
		}
		for k := range got {
			if _, ok := hd.Slots[k]; !ok {
				msgs = append(msgs, fmt.Sprintf("exported evm.accounts entry of %s invents storage slot %s", ad.Hex(), k.Big().String()))
			}
		}
	}
	for _, hd := range sortedHolders(holders) {
		if !seen[hd.Addr] {
			msgs = append(msgs, fmt.Sprintf("exported evm.accounts has no entry for %s (%s): its code and storage are dropped by the export", hd.Addr.Hex(), hd.describe()))
		}
	}
	sort.Strings(msgs)
	return msgs
}

// holderQueries: for every address that holds EVM state on either chain: Account (balance, nonce,
// code hash), Code, every storage slot either chain has, and an eth_call of the runtime.
func holderQueries(c *Chain, h1, h2 map[common.Address]*evmHolder) []qReq {
	addrs := map[common.Address]bool{}
	for a := range h1 {
		addrs[a] = true
	}
	for a := range h2 {
		addrs[a] = true
	}
	list := []common.Address{}
	for a := range addrs {
		list = append(list, a)
	}
	sort.Slice(list, func(i, j int) bool { return bytes.Compare(list[i].Bytes(), list[j].Bytes()) < 0 })
	qs := []qReq{}
	for _, ad := range list {
		ad := ad
		qs = append(qs,
			qReq{"evm/account/" + ad.Hex(), "/ethermint.evm.v1.Query/Account", &evmtypes.QueryAccountRequest{Address: ad.Hex()}},
			qReq{"evm/code/" + ad.Hex(), "/ethermint.evm.v1.Query/Code", &evmtypes.QueryCodeRequest{Address: ad.Hex()}})
		slots := map[common.Hash]bool{}
		for _, m := range []map[common.Address]*evmHolder{h1, h2} {
			if hd, ok := m[ad]; ok {
				for k := range hd.Slots {
					slots[k] = true
				}
			}
		}
		ks := []common.Hash{}
		for k := range slots {
			ks = append(ks, k)
		}
		sort.Slice(ks, func(i, j int) bool { return bytes.Compare(ks[i].Bytes(), ks[j].Bytes()) < 0 })
		for _, k := range ks {
			qs = append(qs, qReq{fmt.Sprintf("evm/storage/%s/%s", ad.Hex(), k.Big().String()), "/ethermint.evm.v1.Query/Storage",
				&evmtypes.QueryStorageRequest{Address: ad.Hex(), Key: k.Hex()}})
		}
		args, _ := json.Marshal(&evmtypes.TransactionArgs{To: &ad})
		qs = append(qs, qReq{"evm/eth_call/" + ad.Hex(), "/ethermint.evm.v1.Query/EthCall", &evmtypes.EthCallRequest{
			Args: args, GasCap: 25_000_000, ProposerAddress: sdk.ConsAddress(c.ValCons), ChainId: c.EthChain.Int64()}})
	}
	return qs
}

// showAnswer: a query answer (hex of the protobuf response, as compared) in readable form for the oracle message.
func showAnswer(q qReq, r string) string {
	bz, err := hex.DecodeString(r)
	if err != nil {
		return trunc(r, 80) // "err: ..." / "panic: ..."
	}
	switch q.Path {
	case "/ethermint.evm.v1.Query/Storage":
		var m evmtypes.QueryStorageResponse
		if proto.Unmarshal(bz, &m) == nil {
			return "value " + common.HexToHash(m.Value).Big().String()
		}
	case "/ethermint.evm.v1.Query/Code":
		var m evmtypes.QueryCodeResponse
		if proto.Unmarshal(bz, &m) == nil {
			return fmt.Sprintf("code %q", trunc(common.Bytes2Hex(m.Code), 60))
		}
	case "/ethermint.evm.v1.Query/EthCall":
		var m evmtypes.MsgEthereumTxResponse
		if proto.Unmarshal(bz, &m) == nil {
			return fmt.Sprintf("ret %q vm_error %q gas_used %d", trunc(common.Bytes2Hex(m.Ret), 64), m.VmError, m.GasUsed)
		}
	case "/ethermint.evm.v1.Query/Account":
		var m evmtypes.QueryAccountResponse
		if proto.Unmarshal(bz, &m) == nil {
			return fmt.Sprintf("balance %s code_hash %s nonce %d", m.Balance, trunc(m.CodeHash, 14), m.Nonce)
		}
	}
	return trunc(r, 80)
}

// ---------------------------------------------------------------- generator
// injectEvmScenarios weaves "EVM state on an account of some type" scenarios into a generated history:
// prepare the future CREATE address of a deployer (clawback vesting account of one of seven shapes /
// funded ahead / nothing), let the deployer reach the chosen nonce, deploy (the small contract with 0-3
// constructor slots, or the script contract), then change storage.  The preparation and the deployment stay
// adjacent (same block, or end of one block and start of the next) so that no other transaction of the
// deployer moves the nonce; everything else of the history is untouched.
func injectEvmScenarios(r *Rng, in hInput, n int) hInput {
	nb := len(in.Blocks)
	if nb == 0 {
		return in
	}
	nSmall, nFactory := 0, 0
	for s := 0; s < n; s++ {
		dep := r.Intn(chainNAccts)
		fun := r.Intn(chainNAccts)
		if r.Chance(85) && fun == dep {
			fun = (dep + 1 + r.Intn(chainNAccts-1)) % chainNAccts
		}
		off := uint64(0)
		if r.Chance(25) {
			off = uint64(1 + r.Intn(2))
		}
		prep := []hOp{}
		switch t := r.Intn(10); {
		case t < 5:
			prep = append(prep, hOp{Op: "vestat", A: fun, B: dep, K: off, Kind: r.Intn(7), Amt: islm(int64(2000 + r.Intn(7000))).String()})
		case t < 7:
			prep = append(prep, hOp{Op: "prefund", A: fun, B: dep, K: off, Kind: r.Intn(2), Amt: fmt.Sprint(1 + r.Intn(100000))})
		}
		land := []hOp{}
		for i := uint64(0); i < off; i++ { // the deployer's nonce advances to the chosen one
			land = append(land, hOp{Op: "ethsend", A: dep, B: r.Intn(chainNAccts), Amt: fmt.Sprint(1 + r.Intn(1000))})
		}
		follow := []hOp{}
		pokes := func(idx, kind int) {
			for i, m := 0, r.Intn(4); i < m; i++ {
				v := r.U64() % 1000
				if r.Chance(30) {
					v = 0 // clear
				}
				k := uint64(r.Intn(3))
				if r.Chance(25) {
					k = uint64(2)*7 + uint64(kind) + 0x100 // the constructor's third slot
				}
				p := hOp{Op: "poke", A: r.Intn(chainNAccts), B: idx, K: k, V: v}
				switch t := r.Intn(100); {
				case t < 15:
					p.Kind = 1 // the contract clears every constructor slot in one call
				case t < 25:
					p.Kind = 2 // ... or rewrites all of them
				}
				if r.Chance(10) {
					p.Amt = fmt.Sprint(1 + r.Intn(5000)) // the call carries value (all a codeless address can receive)
				}
				follow = append(follow, p)
			}
		}
		switch t := r.Intn(100); {
		case t < 62:
			d := hOp{Op: "deployc", A: dep, Kind: r.Intn(3), K: uint64(r.Intn(4)), V: r.U64() % 1_000_000, End: pickEnding(r, true)}
			if r.Chance(15) {
				d.Amt = fmt.Sprint(1 + r.Intn(5000)) // an endowment
			}
			land = append(land, d)
			if d.End != endRevert {
				idx := nSmall
				nSmall++
				pokes(idx, d.Kind)
			}
		case t < 80:
			// a CREATE2 factory (itself landing on the prepared address), then a creation that fails and succeeds at
			// the same address (or succeeds at once)
			land = append(land, hOp{Op: "factory", A: dep})
			idxF := nFactory
			nFactory++
			for i, m := 0, 1+r.Intn(2); i < m; i++ {
				c2 := hOp{Op: "create2", A: r.Intn(chainNAccts), B: idxF, Kind: r.Intn(3), K: uint64(r.Intn(4)), V: r.U64() % 1_000_000, End: pickEnding(r, false)}
				if r.Chance(70) {
					follow = append(follow, c2) // without value: the init code stores and reverts
				}
				c2.Amt = fmt.Sprint(1 + r.Intn(5000))
				follow = append(follow, c2)
				idx := nSmall
				nSmall++
				pokes(idx, c2.Kind)
			}
		default:
			land = append(land, hOp{Op: "deploy", A: dep})
			for i, m := 0, r.Intn(3); i < m; i++ {
				follow = append(follow, hOp{Op: "sstore", A: r.Intn(chainNAccts), B: -1, K: uint64(r.Intn(6)), V: r.U64() % 1000, Kind: r.Intn(3)})
			}
		}
		bi := r.Intn(nb)
		if bi+1 < nb && r.Bool() {
			// preparation at the end of block bi, landing at the start of block bi+1
			in.Blocks[bi].Ops = append(in.Blocks[bi].Ops, prep...)
			in.Blocks[bi+1].Ops = append(append([]hOp{}, land...), in.Blocks[bi+1].Ops...)
			bi++
		} else {
			ops := in.Blocks[bi].Ops
			at := r.Intn(len(ops) + 1)
			run := append(append([]hOp{}, prep...), land...)
			in.Blocks[bi].Ops = append(append(append([]hOp{}, ops[:at]...), run...), ops[at:]...)
		}
		for _, f := range follow {
			bi += r.Intn(nb - bi)
			in.Blocks[bi].Ops = append(in.Blocks[bi].Ops, f)
		}
	}
	return in
}

// pickEnding: how the constructor ends; about every third creation leaves an account WITHOUT code (and, with
// constructor slots, with storage).
func pickEnding(r *Rng, withChildren bool) int {
	switch t := r.Intn(100); {
	case t < 38:
		return endRuntime
	case t < 56:
		return endReturnEmpty
	case t < 68:
		return endStop
	case t < 75:
		return endSelfdestruct
	case t < 83:
		return endOneByte
	case t < 87:
		return endRevert
	case !withChildren:
		return endRuntime
	case t < 95:
		return endChild
	}
	return endChildOneByte
}

// genesisBaseAccounts: genesis mutation placing BaseAccounts at future CREATE addresses.
func genesisBaseAccounts(at []hBaseAt) func(gs haqqtypes.GenesisState) {
	if len(at) == 0 {
		return nil
	}
	return func(gs haqqtypes.GenesisState) {
		var ag authtypes.GenesisState
		chainEnc.Codec.MustUnmarshalJSON(gs[authtypes.ModuleName], &ag)
		accs, err := authtypes.UnpackAccounts(ag.Accounts)
		if err != nil {
			panic(err)
		}
		for _, x := range at {
			b := ((x.B % chainNAccts) + chainNAccts) % chainNAccts
			ad := crypto.CreateAddress(chainAcct(b).Eth, x.K)
			accs = append(accs, authtypes.NewBaseAccount(sdk.AccAddress(ad.Bytes()), nil, 0, 0))
		}
		packed, err := authtypes.PackAccounts(accs)
		if err != nil {
			panic(err)
		}
		ag.Accounts = packed
		gs[authtypes.ModuleName] = chainEnc.Codec.MustMarshalJSON(&ag)
	}
}
