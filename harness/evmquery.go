package main

// Driver "evmquery" (property C16, read-only half): the staking precompile's
// delegation / unbondingDelegation / validator methods and the bank precompile's
// balances / totalSupply / supplyOf methods, called through the real EVM
// (ApplyMessage, no commit) from an EOA and from a script contract, compared with
// the staking and bank keepers' state at the moment of the call.

import (
	"encoding/json"
	"fmt"
	"math/big"
	"reflect"
	"sort"
	"strings"

	sdkmath "cosmossdk.io/math"
	sdk "github.com/cosmos/cosmos-sdk/types"
	stakingtypes "github.com/cosmos/cosmos-sdk/x/staking/types"
	"github.com/ethereum/go-ethereum/accounts/abi"
	"github.com/ethereum/go-ethereum/common"
	ethtypes "github.com/ethereum/go-ethereum/core/types"

	bankprecompile "github.com/haqq-network/haqq/precompiles/bank"
	"github.com/haqq-network/haqq/testutil"
	"github.com/haqq-network/haqq/utils"
	erc20types "github.com/haqq-network/haqq/x/erc20/types"
	evmtypes "github.com/haqq-network/haqq/x/evm/types"
)

func init() { register("evmquery", evmQueryDriver) }

var evmBankAddr = common.HexToAddress("0x0000000000000000000000000000000000000804")

type evmQInput struct {
	Setup    evmSetup   `json:"setup"`
	Undeleg  []string   `json:"undeleg"`  // native undelegations performed in the setup, per actor 0..4
	Extra    [][]string `json:"extra"`    // extra denominations: [denom, registered("1"/"0"), amount for actor 0, actor 1, ...]
	Who      int        `json:"who"`      // account asked about
	Via      int        `json:"via"`      // 0 = EOA calls the precompile, 2..4 = through that script contract (result cannot be read back; only success is compared)
	Stranger bool       `json:"stranger"` // ask about an account that has nothing
}

func (e *evmEnv) ethCall(from common.Address, to common.Address, data []byte) ([]byte, error) {
	k := e.App.EvmKeeper
	msg := ethtypes.NewMessage(from, &to, k.GetNonce(e.Ctx, from), big.NewInt(0), 30_000_000, big.NewInt(0), big.NewInt(0), big.NewInt(0), data, nil, true)
	e.Ctx = e.Ctx.WithGasMeter(sdk.NewInfiniteGasMeter())
	res, err := k.ApplyMessage(e.Ctx, msg, evmtypes.NewNoOpTracer(), false)
	if err != nil {
		return nil, err
	}
	if res.Failed() {
		return nil, fmt.Errorf("vm error: %s", res.VmError)
	}
	return res.Ret, nil
}

func evmQueryCase(id string, in evmQInput) Case {
	base := evmBaseEnv()
	e := base.fork()
	kb, _ := json.Marshal(in)
	c := Case{ID: id, Kind: "query", Input: in, Key: string(kb), OracleOK: true}
	if err := e.setup(in.Setup); err != nil {
		c.Tags = []string{"setup-failed"}
		return c
	}
	for a, u := range in.Undeleg {
		if bigOf(u).Sign() > 0 {
			msg := stakingtypes.NewMsgUndelegate(accOf(a), e.valAddr, sdk.NewCoin(utils.BaseDenom, sdkmath.NewIntFromBigInt(bigOf(u))))
			if _, err := e.runMsg(msg); err != nil {
				c.Tags = []string{"setup-failed"}
				return c
			}
		}
	}
	// extra denominations, some with a registered token pair, one IBC voucher
	pairAddr := map[string]common.Address{}
	for i, ex := range in.Extra {
		denom := ex[0]
		for a := 0; a+2 < len(ex) && a < 5; a++ {
			if amt := bigOf(ex[a+2]); amt.Sign() > 0 {
				if err := testutil.FundAccount(e.Ctx, e.App.BankKeeper, accOf(a), sdk.NewCoins(sdk.NewCoin(denom, sdkmath.NewIntFromBigInt(amt)))); err != nil {
					c.Tags = []string{"setup-failed"}
					return c
				}
			}
		}
		if ex[1] == "1" {
			addr := common.BigToAddress(big.NewInt(int64(0xAA00 + i)))
			pair := erc20types.NewTokenPair(addr, denom, erc20types.OWNER_MODULE)
			e.App.Erc20Keeper.SetTokenPair(e.Ctx, pair)
			e.App.Erc20Keeper.SetDenomMap(e.Ctx, pair.Denom, pair.GetID())
			e.App.Erc20Keeper.SetERC20Map(e.Ctx, addr, pair.GetID())
			pairAddr[denom] = addr
		} else if strings.HasPrefix(denom, "ibc/") {
			if a, err := utils.GetIBCDenomAddress(denom); err == nil {
				pairAddr[denom] = a
			}
		}
	}
	who := evmAddr[in.Who]
	if in.Stranger {
		who = common.HexToAddress("0x5717a16e7000000000000000000000000000dead")
	}
	whoAcc := sdk.AccAddress(who.Bytes())
	from := evmAddr[aO]
	pcs := e.App.EvmKeeper.Precompiles(evmBankAddr)
	bABI := pcs[evmBankAddr].(*bankprecompile.Precompile).ABI

	msgs := []string{}
	tags := []string{}
	call := func(ab abi.ABI, target common.Address, method string, args ...interface{}) ([]interface{}, bool) {
		data, err := ab.Pack(method, args...)
		if err != nil {
			panic(err)
		}
		if in.Via >= aC1 {
			// through a contract: the script contract does not return data; only success is observable
			slots := map[[2]uint64]bool{}
			body := []byte{}
			body = append(body, encCall(4, target.Bytes(), big.NewInt(0), data)...) // propagate failure
			_ = slots
			_, err := e.ethCall(from, evmAddr[in.Via], body)
			tags = append(tags, "via-contract:"+method)
			if err != nil {
				msgs = append(msgs, fmt.Sprintf("%s through a contract failed: %v", method, err))
			}
		}
		ret, err := e.ethCall(from, target, data)
		if err != nil {
			msgs = append(msgs, fmt.Sprintf("%s failed: %v", method, err))
			return nil, false
		}
		out, err := ab.Methods[method].Outputs.Unpack(ret)
		if err != nil {
			msgs = append(msgs, fmt.Sprintf("%s: cannot unpack: %v", method, err))
			return nil, false
		}
		tags = append(tags, "q:"+method)
		return out, true
	}

	// ---- staking.delegation
	if out, ok := call(e.sABI, evmAddr[aPS], "delegation", who, e.valStr); ok {
		shares := out[0].(*big.Int)
		bal := reflect.ValueOf(out[1]).FieldByName("Amount").Interface().(*big.Int)
		wantShares, wantBal := big.NewInt(0), big.NewInt(0)
		if del, found := e.App.StakingKeeper.GetDelegation(e.Ctx, whoAcc, e.valAddr); found {
			val, _ := e.App.StakingKeeper.GetValidator(e.Ctx, e.valAddr)
			wantShares = del.Shares.BigInt()
			wantBal = val.TokensFromShares(del.Shares).TruncateInt().BigInt()
		}
		if shares.Cmp(wantShares) != 0 || bal.Cmp(wantBal) != 0 {
			msgs = append(msgs, fmt.Sprintf("delegation reports shares %s balance %s, staking keeper has %s / %s", shares, bal, wantShares, wantBal))
		}
	}
	// ---- staking.unbondingDelegation
	if out, ok := call(e.sABI, evmAddr[aPS], "unbondingDelegation", who, e.valStr); ok {
		ents := reflect.ValueOf(out[0]).FieldByName("Entries")
		got := []string{}
		for i := 0; i < ents.Len(); i++ {
			en := ents.Index(i)
			got = append(got, fmt.Sprintf("%v/%v/%v", en.FieldByName("CreationHeight").Interface(), en.FieldByName("InitialBalance").Interface(), en.FieldByName("Balance").Interface()))
		}
		want := []string{}
		if ubd, found := e.App.StakingKeeper.GetUnbondingDelegation(e.Ctx, whoAcc, e.valAddr); found {
			for _, en := range ubd.Entries {
				want = append(want, fmt.Sprintf("%v/%v/%v", en.CreationHeight, en.InitialBalance.BigInt(), en.Balance.BigInt()))
			}
		}
		if fmt.Sprint(got) != fmt.Sprint(want) {
			msgs = append(msgs, fmt.Sprintf("unbondingDelegation reports %v, staking keeper has %v", got, want))
		}
	}
	// ---- staking.validator
	if out, ok := call(e.sABI, evmAddr[aPS], "validator", e.valStr); ok {
		v := reflect.ValueOf(out[0])
		val, _ := e.App.StakingKeeper.GetValidator(e.Ctx, e.valAddr)
		gotTok := v.FieldByName("Tokens").Interface().(*big.Int)
		gotSh := v.FieldByName("DelegatorShares").Interface().(*big.Int)
		if gotTok.Cmp(val.Tokens.BigInt()) != 0 || gotSh.Cmp(val.DelegatorShares.BigInt()) != 0 ||
			v.FieldByName("Jailed").Bool() != val.Jailed || uint8(v.FieldByName("Status").Uint()) != uint8(val.Status) {
			msgs = append(msgs, fmt.Sprintf("validator reports tokens %s shares %s, staking keeper has %s / %s", gotTok, gotSh, val.Tokens, val.DelegatorShares))
		}
	}
	// ---- bank.balances
	if out, ok := call(bABI, evmBankAddr, "balances", who); ok {
		rv := reflect.ValueOf(out[0])
		got := []string{}
		for i := 0; i < rv.Len(); i++ {
			got = append(got, fmt.Sprintf("%s=%v", rv.Index(i).FieldByName("ContractAddress").Interface().(common.Address).Hex(), rv.Index(i).FieldByName("Amount").Interface()))
		}
		want := []string{}
		for _, coin := range e.App.BankKeeper.GetAllBalances(e.Ctx, whoAcc) {
			if a, err := e.App.Erc20Keeper.GetCoinAddress(e.Ctx, coin.Denom); err == nil {
				want = append(want, fmt.Sprintf("%s=%v", a.Hex(), coin.Amount.BigInt()))
			}
		}
		sort.Strings(got)
		sort.Strings(want)
		if fmt.Sprint(got) != fmt.Sprint(want) {
			msgs = append(msgs, fmt.Sprintf("bank.balances reports %v, bank module has %v for the denominations with an ERC20 address", got, want))
		}
		// every denomination the harness registered must be reported with the bank balance
		for d, a := range pairAddr {
			b := e.App.BankKeeper.GetBalance(e.Ctx, whoAcc, d).Amount
			if b.IsPositive() && !strings.Contains(fmt.Sprint(got), fmt.Sprintf("%s=%v", a.Hex(), b.BigInt())) {
				msgs = append(msgs, fmt.Sprintf("bank.balances misses %s (%s) = %s", d, a.Hex(), b))
			}
		}
	}
	// ---- bank.totalSupply
	if out, ok := call(bABI, evmBankAddr, "totalSupply"); ok {
		rv := reflect.ValueOf(out[0])
		got := []string{}
		for i := 0; i < rv.Len(); i++ {
			got = append(got, fmt.Sprintf("%s=%v", rv.Index(i).FieldByName("ContractAddress").Interface().(common.Address).Hex(), rv.Index(i).FieldByName("Amount").Interface()))
		}
		want := []string{}
		e.App.BankKeeper.IterateTotalSupply(e.Ctx, func(coin sdk.Coin) bool {
			if a, err := e.App.Erc20Keeper.GetCoinAddress(e.Ctx, coin.Denom); err == nil {
				want = append(want, fmt.Sprintf("%s=%v", a.Hex(), coin.Amount.BigInt()))
			}
			return false
		})
		sort.Strings(got)
		sort.Strings(want)
		if fmt.Sprint(got) != fmt.Sprint(want) {
			msgs = append(msgs, fmt.Sprintf("bank.totalSupply reports %v, bank module has %v", got, want))
		}
	}
	// ---- bank.supplyOf
	for d, a := range pairAddr {
		if strings.HasPrefix(d, "ibc/") {
			continue // supplyOf resolves registered pairs only
		}
		if out, ok := call(bABI, evmBankAddr, "supplyOf", a); ok {
			got := out[0].(*big.Int)
			want := e.App.BankKeeper.GetSupply(e.Ctx, d).Amount.BigInt()
			if got.Cmp(want) != 0 {
				msgs = append(msgs, fmt.Sprintf("bank.supplyOf(%s) reports %s, bank module has %s", d, got, want))
			}
		}
	}
	sort.Strings(tags)
	c.Tags = tags
	c.Nontrivial = len(tags) >= 5
	c.OracleOK = len(msgs) == 0
	c.OracleMsg = strings.Join(msgs, "; ")
	c.Obs = map[string]interface{}{"checked": tags}
	return c
}

func evmQueryGen(r *Rng) evmQInput {
	in := evmQInput{Setup: evmGen(r).Setup, Who: r.Intn(5), Stranger: r.Chance(8)}
	in.Setup.Grants = nil
	in.Undeleg = make([]string, 5)
	for a := 0; a < 5; a++ {
		in.Undeleg[a] = "0"
		if d := bigOf(in.Setup.Deleg[a]); d.Sign() > 0 && r.Chance(45) {
			in.Undeleg[a] = new(big.Int).Add(r.Below(d), big.NewInt(1)).String()
		}
	}
	denoms := [][]string{{"utest", "1"}, {"aLIQUID3", "1"}, {"unpaired", "0"},
		{"ibc/27394FB092D2ECCD56123C74F36E4C1F926001CEADA9CA97EA622B25F41E5EB2", "0"}}
	for _, d := range denoms {
		if !r.Chance(70) {
			continue
		}
		ex := []string{d[0], d[1]}
		for a := 0; a < 5; a++ {
			if r.Chance(50) {
				ex = append(ex, r.Big(90).String())
			} else {
				ex = append(ex, "0")
			}
		}
		in.Extra = append(in.Extra, ex)
	}
	if r.Chance(25) {
		in.Via = aC1 + r.Intn(3)
	}
	return in
}

func evmQueryDriver(cfg Config, out *Out) error {
	if cfg.Replay != "" {
		i := 0
		return readReplayInputs(cfg.Replay, func(raw json.RawMessage) error {
			var in evmQInput
			if err := json.Unmarshal(raw, &in); err != nil {
				return err
			}
			if len(in.Setup.Bal) == 0 {
				return nil // a replay line of another driver
			}
			out.Emit(evmQueryCase(fmt.Sprintf("replay-%d", i), in))
			i++
			return nil
		})
	}
	r := NewRng(cfg.Seed)
	for i := 0; i < cfg.N; i++ {
		out.Emit(evmQueryCase(fmt.Sprintf("q%d-%d", cfg.Seed, i), evmQueryGen(r.Fork())))
	}
	return nil
}
