package main

// Driver "vesting" (property C09): vesting schedule arithmetic, the clawback
// vesting account, and keeper histories through the message router.
// Three kinds of cases (input field "kind"): "pure", "acc", "hist".
// Sections: shared types, reference step function, Coq printing, driver entry;
// then the three runners and their generators.

import (
	"encoding/json"
	"errors"
	"fmt"
	"math/big"
	"sort"
	"strings"
	"time"

	"cosmossdk.io/math"
	sdk "github.com/cosmos/cosmos-sdk/types"
	sdkerrors "github.com/cosmos/cosmos-sdk/types/errors"
	authtypes "github.com/cosmos/cosmos-sdk/x/auth/types"
	sdkvesting "github.com/cosmos/cosmos-sdk/x/auth/vesting/types"
	banktypes "github.com/cosmos/cosmos-sdk/x/bank/types"

	"github.com/haqq-network/haqq/testutil"
	ethtypes "github.com/haqq-network/haqq/types"
	vestingtypes "github.com/haqq-network/haqq/x/vesting/types"
)

func init() { register("vesting", vestingDriver) }

const (
	vND      = 3
	vK1Class = "vesting:clawback-before-first-vesting-event"
)

// index order = string order, so sorted sdk.Coins are sorted by index too.
// index 0 is the bond denomination (utils.BaseDenom).
var vDenoms = []string{"aISLM", "aLIQUID1", "aLIQUID7"}

// ---------------------------------------------------------------- input types
type vCoin struct {
	D int
	V *big.Int
}

func (c vCoin) MarshalJSON() ([]byte, error) {
	return json.Marshal([]interface{}{c.D, c.V.String()})
}
func (c *vCoin) UnmarshalJSON(b []byte) error {
	var raw []json.RawMessage
	if err := json.Unmarshal(b, &raw); err != nil {
		return err
	}
	if len(raw) != 2 {
		return fmt.Errorf("coin: want [denom, \"amount\"]")
	}
	var s string
	if err := json.Unmarshal(raw[0], &c.D); err != nil {
		return err
	}
	if err := json.Unmarshal(raw[1], &s); err != nil {
		return err
	}
	v, ok := new(big.Int).SetString(s, 10)
	if !ok {
		return fmt.Errorf("bad int %q", s)
	}
	c.V = v
	return nil
}

type vPeriod struct {
	L int64   `json:"l"`
	A []vCoin `json:"a,omitempty"`
}

type vOp struct {
	Op    string    `json:"op"` // fund send create convert clawback updfunder convback
	T     int64     `json:"t,omitempty"`
	From  int       `json:"from,omitempty"`
	To    int       `json:"to,omitempty"` // fund/send/create/convert: recipient; clawback/updfunder/convback: the vesting account
	Dest  *int      `json:"dest,omitempty"`
	NewF  int       `json:"newf,omitempty"`
	Start int64     `json:"start,omitempty"`
	LP    []vPeriod `json:"lp,omitempty"`
	VP    []vPeriod `json:"vp,omitempty"`
	Merge bool      `json:"merge,omitempty"`
	Coins []vCoin   `json:"coins,omitempty"`
}

type vInput struct {
	Kind string `json:"kind"`
	// pure
	SA    int64     `json:"sa,omitempty"`
	SB    int64     `json:"sb,omitempty"`
	A     []vPeriod `json:"A,omitempty"`
	B     []vPeriod `json:"B,omitempty"`
	End   int64     `json:"end,omitempty"`
	Total []vCoin   `json:"total,omitempty"`
	// pure + acc
	Times []int64 `json:"times,omitempty"`
	// acc
	Orig   []vCoin   `json:"orig,omitempty"`
	Start  int64     `json:"start,omitempty"`
	LP     []vPeriod `json:"lp,omitempty"`
	VP     []vPeriod `json:"vp,omitempty"`
	DFree  []vCoin   `json:"dfree,omitempty"`
	DVest  []vCoin   `json:"dvest,omitempty"`
	EndOpt *int64    `json:"endopt,omitempty"`
	// hist
	Ops []vOp `json:"ops,omitempty"`
}

// vCheckCoins refuses coin lists on which sdk.Coins operations would panic for
// reasons unrelated to the property (unsorted, duplicate, non-positive).
func vCheckCoins(cs []vCoin) error {
	last := -1
	for _, c := range cs {
		if c.D < 0 || c.D >= vND {
			return fmt.Errorf("denomination index %d out of range", c.D)
		}
		if c.D <= last {
			return fmt.Errorf("coins not strictly ascending by denomination")
		}
		if c.V == nil || c.V.Sign() <= 0 {
			return fmt.Errorf("non-positive coin amount")
		}
		if c.V.BitLen() > 200 {
			return fmt.Errorf("amount too large")
		}
		last = c.D
	}
	return nil
}
func vCheckPeriods(ps []vPeriod) error {
	for _, p := range ps {
		if err := vCheckCoins(p.A); err != nil {
			return err
		}
		if p.L > 1<<40 || p.L < -(1<<40) {
			return fmt.Errorf("period length out of the modelled range")
		}
	}
	return nil
}

func (in *vInput) check() error {
	for _, cs := range [][]vCoin{in.Total, in.Orig, in.DFree, in.DVest} {
		if err := vCheckCoins(cs); err != nil {
			return err
		}
	}
	for _, ps := range [][]vPeriod{in.A, in.B, in.LP, in.VP} {
		if err := vCheckPeriods(ps); err != nil {
			return err
		}
	}
	for _, op := range in.Ops {
		if err := vCheckCoins(op.Coins); err != nil {
			return err
		}
		if err := vCheckPeriods(op.LP); err != nil {
			return err
		}
		if err := vCheckPeriods(op.VP); err != nil {
			return err
		}
		switch op.Op {
		case "fund":
			if op.To < 0 || op.To > 4 || len(op.Coins) == 0 {
				return fmt.Errorf("fund: account 0..4 and non-empty coins required")
			}
		case "send":
			if len(op.Coins) == 0 {
				return fmt.Errorf("send: non-empty coins required")
			}
		case "create", "convert", "clawback", "updfunder", "convback":
		default:
			return fmt.Errorf("unknown op %q", op.Op)
		}
		if op.From < 0 || op.From > 4 || op.To < 0 || op.To > 5 || op.NewF < 0 || op.NewF > 5 {
			return fmt.Errorf("account index out of range")
		}
		if op.Dest != nil && (*op.Dest < 0 || *op.Dest > 5) {
			return fmt.Errorf("dest index out of range")
		}
		if op.Op == "convback" && op.To > 4 {
			return fmt.Errorf("convback: account 0..4 required")
		}
	}
	return nil
}

// ---------------------------------------------------------------- amounts (reference side, big.Int per denomination)
type vAmt [vND]*big.Int

func vZ() vAmt {
	var a vAmt
	for d := range a {
		a[d] = big.NewInt(0)
	}
	return a
}
func (a vAmt) add(b vAmt) vAmt {
	r := vZ()
	for d := range r {
		r[d].Add(a[d], b[d])
	}
	return r
}
func (a vAmt) sub(b vAmt) vAmt {
	r := vZ()
	for d := range r {
		r[d].Sub(a[d], b[d])
	}
	return r
}
func (a vAmt) min(b vAmt) vAmt {
	r := vZ()
	for d := range r {
		if a[d].Cmp(b[d]) <= 0 {
			r[d].Set(a[d])
		} else {
			r[d].Set(b[d])
		}
	}
	return r
}
func (a vAmt) eq(b vAmt) bool {
	for d := range a {
		if a[d].Cmp(b[d]) != 0 {
			return false
		}
	}
	return true
}
func (a vAmt) leq(b vAmt) bool {
	for d := range a {
		if a[d].Cmp(b[d]) > 0 {
			return false
		}
	}
	return true
}
func (a vAmt) zero() bool {
	for d := range a {
		if a[d].Sign() != 0 {
			return false
		}
	}
	return true
}
func (a vAmt) neg() bool {
	for d := range a {
		if a[d].Sign() < 0 {
			return true
		}
	}
	return false
}
func (a vAmt) String() string {
	out := []string{}
	for d := range a {
		if a[d].Sign() != 0 {
			out = append(out, a[d].String()+vDenoms[d])
		}
	}
	if len(out) == 0 {
		return "0"
	}
	return strings.Join(out, "+")
}

// canonical clist: non-zero entries, ascending denominations
func (a vAmt) coq() string {
	out := []string{}
	for d := range a {
		if a[d].Sign() != 0 {
			out = append(out, fmt.Sprintf("(%d%%N,%s)", d, coqZ(a[d])))
		}
	}
	return coqList(out)
}

func vAmtOf(cs []vCoin) vAmt {
	a := vZ()
	for _, c := range cs {
		a[c.D].Add(a[c.D], c.V)
	}
	return a
}

var vDenomIdx = map[string]int{"aISLM": 0, "aLIQUID1": 1, "aLIQUID7": 2}

func vAmtOfSdk(cs sdk.Coins) (vAmt, error) {
	a := vZ()
	for _, c := range cs {
		d, ok := vDenomIdx[c.Denom]
		if !ok {
			return a, fmt.Errorf("unexpected denomination %q", c.Denom)
		}
		if c.Amount.IsNil() {
			return a, fmt.Errorf("nil amount")
		}
		a[d].Add(a[d], c.Amount.BigInt())
	}
	return a, nil
}

func vCoinsOfAmt(a vAmt) []vCoin {
	out := []vCoin{}
	for d := range a {
		if a[d].Sign() != 0 {
			out = append(out, vCoin{d, new(big.Int).Set(a[d])})
		}
	}
	return out
}

// fresh sdk values (nothing shared with the input)
func vSdkCoins(cs []vCoin) sdk.Coins {
	out := sdk.Coins{}
	for _, c := range cs {
		out = append(out, sdk.Coin{Denom: vDenoms[c.D], Amount: math.NewIntFromBigInt(new(big.Int).Set(c.V))})
	}
	return out
}
func vSdkPeriods(ps []vPeriod) sdkvesting.Periods {
	out := sdkvesting.Periods{}
	for _, p := range ps {
		out = append(out, sdkvesting.Period{Length: p.L, Amount: vSdkCoins(p.A)})
	}
	return out
}

// ---------------------------------------------------------------- reference periods and the reference step function
type rP struct {
	L int64
	A vAmt
}

func rOf(ps []vPeriod) []rP {
	out := []rP{}
	for _, p := range ps {
		out = append(out, rP{p.L, vAmtOf(p.A)})
	}
	return out
}
func rOfSdk(ps sdkvesting.Periods) ([]rP, error) {
	out := []rP{}
	for _, p := range ps {
		a, err := vAmtOfSdk(p.Amount)
		if err != nil {
			return nil, err
		}
		out = append(out, rP{p.Length, a})
	}
	return out, nil
}

// refEv(start, periods, t)[d] = sum of Amount[d] over periods i with
// start + sum_{j<=i} Length_j <= t   (written from the property text).
func refEv(start int64, ps []rP, t int64) vAmt {
	acc := vZ()
	e := start
	for _, p := range ps {
		e += p.L
		if e <= t {
			acc = acc.add(p.A)
		}
	}
	return acc
}
func refCount(start int64, ps []rP, t int64) int {
	n := 0
	e := start
	for _, p := range ps {
		e += p.L
		if e <= t {
			n++
		}
	}
	return n
}
func rTotal(ps []rP) vAmt {
	acc := vZ()
	for _, p := range ps {
		acc = acc.add(p.A)
	}
	return acc
}
func rSumLen(ps []rP) int64 {
	var n int64
	for _, p := range ps {
		n += p.L
	}
	return n
}
func rEvents(start int64, ps []rP) []int64 {
	out := []int64{}
	e := start
	for _, p := range ps {
		e += p.L
		out = append(out, e)
	}
	return out
}
func rNonNeg(ps []rP) bool {
	for _, p := range ps {
		if p.L < 0 {
			return false
		}
	}
	return true
}
func rEventsStr(start int64, ps []rP) string {
	out := []string{}
	e := start
	for _, p := range ps {
		e += p.L
		out = append(out, fmt.Sprintf("%d:%s", e, p.A))
	}
	return "[" + strings.Join(out, " ") + "]"
}

func coqPl(ps []rP) string {
	out := []string{}
	for _, p := range ps {
		out = append(out, fmt.Sprintf("(%s, %s)", coqZi(p.L), p.A.coq()))
	}
	return coqList(out)
}
func vestCoqZs(ts []int64) string {
	out := []string{}
	for _, t := range ts {
		out = append(out, coqZi(t))
	}
	return coqList(out)
}
func coqAv(start, end int64, orig vAmt, lp, vp []rP) string {
	return fmt.Sprintf("(mkav %s %s %s %s %s)", coqZi(start), coqZi(end), orig.coq(), coqPl(lp), coqPl(vp))
}

func vSamePeriods(got sdkvesting.Periods, want []vPeriod) bool {
	if len(got) != len(want) {
		return false
	}
	for i := range got {
		if got[i].Length != want[i].L || len(got[i].Amount) != len(want[i].A) {
			return false
		}
		for j, c := range got[i].Amount {
			if c.Denom != vDenoms[want[i].A[j].D] || c.Amount.BigInt().Cmp(want[i].A[j].V) != 0 {
				return false
			}
		}
	}
	return true
}

// vTimes: sorted, deduplicated read times around the given instants (-1/0/+1),
// capped at max (exact instants are kept first, then +1, then -1).
func vTimes(exact []int64, max int) []int64 {
	seen := map[int64]bool{}
	out := []int64{}
	for _, delta := range []int64{0, 1, -1} {
		for _, t := range exact {
			x := t + delta
			if !seen[x] && len(out) < max {
				seen[x] = true
				out = append(out, x)
			}
		}
	}
	sort.Slice(out, func(i, j int) bool { return out[i] < out[j] })
	return out
}

func vTagList(tags map[string]bool) []string {
	tl := []string{}
	for t := range tags {
		tl = append(tl, t)
	}
	sort.Strings(tl)
	return tl
}

// ---------------------------------------------------------------- driver
func vRun(id string, in vInput) ([]Case, error) {
	if err := in.check(); err != nil {
		return nil, fmt.Errorf("%s: %v", id, err)
	}
	switch in.Kind {
	case "pure":
		return []Case{vRunPure(id, in)}, nil
	case "acc":
		return vRunAcc(id, in), nil
	case "hist":
		return vRunHist(id, in), nil
	}
	return nil, fmt.Errorf("%s: unknown kind %q", id, in.Kind)
}

// vK1Companion: the demand "a clawback leaves a valid account" fails on inputs
// of the known class K1 (clawback before the first vesting event).  It is
// reported as a separate record (same input, no Coq term, Class = K1) so that
// the main record of the input keeps its model comparison and every other
// demand of the property at full strength.
func vK1Companion(main Case, k1fails []string, tag string) Case {
	msg := k1fails[0]
	if len(k1fails) > 1 {
		msg += fmt.Sprintf(" (+%d more clawback times in the same class)", len(k1fails)-1)
	}
	return Case{ID: main.ID + "/k1", Kind: main.Kind, Input: main.Input, Obs: k1fails,
		OracleOK: false, OracleMsg: msg, Class: vK1Class, Nontrivial: false, Key: main.Key, Tags: []string{tag}}
}

func vestingDriver(cfg Config, out *Out) error {
	if cfg.Replay != "" {
		i := 0
		return readReplayInputs(cfg.Replay, func(raw json.RawMessage) error {
			var in vInput
			if err := json.Unmarshal(raw, &in); err != nil {
				return err
			}
			cs, err := vRun(fmt.Sprintf("replay-%d", i), in)
			if err != nil {
				return err
			}
			for _, c := range cs {
				out.Emit(c)
			}
			i++
			return nil
		})
	}
	// NewRng(seed+1) is NewRng(seed) advanced by one step; mixing the seed once
	// makes the case streams of neighbouring seeds unrelated.
	r := NewRng(NewRng(cfg.Seed).U64())
	force := cfg.Args["kind"]
	for i := 0; i < cfg.N; i++ {
		cr := r.Fork()
		kind := force
		if kind == "" {
			// quick: 45% pure, 25% account, 30% histories; thorough: the volume
			// goes to the cheap pure/account cases (62% / 31% / 7%)
			pPure, pAcc := 45, 70
			if cfg.Tier == "thorough" {
				pPure, pAcc = 62, 93
			}
			k := cr.Intn(100)
			switch {
			case k < pPure:
				kind = "pure"
			case k < pAcc:
				kind = "acc"
			default:
				kind = "hist"
			}
		}
		id := fmt.Sprintf("s%d-%d", cfg.Seed, i)
		switch kind {
		case "pure":
			out.Emit(vRunPure(id, vGenPure(cr)))
		case "acc":
			for _, c := range vRunAcc(id, vGenAcc(cr)) {
				out.Emit(c)
			}
		case "hist":
			for _, c := range vGenHist(id, cr) {
				out.Emit(c)
			}
		default:
			return fmt.Errorf("unknown kind %q", kind)
		}
	}
	return nil
}

// ================================================================ (a) pure calls
type vSched struct {
	S, E int64
	P    []rP
	sdk  sdkvesting.Periods
}

type vPureObs struct {
	Times []int64  `json:"times"`
	Read  []string `json:"read"`
	Count []int    `json:"count"`
	Disj  string   `json:"disjunct"`
	Conj  string   `json:"conjunct"`
	Align string   `json:"align"`
}

func vRunPure(id string, in vInput) Case {
	A, B := rOf(in.A), rOf(in.B)
	total := vAmtOf(in.Total)
	panicMsg, mutMsg, harnessMsg := "", "", ""
	call := func(name string, f func()) {
		defer func() {
			if r := recover(); r != nil && panicMsg == "" {
				panicMsg = fmt.Sprintf("%s panicked: %v", name, r)
			}
		}()
		f()
	}
	unmutated := func(name string, pa, pb sdkvesting.Periods) {
		if mutMsg == "" && (!vSamePeriods(pa, in.A) || (pb != nil && !vSamePeriods(pb, in.B))) {
			mutMsg = name + " mutated its input periods"
		}
	}
	conv := func(ps sdkvesting.Periods) []rP {
		r, err := rOfSdk(ps)
		if err != nil && harnessMsg == "" {
			harnessMsg = err.Error()
		}
		return r
	}
	var disj, conj vSched
	var al struct {
		S, E int64
		A, B []rP
	}
	call("DisjunctPeriods", func() {
		pa, pb := vSdkPeriods(in.A), vSdkPeriods(in.B)
		s, e, p := vestingtypes.DisjunctPeriods(in.SA, in.SB, pa, pb)
		unmutated("DisjunctPeriods", pa, pb)
		disj = vSched{S: s, E: e, P: conv(p), sdk: p}
	})
	call("ConjunctPeriods", func() {
		pa, pb := vSdkPeriods(in.A), vSdkPeriods(in.B)
		s, e, p := vestingtypes.ConjunctPeriods(in.SA, in.SB, pa, pb)
		unmutated("ConjunctPeriods", pa, pb)
		conj = vSched{S: s, E: e, P: conv(p), sdk: p}
	})
	call("AlignSchedules", func() {
		pa, pb := vSdkPeriods(in.A), vSdkPeriods(in.B)
		s, e := vestingtypes.AlignSchedules(in.SA, in.SB, pa, pb)
		al.S, al.E, al.A, al.B = s, e, conv(pa), conv(pb)
	})
	if len(in.Times) == 0 {
		ex := []int64{in.SA, in.SB, in.End, disj.S, disj.E, conj.S, conj.E}
		ex = append(ex, rEvents(in.SA, A)...)
		ex = append(ex, rEvents(in.SB, B)...)
		ex = append(ex, rEvents(disj.S, disj.P)...)
		ex = append(ex, rEvents(conj.S, conj.P)...)
		in.Times = vTimes(ex, 40)
	}
	reads := make([]vAmt, len(in.Times))
	counts := make([]int, len(in.Times))
	for i, t := range in.Times {
		i, t := i, t
		reads[i] = vZ()
		call("ReadSchedule", func() {
			pa := vSdkPeriods(in.A)
			tot := vSdkCoins(in.Total)
			c := vestingtypes.ReadSchedule(in.SA, in.End, pa, tot, t)
			a, err := vAmtOfSdk(c)
			if err != nil && harnessMsg == "" {
				harnessMsg = err.Error()
			}
			reads[i] = a
			unmutated("ReadSchedule", pa, nil)
			if ta, _ := vAmtOfSdk(tot); !ta.eq(total) && mutMsg == "" {
				mutMsg = "ReadSchedule mutated totalCoins"
			}
		})
		call("ReadPastPeriodCount", func() {
			pa := vSdkPeriods(in.A)
			counts[i] = vestingtypes.ReadPastPeriodCount(in.SA, in.End, pa, t)
			unmutated("ReadPastPeriodCount", pa, nil)
		})
	}

	// ---- tags
	tags := map[string]bool{"pure": true}
	nonneg := rNonNeg(A) && rNonNeg(B)
	if !nonneg {
		tags["pure:neg-len"] = true
	}
	for _, ps := range [][]rP{A, B} {
		for i, p := range ps {
			if p.L == 0 {
				tags["pure:zero-len"] = true
				if i == 0 {
					tags["pure:zero-len-first"] = true
				}
			}
			if p.A.zero() {
				tags["pure:empty-amount"] = true
			}
		}
		if len(ps) == 0 {
			tags["pure:empty-list"] = true
		}
	}
	evA := map[int64]bool{}
	for _, e := range rEvents(in.SA, A) {
		evA[e] = true
	}
	for _, e := range rEvents(in.SB, B) {
		if evA[e] {
			tags["pure:simultaneous"] = true
		}
	}
	if in.SA == in.SB {
		tags["pure:same-start"] = true
	} else {
		tags["pure:diff-start"] = true
	}
	used := vZ()
	for _, p := range append(append([]rP{}, A...), B...) {
		for d := range used {
			if p.A[d].Sign() != 0 {
				used[d].SetInt64(1)
			}
		}
	}
	nd := 0
	for d := range used {
		nd += int(used[d].Int64())
	}
	tags[fmt.Sprintf("pure:denoms=%d", nd)] = true
	totalA := rTotal(A)
	consistent := rNonNeg(A) && in.End >= in.SA+rSumLen(A) && total.eq(totalA)
	if !consistent && rNonNeg(A) {
		tags["pure:inconsistent-end"] = true
	}
	for d := range totalA {
		if totalA[d].BitLen() > 100 {
			tags["pure:big-amounts"] = true
		}
	}

	// ---- oracle (reference: refEv, written from the property text)
	msg := ""
	fail := func(f string, a ...interface{}) {
		if msg == "" {
			msg = fmt.Sprintf(f, a...)
		}
	}
	if harnessMsg != "" {
		fail("harness: %s", harnessMsg)
	}
	if panicMsg != "" {
		fail("%s", panicMsg)
	}
	if mutMsg != "" {
		fail("%s", mutMsg)
	}
	if panicMsg == "" {
		if consistent {
			prev := vZ()
			for i, t := range in.Times {
				want := vZ()
				if t > in.SA {
					want = refEv(in.SA, A, t)
				}
				if !reads[i].eq(want) {
					fail("ReadSchedule(start %d, end %d, t %d) = %s, the sum of the periods ended by t is %s", in.SA, in.End, t, reads[i], want)
				}
				if t >= in.End && t > in.SA && !reads[i].eq(total) {
					fail("ReadSchedule at t %d >= end %d = %s, the total is %s", t, in.End, reads[i], total)
				}
				if reads[i].neg() {
					fail("ReadSchedule at t %d is negative: %s", t, reads[i])
				}
				if !prev.leq(reads[i]) {
					fail("ReadSchedule decreases at t %d: %s after %s", t, reads[i], prev)
				}
				prev = reads[i]
				wc := 0
				if t > in.SA {
					wc = refCount(in.SA, A, t)
				}
				if counts[i] != wc {
					fail("ReadPastPeriodCount(t %d) = %d, periods ended by t: %d", t, counts[i], wc)
				}
			}
		}
		// Disjunct: event-sum identity needs no hypothesis on the lengths
		mn := in.SA
		if in.SB < mn {
			mn = in.SB
		}
		mx := in.SA + in.SB - mn
		if disj.S != mn {
			fail("DisjunctPeriods start %d, want min(%d,%d)", disj.S, in.SA, in.SB)
		}
		if disj.E != disj.S+rSumLen(disj.P) {
			fail("DisjunctPeriods end %d != start %d + total output length %d", disj.E, disj.S, rSumLen(disj.P))
		}
		for _, t := range in.Times {
			want := refEv(in.SA, A, t).add(refEv(in.SB, B, t))
			if got := refEv(disj.S, disj.P, t); !got.eq(want) {
				fail("DisjunctPeriods: events up to t %d sum to %s, the two schedules release %s (output %s)", t, got, want, rEventsStr(disj.S, disj.P))
			}
		}
		if nonneg {
			last := disj.S
			if ev := rEvents(in.SA, A); len(ev) > 0 && ev[len(ev)-1] > last {
				last = ev[len(ev)-1]
			}
			if ev := rEvents(in.SB, B); len(ev) > 0 && ev[len(ev)-1] > last {
				last = ev[len(ev)-1]
			}
			if disj.E != last {
				fail("DisjunctPeriods end %d, the last event of either schedule is at %d", disj.E, last)
			}
			if !rNonNeg(disj.P) {
				fail("DisjunctPeriods produced a negative period length: %s", rEventsStr(disj.S, disj.P))
			}
			both := totalA.add(rTotal(B))
			for _, t := range in.Times {
				if t <= mx {
					continue
				}
				t := t
				call("ReadSchedule(disjunct)", func() {
					dp := append(sdkvesting.Periods{}, disj.sdk...)
					c := vestingtypes.ReadSchedule(disj.S, disj.E, dp, vSdkCoins(vCoinsOfAmt(both)), t)
					got, _ := vAmtOfSdk(c)
					want := refEv(in.SA, A, t).add(refEv(in.SB, B, t))
					if !got.eq(want) {
						fail("ReadSchedule of the merged schedule at t %d = %s, the two schedules release %s", t, got, want)
					}
				})
			}
			if panicMsg != "" {
				fail("%s", panicMsg)
			}
			// Conjunct: pointwise minimum
			if conj.S != mn {
				fail("ConjunctPeriods start %d, want min(%d,%d)", conj.S, in.SA, in.SB)
			}
			for _, t := range in.Times {
				want := refEv(in.SA, A, t).min(refEv(in.SB, B, t))
				if got := refEv(conj.S, conj.P, t); !got.eq(want) {
					fail("ConjunctPeriods: events up to t %d sum to %s, the minimum of the two schedules is %s (output %s)", t, got, want, rEventsStr(conj.S, conj.P))
				}
			}
		}
		if al.S != mn {
			fail("AlignSchedules start %d, want min(%d,%d)", al.S, in.SA, in.SB)
		}
	}

	// ---- Coq term
	coq := ""
	if panicMsg == "" {
		rs, cs := []string{}, []string{}
		for i := range in.Times {
			rs = append(rs, reads[i].coq())
			cs = append(cs, fmt.Sprintf("%d%%nat", counts[i]))
		}
		coq = fmt.Sprintf("(mkpin %s %s %s %s %s %s %s,\n   mkpobs %s %s (%s, %s, %s) (%s, %s, %s) (%s, %s, %s, %s))",
			coqZi(in.SA), coqZi(in.SB), coqPl(A), coqPl(B), coqZi(in.End), total.coq(), vestCoqZs(in.Times),
			coqList(rs), coqList(cs),
			coqZi(disj.S), coqZi(disj.E), coqPl(disj.P),
			coqZi(conj.S), coqZi(conj.E), coqPl(conj.P),
			coqZi(al.S), coqZi(al.E), coqPl(al.A), coqPl(al.B))
	}
	obs := vPureObs{Times: in.Times, Count: counts,
		Disj:  fmt.Sprintf("start %d end %d %s", disj.S, disj.E, rEventsStr(disj.S, disj.P)),
		Conj:  fmt.Sprintf("start %d end %d %s", conj.S, conj.E, rEventsStr(conj.S, conj.P)),
		Align: fmt.Sprintf("start %d end %d A%s B%s", al.S, al.E, rEventsStr(al.S, al.A), rEventsStr(al.S, al.B))}
	for i := range reads {
		obs.Read = append(obs.Read, reads[i].String())
	}
	kb, _ := json.Marshal(in)
	return Case{ID: id, Kind: "pure", Input: in, Obs: obs, Coq: coq, CoqList: "pure",
		OracleOK: msg == "", OracleMsg: msg, Nontrivial: len(A) > 0 && len(B) > 0,
		Key: string(kb), Tags: vTagList(tags)}
}

// ---------------------------------------------------------------- generators shared by the three kinds
type vScale struct {
	denoms  []int // ascending
	maxBits int
}

func vGenScale(r *Rng) vScale {
	nd := 1 + r.Intn(vND)
	ds := []int{}
	switch nd {
	case 1:
		ds = []int{r.Intn(vND)}
	case 2:
		skip := r.Intn(vND)
		for d := 0; d < vND; d++ {
			if d != skip {
				ds = append(ds, d)
			}
		}
	default:
		ds = []int{0, 1, 2}
	}
	return vScale{denoms: ds, maxBits: []int{6, 40, 120}[r.Intn(3)]}
}

// a positive amount
func (s vScale) amount(r *Rng) *big.Int {
	v := r.Big(s.maxBits)
	return v.Add(v, big.NewInt(1))
}

// coins over a random non-empty subset of the case's denominations (empty with pEmpty percent)
func (s vScale) coins(r *Rng, pEmpty int) []vCoin {
	out := []vCoin{}
	if r.Chance(pEmpty) {
		return out
	}
	for _, d := range s.denoms {
		if r.Chance(70) {
			out = append(out, vCoin{d, s.amount(r)})
		}
	}
	if len(out) == 0 {
		d := s.denoms[r.Intn(len(s.denoms))]
		out = append(out, vCoin{d, s.amount(r)})
	}
	return out
}

func vGenLen(r *Rng) int64 {
	switch k := r.Intn(100); {
	case k < 35:
		return 0
	case k < 85:
		return int64(1 + r.Intn(12))
	case k < 97:
		return int64(1 + r.Intn(300))
	default:
		return int64(1 + r.Intn(100000))
	}
}

// split total into n non-negative parts per denomination (parts may be zero)
func vSplit(r *Rng, total vAmt, n int) []vAmt {
	out := make([]vAmt, n)
	for i := range out {
		out[i] = vZ()
	}
	if n == 0 {
		return out
	}
	for d := range total {
		rest := new(big.Int).Set(total[d])
		for i := 0; i < n-1 && rest.Sign() > 0; i++ {
			var x *big.Int
			switch r.Intn(5) {
			case 0:
				x = big.NewInt(0)
			case 1:
				x = big.NewInt(1)
			case 2:
				x = new(big.Int).Set(rest)
			default:
				x = r.Below(new(big.Int).Add(rest, big.NewInt(1)))
			}
			if x.Cmp(rest) > 0 {
				x.Set(rest)
			}
			out[i][d].Set(x)
			rest.Sub(rest, x)
		}
		j := n - 1
		if r.Chance(30) {
			j = r.Intn(n)
		}
		out[j][d].Add(out[j][d], rest)
	}
	return out
}

func vGenPure(r *Rng) vInput {
	sc := vGenScale(r)
	in := vInput{Kind: "pure"}
	base := []int64{1000, 1000, 50, 1_700_000_000}[r.Intn(4)]
	in.SA = base
	switch k := r.Intn(100); {
	case k < 40:
		in.SB = base
	case k < 70:
		in.SB = base + int64(1+r.Intn(15))
	case k < 95:
		in.SB = base - int64(1+r.Intn(15))
	default:
		in.SB = base + int64(r.Intn(5000)) - 2500
	}
	nper := func() int {
		if r.Chance(8) {
			return 0 // occasionally an empty list
		}
		return 1 + r.Intn(6)
	}
	na := nper()
	t := in.SA
	evA := []int64{}
	for i := 0; i < na; i++ {
		l := vGenLen(r)
		t += l
		evA = append(evA, t)
		in.A = append(in.A, vPeriod{L: l, A: sc.coins(r, 8)})
	}
	nb := nper()
	cur := in.SB
	for i := 0; i < nb; i++ {
		l := vGenLen(r)
		// collide with an event of A on purpose
		if r.Chance(50) {
			cands := []int64{}
			for _, e := range evA {
				if e >= cur {
					cands = append(cands, e)
				}
			}
			if len(cands) > 0 {
				l = cands[r.Intn(len(cands))] - cur
			}
		}
		cur += l
		in.B = append(in.B, vPeriod{L: l, A: sc.coins(r, 8)})
	}
	if r.Chance(5) && na+nb > 0 {
		k := r.Intn(na + nb)
		neg := -int64(1 + r.Intn(10))
		if k < na {
			in.A[k].L = neg
		} else {
			in.B[k-na].L = neg
		}
	}
	A := rOf(in.A)
	in.End = in.SA + rSumLen(A)
	in.Total = vCoinsOfAmt(rTotal(A))
	if r.Chance(30) {
		in.End += int64(1 + r.Intn(20))
	}
	if r.Chance(15) {
		switch r.Intn(4) {
		case 0:
			in.End = in.SA + rSumLen(A) - int64(1+r.Intn(10))
		case 1:
			in.End = in.SA - int64(r.Intn(2))
		case 2:
			in.Total = sc.coins(r, 20)
		default:
			in.End = in.SA + rSumLen(A)/2
			in.Total = sc.coins(r, 20)
		}
	}
	return in
}

// ================================================================ (b) account level
func vValidateCode(err error) int {
	if err == nil {
		return 0
	}
	switch err.Error() {
	case "vesting start-time must be before end-time":
		return 1
	case "lockup schedule extends beyond account end time":
		return 2
	case "original vesting coins does not match the sum of all coins in lockup periods":
		return 3
	case "vesting schedule extends beyond account end time":
		return 4
	case "original vesting coins does not match the sum of all coins in vesting periods":
		return 5
	case "delegated vesting amount cannot be greater than original vesting amount":
		return 6
	}
	return 9
}

type vOptAmt struct {
	OK bool
	A  vAmt
}

func (o vOptAmt) coq() string {
	if !o.OK {
		return "None"
	}
	return "(Some " + o.A.coq() + ")"
}
func (o vOptAmt) String() string {
	if !o.OK {
		return "panic"
	}
	return o.A.String()
}

type vAccView struct {
	Start, End int64
	Orig       vAmt
	LP, VP     []rP
}

func (v vAccView) coq() string { return coqAv(v.Start, v.End, v.Orig, v.LP, v.VP) }
func (v vAccView) String() string {
	return fmt.Sprintf("start %d end %d orig %s lockup%s vesting%s", v.Start, v.End, v.Orig, rEventsStr(v.Start, v.LP), rEventsStr(v.Start, v.VP))
}

func vViewOfAcc(va *vestingtypes.ClawbackVestingAccount) (vAccView, error) {
	var v vAccView
	var err error
	v.Start, v.End = va.StartTime.Unix(), va.EndTime
	if v.Orig, err = vAmtOfSdk(va.OriginalVesting); err != nil {
		return v, err
	}
	if v.LP, err = rOfSdk(va.LockupPeriods); err != nil {
		return v, err
	}
	v.VP, err = rOfSdk(va.VestingPeriods)
	return v, err
}

type vClaw struct {
	OK   bool
	View vAccView
	Amt  vAmt
	Code int
}

type vAccObs struct {
	Acc      string   `json:"account"`
	Validate int      `json:"validate"`
	Times    []int64  `json:"times"`
	Unlocked []string `json:"unlocked"`
	Vested   []string `json:"vested"`
	Locked   []string `json:"locked"`
	Claw     []string `json:"clawback"`
}

// k1Shape: no vesting period has a cumulative end time e with start < e <= T
func vK1Shape(start int64, vp []rP, T int64) bool {
	for _, e := range rEvents(start, vp) {
		if start < e && e <= T {
			return false
		}
	}
	return true
}

func vRunAcc(id string, in vInput) []Case {
	// a FRESH account for every call: the value receiver of ComputeClawback
	// shares *BaseVestingAccount with the account it was called on
	mk := func() *vestingtypes.ClawbackVestingAccount {
		va := vestingtypes.NewClawbackVestingAccount(authtypes.NewBaseAccountWithAddress(addrN(0)), addrN(1),
			vSdkCoins(in.Orig), time.Unix(in.Start, 0).UTC(), vSdkPeriods(in.LP), vSdkPeriods(in.VP), nil)
		va.DelegatedFree = vSdkCoins(in.DFree)
		va.DelegatedVesting = vSdkCoins(in.DVest)
		if in.EndOpt != nil {
			va.EndTime = *in.EndOpt
		}
		return va
	}
	harnessMsg := ""
	hm := func(err error) {
		if err != nil && harnessMsg == "" {
			harnessMsg = err.Error()
		}
	}
	anyPanic := ""
	try := func(name string, t int64, f func(va *vestingtypes.ClawbackVestingAccount) sdk.Coins) (res vOptAmt) {
		res.A = vZ()
		defer func() {
			if r := recover(); r != nil {
				res.OK = false
				if anyPanic == "" {
					anyPanic = fmt.Sprintf("%s at t %d panicked: %v", name, t, r)
				}
			}
		}()
		a, err := vAmtOfSdk(f(mk()))
		hm(err)
		return vOptAmt{true, a}
	}
	acc0 := mk()
	view, err := vViewOfAcc(acc0)
	hm(err)
	vcode := vValidateCode(mk().Validate())
	LP, VP := rOf(in.LP), rOf(in.VP)
	orig := vAmtOf(in.Orig)
	if len(in.Times) == 0 {
		ex := []int64{in.Start, view.End}
		ex = append(ex, rEvents(in.Start, LP)...)
		ex = append(ex, rEvents(in.Start, VP)...)
		in.Times = vTimes(ex, 40)
	}
	n := len(in.Times)
	unl, ves, vesting, lup, uv, luv, locked := make([]vOptAmt, n), make([]vOptAmt, n), make([]vOptAmt, n), make([]vOptAmt, n), make([]vOptAmt, n), make([]vOptAmt, n), make([]vOptAmt, n)
	counts := make([]int, n)
	claws := make([]vClaw, n)
	clawAcc := make([]*vestingtypes.ClawbackVestingAccount, n)
	for i, t := range in.Times {
		bt := time.Unix(t, 0).UTC()
		unl[i] = try("GetUnlockedCoins", t, func(va *vestingtypes.ClawbackVestingAccount) sdk.Coins { return va.GetUnlockedCoins(bt) })
		ves[i] = try("GetVestedCoins", t, func(va *vestingtypes.ClawbackVestingAccount) sdk.Coins { return va.GetVestedCoins(bt) })
		vesting[i] = try("GetVestingCoins", t, func(va *vestingtypes.ClawbackVestingAccount) sdk.Coins { return va.GetVestingCoins(bt) })
		lup[i] = try("GetLockedUpCoins", t, func(va *vestingtypes.ClawbackVestingAccount) sdk.Coins { return va.GetLockedUpCoins(bt) })
		uv[i] = try("GetUnlockedVestedCoins", t, func(va *vestingtypes.ClawbackVestingAccount) sdk.Coins { return va.GetUnlockedVestedCoins(bt) })
		luv[i] = try("GetLockedUpVestedCoins", t, func(va *vestingtypes.ClawbackVestingAccount) sdk.Coins { return va.GetLockedUpVestedCoins(bt) })
		locked[i] = try("LockedCoins", t, func(va *vestingtypes.ClawbackVestingAccount) sdk.Coins { return va.LockedCoins(bt) })
		func() {
			defer func() {
				if r := recover(); r != nil && anyPanic == "" {
					anyPanic = fmt.Sprintf("GetPassedPeriodCount at t %d panicked: %v", t, r)
				}
			}()
			counts[i] = mk().GetPassedPeriodCount(bt)
		}()
		func() {
			defer func() {
				if r := recover(); r != nil {
					claws[i].OK = false
					if anyPanic == "" {
						anyPanic = fmt.Sprintf("ComputeClawback at t %d panicked: %v", t, r)
					}
				}
			}()
			nva, amt := mk().ComputeClawback(t)
			v, err := vViewOfAcc(&nva)
			hm(err)
			a, err := vAmtOfSdk(amt)
			hm(err)
			claws[i] = vClaw{OK: true, View: v, Amt: a, Code: vValidateCode(nva.Validate())}
			clawAcc[i] = &nva
		}()
	}

	// ---- tags
	tags := map[string]bool{"acc": true}
	nonneg := rNonNeg(LP) && rNonNeg(VP)
	valid := vcode == 0
	if valid {
		tags["acc:valid"] = true
	} else {
		tags[fmt.Sprintf("acc:invalid:%d", vcode)] = true
	}
	if len(in.DFree)+len(in.DVest) > 0 {
		tags["acc:delegated"] = true
	}
	if in.EndOpt != nil {
		tags["acc:end-overwritten"] = true
	}
	for _, ps := range [][]rP{LP, VP} {
		for _, p := range ps {
			if p.L == 0 {
				tags["acc:zero-len"] = true
			}
		}
	}
	if len(LP) == 1 && LP[0].L == 0 {
		tags["acc:lockup-instant"] = true
	}
	if len(VP) == 1 && VP[0].L == 0 {
		tags["acc:vesting-instant"] = true
	}
	nd := 0
	for d := range orig {
		if orig[d].Sign() != 0 {
			nd++
		}
	}
	tags[fmt.Sprintf("acc:denoms=%d", nd)] = true
	inside := false
	for _, t := range in.Times {
		if t > view.Start && t < view.End {
			inside = true
		}
	}

	// ---- oracle: only on valid accounts with non-negative lengths
	fails, k1fails := []string{}, []string{}
	fail := func(f string, a ...interface{}) { fails = append(fails, fmt.Sprintf(f, a...)) }
	if harnessMsg != "" {
		fail("harness: %s", harnessMsg)
	}
	if valid && nonneg {
		start, end := view.Start, view.End
		vref := func(t int64) vAmt {
			if t <= start {
				return vZ()
			}
			return refEv(start, VP, t)
		}
		uref := func(t int64) vAmt {
			if t <= start {
				return vZ()
			}
			return refEv(start, LP, t)
		}
		if anyPanic != "" {
			fail("%s", anyPanic)
		}
		pv, pu := vZ(), vZ()
		for i, t := range in.Times {
			if !(unl[i].OK && ves[i].OK && vesting[i].OK && lup[i].OK && uv[i].OK && luv[i].OK && locked[i].OK && claws[i].OK) {
				continue // reported as a panic above
			}
			if !ves[i].A.eq(vref(t)) {
				fail("GetVestedCoins(t %d) = %s, the vesting periods ended by t sum to %s", t, ves[i].A, vref(t))
			}
			if !unl[i].A.eq(uref(t)) {
				fail("GetUnlockedCoins(t %d) = %s, the lockup periods ended by t sum to %s", t, unl[i].A, uref(t))
			}
			if !ves[i].A.add(vesting[i].A).eq(orig) {
				fail("t %d: vested %s + unvested %s != original %s", t, ves[i].A, vesting[i].A, orig)
			}
			if !unl[i].A.add(lup[i].A).eq(orig) {
				fail("t %d: unlocked %s + locked-up %s != original %s", t, unl[i].A, lup[i].A, orig)
			}
			for _, x := range []vOptAmt{unl[i], ves[i], vesting[i], lup[i], uv[i], luv[i], locked[i]} {
				if x.A.neg() {
					fail("t %d: negative amount returned: %s", t, x.A)
				}
			}
			if !pv.leq(ves[i].A) || !pu.leq(unl[i].A) {
				fail("t %d: vested/unlocked amount decreases", t)
			}
			pv, pu = ves[i].A, unl[i].A
			if t >= end && (!ves[i].A.eq(orig) || !unl[i].A.eq(orig)) {
				fail("t %d >= end %d: vested %s unlocked %s, original %s", t, end, ves[i].A, unl[i].A, orig)
			}
			if !locked[i].A.leq(orig) {
				fail("LockedCoins(t %d) = %s exceeds the original grant %s", t, locked[i].A, orig)
			}
			// ---- clawback at T = t
			T := t
			vT := vref(T)
			cl := claws[i]
			switch {
			case vT.eq(orig):
				tags["acc:claw-nothing"] = true
			case vT.zero():
				tags["acc:claw-all"] = true
			default:
				tags["acc:claw-partial"] = true
			}
			if !cl.Amt.eq(orig.sub(vT)) {
				fail("ComputeClawback(%d) claws back %s, the unvested amount is %s", T, cl.Amt, orig.sub(vT))
			}
			if !cl.View.Orig.eq(vT) {
				fail("ComputeClawback(%d) leaves original vesting %s, the vested amount is %s", T, cl.View.Orig, vT)
			}
			for _, t2 := range in.Times {
				bt2 := time.Unix(t2, 0).UTC()
				func() {
					defer func() {
						if r := recover(); r != nil {
							fail("reading the account after ComputeClawback(%d) at t %d panicked: %v", T, t2, r)
						}
					}()
					gu, _ := vAmtOfSdk(clawAcc[i].GetUnlockedCoins(bt2))
					gv, _ := vAmtOfSdk(clawAcc[i].GetVestedCoins(bt2))
					if w := uref(t2).min(vT); !gu.eq(w) {
						fail("after ComputeClawback(%d): GetUnlockedCoins(%d) = %s, min(unlocked before, vested at clawback) = %s", T, t2, gu, w)
					}
					if w := vref(t2).min(vT); !gv.eq(w) {
						fail("after ComputeClawback(%d): GetVestedCoins(%d) = %s, min(vested before, vested at clawback) = %s", T, t2, gv, w)
					}
				}()
			}
			shape := vK1Shape(start, VP, T)
			if shape {
				tags["acc:k1-shape"] = true
			}
			if len(in.DVest) == 0 && cl.Code != 0 {
				m := fmt.Sprintf("ComputeClawback(%d) leaves an invalid account (Validate code %d): StartTime %d, EndTime %d", T, cl.Code, cl.View.Start, cl.View.End)
				if shape {
					k1fails = append(k1fails, m)
				} else {
					fails = append(fails, m)
				}
			}
		}
	}
	msg := ""
	if len(fails) > 0 {
		// a real violation is never masked by the known class
		fails = append(fails, k1fails...)
		k1fails = nil
		msg = fails[0]
		if len(fails) > 1 {
			msg += fmt.Sprintf(" (+%d more)", len(fails)-1)
		}
	}

	// ---- Coq term
	col := func(xs []vOptAmt, opt bool) string {
		out := []string{}
		for _, x := range xs {
			if opt {
				out = append(out, x.coq())
			} else {
				out = append(out, x.A.coq())
			}
		}
		return coqList(out)
	}
	cs, cl := []string{}, []string{}
	for i := range in.Times {
		cs = append(cs, fmt.Sprintf("%d%%nat", counts[i]))
		if claws[i].OK {
			cl = append(cl, fmt.Sprintf("(Some (%s, %s, %s))", claws[i].View.coq(), claws[i].Amt.coq(), coqN(claws[i].Code)))
		} else {
			cl = append(cl, "None")
		}
	}
	endopt := "None"
	if in.EndOpt != nil {
		endopt = "(Some " + coqZi(*in.EndOpt) + ")"
	}
	coq := fmt.Sprintf("(mkain %s %s %s %s %s %s %s %s,\n   mkaobs %s %s\n    %s\n    %s\n    %s\n    %s\n    %s\n    %s\n    %s\n    %s\n    %s)",
		orig.coq(), coqZi(in.Start), coqPl(LP), coqPl(VP), vAmtOf(in.DFree).coq(), vAmtOf(in.DVest).coq(), endopt, vestCoqZs(in.Times),
		view.coq(), coqN(vcode),
		col(unl, false), col(ves, false), col(vesting, true), col(lup, true), col(uv, false), col(luv, true), col(locked, true),
		coqList(cs), coqList(cl))
	// a panic in a call the model treats as total cannot be expressed in the term
	for i := range in.Times {
		if !unl[i].OK || !ves[i].OK || !uv[i].OK {
			coq = ""
			if msg == "" {
				msg = "harness: " + anyPanic
			}
		}
	}
	obs := vAccObs{Acc: view.String(), Validate: vcode, Times: in.Times}
	for i := range in.Times {
		obs.Unlocked = append(obs.Unlocked, unl[i].String())
		obs.Vested = append(obs.Vested, ves[i].String())
		obs.Locked = append(obs.Locked, locked[i].String())
		if claws[i].OK {
			obs.Claw = append(obs.Claw, fmt.Sprintf("clawed %s -> %s validate %d", claws[i].Amt, claws[i].View, claws[i].Code))
		} else {
			obs.Claw = append(obs.Claw, "panic")
		}
	}
	kb, _ := json.Marshal(in)
	main := Case{ID: id, Kind: "acc", Input: in, Obs: obs, Coq: coq, CoqList: "acc",
		OracleOK: msg == "", OracleMsg: msg, Nontrivial: valid && inside,
		Key: string(kb), Tags: vTagList(tags)}
	if len(k1fails) > 0 {
		return []Case{main, vK1Companion(main, k1fails, "acc:k1-fails")}
	}
	return []Case{main}
}

// schedule with the given total: n periods, random lengths, random split
func vGenSchedule(r *Rng, total vAmt, n int, lenf func(*Rng) int64) []vPeriod {
	parts := vSplit(r, total, n)
	out := []vPeriod{}
	for i := 0; i < n; i++ {
		out = append(out, vPeriod{L: lenf(r), A: vCoinsOfAmt(parts[i])})
	}
	return out
}

func vGenAcc(r *Rng) vInput {
	sc := vGenScale(r)
	in := vInput{Kind: "acc"}
	in.Start = []int64{1000, 1000, 0, 1_700_000_000}[r.Intn(4)]
	total := vAmtOf(sc.coins(r, 0))
	in.Orig = vCoinsOfAmt(total)
	switch k := r.Intn(100); {
	case k < 20:
		in.LP = []vPeriod{{L: 0, A: vCoinsOfAmt(total)}}
		in.VP = vGenSchedule(r, total, 1+r.Intn(5), vGenLen)
	case k < 30:
		in.VP = []vPeriod{{L: 0, A: vCoinsOfAmt(total)}}
		in.LP = vGenSchedule(r, total, 1+r.Intn(5), vGenLen)
	case k < 35:
		in.LP = []vPeriod{{L: int64(r.Intn(50)), A: vCoinsOfAmt(total)}}
		in.VP = []vPeriod{{L: int64(r.Intn(50)), A: vCoinsOfAmt(total)}}
	default:
		in.LP = vGenSchedule(r, total, 1+r.Intn(5), vGenLen)
		in.VP = vGenSchedule(r, total, 1+r.Intn(5), vGenLen)
	}
	// make most accounts pass Validate: some positive length
	if rSumLen(rOf(in.LP))+rSumLen(rOf(in.VP)) == 0 && r.Chance(85) {
		in.VP[len(in.VP)-1].L = int64(1 + r.Intn(20))
	}
	if r.Chance(15) { // invalid stream
		switch r.Intn(5) {
		case 0:
			o := vAmtOf(in.Orig)
			d := sc.denoms[r.Intn(len(sc.denoms))]
			o[d].Add(o[d], big.NewInt(1))
			in.Orig = vCoinsOfAmt(o)
		case 1:
			o := vAmtOf(in.Orig)
			d := sc.denoms[r.Intn(len(sc.denoms))]
			if o[d].Sign() > 0 {
				o[d].Sub(o[d], big.NewInt(1))
			}
			in.Orig = vCoinsOfAmt(o)
		case 2:
			in.LP = in.LP[:len(in.LP)-1]
		case 3:
			in.VP = append(in.VP, vPeriod{L: vGenLen(r), A: sc.coins(r, 0)})
		default:
			k := r.Intn(len(in.VP))
			in.VP[k].L = -int64(1 + r.Intn(5))
		}
	}
	if r.Chance(25) {
		gen := func() []vCoin {
			switch r.Intn(3) {
			case 0:
				return vCoinsOfAmt(vSplit(r, vAmtOf(in.Orig), 2)[0])
			case 1:
				return vCoinsOfAmt(vAmtOf(in.Orig))
			}
			return sc.coins(r, 0)
		}
		if r.Bool() {
			in.DFree = gen()
		}
		if r.Chance(40) {
			in.DVest = gen()
		}
	}
	if r.Chance(10) {
		end := in.Start + rSumLen(rOf(in.LP))
		if e2 := in.Start + rSumLen(rOf(in.VP)); e2 > end {
			end = e2
		}
		var e int64
		switch r.Intn(4) {
		case 0:
			e = end + int64(1+r.Intn(10))
		case 1:
			e = end - int64(1+r.Intn(10))
		case 2:
			e = in.Start
		default:
			e = end + 100000
		}
		in.EndOpt = &e
	}
	return in
}

// ================================================================ (c) keeper histories
const vNA = 5 // observed accounts 0..4; index 5 = a blocked module account

func vAddr(i int) sdk.AccAddress {
	if i == 5 {
		return authtypes.NewModuleAddress(authtypes.FeeCollectorName)
	}
	return addrN(i)
}

var vAddrIdx map[string]int

func vIdxOf(bech string) int {
	if vAddrIdx == nil {
		vAddrIdx = map[string]int{}
		for i := 0; i <= 5; i++ {
			vAddrIdx[vAddr(i).String()] = i
		}
	}
	if i, ok := vAddrIdx[bech]; ok {
		return i
	}
	return -1
}

func vErrCode(err error) int {
	switch {
	case err == nil:
		return 0
	case errors.Is(err, sdkerrors.ErrUnauthorized):
		return 1
	case errors.Is(err, sdkerrors.ErrInvalidRequest):
		return 2
	case errors.Is(err, sdkerrors.ErrNotSupported):
		return 3
	case errors.Is(err, sdkerrors.ErrInsufficientFunds):
		return 4
	case errors.Is(err, sdkerrors.ErrUnknownAddress):
		return 5
	case errors.Is(err, vestingtypes.ErrNotSubjectToClawback):
		return 6
	case strings.HasPrefix(err.Error(), "panic: "):
		return 7
	}
	return 9
}

type vView struct {
	Kind   int // 0 absent, 1 plain, 2 clawback vesting
	Funder int
	Av     vAccView
	DFree  vAmt
	DVest  vAmt
	Bal    vAmt
	Acc    *vestingtypes.ClawbackVestingAccount
}

func (v vView) fieldsCoq() string {
	if v.Kind != 2 {
		return fmt.Sprintf("%d%%N 0%%N (mkav 0%%Z 0%%Z [] [] []) [] []", v.Kind)
	}
	f := v.Funder
	if f < 0 {
		f = 99
	}
	return fmt.Sprintf("2%%N %d%%N %s %s %s", f, v.Av.coq(), v.DFree.coq(), v.DVest.coq())
}
func (v vView) coq() string { return "mkkv " + v.fieldsCoq() + " " + v.Bal.coq() }
func (v vView) String() string {
	switch v.Kind {
	case 0:
		return "absent bal " + v.Bal.String()
	case 1:
		return "plain bal " + v.Bal.String()
	}
	return fmt.Sprintf("vesting funder %d %s dfree %s dvest %s bal %s", v.Funder, v.Av, v.DFree, v.DVest, v.Bal)
}

type vSnap struct {
	V     [vNA]vView
	Stray string
}

func vSnapshot(e *Env) vSnap {
	var s vSnap
	stray := func(f string, a ...interface{}) {
		if s.Stray == "" {
			s.Stray = fmt.Sprintf(f, a...)
		}
	}
	for a := 0; a < vNA; a++ {
		v := &s.V[a]
		v.DFree, v.DVest, v.Bal = vZ(), vZ(), vZ()
		v.Av = vAccView{Orig: vZ()}
		addr := vAddr(a)
		for d := 0; d < vND; d++ {
			v.Bal[d] = e.App.BankKeeper.GetBalance(e.Ctx, addr, vDenoms[d]).Amount.BigInt()
		}
		if all, err := vAmtOfSdk(e.App.BankKeeper.GetAllBalances(e.Ctx, addr)); err != nil || !all.eq(v.Bal) {
			stray("account %d: GetAllBalances disagrees with the per-denomination balances (%v)", a, err)
		}
		acc := e.App.AccountKeeper.GetAccount(e.Ctx, addr)
		switch x := acc.(type) {
		case nil:
			v.Kind = 0
		case *vestingtypes.ClawbackVestingAccount:
			v.Kind = 2
			v.Acc = x
			v.Funder = vIdxOf(x.FunderAddress)
			if v.Funder < 0 {
				stray("account %d: stored funder %s is not one of the case's accounts", a, x.FunderAddress)
			}
			var err error
			if v.Av, err = vViewOfAcc(x); err != nil {
				stray("account %d: %v", a, err)
			}
			if v.DFree, err = vAmtOfSdk(x.DelegatedFree); err != nil {
				stray("account %d: %v", a, err)
			}
			if v.DVest, err = vAmtOfSdk(x.DelegatedVesting); err != nil {
				stray("account %d: %v", a, err)
			}
		case *ethtypes.EthAccount:
			v.Kind = 1
		default:
			v.Kind = 1
			stray("account %d has unexpected type %T", a, acc)
		}
	}
	return s
}

func coqOptN(p *int) string {
	if p == nil {
		return "None"
	}
	return "(Some " + coqN(*p) + ")"
}

func (op vOp) coq(deleg *big.Int) string {
	switch op.Op {
	case "fund":
		return fmt.Sprintf("(Fund %s %s)", coqN(op.To), vAmtOf(op.Coins).coq())
	case "send":
		return fmt.Sprintf("(Send %s %s %s %s)", coqZi(op.T), coqN(op.From), coqN(op.To), vAmtOf(op.Coins).coq())
	case "create", "convert":
		c := "Create"
		if op.Op == "convert" {
			c = "Convert"
		}
		return fmt.Sprintf("(%s %s %s %s %s %s %s %s %s)", c, coqZi(op.T), coqN(op.From), coqN(op.To), coqZi(op.Start),
			coqPl(rOf(op.LP)), coqPl(rOf(op.VP)), coqBool(op.Merge), coqZ(deleg))
	case "clawback":
		return fmt.Sprintf("(Clawback %s %s %s %s)", coqZi(op.T), coqN(op.From), coqN(op.To), coqOptN(op.Dest))
	case "updfunder":
		return fmt.Sprintf("(UpdateFunder %s %s %s %s)", coqZi(op.T), coqN(op.From), coqN(op.NewF), coqN(op.To))
	case "convback":
		return fmt.Sprintf("(ConvertBack %s %s)", coqZi(op.T), coqN(op.To))
	}
	panic("bad op " + op.Op)
}

func vApply(e *Env, op vOp) error {
	ut := func(t int64) time.Time { return time.Unix(t, 0).UTC() }
	switch op.Op {
	case "fund":
		return testutil.FundAccount(e.Ctx, e.App.BankKeeper, vAddr(op.To), vSdkCoins(op.Coins))
	case "send":
		_, err := e.runMsg(banktypes.NewMsgSend(vAddr(op.From), vAddr(op.To), vSdkCoins(op.Coins)))
		return err
	case "create":
		_, err := e.runMsg(vestingtypes.NewMsgCreateClawbackVestingAccount(vAddr(op.From), vAddr(op.To), ut(op.Start),
			vSdkPeriods(op.LP), vSdkPeriods(op.VP), op.Merge))
		return err
	case "convert":
		_, err := e.runMsg(vestingtypes.NewMsgConvertIntoVestingAccount(vAddr(op.From), vAddr(op.To), ut(op.Start),
			vSdkPeriods(op.LP), vSdkPeriods(op.VP), op.Merge, false, nil))
		return err
	case "clawback":
		var dest sdk.AccAddress
		if op.Dest != nil {
			dest = vAddr(*op.Dest)
		}
		_, err := e.runMsg(vestingtypes.NewMsgClawback(vAddr(op.From), vAddr(op.To), dest))
		return err
	case "updfunder":
		_, err := e.runMsg(vestingtypes.NewMsgUpdateVestingFunder(vAddr(op.From), vAddr(op.NewF), vAddr(op.To)))
		return err
	case "convback":
		_, err := e.runMsg(vestingtypes.NewMsgConvertVestingAccount(vAddr(op.To)))
		return err
	}
	return fmt.Errorf("bad op %q", op.Op)
}

type vStepObs struct {
	Res   int      `json:"res"`
	Err   string   `json:"err,omitempty"`
	Deleg string   `json:"deleg,omitempty"`
	Accts []string `json:"accounts"`
}

type vHist struct {
	e        *Env
	now      int64
	pre      vSnap
	ops      []vOp
	steps    []string
	obs      []vStepObs
	recorded [vNA]int  // ghost: the funder recorded by the last successful create/convert/update (-1 none)
	updated  [vNA]bool // recorded funder stems from an UpdateFunder
	clawed   [vNA]bool
	fails    []string
	k1fails  []string
	tags     map[string]bool
	nMerge   int
	nClaw    int
}

func newVHist() *vHist {
	h := &vHist{e: forkEnv(), tags: map[string]bool{"hist": true}}
	for a := range h.recorded {
		h.recorded[a] = -1
	}
	h.pre = vSnapshot(h.e)
	h.now = h.e.Ctx.BlockTime().Unix()
	return h
}

func (h *vHist) step(op vOp) (int, error) {
	e := h.e
	if op.Op != "fund" {
		e.Ctx = e.Ctx.WithBlockTime(time.Unix(op.T, 0).UTC())
		h.now = op.T
	}
	deleg := big.NewInt(0)
	if op.Op == "create" || op.Op == "convert" {
		to := vAddr(op.To)
		deleg = e.App.StakingKeeper.GetDelegatorBonded(e.Ctx, to).Add(e.App.StakingKeeper.GetDelegatorUnbonding(e.Ctx, to)).BigInt()
	}
	err := vApply(e, op)
	code := vErrCode(err)
	post := vSnapshot(e)
	i := len(h.ops)
	h.ops = append(h.ops, op)
	h.tags[fmt.Sprintf("%s:%d", op.Op, code)] = true
	h.oracle(i, op, code, err, &h.pre, &post)
	kv := []string{}
	o := vStepObs{Res: code}
	for a := 0; a < vNA; a++ {
		kv = append(kv, post.V[a].coq())
		o.Accts = append(o.Accts, post.V[a].String())
	}
	if err != nil {
		o.Err = err.Error()
		if len(o.Err) > 200 {
			o.Err = o.Err[:200]
		}
	}
	if deleg.Sign() != 0 {
		o.Deleg = deleg.String()
	}
	h.obs = append(h.obs, o)
	h.steps = append(h.steps, fmt.Sprintf("(%s,\n    mkkobs %s %s)", op.coq(deleg), coqN(code), coqList(kv)))
	h.pre = post
	return code, err
}

func (h *vHist) finish(id string) []Case {
	in := vInput{Kind: "hist", Ops: h.ops}
	msg := ""
	k1fails := h.k1fails
	if len(h.fails) > 0 {
		fails := append(append([]string{}, h.fails...), k1fails...)
		k1fails = nil
		msg = fails[0]
		if len(fails) > 1 {
			msg += fmt.Sprintf(" (+%d more)", len(fails)-1)
		}
	}
	kb, _ := json.Marshal(in)
	main := Case{ID: id, Kind: "hist", Input: in, Obs: h.obs,
		Coq: "[" + strings.Join(h.steps, ";\n   ") + "]", CoqList: "hist",
		OracleOK: msg == "", OracleMsg: msg, Nontrivial: h.nMerge+h.nClaw > 0,
		Key: string(kb), Tags: vTagList(h.tags)}
	if len(k1fails) > 0 {
		return []Case{main, vK1Companion(main, k1fails, "hist:k1-fails")}
	}
	return []Case{main}
}

func vRunHist(id string, in vInput) []Case {
	h := newVHist()
	for _, op := range in.Ops {
		h.step(op)
	}
	return h.finish(id)
}

// ---------------------------------------------------------------- history oracle (property C09 on pre/post snapshots)

// the message's schedules with the instant default for an absent one, and the granted coins
func vGrant(op vOp) (lp, vp []rP, coins vAmt) {
	lp, vp = rOf(op.LP), rOf(op.VP)
	lt, vt := rTotal(lp), rTotal(vp)
	if len(lp) == 0 && !vt.zero() {
		lp, lt = []rP{{0, vt}}, vt
	}
	if len(vp) == 0 && !lt.zero() {
		vp, vt = []rP{{0, lt}}, lt
	}
	return lp, vp, vt
}

func vVestedRef(v vAccView, t int64) vAmt {
	switch {
	case t <= v.Start:
		return vZ()
	case t >= v.End:
		return v.Orig
	}
	return refEv(v.Start, v.VP, t)
}
func vUnlockedRef(v vAccView, t int64) vAmt {
	switch {
	case t <= v.Start:
		return vZ()
	case t >= v.End:
		return v.Orig
	}
	return refEv(v.Start, v.LP, t)
}

func vLastEvent(floor int64, scheds ...[]int64) int64 {
	m := floor
	for _, ev := range scheds {
		if len(ev) > 0 && ev[len(ev)-1] > m {
			m = ev[len(ev)-1]
		}
	}
	return m
}

func (h *vHist) oracle(i int, op vOp, code int, err error, pre, post *vSnap) {
	fail := func(f string, a ...interface{}) {
		h.fails = append(h.fails, fmt.Sprintf("step %d (%s at block time %d): ", i, op.Op, op.T)+fmt.Sprintf(f, a...))
	}
	if post.Stray != "" {
		fail("harness: %s", post.Stray)
	}
	if code == 9 {
		fail("harness: unmapped error: %v", err)
	}
	if code != 0 {
		for a := 0; a < vNA; a++ {
			if pre.V[a].coq() != post.V[a].coq() {
				fail("rejected message (code %d) changed account %d: %s -> %s", code, a, pre.V[a], post.V[a])
			}
		}
		if op.Op == "clawback" && code == 1 && op.To < vNA && pre.V[op.To].Kind == 2 && h.recorded[op.To] != op.From {
			h.tags["hist:claw-nonfunder-rejected"] = true
		}
		return
	}
	// ---- the message succeeded
	parts := []int{op.To}
	switch op.Op {
	case "clawback":
		if op.Dest != nil {
			parts = append(parts, *op.Dest)
		}
	case "updfunder":
		parts = append(parts, op.NewF)
	}
	for _, p := range parts {
		if p >= vNA {
			fail("harness: a message involving the blocked module account succeeded; its effect is not observed")
			return
		}
	}
	var exp [vNA]vAmt
	for a := range exp {
		exp[a] = pre.V[a].Bal
	}
	target, created := -1, -1
	switch op.Op {
	case "fund":
		exp[op.To] = exp[op.To].add(vAmtOf(op.Coins))
		created = op.To
	case "send":
		c := vAmtOf(op.Coins)
		exp[op.From] = exp[op.From].sub(c)
		exp[op.To] = exp[op.To].add(c)
		created = op.To
	case "create", "convert":
		glp, gvp, coins := vGrant(op)
		from, to := op.From, op.To
		exp[from] = exp[from].sub(coins)
		exp[to] = exp[to].add(coins)
		target = to
		p, q := pre.V[to], post.V[to]
		if q.Kind != 2 {
			fail("account %d is not a clawback vesting account after a successful %s", to, op.Op)
			break
		}
		gs := op.Start
		if p.Kind != 2 {
			// a new vesting account
			if q.Funder != from {
				fail("stored funder %d, the message was signed by %d", q.Funder, from)
			}
			if !q.Av.Orig.eq(coins) {
				fail("original vesting %s, the schedule grants %s", q.Av.Orig, coins)
			}
			if q.Av.Start != gs {
				fail("start time %d, the message says %d", q.Av.Start, gs)
			}
			ex := []int64{gs, q.Av.Start, q.Av.End}
			ex = append(ex, rEvents(gs, glp)...)
			ex = append(ex, rEvents(gs, gvp)...)
			ex = append(ex, rEvents(q.Av.Start, q.Av.LP)...)
			ex = append(ex, rEvents(q.Av.Start, q.Av.VP)...)
			for _, t := range vTimes(ex, 200) {
				if g, w := refEv(q.Av.Start, q.Av.LP, t), refEv(gs, glp, t); !g.eq(w) {
					fail("stored lockup schedule releases %s up to t %d, the message's schedule %s", g, t, w)
					break
				}
				if g, w := refEv(q.Av.Start, q.Av.VP, t), refEv(gs, gvp, t); !g.eq(w) {
					fail("stored vesting schedule releases %s up to t %d, the message's schedule %s", g, t, w)
					break
				}
			}
			h.recorded[to], h.updated[to], h.clawed[to] = from, false, false
			break
		}
		// ---- merge of a grant into an existing vesting account
		h.nMerge++
		if h.recorded[to] != from {
			fail("grant from %d merged into account %d, whose recorded funder is %d", from, to, h.recorded[to])
		}
		switch {
		case gs > p.Av.Start:
			h.tags["hist:merge-later-start"] = true
		case gs < p.Av.Start:
			h.tags["hist:merge-earlier-start"] = true
		default:
			h.tags["hist:merge-equal-start"] = true
		}
		h.tags["hist:merge-via-"+op.Op] = true
		if h.clawed[to] {
			h.tags["hist:merge-after-clawback"] = true
		}
		mn, mx := p.Av.Start, gs
		if mx < mn {
			mn, mx = mx, mn
		}
		if q.Av.Start != mn {
			fail("merged start time %d, want min(%d, %d)", q.Av.Start, p.Av.Start, gs)
		}
		if w := p.Av.Orig.add(coins); !q.Av.Orig.eq(w) {
			fail("merged original vesting %s, want %s + %s", q.Av.Orig, p.Av.Orig, coins)
		}
		evs := [][]int64{rEvents(p.Av.Start, p.Av.LP), rEvents(p.Av.Start, p.Av.VP), rEvents(gs, glp), rEvents(gs, gvp)}
		pev := map[int64]bool{}
		for _, e := range append(append([]int64{}, evs[0]...), evs[1]...) {
			pev[e] = true
		}
		for _, e := range append(append([]int64{}, evs[2]...), evs[3]...) {
			if pev[e] {
				h.tags["hist:merge-simultaneous"] = true
			}
		}
		if w := vLastEvent(mn, evs...); q.Av.End != w {
			fail("merged end time %d, the last release event of account and grant is at %d", q.Av.End, w)
		}
		ex := []int64{p.Av.Start, gs, p.Av.End, q.Av.End}
		for _, ev := range evs {
			ex = append(ex, ev...)
		}
		ex = append(ex, rEvents(q.Av.Start, q.Av.LP)...)
		ex = append(ex, rEvents(q.Av.Start, q.Av.VP)...)
		times := vTimes(ex, 300)
		for _, t := range times {
			if g, w := refEv(q.Av.Start, q.Av.LP, t), refEv(p.Av.Start, p.Av.LP, t).add(refEv(gs, glp, t)); !g.eq(w) {
				fail("merged lockup schedule releases %s up to t %d, account + grant release %s; stored events %s, account %s, grant %s",
					g, t, w, rEventsStr(q.Av.Start, q.Av.LP), rEventsStr(p.Av.Start, p.Av.LP), rEventsStr(gs, glp))
				break
			}
			if g, w := refEv(q.Av.Start, q.Av.VP, t), refEv(p.Av.Start, p.Av.VP, t).add(refEv(gs, gvp, t)); !g.eq(w) {
				fail("merged vesting schedule releases %s up to t %d, account + grant release %s; stored events %s, account %s, grant %s",
					g, t, w, rEventsStr(q.Av.Start, q.Av.VP), rEventsStr(p.Av.Start, p.Av.VP), rEventsStr(gs, gvp))
				break
			}
		}
		for _, t := range times {
			if t <= mx {
				continue
			}
			bt := time.Unix(t, 0).UTC()
			gu, _ := vAmtOfSdk(q.Acc.GetUnlockedCoins(bt))
			gv, _ := vAmtOfSdk(q.Acc.GetVestedCoins(bt))
			if w := refEv(p.Av.Start, p.Av.LP, t).add(refEv(gs, glp, t)); !gu.eq(w) {
				fail("after the merge GetUnlockedCoins(%d) = %s, account + grant unlock %s by then; stored lockup events %s, account %s, grant %s",
					t, gu, w, rEventsStr(q.Av.Start, q.Av.LP), rEventsStr(p.Av.Start, p.Av.LP), rEventsStr(gs, glp))
				break
			}
			if w := refEv(p.Av.Start, p.Av.VP, t).add(refEv(gs, gvp, t)); !gv.eq(w) {
				fail("after the merge GetVestedCoins(%d) = %s, account + grant vest %s by then; stored vesting events %s, account %s, grant %s",
					t, gv, w, rEventsStr(q.Av.Start, q.Av.VP), rEventsStr(p.Av.Start, p.Av.VP), rEventsStr(gs, gvp))
				break
			}
		}
		h.recorded[to] = from
	case "clawback":
		a, signer, T := op.To, op.From, op.T
		dest := signer
		if op.Dest != nil {
			dest = *op.Dest
		}
		p, q := pre.V[a], post.V[a]
		if p.Kind != 2 {
			fail("clawback succeeded on account %d, which is not a vesting account", a)
			break
		}
		if h.recorded[a] != signer {
			fail("clawback by %d succeeded, the recorded funder of account %d is %d", signer, a, h.recorded[a])
		}
		if h.updated[a] {
			h.tags["hist:funder-updated-then-claw"] = true
		}
		if h.clawed[a] {
			h.tags["hist:second-clawback"] = true
		}
		vT := vVestedRef(p.Av, T)
		clawed := p.Av.Orig.sub(vT)
		shape := vK1Shape(p.Av.Start, p.Av.VP, T)
		if shape {
			h.tags["hist:k1-shape"] = true
		}
		if clawed.zero() {
			h.tags["hist:claw-noop"] = true
			break // nothing may change: checked below with target = -1
		}
		h.nClaw++
		h.clawed[a] = true
		if vT.zero() {
			h.tags["hist:claw-all"] = true
		} else {
			h.tags["hist:claw-partial"] = true
		}
		if dest == a {
			h.tags["hist:claw-dest-is-account"] = true
		} else if op.Dest != nil {
			h.tags["hist:claw-explicit-dest"] = true
		}
		target, created = a, dest
		exp[a] = exp[a].sub(clawed)
		exp[dest] = exp[dest].add(clawed)
		if q.Kind != 2 {
			fail("account %d is no vesting account after the clawback", a)
			break
		}
		if !q.Av.Orig.eq(vT) {
			fail("original vesting after clawback %s, the vested amount at %d is %s (clawed back must be %s)", q.Av.Orig, T, vT, clawed)
		}
		if q.Funder != p.Funder || q.Av.Start != p.Av.Start {
			fail("clawback changed funder/start: %d/%d -> %d/%d", p.Funder, p.Av.Start, q.Funder, q.Av.Start)
		}
		ex := []int64{p.Av.Start, p.Av.End, q.Av.End, T}
		ex = append(ex, rEvents(p.Av.Start, p.Av.LP)...)
		ex = append(ex, rEvents(p.Av.Start, p.Av.VP)...)
		ex = append(ex, rEvents(q.Av.Start, q.Av.LP)...)
		for _, t := range vTimes(ex, 300) {
			gu, _ := vAmtOfSdk(q.Acc.GetUnlockedCoins(time.Unix(t, 0).UTC()))
			if w := vUnlockedRef(p.Av, t).min(vT); !gu.eq(w) {
				fail("after the clawback at %d GetUnlockedCoins(%d) = %s, min(unlocked before %s, vested at clawback %s) = %s",
					T, t, gu, vUnlockedRef(p.Av, t), vT, w)
				break
			}
		}
		if verr := q.Acc.Validate(); verr != nil {
			m := fmt.Sprintf("step %d: clawback at T = %d leaves an invalid account (%v): StartTime %d, EndTime %d", i, T, verr, q.Av.Start, q.Av.End)
			if shape {
				h.k1fails = append(h.k1fails, m)
			} else {
				h.fails = append(h.fails, m)
			}
		}
	case "updfunder":
		a := op.To
		p, q := pre.V[a], post.V[a]
		target = a
		if p.Kind != 2 {
			fail("funder update succeeded on account %d, which is not a vesting account", a)
			break
		}
		if h.recorded[a] != op.From {
			fail("funder update by %d succeeded, the recorded funder of account %d is %d", op.From, a, h.recorded[a])
		}
		p.Funder = op.NewF
		if p.coq() != q.coq() {
			fail("funder update: account %d is %s, want only the funder changed to %d", a, q, op.NewF)
		}
		h.recorded[a], h.updated[a] = op.NewF, true
	case "convback":
		a, T := op.To, op.T
		p, q := pre.V[a], post.V[a]
		target = a
		if p.Kind != 2 {
			fail("conversion succeeded on account %d, which is not a vesting account", a)
			break
		}
		if v := vVestedRef(p.Av, T); !v.eq(p.Av.Orig) {
			fail("converted back while %s of %s is still unvested", p.Av.Orig.sub(v), p.Av.Orig)
		}
		if u := vUnlockedRef(p.Av, T); !u.eq(p.Av.Orig) {
			fail("converted back while %s of %s is still locked", p.Av.Orig.sub(u), p.Av.Orig)
		}
		if q.Kind != 1 {
			fail("account %d has kind %d after the conversion, want a plain account", a, q.Kind)
		}
		h.recorded[a], h.updated[a], h.clawed[a] = -1, false, false
	}
	for a := 0; a < vNA; a++ {
		if !post.V[a].Bal.eq(exp[a]) {
			fail("balance of account %d is %s, the property demands %s (was %s)", a, post.V[a].Bal, exp[a], pre.V[a].Bal)
		}
		if a == target {
			continue
		}
		if a == created && pre.V[a].Kind == 0 && post.V[a].Kind == 1 {
			continue
		}
		if pre.V[a].fieldsCoq() != post.V[a].fieldsCoq() {
			fail("account %d changed although the message does not concern it: %s -> %s", a, pre.V[a], post.V[a])
		}
	}
}

// ---------------------------------------------------------------- history generator
// The generator is steered by the state of the real application after the
// previous operations (which accounts exist, their stored schedules, funder,
// spendable balance); the oracle never uses that steering.
type vHistGen struct {
	r       *Rng
	h       *vHist
	sc      vScale
	pending []func() (vOp, bool)
}

func (g *vHistGen) kinds(k int) []int {
	out := []int{}
	for a := 0; a < vNA; a++ {
		if g.h.pre.V[a].Kind == k {
			out = append(out, a)
		}
	}
	return out
}
func (g *vHistGen) pickOf(xs []int) int { return xs[g.r.Intn(len(xs))] }
func (g *vHistGen) other(not int) int {
	for {
		if a := g.r.Intn(vNA); a != not {
			return a
		}
	}
}

// the richest account among the plain ones (to pay grants)
func (g *vHistGen) rich() int {
	best, bestA := -1, 0
	for a := 0; a < vNA; a++ {
		v := g.h.pre.V[a]
		if v.Kind == 2 {
			continue
		}
		sz := 0
		for d := range v.Bal {
			sz += v.Bal[d].BitLen()
		}
		if sz > best {
			best, bestA = sz, a
		}
	}
	return bestA
}

func vMsgLen(r *Rng) int64 {
	switch k := r.Intn(100); {
	case k < 25:
		return 1
	case k < 85:
		return int64(1 + r.Intn(20))
	default:
		return int64(1 + r.Intn(400))
	}
}

// periods with total `total` whose event times (from gstart) collide with `collide` where possible
func (g *vHistGen) sched(total vAmt, gstart int64, collide []int64) []vPeriod {
	r := g.r
	n := 1 + r.Intn(4)
	parts := vSplit(r, total, n)
	out := []vPeriod{}
	cur := gstart
	for i := 0; i < n; i++ {
		l := vMsgLen(r)
		if r.Chance(55) {
			c := []int64{}
			for _, e := range collide {
				if e > cur {
					c = append(c, e)
				}
			}
			if len(c) > 0 {
				l = c[r.Intn(len(c))] - cur
			}
		}
		cur += l
		out = append(out, vPeriod{L: l, A: vCoinsOfAmt(parts[i])})
	}
	return out
}

// a grant for `to` (existing vesting account or not)
func (g *vHistGen) grant(op *vOp, from int, target *vView) {
	r := g.r
	// amounts the payer can afford (a fraction of its balance), in the case's denominations
	total := vZ()
	bal := g.h.pre.V[from].Bal
	for _, d := range g.sc.denoms {
		if !r.Chance(75) {
			continue
		}
		x := g.sc.amount(r)
		if lim := new(big.Int).Rsh(bal[d], 2); x.Cmp(lim) > 0 && r.Chance(92) {
			x = lim
		}
		total[d].Set(x)
	}
	if total.zero() {
		d := g.sc.denoms[r.Intn(len(g.sc.denoms))]
		x := new(big.Int).Rsh(bal[d], 3)
		if x.Sign() == 0 {
			x = big.NewInt(int64(1 + r.Intn(50)))
		}
		total[d].Set(x)
	}
	collide := []int64{}
	if target != nil && target.Kind == 2 {
		s := target.Av.Start
		collide = append(collide, rEvents(s, target.Av.LP)...)
		collide = append(collide, rEvents(s, target.Av.VP)...)
		switch k := r.Intn(100); {
		case k < 45: // later than the account's start (the F1 shape)
			switch r.Intn(3) {
			case 0:
				op.Start = s + int64(1+r.Intn(30))
			case 1:
				if len(collide) > 0 {
					op.Start = collide[r.Intn(len(collide))]
				} else {
					op.Start = s + 1
				}
			default:
				op.Start = target.Av.End + int64(r.Intn(20))
			}
		case k < 70:
			op.Start = s
		default:
			op.Start = s - int64(1+r.Intn(30))
		}
	} else {
		op.Start = g.h.now + int64(r.Intn(120)) - 20
	}
	switch k := r.Intn(100); {
	case k < 65:
		op.LP = g.sched(total, op.Start, collide)
		op.VP = g.sched(total, op.Start, append(collide, rEvents(op.Start, rOf(op.LP))...))
	case k < 80:
		op.LP = g.sched(total, op.Start, collide)
	default:
		op.VP = g.sched(total, op.Start, collide)
	}
	if r.Chance(6) { // malformed stream
		switch r.Intn(4) {
		case 0:
			if len(op.VP) > 0 {
				op.VP[r.Intn(len(op.VP))].L = 0
			} else {
				op.LP[0].L = 0
			}
		case 1:
			if len(op.LP) > 0 {
				op.LP[r.Intn(len(op.LP))].L = -3
			} else {
				op.VP[0].L = -3
			}
		case 2:
			op.LP, op.VP = nil, nil
		default:
			if len(op.LP) > 0 && len(op.VP) > 0 {
				a := vAmtOf(op.LP[0].A)
				d := g.sc.denoms[0]
				a[d].Add(a[d], big.NewInt(1))
				op.LP[0].A = vCoinsOfAmt(a)
			}
		}
	}
}

// block times around the schedule of an account
func (g *vHistGen) timeFor(v *vView, mode string) int64 {
	r := g.r
	if v == nil || v.Kind != 2 {
		return g.h.now + int64(r.Intn(40))
	}
	s, e := v.Av.Start, v.Av.End
	vev := rEvents(s, v.Av.VP)
	all := append(append([]int64{}, vev...), rEvents(s, v.Av.LP)...)
	switch mode {
	case "k1": // before the first vesting event strictly after start (incl. before start)
		first := e + 5
		for _, x := range vev {
			if x > s {
				first = x
				break
			}
		}
		switch r.Intn(4) {
		case 0:
			return s - int64(r.Intn(4))
		case 1:
			return s + 1
		case 2:
			return first - 1
		}
		if first-1 > s {
			return s + 1 + int64(r.Intn(int(first-1-s)))
		}
		return s
	case "event":
		if len(all) > 0 {
			return all[r.Intn(len(all))] + int64(r.Intn(3)) - 1
		}
	case "after":
		return e + int64(r.Intn(30))
	case "mid":
		if e > s+1 {
			return s + 1 + int64(r.Intn(int(e-s-1)))
		}
	}
	c := []int64{s - 5, s - 1, s, s + 1, e - 1, e, e + 1, e + 10}
	for _, x := range all {
		c = append(c, x-1, x, x+1)
	}
	if r.Chance(70) {
		c2 := []int64{}
		for _, x := range c {
			if x >= g.h.now {
				c2 = append(c2, x)
			}
		}
		if len(c2) > 0 {
			c = c2
		}
	}
	return c[r.Intn(len(c))]
}

func (g *vHistGen) clawMode() string {
	switch k := g.r.Intn(100); {
	case k < 30:
		return "k1"
	case k < 50:
		return "event"
	case k < 70:
		return "mid"
	case k < 82:
		return "after"
	}
	return ""
}

func (g *vHistGen) clawback(a, signer int, mode string) vOp {
	r := g.r
	v := &g.h.pre.V[a]
	op := vOp{Op: "clawback", From: signer, To: a, T: g.timeFor(v, mode)}
	switch k := r.Intn(100); {
	case k < 55:
	case k < 75:
		d := g.other(a)
		op.Dest = &d
	case k < 88:
		d := a
		op.Dest = &d
	default:
		d := 5
		if r.Chance(40) {
			d = signer
		}
		op.Dest = &d
	}
	return op
}

func (g *vHistGen) next() vOp {
	r := g.r
	for len(g.pending) > 0 {
		f := g.pending[0]
		g.pending = g.pending[1:]
		if op, ok := f(); ok {
			return op
		}
	}
	vas, plains, absent := g.kinds(2), g.kinds(1), g.kinds(0)
	k := r.Intn(100)
	if len(vas) == 0 {
		k = 90 + r.Intn(10) // (re)create
		if r.Chance(25) {
			k = 87
		}
	}
	switch {
	case k < 36: // merge a grant (Create merge / Convert merge)
		a := g.pickOf(vas)
		v := &g.h.pre.V[a]
		from := v.Funder
		if from < 0 || from >= vNA || r.Chance(15) {
			from = g.other(a)
		}
		op := vOp{Op: "convert", From: from, To: a, Merge: !r.Chance(6)}
		if r.Chance(50) {
			op.Op = "create"
		}
		g.grant(&op, from, v)
		op.T = g.timeFor(v, "")
		return op
	case k < 62: // clawback
		a := 0
		if len(vas) > 0 && r.Chance(92) {
			a = g.pickOf(vas)
		} else {
			a = r.Intn(vNA)
		}
		v := &g.h.pre.V[a]
		signer := v.Funder
		if v.Kind != 2 || signer < 0 || signer >= vNA || r.Chance(22) {
			signer = g.other(a)
		}
		op := g.clawback(a, signer, g.clawMode())
		if r.Chance(35) {
			g.pending = append(g.pending, func() (vOp, bool) {
				v := &g.h.pre.V[a]
				if v.Kind != 2 || v.Funder < 0 || v.Funder >= vNA {
					return vOp{}, false
				}
				o := g.clawback(a, v.Funder, "")
				if o.T < g.h.now {
					o.T = g.h.now + int64(g.r.Intn(15))
				}
				return o, true
			})
		}
		return op
	case k < 72: // update the funder, then clawback by the old and by the new funder
		a := g.pickOf(vas)
		if r.Chance(8) {
			a = r.Intn(vNA) // possibly absent or plain
		}
		v := &g.h.pre.V[a]
		f := v.Funder
		if f < 0 || f >= vNA || r.Chance(25) {
			f = g.other(a)
		}
		op := vOp{Op: "updfunder", From: f, To: a, T: g.timeFor(v, "")}
		switch x := r.Intn(100); {
		case x < 72:
			op.NewF = g.other(f)
		case x < 84:
			op.NewF = f
		default:
			op.NewF = 5
		}
		old, nw := f, op.NewF
		if r.Chance(70) {
			order := []int{old, nw}
			if r.Bool() {
				order = []int{nw, old}
			}
			if r.Chance(30) {
				order = order[:1]
			}
			for _, s := range order {
				s := s
				if s >= vNA {
					continue
				}
				g.pending = append(g.pending, func() (vOp, bool) {
					if g.h.pre.V[a].Kind != 2 {
						return vOp{}, false
					}
					return g.clawback(a, s, g.clawMode()), true
				})
			}
		}
		return op
	case k < 80: // the vesting account spends
		a := g.pickOf(vas)
		v := &g.h.pre.V[a]
		T := g.timeFor(v, "")
		locked, _ := vAmtOfSdk(v.Acc.LockedCoins(time.Unix(T, 0).UTC()))
		c := vZ()
		for d := range c {
			sp := new(big.Int).Sub(v.Bal[d], locked[d])
			if sp.Sign() <= 0 {
				if r.Chance(15) && v.Bal[d].Sign() > 0 {
					c[d].SetInt64(1) // locked coin: must be refused
				}
				continue
			}
			switch r.Intn(5) {
			case 0:
				c[d].Set(sp)
			case 1:
				c[d].Add(sp, big.NewInt(1)) // one more than spendable
			case 2:
			default:
				c[d].Add(r.Below(sp), big.NewInt(1))
			}
		}
		if c.zero() {
			return g.clawback(a, g.other(a), g.clawMode())
		}
		to := g.other(a)
		if r.Chance(6) {
			to = 5
		}
		return vOp{Op: "send", From: a, To: to, T: T, Coins: vCoinsOfAmt(c)}
	case k < 86: // convert back to a plain account
		a := g.pickOf(vas)
		if r.Chance(8) {
			a = r.Intn(vNA) // possibly absent or plain
		}
		v := &g.h.pre.V[a]
		mode := "after"
		if r.Chance(30) {
			mode = ""
		}
		return vOp{Op: "convback", To: a, T: g.timeFor(v, mode)}
	case k < 90: // fund / send among the others
		a := r.Intn(vNA)
		if r.Bool() || g.h.pre.V[a].Bal.zero() {
			return vOp{Op: "fund", To: a, Coins: g.sc.coins(r, 0)}
		}
		c := vZ()
		for d := range c {
			if g.h.pre.V[a].Bal[d].Sign() > 0 && r.Chance(70) {
				c[d].Add(r.Below(g.h.pre.V[a].Bal[d]), big.NewInt(1))
			}
		}
		if c.zero() {
			return vOp{Op: "fund", To: a, Coins: g.sc.coins(r, 0)}
		}
		return vOp{Op: "send", From: a, To: g.other(a), T: g.h.now + int64(r.Intn(10)), Coins: vCoinsOfAmt(c)}
	default: // a new vesting account (create / convert without merge), also on existing addresses
		from := g.rich()
		var to int
		switch x := r.Intn(100); {
		case x < 45 && len(absent) > 0:
			to = g.pickOf(absent)
		case x < 75 && len(plains) > 0:
			to = g.pickOf(plains)
		case x < 82:
			to = 5
		default:
			to = r.Intn(vNA)
		}
		op := vOp{Op: "create", From: from, To: to, Merge: r.Chance(10)}
		toPlain := to < vNA && g.h.pre.V[to].Kind == 1
		if toPlain && r.Chance(70) || r.Chance(25) {
			op.Op = "convert"
		}
		if toPlain && op.Op == "create" && r.Chance(40) {
			op.Merge = true // merge into a plain account: not supported
		}
		if toPlain && op.Op == "convert" && !g.h.pre.V[to].Bal.zero() && r.Chance(15) {
			op.From, from = to, to // an account converts itself
		}
		g.grant(&op, from, nil)
		op.T = op.Start + int64(r.Intn(30)) - 20
		if r.Chance(60) && op.T < g.h.now {
			op.T = g.h.now
		}
		return op
	}
}

func vGenHist(id string, r *Rng) []Case {
	h := newVHist()
	g := &vHistGen{r: r, h: h, sc: vGenScale(r)}
	base := []int64{1000, 1000, 50000, 1_700_000_000}[r.Intn(4)]
	h.now = base - int64(r.Intn(100))
	nops := 5 + r.Intn(8)
	// fund 1-3 users generously
	nf := 1 + r.Intn(3)
	first := r.Intn(vNA)
	for i := 0; i < nf; i++ {
		cs := []vCoin{}
		for _, d := range g.sc.denoms {
			v := g.sc.amount(r)
			v.Add(v, new(big.Int).Lsh(big.NewInt(1), uint(g.sc.maxBits+4)))
			cs = append(cs, vCoin{d, v})
		}
		h.step(vOp{Op: "fund", To: (first + i) % vNA, Coins: cs})
	}
	// the first vesting account
	{
		from := first
		to := g.other(from)
		if h.pre.V[to].Kind != 0 && r.Chance(80) {
			if abs := g.kinds(0); len(abs) > 0 {
				to = g.pickOf(abs)
			}
		}
		op := vOp{Op: "create", From: from, To: to}
		if r.Chance(25) {
			op.Op = "convert"
		}
		g.grant(&op, from, nil)
		op.T = op.Start + int64(r.Intn(30)) - 20
		h.step(op)
	}
	for len(h.ops) < nops {
		h.step(g.next())
	}
	return h.finish(id)
}
