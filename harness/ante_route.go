package main

// Driver "ante_route" (property C06): generated message trees (MsgExec / MsgGrant
// wrappers nested to any depth and width, MsgEthereumTx and the message types
// barred from authz at every position) and every combination of extension
// options, run through
//   - the real RejectMessagesDecorator and AuthzLimiterDecorator with a recording
//     `next` handler,
//   - ante.NewAnteHandler(options) with the options app.go builds, in CheckTx and
//     DeliverTx mode,
//   - the ante handler actually wired into the application (BaseApp.anteHandler).
// Driver "ante_route_exh": the same on every tree with at most K nodes over a
// small alphabet.  Driver "ante_route_opts": every list of at most three
// extension options over {E W D U Ex Wx Dx}, on a transaction each route would accept.

import (
	"encoding/json"
	"errors"
	"fmt"
	"math/big"
	"reflect"
	"sort"
	"strings"
	"unsafe"

	sdkmath "cosmossdk.io/math"
	"github.com/cosmos/cosmos-sdk/client"
	clienttx "github.com/cosmos/cosmos-sdk/client/tx"
	codectypes "github.com/cosmos/cosmos-sdk/codec/types"
	sdk "github.com/cosmos/cosmos-sdk/types"
	errortypes "github.com/cosmos/cosmos-sdk/types/errors"
	"github.com/cosmos/cosmos-sdk/types/tx/signing"
	authsigning "github.com/cosmos/cosmos-sdk/x/auth/signing"
	authtx "github.com/cosmos/cosmos-sdk/x/auth/tx"
	sdkvesting "github.com/cosmos/cosmos-sdk/x/auth/vesting/types"
	"github.com/cosmos/cosmos-sdk/x/authz"
	banktypes "github.com/cosmos/cosmos-sdk/x/bank/types"
	stakingtypes "github.com/cosmos/cosmos-sdk/x/staking/types"

	"github.com/haqq-network/haqq/app/ante"
	cosmosante "github.com/haqq-network/haqq/app/ante/cosmos"
	ethante "github.com/haqq-network/haqq/app/ante/evm"
	"github.com/haqq-network/haqq/crypto/ethsecp256k1"
	"github.com/haqq-network/haqq/testutil"
	utiltx "github.com/haqq-network/haqq/testutil/tx"
	haqqtypes "github.com/haqq-network/haqq/types"
	"github.com/haqq-network/haqq/utils"
	evmtypes "github.com/haqq-network/haqq/x/evm/types"
)

func init() {
	register("ante_route", arDriver)
	register("ante_route_exh", arExhDriver)
	register("ante_route_opts", func(cfg Config, out *Out) error {
		if cfg.Replay != "" {
			return arDriver(cfg, out)
		}
		return arOptionSweep(out)
	})
}

// ---------------------------------------------------------------- input
// Message type URLs are interned: the Coq side sees the index.
//
//	0 MsgEthereumTx (constructor "eth")   1 MsgCreateVestingAccount
//	2 MsgSend   3 MsgDelegate   4 MsgExec   5 MsgGrant   6 MsgRevoke
//	7 MsgCreatePermanentLockedAccount   8 an unregistered url (grant target only)
var arURLs = []string{
	sdk.MsgTypeURL(&evmtypes.MsgEthereumTx{}),
	sdk.MsgTypeURL(&sdkvesting.MsgCreateVestingAccount{}),
	sdk.MsgTypeURL(&banktypes.MsgSend{}),
	sdk.MsgTypeURL(&stakingtypes.MsgDelegate{}),
	sdk.MsgTypeURL(&authz.MsgExec{}),
	sdk.MsgTypeURL(&authz.MsgGrant{}),
	sdk.MsgTypeURL(&authz.MsgRevoke{}),
	sdk.MsgTypeURL(&sdkvesting.MsgCreatePermanentLockedAccount{}),
	"/verif.v1.MsgNotRegistered",
}

// the list handler_options.go passes to NewAuthzLimiterDecorator
var arRealDisabled = []int{0, 1}

var arPlainURLs = []int{1, 2, 3, 6, 7} // urls for which a concrete plain message is built

type arNode struct {
	K string   `json:"k"`           // eth | plain | exec | grant | gbad | opq
	U int      `json:"u,omitempty"` // url index (plain, grant)
	A string   `json:"a,omitempty"` // grant: authorization kind generic (default) | send | stake
	C []arNode `json:"c,omitempty"` // exec: inner messages
}

type arInput struct {
	Msgs []arNode `json:"msgs"`
	Opts []string `json:"opts"`              // E W D U (type url + decoded value), Ex Wx Dx (type url, no decoded value)
	NonC []string `json:"noncrit,omitempty"` // non_critical_extension_options, same alphabet
	Sign string   `json:"sign"`              // none | cosmos | eip712 | eth
	Dis  []int    `json:"dis"`               // disabled url list given to the stand-alone AuthzLimiterDecorator
}

// error enum shared with Ante/RouteModel.v
const (
	arOK         = 0
	arUnknownExt = 1 // ErrUnknownExtensionOptions
	arEthInCosmo = 2 // ErrInvalidType: RejectMessagesDecorator
	arDisabled   = 3 // ErrUnauthorized "found disabled msg type"
	arTooDeep    = 4 // ErrUnauthorized "found more nested msgs than permitted"
	arUnpack     = 5 // ErrUnauthorized, any other text (GetMessages / GetAuthorization failed)
	arExtCount   = 6 // eth route: "for eth tx length of ExtensionOptions should be 1"
	arNonEth     = 7 // eth route: "invalid message type"
	arPanic      = 8
	arRest       = 9 // anything else (fees, signatures, ...)
)

func arErrCode(err error) int {
	if err == nil {
		return arOK
	}
	s := err.Error()
	switch {
	case errors.Is(err, errortypes.ErrUnknownExtensionOptions):
		return arUnknownExt
	case errors.Is(err, errortypes.ErrUnauthorized) && strings.Contains(s, "signature verification failed") &&
		(strings.Contains(s, "tx does not contain expected amount of extension options") || strings.Contains(s, "unknown extension option")):
		// LegacyEip712SigVerificationDecorator flattens VerifySignature's ErrUnknownExtensionOptions into text
		return arUnknownExt
	case errors.Is(err, errortypes.ErrUnauthorized) && (strings.Contains(s, "which is not a sdk.MsgRequest") ||
		strings.Contains(s, "authorization is nil") || strings.Contains(s, "expected authz.Authorization")):
		return arUnpack
	case errors.Is(err, errortypes.ErrUnauthorized) && strings.Contains(s, "found disabled msg type"):
		return arDisabled
	case errors.Is(err, errortypes.ErrUnauthorized) && strings.Contains(s, "found more nested msgs than permitted"):
		return arTooDeep
	case errors.Is(err, errortypes.ErrInvalidType) && strings.Contains(s, "MsgEthereumTx needs to be contained within a tx with 'ExtensionOptionsEthereumTx' option"):
		return arEthInCosmo
	case errors.Is(err, errortypes.ErrInvalidRequest) && strings.Contains(s, "for eth tx length of ExtensionOptions should be 1"):
		return arExtCount
	case errors.Is(err, errortypes.ErrUnknownRequest) && strings.Contains(s, "invalid message type"):
		return arNonEth
	}
	return arRest
}

// the stand-alone limiter returns nothing but ErrUnauthorized
func arLimiterCode(err error) int {
	c := arErrCode(err)
	if c == arOK || c == arDisabled || c == arTooDeep || c == arUnpack {
		return c
	}
	return arRest
}

// ---------------------------------------------------------------- environment
type arEnv struct {
	e       *Env
	txCfg   client.TxConfig
	priv    *ethsecp256k1.PrivKey
	me      sdk.AccAddress
	other   sdk.AccAddress
	val     sdk.ValAddress
	built   sdk.AnteHandler // ante.NewAnteHandler(options), options as in app.go
	wired   sdk.AnteHandler // the handler stored in BaseApp
	ethNext int             // nonce increment for the next MsgEthereumTx of the case
}

func arPrivKey() *ethsecp256k1.PrivKey {
	k := make([]byte, 32)
	for i := range k {
		k[i] = byte(0x11 + i)
	}
	return &ethsecp256k1.PrivKey{Key: k}
}

func arWiredHandler(e *Env) (h sdk.AnteHandler, err error) {
	defer func() {
		if r := recover(); r != nil {
			err = fmt.Errorf("cannot read BaseApp.anteHandler: %v", r)
		}
	}()
	f := reflect.ValueOf(e.App.BaseApp).Elem().FieldByName("anteHandler")
	if !f.IsValid() {
		return nil, fmt.Errorf("BaseApp has no field anteHandler")
	}
	v := reflect.NewAt(f.Type(), unsafe.Pointer(f.UnsafeAddr())).Elem().Interface()
	h, ok := v.(sdk.AnteHandler)
	if !ok || h == nil {
		return nil, fmt.Errorf("BaseApp.anteHandler is %T", v)
	}
	return h, nil
}

// the two handlers are built once: they hold keepers, no context
var arBuilt, arWired sdk.AnteHandler
var arTxCfg client.TxConfig // app.GetTxConfig() builds a whole encoding config on every call

func arNewEnv(funded bool) (*arEnv, error) {
	e := forkEnv()
	a := e.App
	// what baseapp puts into the context of every transaction
	e.Ctx = e.Ctx.WithConsensusParams(a.BaseApp.GetConsensusParams(e.Ctx)).WithBlockGasMeter(sdk.NewInfiniteGasMeter())
	if arTxCfg == nil {
		arTxCfg = a.GetTxConfig()
	}
	txCfg := arTxCfg
	if arBuilt == nil {
		// exactly the construction of app.go setAnteHandler (maxGasWanted = its default 0)
		options := ante.HandlerOptions{
			Cdc:                    a.AppCodec(),
			AccountKeeper:          a.AccountKeeper,
			BankKeeper:             a.BankKeeper,
			ExtensionOptionChecker: haqqtypes.HasDynamicFeeExtensionOption,
			EvmKeeper:              a.EvmKeeper,
			StakingKeeper:          a.StakingKeeper,
			FeegrantKeeper:         a.FeeGrantKeeper,
			DistributionKeeper:     a.DistrKeeper,
			IBCKeeper:              a.IBCKeeper,
			FeeMarketKeeper:        a.FeeMarketKeeper,
			SignModeHandler:        txCfg.SignModeHandler(),
			SigGasConsumer:         ante.SigVerificationGasConsumer,
			MaxTxGasWanted:         0,
			TxFeeChecker:           ethante.NewDynamicFeeChecker(a.EvmKeeper),
		}
		if err := options.Validate(); err != nil {
			return nil, err
		}
		wired, err := arWiredHandler(e)
		if err != nil {
			return nil, err
		}
		arBuilt, arWired = ante.NewAnteHandler(options), wired
	}
	priv := arPrivKey()
	me := sdk.AccAddress(priv.PubKey().Address().Bytes())
	if funded {
		if err := testutil.FundAccount(e.Ctx, a.BankKeeper, me, sdk.NewCoins(sdk.NewCoin(utils.BaseDenom, sdkmath.NewIntWithDecimal(1, 24)))); err != nil {
			return nil, err
		}
		if a.AccountKeeper.GetAccount(e.Ctx, me) == nil {
			a.AccountKeeper.SetAccount(e.Ctx, a.AccountKeeper.NewAccountWithAddress(e.Ctx, me))
		}
	}
	return &arEnv{e: e, txCfg: txCfg, priv: priv, me: me, other: addrN(7), val: sdk.ValAddress(addrN(9)),
		built: arBuilt, wired: arWired}, nil
}

// ---------------------------------------------------------------- messages
func (x *arEnv) ethMsg() (*evmtypes.MsgEthereumTx, error) {
	m, err := utiltx.CreateEthTx(x.e.Ctx, x.e.App, x.priv, x.me, x.other, big.NewInt(1), x.ethNext)
	if err != nil {
		return nil, err
	}
	x.ethNext++
	m.From = ""
	return m, nil
}

func (x *arEnv) plain(u int, top bool) (sdk.Msg, error) {
	from, to := x.other, x.me
	if top {
		from, to = x.me, x.other
	}
	one := sdk.NewCoins(sdk.NewCoin(utils.BaseDenom, sdkmath.NewInt(1)))
	switch u {
	case 1:
		return sdkvesting.NewMsgCreateVestingAccount(from, to, one, 2_000_000_000, false), nil
	case 2:
		return banktypes.NewMsgSend(from, to, one), nil
	case 3:
		return stakingtypes.NewMsgDelegate(from, x.val, one[0]), nil
	case 6:
		m := authz.NewMsgRevoke(from, to, arURLs[2])
		return &m, nil
	case 7:
		return sdkvesting.NewMsgCreatePermanentLockedAccount(from, to, one), nil
	}
	return nil, fmt.Errorf("no plain message for url index %d", u)
}

func (x *arEnv) build(n arNode, top bool) (sdk.Msg, error) {
	granter, grantee := x.other, x.me
	if top {
		granter, grantee = x.me, x.other
	}
	switch n.K {
	case "eth":
		return x.ethMsg()
	case "plain":
		return x.plain(n.U, top)
	case "exec":
		anys := make([]*codectypes.Any, 0, len(n.C))
		for _, c := range n.C {
			if c.K == "opq" {
				// an Any that was never unpacked: GetCachedValue() is nil
				anys = append(anys, &codectypes.Any{TypeUrl: arURLs[2], Value: []byte{}})
				continue
			}
			m, err := x.build(c, false)
			if err != nil {
				return nil, err
			}
			a, err := codectypes.NewAnyWithValue(m)
			if err != nil {
				return nil, err
			}
			anys = append(anys, a)
		}
		exGrantee := x.other
		if top {
			exGrantee = x.me
		}
		return &authz.MsgExec{Grantee: exGrantee.String(), Msgs: anys}, nil
	case "grant":
		if n.U < 0 || n.U >= len(arURLs) {
			return nil, fmt.Errorf("grant url index %d", n.U)
		}
		var auth authz.Authorization
		switch n.A {
		case "", "generic":
			auth = authz.NewGenericAuthorization(arURLs[n.U])
		case "send":
			if n.U != 2 {
				return nil, fmt.Errorf("send authorization has url 2")
			}
			auth = banktypes.NewSendAuthorization(sdk.NewCoins(sdk.NewCoin(utils.BaseDenom, sdkmath.NewInt(5))), nil)
		case "stake":
			if n.U != 3 {
				return nil, fmt.Errorf("stake authorization has url 3")
			}
			sa, err := stakingtypes.NewStakeAuthorization([]sdk.ValAddress{x.val}, nil, stakingtypes.AuthorizationType_AUTHORIZATION_TYPE_DELEGATE, nil)
			if err != nil {
				return nil, err
			}
			auth = sa
		default:
			return nil, fmt.Errorf("authorization kind %q", n.A)
		}
		return authz.NewMsgGrant(granter, grantee, auth, nil)
	case "gbad":
		return &authz.MsgGrant{Granter: granter.String(), Grantee: grantee.String(), Grant: authz.Grant{}}, nil
	}
	return nil, fmt.Errorf("node kind %q", n.K)
}

func arValidate(ns []arNode, top bool) error {
	for _, n := range ns {
		switch n.K {
		case "eth", "gbad":
		case "plain":
			ok := false
			for _, u := range arPlainURLs {
				ok = ok || u == n.U
			}
			if !ok {
				return fmt.Errorf("plain url index %d", n.U)
			}
		case "grant":
			if n.U < 0 || n.U >= len(arURLs) {
				return fmt.Errorf("grant url index %d", n.U)
			}
		case "exec":
			if err := arValidate(n.C, false); err != nil {
				return err
			}
		case "opq":
			if top {
				return fmt.Errorf("an undecoded Any cannot be a top-level message (Tx.GetMsgs panics)")
			}
		default:
			return fmt.Errorf("node kind %q", n.K)
		}
	}
	return nil
}

// ---------------------------------------------------------------- extension options
func (x *arEnv) option(o string, web3 *codectypes.Any) (*codectypes.Any, error) {
	switch o {
	case "E":
		return codectypes.NewAnyWithValue(&evmtypes.ExtensionOptionsEthereumTx{})
	case "W":
		if web3 != nil {
			return web3, nil
		}
		return codectypes.NewAnyWithValue(&haqqtypes.ExtensionOptionsWeb3Tx{FeePayer: x.me.String(), TypedDataChainID: 11235, FeePayerSig: make([]byte, 65)})
	case "D":
		return codectypes.NewAnyWithValue(&haqqtypes.ExtensionOptionDynamicFeeTx{MaxPriorityPrice: sdkmath.NewInt(1)})
	case "U":
		// a registered proto message that is not an extension option of this chain
		return codectypes.NewAnyWithValue(banktypes.NewMsgSend(x.me, x.other, nil))
	case "Ex":
		return &codectypes.Any{TypeUrl: "/ethermint.evm.v1.ExtensionOptionsEthereumTx"}, nil
	case "Wx":
		return &codectypes.Any{TypeUrl: "/ethermint.types.v1.ExtensionOptionsWeb3Tx"}, nil
	case "Dx":
		return &codectypes.Any{TypeUrl: "/ethermint.types.v1.ExtensionOptionDynamicFeeTx"}, nil
	}
	return nil, fmt.Errorf("option %q", o)
}

func (x *arEnv) options(opts []string, web3 *codectypes.Any) ([]*codectypes.Any, error) {
	out := []*codectypes.Any{}
	for _, o := range opts {
		a, err := x.option(o, web3)
		if err != nil {
			return nil, err
		}
		out = append(out, a)
	}
	return out, nil
}

// ---------------------------------------------------------------- transactions
const arGas = uint64(3_000_000)

func (x *arEnv) fee() sdk.Coins {
	bf := x.e.App.FeeMarketKeeper.GetBaseFee(x.e.Ctx)
	if bf == nil {
		bf = big.NewInt(1_000_000_000)
	}
	price := new(big.Int).Mul(bf, big.NewInt(2))
	return sdk.NewCoins(sdk.NewCoin(utils.BaseDenom, sdkmath.NewIntFromBigInt(price.Mul(price, new(big.Int).SetUint64(arGas)))))
}

// buildTx returns the transaction and the kind of signing that was actually
// achieved (a signing procedure that cannot handle the message tree degrades to
// "none": the transaction is then sent unsigned).
func (x *arEnv) buildTx(in arInput) (tx sdk.Tx, sign string, err error) {
	msgs := make([]sdk.Msg, 0, len(in.Msgs))
	for _, n := range in.Msgs {
		m, err := x.build(n, true)
		if err != nil {
			return nil, "", err
		}
		msgs = append(msgs, m)
	}
	sign = in.Sign
	if len(msgs) == 0 && sign == "cosmos" {
		sign = "none" // no message, no signer: there is nothing a signature could be checked against
	}
	if sign == "eip712" {
		if tx, ok := x.tryEIP712(in, msgs); ok {
			return tx, sign, nil
		}
		sign = "none"
	}
	b := x.txCfg.NewTxBuilder()
	eb, ok := b.(authtx.ExtensionOptionsTxBuilder)
	if !ok {
		return nil, "", fmt.Errorf("tx builder has no extension options")
	}
	if err := b.SetMsgs(msgs...); err != nil {
		return nil, "", err
	}
	opts, err := x.options(in.Opts, nil)
	if err != nil {
		return nil, "", err
	}
	if len(opts) > 0 {
		eb.SetExtensionOptions(opts...)
	}
	nonc, err := x.options(in.NonC, nil)
	if err != nil {
		return nil, "", err
	}
	if len(nonc) > 0 {
		eb.SetNonCriticalExtensionOptions(nonc...)
	}
	switch sign {
	case "none":
		b.SetGasLimit(arGas)
		b.SetFeeAmount(x.fee())
	case "eth":
		// the fee and gas an Ethereum transaction must declare: the sums over its MsgEthereumTx
		fee := sdk.Coins{}
		gas := uint64(0)
		for _, m := range msgs {
			if em, ok := m.(*evmtypes.MsgEthereumTx); ok {
				gas += em.GetGas()
				fee = fee.Add(sdk.Coin{Denom: utils.BaseDenom, Amount: sdkmath.NewIntFromBigInt(em.GetFee())})
			}
		}
		b.SetGasLimit(gas)
		b.SetFeeAmount(fee)
	case "cosmos":
		b.SetGasLimit(arGas)
		b.SetFeeAmount(x.fee())
		if !x.signDirect(b) {
			sign = "none"
		}
	default:
		return nil, "", fmt.Errorf("sign %q", in.Sign)
	}
	return b.GetTx(), sign, nil
}

func (x *arEnv) signDirect(b client.TxBuilder) (ok bool) {
	defer func() {
		if r := recover(); r != nil {
			ok = false
		}
	}()
	a := x.e.App
	acc := a.AccountKeeper.GetAccount(x.e.Ctx, x.me)
	if acc == nil {
		return false
	}
	seq := acc.GetSequence()
	mode := signing.SignMode_SIGN_MODE_DIRECT
	sig := signing.SignatureV2{PubKey: x.priv.PubKey(), Data: &signing.SingleSignatureData{SignMode: mode}, Sequence: seq}
	if err := b.SetSignatures(sig); err != nil {
		return false
	}
	sd := authsigning.SignerData{ChainID: x.e.Ctx.ChainID(), AccountNumber: acc.GetAccountNumber(), Sequence: seq}
	sig, err := clienttx.SignWithPrivKey(mode, sd, b, x.priv, x.txCfg, seq)
	if err != nil {
		return false
	}
	return b.SetSignatures(sig) == nil
}

func (x *arEnv) tryEIP712(in arInput, msgs []sdk.Msg) (tx sdk.Tx, ok bool) {
	defer func() {
		if r := recover(); r != nil {
			tx, ok = nil, false
		}
	}()
	if len(msgs) == 0 {
		return nil, false
	}
	b, err := utiltx.PrepareEIP712CosmosTx(x.e.Ctx, x.e.App, utiltx.EIP712TxArgs{
		CosmosTxArgs:       utiltx.CosmosTxArgs{TxCfg: x.txCfg, Priv: x.priv, ChainID: x.e.Ctx.ChainID(), Gas: arGas, Fees: x.fee(), Msgs: msgs},
		UseLegacyExtension: true, UseLegacyTypedData: true,
	})
	if err != nil {
		return nil, false
	}
	eb := b.(authtx.ExtensionOptionsTxBuilder)
	signed := b.GetTx().(interface{ GetExtensionOptions() []*codectypes.Any }).GetExtensionOptions()
	if len(signed) != 1 {
		return nil, false
	}
	opts, err := x.options(in.Opts, signed[0])
	if err != nil {
		return nil, false
	}
	eb.SetExtensionOptions(opts...)
	nonc, err := x.options(in.NonC, nil)
	if err != nil {
		return nil, false
	}
	if len(nonc) > 0 {
		eb.SetNonCriticalExtensionOptions(nonc...)
	}
	return b.GetTx(), true
}

// ---------------------------------------------------------------- running
type arObs struct {
	RM    int    `json:"reject_messages"`
	AL    int    `json:"authz_limiter"`
	BC    int    `json:"built_check"`
	BD    int    `json:"built_deliver"`
	WC    int    `json:"wired_check"`
	WD    int    `json:"wired_deliver"`
	Sign  string `json:"signed_as"`
	Err   string `json:"err,omitempty"`
	NextR bool   `json:"rm_next_called"`
	NextA bool   `json:"al_next_called"`
}

func arRunDecorator(ctx sdk.Context, d sdk.AnteDecorator, tx sdk.Tx) (err error, nextCalled bool) {
	defer func() {
		if r := recover(); r != nil {
			err = fmt.Errorf("panic: %v", r)
		}
	}()
	cctx, _ := ctx.CacheContext()
	_, err = d.AnteHandle(cctx, tx, false, func(c sdk.Context, _ sdk.Tx, _ bool) (sdk.Context, error) {
		nextCalled = true
		return c, nil
	})
	return err, nextCalled
}

func arRunHandler(ctx sdk.Context, h sdk.AnteHandler, tx sdk.Tx, check bool) (code int, msg string) {
	defer func() {
		if r := recover(); r != nil {
			code, msg = arPanic, fmt.Sprintf("panic: %v", r)
		}
	}()
	cctx, _ := ctx.CacheContext()
	cctx = cctx.WithIsCheckTx(check)
	// EthSigVerificationDecorator writes the recovered sender into the message object;
	// a transaction decoded from the wire never carries it
	for _, m := range tx.GetMsgs() {
		if em, ok := m.(*evmtypes.MsgEthereumTx); ok {
			em.From = ""
		}
	}
	_, err := h(cctx, tx, false)
	if err != nil {
		return arErrCode(err), err.Error()
	}
	return arOK, ""
}

// ---------------------------------------------------------------- property oracle
// Computed by an independent walk of the generated tree; nothing here looks at
// nesting levels or at the order of checks.
type arFacts struct {
	ethAnywhere, ethTop, ethInExec, allTopEth bool
	disInExec                                 map[int]bool // url indices found directly inside some MsgExec
	grants                                    map[int]bool // url indices granted anywhere
	depth, width, nodes, execs                int
	malformed                                 bool
}

func arWalk(ns []arNode, inExec bool, depth int, f *arFacts) {
	if len(ns) > f.width {
		f.width = len(ns)
	}
	if depth > f.depth {
		f.depth = depth
	}
	for _, n := range ns {
		f.nodes++
		switch n.K {
		case "eth":
			f.ethAnywhere = true
			if inExec {
				f.ethInExec = true
				f.disInExec[0] = true
			} else {
				f.ethTop = true
			}
		case "plain":
			if inExec {
				f.disInExec[n.U] = true
			}
		case "grant":
			f.grants[n.U] = true
		case "gbad", "opq":
			f.malformed = true
		case "exec":
			f.execs++
			arWalk(n.C, true, depth+1, f)
		}
	}
}

func arFactsOf(in arInput) *arFacts {
	f := &arFacts{disInExec: map[int]bool{}, grants: map[int]bool{}, allTopEth: true}
	arWalk(in.Msgs, false, 0, f)
	for _, n := range in.Msgs {
		if n.K != "eth" {
			f.allTopEth = false
		}
	}
	return f
}

func arOracle(in arInput, o arObs, f *arFacts) string {
	// stand-alone decorators
	if o.RM == arOK && f.ethTop {
		return "RejectMessagesDecorator let a transaction with a top-level MsgEthereumTx through"
	}
	if o.AL == arOK {
		for _, u := range in.Dis {
			if f.disInExec[u] {
				return fmt.Sprintf("AuthzLimiterDecorator accepted a tree with disabled %s inside a MsgExec", arURLs[u])
			}
			if f.grants[u] {
				return fmt.Sprintf("AuthzLimiterDecorator accepted a MsgGrant for disabled %s", arURLs[u])
			}
		}
	}
	if (o.RM == arOK) != o.NextR || (o.AL == arOK) != o.NextA {
		return "a decorator returned no error without calling next, or an error after calling next"
	}
	// full handlers
	for _, h := range []struct {
		name string
		code int
	}{{"NewAnteHandler/CheckTx", o.BC}, {"NewAnteHandler/DeliverTx", o.BD}, {"app ante handler/CheckTx", o.WC}, {"app ante handler/DeliverTx", o.WD}} {
		if h.code != arOK {
			continue
		}
		for _, op := range in.Opts {
			if op == "U" {
				return h.name + " accepted a transaction carrying an unknown extension option"
			}
		}
		if f.ethAnywhere {
			if !(len(in.Opts) == 1 && in.Opts[0][0] == 'E') {
				return h.name + " accepted a MsgEthereumTx outside the Ethereum route"
			}
			if !f.allTopEth || f.ethInExec {
				return h.name + " accepted a MsgEthereumTx mixed with / nested in other messages"
			}
		}
		for _, u := range arRealDisabled {
			if f.disInExec[u] {
				return fmt.Sprintf("%s accepted %s inside a MsgExec", h.name, arURLs[u])
			}
			if f.grants[u] {
				return fmt.Sprintf("%s accepted a MsgGrant for %s", h.name, arURLs[u])
			}
		}
	}
	return ""
}

// ---------------------------------------------------------------- Coq printing
func (n arNode) coq() string {
	switch n.K {
	case "eth":
		return "Eth"
	case "plain":
		return fmt.Sprintf("Plain %s", coqN(n.U))
	case "grant":
		return fmt.Sprintf("Grant %s", coqN(n.U))
	case "gbad":
		return "GrantBad"
	case "opq":
		return "Opaque"
	}
	return "Exec " + arCoqNodes(n.C)
}

func arCoqNodes(ns []arNode) string {
	xs := make([]string, len(ns))
	for i, n := range ns {
		xs[i] = n.coq()
	}
	return coqList(xs)
}

func arCoqOpt(o string) string {
	k := map[byte]string{'E': "KEth", 'W': "KWeb3", 'D': "KDyn", 'U': "KUnk"}[o[0]]
	return fmt.Sprintf("mkopt %s %s", k, coqBool(len(o) == 1))
}

func arCoqCase(in arInput, sign string, o arObs) string {
	opts := make([]string, len(in.Opts))
	for i, x := range in.Opts {
		opts[i] = arCoqOpt(x)
	}
	dis := make([]string, len(in.Dis))
	for i, u := range in.Dis {
		dis[i] = coqN(u)
	}
	nonc := make([]string, len(in.NonC))
	for i, x := range in.NonC {
		nonc[i] = arCoqOpt(x)
	}
	sg := map[string]string{"none": "SNone", "cosmos": "SCosmos", "eip712": "SEip712", "eth": "SEth"}[sign]
	obs := []string{coqN(o.RM), coqN(o.AL), coqN(o.BC), coqN(o.BD), coqN(o.WC), coqN(o.WD)}
	return fmt.Sprintf("(mkinput %s %s %s %s %s, %s)", coqList(dis), arCoqNodes(in.Msgs), coqList(opts), coqList(nonc), sg, coqList(obs))
}

// ---------------------------------------------------------------- one case
func arRunCase(id string, in arInput) (Case, error) {
	if in.Dis == nil {
		in.Dis = append([]int{}, arRealDisabled...)
	}
	if in.Opts == nil {
		in.Opts = []string{}
	}
	if in.Msgs == nil {
		in.Msgs = []arNode{}
	}
	for _, o := range append(append([]string{}, in.Opts...), in.NonC...) {
		if _, err := (&arEnv{}).option(o, &codectypes.Any{}); err != nil {
			return Case{}, err
		}
	}
	if in.Sign == "" {
		in.Sign = "none"
	}
	if err := arValidate(in.Msgs, true); err != nil {
		return Case{}, err
	}
	x, err := arNewEnv(in.Sign != "none")
	if err != nil {
		return Case{}, err
	}
	tx, sign, err := x.buildTx(in)
	if err != nil {
		return Case{}, err
	}
	var o arObs
	o.Sign = sign
	ctx := x.e.Ctx
	e1, n1 := arRunDecorator(ctx, cosmosante.RejectMessagesDecorator{}, tx)
	o.RM, o.NextR = arErrCode(e1), n1
	dis := make([]string, len(in.Dis))
	for i, u := range in.Dis {
		dis[i] = arURLs[u]
	}
	e2, n2 := arRunDecorator(ctx, cosmosante.NewAuthzLimiterDecorator(dis...), tx)
	o.AL, o.NextA = arLimiterCode(e2), n2
	var m string
	o.BC, m = arRunHandler(ctx, x.built, tx, true)
	o.Err = m
	o.BD, _ = arRunHandler(ctx, x.built, tx, false)
	o.WC, _ = arRunHandler(ctx, x.wired, tx, true)
	o.WD, _ = arRunHandler(ctx, x.wired, tx, false)
	if len(o.Err) > 160 {
		o.Err = o.Err[:160]
	}

	f := arFactsOf(in)
	msg := arOracle(in, o, f)
	in2 := in
	in2.Sign = sign
	tags := []string{
		fmt.Sprintf("depth:%d", f.depth), fmt.Sprintf("width:%d", f.width), fmt.Sprintf("nodes:%s", arBucket(f.nodes)),
		fmt.Sprintf("execs:%d", arMin(f.execs, 12)),
		fmt.Sprintf("limiter:%d", o.AL), fmt.Sprintf("reject_msgs:%d", o.RM), fmt.Sprintf("handler:%d", o.BD),
		fmt.Sprintf("opts:%s", strings.Join(in.Opts, "")), "sign:" + sign, "blocked:" + arBlockedPos(in, f),
	}
	if f.malformed {
		tags = append(tags, "malformed")
	}
	if len(in.NonC) > 0 {
		tags = append(tags, "noncritical-options")
	}
	if !reflect.DeepEqual(in.Dis, arRealDisabled) {
		tags = append(tags, "custom-disabled-list")
	}
	sort.Strings(tags)
	kb, _ := json.Marshal(in2)
	return Case{
		ID: id, Kind: "tx", Input: in2, Obs: o, Coq: arCoqCase(in, sign, o), CoqList: "cases",
		OracleOK: msg == "", OracleMsg: msg,
		Nontrivial: o.AL == arOK || o.BD == arOK, Key: string(kb), Tags: tags,
	}, nil
}

func arMin(a, b int) int {
	if a < b {
		return a
	}
	return b
}

func arBucket(n int) string {
	switch {
	case n <= 6:
		return fmt.Sprintf("%d", n)
	case n <= 12:
		return "7-12"
	case n <= 24:
		return "13-24"
	}
	return "25+"
}

// where the first blocked item (MsgEthereumTx, disabled message inside an exec,
// grant of a disabled url) sits: depth and sibling position
func arBlockedPos(in arInput, f *arFacts) string {
	disabled := map[int]bool{}
	for _, u := range in.Dis {
		disabled[u] = true
	}
	var find func(ns []arNode, inExec bool, d int) string
	find = func(ns []arNode, inExec bool, d int) string {
		for i, n := range ns {
			pos := "mid"
			if i == len(ns)-1 {
				pos = "last"
			}
			if i == 0 {
				pos = "first"
			}
			hit := false
			switch n.K {
			case "eth":
				hit = !inExec || disabled[0]
			case "plain":
				hit = inExec && disabled[n.U]
			case "grant":
				hit = disabled[n.U]
			case "exec":
				if s := find(n.C, true, d+1); s != "" {
					return s
				}
			}
			if hit {
				return fmt.Sprintf("%s@d%d:%s", n.K, d, pos)
			}
		}
		return ""
	}
	if s := find(in.Msgs, false, 0); s != "" {
		return s
	}
	return "none"
}

// ---------------------------------------------------------------- generator
var arOptAlphabet = []string{"E", "W", "D", "U", "Ex", "Wx", "Dx"}

func arGenLeaf(r *Rng, malformed bool, inExec bool) arNode {
	switch k := r.Intn(100); {
	case k < 14:
		return arNode{K: "eth"}
	case k < 28:
		return arNode{K: "plain", U: 1}
	case k < 62:
		return arNode{K: "plain", U: arPlainURLs[1+r.Intn(len(arPlainURLs)-1)]}
	case k < 74:
		return arNode{K: "grant", U: r.Intn(2)}
	case k < 90:
		n := arNode{K: "grant", U: 2 + r.Intn(len(arURLs)-2)}
		if n.U == 2 && r.Bool() {
			n.A = "send"
		}
		if n.U == 3 && r.Bool() {
			n.A = "stake"
		}
		return n
	default:
		if malformed {
			if inExec && r.Bool() {
				return arNode{K: "opq"}
			}
			return arNode{K: "gbad"}
		}
		return arNode{K: "plain", U: 2}
	}
}

// arGenTree: a list of siblings; budget bounds the number of nodes.
func arGenTree(r *Rng, depthLeft, maxWidth int, budget *int, malformed, inExec, clean bool) []arNode {
	w := 1 + r.Intn(maxWidth)
	if malformed && r.Chance(10) {
		w = 0 // an exec without inner messages
	}
	out := []arNode{}
	for i := 0; i < w && *budget > 0; i++ {
		*budget--
		if depthLeft > 0 && r.Chance(45) {
			out = append(out, arNode{K: "exec", C: arGenTree(r, depthLeft-1, maxWidth, budget, malformed, true, clean)})
			continue
		}
		if clean {
			out = append(out, arNode{K: "plain", U: arPlainURLs[1+r.Intn(len(arPlainURLs)-1)]})
		} else {
			out = append(out, arGenLeaf(r, malformed, inExec))
		}
	}
	if out == nil {
		out = []arNode{}
	}
	return out
}

// chain of d execs around the given siblings
func arChain(d int, inner []arNode) []arNode {
	for i := 0; i < d; i++ {
		inner = []arNode{{K: "exec", C: inner}}
	}
	return inner
}

func arGenOpts(r *Rng) []string {
	switch k := r.Intn(100); {
	case k < 40:
		return []string{}
	case k < 52:
		return []string{"D"}
	case k < 64:
		return []string{"W"}
	case k < 76:
		return []string{"E"}
	}
	n := 1 + r.Intn(3)
	out := make([]string, n)
	for i := range out {
		out[i] = arOptAlphabet[r.Intn(len(arOptAlphabet))]
	}
	return out
}

func arGen(r *Rng) arInput {
	malformed := r.Chance(10)
	in := arInput{Dis: append([]int{}, arRealDisabled...)}
	if r.Chance(12) {
		alts := [][]int{{}, {2}, {0}, {1, 3}, {0, 1, 3, 8}}
		in.Dis = alts[r.Intn(len(alts))]
	}
	in.Opts = arGenOpts(r)
	if r.Chance(8) {
		in.NonC = []string{arOptAlphabet[r.Intn(len(arOptAlphabet))]}
	}
	shape := r.Intn(100)
	switch {
	case shape < 12:
		// Ethereum-style transaction: only MsgEthereumTx, sometimes polluted
		n := 1 + r.Intn(3)
		for i := 0; i < n; i++ {
			in.Msgs = append(in.Msgs, arNode{K: "eth"})
		}
		if r.Chance(25) {
			in.Msgs = append(in.Msgs, arGenLeaf(r, false, false))
		}
		if r.Chance(70) {
			in.Opts = []string{"E"}
		}
		in.Sign = "eth"
		if r.Chance(15) {
			in.Sign = []string{"none", "cosmos"}[r.Intn(2)]
		}
		return in
	case shape < 30:
		// a chain of execs around the nesting cap, blocked item as last sibling at the bottom
		d := 1 + r.Intn(10)
		b := 4
		bottom := arGenTree(r, 0, 3, &b, malformed, true, r.Bool())
		if r.Bool() {
			bottom = append(bottom, arGenLeaf(r, malformed, true))
		}
		in.Msgs = arChain(d, bottom)
	case shape < 42:
		// wide, not deep: many sibling execs
		w := 1 + r.Intn(8)
		for i := 0; i < w; i++ {
			b := 3
			in.Msgs = append(in.Msgs, arNode{K: "exec", C: arGenTree(r, 1, 2, &b, malformed, true, r.Chance(70))})
		}
		if r.Chance(40) {
			in.Msgs = append(in.Msgs, arGenLeaf(r, malformed, false))
		}
	default:
		budget := 2 + r.Intn(38)
		in.Msgs = arGenTree(r, r.Intn(11), 1+r.Intn(5), &budget, malformed, false, r.Chance(35))
	}
	if in.Msgs == nil {
		in.Msgs = []arNode{}
	}
	// signing: mostly the one that fits the route the options select
	route := "cosmos"
	if len(in.Opts) > 0 {
		switch in.Opts[0][0] {
		case 'E':
			route = "eth"
		case 'W':
			route = "eip712"
		}
	}
	in.Sign = route
	if r.Chance(20) {
		in.Sign = []string{"none", "cosmos", "eip712", "eth"}[r.Intn(4)]
	}
	return in
}

// ---------------------------------------------------------------- exhaustive enumeration
// all sibling lists with exactly n nodes over the alphabet
// {eth, plain blocked, plain free, grant blocked, grant free, exec}
var arExhLeaves = []arNode{{K: "eth"}, {K: "plain", U: 1}, {K: "plain", U: 2}, {K: "grant", U: 0}, {K: "grant", U: 2}}

var arForestMemo = map[int][][]arNode{}

func arForests(n int) [][]arNode {
	if n == 0 {
		return [][]arNode{{}}
	}
	if v, ok := arForestMemo[n]; ok {
		return v
	}
	out := [][]arNode{}
	// first tree has k nodes (1..n), the remaining siblings n-k
	for k := 1; k <= n; k++ {
		firsts := []arNode{}
		if k == 1 {
			firsts = append(firsts, arExhLeaves...)
		}
		for _, inner := range arForests(k - 1) {
			firsts = append(firsts, arNode{K: "exec", C: inner})
		}
		for _, f := range firsts {
			for _, rest := range arForests(n - k) {
				l := make([]arNode, 0, 1+len(rest))
				l = append(l, f)
				l = append(l, rest...)
				out = append(out, l)
			}
		}
	}
	arForestMemo[n] = out
	return out
}

func arExhDriver(cfg Config, out *Out) error {
	if cfg.Replay != "" {
		return arDriver(cfg, out)
	}
	// quick: all trees with <= 4 nodes; thorough: <= 5 nodes over the full alphabet and
	// exactly 6 nodes over {eth, free plain, grant of a blocked url, exec}
	maxNodes := 4
	if cfg.Tier == "thorough" {
		maxNodes = 6
	}
	if v, ok := cfg.Args["nodes"]; ok {
		fmt.Sscanf(v, "%d", &maxNodes)
	}
	full := arExhLeaves
	i := 0
	for n := 0; n <= maxNodes; n++ {
		if n >= 6 {
			arExhLeaves = []arNode{{K: "eth"}, {K: "plain", U: 2}, {K: "grant", U: 1}}
			arForestMemo = map[int][][]arNode{}
		}
		for _, msgs := range arForests(n) {
			// unsigned transactions: the prefix decorators decide before any signature is looked
			// at; the route alternates between the two Cosmos chains
			opts := [][]string{{}, {"W"}, {"D"}}[i%3]
			c, err := arRunCase(fmt.Sprintf("exh%d-%d", n, i), arInput{Msgs: msgs, Opts: opts, Sign: "none"})
			if err != nil {
				return err
			}
			out.Emit(c)
			i++
		}
	}
	arExhLeaves = full
	arForestMemo = map[int][][]arNode{}
	return nil
}

// all option lists of length <= 3 over the alphabet, each with a transaction that
// would be accepted on the route its first option selects
func arOptionSweep(out *Out) error {
	lists := [][]string{{}}
	frontier := [][]string{{}}
	for l := 1; l <= 3; l++ {
		next := [][]string{}
		for _, p := range frontier {
			for _, o := range arOptAlphabet {
				q := append(append([]string{}, p...), o)
				next = append(next, q)
			}
		}
		lists = append(lists, next...)
		frontier = next
	}
	i := 0
	for _, opts := range lists {
		for _, sign := range []string{"cosmos", "eip712", "eth"} {
			msgs := []arNode{{K: "plain", U: 2}}
			if sign == "eth" {
				msgs = []arNode{{K: "eth"}}
			}
			noncs := [][]string{nil}
			if len(opts) <= 1 {
				noncs = append(noncs, []string{"U"}, []string{"D"}, []string{"E", "W"})
			}
			for _, nc := range noncs {
				c, err := arRunCase(fmt.Sprintf("opts-%d", i), arInput{Msgs: msgs, Opts: opts, NonC: nc, Sign: sign})
				if err != nil {
					return err
				}
				out.Emit(c)
				i++
			}
		}
	}
	return nil
}

func arDriver(cfg Config, out *Out) error {
	if cfg.Replay != "" {
		i := 0
		return readReplayInputs(cfg.Replay, func(raw json.RawMessage) error {
			var in arInput
			if err := json.Unmarshal(raw, &in); err != nil {
				return err
			}
			c, err := arRunCase(fmt.Sprintf("replay-%d", i), in)
			if err != nil {
				return err
			}
			out.Emit(c)
			i++
			return nil
		})
	}
	r := NewRng(cfg.Seed)
	for i := 0; i < cfg.N; i++ {
		c, err := arRunCase(fmt.Sprintf("s%d-%d", cfg.Seed, i), arGen(r.Fork()))
		if err != nil {
			return err
		}
		out.Emit(c)
	}
	return nil
}
