package main

// Process-history perturbations of the "replicas" driver (property C01).
//
// The replicas of one history receive identical blocks but live different lives:
// things that are NOT block inputs happen to single replicas between the blocks --
//
//	ethcall      /ethermint.evm.v1.Query/EthCall of the environment probe (heights in S)
//	estimategas  /ethermint.evm.v1.Query/EstimateGas of the same call
//	trace        /ethermint.evm.v1.Query/TraceTx of a signed probe call, as of the next block
//	simulate     /app/simulate of a transaction of the coming block (followers) or of a fresh probe call
//	bankq        bank AllBalances / TotalSupply / SpendableBalances
//	stakingq     staking Validators / HistoricalInfo / Params / Pool
//	evmq         evm Account / Code / Storage / Params, feemarket BaseFee / Params
//	checktx-next CheckTx (mempool admission) of every transaction of the coming block (followers;
//	             the leading replica builds its transactions while the block runs, it admits a fresh one)
//	checktx-junk CheckTx of unrelated transactions: random bytes, a truncated transaction, a valid
//	             probe call, a replayed / future-nonce one; N selects; also ReCheckTx
//	restart      the application object is dropped and a new one opened on the replica's database
//	             (no InitChain), with the replica's node-local options
//	construct    a throw-away application with a different genesis is constructed, initialised and
//	             runs a block in the same process
//
// -- and the application objects are constructed in a chosen order with throw-away instances
// before them (procPlan).  All of it is part of the explicit input (bhBlock.Pre, bhInput.Proc):
// a failing history replays and shrinks with its perturbations.  None of these may change what
// a replica commits; whether one did shows as a divergence of the block results / app hashes.

import (
	"encoding/hex"
	"fmt"
	"math/big"
	"sort"
	"strings"

	dbm "github.com/cometbft/cometbft-db"
	abci "github.com/cometbft/cometbft/abci/types"
	"github.com/cometbft/cometbft/libs/log"
	"github.com/cosmos/cosmos-sdk/baseapp"
	"github.com/cosmos/cosmos-sdk/store"
	pruningtypes "github.com/cosmos/cosmos-sdk/store/pruning/types"
	simtestutil "github.com/cosmos/cosmos-sdk/testutil/sims"
	sdk "github.com/cosmos/cosmos-sdk/types"
	banktypes "github.com/cosmos/cosmos-sdk/x/bank/types"
	stakingtypes "github.com/cosmos/cosmos-sdk/x/staking/types"

	"github.com/haqq-network/haqq/app"
	"github.com/haqq-network/haqq/encoding"
	srvflags "github.com/haqq-network/haqq/server/flags"
	evmtypes "github.com/haqq-network/haqq/x/evm/types"
	feemarkettypes "github.com/haqq-network/haqq/x/feemarket/types"
)

type bhPerturb struct {
	Rep int    `json:"rep"`         // replica: 0 = leading, 1.. = following in-process replicas, then the separate process
	K   string `json:"k"`           // kind, see above
	F   int    `json:"f,omitempty"` // caller / signer (user index)
	S   string `json:"s,omitempty"` // probe heights "2,-1,-300" (>= 0 absolute, < 0 relative to NUMBER)
	N   int64  `json:"n,omitempty"` // variant
}

// procPlan: construction of the in-process application objects.
type procPlan struct {
	Order      []int `json:"order,omitempty"`      // sequential construction order (replicas not named follow in ascending order)
	Extra      []int `json:"extra,omitempty"`      // Extra[i] throw-away instances are constructed right before replica i
	Concurrent bool  `json:"concurrent,omitempty"` // construct concurrently after random delays instead (Order ignored)
}

var perturbKinds = []string{"ethcall", "estimategas", "trace", "simulate", "bankq", "stakingq", "evmq", "checktx-next", "checktx-junk", "restart", "construct"}

// ---------------------------------------------------------------- the node's application object
// nodeApp opens an application on db with the node-local options o (the same options newReplica uses;
// every call builds fresh option objects, as a restarted process would).
func nodeApp(o repOpts, db dbm.DB) *app.Haqq {
	enc := encoding.MakeConfig(app.ModuleBasics)
	home := o.Home
	if home == "" {
		home = app.DefaultNodeHome
	}
	ao := simtestutil.AppOptionsMap{"home": home}
	if o.MaxTxGasWanted != 0 {
		ao[srvflags.EVMMaxTxGasWanted] = o.MaxTxGasWanted
	}
	if o.EVMTracer != "" {
		ao[srvflags.EVMTracer] = o.EVMTracer
	}
	bopts := []func(*baseapp.BaseApp){baseapp.SetChainID(chainID)}
	if o.MinGasPrices != "" {
		bopts = append(bopts, baseapp.SetMinGasPrices(o.MinGasPrices))
	}
	if o.IAVLCacheSize > 0 {
		bopts = append(bopts, baseapp.SetIAVLCacheSize(o.IAVLCacheSize))
	}
	if o.InterBlockCache {
		bopts = append(bopts, baseapp.SetInterBlockCache(store.NewCommitKVStoreCacheManager()))
	}
	switch o.Pruning {
	case "nothing":
		bopts = append(bopts, baseapp.SetPruning(pruningtypes.NewPruningOptions(pruningtypes.PruningNothing)))
	case "everything":
		bopts = append(bopts, baseapp.SetPruning(pruningtypes.NewPruningOptions(pruningtypes.PruningEverything)))
	case "default":
		bopts = append(bopts, baseapp.SetPruning(pruningtypes.NewPruningOptions(pruningtypes.PruningDefault)))
	}
	if len(o.IndexEvents) > 0 {
		bopts = append(bopts, baseapp.SetIndexEvents(o.IndexEvents))
	}
	if o.Trace {
		bopts = append(bopts, baseapp.SetTrace(true))
	}
	return app.NewHaqq(log.NewNopLogger(), db, nil, true, map[int64]bool{}, home, o.InvCheckPeriod, enc, ao, bopts...)
}

// restart: a new application object on the same database; the replica's view of the chain
// (height, time, last app hash: CometBFT's side) is untouched.
//
// Before the first commit nothing is in the database: CometBFT finds the application at height 0 and
// sends InitChain again, so a restart there is a fresh application initialised from the genesis.
func (r *Replica) restart(g bhGenesis) (msg string) {
	defer func() {
		if x := recover(); x != nil {
			msg = fmt.Sprintf("restart panic: %v", x)
		}
	}()
	if r.inBlk {
		return "restart inside a block refused"
	}
	if r.Height == 0 {
		n := newReplica(g, r.Opts)
		r.App, r.DB, r.Hash = n.App, n.DB, n.Hash
		return ""
	}
	a := nodeApp(r.Opts, r.DB)
	if got := a.LastBlockHeight(); got != r.Height {
		return fmt.Sprintf("reopened application is at height %d, the replica committed %d", got, r.Height)
	}
	if got := a.LastCommitID().Hash; r.Height > 0 && hex.EncodeToString(got) != hex.EncodeToString(r.Hash) {
		return fmt.Sprintf("reopened application reports app hash %x, the replica committed %x", got, r.Hash)
	}
	r.App = a
	return ""
}

// throwAway constructs, initialises and runs one block on an application that has nothing to do
// with the history (a different genesis, other node-local options).
func throwAway(g bhGenesis, variant int) (msg string) {
	defer func() {
		if x := recover(); x != nil {
			msg = fmt.Sprintf("throw-away application panic: %v", x)
		}
	}()
	g.Coinomics = !g.Coinomics
	g.NVal = 1 + (g.NVal+variant)%4
	g.Window += 2
	he := uint32(7 + variant)
	g.Hist = &he
	// its own fee market: a tiny base fee and a first block above the gas target (1.9M declared gas, target 1.5M), so that
	// the BeginBlock of its second block takes the minimum step of the base-fee increase in this process
	g.Fee = &bhFeeMarket{BaseFee: fmt.Sprint(2 + ((variant%6)+6)%6), Denom: 8, Elasticity: 2, MinGasMult: "1", MaxGas: 3_000_000}
	h := newHistRun(g, replicaOpts[((variant%len(replicaOpts))+len(replicaOpts))%len(replicaOpts)])
	for _, b := range []bhBlock{
		{DT: 3, Proposer: variant, Txs: []bhTx{{K: "probedeploy", F: ((variant % bhNU) + bhNU) % bhNU}, {K: "send", F: 1, T: 2, A: "12345"}}},
		{DT: 2, Proposer: variant + 1, Txs: []bhTx{}},
	} {
		b := b
		h.runBlock(&b, nil, &stepHooks{TweakRaw: tweakHeader})
		if h.Dead != "" {
			return "throw-away application: " + h.Dead
		}
	}
	return ""
}

// ---------------------------------------------------------------- execution
type perturbLog struct {
	Counts map[string]int    // kind:outcome -> count
	Errs   map[string]string // first harness-level problem per kind
	BH     []bhObservation   // BLOCKHASH answers seen in eth_call results
}

func newPerturbLog() *perturbLog {
	return &perturbLog{Counts: map[string]int{}, Errs: map[string]string{}}
}

func (l *perturbLog) note(kind, outcome string) { l.Counts[kind+":"+outcome]++ }
func (l *perturbLog) problem(kind, what string) {
	if _, ok := l.Errs[kind]; !ok {
		l.Errs[kind] = shortLog(what)
	}
}

func (l *perturbLog) merge(o *perturbLog) {
	if o == nil {
		return
	}
	for k, v := range o.Counts {
		l.Counts[k] += v
	}
	for k, v := range o.Errs {
		l.problem(k, v)
	}
	l.BH = append(l.BH, o.BH...)
}

// checkCtx is a context on the replica's check state (what CheckTx and Simulate start from): used to
// build transactions between blocks, when there is no deliver state.
func (r *Replica) checkCtx() sdk.Context {
	return r.App.BaseApp.NewContext(true, r.Hdr).WithGasMeter(sdk.NewInfiniteGasMeter())
}

func (r *Replica) checkTx(bz []byte, recheck bool) (code uint32, pan string) {
	defer func() {
		if x := recover(); x != nil {
			pan = fmt.Sprintf("CheckTx panic: %v", x)
		}
	}()
	t := abci.CheckTxType_New
	if recheck {
		t = abci.CheckTxType_Recheck
	}
	res := r.App.CheckTx(abci.RequestCheckTx{Tx: bz, Type: t})
	return res.Code, ""
}

// freshProbeTx: a valid, signed probe call (or a plain transfer when no probe exists) built between blocks.
func (r *Replica) freshProbeTx(p bhPerturb, nonceOff uint64) (bz []byte, err error) {
	defer func() {
		if x := recover(); x != nil {
			err = fmt.Errorf("panic: %v", x)
		}
	}()
	f := ((p.F % bhNU) + bhNU) % bhNU
	ctx := r.checkCtx()
	to := r.Probe
	data := probeCalldata(parseReqs(p.S))
	if r.Probe == [20]byte{} {
		to, data = bhUserEth[(f+1)%bhNU], nil
	}
	msg, err := r.ethMsg(ctx, f, &to, big.NewInt(0), data, probeGas(len(data)/32), p.N%2 == 1, nonceOff)
	if err != nil {
		return nil, err
	}
	return r.ethTxBytes(msg)
}

func protoBytes(m interface{ Marshal() ([]byte, error) }) []byte {
	bz, err := m.Marshal()
	if err != nil {
		panic(err)
	}
	return bz
}

// runPerturb executes one perturbation on replica r.  next = the block the replica is about to receive
// (nil on the leading replica, which builds it while executing).
func runPerturb(r *Replica, g bhGenesis, p bhPerturb, next *rawBlock, l *perturbLog) {
	q := func(path string, data []byte) (abci.ResponseQuery, bool) {
		res, pan := r.abciQuery(path, data)
		switch {
		case pan != "":
			l.note(p.K, "panic")
			l.problem(p.K, path+": "+pan)
			return res, false
		case res.Code != 0:
			l.note(p.K, "refused") // e.g. "not ready" before the first commit, a proposer that is no validator any more
			return res, false
		}
		l.note(p.K, "ok")
		return res, true
	}
	reqs := parseReqs(p.S)
	user := bhUserAcc[((p.F%bhNU)+bhNU)%bhNU]
	switch p.K {
	case "ethcall", "estimategas":
		if r.Probe == [20]byte{} {
			l.note(p.K, "no-probe")
			return
		}
		data, err := r.probeCallRequest(p.F, reqs)
		if err != nil {
			l.problem(p.K, err.Error())
			return
		}
		if p.K == "estimategas" {
			q("/ethermint.evm.v1.Query/EstimateGas", data)
			return
		}
		res, ok := q("/ethermint.evm.v1.Query/EthCall", data)
		if !ok {
			return
		}
		var er evmtypes.MsgEthereumTxResponse
		if err := er.Unmarshal(res.Value); err != nil {
			l.problem(p.K, "cannot decode the eth_call response: "+err.Error())
			return
		}
		if er.VmError != "" {
			l.note(p.K, "vm-error")
			return
		}
		if _, obs, ok := probeDecode(er.Ret, reqs); ok {
			l.BH = append(l.BH, obs...)
			l.note(p.K, "decoded")
		} else if r.Height > 1 {
			l.note(p.K, "no-code-yet")
		}
	case "trace":
		if r.Probe == [20]byte{} {
			l.note(p.K, "no-probe")
			return
		}
		f := ((p.F % bhNU) + bhNU) % bhNU
		to := r.Probe
		msg, err := r.ethMsg(r.checkCtx(), f, &to, big.NewInt(0), probeCalldata(reqs), probeGas(len(reqs)), p.N%2 == 1, 0)
		if err != nil {
			l.problem(p.K, err.Error())
			return
		}
		req := evmtypes.QueryTraceTxRequest{Msg: msg, BlockNumber: r.Height + 1, BlockTime: r.Time.Add(1e9),
			BlockHash: hex.EncodeToString(make([]byte, 32)), ProposerAddress: sdk.ConsAddress(valCons(0)), ChainId: r.evmChainID().Int64(), BlockMaxGas: -1}
		q("/ethermint.evm.v1.Query/TraceTx", protoBytes(&req))
	case "simulate":
		var bz []byte
		if next != nil {
			for i := range next.Txs {
				if j := (int(p.N) + i) % len(next.Txs); len(next.Txs[j]) > 0 {
					bz = next.Txs[j]
					break
				}
			}
		}
		if bz == nil {
			var err error
			if bz, err = r.freshProbeTx(p, 0); err != nil {
				l.note(p.K, "not-built")
				return
			}
		}
		res, pan := r.abciQuery("/app/simulate", bz)
		switch {
		case pan != "":
			l.note(p.K, "panic")
			l.problem(p.K, pan)
		case res.Code != 0:
			l.note(p.K, "refused") // a transaction that would fail: legitimate
		default:
			l.note(p.K, "ok")
		}
	case "bankq":
		q("/cosmos.bank.v1beta1.Query/AllBalances", protoBytes(&banktypes.QueryAllBalancesRequest{Address: user.String()}))
		q("/cosmos.bank.v1beta1.Query/TotalSupply", protoBytes(&banktypes.QueryTotalSupplyRequest{}))
		q("/cosmos.bank.v1beta1.Query/SpendableBalances", protoBytes(&banktypes.QuerySpendableBalancesRequest{Address: user.String()}))
	case "stakingq":
		q("/cosmos.staking.v1beta1.Query/Validators", protoBytes(&stakingtypes.QueryValidatorsRequest{}))
		q("/cosmos.staking.v1beta1.Query/Params", protoBytes(&stakingtypes.QueryParamsRequest{}))
		q("/cosmos.staking.v1beta1.Query/Pool", protoBytes(&stakingtypes.QueryPoolRequest{}))
		for _, h := range reqs {
			if h < 0 {
				h += r.Height
			}
			// a pruned / future height is answered with NotFound: not a harness problem
			res, pan := r.abciQuery("/cosmos.staking.v1beta1.Query/HistoricalInfo", protoBytes(&stakingtypes.QueryHistoricalInfoRequest{Height: h}))
			switch {
			case pan != "":
				l.note(p.K, "panic")
				l.problem(p.K, pan)
			case res.Code != 0:
				l.note(p.K, "historical-info-absent")
			default:
				l.note(p.K, "historical-info-present")
			}
		}
	case "evmq":
		addr := r.Probe.Hex()
		q("/ethermint.evm.v1.Query/Account", protoBytes(&evmtypes.QueryAccountRequest{Address: addr}))
		q("/ethermint.evm.v1.Query/Code", protoBytes(&evmtypes.QueryCodeRequest{Address: addr}))
		q("/ethermint.evm.v1.Query/Storage", protoBytes(&evmtypes.QueryStorageRequest{Address: addr, Key: "0x0"}))
		q("/ethermint.evm.v1.Query/Params", protoBytes(&evmtypes.QueryParamsRequest{}))
		q("/ethermint.feemarket.v1.Query/BaseFee", protoBytes(&feemarkettypes.QueryBaseFeeRequest{}))
		q("/ethermint.feemarket.v1.Query/Params", protoBytes(&feemarkettypes.QueryParamsRequest{}))
	case "checktx-next":
		n := 0
		if next != nil {
			for _, bz := range next.Txs {
				if len(bz) == 0 {
					continue
				}
				code, pan := r.checkTx(bz, false)
				n++
				switch {
				case pan != "":
					l.note(p.K, "panic")
					l.problem(p.K, pan)
				case code != 0:
					l.note(p.K, "rejected")
				default:
					l.note(p.K, "admitted")
				}
				if p.N%3 == 2 {
					r.checkTx(bz, true)
				}
			}
		}
		if n == 0 {
			if bz, err := r.freshProbeTx(p, 0); err == nil {
				code, pan := r.checkTx(bz, false)
				l.note(p.K, fmt.Sprintf("fresh code=%d %s", code, pan))
			}
		}
	case "checktx-junk":
		var bzs [][]byte
		rng := NewRng(uint64(p.N)*977 + uint64(p.F))
		junk := make([]byte, 1+rng.Intn(300))
		for i := range junk {
			junk[i] = byte(rng.U64())
		}
		bzs = append(bzs, junk, []byte{})
		if bz, err := r.freshProbeTx(p, 0); err == nil {
			bzs = append(bzs, bz[:len(bz)/2], bz, bz) // truncated, valid, replayed
		}
		if bz, err := r.freshProbeTx(p, 1+uint64(p.N%3)); err == nil {
			bzs = append(bzs, bz) // the next / a future nonce
		}
		for _, bz := range bzs {
			code, pan := r.checkTx(bz, p.N%5 == 4)
			switch {
			case pan != "":
				l.note(p.K, "panic")
				l.problem(p.K, pan)
			case code != 0:
				l.note(p.K, "rejected")
			default:
				l.note(p.K, "admitted")
			}
		}
	case "restart":
		if msg := r.restart(g); msg != "" {
			l.note(p.K, "failed")
			l.problem(p.K, msg)
		} else {
			l.note(p.K, "ok")
		}
	case "construct":
		if msg := throwAway(g, int(p.N)); msg != "" {
			l.note(p.K, "failed")
			l.problem(p.K, msg)
		} else {
			l.note(p.K, "ok")
		}
	default:
		l.note(p.K, "unknown-kind")
		l.problem(p.K, "unknown perturbation kind "+p.K)
	}
}

// runPre executes the perturbations of block b that are addressed to replica idx.
func runPre(r *Replica, g bhGenesis, idx int, b *bhBlock, next *rawBlock, l *perturbLog) {
	for _, p := range b.Pre {
		if p.Rep == idx {
			runPerturb(r, g, p, next, l)
		}
	}
}

// ---------------------------------------------------------------- generation
type probeCall struct {
	Back bool // at the end of the block (otherwise at its start)
	Tx   bhTx
}

// procGen plans, for one history, the genesis parameter, the construction of the replicas, the probe
// transactions and the perturbations.
type procGen struct {
	r       *Rng
	nb      int
	nrep    int // replicas that can be addressed (in-process + the separate process when there is one)
	entries uint32
	pool    []int64
	calls   map[int][]probeCall // block index -> probe transactions
	pre     map[int][]bhPerturb // block index -> perturbations before it
	shape   string
	feeShape string // scripted perturbation of a fee-market history (betweenHeavy)
}

var histEntriesChoices = []uint32{0, 1, 2, 3, 3, 3, 5, 10000, 10000}

func newProcGen(r *Rng, nb, nrep int) *procGen {
	g := &procGen{r: r, nb: nb, nrep: nrep, calls: map[int][]probeCall{}, pre: map[int][]bhPerturb{}}
	g.entries = histEntriesChoices[r.Intn(len(histEntriesChoices))]
	e := int64(g.entries)
	// heights asked again and again by transactions and queries at different times
	for i := 0; i < 3; i++ {
		g.pool = append(g.pool, int64(1+r.Intn(nb)))
	}
	g.pool = append(g.pool, -1, -2, -3, -e, -(e - 1), -(e + 1), -255, -256, -257, 0, int64(nb+5), 1<<62)
	// deployment: first transaction of the first block
	g.calls[0] = append(g.calls[0], probeCall{Tx: bhTx{K: "probedeploy", F: r.Intn(bhNU), N: int64(r.Intn(2))}})
	// scripted shapes: a height n is evaluated while its header is still kept -- by a query on one replica,
	// or by a transaction on all of them followed by a restart of one -- and again by a transaction after
	// the header was pruned
	if e >= 2 && e < int64(nb)-3 && r.Chance(75) {
		n := int64(2 + r.Intn(nb-int(e)-2))      // probed height, 2 <= n <= nb-e-1
		early := n + 1 + int64(r.Intn(int(e)-1)) // n+1 .. n+e-1: header n still kept
		late := n + e + int64(r.Intn(nb-int(n+e)+1))
		if late > int64(nb) {
			late = int64(nb)
		}
		who := r.Intn(nrep)
		g.pool = append(g.pool, n, n, n)
		if r.Bool() {
			g.shape = "query-then-pruned"
			// served on the state committed at height `early`: before block index `early`
			k := []string{"ethcall", "ethcall", "estimategas", "trace"}[r.Intn(4)]
			s := []int64{n}
			if r.Bool() {
				s = []int64{n - early} // the same height, relative
			}
			if int(early) < nb {
				g.pre[int(early)] = append(g.pre[int(early)], bhPerturb{Rep: who, K: k, F: r.Intn(bhNU), S: fmtReqs(append(s, g.some(2)...))})
			}
		} else {
			g.shape = "tx-then-restart"
			g.calls[int(early-1)] = append(g.calls[int(early-1)], probeCall{Back: r.Bool(), Tx: bhTx{K: "probe", F: r.Intn(bhNU), S: fmtReqs(append([]int64{n}, g.some(2)...)), N: int64(r.Intn(2))}})
			at := int(early) + r.Intn(int(late-early)) // before block index at: early <= at <= late-1
			if at < nb {
				g.pre[at] = append(g.pre[at], bhPerturb{Rep: who, K: "restart"})
			}
		}
		g.calls[int(late-1)] = append(g.calls[int(late-1)], probeCall{Back: r.Bool(), Tx: bhTx{K: "probe", F: r.Intn(bhNU), S: fmtReqs(append([]int64{n}, g.some(2)...)), N: int64(r.Intn(2))}})
	}
	for b := 0; b < nb; b++ {
		// probe transactions at various heights
		if b > 0 && r.Chance(40) {
			g.calls[b] = append(g.calls[b], probeCall{Back: r.Bool(), Tx: bhTx{K: "probe", F: r.Intn(bhNU), S: fmtReqs(g.some(1 + r.Intn(5))), N: int64(r.Intn(2))}})
		}
		// perturbations of single replicas
		for rep := 0; rep < nrep; rep++ {
			if !r.Chance(30) {
				continue
			}
			for j, m := 0, 1+r.Intn(3); j < m; j++ {
				g.pre[b] = append(g.pre[b], g.perturb(rep))
			}
		}
		// the same call a transaction of this block makes, as a query on some replica before the block
		for _, c := range g.calls[b] {
			if c.Tx.K == "probe" && b > 0 && r.Chance(50) {
				g.pre[b] = append(g.pre[b], bhPerturb{Rep: r.Intn(nrep), K: []string{"ethcall", "ethcall", "estimategas", "simulate"}[r.Intn(4)], F: c.Tx.F, S: c.Tx.S})
			}
		}
	}
	return g
}

// betweenHeavy (fee-market regime, feeregime.go): the base fee moves in the BeginBlock after a heavy block; between the
// first two of them something that is not a block input happens to one replica -- a restart from the database, or a
// throw-away application that takes a minimum step of its own in the same process.
func (g *procGen) betweenHeavy(heavy map[int]bool) {
	var hs []int
	for b := 0; b < g.nb; b++ {
		if heavy[b] {
			hs = append(hs, b)
		}
	}
	if len(hs) < 2 {
		return
	}
	r := g.r
	at := hs[0] + 2 + r.Intn(hs[1]-hs[0]) // before block index at: hs[0]+2 <= at <= hs[1]+1
	if at >= g.nb {
		at = g.nb - 1
	}
	k := "restart"
	if r.Chance(30) {
		k = "construct"
	}
	g.pre[at] = append(g.pre[at], bhPerturb{Rep: r.Intn(g.nrep), K: k, N: int64(r.Intn(30))})
	g.feeShape = k + "-between-heavy-blocks"
}

// some picks k heights from the pool.
func (g *procGen) some(k int) []int64 {
	var out []int64
	for i := 0; i < k; i++ {
		out = append(out, g.pool[g.r.Intn(len(g.pool))])
	}
	return out
}

var perturbWeights = []struct {
	k string
	w int
}{{"ethcall", 24}, {"estimategas", 6}, {"trace", 5}, {"simulate", 8}, {"bankq", 5}, {"stakingq", 6}, {"evmq", 5},
	{"checktx-next", 14}, {"checktx-junk", 9}, {"restart", 12}, {"construct", 2}}

func (g *procGen) perturb(rep int) bhPerturb {
	r := g.r
	tot := 0
	for _, x := range perturbWeights {
		tot += x.w
	}
	k, x := "ethcall", r.Intn(tot)
	for _, w := range perturbWeights {
		if x < w.w {
			k = w.k
			break
		}
		x -= w.w
	}
	p := bhPerturb{Rep: rep, K: k, F: r.Intn(bhNU), N: int64(r.Intn(30))}
	switch k {
	case "ethcall", "estimategas", "trace", "simulate", "stakingq", "checktx-junk", "checktx-next":
		p.S = fmtReqs(g.some(1 + r.Intn(4)))
	}
	return p
}

func (g *procGen) proc() *procPlan {
	r := g.r
	if r.Chance(25) {
		return &procPlan{Concurrent: true}
	}
	n := g.nrep
	p := &procPlan{}
	perm := make([]int, n)
	for i := range perm {
		perm[i] = i
	}
	for i := n - 1; i > 0; i-- {
		j := r.Intn(i + 1)
		perm[i], perm[j] = perm[j], perm[i]
	}
	p.Order = perm
	if r.Chance(30) {
		p.Extra = make([]int, n)
		p.Extra[r.Intn(n)] = 1 + r.Intn(2)
	}
	return p
}

// front / back: the probe transactions of block b around the generator's own ones
func (g *procGen) front(b int) (out []bhTx) {
	for _, c := range g.calls[b] {
		if !c.Back {
			out = append(out, c.Tx)
		}
	}
	return
}
func (g *procGen) back(b int) (out []bhTx) {
	for _, c := range g.calls[b] {
		if c.Back {
			out = append(out, c.Tx)
		}
	}
	return
}

// ---------------------------------------------------------------- construction
// buildOrder: the order in which the in-process replicas are constructed.
func buildOrder(p *procPlan, nrep int) []int {
	seen := map[int]bool{}
	var out []int
	if p != nil {
		for _, i := range p.Order {
			if i >= 0 && i < nrep && !seen[i] {
				seen[i] = true
				out = append(out, i)
			}
		}
	}
	for i := 0; i < nrep; i++ {
		if !seen[i] {
			out = append(out, i)
		}
	}
	return out
}

// ---------------------------------------------------------------- the model's input
// coqBhCase: (HistoricalEntries, [(context height, requested word, answer non-zero)]) of type bh_case.
func coqBhCase(entries uint32, obs []bhObservation) (string, int) {
	seen := map[string]bool{}
	var items []string
	for _, o := range obs {
		req := coqZ(o.Req)
		if d := new(big.Int).Sub(two256, o.Req); o.Req.BitLen() > 64 && d.IsInt64() {
			req = fmt.Sprintf("(two256 - %s)%%Z", d.String()) // NUMBER - k below zero: a long numeral is slow to parse
		}
		it := fmt.Sprintf("(%s, %s, %s)", coqZi(o.Cur), req, coqBool(o.NonZero))
		if !seen[it] {
			seen[it] = true
			items = append(items, it)
		}
	}
	sort.Strings(items)
	return fmt.Sprintf("(%s, %s)", coqZi(int64(entries)), coqList(items)), len(items)
}

var _ = strings.Join
