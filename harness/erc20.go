package main

// Driver "erc20" (property C10): histories of conversions between a coin and
// its ERC20 representation, through every path the code offers (messages, the
// transfer-to-module EVM hook, the bank MsgSend wrapper, the IBC callbacks),
// against the module's own token contract, the compiled honest / malicious
// Solidity tokens shipped in /repo/contracts and hand-assembled tokens.

import (
	"encoding/json"
	"errors"
	"fmt"
	"math/big"
	"sort"
	"strings"

	sdkmath "cosmossdk.io/math"
	sdk "github.com/cosmos/cosmos-sdk/types"
	sdkerrors "github.com/cosmos/cosmos-sdk/types/errors"
	authtypes "github.com/cosmos/cosmos-sdk/x/auth/types"
	banktypes "github.com/cosmos/cosmos-sdk/x/bank/types"
	distrtypes "github.com/cosmos/cosmos-sdk/x/distribution/types"
	transfertypes "github.com/cosmos/ibc-go/v7/modules/apps/transfer/types"
	clienttypes "github.com/cosmos/ibc-go/v7/modules/core/02-client/types"
	channeltypes "github.com/cosmos/ibc-go/v7/modules/core/04-channel/types"
	"github.com/ethereum/go-ethereum/accounts/abi"
	"github.com/ethereum/go-ethereum/common"
	ethtypes "github.com/ethereum/go-ethereum/core/types"
	"github.com/ethereum/go-ethereum/crypto"

	"github.com/haqq-network/haqq/contracts"
	"github.com/haqq-network/haqq/testutil"
	"github.com/haqq-network/haqq/x/erc20/types"
	"github.com/haqq-network/haqq/x/evm/statedb"
	evmtypes "github.com/haqq-network/haqq/x/evm/types"
)

func init() { register("erc20", erc20Driver) }

// ---------------------------------------------------------------- actors
// 0 erc20 module account   1..3 holders (with keys)   4 the "thief" hard-wired in
// the malicious Solidity tokens (no key: its calls are keeper-level CallEVMs from its
// address, op "spend")   5 the zero address   6 deployer / minter of the
// external tokens   7 the script contract (asm.go): a contract that holds tokens
// and makes a list of calls in one transaction
const (
	pM = iota
	pH1
	pH2
	pH3
	pThief
	pZero
	pDeployer
	pScript
	pegNA
)

var pegKeys = map[int]string{
	pH1:       "b71c71a67e1177ad4e901695e1b4b9ee17ae16c6668d313eac2f96dbcda3f291",
	pH2:       "c87509a1c067bbde78beb793e6fa76530b6382a4c0241e5e4a9ec0a0f44dc0d3",
	pH3:       "ae6ae8e5ccbfb04590405997ee2d52d2b330726137b875053c36d94e974d162f",
	pDeployer: "0dbbe8e4ae425a6d2687f1a7e3ba17bc98c673636790f1b8ad91193c05875ef1",
}

var pegAddr [pegNA]common.Address

func init() {
	pegAddr[pM] = types.ModuleAddress
	for i, k := range pegKeys {
		key, err := crypto.HexToECDSA(k)
		if err != nil {
			panic(err)
		}
		pegAddr[i] = crypto.PubkeyToAddress(key.PublicKey)
	}
	pegAddr[pThief] = common.HexToAddress("0x4dC6ac40Af078661fc43823086E1513635Eeab14")
	pegAddr[pZero] = common.Address{}
	pegAddr[pScript] = common.HexToAddress("0x5C81B70000000000000000000000000000000007")
}

func pegAcc(a int) sdk.AccAddress { return sdk.AccAddress(pegAddr[a].Bytes()) }

// ---------------------------------------------------------------- token kinds
// index = the number the Coq model uses
var pegKinds = []string{"coin", "honest", "siphon", "approve", "const", "fakelog", "cham"}

func pegKindIdx(k string) int {
	for i, n := range pegKinds {
		if n == k {
			return i
		}
	}
	return -1
}

// cham (hand-assembled, configurable) modes
const (
	chHonest   = 0
	chFake     = 1 // transfer: Transfer log + true, nothing moves
	chFalse    = 2 // transfer: returns false, nothing happens
	chApproval = 3 // honest transfer + an Approval log
	chInflate  = 4 // credits the recipient without debiting the caller
	chLog0     = 5 // honest transfer + a log without topics
	chNoRet    = 6 // honest transfer, no return data
	chRevert   = 7 // transfer always reverts
	chNModes   = 8
)

const (
	topicTransfer = "0xddf252ad1be2c89b69c2b068fc378daa952ba7f163c4a11628f55a4df523b3ef"
	topicApproval = "0x8c5be1e5ebec7d5bd14f71427d1e84f3dd0314c0f7b2291e5b200ac8c7c3b925"
	slotTotal     = "0x10000000000000000000000000000000000000000"
	slotMode      = "0x10000000000000000000000000000000000000001"
	selSetMode    = "0xaa000001"
	selKill       = "0xaa000002"
)

func strWord(s string) string { // left-aligned 32-byte word
	b := make([]byte, 32)
	copy(b, s)
	return "0x" + common.Bytes2Hex(b)
}

func retString(s string) string {
	return fmt.Sprintf(" 0x20 0 MSTORE %d 0x20 MSTORE %s 0x40 MSTORE 0x60 0 RETURN ", len(s), strWord(s))
}

// chamAsm: an ERC20 with a real ledger (balance of a = storage slot a, total
// supply = slot 2^160) whose transfer() behaves according to a mode word
// (slot 2^160+1) that anybody may set: "honest N times, then lies".
var chamAsm = `
  0 CALLDATALOAD 0xE0 SHR
  DUP1 0x70a08231 EQ @balanceOf JUMPI
  DUP1 0xa9059cbb EQ @transfer JUMPI
  DUP1 0x18160ddd EQ @totalSupply JUMPI
  DUP1 0x40c10f19 EQ @mint JUMPI
  DUP1 0x42966c68 EQ @burn JUMPI
  DUP1 ` + selSetMode + ` EQ @setmode JUMPI
  DUP1 ` + selKill + ` EQ @kill JUMPI
  DUP1 0x06fdde03 EQ @name JUMPI
  DUP1 0x95d89b41 EQ @symbol JUMPI
  DUP1 0x313ce567 EQ @decimals JUMPI
  STOP
balanceOf:
  4 CALLDATALOAD SLOAD 0 MSTORE 0x20 0 RETURN
totalSupply:
  ` + slotTotal + ` SLOAD 0 MSTORE 0x20 0 RETURN
decimals:
  18 0 MSTORE 0x20 0 RETURN
name:
  ` + retString("Chameleon") + `
symbol:
  ` + retString("CHAM") + `
setmode:
  4 CALLDATALOAD ` + slotMode + ` SSTORE STOP
kill:
  CALLER SELFDESTRUCT
mint:
  36 CALLDATALOAD 4 CALLDATALOAD SLOAD ADD 4 CALLDATALOAD SSTORE
  36 CALLDATALOAD ` + slotTotal + ` SLOAD ADD ` + slotTotal + ` SSTORE
  36 CALLDATALOAD 0 MSTORE
  4 CALLDATALOAD 0 ` + topicTransfer + ` 0x20 0 LOG3
  STOP
burn:
  CALLER SLOAD 4 CALLDATALOAD
  DUP2 DUP2 GT @revert JUMPI
  SWAP1 SUB CALLER SSTORE
  4 CALLDATALOAD ` + slotTotal + ` SLOAD SUB ` + slotTotal + ` SSTORE
  4 CALLDATALOAD 0 MSTORE
  0 CALLER ` + topicTransfer + ` 0x20 0 LOG3
  STOP
revert:
  0 0 REVERT
transfer:
  POP
  ` + slotMode + ` SLOAD
  DUP1 1 EQ @t_log JUMPI
  DUP1 2 EQ @t_false JUMPI
  DUP1 7 EQ @revert JUMPI
  DUP1 4 EQ @t_credit JUMPI
  CALLER SLOAD 36 CALLDATALOAD
  DUP2 DUP2 GT @revert JUMPI
  SWAP1 SUB CALLER SSTORE
t_credit:
  36 CALLDATALOAD 4 CALLDATALOAD SLOAD ADD 4 CALLDATALOAD SSTORE
t_log:
  36 CALLDATALOAD 0 MSTORE
  4 CALLDATALOAD CALLER ` + topicTransfer + ` 0x20 0 LOG3
  DUP1 3 EQ @t_appr JUMPI
  DUP1 5 EQ @t_log0 JUMPI
  DUP1 6 EQ @t_stop JUMPI
t_true:
  1 0 MSTORE 0x20 0 RETURN
t_false:
  0 0 MSTORE 0x20 0 RETURN
t_stop:
  STOP
t_appr:
  4 CALLDATALOAD CALLER ` + topicApproval + ` 0x20 0 LOG3
  @t_true JUMP
t_log0:
  0 0 LOG0
  @t_true JUMP
`

// constAsm: balanceOf and totalSupply answer 777, transfer answers true; nothing else.
var constAsm = `
  0 CALLDATALOAD 0xE0 SHR
  DUP1 0x70a08231 EQ @c777 JUMPI
  DUP1 0x18160ddd EQ @c777 JUMPI
  DUP1 0xa9059cbb EQ @ctrue JUMPI
  STOP
c777:
  777 0 MSTORE 0x20 0 RETURN
ctrue:
  1 0 MSTORE 0x20 0 RETURN
`

// fakeLogAsm (finding K7): whatever is called, emit Transfer(caller, erc20 module, 1000).
func fakeLogAsm() string {
	return `1000 0 MSTORE 0x` + common.Bytes2Hex(types.ModuleAddress.Bytes()) + ` CALLER ` + topicTransfer + ` 0x20 0 LOG3 STOP`
}

// fakeXferAsm: an (unregistered) token without a ledger: transfer(to, x) emits Transfer(caller, to, x),
// transferFrom(from, to, x) emits Transfer(from, to, x), both answer true and move nothing; balanceOf and
// totalSupply answer 0; every other selector (burn(uint256) included) succeeds silently.
var fakeXferAsm = `
  0 CALLDATALOAD 0xE0 SHR
  DUP1 0xa9059cbb EQ @f_transfer JUMPI
  DUP1 0x23b872dd EQ @f_transferFrom JUMPI
  DUP1 0x70a08231 EQ @f_zero JUMPI
  DUP1 0x18160ddd EQ @f_zero JUMPI
  STOP
f_zero:
  0 0 MSTORE 0x20 0 RETURN
f_transfer:
  36 CALLDATALOAD 0 MSTORE
  4 CALLDATALOAD CALLER ` + topicTransfer + ` 0x20 0 LOG3
  1 0 MSTORE 0x20 0 RETURN
f_transferFrom:
  68 CALLDATALOAD 0 MSTORE
  36 CALLDATALOAD 4 CALLDATALOAD ` + topicTransfer + ` 0x20 0 LOG3
  1 0 MSTORE 0x20 0 RETURN
`

var pegInitSupply, _ = new(big.Int).SetString("1000000000000000000000000", 10) // constructor mint of the two malicious Solidity tokens
var maxU256 = new(big.Int).Sub(new(big.Int).Lsh(big.NewInt(1), 256), big.NewInt(1))

// ---------------------------------------------------------------- environment
type pegPair struct {
	Kind     string
	Denom    string
	Contract common.Address
	OwnerMod bool
}

type pegEnv struct {
	*Env
	pairs map[string]*pegPair // by kind, plus the other token contracts (pegByNames)
	abi   abi.ABI
	// the logs of the receipt of the last successful Ethereum transaction
	lastLogs []*evmtypes.Log
}

var pegBase *pegEnv

const pegByScript = 600 // tokens of each bystander pair held by the script contract in the base state

// the other token contracts a script transaction can also call (pegCall.T - 1 = index; the Coq model's
// contract id = pegCall.T): two registered and enabled pairs (coin-origin, token-origin), a registered but
// DISABLED coin-origin pair, an UNREGISTERED honest ERC20 (the compiled ERC20MinterBurnerDecimals: it has
// burn(uint256)), an UNREGISTERED hand-assembled token that only emits Transfer logs
var pegByNames = []string{"by-coin", "by-ext", "by-dis", "unreg", "fake"}

const (
	pegNBy  = 5
	pegFake = 5 // pegCall.T of the log-only token
)

const (
	pegSrcChannel = "channel-292"
	pegDstChannel = "channel-0"
)

func pegVoucher(base string) string {
	return transfertypes.ParseDenomTrace(transfertypes.GetDenomPrefix(transfertypes.PortID, pegDstChannel) + base).IBCDenom()
}

func pegMetadata(base, name string) banktypes.Metadata {
	return banktypes.Metadata{
		Description: "IBC voucher " + name,
		Base:        base,
		DenomUnits:  []*banktypes.DenomUnit{{Denom: base, Exponent: 0}, {Denom: name, Exponent: 6}},
		Name:        base, Symbol: strings.ToUpper(name), Display: name,
	}
}

func (e *pegEnv) deploy(from int, code []byte) common.Address {
	k := e.App.Erc20Keeper
	nonce := e.App.EvmKeeper.GetNonce(e.Ctx, pegAddr[from])
	if _, err := k.CallEVMWithData(e.Ctx, pegAddr[from], nil, code, true); err != nil {
		panic(fmt.Sprintf("deploy: %v", err))
	}
	return crypto.CreateAddress(pegAddr[from], nonce)
}

func (e *pegEnv) install(addr common.Address, code []byte) {
	k := e.App.EvmKeeper
	h := crypto.Keccak256Hash(code)
	k.SetCode(e.Ctx, h.Bytes(), code)
	if err := k.SetAccount(e.Ctx, addr, statedb.Account{Nonce: 1, Balance: big.NewInt(0), CodeHash: h.Bytes()}); err != nil {
		panic(err)
	}
}

func (e *pegEnv) registerRaw(kind string, c common.Address) *pegPair {
	k := e.App.Erc20Keeper
	pair := types.NewTokenPair(c, types.CreateDenom(c.String()), types.OWNER_EXTERNAL)
	k.SetTokenPair(e.Ctx, pair)
	k.SetDenomMap(e.Ctx, pair.Denom, pair.GetID())
	k.SetERC20Map(e.Ctx, c, pair.GetID())
	return &pegPair{Kind: kind, Denom: pair.Denom, Contract: c}
}

func (e *pegEnv) registerERC20(kind string, c common.Address) *pegPair {
	pair, err := e.App.Erc20Keeper.RegisterERC20(e.Ctx, c)
	if err != nil {
		panic(fmt.Sprintf("RegisterERC20 %s: %v", kind, err))
	}
	return &pegPair{Kind: kind, Denom: pair.Denom, Contract: pair.GetERC20Contract()}
}

func (e *pegEnv) registerCoin(kind, base, name string) *pegPair {
	// a coin can only be registered once it has supply: the first voucher lives on a far-away account
	far := sdk.AccAddress(common.HexToAddress("0xFA00000000000000000000000000000000000001").Bytes())
	if err := testutil.FundAccount(e.Ctx, e.App.BankKeeper, far, sdk.NewCoins(sdk.NewInt64Coin(base, 1))); err != nil {
		panic(err)
	}
	pair, err := e.App.Erc20Keeper.RegisterCoin(e.Ctx, pegMetadata(base, name))
	if err != nil {
		panic(fmt.Sprintf("RegisterCoin %s: %v", kind, err))
	}
	return &pegPair{Kind: kind, Denom: pair.Denom, Contract: pair.GetERC20Contract(), OwnerMod: true}
}

func pegBaseEnv() *pegEnv {
	if pegBase != nil {
		return pegBase
	}
	opcodes["SHR"] = 0x1c
	b := evmBaseEnv() // real app, chain id set, proposer set, infinite gas meter
	e := &pegEnv{Env: b.fork().Env, pairs: map[string]*pegPair{}, abi: contracts.ERC20MinterBurnerDecimalsContract.ABI}
	// accounts for every key holder (sequence lookups need them)
	for _, a := range []int{pH1, pH2, pH3, pDeployer, pThief, pZero} {
		if err := e.App.EvmKeeper.SetAccount(e.Ctx, pegAddr[a], statedb.Account{Nonce: 0, Balance: big.NewInt(0), CodeHash: evmtypes.EmptyCodeHash}); err != nil {
			panic(err)
		}
	}
	// the script contract: whoever sends it a transaction makes it execute the calls in the calldata
	e.install(pegAddr[pScript], scriptCode)
	// coin-origin pairs: the module deploys its own ERC20MinterBurnerDecimals
	e.pairs["coin"] = e.registerCoin("coin", pegVoucher("uatom"), "atom")
	e.pairs["by-coin"] = e.registerCoin("by-coin", pegVoucher("uosmo"), "osmo")
	// token-origin pairs
	ctor := func(c evmtypes.CompiledContract, args ...interface{}) []byte {
		a, err := c.ABI.Pack("", args...)
		if err != nil {
			panic(err)
		}
		return append(append([]byte{}, c.Bin...), a...)
	}
	honest := e.deploy(pDeployer, ctor(contracts.ERC20MinterBurnerDecimalsContract, "Honest", "HON", uint8(18)))
	e.pairs["honest"] = e.registerERC20("honest", honest)
	by := e.deploy(pDeployer, ctor(contracts.ERC20MinterBurnerDecimalsContract, "Bystander", "BYS", uint8(6)))
	e.pairs["by-ext"] = e.registerERC20("by-ext", by)
	e.pairs["siphon"] = e.registerERC20("siphon", e.deploy(pDeployer, ctor(contracts.ERC20DirectBalanceManipulationContract, pegInitSupply)))
	e.pairs["approve"] = e.registerERC20("approve", e.deploy(pDeployer, ctor(contracts.ERC20MaliciousDelayedContract, pegInitSupply)))
	chamAddr := common.HexToAddress("0xC4A0000000000000000000000000000000000001")
	e.install(chamAddr, assemble(chamAsm))
	e.pairs["cham"] = e.registerERC20("cham", chamAddr) // answers name()/symbol()/decimals(): registered by the real RegisterERC20
	constAddr := common.HexToAddress("0xC0A5000000000000000000000000000000000002")
	e.install(constAddr, assemble(constAsm))
	e.pairs["const"] = e.registerRaw("const", constAddr)
	fakeAddr := common.HexToAddress("0xFA4E000000000000000000000000000000000003")
	e.install(fakeAddr, assemble(fakeLogAsm()))
	e.pairs["fakelog"] = e.registerRaw("fakelog", fakeAddr)
	// the bystander pairs carry some converted funds so that a leak would show
	hp := e.pairs["by-ext"]
	e.mustEth(pDeployer, hp.Contract, e.pack("mint", pegAddr[pH1], big.NewInt(5000)))
	if _, err := e.runMsg(types.NewMsgConvertERC20(sdkmath.NewInt(3000), pegAcc(pH1), hp.Contract, pegAddr[pH1])); err != nil {
		panic(err)
	}
	cp := e.pairs["by-coin"]
	if err := testutil.FundAccount(e.Ctx, e.App.BankKeeper, pegAcc(pH1), sdk.NewCoins(sdk.NewInt64Coin(cp.Denom, 7000))); err != nil {
		panic(err)
	}
	if _, err := e.runMsg(types.NewMsgConvertCoin(sdk.NewInt64Coin(cp.Denom, 4000), pegAddr[pH2], pegAcc(pH1))); err != nil {
		panic(err)
	}
	// the script contract holds tokens of both bystander pairs: a transaction can touch two pairs
	e.mustEth(pDeployer, hp.Contract, e.pack("mint", pegAddr[pScript], big.NewInt(pegByScript)))
	if _, err := e.runMsg(types.NewMsgConvertCoin(sdk.NewInt64Coin(cp.Denom, pegByScript), pegAddr[pScript], pegAcc(pH1))); err != nil {
		panic(err)
	}
	// every holder owns tokens of both pairs (transferFrom by the script contract)
	for _, h := range []int{pH2, pH3} {
		e.mustEth(pDeployer, hp.Contract, e.pack("mint", pegAddr[h], big.NewInt(800)))
	}
	for _, h := range []int{pH1, pH3} {
		if _, err := e.runMsg(types.NewMsgConvertCoin(sdk.NewInt64Coin(cp.Denom, 500), pegAddr[h], pegAcc(pH1))); err != nil {
			panic(err)
		}
	}
	// a registered coin-origin pair with converted funds whose conversion is then DISABLED
	dp := e.registerCoin("by-dis", pegVoucher("ujuno"), "juno")
	e.pairs["by-dis"] = dp
	if err := testutil.FundAccount(e.Ctx, e.App.BankKeeper, pegAcc(pH1), sdk.NewCoins(sdk.NewInt64Coin(dp.Denom, 5000))); err != nil {
		panic(err)
	}
	for _, h := range []int{pH1, pH2, pH3, pScript} {
		if _, err := e.runMsg(types.NewMsgConvertCoin(sdk.NewInt64Coin(dp.Denom, int64(600+100*(h%4))), pegAddr[h], pegAcc(pH1))); err != nil {
			panic(err)
		}
	}
	if _, err := e.App.Erc20Keeper.ToggleConversion(e.Ctx, dp.Denom); err != nil {
		panic(err)
	}
	// an honest ERC20 (same compiled contract: it has burn(uint256)) that is NOT registered
	un := e.deploy(pDeployer, ctor(contracts.ERC20MinterBurnerDecimalsContract, "Unregistered", "UNR", uint8(18)))
	e.pairs["unreg"] = &pegPair{Kind: "unreg", Denom: types.CreateDenom(un.String()), Contract: un}
	for _, h := range []int{pH1, pH2, pH3, pScript} {
		e.mustEth(pDeployer, un, e.pack("mint", pegAddr[h], big.NewInt(int64(700+100*(h%4)))))
	}
	// a hand-assembled token that only emits Transfer logs, NOT registered
	fk := common.HexToAddress("0xFA4E000000000000000000000000000000000005")
	e.install(fk, assemble(fakeXferAsm))
	e.pairs["fake"] = &pegPair{Kind: "fake", Denom: types.CreateDenom(fk.String()), Contract: fk}
	// the holders allow the script contract to move their tokens (infinite allowance: OpenZeppelin's
	// transferFrom then neither lowers it nor emits an Approval event)
	for _, name := range []string{"by-coin", "by-ext", "by-dis", "unreg"} {
		for _, h := range []int{pH1, pH2, pH3} {
			e.mustEth(h, e.pairs[name].Contract, e.pack("approve", pegAddr[pScript], maxU256))
		}
	}
	pegBase = e
	return e
}

func (b *pegEnv) fork() *pegEnv {
	cctx, _ := b.Ctx.CacheContext()
	return &pegEnv{Env: &Env{App: b.App, Ctx: cctx, ValPub: b.ValPub}, pairs: b.pairs, abi: b.abi}
}

func (e *pegEnv) pack(method string, args ...interface{}) []byte {
	d, err := e.abi.Pack(method, args...)
	if err != nil {
		panic(err)
	}
	return d
}

// ethTx runs one signed Ethereum transaction through EvmKeeper.ApplyTransaction
// (so that PostTxProcessing hooks run) on a cache of the case's context which is
// written back unless the keeper returned an error or panicked.
func (e *pegEnv) ethTx(from int, to common.Address, data []byte) (ok bool, errStr string) {
	keyHex, has := pegKeys[from]
	if !has {
		return false, "nokey"
	}
	key, _ := crypto.HexToECDSA(keyHex)
	k := e.App.EvmKeeper
	cctx, write := e.Ctx.CacheContext()
	cctx = cctx.WithGasMeter(sdk.NewInfiniteGasMeter())
	defer func() {
		if r := recover(); r != nil {
			ok, errStr = false, fmt.Sprintf("panic: %v", r)
		}
	}()
	nonce := k.GetNonce(cctx, pegAddr[from])
	tx := ethtypes.NewTx(&ethtypes.LegacyTx{Nonce: nonce, GasPrice: big.NewInt(0), Gas: 30_000_000, To: &to, Value: big.NewInt(0), Data: data})
	stx, err := ethtypes.SignTx(tx, ethtypes.LatestSignerForChainID(k.ChainID()), key)
	if err != nil {
		panic(err)
	}
	res, err := k.ApplyTransaction(cctx, stx)
	if err != nil {
		return false, "error: " + err.Error()
	}
	write()
	e.lastLogs = nil
	if !res.Failed() {
		e.lastLogs = res.Logs
	}
	return !res.Failed(), res.VmError
}

func (e *pegEnv) mustEth(from int, to common.Address, data []byte) {
	if ok, s := e.ethTx(from, to, data); !ok {
		panic("eth tx failed: " + s)
	}
}

// ---------------------------------------------------------------- input
type pegOp struct {
	Op   string `json:"op"`             // fund rawsend cc ce eth send toggle params recv ack timeout ibcsend batch spend
	A    int    `json:"a,omitempty"`    // sender / caller / escrow holder; spend: the OWNER of the tokens (0 = the erc20 module account)
	B    int    `json:"b,omitempty"`    // receiver
	X    string `json:"x,omitempty"`    // amount
	Call string `json:"call,omitempty"` // eth: transfer burn mint mode kill other
	M    int    `json:"m,omitempty"`    // eth mode: new mode
	F    bool   `json:"f,omitempty"`    // recv/ack/timeout: the ICS-20 layer mints (voucher) instead of un-escrowing from A; ack: see S
	S    bool   `json:"s,omitempty"`    // ack: acknowledgement is a success; recv: packet sender is a module account
	E    bool   `json:"e,omitempty"`    // params: EnableErc20
	H    bool   `json:"h,omitempty"`    // params: EnableEVMHook
	// batch: ONE Ethereum transaction signed by A to the script contract, which makes these calls in order
	Calls []pegCall `json:"calls,omitempty"`
	// how the STRING fields of the message are spelled (0 = as the chain prints them; see pegSpellHex,
	// pegSpellBech, pegSpellToken): SC the contract address / token identifier (ce, toggle, ibcsend),
	// SA the sender (cc, send, ibcsend: bech32; ce: hex), SB the receiver (cc: hex; ce, send, recv: bech32;
	// ack, timeout: the packet's sender, the refunded account B)
	SC int `json:"sc,omitempty"`
	SA int `json:"sa,omitempty"`
	SB int `json:"sb,omitempty"`
}

// ---------------------------------------------------------------- spellings
// Equivalent spellings of the same address / token identifier.  The numbers are the ones of the Coq model
// (PegModel.v, record spell).
var (
	pegHexNames   = []string{"eip55", "lower", "upper", "wrong-checksum", "lower-no0x", "eip55-no0x", "0X-upper", "not-an-address"}
	pegBechNames  = []string{"lower", "upper", "other-prefix", "hex", "mixed-case"}
	pegTokenNames = []string{"denom", "eip55", "lower", "upper", "wrong-checksum", "lower-no0x", "eip55-no0x", "0X-upper", "not-an-address", "denom-other-case"}
)

func pegNorm(k, n int) int { // any out-of-range number means the last (refused) spelling of the family
	if k < 0 || k >= n {
		return n - 1
	}
	return k
}

func swapCase(s string) string {
	b := []byte(s)
	for i, c := range b {
		switch {
		case c >= 'a' && c <= 'z':
			b[i] = c - 'a' + 'A'
		case c >= 'A' && c <= 'Z':
			b[i] = c - 'A' + 'a'
		}
	}
	return string(b)
}

// pegSpellHex: a 20-byte address as a hex string.  common.IsHexAddress accepts 40 hex digits in any letter
// case with an optional 0x / 0X; common.HexToAddress resolves all of them to the same address.
func pegSpellHex(a common.Address, k int) string {
	h := a.Hex() // EIP-55 with 0x
	body := h[2:]
	switch pegNorm(k, len(pegHexNames)) {
	case 0:
		return h
	case 1:
		return "0x" + strings.ToLower(body)
	case 2:
		return "0x" + strings.ToUpper(body)
	case 3:
		return "0x" + swapCase(body)
	case 4:
		return strings.ToLower(body)
	case 5:
		return body
	case 6:
		return "0X" + strings.ToUpper(body)
	}
	return h[:40] // 38 hex digits
}

// pegSpellBech: an account address as a bech32 string.  BIP-173: all lower case or all upper case.
func pegSpellBech(a sdk.AccAddress, k int) string {
	lo := a.String()
	switch pegNorm(k, len(pegBechNames)) {
	case 0:
		return lo
	case 1:
		return strings.ToUpper(lo)
	case 2:
		return pegRemoteBech32(a)
	case 3:
		return common.BytesToAddress(a.Bytes()).Hex()
	}
	return strings.ToUpper(lo[:8]) + lo[8:]
}

// pegSpellToken: the `token` of ToggleConversion / the TokenPair query: the pair's denomination or its
// contract address in any hex spelling.  Denominations are case sensitive: the last spelling is ANOTHER
// (unregistered) denomination.
func pegSpellToken(p *pegPair, k int) string {
	k = pegNorm(k, len(pegTokenNames))
	switch {
	case k == 0:
		return p.Denom
	case k <= len(pegHexNames):
		return pegSpellHex(p.Contract, k-1)
	}
	i := strings.Index(p.Denom, "/")
	if alt := p.Denom[:i+1] + strings.ToLower(p.Denom[i+1:]); alt != p.Denom {
		return alt
	}
	return p.Denom[:i+1] + strings.ToUpper(p.Denom[i+1:])
}

// spelled: does the op carry a string field in a non-canonical spelling?
func (op pegOp) spelled() bool { return op.SC != 0 || op.SA != 0 || op.SB != 0 }

// pegSpellFields: the string fields of an op: family ("hex", "bech", "token") of SC, SA, SB ("" = no such field)
func pegSpellFields(o string) (c, a, b string) {
	switch o {
	case "cc":
		return "", "bech", "hex"
	case "ce":
		return "hex", "hex", "bech"
	case "send":
		return "", "bech", "bech"
	case "ibcsend":
		return "token", "bech", ""
	case "toggle":
		return "token", "", ""
	case "recv", "ack", "timeout":
		return "", "", "bech"
	}
	return "", "", ""
}

func pegSpellName(fam string, k int) string {
	switch fam {
	case "hex":
		return pegHexNames[pegNorm(k, len(pegHexNames))]
	case "bech":
		return pegBechNames[pegNorm(k, len(pegBechNames))]
	case "token":
		return pegTokenNames[pegNorm(k, len(pegTokenNames))]
	}
	return ""
}

// canonicalSpelling: the same op with every string field as the chain prints it
func (op pegOp) canonicalSpelling() pegOp {
	op.SC, op.SA, op.SB = 0, 0, 0
	return op
}

// normSpelling: spellings of fields the op does not have are dropped, out-of-range numbers are mapped to
// the family's last spelling (what apply does with them)
func (op pegOp) normSpelling() pegOp {
	c, a, b := pegSpellFields(op.Op)
	n := func(fam string, k int) int {
		switch fam {
		case "hex":
			return pegNorm(k, len(pegHexNames))
		case "bech":
			return pegNorm(k, len(pegBechNames))
		case "token":
			return pegNorm(k, len(pegTokenNames))
		}
		return 0
	}
	op.SC, op.SA, op.SB = n(c, op.SC), n(a, op.SA), n(b, op.SB)
	return op
}

// pegSpellingSurelyAccepted: spellings about which there is no doubt that the chain has to take them for
// the same address: every hex spelling of 40 digits (letter case, checksum, 0x / 0X / no prefix; go-ethereum
// IsHexAddress / HexToAddress) and the lower-case bech32 string; the pair's denomination or its contract
// address for a token.  (Upper-case bech32 and foreign prefixes are left to the correspondence.)
func (op pegOp) pegSpellingSurelyAccepted() bool {
	c, a, b := pegSpellFields(op.Op)
	ok := func(fam string, k int) bool {
		switch fam {
		case "hex":
			return k >= 0 && k <= 6
		case "bech":
			return k == 0
		case "token":
			return k >= 0 && k <= 7
		}
		return true
	}
	return ok(c, op.SC) && ok(a, op.SA) && ok(b, op.SB)
}

// pegCall: one CALL of the script contract: token.transfer(to, x).
type pegCall struct {
	T     int    `json:"t,omitempty"`     // token contract: 0 the pair's own token; 1..5 = by-coin, by-ext, by-dis (disabled pair), unreg (unregistered honest ERC20), fake (unregistered, logs only); calls with T > 0 are always tolerated
	F     int    `json:"f,omitempty"`     // T > 0 only: 0 = token.transfer(to, x) of the contract's own tokens; 1..3 = token.transferFrom(holder F, to, x)
	To    int    `json:"to,omitempty"`    // recipient (0 = the erc20 module address)
	X     string `json:"x,omitempty"`     // amount
	Catch bool   `json:"catch,omitempty"` // a reverting call is tolerated; otherwise the whole transaction reverts
}

// from: the actor whose tokens the call moves (the `from` of the Transfer log)
func (c pegCall) from() int {
	if c.T > 0 && c.F >= pH1 && c.F <= pH3 {
		return c.F
	}
	return pScript
}

type pegInput struct {
	Kind string  `json:"kind"`
	Ops  []pegOp `json:"ops"`
}

// ---------------------------------------------------------------- observation
type pegSnap struct {
	Reg, En    bool
	Erc20On    bool
	HookOn     bool
	Coin       [pegNA]*big.Int
	Supply     *big.Int
	Tok        [pegNA]*big.Int // nil = balanceOf did not answer a uint256
	Total      *big.Int        // nil = totalSupply did not answer
	IsContract bool
	Others     string // digest of everything that must not move: bystander pairs, the base denom
	idxNote    string
	By         [pegNBy]pegBy // the other token contracts (pegByNames)
	Base       string   // balances in the base denomination
}

// pegBy: the observable state of a bystander pair
type pegBy struct {
	Reg, En, Code bool // as the real registry / account keeper report them
	Supply, Total *big.Int
	Coin, Tok     [pegNA]*big.Int
}

func (b *pegBy) clone() pegBy {
	cp := func(x *big.Int) *big.Int {
		if x == nil {
			return nil
		}
		return new(big.Int).Set(x)
	}
	c := pegBy{Reg: b.Reg, En: b.En, Code: b.Code, Supply: cp(b.Supply), Total: cp(b.Total)}
	for a := 0; a < pegNA; a++ {
		c.Coin[a], c.Tok[a] = cp(b.Coin[a]), cp(b.Tok[a])
	}
	return c
}

// diff: the first observable in which the pair's state `got` differs from what the property demands (`b`)
func (b *pegBy) diff(got *pegBy) string {
	switch {
	case b.Reg != got.Reg || b.En != got.En || b.Code != got.Code:
		return fmt.Sprintf("registered/enabled/code are %v/%v/%v, the property demands %v/%v/%v", got.Reg, got.En, got.Code, b.Reg, b.En, b.Code)
	case !bigEq(b.Supply, got.Supply):
		return fmt.Sprintf("coin supply is %v, the property demands %v", got.Supply, b.Supply)
	case !bigEq(b.Total, got.Total):
		return fmt.Sprintf("token totalSupply is %v, the property demands %v", got.Total, b.Total)
	}
	for a := 0; a < pegNA; a++ {
		if !bigEq(b.Coin[a], got.Coin[a]) {
			return fmt.Sprintf("coin balance of actor %d is %v, the property demands %v", a, got.Coin[a], b.Coin[a])
		}
		if !bigEq(b.Tok[a], got.Tok[a]) {
			return fmt.Sprintf("token balance of actor %d is %v, the property demands %v", a, got.Tok[a], b.Tok[a])
		}
	}
	return ""
}

func pegOthers(note string, by *[pegNBy]pegBy, base string) string {
	parts := []string{}
	for i, name := range pegByNames {
		q := &by[i]
		parts = append(parts, fmt.Sprintf("%s:reg=%v,en=%v,code=%v,supply=%s,total=%v", name, q.Reg, q.En, q.Code, q.Supply, q.Total))
		for a := 0; a < pegNA; a++ {
			parts = append(parts, fmt.Sprintf("%s/%v", q.Coin[a], q.Tok[a]))
		}
	}
	parts = append(parts, base)
	return note + strings.Join(parts, " ")
}

func (e *pegEnv) callView(c common.Address, method string, args ...interface{}) *big.Int {
	res, err := e.App.Erc20Keeper.CallEVM(e.Ctx, e.abi, types.ModuleAddress, c, false, method, args...)
	if err != nil {
		return nil
	}
	out, err := e.abi.Unpack(method, res.Ret)
	if err != nil || len(out) == 0 {
		return nil
	}
	v, ok := out[0].(*big.Int)
	if !ok {
		return nil
	}
	return v
}

func (e *pegEnv) snapshot(p *pegPair) pegSnap {
	var s pegSnap
	ek := e.App.Erc20Keeper
	prm := ek.GetParams(e.Ctx)
	s.Erc20On, s.HookOn = prm.EnableErc20, prm.EnableEVMHook
	id := ek.GetTokenPairID(e.Ctx, p.Denom)
	if len(id) > 0 {
		if tp, found := ek.GetTokenPair(e.Ctx, id); found {
			s.Reg, s.En = true, tp.Enabled
		}
	}
	// the three indexes must agree
	if s.Reg != ek.IsERC20Registered(e.Ctx, p.Contract) || s.Reg != ek.IsDenomRegistered(e.Ctx, p.Denom) {
		s.idxNote += "pair indexes disagree;"
	}
	// the TokenPair query answers the same whatever way the token is identified: by the denomination or by
	// the contract address in any hex spelling (not found for all of them when the pair is not registered)
	for k := 0; k <= 7; k++ {
		tok := pegSpellToken(p, k)
		qr, err := ek.TokenPair(sdk.WrapSDKContext(e.Ctx), &types.QueryTokenPairRequest{Token: tok})
		switch {
		case s.Reg && (err != nil || qr == nil || qr.TokenPair.Denom != p.Denom || qr.TokenPair.GetERC20Contract() != p.Contract || qr.TokenPair.Enabled != s.En):
			s.idxNote += fmt.Sprintf("TokenPair query by %s (%s) does not answer the registered pair (%v);", pegTokenNames[k], tok, err)
		case !s.Reg && err == nil:
			s.idxNote += fmt.Sprintf("TokenPair query by %s (%s) answers a pair that is not registered;", pegTokenNames[k], tok)
		}
	}
	for a := 0; a < pegNA; a++ {
		s.Coin[a] = e.App.BankKeeper.GetBalance(e.Ctx, pegAcc(a), p.Denom).Amount.BigInt()
		s.Tok[a] = e.callView(p.Contract, "balanceOf", pegAddr[a])
	}
	s.Supply = e.App.BankKeeper.GetSupply(e.Ctx, p.Denom).Amount.BigInt()
	s.Total = e.callView(p.Contract, "totalSupply")
	acc := e.App.EvmKeeper.GetAccountWithoutBalance(e.Ctx, p.Contract)
	s.IsContract = acc != nil && acc.IsContract()
	// frame
	for i, name := range pegByNames {
		q := e.pairs[name]
		b := &s.By[i]
		if qid := ek.GetERC20Map(e.Ctx, q.Contract); len(qid) > 0 {
			if tp, found := ek.GetTokenPair(e.Ctx, qid); found {
				b.Reg, b.En = true, tp.Enabled
			}
		}
		qacc := e.App.EvmKeeper.GetAccountWithoutBalance(e.Ctx, q.Contract)
		b.Code = qacc != nil && qacc.IsContract()
		b.Supply = e.App.BankKeeper.GetSupply(e.Ctx, q.Denom).Amount.BigInt()
		b.Total = e.callView(q.Contract, "totalSupply")
		for a := 0; a < pegNA; a++ {
			b.Coin[a] = e.App.BankKeeper.GetBalance(e.Ctx, pegAcc(a), q.Denom).Amount.BigInt()
			b.Tok[a] = e.callView(q.Contract, "balanceOf", pegAddr[a])
		}
	}
	parts := []string{}
	for a := 0; a < pegNA; a++ {
		parts = append(parts, e.App.BankKeeper.GetBalance(e.Ctx, pegAcc(a), "aISLM").Amount.String())
	}
	s.Base = strings.Join(parts, " ")
	s.Others = pegOthers(s.idxNote, &s.By, s.Base)
	return s
}

func pegErrCode(err error) int {
	switch {
	case err == nil:
		return 0
	case errors.Is(err, types.ErrERC20Disabled), errors.Is(err, types.ErrERC20TokenPairDisabled):
		return 1
	case errors.Is(err, types.ErrTokenPairNotFound):
		return 2
	case errors.Is(err, sdkerrors.ErrUnauthorized):
		return 3
	case errors.Is(err, types.ErrBalanceInvariance):
		return 6
	case errors.Is(err, types.ErrUnexpectedEvent):
		return 7
	case errors.Is(err, sdkerrors.ErrLogic):
		return 8
	case errors.Is(err, sdkerrors.ErrInsufficientFunds), errors.Is(err, sdkerrors.ErrInvalidCoins):
		return 4
	}
	// reverts inside a module call surface untyped (gas estimation) or typed (the call itself), a failed
	// balance query as ErrEVMCall, an undecodable answer as an ABI error, a panic as a string: one code
	return 9
}

// ---------------------------------------------------------------- running one op
func pegAmt(s string) *big.Int {
	if s == "" {
		return big.NewInt(0)
	}
	v, ok := new(big.Int).SetString(s, 10)
	if !ok {
		panic("bad amount " + s)
	}
	return v
}

func pegCoin(denom string, x *big.Int) sdk.Coin {
	return sdk.Coin{Denom: denom, Amount: sdkmath.NewIntFromBigInt(x)}
}

var errPegRefused = errors.New("refused by the harness (outside the modelled environment)")

// cached runs f on a cache of the case's context and writes it back only when f succeeds.
func (e *pegEnv) cached(f func(ctx sdk.Context) error) (err error) {
	cctx, write := e.Ctx.CacheContext()
	defer func() {
		if r := recover(); r != nil {
			err = fmt.Errorf("panic: %v", r)
		}
	}()
	if err = f(cctx); err == nil {
		write()
	}
	return err
}

func pegRemoteBech32(a sdk.AccAddress) string { return sdk.MustBech32ifyAddressBytes("cosmos", a) }

// the remote sender of a received packet: an ordinary remote account, or (flag)
// an address that is a module account on this chain
func (e *pegEnv) pegRemoteSender(module bool) string {
	if module {
		return pegRemoteBech32(authtypes.NewModuleAddress(distrtypes.ModuleName))
	}
	return pegRemoteBech32(sdk.AccAddress(common.HexToAddress("0x5E4D000000000000000000000000000000000009").Bytes()))
}

func (e *pegEnv) packet(data transfertypes.FungibleTokenPacketData) channeltypes.Packet {
	bz := transfertypes.ModuleCdc.MustMarshalJSON(&data)
	return channeltypes.NewPacket(bz, 1, transfertypes.PortID, pegSrcChannel, transfertypes.PortID, pegDstChannel, clienttypes.NewHeight(0, 100), 0)
}

// credit models the ICS-20 layer below the erc20 middleware: it mints the
// voucher (coin-origin denominations) or releases the coins from the channel
// escrow account played by actor `esc`.
func (e *pegEnv) credit(ctx sdk.Context, p *pegPair, mint bool, esc, to int, x *big.Int) error {
	if x.Sign() <= 0 || to == pM || (!mint && esc == pM) || (mint && !p.OwnerMod) {
		return errPegRefused
	}
	coins := sdk.Coins{pegCoin(p.Denom, x)}
	if mint {
		if new(big.Int).Add(e.App.BankKeeper.GetSupply(ctx, p.Denom).Amount.BigInt(), x).Cmp(maxU256) > 0 {
			return errPegRefused
		}
		return testutil.FundAccount(ctx, e.App.BankKeeper, pegAcc(to), coins)
	}
	return e.App.BankKeeper.SendCoins(ctx, pegAcc(esc), pegAcc(to), coins)
}

// apply runs one op on the real application; the result code is what the model predicts.
func (e *pegEnv) apply(p *pegPair, op pegOp) (int, string) {
	op = op.normSpelling()
	x := pegAmt(op.X)
	if x.Sign() < 0 || x.Cmp(maxU256) > 0 {
		return 9, "amount outside sdk.Int/uint256"
	}
	ek := e.App.Erc20Keeper
	code := func(err error) (int, string) {
		if err == nil {
			return 0, ""
		}
		s := err.Error()
		if len(s) > 200 {
			s = s[:200]
		}
		return pegErrCode(err), s
	}
	flat := func(err error) (int, string) { // paths whose error kind is not observable (acknowledgements)
		c, s := code(err)
		if c != 0 {
			c = 9
		}
		return c, s
	}
	switch op.Op {
	case "cc", "ce", "send", "ibcsend":
		if x.Sign() > 0 && op.A == pM {
			return 3, "nobody signs for the module account"
		}
	}
	switch op.Op {
	case "fund":
		return flat(e.cached(func(ctx sdk.Context) error { return e.credit(ctx, p, true, 0, op.A, x) }))
	case "rawsend":
		return flat(e.cached(func(ctx sdk.Context) error { return e.credit(ctx, p, false, op.A, op.B, x) }))
	case "cc":
		// = types.NewMsgConvertCoin(coin, receiver, sender) when SA = SB = 0
		_, err := e.runMsg(&types.MsgConvertCoin{Coin: pegCoin(p.Denom, x), Receiver: pegSpellHex(pegAddr[op.B], op.SB), Sender: pegSpellBech(pegAcc(op.A), op.SA)})
		return code(err)
	case "ce":
		// = types.NewMsgConvertERC20(amount, receiver, contract, sender) when SC = SA = SB = 0
		_, err := e.runMsg(&types.MsgConvertERC20{ContractAddress: pegSpellHex(p.Contract, op.SC), Amount: sdkmath.NewIntFromBigInt(x),
			Receiver: pegSpellBech(pegAcc(op.B), op.SB), Sender: pegSpellHex(pegAddr[op.A], op.SA)})
		return code(err)
	case "send":
		_, err := e.runMsg(&banktypes.MsgSend{FromAddress: pegSpellBech(pegAcc(op.A), op.SA), ToAddress: pegSpellBech(pegAcc(op.B), op.SB), Amount: sdk.Coins{pegCoin(p.Denom, x)}})
		return code(err)
	case "ibcsend":
		// the transfer wrapper takes the pair's denomination, erc20/<contract> or the bare contract address
		denom := p.Denom
		if op.SC != 0 {
			denom = types.ModuleName + "/" + pegSpellToken(p, op.SC)
		}
		_, err := e.runMsg(transfertypes.NewMsgTransfer(transfertypes.PortID, pegDstChannel, pegCoin(denom, x), pegSpellBech(pegAcc(op.A), op.SA),
			pegRemoteBech32(pegAcc(pH3)), clienttypes.NewHeight(0, 1000), 0, ""))
		return flat(err)
	case "toggle":
		_, err := ek.ToggleConversion(e.Ctx, pegSpellToken(p, op.SC))
		return code(err)
	case "params":
		return code(ek.SetParams(e.Ctx, types.Params{EnableErc20: op.E, EnableEVMHook: op.H}))
	case "eth":
		if _, has := pegKeys[op.A]; !has {
			return 3, "no key for this actor"
		}
		var data []byte
		switch op.Call {
		case "transfer":
			data = e.pack("transfer", pegAddr[op.B], x)
		case "burn":
			data = e.pack("burn", x)
		case "mint":
			data = e.pack("mint", pegAddr[op.B], x)
		case "mode":
			data = append(common.FromHex(selSetMode), wordU(uint64(op.M))...)
		case "kill":
			data = common.FromHex(selKill)
		default:
			data = common.FromHex("0xdeadbeef")
		}
		ok, s := e.ethTx(op.A, p.Contract, data)
		if ok {
			return 0, ""
		}
		if strings.HasPrefix(s, "panic") || strings.HasPrefix(s, "error") {
			return 9, s
		}
		return 5, s
	case "batch":
		// one signed transaction to the script contract, whose calldata makes it CALL
		// token.transfer(to, x) once per entry: the receipt carries the logs of all the calls
		if _, has := pegKeys[op.A]; !has {
			return 3, "no key for this actor"
		}
		var script []byte
		e.lastLogs = nil
		for _, c := range op.Calls {
			cx := pegAmt(c.X)
			if cx.Sign() < 0 || cx.Cmp(maxU256) > 0 || c.To < 0 || c.To >= pegNA || c.T < 0 || c.T > len(pegByNames) || c.F < 0 || c.F > pH3 {
				return 9, "call outside uint256 / the actors"
			}
			target, flags := p.Contract, byte(0)
			if c.T > 0 {
				target, flags = e.pairs[pegByNames[c.T-1]].Contract, 1
			}
			if c.Catch {
				flags = 1
			}
			payload := e.pack("transfer", pegAddr[c.To], cx)
			if c.from() != pScript {
				payload = e.pack("transferFrom", pegAddr[c.from()], pegAddr[c.To], cx)
			}
			script = append(script, encCall(flags, target.Bytes(), big.NewInt(0), payload)...)
		}
		ok, s := e.ethTx(op.A, pegAddr[pScript], script)
		if ok {
			return 0, ""
		}
		if strings.HasPrefix(s, "panic") || strings.HasPrefix(s, "error") {
			return 9, s
		}
		return 5, s
	case "spend":
		// the beneficiary of the allowances that ERC20MaliciousDelayed hands out (the address hard-wired in the
		// contract: nobody in the harness holds its key, so this cannot be a signed Ethereum transaction) calls
		// token.transferFrom(owner, thief, x): a keeper-level CallEVM FROM THE THIEF'S ADDRESS (EvmKeeper.ApplyMessage
		// with commit; no PostTxProcessing hook runs), written back only when the call succeeds
		if x.Sign() <= 0 || op.A < 0 || op.A >= pegNA {
			return 9, "refused by the harness: nothing to spend"
		}
		return flat(e.cached(func(ctx sdk.Context) error {
			_, err := ek.CallEVM(ctx, e.abi, pegAddr[pThief], p.Contract, true, "transferFrom", pegAddr[op.A], pegAddr[pThief], x)
			return err
		}))
	case "recv":
		// IBC core runs the callback on a cache that is written only for a successful acknowledgement
		rawDenom := "uatom"
		if !p.OwnerMod {
			rawDenom = transfertypes.GetDenomPrefix(transfertypes.PortID, pegSrcChannel) + p.Denom
		}
		data := transfertypes.NewFungibleTokenPacketData(rawDenom, x.String(), e.pegRemoteSender(op.S), pegSpellBech(pegAcc(op.B), op.SB), "")
		return flat(e.cached(func(ctx sdk.Context) error {
			if err := e.credit(ctx, p, op.F, op.A, op.B, x); err != nil {
				return err
			}
			ack := ek.OnRecvPacket(ctx, e.packet(data), channeltypes.NewResultAcknowledgement([]byte{1}))
			if !ack.Success() {
				return fmt.Errorf("error acknowledgement: %s", string(ack.Acknowledgement()))
			}
			return nil
		}))
	case "ack", "timeout":
		rawDenom := transfertypes.GetDenomPrefix(transfertypes.PortID, pegDstChannel) + "uatom"
		if !p.OwnerMod {
			rawDenom = p.Denom
		}
		data := transfertypes.NewFungibleTokenPacketData(rawDenom, x.String(), pegSpellBech(pegAcc(op.B), op.SB), pegRemoteBech32(pegAcc(pH3)), "")
		return flat(e.cached(func(ctx sdk.Context) error {
			if op.B == pM {
				return errPegRefused
			}
			if op.Op == "ack" && op.S {
				return ek.OnAcknowledgementPacket(ctx, e.packet(data), data, channeltypes.NewResultAcknowledgement([]byte{1}))
			}
			// the ICS-20 layer refunds first
			if err := e.credit(ctx, p, op.F, op.A, op.B, x); err != nil {
				return err
			}
			if op.Op == "timeout" {
				return ek.OnTimeoutPacket(ctx, e.packet(data), data)
			}
			return ek.OnAcknowledgementPacket(ctx, e.packet(data), data, channeltypes.NewErrorAcknowledgement(errors.New("remote failure")))
		}))
	}
	return 9, "bad op " + op.Op
}

// ---------------------------------------------------------------- observation -> JSON / Coq
type pegObs struct {
	Res    int      `json:"res"`
	Err    string   `json:"err,omitempty"`
	Reg    bool     `json:"reg"`
	En     bool     `json:"en"`
	On     bool     `json:"erc20_on"`
	Hook   bool     `json:"hook_on"`
	Coin   []string `json:"coin"`
	Supply string   `json:"supply"`
	Tok    []string `json:"tok"` // "" = no answer
	Total  string   `json:"total"`
	Code   bool     `json:"is_contract"`
}

func optStr(x *big.Int) string {
	if x == nil {
		return ""
	}
	return x.String()
}

func (s *pegSnap) obs(res int, errStr string) pegObs {
	o := pegObs{Res: res, Err: errStr, Reg: s.Reg, En: s.En, On: s.Erc20On, Hook: s.HookOn, Supply: s.Supply.String(), Total: optStr(s.Total), Code: s.IsContract}
	for a := 0; a < pegNA; a++ {
		o.Coin = append(o.Coin, s.Coin[a].String())
		o.Tok = append(o.Tok, optStr(s.Tok[a]))
	}
	return o
}

func pegObsCoq(res int, reg, en, on, hook bool, coin, tok *[pegNA]*big.Int, supply, total *big.Int, code bool) string {
	cs, ts := []string{}, []string{}
	for a := 0; a < pegNA; a++ {
		cs = append(cs, coqZ(coin[a]))
		ts = append(ts, coqOptZ(tok[a]))
	}
	return fmt.Sprintf("(mkobs %d%%N %s %s %s %s %s %s %s %s %s)", res, coqBool(reg), coqBool(en), coqBool(on), coqBool(hook),
		coqList(cs), coqZ(supply), coqList(ts), coqOptZ(total), coqBool(code))
}

func (s *pegSnap) coq(res int) string {
	return pegObsCoq(res, s.Reg, s.En, s.Erc20On, s.HookOn, &s.Coin, &s.Tok, s.Supply, s.Total, s.IsContract)
}

// coqWorld: the observable state of every token contract of the multi-contract model (Coq: list (N * bool * obs)):
// contract id, coin-origin?, observation.  The pair under test (id 0) is part of it when its token is an
// honest ledger (kinds coin / honest).
func (e *pegEnv) coqWorld(p *pegPair, withOwn bool, s *pegSnap) string {
	parts := []string{}
	if withOwn {
		parts = append(parts, fmt.Sprintf("(0%%N, %s, %s)", coqBool(p.OwnerMod), s.coq(0)))
	}
	for i, name := range pegByNames {
		b := &s.By[i]
		parts = append(parts, fmt.Sprintf("(%d%%N, %s, %s)", i+1, coqBool(e.pairs[name].OwnerMod),
			pegObsCoq(0, b.Reg, b.Reg && b.En, s.Erc20On, s.HookOn, &b.Coin, &b.Tok, b.Supply, b.Total, b.Code)))
	}
	return "[" + strings.Join(parts, ";\n      ") + "]"
}

func pegActorOf(topic string) int {
	a := common.BytesToAddress(common.HexToHash(topic).Bytes())
	for i := 0; i < pegNA; i++ {
		if pegAddr[i] == a {
			return i
		}
	}
	return 98
}

// coqLogs: the logs of the receipt, in order: emitting contract (model id), the log, and whether the real
// registry knew the emitting contract as a token pair before the transaction
func (e *pegEnv) coqLogs(p *pegPair, pre *pegSnap) string {
	parts := []string{}
	for _, l := range e.lastLogs {
		addr := common.HexToAddress(l.Address)
		id, reg := 99, false
		if addr == p.Contract {
			id, reg = 0, pre.Reg
		}
		for i, name := range pegByNames {
			if addr == e.pairs[name].Contract {
				id, reg = i+1, pre.By[i].Reg
			}
		}
		lg := "(mklog LOther 0%N 0%N 0)"
		switch {
		case len(l.Topics) == 0:
			lg = "(mklog LNoTopic 0%N 0%N 0)"
		case len(l.Topics) == 3 && l.Topics[0] == topicTransfer && len(l.Data) == 32:
			lg = fmt.Sprintf("(mklog LTransfer %d%%N %d%%N %s)", pegActorOf(l.Topics[1]), pegActorOf(l.Topics[2]), coqZ(new(big.Int).SetBytes(l.Data)))
		case l.Topics[0] == topicApproval:
			lg = "(mklog LApproval 0%N 0%N 0)"
		}
		parts = append(parts, fmt.Sprintf("(mkclog %d%%N %s, %s)", id, lg, coqBool(reg)))
	}
	return coqList(parts)
}

// coqMCase: one script transaction as a case of the multi-contract model: the world before, the calls
// (contract id, from, to, amount, tolerated), the result, the receipt's logs, the world after.  "" when the
// transaction called the token of a pair under test that is not an honest ledger (not part of that model).
func (e *pegEnv) coqMCase(p *pegPair, op pegOp, res int, pre, post *pegSnap) string {
	withOwn := p.Kind == "coin" || p.Kind == "honest"
	calls := []string{}
	for _, c := range op.Calls {
		if c.T == 0 && !withOwn {
			return ""
		}
		calls = append(calls, fmt.Sprintf("mkmcall %d%%N %d%%N %d%%N %s %s", c.T, c.from(), c.To, coqZ(pegAmt(c.X)), coqBool(c.Catch || c.T > 0)))
	}
	logs := "[]"
	if res == 0 {
		logs = e.coqLogs(p, pre)
	}
	return fmt.Sprintf("(mkmcase %s\n     %s\n     %d%%N %s %d%%N\n     %s\n     %s)", coqBool(pre.Erc20On && pre.HookOn), e.coqWorld(p, withOwn, pre),
		op.A, coqList(calls), res, logs, e.coqWorld(p, withOwn, post))
}

// coqSpell: the spelling of the op's string fields (Coq: spell)
func (op pegOp) coqSpell() string {
	op = op.normSpelling()
	if !op.spelled() {
		return "csp"
	}
	return fmt.Sprintf("mkspell %d%%N %d%%N %d%%N", op.SC, op.SA, op.SB)
}

func (op pegOp) coq() string {
	x := coqZ(pegAmt(op.X))
	switch op.Op {
	case "fund":
		return fmt.Sprintf("(Fund %d%%N %s)", op.A, x)
	case "rawsend":
		return fmt.Sprintf("(RawSend %d%%N %d%%N %s)", op.A, op.B, x)
	case "cc":
		return fmt.Sprintf("(CC %d%%N %d%%N %s)", op.A, op.B, x)
	case "ce":
		return fmt.Sprintf("(CE %d%%N %d%%N %s)", op.A, op.B, x)
	case "send":
		return fmt.Sprintf("(Send %d%%N %d%%N %s)", op.A, op.B, x)
	case "ibcsend":
		return fmt.Sprintf("(IbcSend %d%%N %s)", op.A, x)
	case "toggle":
		return "Toggle"
	case "params":
		return fmt.Sprintf("(SetParams %s %s)", coqBool(op.E), coqBool(op.H))
	case "eth":
		var c string
		switch op.Call {
		case "transfer":
			c = fmt.Sprintf("(UTransfer %d%%N %s)", op.B, x)
		case "burn":
			c = fmt.Sprintf("(UBurn %s)", x)
		case "mint":
			c = fmt.Sprintf("(UMint %d%%N %s)", op.B, x)
		case "mode":
			c = fmt.Sprintf("(UMode %d%%N)", op.M)
		case "kill":
			c = "UKill"
		default:
			c = "UOther"
		}
		return fmt.Sprintf("(Eth %d%%N %s)", op.A, c)
	case "batch":
		cs := []string{}
		for _, c := range op.Calls {
			if c.T > 0 {
				cs = append(cs, fmt.Sprintf("BForeign %d%%N %s", c.T, coqZ(pegAmt(c.X))))
			} else {
				cs = append(cs, fmt.Sprintf("BXfer %d%%N %s %s", c.To, coqZ(pegAmt(c.X)), coqBool(c.Catch)))
			}
		}
		return fmt.Sprintf("(Batch %d%%N %s)", op.A, coqList(cs))
	case "recv":
		return fmt.Sprintf("(Recv %s %s %d%%N %d%%N %s)", coqBool(op.F), coqBool(op.S), op.A, op.B, x)
	case "ack":
		return fmt.Sprintf("(Ack %s %s %d%%N %d%%N %s)", coqBool(op.S), coqBool(op.F), op.A, op.B, x)
	case "timeout":
		return fmt.Sprintf("(Timeout %s %d%%N %d%%N %s)", coqBool(op.F), op.A, op.B, x)
	case "spend":
		return fmt.Sprintf("(Spend %d%%N %s)", op.A, x)
	}
	panic("bad op " + op.Op)
}

// ---------------------------------------------------------------- the property, evaluated on the implementation
func bigEq(a, b *big.Int) bool {
	if a == nil || b == nil {
		return a == nil && b == nil
	}
	return a.Cmp(b) == 0
}

func (s *pegSnap) diff(t *pegSnap) string {
	switch {
	case s.Reg != t.Reg:
		return "pair registration changed"
	case s.En != t.En:
		return "pair enabled flag changed"
	case s.Erc20On != t.Erc20On || s.HookOn != t.HookOn:
		return "module parameters changed"
	case !bigEq(s.Supply, t.Supply):
		return fmt.Sprintf("coin supply %s -> %s", s.Supply, t.Supply)
	case !bigEq(s.Total, t.Total):
		return fmt.Sprintf("token totalSupply %v -> %v", s.Total, t.Total)
	case s.IsContract != t.IsContract:
		return "contract code appeared/disappeared"
	case s.Others != t.Others:
		return "another pair or another denomination changed: " + s.Others + " -> " + t.Others
	}
	for a := 0; a < pegNA; a++ {
		if !bigEq(s.Coin[a], t.Coin[a]) {
			return fmt.Sprintf("coin balance of actor %d %s -> %s", a, s.Coin[a], t.Coin[a])
		}
		if !bigEq(s.Tok[a], t.Tok[a]) {
			return fmt.Sprintf("token balance of actor %d %v -> %v", a, s.Tok[a], t.Tok[a])
		}
	}
	return ""
}

func (s *pegSnap) clone() pegSnap {
	c := *s
	cp := func(x *big.Int) *big.Int {
		if x == nil {
			return nil
		}
		return new(big.Int).Set(x)
	}
	c.Supply, c.Total = cp(s.Supply), cp(s.Total)
	for a := 0; a < pegNA; a++ {
		c.Coin[a], c.Tok[a] = cp(s.Coin[a]), cp(s.Tok[a])
	}
	return c
}

// pegTrack is what the oracle derives from the shape of the history so far.
type pegTrack struct {
	mode       int      // cham: last mode set
	inflated   bool     // cham: has been in a mode that breaks its own ledger
	burned     *big.Int // tokens burned by holders themselves (coin-origin pair)
	honestKind bool     // the module's contract / the compiled honest token
	killed     bool     // cham: self-destructed
	// the state clause (pegStateClause) and the listed findings
	trapdoor     bool     // cham: the token has destroyed its own ledger outside transfer(): self-destruct, or a credit to the module that wrapped around 2^256
	k7           bool     // a step of the K7 shape (pegClass) minted coins that the token did not report as arriving
	k19Granted   bool     // ERC20MaliciousDelayed: a conversion entered through the EVM hook (transfer to the module address in an Ethereum transaction): the token has put an allowance of the thief on the module's tokens
	k19          bool     // ... and the thief has spent from the module's tokens afterwards
	knownDeficit *big.Int // coins the K7 steps minted without tokens + tokens the K19 spends took from the module: what the listed findings explain, no more
}

func (t *pegTrack) honestNow(kind string) bool {
	return t.honestKind || (kind == "cham" && t.mode == chHonest && !t.inflated && !t.killed)
}

func addTo(x **big.Int, d *big.Int)   { *x = new(big.Int).Add(*x, d) }
func subFrom(x **big.Int, d *big.Int) { *x = new(big.Int).Sub(*x, d) }

// pegOracle: what property C10 demands of one step, computed from the
// observations before and after it (never from the Coq model).  It returns the
// first demand that the implementation did not meet.
func pegCallsStr(cs []pegCall) string {
	parts := []string{}
	for _, c := range cs {
		name := "own"
		if c.T >= 1 && c.T <= pegNBy {
			name = pegByNames[c.T-1]
		}
		parts = append(parts, fmt.Sprintf("%s(%d->%d,%s)", name, c.from(), c.To, c.X))
	}
	return "[" + strings.Join(parts, " ") + "]"
}

func pegOracle(e *pegEnv, p *pegPair, op pegOp, res int, pre, post *pegSnap, tr *pegTrack) string {
	x := pegAmt(op.X)
	honest := tr.honestNow(p.Kind)
	// frame: nothing but the pair under test moves; a successful script transaction may also have
	// called the tokens of the bystander pairs: what the property demands of those is computed below
	expOthers := pre.Others
	if op.Op == "batch" && res == 0 {
		expBy := pegForeignEffect(e, pre, op)
		expOthers = pegOthers(pre.idxNote, expBy, pre.Base)
		for i, name := range pegByNames {
			if d := expBy[i].diff(&post.By[i]); d != "" {
				return fmt.Sprintf("the transaction's calls were %s; token contract %s (registered: %v, enabled: %v, hook on: %v): %s",
					pegCallsStr(op.Calls), name, pre.By[i].Reg, pre.By[i].En, pre.Erc20On && pre.HookOn, d)
			}
		}
		// a transaction that never called this pair's token leaves the pair alone, whatever its token is
		own := false
		for _, c := range op.Calls {
			own = own || c.T == 0
		}
		if !own {
			keep := pre.clone()
			keep.Others = post.Others
			if d := keep.diff(post); d != "" {
				return fmt.Sprintf("the transaction's calls were %s (none on this pair's token), but this pair changed: %s", pegCallsStr(op.Calls), d)
			}
		}
	}
	if post.idxNote != "" {
		return "registry: " + post.idxNote
	}
	if post.Others != expOthers {
		return "frame: another pair or denomination changed: " + pre.Others + " -> " + post.Others + ", the property demands " + expOthers
	}
	// (A) a failed operation has no effect at all (bank side in particular)
	if res != 0 {
		if d := pre.diff(post); d != "" {
			return fmt.Sprintf("%s failed (code %d) but left an effect: %s", op.Op, res, d)
		}
		return ""
	}
	// (B) coins are created only against tokens that the module sees arriving (token-origin pairs)
	dSupply := new(big.Int).Sub(post.Supply, pre.Supply)
	if !p.OwnerMod && dSupply.Sign() > 0 {
		if pre.Tok[pM] == nil || post.Tok[pM] == nil || new(big.Int).Sub(post.Tok[pM], pre.Tok[pM]).Cmp(dSupply) != 0 {
			return fmt.Sprintf("%s minted %s coins but the token's balanceOf(module) went %v -> %v", op.Op, dSupply, pre.Tok[pM], post.Tok[pM])
		}
	}
	// (C) coins are conserved over the observed accounts
	sum := big.NewInt(0)
	for a := 0; a < pegNA; a++ {
		sum.Add(sum, new(big.Int).Sub(post.Coin[a], pre.Coin[a]))
	}
	if sum.Cmp(dSupply) != 0 {
		return fmt.Sprintf("coin supply moved by %s but balances by %s", dSupply, sum)
	}
	// (D) exact effect of the operation
	exp := pre.clone()
	tokKnown := honest // whether the whole token side is predictable from the ERC20 standard
	checkTok := -1     // otherwise: the one account whose reported balance the module must have seen move ...
	checkDelta := big.NewInt(0)
	conv := pre.Erc20On && pre.Reg && pre.En
	tokAdd := func(a int, d *big.Int) {
		if exp.Tok[a] != nil {
			exp.Tok[a] = new(big.Int).Add(exp.Tok[a], d)
		}
	}
	neg := func(v *big.Int) *big.Int { return new(big.Int).Neg(v) }
	totAdd := func(d *big.Int) {
		if exp.Total != nil {
			exp.Total = new(big.Int).Add(exp.Total, d)
		}
	}
	// coin -> token for `amt` coins of actor a, tokens to actor b
	coinToTok := func(a, b int, amt *big.Int) {
		subFrom(&exp.Coin[a], amt)
		if p.OwnerMod {
			addTo(&exp.Coin[pM], amt)
			totAdd(amt)
		} else {
			subFrom(&exp.Supply, amt)
			tokAdd(pM, neg(amt))
		}
		tokAdd(b, amt)
		checkTok, checkDelta = b, amt
	}
	tokToCoin := func(a, b int, amt *big.Int) {
		addTo(&exp.Coin[b], amt)
		if p.OwnerMod {
			subFrom(&exp.Coin[pM], amt)
			totAdd(neg(amt))
			checkTok, checkDelta = a, neg(amt)
		} else {
			addTo(&exp.Supply, amt)
			tokAdd(pM, amt)
			checkTok, checkDelta = pM, amt
		}
		tokAdd(a, neg(amt))
	}
	switch op.Op {
	case "fund":
		addTo(&exp.Coin[op.A], x)
		addTo(&exp.Supply, x)
	case "rawsend":
		subFrom(&exp.Coin[op.A], x)
		addTo(&exp.Coin[op.B], x)
	case "toggle":
		exp.En = !exp.En
	case "params":
		exp.Erc20On, exp.HookOn = op.E, op.H
	case "ibcsend":
		return "an IBC transfer cannot succeed without a channel"
	case "cc", "ce":
		if !pre.IsContract { // self-destructed token: the pair is dropped, nothing else happens
			exp.Reg, exp.En = false, false
			tokKnown = true
			break
		}
		if op.Op == "cc" {
			coinToTok(op.A, op.B, x)
		} else {
			tokToCoin(op.A, op.B, x)
		}
	case "send":
		if !conv {
			subFrom(&exp.Coin[op.A], x)
			addTo(&exp.Coin[op.B], x)
			tokKnown = true
			break
		}
		// the wrapper first converts everything spendable, then moves tokens
		if sp := pre.Coin[op.A]; sp.Sign() > 0 {
			coinToTok(op.A, op.A, sp)
		}
		tokAdd(op.A, neg(x))
		tokAdd(op.B, x)
		if op.A == op.B && checkTok == op.B { // (only a token that credits without debiting gets here)
			checkDelta = new(big.Int).Add(checkDelta, x)
		} else {
			checkTok, checkDelta = op.B, x
		}
	case "recv":
		addTo(&exp.Coin[op.B], x)
		if op.F {
			addTo(&exp.Supply, x)
		} else {
			subFrom(&exp.Coin[op.A], x)
		}
		if conv && !op.S {
			if !pre.IsContract {
				exp.Reg, exp.En = false, false
			} else {
				coinToTok(op.B, op.B, new(big.Int).Set(exp.Coin[op.B])) // the whole balance, by design
			}
		}
	case "ack", "timeout":
		if op.Op == "ack" && op.S {
			break
		}
		addTo(&exp.Coin[op.B], x)
		if op.F {
			addTo(&exp.Supply, x)
		} else {
			subFrom(&exp.Coin[op.A], x)
		}
		if pre.Erc20On && pre.Reg { // a disabled pair makes the callback fail instead
			if !pre.IsContract {
				exp.Reg, exp.En = false, false
			} else {
				coinToTok(op.B, op.B, x)
			}
		}
	case "batch":
		// every transfer of the contract's own tokens to the module address is a conversion request of
		// the contract for exactly that transfer's amount: in total the contract receives the sum of
		// the amounts it transferred, whatever else happens in the same transaction
		hook := conv && pre.HookOn
		if !honest {
			tokKnown = false
			break
		}
		for _, c := range op.Calls {
			if c.T != 0 {
				continue
			}
			cx := pegAmt(c.X)
			if c.Catch && ((c.To == pZero && tr.honestKind) || exp.Tok[pScript].Cmp(cx) < 0) {
				continue // this transfer reverts (more than the contract holds; OpenZeppelin: to the zero address); the contract tolerates it
			}
			tokAdd(pScript, neg(cx))
			if c.To == pM && hook && cx.Sign() > 0 {
				addTo(&exp.Coin[pScript], cx)
				if p.OwnerMod { // the tokens are burned, escrowed coins are released
					subFrom(&exp.Coin[pM], cx)
					totAdd(neg(cx))
				} else { // the tokens stay with the module, coins are minted
					addTo(&exp.Supply, cx)
					tokAdd(pM, cx)
				}
			} else {
				tokAdd(c.To, cx)
			}
		}
	case "eth":
		hook := conv && pre.HookOn
		switch op.Call {
		case "transfer":
			if !honest {
				tokKnown = false
				break
			}
			tokAdd(op.A, neg(x))
			tokAdd(op.B, x)
			if op.B == pM && hook && x.Sign() > 0 {
				// a transfer to the module address is a conversion request of the sender
				exp.Tok[op.A] = new(big.Int).Add(exp.Tok[op.A], x) // undo, tokToCoin debits again
				exp.Tok[pM] = new(big.Int).Sub(exp.Tok[pM], x)
				tokToCoin(op.A, op.A, x)
				if p.OwnerMod {
					checkTok = -1
				}
			}
		case "burn":
			if honest {
				tokAdd(op.A, neg(x))
				totAdd(neg(x))
			}
		case "mint":
			if honest {
				tokAdd(op.B, x)
				totAdd(x)
				if op.B == pM && hook && x.Sign() > 0 && !p.OwnerMod {
					// Transfer(0, module, x): coins for the zero address
					addTo(&exp.Supply, x)
					addTo(&exp.Coin[pZero], x)
				}
			}
		case "kill":
			if p.Kind == "cham" {
				exp.IsContract = false
				for a := 0; a < pegNA; a++ {
					exp.Tok[a] = nil
				}
				exp.Total = nil
				tokKnown = true
			}
		}
	}
	// bank side, registry: always exact
	if exp.Reg != post.Reg || exp.En != post.En || exp.Erc20On != post.Erc20On || exp.HookOn != post.HookOn {
		return fmt.Sprintf("%s: registry/params are reg=%v en=%v on=%v hook=%v, the property demands reg=%v en=%v on=%v hook=%v", op.Op,
			post.Reg, post.En, post.Erc20On, post.HookOn, exp.Reg, exp.En, exp.Erc20On, exp.HookOn)
	}
	bankKnown := tokKnown || (op.Op != "eth" && op.Op != "batch")
	if bankKnown {
		if !bigEq(exp.Supply, post.Supply) {
			return fmt.Sprintf("%s: coin supply is %s, the property demands %s", op.Op, post.Supply, exp.Supply)
		}
		for a := 0; a < pegNA; a++ {
			if !bigEq(exp.Coin[a], post.Coin[a]) {
				return fmt.Sprintf("%s: coin balance of actor %d is %s, the property demands %s", op.Op, a, post.Coin[a], exp.Coin[a])
			}
		}
	}
	if tokKnown {
		if exp.IsContract != post.IsContract {
			return "contract code appeared/disappeared"
		}
		if !bigEq(exp.Total, post.Total) {
			return fmt.Sprintf("%s: token totalSupply is %v, the property demands %v", op.Op, post.Total, exp.Total)
		}
		for a := 0; a < pegNA; a++ {
			if !bigEq(exp.Tok[a], post.Tok[a]) {
				return fmt.Sprintf("%s: token balance of actor %d is %v, the property demands %v", op.Op, a, post.Tok[a], exp.Tok[a])
			}
		}
	} else if checkTok >= 0 {
		// against a token that does not follow the standard the module can only rely on what the
		// token reports for the account it credits / debits: that must have moved by the amount
		if pre.Tok[checkTok] == nil || post.Tok[checkTok] == nil ||
			new(big.Int).Sub(post.Tok[checkTok], pre.Tok[checkTok]).Cmp(checkDelta) != 0 {
			return fmt.Sprintf("%s succeeded for %s but the token reports balanceOf(actor %d) %v -> %v", op.Op, checkDelta, checkTok, pre.Tok[checkTok], post.Tok[checkTok])
		}
	}
	// (E) backing, for tokens that follow the standard
	if tr.honestKind && op.Op == "eth" && op.Call == "burn" {
		tr.burned = new(big.Int).Add(tr.burned, x)
	}
	if tr.honestKind {
		if p.OwnerMod {
			if post.Total == nil || post.Total.Cmp(post.Coin[pM]) > 0 {
				return fmt.Sprintf("backing: token totalSupply %v exceeds the escrowed coins %s", post.Total, post.Coin[pM])
			}
			if new(big.Int).Add(post.Total, tr.burned).Cmp(post.Coin[pM]) != 0 {
				return fmt.Sprintf("backing: escrow %s != totalSupply %s + burned by holders %s", post.Coin[pM], post.Total, tr.burned)
			}
		} else if post.Reg {
			if post.Tok[pM] == nil || post.Supply.Cmp(post.Tok[pM]) > 0 {
				return fmt.Sprintf("backing: coin supply %s exceeds the tokens held by the module %v", post.Supply, post.Tok[pM])
			}
		}
	}
	return ""
}

// pegForeignEffect: what the property demands of a successful script transaction for the OTHER token
// contracts it called (all honest OpenZeppelin tokens but the log-only one): each tolerated
// transfer(to, x) / transferFrom(from, to, x) that `from` can afford moves x tokens; when the recipient is
// the erc20 module address, the hook is on, x > 0 and the contract is a REGISTERED and ENABLED pair, that
// transfer is a conversion request of `from` for exactly x: by-coin (coin-origin): x tokens burned, x
// escrowed coins to `from`; by-ext: x coins minted to `from`.  A transfer of a disabled pair's token or of
// an unregistered token to the module address is an ordinary transfer (the tokens stay with the module):
// it has no effect on the coins, the escrow or the supply of ANY denomination.
func pegForeignEffect(e *pegEnv, pre *pegSnap, op pegOp) *[pegNBy]pegBy {
	var by [pegNBy]pegBy
	for i := range by {
		by[i] = pre.By[i].clone()
	}
	hook := pre.Erc20On && pre.HookOn
	for _, c := range op.Calls {
		if c.T < 1 || c.T > pegNBy || c.T == pegFake { // the log-only token has no ledger and is not registered
			continue
		}
		q := &by[c.T-1]
		cx, from := pegAmt(c.X), c.from()
		if q.Tok[from] == nil || q.Tok[c.To] == nil || q.Tok[pM] == nil || q.Total == nil || c.To == pZero || q.Tok[from].Cmp(cx) < 0 {
			continue // reverts: tolerated
		}
		subFrom(&q.Tok[from], cx)
		if c.To == pM && hook && cx.Sign() > 0 && q.Reg && q.En {
			addTo(&q.Coin[from], cx)
			if e.pairs[pegByNames[c.T-1]].OwnerMod {
				subFrom(&q.Coin[pM], cx)
				subFrom(&q.Total, cx)
			} else {
				addTo(&q.Supply, cx)
				addTo(&q.Tok[pM], cx)
			}
		} else {
			addTo(&q.Tok[c.To], cx)
		}
	}
	return &by
}

// pegTwin: what the same message in canonical spelling did on a copy of the same state
type pegTwin struct {
	res  int
	err  string
	post pegSnap
}

// pegSpellingOracle: an address or a token identifier is the same input however it is written.  A message
// in another spelling that the chain ACCEPTS must do exactly what the canonical spelling does on the same
// state: accepted only if that one is accepted, with the same effect on every observable (so every check
// the property relies on - post-condition balances, the unexpected-Approval monitor, the registry lookups -
// is applied to it as well); and a spelling that is beyond doubt the same address (hex letter case, checksum
// and prefix; the pair's denomination or contract address) must not be refused where the canonical one
// converts.  A refused message has no effect (clause A of pegOracle).
func pegSpellingOracle(op pegOp, res int, errStr string, post *pegSnap, twin *pegTwin) string {
	if twin == nil {
		return ""
	}
	fc, fa, fb := pegSpellFields(op.Op)
	how := []string{}
	for _, f := range []struct {
		field, fam string
		k          int
	}{{"token/contract", fc, op.SC}, {"sender", fa, op.SA}, {"receiver", fb, op.SB}} {
		if f.fam != "" && f.k != 0 {
			how = append(how, fmt.Sprintf("%s spelled %s-%s", f.field, f.fam, pegSpellName(f.fam, f.k)))
		}
	}
	desc := fmt.Sprintf("%s with %s", op.Op, strings.Join(how, ", "))
	switch {
	case res == 0 && twin.res != 0:
		return fmt.Sprintf("spelling: %s is ACCEPTED, but the same message with every address spelled as the chain prints it is refused on the same state (code %d: %s): the outcome of a conversion depends on the spelling of an address",
			desc, twin.res, twin.err)
	case res == 0:
		if d := twin.post.diff(post); d != "" {
			return fmt.Sprintf("spelling: %s and the same message in canonical spelling are both accepted on the same state but differ in their effect: %s (canonical -> this spelling)", desc, d)
		}
	case twin.res == 0 && op.pegSpellingSurelyAccepted():
		return fmt.Sprintf("spelling: %s is refused (code %d: %s), but the same message with every address spelled as the chain prints it succeeds on the same state, and this spelling denotes the same address", desc, res, errStr)
	}
	return ""
}

const (
	pegClassK7  = "erc20:external-token-fake-transfer-log"
	pegClassK19 = "erc20:hook-path-conversion-grants-allowance-on-module-tokens"
)

// pegClass: known-finding classes as predicates on the input's shape.
func pegClass(p *pegPair, op pegOp, tr *pegTrack) string {
	if p.OwnerMod {
		return ""
	}
	if op.Op == "batch" {
		// K7 through a contract: the same tokens called by the script contract
		for _, c := range op.Calls {
			if c.T != 0 {
				continue
			}
			if p.Kind == "fakelog" || (p.Kind == "cham" && c.To == pM && tr.mode == chFake) {
				return pegClassK7
			}
		}
		return ""
	}
	if op.Op == "eth" {
		// K7: external pair + hook path + a token that emits Transfer(_, module, x) without an honest transfer
		if p.Kind == "fakelog" {
			return pegClassK7
		}
		if p.Kind == "cham" && op.Call == "transfer" && op.B == pM && tr.mode == chFake {
			return pegClassK7
		}
	}
	return ""
}

func (tr *pegTrack) update(p *pegPair, op pegOp, res int, pre, post *pegSnap) {
	if res != 0 {
		return
	}
	tokM := func(s *pegSnap) *big.Int {
		if s.Tok[pM] == nil {
			return big.NewInt(0)
		}
		return s.Tok[pM]
	}
	dSupply := new(big.Int).Sub(post.Supply, pre.Supply)
	// K7 (before the mode bookkeeping below: pegClass looks at the mode the step ran in)
	if pegClass(p, op, tr) == pegClassK7 {
		d := new(big.Int).Sub(tokM(post), tokM(pre))
		if d.Sign() < 0 {
			d = big.NewInt(0)
		}
		if un := new(big.Int).Sub(dSupply, d); un.Sign() > 0 {
			tr.k7 = true
			addTo(&tr.knownDeficit, un)
		}
	}
	// K19: the input shape of the class: the pair's token is ERC20MaliciousDelayed (kind approve), a transfer of
	// it to the module address in an Ethereum transaction was converted by the hook, a later spend took tokens
	// of the module
	if p.Kind == "approve" {
		toModule := op.Op == "eth" && op.Call == "transfer" && op.B == pM
		if op.Op == "batch" {
			for _, c := range op.Calls {
				toModule = toModule || (c.T == 0 && c.To == pM)
			}
		}
		if toModule && dSupply.Sign() > 0 {
			tr.k19Granted = true
		}
		if op.Op == "spend" && op.A == pM && tr.k19Granted {
			tr.k19 = true
			addTo(&tr.knownDeficit, pegAmt(op.X))
		}
	}
	// cham: a credit to the module that wraps around 2^256 lowers the module's balance: the ledger is none any more
	if p.Kind == "cham" && pre.Tok[pM] != nil {
		credit := big.NewInt(0)
		switch {
		case op.Op == "eth" && (op.Call == "mint" || op.Call == "transfer") && op.B == pM, op.Op == "ce":
			credit = pegAmt(op.X)
		case op.Op == "batch":
			for _, c := range op.Calls {
				if c.T == 0 && c.To == pM {
					credit = new(big.Int).Add(credit, pegAmt(c.X))
				}
			}
		}
		if new(big.Int).Add(pre.Tok[pM], credit).Cmp(maxU256) > 0 {
			tr.trapdoor = true
		}
	}
	if op.Op != "eth" {
		return
	}
	switch op.Call {
	case "mode":
		if p.Kind == "cham" {
			tr.mode = op.M
			if op.M == chInflate || op.M == chFake {
				tr.inflated = tr.inflated || op.M == chInflate
			}
		}
	case "kill":
		if p.Kind == "cham" {
			tr.killed = true
			tr.trapdoor = true
		}
	}
}

// pegRealEscrow: the tokens of the module as far as the harness can establish what is REALLY there, beside
// what balanceOf(module) reports: the OpenZeppelin tokens (the module's own contract, the compiled honest,
// siphon and delayed-malicious tokens) keep a ledger and balanceOf reads it: the reported figure; the
// chameleon's ledger is read from its storage (balance of a = slot a); the constant-balance token and the
// fake-log token have no ledger at all: nothing is escrowed whatever they answer.
func (e *pegEnv) pegRealEscrow(p *pegPair, reported *big.Int) (*big.Int, string) {
	switch p.Kind {
	case "cham":
		h := e.App.EvmKeeper.GetState(e.Ctx, p.Contract, common.BytesToHash(pegAddr[pM].Bytes()))
		return new(big.Int).SetBytes(h.Bytes()), "the token's storage slot of the module address"
	case "const", "fakelog":
		return big.NewInt(0), "the token keeps no ledger"
	}
	if reported == nil {
		return big.NewInt(0), "the token does not answer"
	}
	return new(big.Int).Set(reported), "OpenZeppelin ledger read by balanceOf"
}

// pegStateClause: the STATE clause of property C10, evaluated after EVERY step for EVERY pair kind, exactly as
// the property states it: coin-origin pair: the ERC20 total supply never exceeds the coins escrowed in the
// module account; ERC20-origin pair (while registered): the coin supply never exceeds the tokens escrowed by
// the module - as the token reports them (no answer = none) and as far as the harness can establish what is
// really there (pegRealEscrow).  Returned: the failed demand and by how much the circulating coins exceed
// the escrow.  Not evaluated: a chameleon pair after the token destroyed its own ledger by a function outside
// ERC-20 (self-destruct: the code drops the pair at the next conversion; a mint that wraps 2^256): no chain
// code can keep anything backed against that.
func pegStateClause(e *pegEnv, p *pegPair, post *pegSnap, tr *pegTrack) (string, *big.Int) {
	if p.OwnerMod {
		if post.Total == nil || post.Total.Cmp(post.Coin[pM]) > 0 {
			return fmt.Sprintf("backing: token totalSupply %v exceeds the coins escrowed in the module account %s", post.Total, post.Coin[pM]), nil
		}
		return "", nil
	}
	if !post.Reg || (p.Kind == "cham" && tr.trapdoor) {
		return "", nil
	}
	esc := big.NewInt(0)
	if post.Tok[pM] != nil {
		esc = new(big.Int).Set(post.Tok[pM])
	}
	real, how := e.pegRealEscrow(p, post.Tok[pM])
	if real.Cmp(esc) < 0 {
		esc = real
	}
	if post.Supply.Cmp(esc) > 0 {
		return fmt.Sprintf("backing: the coin supply %s of this ERC20-origin pair exceeds the tokens escrowed by the module: balanceOf(module) reports %v, really there: %s (%s); the thief holds %v tokens",
			post.Supply, post.Tok[pM], real, how, post.Tok[pThief]), new(big.Int).Sub(post.Supply, esc)
	}
	return "", nil
}

// pegStateClass: a failure of the state clause belongs to a listed finding only when the history has the
// finding's input shape AND the listed steps explain the whole deficit (coins minted on bare logs: K7; tokens
// the thief took from the module after a hook-path conversion: K19); one coin more is a new violation.
func pegStateClass(tr *pegTrack, deficit *big.Int) string {
	if deficit == nil || deficit.Cmp(tr.knownDeficit) > 0 {
		return ""
	}
	switch {
	case tr.k19:
		return pegClassK19
	case tr.k7:
		return pegClassK7
	}
	return ""
}

// pegBatchShape: distribution tags of the sequence of token contracts one transaction calls
func pegBatchShape(cs []pegCall) []string {
	out := []string{}
	distinct := map[int]bool{}
	conv := func(t int) bool { return t <= 2 }
	for i, c := range cs {
		distinct[c.T] = true
		if !conv(c.T) && c.To == pM && pegAmt(c.X).Sign() > 0 {
			out = append(out, "batch:ignored-contract-log-to-module:"+pegByNames[c.T-1])
			// A ... B B: a convertible contract's log earlier, then the same ignored contract twice in a row
			if i > 0 && cs[i-1].T == c.T {
				for j := 0; j < i-1; j++ {
					if conv(cs[j].T) {
						out = append(out, "batch:A-B-B")
					}
				}
			}
		}
		for j := 0; j+1 < i; j++ {
			if cs[j].T == c.T && cs[i-1].T != c.T {
				out = append(out, "batch:same-contract-non-adjacent")
			}
		}
		if c.F != 0 && c.T > 0 {
			out = append(out, "batch:transferFrom")
		}
	}
	if len(distinct) >= 2 {
		out = append(out, fmt.Sprintf("batch:%d-contracts", len(distinct)))
	}
	return out
}

// pegBatchValid: the calls are inside uint256 / the actors / the contracts (otherwise the harness refuses the op)
func pegBatchValid(op pegOp) bool {
	for _, c := range op.Calls {
		cx := pegAmt(c.X)
		if cx.Sign() < 0 || cx.Cmp(maxU256) > 0 || c.To < 0 || c.To >= pegNA || c.T < 0 || c.T > len(pegByNames) || c.F < 0 || c.F > pH3 {
			return false
		}
	}
	return true
}

// ---------------------------------------------------------------- one case
func pegRunCase(id string, in pegInput) Case {
	b := pegBaseEnv()
	p, okk := b.pairs[in.Kind]
	if !okk || pegKindIdx(in.Kind) < 0 {
		return Case{ID: id, Kind: "history", Input: in, OracleOK: false, OracleMsg: "unknown kind " + in.Kind}
	}
	e := b.fork()
	tr := &pegTrack{burned: big.NewInt(0), knownDeficit: big.NewInt(0), honestKind: in.Kind == "coin" || in.Kind == "honest"}
	pre := e.snapshot(p)
	steps, mcases := []string{}, []string{}
	obsAll := []pegObs{}
	oracleMsg, class := "", ""
	tags := map[string]bool{"kind:" + in.Kind: true}
	nOK := 0
	for i, op := range in.Ops {
		op = op.normSpelling()
		// a message whose string fields are not spelled the way the chain prints them: the SAME message in
		// canonical spelling is run first, on a copy of the state that is thrown away
		var twin *pegTwin
		if op.spelled() {
			f := e.fork()
			r2, err2 := f.apply(p, op.canonicalSpelling())
			twin = &pegTwin{res: r2, err: err2, post: f.snapshot(p)}
		}
		res, errStr := e.apply(p, op)
		post := e.snapshot(p)
		obsAll = append(obsAll, post.obs(res, errStr))
		steps = append(steps, fmt.Sprintf("(%s, %s, %s)", op.coqSpell(), op.coq(), post.coq(res)))
		if op.Op == "batch" && pegBatchValid(op) {
			if m := e.coqMCase(p, op, res, &pre, &post); m != "" {
				mcases = append(mcases, m)
			}
		}
		name := op.Op
		if op.Op == "eth" {
			name = "eth-" + op.Call
		}
		tags[fmt.Sprintf("%s:%d", name, res)] = true
		if op.spelled() {
			fc, fa, fb := pegSpellFields(op.Op)
			acc := "failed"
			if res == 0 {
				acc = "ok"
			}
			for _, f := range []struct {
				field, fam string
				k          int
			}{{"token/contract", fc, op.SC}, {"sender", fa, op.SA}, {"receiver", fb, op.SB}} {
				if f.fam != "" && f.k != 0 {
					tags[fmt.Sprintf("spelling:%s:%s:%s-%s:%s", op.Op, f.field, f.fam, pegSpellName(f.fam, f.k), acc)] = true
				}
			}
			if !tr.honestNow(p.Kind) {
				tags["spelling:on-a-misbehaving-token:"+op.Op] = true
			}
		}
		if op.Op == "batch" && res == 0 {
			for _, t := range pegBatchShape(op.Calls) {
				tags[t] = true
			}
		}
		if res == 0 {
			switch op.Op {
			case "cc", "ce", "send", "recv", "ack", "timeout":
				nOK++
			case "eth", "batch":
				if post.Supply.Cmp(pre.Supply) != 0 || !bigEq(post.Coin[pM], pre.Coin[pM]) { // the hook converted
					nOK++
					tags["hook-conversion"] = true
					if op.Op == "batch" {
						own, foreign := 0, 0
						for _, c := range op.Calls {
							if c.T != 0 {
								foreign++
							} else if c.To == pM && pegAmt(c.X).Sign() > 0 {
								own++
							}
						}
						if own >= 2 {
							tags["hook-conversion:several-logs-one-tx"] = true
						}
						if own >= 1 && foreign >= 1 && post.Others != pre.Others {
							tags["hook-conversion:two-pairs-one-tx"] = true
						}
					}
				}
			}
		}
		// the first failure counts; a failure inside a known-finding class does not hide a later one outside it
		judge := oracleMsg == "" || class != ""
		m, cl := "", ""
		if judge {
			// what the property demands of this STEP
			m = pegOracle(e, p, op, res, &pre, &post, tr)
			if m == "" {
				m = pegSpellingOracle(op, res, errStr, &post, twin)
			}
			if m != "" {
				cl = pegClass(p, op, tr)
			}
		}
		tr.update(p, op, res, &pre, &post)
		if judge && m == "" {
			// what the property demands of the STATE after every step
			var deficit *big.Int
			if m, deficit = pegStateClause(e, p, &post, tr); m != "" {
				cl = pegStateClass(tr, deficit)
			}
		}
		if m != "" && (oracleMsg == "" || cl == "") {
			oracleMsg = fmt.Sprintf("step %d (%s on a %s pair): %s", i, name, in.Kind, m)
			class = cl
		}
		if op.Op == "spend" && res == 0 && !bigEq(pre.Tok[pM], post.Tok[pM]) {
			tags["spend:took-tokens-of-the-module"] = true
		}
		pre = post
	}
	tl := []string{}
	for t := range tags {
		tl = append(tl, t)
	}
	sort.Strings(tl)
	kb, _ := json.Marshal(in)
	return Case{
		ID: id, Kind: "history", Input: in, Obs: obsAll,
		Coq:      fmt.Sprintf("(%d%%N, [%s],\n   [%s])", pegKindIdx(in.Kind), strings.Join(steps, ";\n   "), strings.Join(mcases, ";\n    ")),
		CoqList:  "cases",
		OracleOK: oracleMsg == "", OracleMsg: oracleMsg, Class: class,
		Nontrivial: nOK >= 1, Key: string(kb), Tags: tl,
	}
}

// ---------------------------------------------------------------- generator
var pegHuge = []*big.Int{maxU256, new(big.Int).Lsh(big.NewInt(1), 255), new(big.Int).Lsh(big.NewInt(1), 128)}

func pegGenAmount(r *Rng, avail *big.Int) *big.Int {
	switch k := r.Intn(20); {
	case k == 0:
		return big.NewInt(0)
	case k == 1:
		return big.NewInt(1)
	case k < 5:
		return new(big.Int).Set(avail) // the whole balance
	case k == 5:
		return new(big.Int).Add(avail, big.NewInt(1)) // one more than there is
	case k == 6:
		return new(big.Int).Set(pegHuge[r.Intn(len(pegHuge))])
	case k < 9:
		return big.NewInt(int64(1 + r.Intn(1000)))
	}
	if avail.Sign() > 0 {
		v := r.Below(avail)
		return v.Add(v, big.NewInt(1))
	}
	return big.NewInt(int64(r.Intn(50)))
}

func pegGen(r *Rng, nops int) pegInput {
	weights := []int{26, 20, 7, 7, 4, 6, 30} // coin honest siphon approve const fakelog cham
	tot := 0
	for _, w := range weights {
		tot += w
	}
	k, pick := r.Intn(tot), 0
	for i, w := range weights {
		if k < w {
			pick = i
			break
		}
		k -= w
	}
	kind := pegKinds[pick]
	in := pegInput{Kind: kind}
	ownerMod := kind == "coin"
	holders := []int{pH1, pH2, pH3}
	anyActor := func() int {
		if r.Chance(12) {
			return []int{pM, pThief, pZero, pDeployer, pScript}[r.Intn(5)]
		}
		return holders[r.Intn(3)]
	}
	// steering shadow (standard-ERC20 approximation; only biases the generator)
	var coin, tok [pegNA]*big.Int
	for a := range coin {
		coin[a], tok[a] = big.NewInt(0), big.NewInt(0)
	}
	if kind == "siphon" || kind == "approve" {
		tok[pDeployer] = new(big.Int).Set(pegInitSupply)
	}
	maxBits := []int{12, 40, 90, 200}[r.Intn(4)]
	push := func(op pegOp) { in.Ops = append(in.Ops, op) }
	// the spelling of the string fields: its own stream, split off without advancing the main one (the
	// histories stay what they were); mostly canonical, more often another spelling when the token misbehaves
	sr := &Rng{s: r.s ^ 0x5be11a9d7c3f0e21}
	spellChance := 22
	if kind != "coin" && kind != "honest" {
		spellChance = 34
	}
	spell := func(op *pegOp) {
		fc, fa, fb := pegSpellFields(op.Op)
		if (fc == "" && fa == "" && fb == "") || !sr.Chance(spellChance) {
			return
		}
		pick := func(fam string, always bool) int {
			if fam == "" || (!always && !sr.Chance(60)) {
				return 0
			}
			switch fam {
			case "hex":
				if sr.Chance(9) {
					return 7 // not an address
				}
				return 1 + sr.Intn(6)
			case "token":
				if sr.Chance(10) {
					return 8 + sr.Intn(2)
				}
				return 1 + sr.Intn(7)
			}
			// bech32: upper case (accepted by the messages), another prefix (accepted for a received packet), hex, mixed case
			j := sr.Intn(20)
			if op.Op == "recv" {
				j = (j + 9) % 20
			}
			switch {
			case j < 13:
				return 1
			case j < 17:
				return 2
			case j < 19:
				return 3
			}
			return 4
		}
		op.SC, op.SA, op.SB = pick(fc, false), pick(fa, false), pick(fb, false)
		if !op.spelled() {
			switch {
			case fc != "":
				op.SC = pick(fc, true)
			case fb != "":
				op.SB = pick(fb, true)
			default:
				op.SA = pick(fa, true)
			}
		}
	}
	// whether the chain's parsing will refuse the op for its spelling (only steers the shadow)
	spellRefused := func(op pegOp) bool {
		fc, fa, fb := pegSpellFields(op.Op)
		bad := func(fam string, k int) bool {
			switch fam {
			case "hex":
				return k >= 7
			case "token":
				return k >= 8
			case "bech":
				if op.Op == "recv" {
					return k != 0 && k != 2
				}
				return k >= 2
			}
			return false
		}
		return bad(fc, op.SC) || bad(fa, op.SA) || bad(fb, op.SB)
	}
	// the thief spends: after a conversion attempt by message (cc / ce / the MsgSend wrapper / the IBC callbacks) or
	// through the hook (a transfer to the module address, a script transaction) of EVERY token kind a `spend` op
	// may follow - at once, or at the end of the history ("later spent") -: token.transferFrom(owner, thief, x) by
	// the thief, owner mostly the module account, x = what was just converted / a part / one more / above the
	// allowance of 10^18 / 0.  Its own random stream, and not counted in the history's length: the histories
	// are the ones generated before, with spends in between.
	xr := &Rng{s: r.s ^ 0x3c6ef372fe94f82b}
	extra := 0
	var lastConv *big.Int
	spendOp := func(amt *big.Int) pegOp {
		owner := pM
		if xr.Chance(15) {
			owner = holders[xr.Intn(3)]
		}
		var x *big.Int
		switch j := xr.Intn(20); {
		case j < 8:
			x = new(big.Int).Set(amt)
		case j < 13:
			x = big.NewInt(1)
			if amt.Sign() > 0 {
				x.Add(x, xr.Below(amt))
			}
		case j == 13:
			x = big.NewInt(1)
		case j == 14:
			x = new(big.Int).Add(amt, big.NewInt(1))
		case j == 15:
			x = new(big.Int).Mul(big.NewInt(2), new(big.Int).Exp(big.NewInt(10), big.NewInt(18), nil)) // above the allowance
		case j == 16:
			x = new(big.Int).Set(maxU256)
		case j == 17:
			x = big.NewInt(0)
		default:
			x = new(big.Int).Rsh(amt, 1)
			x.Add(x, big.NewInt(1))
		}
		if x.Cmp(maxU256) > 0 {
			x = new(big.Int).Set(maxU256)
		}
		return pegOp{Op: "spend", A: owner, X: x.String()}
	}
	maybeSpend := func(op pegOp) {
		var amt *big.Int
		hookPath := false
		switch op.Op {
		case "cc", "ce", "send", "recv", "ack", "timeout":
			amt = pegAmt(op.X)
		case "eth":
			if op.Call == "transfer" && op.B == pM {
				amt, hookPath = pegAmt(op.X), true
			}
		case "batch":
			for _, c := range op.Calls {
				if c.T == 0 && c.To == pM {
					if amt == nil {
						amt = big.NewInt(0)
					}
					amt = new(big.Int).Add(amt, pegAmt(c.X))
					hookPath = true
				}
			}
		}
		if amt == nil {
			return
		}
		if amt.Cmp(maxU256) > 0 {
			amt = new(big.Int).Set(maxU256)
		}
		lastConv = amt
		chance := 12
		if kind == "approve" && hookPath {
			chance = 55
		}
		if xr.Chance(chance) {
			push(spendOp(amt))
			extra++
		}
	}
	// initial endowments
	for _, h := range holders {
		if !r.Chance(75) {
			continue
		}
		v := r.Big(maxBits)
		v.Add(v, big.NewInt(1))
		if ownerMod {
			push(pegOp{Op: "fund", A: h, X: v.String()})
			coin[h].Add(coin[h], v)
		} else if kind != "const" && kind != "fakelog" {
			minter := pDeployer
			push(pegOp{Op: "eth", A: minter, B: h, Call: "mint", X: v.String()})
			tok[h].Add(tok[h], v)
		}
	}
	// rough shadow update, assuming success whenever the standard semantics would succeed
	enabled, on, hook, mode := true, true, true, 0
	shadow := func(op pegOp) {
		x := pegAmt(op.X)
		conv := enabled && on
		switch op.Op {
		case "cc":
			if conv && x.Sign() > 0 && x.Cmp(coin[op.A]) <= 0 && op.B != pM && op.B != pZero {
				coin[op.A].Sub(coin[op.A], x)
				tok[op.B].Add(tok[op.B], x)
			}
		case "ce":
			if conv && x.Sign() > 0 && x.Cmp(tok[op.A]) <= 0 && op.B != pM {
				tok[op.A].Sub(tok[op.A], x)
				coin[op.B].Add(coin[op.B], x)
			}
		case "eth":
			if op.Call == "transfer" && x.Cmp(tok[op.A]) <= 0 && op.B != pZero {
				tok[op.A].Sub(tok[op.A], x)
				if op.B == pM && conv && hook {
					coin[op.A].Add(coin[op.A], x)
				} else {
					tok[op.B].Add(tok[op.B], x)
				}
			}
			if op.Call == "burn" && x.Cmp(tok[op.A]) <= 0 {
				tok[op.A].Sub(tok[op.A], x)
			}
			if op.Call == "mint" && !ownerMod && op.B != pZero {
				tok[op.B].Add(tok[op.B], x)
			}
		case "send":
			if x.Sign() > 0 && op.B != pM && op.A != op.B {
				if conv {
					av := new(big.Int).Add(coin[op.A], tok[op.A])
					if x.Cmp(av) <= 0 {
						tok[op.A] = av.Sub(av, x)
						coin[op.A] = big.NewInt(0)
						tok[op.B].Add(tok[op.B], x)
					}
				} else if x.Cmp(coin[op.A]) <= 0 {
					coin[op.A].Sub(coin[op.A], x)
					coin[op.B].Add(coin[op.B], x)
				}
			}
		case "batch":
			// all or nothing: on copies
			t7, c7 := new(big.Int).Set(tok[pScript]), new(big.Int).Set(coin[pScript])
			var credit [pegNA]*big.Int
			okAll := true
			for _, c := range op.Calls {
				if c.T != 0 {
					continue
				}
				cx := pegAmt(c.X)
				if c.To == pZero || cx.Cmp(t7) > 0 {
					if !c.Catch {
						okAll = false
					}
					continue
				}
				t7.Sub(t7, cx)
				if c.To == pM && conv && hook {
					c7.Add(c7, cx)
				} else if c.To == pScript {
					t7.Add(t7, cx)
				} else {
					if credit[c.To] == nil {
						credit[c.To] = big.NewInt(0)
					}
					credit[c.To].Add(credit[c.To], cx)
				}
			}
			if okAll {
				tok[pScript], coin[pScript] = t7, c7
				for a, d := range credit {
					if d != nil {
						tok[a].Add(tok[a], d)
					}
				}
			}
		case "fund":
			coin[op.A].Add(coin[op.A], x)
		case "rawsend":
			if x.Sign() > 0 && x.Cmp(coin[op.A]) <= 0 {
				coin[op.A].Sub(coin[op.A], x)
				coin[op.B].Add(coin[op.B], x)
			}
		case "recv", "ack", "timeout":
			if x.Sign() > 0 && !(op.Op == "ack" && op.S) && (op.F || x.Cmp(coin[op.A]) <= 0) {
				if !op.F {
					coin[op.A].Sub(coin[op.A], x)
				}
				if conv {
					tok[op.B].Add(tok[op.B], x)
					if op.Op == "recv" {
						tok[op.B].Add(tok[op.B], coin[op.B])
						coin[op.B] = big.NewInt(0)
					}
				} else {
					coin[op.B].Add(coin[op.B], x)
				}
			}
		}
	}
	for len(in.Ops)-extra < nops {
		a, bb := holders[r.Intn(3)], anyActor()
		var op pegOp
		rich := func(bal *[pegNA]*big.Int) int { // mostly an actor who has what the operation needs
			if r.Chance(80) {
				c := []int{}
				for _, h := range holders {
					if bal[h].Sign() > 0 {
						c = append(c, h)
					}
				}
				if len(c) > 0 {
					return c[r.Intn(len(c))]
				}
			}
			return holders[r.Intn(3)]
		}
		k := r.Intn(113)
		switch {
		case k < 16, k >= 73 && k < 93:
			a = rich(&coin)
		case k < 46, k >= 58 && k < 62:
			a = rich(&tok)
		}
		if r.Chance(35) {
			bb = a
		}
		switch {
		case k >= 100: // a contract makes several transfers in ONE transaction
			if tok[pScript].Sign() == 0 || r.Chance(25) {
				// the contract first gets tokens: an ordinary transfer, or a conversion with the contract as receiver
				var f pegOp
				if h := rich(&coin); ownerMod && coin[h].Sign() > 0 && r.Bool() {
					f = pegOp{Op: "cc", A: h, B: pScript, X: pegGenAmount(r, coin[h]).String()}
				} else if coin[pScript].Sign() > 0 && r.Chance(40) {
					f = pegOp{Op: "cc", A: pScript, B: pScript, X: pegGenAmount(r, coin[pScript]).String()} // recycles what the hook paid out
				} else {
					h = rich(&tok)
					f = pegOp{Op: "eth", A: h, B: pScript, Call: "transfer", X: pegGenAmount(r, tok[h]).String()}
				}
				if pegAmt(f.X).Cmp(maxU256) > 0 {
					f.X = maxU256.String()
				}
				spell(&f)
				push(f)
				if !spellRefused(f) {
					shadow(f)
				}
				maybeSpend(f)
			}
			n := 2 + r.Intn(3)
			if r.Chance(10) {
				n = 1
			}
			left := new(big.Int).Set(tok[pScript])
			var calls []pegCall
			if k >= 106 {
				// Transfer logs of SEVERAL token contracts of different registration status in a scripted
				// order: a palette of 2-3 contracts (mostly one whose logs the hook must convert and one
				// whose logs it must ignore), each call on one of them, often the same one again
				palette := []int{r.Intn(3), 3 + r.Intn(3)}
				if r.Chance(40) {
					palette = append(palette, r.Intn(6))
				}
				if r.Chance(12) {
					palette = []int{r.Intn(6), r.Intn(6)}
				}
				n = 2 + r.Intn(5)
				last := palette[r.Intn(len(palette))]
				for i := 0; i < n; i++ {
					t := palette[r.Intn(len(palette))]
					if i > 0 && r.Chance(35) {
						t = last
					}
					last = t
					c := pegCall{T: t, To: pM}
					if r.Chance(22) {
						c.To = anyActor()
					}
					if t == 0 {
						v := big.NewInt(0)
						if left.Sign() > 0 && r.Chance(90) {
							v = r.Below(left)
							v.Rsh(v, uint(1+r.Intn(3)))
							v.Add(v, big.NewInt(1))
						} else {
							v = big.NewInt(int64(r.Intn(3)))
						}
						c.X, c.Catch = v.String(), r.Chance(30)
						if v.Cmp(left) > 0 {
							c.Catch = r.Chance(90)
						} else {
							left.Sub(left, v)
						}
					} else {
						if r.Chance(55) {
							c.F = holders[r.Intn(3)]
						}
						switch j := r.Intn(20); {
						case j == 0:
							c.X = "0"
						case j == 1:
							c.X = fmt.Sprint(900 + r.Intn(2000)) // mostly more than `from` holds
						default:
							c.X = fmt.Sprint(1 + r.Intn(70))
						}
					}
					calls = append(calls, c)
				}
				n = 0
			}
			for i := 0; i < n; i++ {
				switch j := r.Intn(100); {
				case j < 22: // the token of another registered pair
					calls = append(calls, pegCall{T: 1 + r.Intn(2), X: fmt.Sprint(r.Intn(2 * pegByScript / 3))})
				case j < 32: // to somebody else
					v := pegGenAmount(r, left)
					calls = append(calls, pegCall{To: anyActor(), X: v.String(), Catch: r.Chance(30)})
					if v.Cmp(left) <= 0 {
						left.Sub(left, v)
					}
				default: // to the module address: a part of what is left, rarely more than that
					v := big.NewInt(0)
					switch {
					case left.Sign() > 0 && r.Chance(85):
						v = r.Below(left)
						if i < n-1 && r.Chance(70) {
							v.Rsh(v, uint(1+r.Intn(3)))
						}
						v.Add(v, big.NewInt(1))
					case r.Chance(50):
						v = pegGenAmount(r, left)
					default:
						v = big.NewInt(int64(r.Intn(3)))
					}
					c := pegCall{To: pM, X: v.String(), Catch: r.Chance(20)}
					if v.Cmp(left) > 0 {
						c.Catch = r.Chance(85)
					} else {
						left.Sub(left, v)
					}
					calls = append(calls, c)
				}
				if c := &calls[len(calls)-1]; pegAmt(c.X).Cmp(maxU256) > 0 {
					c.X = maxU256.String()
				}
			}
			op = pegOp{Op: "batch", A: a, Calls: calls}
		case k < 16: // coin -> token by message
			op = pegOp{Op: "cc", A: a, B: bb, X: pegGenAmount(r, coin[a]).String()}
		case k < 32: // token -> coin by message
			op = pegOp{Op: "ce", A: a, B: bb, X: pegGenAmount(r, tok[a]).String()}
		case k < 46: // hook path
			to := pM
			if r.Chance(25) {
				to = anyActor()
			}
			op = pegOp{Op: "eth", A: a, B: to, Call: "transfer", X: pegGenAmount(r, tok[a]).String()}
		case k < 58: // bank send wrapper
			av := new(big.Int).Add(coin[a], tok[a])
			op = pegOp{Op: "send", A: a, B: anyActor(), X: pegGenAmount(r, av).String()}
		case k < 62:
			op = pegOp{Op: "eth", A: a, Call: "burn", X: pegGenAmount(r, tok[a]).String()}
		case k < 66:
			if ownerMod {
				op = pegOp{Op: "fund", A: a, X: r.Big(maxBits).String()}
			} else {
				minter := pDeployer
				if kind == "cham" && r.Bool() {
					minter = a
				}
				op = pegOp{Op: "eth", A: minter, B: anyActor(), Call: "mint", X: r.Big(maxBits).String()}
			}
		case k < 70:
			op = pegOp{Op: "toggle"}
			enabled = !enabled
		case k < 73:
			on, hook = !r.Chance(35), !r.Chance(35)
			op = pegOp{Op: "params", E: on, H: hook}
		case k < 79: // IBC receive
			if ownerMod && r.Chance(70) {
				op = pegOp{Op: "recv", F: true, B: a, X: pegGenAmount(r, big.NewInt(1000)).String(), S: r.Chance(10)}
			} else {
				op = pegOp{Op: "recv", A: a, B: holders[r.Intn(3)], X: pegGenAmount(r, coin[a]).String(), S: r.Chance(10)}
			}
		case k < 84: // IBC acknowledgement
			if ownerMod && r.Chance(70) {
				op = pegOp{Op: "ack", F: true, B: a, X: pegGenAmount(r, big.NewInt(1000)).String(), S: r.Chance(30)}
			} else {
				op = pegOp{Op: "ack", A: a, B: holders[r.Intn(3)], X: pegGenAmount(r, coin[a]).String(), S: r.Chance(30)}
			}
		case k < 88:
			if ownerMod && r.Chance(70) {
				op = pegOp{Op: "timeout", F: true, B: a, X: pegGenAmount(r, big.NewInt(1000)).String()}
			} else {
				op = pegOp{Op: "timeout", A: a, B: holders[r.Intn(3)], X: pegGenAmount(r, coin[a]).String()}
			}
		case k < 91:
			op = pegOp{Op: "rawsend", A: a, B: holders[r.Intn(3)], X: pegGenAmount(r, coin[a]).String()}
		case k < 93:
			op = pegOp{Op: "ibcsend", A: a, X: pegGenAmount(r, new(big.Int).Add(coin[a], tok[a])).String()}
		case k < 99:
			if kind == "cham" {
				mode = r.Intn(chNModes)
				if r.Chance(30) {
					mode = chHonest
				}
				op = pegOp{Op: "eth", A: a, Call: "mode", M: mode}
			} else {
				op = pegOp{Op: "eth", A: a, Call: "other"}
			}
		default:
			op = pegOp{Op: "eth", A: a, Call: "kill"}
		}
		if op.X != "" && pegAmt(op.X).Cmp(maxU256) > 0 {
			op.X = maxU256.String()
		}
		spell(&op)
		push(op)
		if !spellRefused(op) {
			shadow(op)
		} else if op.Op == "toggle" {
			enabled = !enabled // the refused toggle did not happen
		}
		maybeSpend(op)
	}
	if lastConv != nil {
		chance := 10
		if kind == "approve" {
			chance = 45
		}
		if xr.Chance(chance) {
			push(spendOp(lastConv))
		}
	}
	return in
}

func erc20Driver(cfg Config, out *Out) error {
	if cfg.Replay != "" {
		i := 0
		return readReplayInputs(cfg.Replay, func(raw json.RawMessage) error {
			var in pegInput
			if err := json.Unmarshal(raw, &in); err != nil {
				return err
			}
			out.Emit(pegRunCase(fmt.Sprintf("replay-%d", i), in))
			i++
			return nil
		})
	}
	r := NewRng(cfg.Seed)
	for i := 0; i < cfg.N; i++ {
		cr := r.Fork()
		out.Emit(pegRunCase(fmt.Sprintf("s%d-%d", cfg.Seed, i), pegGen(cr, 8+cr.Intn(12))))
	}
	return nil
}
