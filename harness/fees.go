package main

// Driver "fees" (property C07): generated Ethereum (legacy / access-list /
// dynamic-fee, single and multi-message, the messages of one transaction signed
// by up to three different accounts in every interleaving) and Cosmos
// transactions through the real BaseApp.DeliverTx of a real application, with
// the fee-market parameters swept.  Observed: accept/reject class, response gas
// wanted/used, per-message gas used, net payment of EVERY signer account (value
// moved excluded), fee-collector delta, and the verdict of the same ante chain
// in CheckTx mode.
//
// Every case starts from the same committed base state: the uncommitted deliver
// state is dropped (see feeResetDeliver) and BeginBlock opens a fresh one.
//
// The raw EVM figures the model takes as oracle input (gas consumed before
// refund, refund counter, vm failure, hard error) are obtained on a
// copy-on-write fork of the deliver state: the application's own ante chain,
// then for every message ApplyMessageWithConfig (with a tracer) and RefundGas,
// composed the way ApplyTransaction composes them.

import (
	"crypto/ecdsa"
	"encoding/json"
	"fmt"
	"math/big"
	"reflect"
	"sort"
	"strings"
	"time"
	"unsafe"

	sdkmath "cosmossdk.io/math"
	abci "github.com/cometbft/cometbft/abci/types"
	tmproto "github.com/cometbft/cometbft/proto/tendermint/types"
	"github.com/cosmos/cosmos-sdk/client"
	clienttx "github.com/cosmos/cosmos-sdk/client/tx"
	codectypes "github.com/cosmos/cosmos-sdk/codec/types"
	sdk "github.com/cosmos/cosmos-sdk/types"
	sdkerrors "github.com/cosmos/cosmos-sdk/types/errors"
	"github.com/cosmos/cosmos-sdk/types/tx/signing"
	authsigning "github.com/cosmos/cosmos-sdk/x/auth/signing"
	authtx "github.com/cosmos/cosmos-sdk/x/auth/tx"
	authtypes "github.com/cosmos/cosmos-sdk/x/auth/types"
	banktypes "github.com/cosmos/cosmos-sdk/x/bank/types"
	"github.com/cosmos/gogoproto/proto"
	"github.com/ethereum/go-ethereum/common"
	"github.com/ethereum/go-ethereum/core"
	ethtypes "github.com/ethereum/go-ethereum/core/types"
	"github.com/ethereum/go-ethereum/core/vm"
	"github.com/ethereum/go-ethereum/crypto"

	"github.com/haqq-network/haqq/app"
	haqqante "github.com/haqq-network/haqq/app/ante"
	evmante "github.com/haqq-network/haqq/app/ante/evm"
	"github.com/haqq-network/haqq/crypto/ethsecp256k1"
	"github.com/haqq-network/haqq/encoding"
	"github.com/haqq-network/haqq/testutil"
	haqqtypes "github.com/haqq-network/haqq/types"
	"github.com/haqq-network/haqq/utils"
	"github.com/haqq-network/haqq/x/evm/statedb"
	evmtypes "github.com/haqq-network/haqq/x/evm/types"
)

func init() { register("fees", feesDriver) }

// ---------------------------------------------------------------- input
type feeCoin struct {
	D int    `json:"d"` // 0 aISLM (EVM denomination), 1 stake, 2 uatom
	A string `json:"a"`
}

var feeDenoms = []string{utils.BaseDenom, "stake", "uatom"}

type feeMsg struct {
	Type  int    `json:"type"`            // 0 legacy, 1 access list, 2 dynamic fee
	Gas   uint64 `json:"gas"`             // gas limit
	Price string `json:"price"`           // gas price (types 0, 1) or fee cap (type 2)
	Tip   string `json:"tip,omitempty"`   // tip cap (type 2)
	Value string `json:"value,omitempty"` // value sent
	Kind  string `json:"kind"`            // transfer nop set clear revert log create createfail
	Slot  int    `json:"slot,omitempty"`  // first storage slot touched by set/clear/revert
	N     int    `json:"n,omitempty"`     // number of slots
	AL    int    `json:"al,omitempty"`    // access-list entries (types 1, 2)
	From  int    `json:"from,omitempty"`  // signer of the message: 0 = A (also the signer of Cosmos transactions), 1 = B, 2 = C
}

type feeTx struct {
	Route string    `json:"route"` // "eth" | "cosmos"
	Msgs  []feeMsg  `json:"msgs,omitempty"`
	Gas   uint64    `json:"gas,omitempty"`  // cosmos: gas limit
	Fee   []feeCoin `json:"fee,omitempty"`  // cosmos: declared fee
	Tip   *string   `json:"tip,omitempty"`  // cosmos: ExtensionOptionDynamicFeeTx.MaxPriorityPrice (absent = no option)
	Send  string    `json:"send,omitempty"` // cosmos: amount of the bank send
}

type feeParams struct {
	Mgp    string `json:"mgp"`  // feemarket MinGasPrice, in 10^-18 units
	Base   string `json:"base"` // feemarket BaseFee
	NoBase bool   `json:"nobase,omitempty"`
	Mult   string `json:"mult"` // feemarket MinGasMultiplier, in 10^-18 units
}

type feeInput struct {
	Params feeParams `json:"params"`
	Bal    string    `json:"bal"`            // aISLM balance of signer A before the first transaction
	Bals   []string  `json:"bals,omitempty"` // aISLM balances of signers B, C (absent: none)
	Pre    []int     `json:"pre,omitempty"` // storage slots of the script contract that are non-zero beforehand
	Txs    []feeTx   `json:"txs"`
}

// ---------------------------------------------------------------- environment
var (
	feeKey, _   = crypto.HexToECDSA("3a1076bf45ab87712ad64ccb3b10217737f7faacbf2872e88fdd9a537d8fe266")
	feeKeyB, _  = crypto.HexToECDSA("4b2187c056bc98823be75ddc4c21328848f8fbbdc03983f9a0eeab648e9fe377")
	feeKeyC, _  = crypto.HexToECDSA("5c3298d167cda9934cf86eed5d3243995a09fccecd14a40ab1ffbc759fa0f488")
	feeKeys     = []*ecdsa.PrivateKey{feeKey, feeKeyB, feeKeyC}
	feeSender   = crypto.PubkeyToAddress(feeKey.PublicKey)
	feeSigners  = []common.Address{feeSender, crypto.PubkeyToAddress(feeKeyB.PublicKey), crypto.PubkeyToAddress(feeKeyC.PublicKey)}
	feeSink     = common.HexToAddress("0x5100000000000000000000000000000000000051")
	feeContract = common.HexToAddress("0xC700000000000000000000000000000000000007")
	feeColl     = authtypes.NewModuleAddress(authtypes.FeeCollectorName)
	// init code returning ten zero bytes of runtime code / init code that reverts
	feeInitOK   = assemble("10 0 RETURN")
	feeInitFail = assemble("0 0 REVERT")
)

type feeEnv struct {
	App   *app.Haqq
	Hdr   tmproto.Header
	TxCfg client.TxConfig
	Ante  sdk.AnteHandler
	Priv  *ethsecp256k1.PrivKey
}

var feeBase *feeEnv

func feeBaseEnv() *feeEnv {
	if feeBase != nil {
		return feeBase
	}
	a, _ := app.Setup(false, nil, chainID)
	t0 := time.Unix(1_700_000_000, 0).UTC()
	hdr := tmproto.Header{Height: 1, ChainID: chainID, Time: t0}
	a.BeginBlock(abci.RequestBeginBlock{Header: hdr})
	ctx := a.BaseApp.NewContext(false, hdr)
	vals := a.StakingKeeper.GetAllValidators(ctx)
	if len(vals) == 0 {
		panic("fees: no validator")
	}
	cons, err := vals[0].GetConsAddr()
	if err != nil {
		panic(err)
	}
	// the script contract, and funds for the sender in the two non-EVM denominations
	k := a.EvmKeeper
	codeHash := crypto.Keccak256Hash(scriptCode)
	k.SetCode(ctx, codeHash.Bytes(), scriptCode)
	if err := k.SetAccount(ctx, feeContract, statedb.Account{Nonce: 1, Balance: big.NewInt(0), CodeHash: codeHash.Bytes()}); err != nil {
		panic(err)
	}
	big24 := sdkmath.NewIntFromBigInt(new(big.Int).Exp(big.NewInt(10), big.NewInt(24), nil))
	if err := testutil.FundAccount(ctx, a.BankKeeper, sdk.AccAddress(feeSender.Bytes()),
		sdk.NewCoins(sdk.NewCoin("stake", big24), sdk.NewCoin("uatom", big24))); err != nil {
		panic(err)
	}
	// signers B and C exist as accounts (a non-EVM coin each); their aISLM balance is part of the input
	for _, sg := range feeSigners[1:] {
		if err := testutil.FundAccount(ctx, a.BankKeeper, sdk.AccAddress(sg.Bytes()), sdk.NewCoins(sdk.NewCoin("stake", sdkmath.NewInt(1)))); err != nil {
			panic(err)
		}
	}
	a.EndBlock(abci.RequestEndBlock{Height: 1})
	a.Commit()
	hdr2 := tmproto.Header{Height: 2, ChainID: chainID, Time: t0.Add(5 * time.Second), ProposerAddress: cons}
	enc := encoding.MakeConfig(app.ModuleBasics)
	opts := haqqante.HandlerOptions{
		Cdc:                    a.AppCodec(),
		AccountKeeper:          a.AccountKeeper,
		BankKeeper:             a.BankKeeper,
		ExtensionOptionChecker: haqqtypes.HasDynamicFeeExtensionOption,
		EvmKeeper:              a.EvmKeeper,
		StakingKeeper:          a.StakingKeeper,
		FeegrantKeeper:         a.FeeGrantKeeper,
		DistributionKeeper:     a.DistrKeeper,
		IBCKeeper:              a.IBCKeeper,
		FeeMarketKeeper:        a.FeeMarketKeeper,
		SignModeHandler:        enc.TxConfig.SignModeHandler(),
		SigGasConsumer:         haqqante.SigVerificationGasConsumer,
		MaxTxGasWanted:         0,
		TxFeeChecker:           evmante.NewDynamicFeeChecker(a.EvmKeeper),
	}
	if err := opts.Validate(); err != nil {
		panic(err)
	}
	feeBase = &feeEnv{App: a, Hdr: hdr2, TxCfg: enc.TxConfig,
		Ante: app.NewHaqqAnteHandlerDecorator(*a.StakingKeeper.Keeper, haqqante.NewAnteHandler(opts)),
		Priv: &ethsecp256k1.PrivKey{Key: crypto.FromECDSA(feeKey)}}
	return feeBase
}

// feeResetDeliver drops BaseApp's uncommitted deliver state (the field is
// unexported; BeginBlock creates a fresh one from the committed store when it
// is nil), so that every case starts from the identical committed base state.
func feeResetDeliver(a *app.Haqq) {
	f := reflect.ValueOf(a.BaseApp).Elem().FieldByName("deliverState")
	if !f.IsValid() {
		panic("fees: BaseApp has no field deliverState")
	}
	reflect.NewAt(f.Type(), unsafe.Pointer(f.UnsafeAddr())).Elem().Set(reflect.Zero(f.Type()))
}

// begin opens a fresh block on the base state and returns a context writing
// into the deliver state (what DeliverTx will see).
func (e *feeEnv) begin() sdk.Context {
	feeResetDeliver(e.App)
	e.App.BeginBlock(abci.RequestBeginBlock{Header: e.Hdr})
	return e.dctx()
}

func (e *feeEnv) dctx() sdk.Context {
	ctx := e.App.BaseApp.NewContext(false, e.Hdr)
	return ctx.WithConsensusParams(e.App.GetConsensusParams(ctx)).WithBlockGasMeter(sdk.NewInfiniteGasMeter())
}

func decRaw(s string) sdk.Dec { return sdk.NewDecFromBigIntWithPrec(bigOf(s), 18) }

func (e *feeEnv) setup(ctx sdk.Context, in feeInput) error {
	p := e.App.FeeMarketKeeper.GetParams(ctx)
	p.NoBaseFee = in.Params.NoBase
	p.BaseFee = sdkmath.NewIntFromBigInt(bigOf(in.Params.Base))
	p.MinGasPrice = decRaw(in.Params.Mgp)
	p.MinGasMultiplier = decRaw(in.Params.Mult)
	p.EnableHeight = 0
	if err := p.Validate(); err != nil {
		return fmt.Errorf("params: %w", err)
	}
	if err := e.App.FeeMarketKeeper.SetParams(ctx, p); err != nil {
		return err
	}
	if len(in.Bals) > len(feeSigners)-1 {
		return fmt.Errorf("bals: at most %d entries", len(feeSigners)-1)
	}
	for i, bs := range append([]string{in.Bal}, in.Bals...) {
		if b := bigOf(bs); b.Sign() > 0 {
			if err := testutil.FundAccount(ctx, e.App.BankKeeper, sdk.AccAddress(feeSigners[i].Bytes()),
				sdk.NewCoins(sdk.NewCoin(utils.BaseDenom, sdkmath.NewIntFromBigInt(b)))); err != nil {
				return err
			}
		}
	}
	for _, s := range in.Pre {
		e.App.EvmKeeper.SetState(ctx, feeContract, common.BigToHash(big.NewInt(int64(s))), common.BigToHash(big.NewInt(9)).Bytes())
	}
	return nil
}

// ---------------------------------------------------------------- transactions
func (m feeMsg) payload() (to *common.Address, data []byte) {
	switch m.Kind {
	case "transfer":
		return &feeSink, nil
	case "nop":
		return &feeContract, nil
	case "set", "clear", "revert":
		v := uint64(7)
		if m.Kind == "clear" {
			v = 0
		}
		n := m.N
		if n < 1 {
			n = 1
		}
		for i := 0; i < n; i++ {
			data = append(data, encSStore(uint64(m.Slot+i), v)...)
		}
		if m.Kind == "revert" {
			data = append(data, encRevert()...)
		}
		return &feeContract, data
	case "log":
		return &feeContract, encLog()
	case "create":
		return nil, feeInitOK
	case "createfail":
		return nil, feeInitFail
	}
	panic("fees: bad kind " + m.Kind)
}

func (m feeMsg) accessList() ethtypes.AccessList {
	if m.Type == 0 || m.AL == 0 {
		return nil
	}
	al := ethtypes.AccessList{}
	for i := 0; i < m.AL; i++ {
		al = append(al, ethtypes.AccessTuple{Address: feeContract, StorageKeys: []common.Hash{common.BigToHash(big.NewInt(int64(1000 + i)))}})
	}
	return al
}

func (m feeMsg) intrinsic() uint64 {
	to, data := m.payload()
	g, err := core.IntrinsicGas(data, m.accessList(), to == nil, true, true)
	if err != nil {
		panic(err)
	}
	return g
}

func (m feeMsg) ethTx(chain *big.Int, nonce uint64) *ethtypes.Transaction {
	to, data := m.payload()
	val := bigOf(m.Value)
	var inner ethtypes.TxData
	switch m.Type {
	case 0:
		inner = &ethtypes.LegacyTx{Nonce: nonce, GasPrice: bigOf(m.Price), Gas: m.Gas, To: to, Value: val, Data: data}
	case 1:
		inner = &ethtypes.AccessListTx{ChainID: chain, Nonce: nonce, GasPrice: bigOf(m.Price), Gas: m.Gas, To: to, Value: val, Data: data, AccessList: m.accessList()}
	default:
		inner = &ethtypes.DynamicFeeTx{ChainID: chain, Nonce: nonce, GasFeeCap: bigOf(m.Price), GasTipCap: bigOf(m.Tip), Gas: m.Gas, To: to, Value: val, Data: data, AccessList: m.accessList()}
	}
	stx, err := ethtypes.SignTx(ethtypes.NewTx(inner), ethtypes.LatestSignerForChainID(chain), feeKeys[m.From])
	if err != nil {
		panic(err)
	}
	return stx
}

// buildEth wraps signed Ethereum transactions into one Cosmos transaction the way
// clients do (extension option, fee = sum of fee-cap x gas, gas = sum of limits).
func (e *feeEnv) buildEth(ctx sdk.Context, t feeTx) (sdk.Tx, []*ethtypes.Transaction, []common.Address, error) {
	chain := e.App.EvmKeeper.ChainID()
	// every signer's messages carry its consecutive nonces
	nonces := make([]uint64, len(feeSigners))
	for i, a := range feeSigners {
		nonces[i] = e.App.EvmKeeper.GetNonce(ctx, a)
	}
	b := e.TxCfg.NewTxBuilder()
	msgs := []sdk.Msg{}
	etxs := []*ethtypes.Transaction{}
	recips := []common.Address{}
	fee := sdkmath.ZeroInt()
	gas := uint64(0)
	for _, m := range t.Msgs {
		if m.From < 0 || m.From >= len(feeSigners) {
			return nil, nil, nil, fmt.Errorf("from: no signer %d", m.From)
		}
		nonce := nonces[m.From]
		nonces[m.From]++
		stx := m.ethTx(chain, nonce)
		msg := &evmtypes.MsgEthereumTx{}
		if err := msg.FromEthereumTx(stx); err != nil {
			return nil, nil, nil, err
		}
		msgs = append(msgs, msg)
		etxs = append(etxs, stx)
		fee = fee.Add(sdkmath.NewIntFromBigInt(msg.GetFee()))
		gas += m.Gas
		if stx.To() != nil {
			recips = append(recips, *stx.To())
		} else {
			recips = append(recips, crypto.CreateAddress(feeSigners[m.From], nonce))
		}
	}
	if err := b.SetMsgs(msgs...); err != nil {
		return nil, nil, nil, err
	}
	opt, err := codectypes.NewAnyWithValue(&evmtypes.ExtensionOptionsEthereumTx{})
	if err != nil {
		return nil, nil, nil, err
	}
	b.(authtx.ExtensionOptionsTxBuilder).SetExtensionOptions(opt)
	b.SetGasLimit(gas)
	if fee.IsPositive() {
		b.SetFeeAmount(sdk.Coins{{Denom: utils.BaseDenom, Amount: fee}})
	}
	return b.GetTx(), etxs, recips, nil
}

func (e *feeEnv) buildCosmos(ctx sdk.Context, t feeTx) (sdk.Tx, error) {
	b := e.TxCfg.NewTxBuilder()
	from := sdk.AccAddress(feeSender.Bytes())
	send := bigOf(t.Send)
	msg := banktypes.NewMsgSend(from, sdk.AccAddress(feeSink.Bytes()), sdk.Coins{{Denom: utils.BaseDenom, Amount: sdkmath.NewIntFromBigInt(send)}})
	if err := b.SetMsgs(msg); err != nil {
		return nil, err
	}
	b.SetGasLimit(t.Gas)
	fee := sdk.Coins{}
	for _, c := range t.Fee {
		fee = append(fee, sdk.Coin{Denom: feeDenoms[c.D], Amount: sdkmath.NewIntFromBigInt(bigOf(c.A))})
	}
	b.SetFeeAmount(fee)
	if t.Tip != nil {
		opt, err := codectypes.NewAnyWithValue(&haqqtypes.ExtensionOptionDynamicFeeTx{MaxPriorityPrice: sdkmath.NewIntFromBigInt(bigOf(*t.Tip))})
		if err != nil {
			return nil, err
		}
		b.(authtx.ExtensionOptionsTxBuilder).SetExtensionOptions(opt)
	}
	acc := e.App.AccountKeeper.GetAccount(ctx, from)
	if acc == nil {
		return nil, fmt.Errorf("sender account missing")
	}
	seq := acc.GetSequence()
	mode := signing.SignMode_SIGN_MODE_DIRECT
	sig := signing.SignatureV2{PubKey: e.Priv.PubKey(), Data: &signing.SingleSignatureData{SignMode: mode}, Sequence: seq}
	if err := b.SetSignatures(sig); err != nil {
		return nil, err
	}
	sd := authsigning.SignerData{ChainID: chainID, AccountNumber: acc.GetAccountNumber(), Sequence: seq}
	sig, err := clienttx.SignWithPrivKey(mode, sd, b, e.Priv, e.TxCfg, seq)
	if err != nil {
		return nil, err
	}
	if err := b.SetSignatures(sig); err != nil {
		return nil, err
	}
	return b.GetTx(), nil
}

// ---------------------------------------------------------------- raw EVM figures
type feeTracer struct {
	env     *vm.EVM
	started bool
	ended   bool
	used    uint64
	refund  uint64
}

func (t *feeTracer) CaptureTxStart(uint64) {}
func (t *feeTracer) CaptureTxEnd(uint64)   {}
func (t *feeTracer) CaptureStart(env *vm.EVM, _ common.Address, _ common.Address, _ bool, _ []byte, _ uint64, _ *big.Int) {
	if !t.started {
		t.env, t.started = env, true
	}
}
func (t *feeTracer) CaptureEnd(_ []byte, gasUsed uint64, _ time.Duration, _ error) {
	t.ended = true
	t.used = gasUsed
	if t.env != nil {
		t.refund = t.env.StateDB.GetRefund()
	}
}
func (t *feeTracer) CaptureEnter(vm.OpCode, common.Address, common.Address, []byte, uint64, *big.Int) {
}
func (t *feeTracer) CaptureExit([]byte, uint64, error) {}
func (t *feeTracer) CaptureState(uint64, vm.OpCode, uint64, uint64, *vm.ScopeContext, []byte, int, error) {
}
func (t *feeTracer) CaptureFault(uint64, vm.OpCode, uint64, uint64, *vm.ScopeContext, int, error) {}

type feeEvm struct {
	Hard     bool   `json:"hard,omitempty"`
	Consumed uint64 `json:"consumed"`
	Refund   uint64 `json:"refund"`
	Failed   bool   `json:"failed,omitempty"`
	NoTrace  bool   `json:"notrace,omitempty"`
	Err      string `json:"err,omitempty"`
}

func errCat(err error) int {
	switch {
	case err == nil:
		return 0
	case sdkerrors.ErrInsufficientFee.Is(err):
		return 1
	case sdkerrors.ErrInsufficientFunds.Is(err):
		return 2
	}
	return 3
}

func codeCat(codespace string, code uint32) int {
	switch {
	case code == 0:
		return 0
	case codespace == sdkerrors.RootCodespace && code == sdkerrors.ErrInsufficientFee.ABCICode():
		return 1
	case codespace == sdkerrors.RootCodespace && code == sdkerrors.ErrInsufficientFunds.ABCICode():
		return 2
	}
	return 3
}

func feeShort(s string) string {
	if len(s) > 140 {
		return s[:140]
	}
	return s
}

// anteOn runs the application's ante chain on a context (deliver or check mode),
// with baseapp's panic recovery.
func (e *feeEnv) anteOn(ctx sdk.Context, tx sdk.Tx, check bool) (nctx sdk.Context, err error) {
	defer func() {
		if r := recover(); r != nil {
			err = fmt.Errorf("panic: %v", r)
		}
	}()
	ctx = ctx.WithIsCheckTx(check).WithGasMeter(sdk.NewInfiniteGasMeter())
	return e.Ante(ctx, tx, false)
}

// rawEvm learns, on a fork, what the EVM does with each message of the
// transaction in the state the real DeliverTx will run it in.
func (e *feeEnv) rawEvm(ctx sdk.Context, tx sdk.Tx, etxs []*ethtypes.Transaction) (outs []feeEvm) {
	fork, _ := ctx.CacheContext()
	nctx, err := e.anteOn(fork, tx, false)
	for range etxs {
		outs = append(outs, feeEvm{Hard: true, Err: "not run"})
	}
	if err != nil {
		return outs
	}
	fork = nctx.WithMultiStore(fork.MultiStore())
	k := e.App.EvmKeeper
	defer func() {
		if r := recover(); r != nil {
			// a panic inside the real run fails the transaction: hard error from here on
		}
	}()
	for i, etx := range etxs {
		cfg, err := k.EVMConfig(fork, sdk.ConsAddress(fork.BlockHeader().ProposerAddress), k.ChainID())
		if err != nil {
			outs[i].Err = feeShort(err.Error())
			return outs
		}
		signer := ethtypes.MakeSigner(cfg.ChainConfig, big.NewInt(fork.BlockHeight()))
		msg, err := etx.AsMessage(signer, cfg.BaseFee)
		if err != nil {
			outs[i].Err = feeShort(err.Error())
			return outs
		}
		tr := &feeTracer{}
		res, err := k.ApplyMessageWithConfig(fork, msg, tr, true, cfg, k.TxConfig(fork, etx.Hash()))
		if err != nil {
			outs[i].Err = feeShort(err.Error())
			return outs
		}
		intr, _ := core.IntrinsicGas(msg.Data(), msg.AccessList(), msg.To() == nil, true, true)
		o := feeEvm{Consumed: intr, Failed: res.Failed(), Err: res.VmError}
		if tr.ended {
			o.Consumed += tr.used
			o.Refund = tr.refund
		} else {
			// the EVM returned before the top-level frame started (e.g. value not
			// affordable): nothing beyond the intrinsic gas was consumed
			o.NoTrace = true
		}
		outs[i] = o
		if err := k.RefundGas(fork, msg, msg.Gas()-res.GasUsed, cfg.Params.EvmDenom); err != nil {
			outs[i] = feeEvm{Hard: true, Err: feeShort(err.Error())}
			return outs
		}
	}
	return outs
}

// ---------------------------------------------------------------- observation
type feeObs struct {
	Code    int      `json:"code"`  // 0 executed, 1 refused by the ante chain (no effect), 4 ante passed, execution failed
	Check   int      `json:"check"` // the same ante chain in CheckTx mode: 0 passes, 1 refuses
	Cat     int      `json:"cat"`   // error class of a refusal, informational: 1 insufficient fee, 2 insufficient funds, 3 other
	CkCat   int      `json:"ckcat"`
	Prio    int64    `json:"prio"`  // priority the ante chain sets in CheckTx mode (0 when it refuses)
	Wanted  uint64   `json:"wanted"`
	Used    uint64   `json:"used"`
	Nets    []string `json:"nets"` // per signer A, B, C: balance decrease minus the value its messages moved to the recipients
	Coll    string   `json:"coll"` // fee collector increase
	MsgUsed []uint64 `json:"msg_used"`
	Bals0   []string `json:"bals0"` // per signer: balance before the transaction
	Coll0   string   `json:"coll0"`
	Moved   string   `json:"moved"`
	Evm     []feeEvm `json:"evm,omitempty"`
	Intr    []uint64 `json:"intr,omitempty"`
	Log     string   `json:"log,omitempty"`
	CkLog   string   `json:"cklog,omitempty"`
	RawCode uint32   `json:"rawcode"`
	Stray   string   `json:"stray,omitempty"`
}

func (e *feeEnv) bal(ctx sdk.Context, a []byte) *big.Int {
	return e.App.BankKeeper.GetBalance(ctx, sdk.AccAddress(a), utils.BaseDenom).Amount.BigInt()
}

func (e *feeEnv) runTx(t feeTx) (o feeObs) {
	ctx := e.dctx()
	var tx sdk.Tx
	var etxs []*ethtypes.Transaction
	recips := []common.Address{feeSink}
	var err error
	if t.Route == "eth" {
		tx, etxs, recips, err = e.buildEth(ctx, t)
		for _, m := range t.Msgs {
			o.Intr = append(o.Intr, m.intrinsic())
		}
	} else {
		tx, err = e.buildCosmos(ctx, t)
	}
	if err != nil {
		o.Stray = "build: " + err.Error()
		return o
	}
	bz, err := e.TxCfg.TxEncoder()(tx)
	if err != nil {
		o.Stray = "encode: " + err.Error()
		return o
	}
	// decoded form, as baseapp sees it (a fresh decode per use: the signature
	// decorator caches the sender inside the message)
	decode := func() sdk.Tx {
		d, err := e.TxCfg.TxDecoder()(bz)
		if err != nil {
			panic(err)
		}
		return d
	}
	if _, err := e.TxCfg.TxDecoder()(bz); err != nil {
		o.Stray = "decode: " + err.Error()
		return o
	}
	if t.Route == "eth" {
		o.Evm = e.rawEvm(ctx.WithTxBytes(bz), decode(), etxs)
	}
	// CheckTx mode verdict of the same chain (fork, discarded); message-level
	// ValidateBasic runs in baseapp before the ante chain in both modes
	{
		fork, _ := ctx.CacheContext()
		var cerr error
		dtx := decode()
		for _, m := range dtx.GetMsgs() {
			if vb, ok := m.(interface{ ValidateBasic() error }); ok && cerr == nil {
				cerr = vb.ValidateBasic()
			}
		}
		if cerr == nil {
			var nctx sdk.Context
			nctx, cerr = e.anteOn(fork.WithTxBytes(bz), dtx, true)
			if cerr == nil {
				o.Prio = nctx.Priority()
			}
		}
		o.CkCat = errCat(cerr)
		if cerr != nil {
			o.Check = 1
			o.CkLog = feeShort(cerr.Error())
		}
	}
	uniq := map[common.Address]bool{}
	rs := []common.Address{}
	isSigner := map[common.Address]bool{}
	for _, a := range feeSigners {
		isSigner[a] = true
	}
	for _, r := range recips {
		if !uniq[r] && !isSigner[r] {
			uniq[r] = true
			rs = append(rs, r)
		}
	}
	ns := len(feeSigners)
	b0, b1 := make([]*big.Int, ns), make([]*big.Int, ns)
	seq0, seq1 := make([]uint64, ns), make([]uint64, ns)
	for i, a := range feeSigners {
		b0[i] = e.bal(ctx, a.Bytes())
		seq0[i], _ = e.App.AccountKeeper.GetSequence(ctx, sdk.AccAddress(a.Bytes()))
	}
	c0 := e.bal(ctx, feeColl)
	r0 := big.NewInt(0)
	for _, r := range rs {
		r0.Add(r0, e.bal(ctx, r.Bytes()))
	}
	res := e.App.BaseApp.DeliverTx(abci.RequestDeliverTx{Tx: bz})
	ctx = e.dctx()
	seqMoved, balMoved := false, false
	for i, a := range feeSigners {
		b1[i] = e.bal(ctx, a.Bytes())
		seq1[i], _ = e.App.AccountKeeper.GetSequence(ctx, sdk.AccAddress(a.Bytes()))
		seqMoved = seqMoved || seq1[i] != seq0[i]
		balMoved = balMoved || b1[i].Cmp(b0[i]) != 0
	}
	c1 := e.bal(ctx, feeColl)
	r1 := big.NewInt(0)
	for _, r := range rs {
		r1.Add(r1, e.bal(ctx, r.Bytes()))
	}
	moved := new(big.Int).Sub(r1, r0)
	o.Moved, o.Coll, o.Coll0 = moved.String(), new(big.Int).Sub(c1, c0).String(), c0.String()
	o.RawCode = res.Code
	// the ante chain passed iff its effects were written: it ends with the increment
	// of the sequence of every signer (EthIncrementSenderSequenceDecorator /
	// IncrementSequenceDecorator).  A transaction it refused must have charged nobody
	// (checked by the oracle on the balances recorded here).
	antePassed := seqMoved
	switch {
	case res.Code == 0:
		o.Code = 0
		if !antePassed {
			o.Stray = "code 0 but no signer's sequence moved"
		}
	case antePassed:
		o.Code = 4
		o.Log = feeShort(res.Log)
	default:
		o.Code = 1
		o.Cat = codeCat(res.Codespace, res.Code)
		o.Log = feeShort(res.Log)
	}
	_ = balMoved
	if antePassed && t.Route == "eth" {
		o.Wanted, o.Used = uint64(res.GasWanted), uint64(res.GasUsed)
	}
	// value moved, attributed to the signers: the value of every message the EVM
	// executed without a vm error (a failed message's transfer is reverted); the
	// Cosmos bank send is signer A's
	movedBy := make([]*big.Int, ns)
	for i := range movedBy {
		movedBy[i] = big.NewInt(0)
	}
	o.MsgUsed = []uint64{}
	if res.Code == 0 && t.Route == "eth" {
		var td sdk.TxMsgData
		if err := e.App.AppCodec().Unmarshal(res.Data, &td); err != nil {
			o.Stray = "response data: " + err.Error()
		} else {
			for i, mr := range td.MsgResponses {
				var r evmtypes.MsgEthereumTxResponse
				if err := proto.Unmarshal(mr.Value, &r); err != nil {
					o.Stray = "response data: " + err.Error()
					break
				}
				o.MsgUsed = append(o.MsgUsed, r.GasUsed)
				if i < len(t.Msgs) && !r.Failed() {
					movedBy[t.Msgs[i].From].Add(movedBy[t.Msgs[i].From], bigOf(t.Msgs[i].Value))
				}
			}
		}
	}
	if t.Route != "eth" {
		movedBy[0].Set(moved)
	}
	sumMoved := big.NewInt(0)
	for i := range feeSigners {
		sumMoved.Add(sumMoved, movedBy[i])
		net := new(big.Int).Sub(b0[i], b1[i])
		net.Sub(net, movedBy[i])
		o.Nets = append(o.Nets, net.String())
		o.Bals0 = append(o.Bals0, b0[i].String())
	}
	if sumMoved.Cmp(moved) != 0 && o.Stray == "" {
		o.Stray = fmt.Sprintf("value accounting: the recipients received %s, the successful messages sent %s", moved, sumMoved)
	}
	return o
}

// ---------------------------------------------------------------- oracle (the property, in big.Int)
var big1e18 = new(big.Int).Exp(big.NewInt(10), big.NewInt(18), nil)

func bmin(a, b *big.Int) *big.Int {
	if a.Cmp(b) < 0 {
		return a
	}
	return b
}

// effPrice: gas price of legacy / access-list transactions, min(tip + base, cap) for dynamic-fee ones.
func (m feeMsg) effPrice(base *big.Int) *big.Int {
	if m.Type != 2 {
		return bigOf(m.Price)
	}
	return bmin(new(big.Int).Add(bigOf(m.Tip), base), bigOf(m.Price))
}

// feeOracle evaluates the property on what the implementation did with one
// transaction.  strict = also demand "charged >= gas x minGasPrice" of Cosmos
// transactions when the base fee is below the min gas price (the reading of the
// first sentence under which finding "feemarket:base-below-min-gas-price" is a
// violation); by default that reading is applied only where base >= minGasPrice.
func feeOracle(p feeParams, t feeTx, o feeObs, strict bool) (msg string, belowFloorPaid bool) {
	if o.Stray != "" {
		return "harness: " + o.Stray, false
	}
	mgp, mult := bigOf(p.Mgp), bigOf(p.Mult)
	base := p.effBase()
	accepted := o.Code == 0 || o.Code == 4
	if len(o.Nets) != len(feeSigners) {
		return "harness: no per-signer figures", false
	}
	net, coll := bigOf(o.Nets[0]), bigOf(o.Coll)
	if !accepted {
		// all-or-nothing: a transaction the ante chain refused charges nobody
		for i, n := range o.Nets {
			if bigOf(n).Sign() != 0 {
				return fmt.Sprintf("refused transaction, yet signer %d paid %s", i, n), false
			}
		}
		if coll.Sign() != 0 {
			return fmt.Sprintf("refused transaction, yet the fee collector's balance moved by %s", coll), false
		}
		return "", false
	}
	if t.Route == "cosmos" {
		// declared fee in the EVM denomination >= gas limit x min gas price
		fee := big.NewInt(0)
		for _, c := range t.Fee {
			if c.D == 0 {
				fee.Add(fee, bigOf(c.A))
			}
		}
		floor := new(big.Int).Mul(mgp, new(big.Int).SetUint64(t.Gas)) // in 10^-18
		if new(big.Int).Mul(fee, big1e18).Cmp(floor) < 0 {
			return fmt.Sprintf("cosmos tx accepted with fee %s aISLM < gas %d x minGasPrice %s e-18", fee, t.Gas, mgp), false
		}
		for s := 1; s < len(o.Nets); s++ {
			if bigOf(o.Nets[s]).Sign() != 0 {
				return fmt.Sprintf("cosmos tx of signer 0, yet signer %d paid %s", s, o.Nets[s]), false
			}
		}
		paidBelow := new(big.Int).Mul(net, big1e18).Cmp(floor) < 0
		if paidBelow && (strict || new(big.Int).Mul(base, big1e18).Cmp(mgp) >= 0) {
			return fmt.Sprintf("cosmos tx declared %s but was charged %s < gas %d x minGasPrice %s e-18 (base fee %s)", fee, net, t.Gas, mgp, base), true
		}
		return "", paidBelow
	}
	for i, m := range t.Msgs {
		gl := new(big.Int).SetUint64(m.Gas)
		cap := bigOf(m.Price)
		// fee (what the message offers: fee cap x gas; and what it is charged up front: effective price x gas) >= floor
		floor := new(big.Int).Mul(mgp, gl)
		if new(big.Int).Mul(new(big.Int).Mul(cap, gl), big1e18).Cmp(floor) < 0 {
			return fmt.Sprintf("eth msg %d accepted with fee %s x %d < gas x minGasPrice %s e-18", i, cap, m.Gas, mgp), false
		}
		if new(big.Int).Mul(new(big.Int).Mul(m.effPrice(base), gl), big1e18).Cmp(floor) < 0 {
			return fmt.Sprintf("eth msg %d accepted with effective fee %s x %d < gas x minGasPrice %s e-18", i, m.effPrice(base), m.Gas, mgp), false
		}
		if cap.Cmp(base) < 0 {
			return fmt.Sprintf("eth msg %d accepted with fee cap %s < base fee %s", i, cap, base), false
		}
	}
	if o.Code != 0 {
		// not executed (the message handler returned an error): the property's
		// second sentence does not apply
		return "", false
	}
	if len(o.MsgUsed) != len(t.Msgs) || len(o.Evm) != len(t.Msgs) {
		return "harness: executed eth tx without per-message gas figures", false
	}
	want := big.NewInt(0)
	wantBy := make([]*big.Int, len(feeSigners))
	for i := range wantBy {
		wantBy[i] = big.NewInt(0)
	}
	sumUsed := uint64(0)
	for i, m := range t.Msgs {
		ev := o.Evm[i]
		if ev.Hard {
			return fmt.Sprintf("harness: msg %d executed for real but failed hard on the fork (%s)", i, ev.Err), false
		}
		q := ev.Consumed / 5
		rf := ev.Refund
		if rf > q {
			rf = q
		}
		after := ev.Consumed - rf
		mn := new(big.Int).Mul(mult, new(big.Int).SetUint64(m.Gas))
		mn.Quo(mn, big1e18)
		wantUsed := new(big.Int).SetUint64(after)
		if mn.Cmp(wantUsed) > 0 {
			wantUsed = mn
		}
		used := new(big.Int).SetUint64(o.MsgUsed[i])
		if used.Cmp(wantUsed) != 0 {
			return fmt.Sprintf("msg %d: gasUsed %s, the property demands max(consumed after refunds %d, floor(mult x limit) %s) = %s", i, used, after, mn, wantUsed), false
		}
		if o.MsgUsed[i] > m.Gas {
			return fmt.Sprintf("msg %d: gasUsed %d exceeds the gas limit %d", i, o.MsgUsed[i], m.Gas), false
		}
		want.Add(want, new(big.Int).Mul(used, m.effPrice(base)))
		wantBy[m.From].Add(wantBy[m.From], new(big.Int).Mul(used, m.effPrice(base)))
		sumUsed += o.MsgUsed[i]
	}
	// every signer pays for its own messages, nobody else pays anything
	for s := range feeSigners {
		if n := bigOf(o.Nets[s]); n.Cmp(wantBy[s]) != 0 {
			return fmt.Sprintf("signer %d: net payment %s != sum of gasUsed x effectiveGasPrice over its own messages = %s", s, n, wantBy[s]), false
		}
	}
	if coll.Cmp(want) != 0 {
		return fmt.Sprintf("fee collector received %s != sum gasUsed x effectiveGasPrice = %s", coll, want), false
	}
	if o.Used != sumUsed {
		return fmt.Sprintf("response gas used %d != sum of per-message gas used %d", o.Used, sumUsed), false
	}
	return "", false
}

// ---------------------------------------------------------------- Coq terms
func feeCoqZs(s string) string { return coqZ(bigOf(s)) }
func coqZu(x uint64) string { return coqZ(new(big.Int).SetUint64(x)) }

func (m feeMsg) coq() string {
	ty := []string{"Legacy", "AccessL", "Dynamic"}[m.Type]
	tip := "0"
	if m.Type == 2 {
		tip = m.Tip
	}
	return fmt.Sprintf("(mkmsg %s %s %s %s %s %s)", ty, coqZu(m.Gas), feeCoqZs(m.Price), feeCoqZs(tip), feeCoqZs(m.Value), coqZu(m.intrinsic()))
}

func (v feeEvm) coq() string {
	if v.Hard {
		return "HardErr"
	}
	return fmt.Sprintf("(Ran %s %s %s)", coqZu(v.Consumed), coqZu(v.Refund), coqBool(v.Failed))
}

func (t feeTx) coq(o feeObs) string {
	if t.Route == "cosmos" {
		fs := []string{}
		for _, c := range t.Fee {
			fs = append(fs, fmt.Sprintf("(%d%%N, %s)", c.D, feeCoqZs(c.A)))
		}
		tip := "None"
		if t.Tip != nil {
			tip = "(Some " + feeCoqZs(*t.Tip) + ")"
		}
		return fmt.Sprintf("(CosmosTx %s %s %s %s)", coqZu(t.Gas), coqList(fs), tip, feeCoqZs(t.Send))
	}
	ms, es := []string{}, []string{}
	for _, m := range t.Msgs {
		ms = append(ms, m.coq())
	}
	for _, v := range o.Evm {
		es = append(es, v.coq())
	}
	return fmt.Sprintf("(EthTx %s %s)", coqList(ms), coqList(es))
}

func (o feeObs) coq() string {
	us := []string{}
	for _, u := range o.MsgUsed {
		us = append(us, coqZu(u))
	}
	ns := []string{}
	for _, n := range o.Nets {
		ns = append(ns, feeCoqZs(n))
	}
	return fmt.Sprintf("(mkobs %d%%N %d%%N %s %s %s %s %s %s)", o.Code, o.Check, coqZi(o.Prio), coqZu(o.Wanted), coqZu(o.Used), coqList(ns), feeCoqZs(o.Coll), coqList(us))
}

func (p feeParams) coq() string {
	base := p.Base
	if p.NoBase {
		base = "0"
	}
	return fmt.Sprintf("(mkparams %s %s %s 5%%Z)", feeCoqZs(p.Mgp), feeCoqZs(base), feeCoqZs(p.Mult))
}

// ---------------------------------------------------------------- one case
const feeClassBaseBelowMin = "feemarket:base-below-min-gas-price"

func feesRunCase(id string, in feeInput, strict bool) Case {
	e := feeBaseEnv()
	ctx := e.begin()
	c := Case{ID: id, Kind: "txs", Input: in, CoqList: "cases"}
	kb, _ := json.Marshal(in)
	c.Key = string(kb)
	if err := e.setup(ctx, in); err != nil {
		c.OracleOK, c.OracleMsg = false, "setup: "+err.Error()
		return c
	}
	obs := []feeObs{}
	steps := []string{}
	tags := map[string]bool{}
	msgAll := ""
	below := false
	nontriv := false
	for i, t := range in.Txs {
		o := e.runTx(t)
		obs = append(obs, o)
		bs, sg := []string{}, []string{}
		for _, b := range o.Bals0 {
			bs = append(bs, feeCoqZs(b))
		}
		if t.Route == "eth" {
			for _, m := range t.Msgs {
				sg = append(sg, fmt.Sprintf("%d%%N", m.From))
			}
		}
		steps = append(steps, fmt.Sprintf("(%s, %s, %s, %s, %s)", coqList(bs), feeCoqZs(o.Coll0), coqList(sg), t.coq(o), o.coq()))
		m, b := feeOracle(in.Params, t, o, strict)
		if m != "" && msgAll == "" {
			msgAll = fmt.Sprintf("tx %d: %s", i, m)
		}
		below = below || b
		tags[fmt.Sprintf("%s:code%d", t.Route, o.Code)] = true
		if o.Code == 1 {
			tags[fmt.Sprintf("%s:refused-class%d", t.Route, o.Cat)] = true
		}
		if o.Check != 0 && (o.Code == 0 || o.Code == 4) {
			tags["deliver-accepts-check-rejects"] = true
		}
		if t.Route == "eth" {
			tags[fmt.Sprintf("msgs:%d", len(t.Msgs))] = true
			// who signs which message: canonical pattern (first signer seen = A, ...)
			pat, seen := "", map[int]byte{}
			for _, m := range t.Msgs {
				if _, ok := seen[m.From]; !ok {
					seen[m.From] = byte('A' + len(seen))
				}
				pat += string(seen[m.From])
			}
			tags[fmt.Sprintf("signers:%d", len(seen))] = true
			if len(seen) > 1 {
				tags["sig:"+pat] = true
				tags[fmt.Sprintf("sig-outcome:code%d", o.Code)] = true
			}
			for j, m := range t.Msgs {
				tags[fmt.Sprintf("type:%d", m.Type)] = true
				tags["kind:"+m.Kind] = true
				if j < len(o.Evm) && !o.Evm[j].Hard {
					if o.Evm[j].Refund > 0 {
						tags["evm:refund"] = true
						if o.Evm[j].Refund > o.Evm[j].Consumed/5 {
							tags["evm:refund-capped"] = true
						}
					}
					if o.Evm[j].NoTrace {
						tags["evm:no-top-frame"] = true
					}
					if o.Evm[j].Failed {
						tags["evm:failed"] = true
						if o.Evm[j].Consumed == m.Gas {
							tags["evm:out-of-gas"] = true
						}
					}
					if o.Code == 0 && j < len(o.MsgUsed) {
						q := o.Evm[j].Refund
						if q > o.Evm[j].Consumed/5 {
							q = o.Evm[j].Consumed / 5
						}
						if o.MsgUsed[j] > o.Evm[j].Consumed-q {
							tags["min-gas-rule-binds"] = true
						}
					}
				}
			}
		}
		if o.Code == 0 || o.Code == 4 {
			nontriv = true
		}
	}
	if below {
		tags["cosmos-charged-below-floor"] = true
	}
	c.Obs = obs
	c.Coq = fmt.Sprintf("(%s, %s)", in.Params.coq(), "["+strings.Join(steps, ";\n    ")+"]")
	c.OracleOK, c.OracleMsg = msgAll == "", msgAll
	// class = shape of the input: a Cosmos transaction while the base fee in
	// force is below the min gas price
	for _, t := range in.Txs {
		if t.Route == "cosmos" && new(big.Int).Mul(in.Params.effBase(), big1e18).Cmp(bigOf(in.Params.Mgp)) < 0 {
			c.Class = feeClassBaseBelowMin
		}
	}
	c.Nontrivial = nontriv
	for t := range tags {
		c.Tags = append(c.Tags, t)
	}
	sort.Strings(c.Tags)
	return c
}

func feesDriver(cfg Config, out *Out) error {
	strict := cfg.Args["strict"] == "1"
	if cfg.Replay != "" {
		i := 0
		return readReplayInputs(cfg.Replay, func(raw json.RawMessage) error {
			var in feeInput
			if err := json.Unmarshal(raw, &in); err != nil {
				return err
			}
			out.Emit(feesRunCase(fmt.Sprintf("replay-%d", i), in, strict))
			i++
			return nil
		})
	}
	r := NewRng(cfg.Seed)
	for i := 0; i < cfg.N; i++ {
		out.Emit(feesRunCase(fmt.Sprintf("s%d-%d", cfg.Seed, i), feesGen(r.Fork()), strict))
	}
	return nil
}
