package main

// Driver "restart" (property C20), part 4: restart as a NEW OPERATING-SYSTEM PROCESS.
//
// "Behaviour never depends on in-memory state that is not rebuilt from the database on start" includes the
// package-level variables of the process (go-ethereum's common.Big1, caches, sync.Once latches, registries filled by
// init functions ...).  A new app.NewHaqq on the same database inside the harness process does not reset them: the
// "restarted" node inherits whatever the process of the continuous node did to them.  Where the input flags a block
// with "proc", the restart before that block is therefore a real one:
//
//	parent  at the boundary: dumps the continuous node's database (every key / value pair) into a file under a
//	        directory from os.MkdirTemp, together with the run-time bookkeeping of the history (contracts, vesting
//	        accounts, denominations created so far), the start-up report (Info) and the answers of the query set;
//	        once the continuous node has executed all blocks (the transaction bytes are then recorded) it re-executes
//	        the harness binary as `hq restart-child` with the job on stdin;
//	child   loads the dump into a fresh database (MemDB, or a goleveldb directory of its own that is closed and
//	        opened again), constructs the application, reports Info, the cached chain id, the stored parameters and the
//	        answers to the same queries under the same header, then executes all following blocks from the recorded
//	        transaction bytes (building every transaction from its own state as well and reporting when the bytes
//	        differ) and reports every block's results, app hash, store hashes, parameters and fee-market update;
//	parent  compares them with the continuous node exactly as for an in-process restart (judgeBlock), and hands the
//	        child's application instance to the Coq model like any other.

import (
	"bufio"
	"context"
	"encoding/binary"
	"encoding/hex"
	"encoding/json"
	"fmt"
	"io"
	"math/big"
	"os"
	"os/exec"
	"path/filepath"
	"strings"
	"time"

	dbm "github.com/cometbft/cometbft-db"
	abci "github.com/cometbft/cometbft/abci/types"
	sdk "github.com/cosmos/cosmos-sdk/types"
	"github.com/ethereum/go-ethereum/common"
	"github.com/gogo/protobuf/proto"

	"github.com/haqq-network/haqq/app"
	haqqtypes "github.com/haqq-network/haqq/types"
)

func init() { register("restart-child", restartChildDriver) }

// harness validation only (`-arg inproc=0` / `-arg proc=0`): switch off the in-process restarts / the separate processes
var restartNoInProcess, restartNoProcess bool

// ---------------------------------------------------------------- database dump
func dumpDB(src dbm.DB, path string) (n int, err error) {
	f, err := os.Create(path)
	if err != nil {
		return 0, err
	}
	w := bufio.NewWriterSize(f, 1<<20)
	it, err := src.Iterator(nil, nil)
	if err != nil {
		f.Close()
		return 0, err
	}
	defer it.Close()
	var lenb [8]byte
	for ; it.Valid(); it.Next() {
		k, v := it.Key(), it.Value()
		binary.BigEndian.PutUint32(lenb[:4], uint32(len(k)))
		binary.BigEndian.PutUint32(lenb[4:], uint32(len(v)))
		w.Write(lenb[:])
		w.Write(k)
		w.Write(v)
		n++
	}
	if err := w.Flush(); err != nil {
		f.Close()
		return n, err
	}
	return n, f.Close()
}

func loadDB(path string, dst dbm.DB) (n int, err error) {
	f, err := os.Open(path)
	if err != nil {
		return 0, err
	}
	defer f.Close()
	r := bufio.NewReaderSize(f, 1<<20)
	var lenb [8]byte
	for {
		if _, err := io.ReadFull(r, lenb[:]); err != nil {
			if err == io.EOF {
				return n, nil
			}
			return n, err
		}
		k := make([]byte, binary.BigEndian.Uint32(lenb[:4]))
		v := make([]byte, binary.BigEndian.Uint32(lenb[4:]))
		if _, err := io.ReadFull(r, k); err != nil {
			return n, err
		}
		if _, err := io.ReadFull(r, v); err != nil {
			return n, err
		}
		if err := dst.Set(k, v); err != nil {
			return n, err
		}
		n++
	}
}

// ---------------------------------------------------------------- wire format
type histSnap struct {
	Contracts []common.Address                   `json:"contracts"`
	Slots     map[common.Address]map[uint64]bool `json:"slots"`
	Vest      []sdk.AccAddress                   `json:"vest"`
	VestKey   []int                              `json:"vest_key"`
	Small     []common.Address                   `json:"small"`
	Factories []common.Address                   `json:"factories"`
	Planned   []common.Address                   `json:"planned"`
	Liquid    []string                           `json:"liquid"`
	Coins     []string                           `json:"coins"`
}

func snapHist(h *hist) histSnap {
	s := histSnap{
		Contracts: append([]common.Address{}, h.contracts...), Vest: append([]sdk.AccAddress{}, h.vest...),
		VestKey: append([]int{}, h.vestKey...), Small: append([]common.Address{}, h.small...),
		Factories: append([]common.Address{}, h.factories...), Planned: append([]common.Address{}, h.planned...),
		Liquid: append([]string{}, h.liquid...), Coins: append([]string{}, h.coins...),
		Slots: map[common.Address]map[uint64]bool{},
	}
	for k, v := range h.slots {
		m := map[uint64]bool{}
		for kk := range v {
			m[kk] = true
		}
		s.Slots[k] = m
	}
	return s
}

func (s histSnap) hist(c *Chain) *hist {
	h := &hist{c: c, contracts: s.Contracts, slots: s.Slots, vest: s.Vest, vestKey: s.VestKey, small: s.Small,
		factories: s.Factories, planned: s.Planned, liquid: s.Liquid, coins: s.Coins}
	if h.slots == nil {
		h.slots = map[common.Address]map[uint64]bool{}
	}
	for _, ct := range h.contracts {
		if h.slots[ct] == nil {
			h.slots[ct] = map[uint64]bool{}
		}
	}
	return h
}

type qWire struct {
	Name string `json:"name"`
	Path string `json:"path"`
	Req  []byte `json:"req"`
}

type procJob struct {
	In        hInput   `json:"in"`
	From      int      `json:"from"`  // boundary: height From is committed in the dump; blocks In.Blocks[From:UpTo] are executed
	UpTo      int      `json:"up_to"` // (index) the blocks the continuous node executed, plus the one it halted in, if any
	DBFile    string   `json:"db_file"`
	LevelDB   bool     `json:"leveldb"` // the child keeps the copy in a goleveldb directory of its own (closed and re-opened before use)
	Height    int64    `json:"height"`
	TimeNanos int64    `json:"time_unix_nanos"`
	AppHash   []byte   `json:"app_hash"`
	Hist      histSnap `json:"hist"`
	Tape      [][]byte `json:"tape"`       // the continuous node's transactions from block From on
	TapeStart []int    `json:"tape_start"` // per executed block: where its transactions begin in Tape
	Queries   []qWire  `json:"queries"`
}

type blockWire struct {
	Err         string            `json:"err,omitempty"` // the block panicked
	Pub         blockObs          `json:"pub"`
	Ops         []string          `json:"ops"`
	ChainBefore *big.Int          `json:"chain_before"`
	ChainAfter  *big.Int          `json:"chain_after"`
	Registry    []string          `json:"registry"`
	PWrites     []string          `json:"pwrites"`
	Params      pProj             `json:"params"`
	Fee         *feeStep          `json:"fee"`
	Stores      map[string]string `json:"stores"`
}

func toBlockWire(ob blockObs) blockWire {
	return blockWire{Pub: ob, Ops: ob.Ops, ChainBefore: ob.ChainBefore, ChainAfter: ob.ChainAfter, Registry: ob.Registry,
		PWrites: ob.PWrites, Params: ob.Params, Fee: ob.Fee, Stores: ob.Stores}
}

func (w blockWire) obs() blockObs {
	ob := w.Pub
	ob.Ops, ob.ChainBefore, ob.ChainAfter, ob.Registry, ob.PWrites, ob.Params, ob.Fee, ob.Stores =
		w.Ops, w.ChainBefore, w.ChainAfter, w.Registry, w.PWrites, w.Params, w.Fee, w.Stores
	return ob
}

type procResult struct {
	Err        string      `json:"err,omitempty"` // the node could not be started from the dump
	Pid        int         `json:"pid"`
	Keys       int         `json:"db_keys"`
	InfoHeight int64       `json:"info_height"`
	InfoHash   string      `json:"info_app_hash"`
	Answers    []string    `json:"answers"`
	Start      string      `json:"start"`      // Coq: chain id cached by the freshly constructed application
	StartProj  string      `json:"start_proj"` // Coq: projection of the stored parameters it found
	Blocks     []blockWire `json:"blocks"`
	Diverged   []string    `json:"diverged,omitempty"`
}

// ---------------------------------------------------------------- parent: snapshot, launch, judge
type procSnap struct {
	k        int // boundary
	job      procJob
	info     abci.ResponseInfo
	answers  []string // the continuous node's answers at the boundary
	nQueries int
}

func takeProcSnap(l1 *lineage, k int, qs []qReq, dir string) (*procSnap, error) {
	c1 := l1.h.c
	ps := &procSnap{k: k, info: c1.App.Info(abci.RequestInfo{})}
	path := filepath.Join(dir, fmt.Sprintf("db-at-%d.kv", k))
	if _, err := dumpDB(c1.DB, path); err != nil {
		return nil, err
	}
	ps.job = procJob{From: k, DBFile: path, Height: c1.Height, TimeNanos: c1.Time.UnixNano(), AppHash: c1.AppHash, Hist: snapHist(l1.h)}
	hdr := c1.header(c1.Height, c1.Time)
	ctx1 := committedCtx(c1.App, hdr)
	for _, q := range qs {
		bz, err := proto.Marshal(q.Req)
		if err != nil {
			return nil, err
		}
		ps.job.Queries = append(ps.job.Queries, qWire{Name: q.Name, Path: q.Path, Req: bz})
		ps.answers = append(ps.answers, runQuery(c1.App, ctx1, q))
	}
	ps.nQueries = len(qs)
	return ps, nil
}

type procOutcome struct {
	res *procResult
	err error
}

// launchProcs starts one child process per snapshot (concurrently); the channels deliver their reports.
func launchProcs(procs []*procSnap, in hInput, tape [][]byte, tapeStarts []int, ob1s []*blockObs, haltedAt int, levelDB bool) []chan procOutcome {
	executed := 0
	for executed < len(ob1s) && ob1s[executed] != nil {
		executed++
	}
	upTo := executed
	if haltedAt == executed && haltedAt < len(in.Blocks) {
		upTo = executed + 1 // the block the continuous node halted in: a restarted node must halt in it as well
	}
	var waits []chan procOutcome
	for _, ps := range procs {
		ps.job.In, ps.job.LevelDB = in, levelDB
		ps.job.UpTo = upTo
		if ps.job.UpTo < ps.job.From {
			ps.job.UpTo = ps.job.From
		}
		base := tapeStarts[ps.job.From]
		ps.job.Tape = tape[base:]
		ps.job.TapeStart = nil
		for b := ps.job.From; b < ps.job.UpTo; b++ {
			ps.job.TapeStart = append(ps.job.TapeStart, tapeStarts[b]-base)
		}
		ch := make(chan procOutcome, 1)
		waits = append(waits, ch)
		go func(job procJob) {
			res, err := runRestartChild(job)
			ch <- procOutcome{res, err}
		}(ps.job)
	}
	return waits
}

func runRestartChild(job procJob) (*procResult, error) {
	exe, err := os.Executable()
	if err != nil {
		return nil, err
	}
	// the same binary, the same environment, the same node configuration: only the process is new.  The time limit is a
	// guard against a child that hangs (the whole driver would hang with it); a child that is killed is reported.
	ctx, cancel := context.WithTimeout(context.Background(), 20*time.Minute)
	defer cancel()
	cmd := exec.CommandContext(ctx, exe, "restart-child")
	in, err := json.Marshal(job)
	if err != nil {
		return nil, err
	}
	cmd.Stdin = strings.NewReader(string(in))
	var errb strings.Builder
	cmd.Stderr = &errb
	outb, err := cmd.Output()
	if err != nil {
		return nil, fmt.Errorf("%v: %s", err, trunc(errb.String(), 600))
	}
	for _, line := range strings.Split(string(outb), "\n") {
		if strings.HasPrefix(line, "{") {
			var res procResult
			if err := json.Unmarshal([]byte(line), &res); err != nil {
				return nil, err
			}
			return &res, nil
		}
	}
	return nil, fmt.Errorf("the child printed no result: %s", trunc(errb.String(), 300))
}

// judgeProc: the report of the process restarted at boundary ps.k against the continuous node.
func judgeProc(ps *procSnap, out procOutcome, ob1s []*blockObs, haltedAt int, obs *restartObs) (msgs []string, segs []string, fsegs []feeSeg) {
	name := fmt.Sprintf("restarted-as-new-process-at-%d", ps.k)
	if out.err != nil {
		return []string{fmt.Sprintf("boundary %d, %s: the process failed: %v", ps.k, name, out.err)}, nil, nil
	}
	res := out.res
	if res.Err != "" {
		return []string{fmt.Sprintf("boundary %d, %s: the node does not start from the database of the continuous node: %s", ps.k, name, res.Err)}, nil, nil
	}
	tag := fmt.Sprintf("boundary %d, %s", ps.k, name)
	// (a) Info
	if res.InfoHeight != ps.info.LastBlockHeight || res.InfoHash != hex.EncodeToString(ps.info.LastBlockAppHash) {
		msgs = append(msgs, fmt.Sprintf("%s: Info reports height %d hash %s, the continuous node %d %x", tag, res.InfoHeight, res.InfoHash, ps.info.LastBlockHeight, ps.info.LastBlockAppHash))
	}
	// (b) queries
	nd := 0
	if len(res.Answers) != len(ps.answers) {
		msgs = append(msgs, fmt.Sprintf("%s: %d query answers, the continuous node %d", tag, len(res.Answers), len(ps.answers)))
	} else {
		for i, a := range res.Answers {
			if a != ps.answers[i] {
				nd++
				if nd <= 3 {
					msgs = append(msgs, fmt.Sprintf("%s: query %s answers %s, the continuous node %s", tag, ps.job.Queries[i].Name, trunc(a, 60), trunc(ps.answers[i], 60)))
				}
			}
		}
	}
	obs.Boundaries++
	obs.Restarts++
	// (c) every following block
	trace := []string{}
	fees := []feeStep{}
	ran := 0
	for j, bw := range res.Blocks {
		idx := ps.k + j
		height := idx + 1
		if idx < len(ob1s) && ob1s[idx] != nil {
			if bw.Err != "" {
				msgs = append(msgs, fmt.Sprintf("height %d, %s: %s (the continuous node executed the block)", height, name, bw.Err))
				break
			}
			ob := bw.obs()
			ran++
			trace = append(trace, traceEntry(ob))
			if ob.Fee != nil {
				fees = append(fees, *ob.Fee)
			}
			msg, shape, known, drop := judgeBlock(height, name, j == 0, *ob1s[idx], ob)
			if shape {
				obs.PreAnteShape++
			}
			if msg != "" {
				msgs = append(msgs, msg)
			}
			if known != "" {
				obs.PreAnteGas = append(obs.PreAnteGas, known)
				if drop {
					obs.Dropped = append(obs.Dropped, fmt.Sprintf("%s after height %d", name, height))
					break
				}
			}
		} else if idx == haltedAt {
			if bw.Err == "" {
				msgs = append(msgs, fmt.Sprintf("height %d, %s executes the block; the continuous node: %s", height, name, obs.Halted))
			}
		}
	}
	for _, d := range res.Diverged {
		msgs = append(msgs, "transaction construction: "+name+": "+d)
	}
	obs.BlocksRun += ran
	obs.ProcBlocks += ran
	obs.ProcRestarts = append(obs.ProcRestarts, fmt.Sprintf("boundary %d: own process, %d database keys loaded, %d queries, %d blocks", ps.k, res.Keys, len(res.Answers), ran))
	segs = []string{fmt.Sprintf("(%s, %s, %s)", res.Start, res.StartProj, coqList(trace))}
	fsegs = []feeSeg{{NewProc: true, Steps: fees}}
	return msgs, segs, fsegs
}

// ---------------------------------------------------------------- child
func runQueryBytes(a *app.Haqq, ctx sdk.Context, q qWire) string {
	return runQueryRaw(a, ctx, q.Path, q.Req)
}

func restartChildDriver(cfg Config, out *Out) error {
	var job procJob
	dec := json.NewDecoder(bufio.NewReaderSize(os.Stdin, 1<<20))
	if err := dec.Decode(&job); err != nil {
		return err
	}
	res := procResult{Pid: os.Getpid()}
	emit := func() error {
		bz, err := json.Marshal(res)
		if err != nil {
			return err
		}
		out.w.Write(bz)
		out.w.WriteByte('\n')
		return nil
	}
	var db dbm.DB = dbm.NewMemDB()
	if job.LevelDB {
		dir, err := os.MkdirTemp("", "hv-restart-child-")
		if err != nil {
			return err
		}
		defer os.RemoveAll(dir)
		ldb, err := dbm.NewGoLevelDB("application", dir)
		if err != nil {
			return err
		}
		if _, err := loadDB(job.DBFile, ldb); err != nil {
			return err
		}
		if err := ldb.Close(); err != nil {
			return err
		}
		if ldb, err = dbm.NewGoLevelDB("application", dir); err != nil {
			return err
		}
		defer ldb.Close()
		db = ldb
		it, err := db.Iterator(nil, nil)
		if err == nil {
			for ; it.Valid(); it.Next() {
				res.Keys++
			}
			it.Close()
		}
	} else {
		n, err := loadDB(job.DBFile, db)
		if err != nil {
			return err
		}
		res.Keys = n
	}
	// start-up
	var c *Chain
	if err := func() (err error) {
		defer func() {
			if r := recover(); r != nil {
				err = fmt.Errorf("start-up panicked: %v", r)
			}
		}()
		a := openApp(db)
		_, cons := chainValidator()
		ec, e := haqqtypes.ParseChainID(chainID)
		if e != nil {
			return e
		}
		c = &Chain{App: a, DB: db, TxCfg: chainEnc.TxConfig, ValCons: cons, Height: job.Height, Time: time.Unix(0, job.TimeNanos).UTC(),
			AppHash: job.AppHash, EthChain: ec}
		return nil
	}(); err != nil {
		res.Err = err.Error()
		return emit()
	}
	c.Tape = &txTape{Replay: true, Txs: job.Tape}
	h := job.Hist.hist(c)
	info := c.App.Info(abci.RequestInfo{})
	res.InfoHeight, res.InfoHash = info.LastBlockHeight, hex.EncodeToString(info.LastBlockAppHash)
	res.Start = coqOptBig(c.App.EvmKeeper.ChainID())
	res.StartProj = openProj(c).coq()
	ctx := committedCtx(c.App, c.header(c.Height, c.Time))
	for _, q := range job.Queries {
		res.Answers = append(res.Answers, runQueryBytes(c.App, ctx, q))
	}
	// the following blocks
	for j := job.From; j < job.UpTo && j < len(job.In.Blocks); j++ {
		t := c.Tape
		start := job.TapeStart[j-job.From]
		t.Pos = start
		ob, err := runBlock(h, job.In.Blocks[j])
		if err != nil {
			res.Blocks = append(res.Blocks, blockWire{Err: err.Error()})
			break
		}
		res.Blocks = append(res.Blocks, toBlockWire(ob))
		end := len(job.Tape)
		if j+1-job.From < len(job.TapeStart) {
			end = job.TapeStart[j+1-job.From]
		}
		if t.Pos != end {
			t.Diverged = append(t.Diverged, fmt.Sprintf("height %d: built %d transactions, the continuous node %d", j+1, t.Pos-start, end-start))
		}
	}
	res.Diverged = c.Tape.Diverged
	return emit()
}
