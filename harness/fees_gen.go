package main

// Generator of the "fees" driver (property C07): parameters swept over
// min-gas-price (zero, fractional, integral, large), base fee (disabled, below,
// at, above the min gas price), min-gas multiplier (0, 1/2, 1, 18-digit values);
// prices, fee caps, tips and declared fees at the acceptance thresholds -1/0/+1;
// gas limits around the intrinsic gas; 1-5 messages per Ethereum transaction signed
// by 1-3 different accounts in any interleaving; signer balances around the exact
// cost of the signer's own messages.

import (
	"math/big"
)

func bi(x int64) *big.Int { return big.NewInt(x) }

func ceilDiv(a, b *big.Int) *big.Int {
	q, r := new(big.Int).QuoRem(a, b, new(big.Int))
	if r.Sign() > 0 {
		q.Add(q, bi(1))
	}
	return q
}

func nonneg(x *big.Int) *big.Int {
	if x.Sign() < 0 {
		return bi(0)
	}
	return x
}

func feesGenParams(r *Rng) feeParams {
	mgps := []string{"0", "0", "0", "1000000000000000000", "1500000000000000000", "300000000000000000",
		"7000000000000000000", "1000000000000000000000000000", "1000000000500000000000000000", "1", "999999999999999999"}
	p := feeParams{Mgp: mgps[r.Intn(len(mgps))]}
	mgp := bigOf(p.Mgp)
	fl := new(big.Int).Quo(mgp, big1e18)
	ce := ceilDiv(mgp, big1e18)
	bases := []*big.Int{bi(0), nonneg(new(big.Int).Sub(fl, bi(1))), fl, ce, new(big.Int).Add(ce, bi(1)), bi(7), bi(1_000_000_000), bi(3_000_000_001)}
	p.Base = bases[r.Intn(len(bases))].String()
	p.NoBase = r.Chance(25)
	switch r.Intn(7) {
	case 0:
		p.Mult = "0"
	case 1, 2:
		p.Mult = "500000000000000000"
	case 3:
		p.Mult = "1000000000000000000"
	case 4:
		p.Mult = "999999999999999999"
	case 5:
		p.Mult = "1"
	default:
		p.Mult = r.Below(new(big.Int).Add(big1e18, bi(1))).String()
	}
	return p
}

func (p feeParams) effBase() *big.Int {
	if p.NoBase {
		return bi(0)
	}
	return bigOf(p.Base)
}

func bmax(a, b *big.Int) *big.Int {
	if a.Cmp(b) > 0 {
		return a
	}
	return b
}

// feesGenPrice picks a price / fee cap around the acceptance threshold.
func feesGenPrice(r *Rng, floorP, base *big.Int) *big.Int {
	need := bmax(floorP, base)
	k := r.Intn(100)
	switch {
	case k < 50:
		return new(big.Int).Add(need, bi(int64(r.Intn(4))))
	case k < 63:
		return nonneg(new(big.Int).Sub(need, bi(1)))
	case k < 73:
		return new(big.Int).Set(need)
	case k < 83:
		x := new(big.Int).Mul(need, bi(2))
		return x.Add(x, bi(1_000_000_000))
	case k < 90:
		return new(big.Int).Set(floorP)
	case k < 96:
		return new(big.Int).Set(base)
	}
	return new(big.Int).Add(need, r.Big(40))
}

func feesGenMsg(r *Rng, p feeParams, nz map[int]bool, pre *[]int, nextSlot *int) feeMsg {
	kinds := []string{"transfer", "transfer", "transfer", "transfer", "transfer", "nop", "set", "set", "set", "clear", "clear", "clear", "clear",
		"revert", "revert", "log", "create", "create", "createfail"}
	m := feeMsg{Kind: kinds[r.Intn(len(kinds))], Type: r.Intn(3)}
	if m.Type != 0 {
		m.AL = r.Intn(3)
	}
	switch m.Kind {
	case "set", "revert":
		m.Slot, m.N = *nextSlot, 1+r.Intn(3)
		*nextSlot += m.N
		if m.Kind == "set" {
			for i := 0; i < m.N; i++ {
				nz[m.Slot+i] = true
			}
		}
	case "clear":
		m.N = 1 + r.Intn(6)
		// prefer clearing what an earlier message of this case set
		m.Slot = -1
		if r.Chance(40) {
			for s := range nz {
				if m.Slot < 0 || s < m.Slot {
					m.Slot = s
				}
			}
		}
		if m.Slot < 0 {
			m.Slot = *nextSlot
			*nextSlot += m.N
			if r.Chance(85) {
				for i := 0; i < m.N; i++ {
					*pre = append(*pre, m.Slot+i)
				}
			}
		}
		for i := 0; i < m.N; i++ {
			delete(nz, m.Slot+i)
		}
	}
	mgp := bigOf(p.Mgp)
	floorP := ceilDiv(mgp, big1e18)
	base := p.effBase()
	price := feesGenPrice(r, floorP, base)
	m.Price = price.String()
	if m.Type == 2 {
		need := bmax(floorP, base)
		exact := nonneg(new(big.Int).Sub(need, base))
		var tip *big.Int
		switch r.Intn(8) {
		case 0:
			tip = bi(0)
		case 1:
			tip = exact
		case 2:
			tip = nonneg(new(big.Int).Sub(exact, bi(1)))
		case 3:
			tip = new(big.Int).Add(exact, bi(1))
		case 4:
			tip = new(big.Int).Set(price)
		case 5:
			if r.Chance(30) {
				tip = new(big.Int).Add(price, bi(1)) // tip above cap: invalid
			} else {
				tip = new(big.Int).Set(price)
			}
		default:
			tip = r.Below(new(big.Int).Add(price, bi(1)))
		}
		m.Tip = tip.String()
	}
	if r.Chance(45) {
		m.Value = bi(int64(1 + r.Intn(1000))).String()
	}
	intr := m.intrinsic()
	n := uint64(m.N)
	k := r.Intn(100)
	switch {
	case k < 2:
		m.Gas = 0
	case k < 7:
		m.Gas = intr - 1
	case k < 13:
		m.Gas = intr
	case k < 25:
		m.Gas = intr + uint64(1+r.Intn(3000))
	case k < 60:
		m.Gas = intr + 30000*n + 60000 + uint64(r.Intn(1000))
	case k < 80:
		m.Gas = 1_000_000
	default:
		m.Gas = 5_000_000 + uint64(r.Intn(1000))
	}
	return m
}

// feesFixMsg lifts a generated message over the acceptance thresholds (price / fee
// cap and effective price at or just above max(ceil(minGasPrice), base fee), tip
// within the cap, gas limit at least the intrinsic gas), so that transactions of
// several messages are not refused nearly always because of one of them.
func feesFixMsg(r *Rng, p feeParams, m *feeMsg) {
	floorP := ceilDiv(bigOf(p.Mgp), big1e18)
	base := p.effBase()
	need := bmax(floorP, base)
	price := bigOf(m.Price)
	if price.Cmp(need) < 0 {
		price = new(big.Int).Add(need, bi(int64(r.Intn(3))))
		m.Price = price.String()
	}
	if m.Type == 2 {
		tip := bigOf(m.Tip)
		if exact := nonneg(new(big.Int).Sub(need, base)); tip.Cmp(exact) < 0 {
			tip = new(big.Int).Add(exact, bi(int64(r.Intn(3))))
		}
		m.Tip = bmin(tip, price).String()
	}
	if intr := m.intrinsic(); m.Gas < intr {
		m.Gas = intr + uint64(r.Intn(3))*uint64(20000+r.Intn(50000))
	}
}

func feesGenCosmos(r *Rng, p feeParams) feeTx {
	t := feeTx{Route: "cosmos"}
	gases := []uint64{300_000, 500_000, 1_000_000, 10_000_000, 777_777}
	t.Gas = gases[r.Intn(len(gases))]
	if r.Chance(2) {
		t.Gas = 0
	}
	g := new(big.Int).SetUint64(t.Gas)
	mgp := bigOf(p.Mgp)
	req := ceilDiv(new(big.Int).Mul(mgp, g), big1e18)
	base := p.effBase()
	baseFee := new(big.Int).Mul(base, g)
	need := bmax(req, baseFee)
	var fee *big.Int
	switch r.Intn(10) {
	case 0:
		fee = nonneg(new(big.Int).Sub(need, bi(1)))
	case 1:
		fee = new(big.Int).Set(need)
	case 2:
		fee = new(big.Int).Add(need, bi(1))
	case 3:
		fee = new(big.Int).Set(req)
	case 4:
		fee = nonneg(new(big.Int).Sub(req, bi(1)))
	case 5:
		fee = new(big.Int).Set(baseFee)
	case 6:
		fee = nonneg(new(big.Int).Sub(new(big.Int).Add(need, g), bi(1)))
	default:
		fee = new(big.Int).Add(need, new(big.Int).Mul(g, bi(int64(r.Intn(5)))))
		fee.Add(fee, bi(int64(r.Intn(3))))
	}
	k := r.Intn(100)
	switch {
	case k < 78:
		if fee.Sign() > 0 {
			t.Fee = []feeCoin{{0, fee.String()}}
		}
	case k < 83:
		// no fee at all
	case k < 89:
		t.Fee = []feeCoin{{1, bmax(fee, bi(1)).String()}}
	case k < 94:
		t.Fee = []feeCoin{{2, bmax(fee, bi(1)).String()}}
	default:
		t.Fee = []feeCoin{{0, bmax(fee, bi(1)).String()}, {1, "5"}}
	}
	switch r.Intn(10) {
	case 0, 1, 2, 3, 4:
	case 5, 6:
		s := "0"
		t.Tip = &s
	case 7:
		s := bi(int64(1 + r.Intn(5))).String()
		t.Tip = &s
	case 8:
		fl := ceilDiv(mgp, big1e18)
		s := nonneg(new(big.Int).Sub(fl, base)).String()
		t.Tip = &s
	default:
		s := "-1"
		if r.Bool() {
			s = "1000000000000"
		}
		t.Tip = &s
	}
	t.Send = bi(int64(1 + r.Intn(1000))).String()
	return t
}

func feesGen(r *Rng) feeInput {
	in := feeInput{Params: feesGenParams(r)}
	nz := map[int]bool{}
	next := 1
	ntx := 1
	if k := r.Intn(100); k >= 85 {
		ntx = 3
	} else if k >= 60 {
		ntx = 2
	}
	for i := 0; i < ntx; i++ {
		if r.Chance(28) {
			in.Txs = append(in.Txs, feesGenCosmos(r, in.Params))
			continue
		}
		t := feeTx{Route: "eth"}
		nm := 1
		switch k := r.Intn(100); {
		case k >= 94:
			nm = 5
		case k >= 87:
			nm = 4
		case k >= 73:
			nm = 3
		case k >= 50:
			nm = 2
		}
		// signers: 1-3 different accounts out of A, B, C (any of them first), every
		// message assigned to one of them independently: all interleavings
		ids := []int{0, 1, 2}
		for j := 2; j > 0; j-- {
			k := r.Intn(j + 1)
			ids[j], ids[k] = ids[k], ids[j]
		}
		ns := 1
		if nm > 1 {
			switch k := r.Intn(100); {
			case k >= 70:
				ns = 3
			case k >= 25:
				ns = 2
			}
		} else if r.Chance(80) {
			ids[0] = 0
		}
		lift := nm > 1 && r.Chance(60)
		for j := 0; j < nm; j++ {
			m := feesGenMsg(r, in.Params, nz, &in.Pre, &next)
			if lift {
				feesFixMsg(r, in.Params, &m)
			}
			m.From = ids[r.Intn(ns)]
			if j < ns && r.Chance(70) {
				m.From = ids[j] // the first messages introduce the signers one after the other
			}
			t.Msgs = append(t.Msgs, m)
		}
		in.Txs = append(in.Txs, t)
	}
	// balances of the signers: ample, or around the exact cost of the signer's own
	// messages in the first transaction that it signs (what it must afford, no more)
	ample := new(big.Int).Exp(bi(10), bi(23), nil)
	base := in.Params.effBase()
	bals := []*big.Int{ample, ample, ample}
	for s := 0; s < 3; s++ {
		if !r.Chance(18) {
			continue
		}
		for _, t := range in.Txs {
			cost, signs := bi(0), false
			if t.Route == "eth" {
				useCap := r.Bool()
				for _, m := range t.Msgs {
					if m.From != s {
						continue
					}
					signs = true
					pr := m.effPrice(base)
					if useCap {
						pr = bigOf(m.Price)
					}
					cost.Add(cost, new(big.Int).Mul(pr, new(big.Int).SetUint64(m.Gas)))
					cost.Add(cost, bigOf(m.Value))
				}
			} else if s == 0 {
				signs = true
				for _, c := range t.Fee {
					if c.D == 0 {
						cost.Add(cost, bigOf(c.A))
					}
				}
				cost.Add(cost, bigOf(t.Send))
			}
			if signs {
				bals[s] = nonneg(new(big.Int).Add(cost, bi(int64(r.Intn(3)-1))))
				break
			}
		}
	}
	in.Bal = bals[0].String()
	in.Bals = []string{bals[1].String(), bals[2].String()}
	return in
}
