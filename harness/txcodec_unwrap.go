package main

// Driver "txcodec", second kind of case (property C18): the "unwrap" leg of the
// round trip exercised as what it is in /repo, a LOOKUP BY HASH
// (evmtypes.UnwrapEthereumMsg) over a decoded Cosmos transaction that carries
// 1..4 MsgEthereumTx.  A case is a pool of signed transactions (txs[0] is the
// transaction under test, the others are partners / a foreign transaction) and
// an explicit list of lookups; a lookup is an envelope (positions in the pool,
// in order), optional forgeries of the recorded Hash / From fields of members
// made BEFORE encoding, and the requested hash.  Every lookup encodes the
// envelope with the real TxEncoder, decodes it with the real TxDecoder and calls
// the real UnwrapEthereumMsg on the decoded transaction.
//
// Oracle (the property text, nothing more): a successful unwrap returns a message
// whose AsTransaction().Hash() is the REQUESTED hash, whose recorded Hash is its
// Ethereum hash, whose recovered sender, fields and fee / cost / price figures are
// those of the original transaction with that hash; a request for the hash of a
// member must succeed; a request for a hash no member has must not return a
// transaction.  The Coq model (unwrap_scan in TxCodec/EthTxModel.v) is compared on
// every lookup: found / not found, position of the member returned, recorded
// Hash and From of every member after the call.

import (
	"bytes"
	"encoding/hex"
	"encoding/json"
	"fmt"
	"math/big"
	"sort"
	"strings"

	"github.com/cosmos/cosmos-sdk/client"
	codectypes "github.com/cosmos/cosmos-sdk/codec/types"
	sdk "github.com/cosmos/cosmos-sdk/types"
	authtx "github.com/cosmos/cosmos-sdk/x/auth/tx"
	"github.com/ethereum/go-ethereum/common"
	ethtypes "github.com/ethereum/go-ethereum/core/types"

	"github.com/haqq-network/haqq/utils"
	evmtypes "github.com/haqq-network/haqq/x/evm/types"
)

// tcReq: the requested hash.
type tcReq struct {
	Kind string `json:"kind"`          // "tx" hash of txs[tx] | "zero" | "flip" hash of txs[tx] with bit `bit` flipped | "raw" hex
	Tx   int    `json:"tx,omitempty"`  //
	Bit  int    `json:"bit,omitempty"` // 0..255
	Hex  string `json:"hex,omitempty"` // 64 hex digits
}

// tcForge: a field of the member at position pos overwritten before encoding.
type tcForge struct {
	Pos   int    `json:"pos"`
	Field string `json:"field"`          // "hash" | "from"
	Kind  string `json:"kind"`           // "tx" (Hash().Hex() of txs[tx]; field hash only) | "empty" | "raw" (text)
	Tx    int    `json:"tx,omitempty"`   //
	Text  string `json:"text,omitempty"` // printable ASCII
}

type tcLookup struct {
	Env   []int     `json:"env"` // positions in txs, 1..4 members
	Forge []tcForge `json:"forge,omitempty"`
	Req   tcReq     `json:"req"`
}

type tcUnwrapInput struct {
	Txs     []tcInput  `json:"txs"`
	Lookups []tcLookup `json:"lookups"`
}

type tcLookupObs struct {
	Request  string   `json:"request"`
	Found    int      `json:"found"` // position in the envelope of the message returned, -1 = none
	Err      string   `json:"err,omitempty"`
	RetHash  string   `json:"returned_eth_hash,omitempty"`
	RetField string   `json:"returned_hash_field,omitempty"`
	After    []string `json:"hash_fields_after"`
}

type tcUnwrapObs struct {
	Hashes  []string      `json:"tx_hashes"`
	Lookups []tcLookupObs `json:"lookups"`
}

// tcEnvelopeBytes builds the Cosmos transaction carrying msgs and encodes it.
// One message with an empty From goes through the real MsgEthereumTx.BuildTx;
// otherwise the transaction is assembled the way BuildTx does it (extension
// option, messages, fee and gas), for all messages, without touching From.
func tcEnvelopeBytes(cfg client.TxConfig, msgs []*evmtypes.MsgEthereumTx) (bz []byte, err error) {
	if p := catch(func() {
		if len(msgs) == 1 && msgs[0].From == "" {
			var built sdk.Tx
			if built, err = msgs[0].BuildTx(cfg.NewTxBuilder(), utils.BaseDenom); err == nil {
				bz, err = cfg.TxEncoder()(built)
			}
			return
		}
		b := cfg.NewTxBuilder()
		eb, ok := b.(authtx.ExtensionOptionsTxBuilder)
		if !ok {
			err = fmt.Errorf("unsupported builder")
			return
		}
		var option *codectypes.Any
		if option, err = codectypes.NewAnyWithValue(&evmtypes.ExtensionOptionsEthereumTx{}); err != nil {
			return
		}
		eb.SetExtensionOptions(option)
		sm := make([]sdk.Msg, len(msgs))
		fee, gas := new(big.Int), uint64(0)
		for i, m := range msgs {
			sm[i] = m
			fee.Add(fee, m.GetFee())
			gas += m.GetGas()
		}
		if err = b.SetMsgs(sm...); err != nil {
			return
		}
		if fee.Sign() > 0 && fee.BitLen() <= 256 {
			b.SetFeeAmount(sdk.Coins{sdk.NewCoin(utils.BaseDenom, sdk.NewIntFromBigInt(fee))})
		}
		b.SetGasLimit(gas)
		bz, err = cfg.TxEncoder()(b.GetTx())
	}); p != "" {
		return nil, fmt.Errorf("panic: %s", p)
	}
	return bz, err
}

// tcFiguresDiff compares the fee / cost / effective price figures derived from a
// message with go-ethereum's figures for the transaction orig.
func tcFiguresDiff(m *evmtypes.MsgEthereumTx, orig *ethtypes.Transaction, baseFee *big.Int) []string {
	td, err := evmtypes.UnpackTxData(m.Data)
	if err != nil {
		return []string{"UnpackTxData: " + err.Error()}
	}
	get := func(f func() *big.Int) *big.Int {
		var x *big.Int
		if p := catch(func() { x = f() }); p != "" {
			return nil
		}
		return x
	}
	signer := ethtypes.LatestSignerForChainID(orig.ChainId())
	gm, _ := orig.AsMessage(signer, baseFee)
	gas := new(big.Int).SetUint64(orig.Gas())
	gFee := new(big.Int).Mul(orig.GasPrice(), gas)
	gEffFee := new(big.Int).Mul(gm.GasPrice(), gas)
	gEffCost := new(big.Int).Add(gEffFee, orig.Value())
	d := []string{}
	cmp := func(name string, got, want *big.Int) {
		if !txcBigEq(got, want) {
			d = append(d, fmt.Sprintf("%s %s != %s", name, optS(got), want))
		}
	}
	cmp("fee", get(func() *big.Int { return m.GetFee() }), gFee)
	cmp("cost", get(func() *big.Int { return td.Cost() }), orig.Cost())
	cmp("effective price", get(func() *big.Int { return td.EffectiveGasPrice(baseFee) }), gm.GasPrice())
	cmp("effective fee", get(func() *big.Int { return m.GetEffectiveFee(baseFee) }), gEffFee)
	cmp("effective cost", get(func() *big.Int { return td.EffectiveCost(baseFee) }), gEffCost)
	return d
}

// tcMsgSenderDiff: MsgEthereumTx.GetSender / GetSigners must report the account whose key signed the transaction.
func tcMsgSenderDiff(m *evmtypes.MsgEthereumTx, orig *ethtypes.Transaction) string {
	signer := ethtypes.LatestSignerForChainID(orig.ChainId())
	want, err := ethtypes.Sender(signer, orig)
	if err != nil {
		return ""
	}
	var got common.Address
	var gerr error
	if p := catch(func() { got, gerr = m.GetSender(orig.ChainId()) }); p != "" {
		return "GetSender of the returned message panics: " + p
	}
	if gerr != nil {
		return "GetSender of the returned message fails: " + gerr.Error()
	}
	if got != want {
		return fmt.Sprintf("GetSender of the returned message reports %s, the transaction was signed by %s (From field of the message: %q)", got.Hex(), want.Hex(), m.From)
	}
	var sg []sdk.AccAddress
	if p := catch(func() { sg = m.GetSigners() }); p == "" && len(sg) == 1 && !bytes.Equal(sg[0].Bytes(), want.Bytes()) {
		return fmt.Sprintf("GetSigners of the returned message reports %s, the transaction was signed by %s (From field of the message: %q)", common.BytesToAddress(sg[0].Bytes()).Hex(), want.Hex(), m.From)
	}
	return ""
}

// tcReusedObjectDiff: one message object loaded with transaction A (From set, as Sign does), then with transaction B,
// must report B's sender.
func tcReusedObjectDiff(a, b *ethtypes.Transaction) string {
	signer := ethtypes.LatestSignerForChainID(a.ChainId())
	sa, err := ethtypes.Sender(signer, a)
	if err != nil {
		return ""
	}
	var m evmtypes.MsgEthereumTx
	if err := m.FromEthereumTx(a); err != nil {
		return ""
	}
	m.From = sa.Hex()
	if err := m.FromEthereumTx(b); err != nil {
		return ""
	}
	if d := tcMsgSenderDiff(&m, b); d != "" {
		return "a message object loaded with another transaction before: " + d
	}
	return ""
}

func coqStrEsc(s string) (string, error) {
	for _, c := range s {
		if c < 32 || c > 126 {
			return "", fmt.Errorf("text %q is not printable ASCII", s)
		}
	}
	return `"` + strings.ReplaceAll(s, `"`, `""`) + `"`, nil
}

func coqNat(i int) string { return fmt.Sprintf("%d", i) } // nat is the default scope of the case files

type tcPoolTx struct {
	tx      *ethtypes.Transaction
	msg     *evmtypes.MsgEthereumTx // nil: FromEthereumTx refused the transaction
	baseFee *big.Int
}

func tcResolveReq(pool []tcPoolTx, q tcReq) (common.Hash, string, error) {
	switch q.Kind {
	case "tx", "flip":
		if q.Tx < 0 || q.Tx >= len(pool) {
			return common.Hash{}, "", fmt.Errorf("request names transaction %d", q.Tx)
		}
		h := pool[q.Tx].tx.Hash()
		if q.Kind == "flip" {
			if q.Bit < 0 || q.Bit > 255 {
				return h, "", fmt.Errorf("bit %d", q.Bit)
			}
			h[q.Bit/8] ^= 1 << uint(q.Bit%8)
			return h, fmt.Sprintf("hash(tx%d) with bit %d flipped", q.Tx, q.Bit), nil
		}
		return h, fmt.Sprintf("hash(tx%d)", q.Tx), nil
	case "zero":
		return common.Hash{}, "the zero hash", nil
	case "raw":
		b, err := hex.DecodeString(q.Hex)
		if err != nil || len(b) != 32 {
			return common.Hash{}, "", fmt.Errorf("raw request %q is not 32 bytes of hex", q.Hex)
		}
		return common.BytesToHash(b), "0x" + q.Hex, nil
	}
	return common.Hash{}, "", fmt.Errorf("request kind %q", q.Kind)
}

func tcRunUnwrap(id string, in tcUnwrapInput) (c Case, err error) {
	if len(in.Txs) == 0 {
		return c, fmt.Errorf("%s: empty pool", id)
	}
	cfg := tcConfig()
	pool := make([]tcPoolTx, len(in.Txs))
	obs := tcUnwrapObs{}
	for i, ti := range in.Txs {
		tx, err := tcBuild(ti)
		if err != nil {
			return c, fmt.Errorf("%s: building transaction %d: %w", id, i, err)
		}
		p := tcPoolTx{tx: tx, baseFee: tcBig(ti.BaseFee)}
		if p.baseFee == nil {
			p.baseFee = big.NewInt(0)
		}
		m := &evmtypes.MsgEthereumTx{}
		var ferr error
		if pan := catch(func() { ferr = m.FromEthereumTx(tx) }); pan == "" && ferr == nil {
			p.msg = m
		}
		pool[i] = p
		// the Coq term writes this text as hash_hex of the hash bytes: "0x" + lower-case hex
		if tx.Hash().Hex() != "0x"+hex.EncodeToString(tx.Hash().Bytes()) {
			return c, fmt.Errorf("%s: Hash.Hex() is not 0x + lower-case hex", id)
		}
		obs.Hashes = append(obs.Hashes, tx.Hash().Hex())
	}

	// in the Coq term the hash of pool transaction i is written r<i> (bytes) and h<i> (its hex text)
	coqHashText := func(t string) (string, error) {
		for i := range pool {
			if t == obs.Hashes[i] {
				return fmt.Sprintf("h%d", i), nil
			}
		}
		return coqStrEsc(t)
	}
	coqHashBytes := func(h common.Hash, q tcReq) string {
		if q.Kind == "flip" {
			return fmt.Sprintf("(flip r%d %s)", q.Tx, coqNat(q.Bit))
		}
		if h == (common.Hash{}) {
			return "zero_hash"
		}
		for i, p := range pool {
			if h == p.tx.Hash() {
				return fmt.Sprintf("r%d", i)
			}
		}
		return coqHx(h.Bytes())
	}

	tags := map[string]bool{}
	var oracle []string
	encoded := map[string][]byte{}
	// lookups on the same envelope (members, forgeries, From texts left behind) are printed together
	type evGroup struct {
		head string
		reqs []string
	}
	groups := map[string]*evGroup{}
	groupOrder := []string{}
	nFound, nRefused := 0, 0

	// one message object reused for two transactions of the pool (both orders)
	if len(pool) >= 2 && len(in.Lookups) > 0 {
		for _, ij := range [][2]int{{0, 1}, {1, 0}} {
			if d := tcReusedObjectDiff(pool[ij[0]].tx, pool[ij[1]].tx); d != "" {
				oracle = append(oracle, fmt.Sprintf("tx%d then tx%d: %s", ij[0], ij[1], d))
			}
		}
		tags["unwrap:reused-message-object"] = true
	}

	for k, lk := range in.Lookups {
		if len(lk.Env) < 1 || len(lk.Env) > 4 {
			return c, fmt.Errorf("%s: lookup %d: envelope of %d messages", id, k, len(lk.Env))
		}
		fail := func(f string, a ...interface{}) {
			ej, _ := json.Marshal(lk)
			oracle = append(oracle, fmt.Sprintf("lookup %d %s: ", k, ej)+fmt.Sprintf(f, a...))
		}
		H, reqText, err := tcResolveReq(pool, lk.Req)
		if err != nil {
			return c, fmt.Errorf("%s: lookup %d: %w", id, k, err)
		}
		// ---- the envelope as its sender builds it
		msgs := make([]*evmtypes.MsgEthereumTx, len(lk.Env))
		for j, ti := range lk.Env {
			if ti < 0 || ti >= len(pool) {
				return c, fmt.Errorf("%s: lookup %d: member %d names transaction %d", id, k, j, ti)
			}
			if pool[ti].msg == nil {
				return c, fmt.Errorf("%s: lookup %d: transaction %d cannot be wrapped (FromEthereumTx refuses it)", id, k, ti)
			}
			msgs[j] = &evmtypes.MsgEthereumTx{Data: pool[ti].msg.Data, Hash: pool[ti].msg.Hash}
		}
		coqFH, coqFF := []string{}, []string{}
		forgeTag := "none"
		for _, f := range lk.Forge {
			if f.Pos < 0 || f.Pos >= len(msgs) {
				return c, fmt.Errorf("%s: lookup %d: forgery at position %d", id, k, f.Pos)
			}
			var text string
			switch f.Kind {
			case "tx":
				if f.Field != "hash" || f.Tx < 0 || f.Tx >= len(pool) {
					return c, fmt.Errorf("%s: lookup %d: bad forgery", id, k)
				}
				text = pool[f.Tx].tx.Hash().Hex()
				forgeTag = "hash:=foreign"
				for _, ti := range lk.Env {
					if pool[ti].tx.Hash() == pool[f.Tx].tx.Hash() {
						forgeTag = "hash:=member"
					}
				}
			case "empty":
				text, forgeTag = "", f.Field+":=empty"
			case "raw":
				text, forgeTag = f.Text, f.Field+":=text"
			default:
				return c, fmt.Errorf("%s: lookup %d: forgery kind %q", id, k, f.Kind)
			}
			ct, err := coqHashText(text)
			if err != nil {
				return c, fmt.Errorf("%s: lookup %d: %w", id, k, err)
			}
			switch f.Field {
			case "hash":
				msgs[f.Pos].Hash = text
				coqFH = append(coqFH, fmt.Sprintf("(%s, %s)", coqNat(f.Pos), ct))
			case "from":
				msgs[f.Pos].From = text
				coqFF = append(coqFF, fmt.Sprintf("(%s, %s)", coqNat(f.Pos), ct))
			default:
				return c, fmt.Errorf("%s: lookup %d: forged field %q", id, k, f.Field)
			}
		}
		if len(lk.Forge) > 1 {
			forgeTag = "several"
		}
		tags["unwrap:forge:"+forgeTag] = true
		tags[fmt.Sprintf("unwrap:size:%d", len(lk.Env))] = true

		ekb, _ := json.Marshal(struct {
			E []int
			F []tcForge
		}{lk.Env, lk.Forge})
		bz, ok := encoded[string(ekb)]
		if !ok {
			if bz, err = tcEnvelopeBytes(cfg, msgs); err != nil {
				return c, fmt.Errorf("%s: lookup %d: building / encoding the envelope: %w", id, k, err)
			}
			encoded[string(ekb)] = bz
		}
		// ---- the other side: decode, look the hash up
		stx, err := cfg.TxDecoder()(bz)
		if err != nil {
			return c, fmt.Errorf("%s: lookup %d: TxDecoder: %w", id, k, err)
		}
		dmsgs := stx.GetMsgs()
		if len(dmsgs) != len(msgs) {
			return c, fmt.Errorf("%s: lookup %d: decoded transaction has %d messages, %d were encoded", id, k, len(dmsgs), len(msgs))
		}
		var got *evmtypes.MsgEthereumTx
		var uerr error
		pan := catch(func() { got, uerr = evmtypes.UnwrapEthereumMsg(&stx, H) })
		lo := tcLookupObs{Request: H.Hex(), Found: -1}
		switch {
		case pan != "":
			lo.Err, got = "panic: "+pan, nil
		case uerr != nil:
			lo.Err, got = uerr.Error(), nil
			if strings.HasPrefix(lo.Err, "eth tx not found") {
				lo.Err = "eth tx not found"
			}
		case got == nil:
			lo.Err = "nil message without an error"
		}
		coqAfter, coqFromAfter := []string{}, []string{}
		for j, dm := range stx.GetMsgs() {
			em, ok := dm.(*evmtypes.MsgEthereumTx)
			if !ok {
				return c, fmt.Errorf("%s: lookup %d: decoded message %d is %T", id, k, j, dm)
			}
			if got != nil && em == got && lo.Found < 0 {
				lo.Found = j
			}
			lo.After = append(lo.After, em.Hash)
			a, err1 := coqHashText(em.Hash)
			b, err2 := coqStrEsc(em.From)
			if err1 != nil || err2 != nil {
				return c, fmt.Errorf("%s: lookup %d: unprintable Hash / From after the call", id, k)
			}
			coqAfter = append(coqAfter, a)
			coqFromAfter = append(coqFromAfter, b)
		}

		// ---- the property
		want := -1 // first member whose ORIGINAL transaction has the requested hash
		for j, ti := range lk.Env {
			if pool[ti].tx.Hash() == H {
				want = j
				break
			}
		}
		switch {
		case want >= 0 && lk.Env[want] == 0:
			tags["unwrap:req:own"] = true
		case want >= 0:
			tags["unwrap:req:other-member"] = true
		default:
			tags["unwrap:req:"+lk.Req.Kind+"(absent)"] = true
		}
		if got != nil {
			nFound++
			var back *ethtypes.Transaction
			if p := catch(func() { back = got.AsTransaction() }); p != "" || back == nil {
				fail("the message returned for %s does not convert back: AsTransaction failed %s", reqText, p)
			} else {
				lo.RetHash, lo.RetField = back.Hash().Hex(), got.Hash
				if lo.Found < 0 {
					fail("the message returned for %s is not one of the decoded messages", reqText)
				}
				if back.Hash() != H {
					fail("asked for %s = %s, the transaction returned has hash %s", reqText, H.Hex(), back.Hash().Hex())
				}
				if got.Hash != back.Hash().Hex() {
					fail("hash recorded in the returned message %q != its Ethereum hash %s", got.Hash, back.Hash().Hex())
				}
				if want < 0 {
					fail("no member of the envelope has the requested hash %s (%s): the lookup must fail, it returned the transaction %s (member %d)",
						H.Hex(), reqText, back.Hash().Hex(), lo.Found)
				} else {
					orig := pool[lk.Env[want]]
					signer := ethtypes.LatestSignerForChainID(orig.tx.ChainId())
					if a, b := senderStr(signer, back), senderStr(signer, orig.tx); a != b {
						fail("sender recovered from the returned transaction %s != sender of the transaction with the requested hash %s", a, b)
					}
					// the message's own "recoverable sender" API (GetSender recovers from the signature; GetSigners is what the
					// Cosmos side uses), whatever the From field of the envelope claims
					if d := tcMsgSenderDiff(got, orig.tx); d != "" {
						fail("%s (asked for %s)", d, reqText)
					}
					if d := tcFieldsDiff(orig.tx, back); len(d) > 0 {
						fail("fields of the returned transaction differ from the transaction with the requested hash: %s", strings.Join(d, ","))
					}
					if d := tcFiguresDiff(got, orig.tx, orig.baseFee); len(d) > 0 {
						fail("figures derived from the returned message differ from the original transaction's: %s", strings.Join(d, "; "))
					}
				}
			}
		} else {
			nRefused++
			if want >= 0 {
				fail("member %d of the envelope is the transaction with the requested hash %s (%s), the lookup failed: %s", want, H.Hex(), reqText, lo.Err)
			}
		}
		obs.Lookups = append(obs.Lookups, lo)

		env := make([]string, len(lk.Env))
		for j, ti := range lk.Env {
			env[j] = coqNat(ti)
		}
		found := "None"
		if lo.Found >= 0 {
			found = "(Some " + coqNat(lo.Found) + ")"
		}
		head := fmt.Sprintf("%s %s %s %s", coqList(env), coqList(coqFH), coqList(coqFF), coqList(coqFromAfter))
		g, ok := groups[head]
		if !ok {
			g = &evGroup{head: head}
			groups[head] = g
			groupOrder = append(groupOrder, head)
		}
		g.reqs = append(g.reqs, fmt.Sprintf("mk_rq %s %s %s", coqHashBytes(H, lk.Req), found, coqList(coqAfter)))
	}
	coqEnvs := []string{}
	for _, h := range groupOrder {
		coqEnvs = append(coqEnvs, "mk_ev "+h+"\n      "+coqList(groups[h].reqs))
	}
	if nFound > 0 {
		tags["unwrap:answer:found"] = true
	}
	if nRefused > 0 {
		tags["unwrap:answer:refused"] = true
	}
	tags[fmt.Sprintf("unwrap:type:%d", in.Txs[0].Type)] = true

	// ---- Coq term: pool, graph of the hash function on the pool's preimages, lookups
	coqSharedData = nil
	if len(pool[0].tx.Data()) >= 64 {
		coqSharedData = pool[0].tx.Data()
	}
	// pool transactions that are never a member of an envelope (the foreign one) only lend their
	// hash: the Coq pool stops at the last member
	last := 0
	for _, lk := range in.Lookups {
		for _, ti := range lk.Env {
			if ti > last {
				last = ti
			}
		}
	}
	ctxs, chs := []string{}, []string{}
	for i, p := range pool[:last+1] {
		ctxs = append(ctxs, coqEthTx(p.tx))
		chs = append(chs, fmt.Sprintf("r%d", i))
	}
	coq := fmt.Sprintf("mk_uc %s\n    %s\n    %s", coqList(ctxs), coqList(chs), "["+strings.Join(coqEnvs, ";\n     ")+"]")
	for i := len(pool) - 1; i >= 0; i-- {
		coq = fmt.Sprintf("let r%d := %s in let h%d := hash_hex r%d in\n  ", i, coqHx(pool[i].tx.Hash().Bytes()), i, i) + coq
	}
	if coqSharedData != nil {
		coq = "let d := " + coqHx(coqSharedData) + " in\n  " + coq
		coqSharedData = nil
	}
	coq = "(" + coq + ")"
	list := "unwraps"
	if len(coq) > 120000 {
		list = "bigunwraps"
	}
	tl := []string{}
	for t := range tags {
		tl = append(tl, t)
	}
	sort.Strings(tl)
	kb, _ := json.Marshal(in)
	msg := strings.Join(oracle, "; ")
	if len(oracle) > 3 {
		msg = strings.Join(oracle[:3], "; ") + fmt.Sprintf("; ... (%d lookups of this case fail)", len(oracle))
	}
	return Case{
		ID: id, Kind: "unwrap", Input: in, Obs: obs, Coq: coq, CoqList: list,
		OracleOK: len(oracle) == 0, OracleMsg: msg,
		Nontrivial: nFound > 0 && nRefused > 0, Key: string(kb), Tags: tl,
	}, nil
}

// ---------------------------------------------------------------- generator

// tcSmallWrappable: a partner transaction; it wraps, its envelope can be built
// (fee within 256 bits) and it is short (the pool is printed into every case).
func tcSmallWrappable(in tcInput) bool {
	tx, err := tcBuild(in)
	if err != nil {
		return false
	}
	pre, err := tx.MarshalBinary()
	if err != nil || len(pre) > 250 {
		return false
	}
	m := &evmtypes.MsgEthereumTx{}
	var ferr error
	if pan := catch(func() { ferr = m.FromEthereumTx(tx) }); pan != "" || ferr != nil {
		return false
	}
	fee := new(big.Int).Mul(tx.GasPrice(), new(big.Int).SetUint64(tx.Gas()))
	return fee.BitLen() <= 256
}

func tcPerm(r *Rng, n int) []int {
	p := make([]int, n)
	for i := range p {
		p[i] = i
	}
	for i := n - 1; i > 0; i-- {
		j := r.Intn(i + 1)
		p[i], p[j] = p[j], p[i]
	}
	return p
}

// tcGenLookups: pool positions 0 = the transaction under test A, 1..3 partners,
// 4 = a foreign transaction (never a member).  Envelopes [A], [A,B] / [B,A],
// permutations of {A,B,C} and {A,B,C,D} (now and then A twice); each unforged and
// with forged Hash / From fields; requests: own hash, every other member's, the
// foreign hash, the zero hash, the own hash with one bit flipped, the forged text
// when it is a hash.
func tcGenLookups(r *Rng) []tcLookup {
	const foreign = 4
	out := []tcLookup{}
	fromTexts := []string{"0x1111111111111111111111111111111111111111", "0x000000000000000000000000000000000000dEaD", "haqq1notanaddress", "0x"}
	hashTexts := []string{"0xdead", "deadbeef", "0x", "not a hash", "0X" + strings.Repeat("F", 64)}
	for size := 1; size <= 4; size++ {
		env := tcPerm(r, size)
		if size >= 2 && r.Chance(10) {
			// A twice
			for j := range env {
				if env[j] != 0 {
					env[j] = 0
					break
				}
			}
		}
		reqs := func(extra ...tcReq) []tcReq {
			qs := []tcReq{{Kind: "tx", Tx: 0}}
			seen := map[int]bool{0: true}
			for _, ti := range env {
				if !seen[ti] {
					seen[ti] = true
					qs = append(qs, tcReq{Kind: "tx", Tx: ti})
				}
			}
			qs = append(qs, tcReq{Kind: "tx", Tx: foreign}, tcReq{Kind: "zero"}, tcReq{Kind: "flip", Tx: env[r.Intn(len(env))], Bit: r.Intn(256)})
			return append(qs, extra...)
		}
		add := func(forge []tcForge, qs []tcReq) {
			for _, q := range qs {
				out = append(out, tcLookup{Env: env, Forge: forge, Req: q})
			}
		}
		add(nil, reqs())
		// forgeries
		other := func(p int) int { // pool position of a member other than the one at p (or the foreign tx)
			for _, j := range tcPerm(r, size) {
				if env[j] != env[p] {
					return env[j]
				}
			}
			return foreign
		}
		var configs [][]tcForge
		if size == 1 {
			configs = [][]tcForge{
				{{Pos: 0, Field: "hash", Kind: "tx", Tx: foreign}},
				{{Pos: 0, Field: "hash", Kind: "empty"}},
				{{Pos: 0, Field: "hash", Kind: "raw", Text: hashTexts[r.Intn(len(hashTexts))]}},
				{{Pos: 0, Field: "from", Kind: "raw", Text: fromTexts[r.Intn(len(fromTexts))]}},
			}
		} else {
			for n := 0; n < 2; n++ {
				p := r.Intn(size)
				switch r.Intn(6) {
				case 0:
					configs = append(configs, []tcForge{{Pos: p, Field: "hash", Kind: "tx", Tx: other(p)}})
				case 1:
					configs = append(configs, []tcForge{{Pos: p, Field: "hash", Kind: "tx", Tx: foreign}})
				case 2:
					configs = append(configs, []tcForge{{Pos: p, Field: "hash", Kind: "empty"}})
				case 3:
					configs = append(configs, []tcForge{{Pos: p, Field: "from", Kind: "raw", Text: fromTexts[r.Intn(len(fromTexts))]}})
				case 4:
					// two members swap their recorded hashes
					q := (p + 1 + r.Intn(size-1)) % size
					configs = append(configs, []tcForge{{Pos: p, Field: "hash", Kind: "tx", Tx: env[q]}, {Pos: q, Field: "hash", Kind: "tx", Tx: env[p]}})
				default:
					// every member claims to be the foreign transaction
					f := []tcForge{}
					for j := 0; j < size; j++ {
						f = append(f, tcForge{Pos: j, Field: "hash", Kind: "tx", Tx: foreign})
					}
					configs = append(configs, f)
				}
			}
		}
		// a forged envelope is asked for the own hash, the true hash of every forged member, every
		// hash a forgery names, and one absent hash
		for _, f := range configs {
			qs := []tcReq{{Kind: "tx", Tx: 0}}
			seen := map[int]bool{0: true}
			for _, g := range f {
				for _, ti := range []int{env[g.Pos], g.Tx} {
					if (ti == g.Tx && g.Kind != "tx") || seen[ti] {
						continue
					}
					seen[ti] = true
					qs = append(qs, tcReq{Kind: "tx", Tx: ti})
				}
			}
			if !seen[foreign] && (size == 1 || r.Chance(50)) {
				qs = append(qs, tcReq{Kind: "tx", Tx: foreign})
			}
			switch r.Intn(2) {
			case 0:
				qs = append(qs, tcReq{Kind: "zero"})
			default:
				qs = append(qs, tcReq{Kind: "flip", Tx: env[r.Intn(len(env))], Bit: r.Intn(256)})
			}
			add(f, qs)
		}
	}
	return out
}
