package main

// Driver "txcodec" (property C18): a signed Ethereum transaction is wrapped into
// MsgEthereumTx (FromEthereumTx), built into a Cosmos transaction (BuildTx with
// the application's TxConfig), encoded (TxEncoder), decoded (TxDecoder),
// unwrapped (AsTransaction).  The oracle is the property itself: same hash, same
// recoverable sender, identical fields, recorded hash = Ethereum hash, equal fee /
// cost / effective price.  The Coq model (TxCodec/EthTxModel.v) is compared with
// the observed TxData, the unwrapped fields and, byte for byte, with the RLP
// go-ethereum hashes for signing and for the transaction hash.

import (
	"bytes"
	"encoding/hex"
	"encoding/json"
	"fmt"
	"math/big"
	"sort"
	"strings"

	"github.com/cosmos/cosmos-sdk/client"
	sdk "github.com/cosmos/cosmos-sdk/types"
	"github.com/ethereum/go-ethereum/common"
	ethtypes "github.com/ethereum/go-ethereum/core/types"
	"github.com/ethereum/go-ethereum/crypto"
	"github.com/ethereum/go-ethereum/rlp"

	"github.com/haqq-network/haqq/app"
	"github.com/haqq-network/haqq/encoding"
	"github.com/haqq-network/haqq/utils"
	evmtypes "github.com/haqq-network/haqq/x/evm/types"
)

func init() { register("txcodec", txcodecDriver) }

type tcTuple struct {
	Addr string   `json:"addr"` // 40 hex
	Keys []string `json:"keys"` // 64 hex each
}

// tcInput is one transaction.  Amounts are decimal strings; "" = the struct field
// is left nil (go-ethereum's NewTx turns it into 0).
type tcInput struct {
	Type     int       `json:"type"`     // 0 legacy, 1 access list, 2 dynamic fee
	ChainID  string    `json:"chain_id"` // signer chain id; "0" with type 0 = pre-EIP-155 (Homestead) signature
	Nonce    uint64    `json:"nonce"`
	GasPrice string    `json:"gas_price"` // legacy, access list
	Tip      string    `json:"tip"`       // dynamic fee
	FeeCap   string    `json:"fee_cap"`   // dynamic fee
	Gas      uint64    `json:"gas"`
	To       string    `json:"to"` // 40 hex, "" = contract creation
	Value    string    `json:"value"`
	Data     string    `json:"data"` // hex
	Access   []tcTuple `json:"access"`
	Key      string    `json:"key"` // 64 hex private key
	Sig      string    `json:"sig"` // "signed" | "raw" (V,R,S below put into the struct as they are)
	V        string    `json:"v,omitempty"`
	R        string    `json:"r,omitempty"`
	S        string    `json:"s,omitempty"`
	BaseFee  string    `json:"base_fee"` // the non-nil base fee for the effective-price figures
}

var tcTxConfig client.TxConfig

func tcConfig() client.TxConfig {
	if tcTxConfig == nil {
		tcTxConfig = encoding.MakeConfig(app.ModuleBasics).TxConfig
	}
	return tcTxConfig
}

func tcBig(s string) *big.Int {
	if s == "" {
		return nil
	}
	v, ok := new(big.Int).SetString(s, 10)
	if !ok {
		panic("bad integer " + s)
	}
	return v
}

func tcBuild(in tcInput) (*ethtypes.Transaction, error) {
	var to *common.Address
	if in.To != "" {
		a := common.HexToAddress(in.To)
		to = &a
	}
	data, err := hex.DecodeString(in.Data)
	if err != nil {
		return nil, err
	}
	if len(data) == 0 && len(in.Data) == 0 && in.Nonce%2 == 1 {
		data = nil // nil and empty slices both occur
	}
	var al ethtypes.AccessList
	if in.Access != nil {
		al = ethtypes.AccessList{}
		for _, t := range in.Access {
			tu := ethtypes.AccessTuple{Address: common.HexToAddress(t.Addr)}
			for _, k := range t.Keys {
				tu.StorageKeys = append(tu.StorageKeys, common.HexToHash(k))
			}
			al = append(al, tu)
		}
	}
	cid := tcBig(in.ChainID)
	var v, r, s *big.Int
	if in.Sig == "raw" {
		v, r, s = tcBig(in.V), tcBig(in.R), tcBig(in.S)
	}
	var inner ethtypes.TxData
	switch in.Type {
	case 0:
		inner = &ethtypes.LegacyTx{Nonce: in.Nonce, GasPrice: tcBig(in.GasPrice), Gas: in.Gas, To: to, Value: tcBig(in.Value), Data: data, V: v, R: r, S: s}
	case 1:
		inner = &ethtypes.AccessListTx{ChainID: cid, Nonce: in.Nonce, GasPrice: tcBig(in.GasPrice), Gas: in.Gas, To: to, Value: tcBig(in.Value), Data: data, AccessList: al, V: v, R: r, S: s}
	case 2:
		inner = &ethtypes.DynamicFeeTx{ChainID: cid, Nonce: in.Nonce, GasTipCap: tcBig(in.Tip), GasFeeCap: tcBig(in.FeeCap), Gas: in.Gas, To: to, Value: tcBig(in.Value), Data: data, AccessList: al, V: v, R: r, S: s}
	default:
		return nil, fmt.Errorf("bad type")
	}
	tx := ethtypes.NewTx(inner)
	if in.Sig == "raw" {
		return tx, nil
	}
	kb, err := hex.DecodeString(in.Key)
	if err != nil {
		return nil, err
	}
	key, err := crypto.ToECDSA(kb)
	if err != nil {
		return nil, err
	}
	var signer ethtypes.Signer
	if in.Type == 0 && (cid == nil || cid.Sign() == 0) {
		signer = ethtypes.HomesteadSigner{}
	} else {
		signer = ethtypes.LatestSignerForChainID(cid)
	}
	return ethtypes.SignTx(tx, signer, key)
}

// tcSignPreimage replicates the input of signer.Hash / HomesteadSigner.Hash that
// Sender() uses for this transaction under the signer of chain id cid, and
// checks the replica against go-ethereum's own hash.
func tcSignPreimage(tx *ethtypes.Transaction, cid *big.Int) ([]byte, error) {
	var pre []byte
	var err error
	var want common.Hash
	switch tx.Type() {
	case ethtypes.LegacyTxType:
		if tx.Protected() {
			pre, err = rlp.EncodeToBytes([]interface{}{tx.Nonce(), tx.GasPrice(), tx.Gas(), tx.To(), tx.Value(), tx.Data(), cid, uint(0), uint(0)})
			want = ethtypes.NewEIP155Signer(cid).Hash(tx)
		} else {
			pre, err = rlp.EncodeToBytes([]interface{}{tx.Nonce(), tx.GasPrice(), tx.Gas(), tx.To(), tx.Value(), tx.Data()})
			want = ethtypes.HomesteadSigner{}.Hash(tx)
		}
	case ethtypes.AccessListTxType:
		pre, err = rlp.EncodeToBytes([]interface{}{cid, tx.Nonce(), tx.GasPrice(), tx.Gas(), tx.To(), tx.Value(), tx.Data(), tx.AccessList()})
		pre = append([]byte{tx.Type()}, pre...)
		want = ethtypes.LatestSignerForChainID(cid).Hash(tx)
	case ethtypes.DynamicFeeTxType:
		pre, err = rlp.EncodeToBytes([]interface{}{cid, tx.Nonce(), tx.GasTipCap(), tx.GasFeeCap(), tx.Gas(), tx.To(), tx.Value(), tx.Data(), tx.AccessList()})
		pre = append([]byte{tx.Type()}, pre...)
		want = ethtypes.LatestSignerForChainID(cid).Hash(tx)
	}
	if err != nil {
		return nil, err
	}
	if crypto.Keccak256Hash(pre) != want {
		return nil, fmt.Errorf("replicated signing preimage does not hash to signer.Hash")
	}
	return pre, nil
}

// ---- Coq printing
// coqHx prints a byte string as hex text; long strings are cut into chunks so that
// no Coq term nests deeper than a few thousand constructors.
func coqHx(b []byte) string {
	h := hex.EncodeToString(b)
	const chunk = 4000
	if len(h) <= chunk {
		return `(hx "` + h + `")`
	}
	parts := []string{}
	for i := 0; i < len(h); i += chunk {
		j := i + chunk
		if j > len(h) {
			j = len(h)
		}
		parts = append(parts, `"`+h[i:j]+`"`)
	}
	return "(hxs " + coqList(parts) + ")"
}
func coqU64(x uint64) string      { return fmt.Sprintf("%d%%N", x) }
func coqStr(s string) string      { return `"` + s + `"` }
func txcCoqOptBig(x *big.Int) string { return coqOptZ(x) }
func coqBytesLit(b []byte) string { return coqHx(b) }

func coqTo(to *common.Address) string {
	if to == nil {
		return "None"
	}
	return "(Some " + coqHx(to.Bytes()) + ")"
}

func coqAccess(al ethtypes.AccessList) string {
	out := []string{}
	for _, t := range al {
		ks := []string{}
		for _, k := range t.StorageKeys {
			ks = append(ks, coqHx(k.Bytes()))
		}
		out = append(out, fmt.Sprintf("mk_at %s %s", coqHx(t.Address.Bytes()), coqList(ks)))
	}
	return coqList(out)
}

// coqShared: long call data is written once per case (bound to the Coq variable d)
// and referred to from every place it occurs in, including inside the preimages.
// This only shortens the generated file: Coq still compares every byte.
var coqSharedData []byte

func coqData(b []byte) string {
	if coqSharedData != nil && bytes.Equal(b, coqSharedData) {
		return "d"
	}
	return coqHx(b)
}

func coqHxWithData(b []byte) string {
	if coqSharedData != nil {
		if i := bytes.Index(b, coqSharedData); i >= 0 {
			return "(" + coqHx(b[:i]) + " ++ d ++ " + coqHx(b[i+len(coqSharedData):]) + ")%list"
		}
	}
	return coqHx(b)
}

func coqEthTx(tx *ethtypes.Transaction) string {
	v, r, s := tx.RawSignatureValues()
	switch tx.Type() {
	case ethtypes.LegacyTxType:
		return fmt.Sprintf("(TxLegacy (mk_legacy %s %s %s %s %s %s %s %s %s))", coqU64(tx.Nonce()), coqZ(tx.GasPrice()), coqU64(tx.Gas()),
			coqTo(tx.To()), coqZ(tx.Value()), coqData(tx.Data()), coqZ(v), coqZ(r), coqZ(s))
	case ethtypes.AccessListTxType:
		return fmt.Sprintf("(TxAccessList (mk_al %s %s %s %s %s %s %s %s %s %s %s))", coqZ(tx.ChainId()), coqU64(tx.Nonce()), coqZ(tx.GasPrice()), coqU64(tx.Gas()),
			coqTo(tx.To()), coqZ(tx.Value()), coqData(tx.Data()), coqAccess(tx.AccessList()), coqZ(v), coqZ(r), coqZ(s))
	default:
		return fmt.Sprintf("(TxDynamicFee (mk_df %s %s %s %s %s %s %s %s %s %s %s %s))", coqZ(tx.ChainId()), coqU64(tx.Nonce()), coqZ(tx.GasTipCap()), coqZ(tx.GasFeeCap()), coqU64(tx.Gas()),
			coqTo(tx.To()), coqZ(tx.Value()), coqData(tx.Data()), coqAccess(tx.AccessList()), coqZ(v), coqZ(r), coqZ(s))
	}
}

type sdkIntLike interface{ BigInt() *big.Int }

func coqOptInt(isNil bool, x sdkIntLike) string {
	if isNil {
		return "None"
	}
	return coqOptZ(x.BigInt())
}

func coqAccessPB(al evmtypes.AccessList) string {
	out := []string{}
	for _, t := range al {
		ks := []string{}
		for _, k := range t.StorageKeys {
			ks = append(ks, coqStr(k))
		}
		out = append(out, fmt.Sprintf("mk_atp %s %s", coqStr(t.Address), coqList(ks)))
	}
	return coqList(out)
}

func coqTxData(td evmtypes.TxData) string {
	switch t := td.(type) {
	case *evmtypes.LegacyTx:
		return fmt.Sprintf("(DLegacy (mk_legacy_pb %s %s %s %s %s %s %s %s %s))", coqU64(t.Nonce), coqOptInt(t.GasPrice == nil, t.GasPrice), coqU64(t.GasLimit),
			coqStr(t.To), coqOptInt(t.Amount == nil, t.Amount), coqData(t.Data), coqHx(t.V), coqHx(t.R), coqHx(t.S))
	case *evmtypes.AccessListTx:
		return fmt.Sprintf("(DAccessList (mk_al_pb %s %s %s %s %s %s %s %s %s %s %s))", coqOptInt(t.ChainID == nil, t.ChainID), coqU64(t.Nonce), coqOptInt(t.GasPrice == nil, t.GasPrice), coqU64(t.GasLimit),
			coqStr(t.To), coqOptInt(t.Amount == nil, t.Amount), coqData(t.Data), coqAccessPB(t.Accesses), coqHx(t.V), coqHx(t.R), coqHx(t.S))
	case *evmtypes.DynamicFeeTx:
		return fmt.Sprintf("(DDynamicFee (mk_df_pb %s %s %s %s %s %s %s %s %s %s %s %s))", coqOptInt(t.ChainID == nil, t.ChainID), coqU64(t.Nonce), coqOptInt(t.GasTipCap == nil, t.GasTipCap), coqOptInt(t.GasFeeCap == nil, t.GasFeeCap), coqU64(t.GasLimit),
			coqStr(t.To), coqOptInt(t.Amount == nil, t.Amount), coqData(t.Data), coqAccessPB(t.Accesses), coqHx(t.V), coqHx(t.R), coqHx(t.S))
	}
	return "BAD"
}

// catch runs f and reports a panic as a string.
func catch(f func()) (p string) {
	defer func() {
		if r := recover(); r != nil {
			p = fmt.Sprint(r)
			if len(p) > 120 {
				p = p[:120]
			}
		}
	}()
	f()
	return ""
}

type tcFigures struct {
	Fee, Cost, PriceNil, Price, EffFee, EffCost *big.Int
}

func optS(x *big.Int) string {
	if x == nil {
		return "nil"
	}
	return x.String()
}

type tcObs struct {
	Res        int               `json:"res"` // 0 round trip done, 1 FromEthereumTx error, 2 FromEthereumTx panic, 3 BuildTx panic
	Err        string            `json:"err,omitempty"`
	Hash       string            `json:"hash"`
	MsgHash    string            `json:"msg_hash,omitempty"`
	BackHash   string            `json:"back_hash,omitempty"`
	Sender     string            `json:"sender"`
	BackSender string            `json:"back_sender,omitempty"`
	TxBytes    int               `json:"tx_bytes,omitempty"`
	ValidateOK bool              `json:"validate_basic_ok"`
	Msg        map[string]string `json:"msg_figures,omitempty"`
	Geth       map[string]string `json:"geth_figures,omitempty"`
}

func senderStr(signer ethtypes.Signer, tx *ethtypes.Transaction) string {
	a, err := ethtypes.Sender(signer, tx)
	if err != nil {
		return "error: " + err.Error()
	}
	return a.Hex()
}

func txcBigEq(a, b *big.Int) bool {
	if a == nil || b == nil {
		return a == nil && b == nil
	}
	return a.Cmp(b) == 0
}

// tcFieldsDiff lists the fields in which two go-ethereum transactions differ.
func tcFieldsDiff(a, b *ethtypes.Transaction) []string {
	d := []string{}
	add := func(name string, ok bool) {
		if !ok {
			d = append(d, name)
		}
	}
	add("type", a.Type() == b.Type())
	add("chain_id", txcBigEq(a.ChainId(), b.ChainId()))
	add("nonce", a.Nonce() == b.Nonce())
	add("gas_price", txcBigEq(a.GasPrice(), b.GasPrice()))
	add("gas_tip_cap", txcBigEq(a.GasTipCap(), b.GasTipCap()))
	add("gas_fee_cap", txcBigEq(a.GasFeeCap(), b.GasFeeCap()))
	add("gas", a.Gas() == b.Gas())
	add("to", (a.To() == nil) == (b.To() == nil) && (a.To() == nil || *a.To() == *b.To()))
	add("value", txcBigEq(a.Value(), b.Value()))
	add("data", bytes.Equal(a.Data(), b.Data()))
	ala, alb := a.AccessList(), b.AccessList()
	same := len(ala) == len(alb)
	for i := 0; same && i < len(ala); i++ {
		same = ala[i].Address == alb[i].Address && len(ala[i].StorageKeys) == len(alb[i].StorageKeys)
		for j := 0; same && j < len(ala[i].StorageKeys); j++ {
			same = ala[i].StorageKeys[j] == alb[i].StorageKeys[j]
		}
	}
	add("access_list", same)
	va, ra, sa := a.RawSignatureValues()
	vb, rb, sb := b.RawSignatureValues()
	add("v", txcBigEq(va, vb))
	add("r", txcBigEq(ra, rb))
	add("s", txcBigEq(sa, sb))
	add("protected", a.Protected() == b.Protected())
	return d
}

var max256 = new(big.Int).Sub(new(big.Int).Lsh(big.NewInt(1), 256), big.NewInt(1))

func tcRunCase(id string, in tcInput) (c Case, err error) {
	tx, err := tcBuild(in)
	if err != nil {
		return c, fmt.Errorf("%s: building the input transaction: %w", id, err)
	}
	cid := tx.ChainId()
	signer := ethtypes.LatestSignerForChainID(cid)
	signPre, err := tcSignPreimage(tx, cid)
	if err != nil {
		return c, fmt.Errorf("%s: %w", id, err)
	}
	hashPre, err := tx.MarshalBinary()
	if err != nil {
		return c, fmt.Errorf("%s: MarshalBinary: %w", id, err)
	}
	if crypto.Keccak256Hash(hashPre) != tx.Hash() {
		return c, fmt.Errorf("%s: keccak(MarshalBinary) != tx.Hash()", id)
	}
	baseFee := tcBig(in.BaseFee)
	if baseFee == nil {
		baseFee = big.NewInt(0)
	}

	coqSharedData = nil
	if len(tx.Data()) >= 64 {
		coqSharedData = tx.Data()
	}

	obs := tcObs{Hash: tx.Hash().Hex(), Sender: senderStr(signer, tx)}
	tags := map[string]bool{}
	tags[fmt.Sprintf("type:%d", in.Type)] = true
	tags["sig:"+in.Sig] = true
	if in.Sig == "signed" {
		if tx.Protected() {
			tags["protected"] = true
		} else {
			tags["unprotected(pre-155)"] = true
		}
	}
	if tx.To() == nil {
		tags["creation"] = true
	}
	switch n := len(tx.Data()); {
	case n == 0:
		tags["data:empty"] = true
	case n < 56:
		tags["data:<56"] = true
	case n < 256:
		tags["data:<256"] = true
	case n < 65536:
		tags["data:<64k"] = true
	default:
		tags["data:>=64k"] = true
	}
	if in.Type != 0 {
		nk := 0
		for _, t := range tx.AccessList() {
			nk += len(t.StorageKeys)
		}
		switch {
		case len(tx.AccessList()) == 0:
			tags["access:empty"] = true
		case nk == 0:
			tags["access:no-keys"] = true
		case len(tx.AccessList()) > 20 || nk > 60:
			tags["access:large"] = true
		default:
			tags["access:some"] = true
		}
	}
	amounts := []*big.Int{tx.Value(), tx.GasFeeCap(), tx.GasTipCap()}
	outOfBound := false
	for _, a := range amounts {
		if a.BitLen() > 256 {
			outOfBound = true
		}
		if a.Cmp(max256) == 0 {
			tags["amount:max256"] = true
		}
		if a.Sign() == 0 {
			tags["amount:zero"] = true
		}
	}
	if in.Value == "" || (in.Type != 2 && in.GasPrice == "") || (in.Type == 2 && (in.Tip == "" || in.FeeCap == "")) {
		tags["amount:nil"] = true
	}
	chainOut := in.Type != 0 && cid.BitLen() > 256
	gethFee := new(big.Int).Mul(tx.GasPrice(), new(big.Int).SetUint64(tx.Gas()))
	feeOut := gethFee.BitLen() > 256

	var oracle []string
	fail := func(f string, a ...interface{}) { oracle = append(oracle, fmt.Sprintf(f, a...)) }

	// ---- wrap
	msg := &evmtypes.MsgEthereumTx{}
	var ferr error
	pan := catch(func() { ferr = msg.FromEthereumTx(tx) })
	coqTD, coqBack := "None", "None"
	var td evmtypes.TxData
	var back *ethtypes.Transaction
	switch {
	case pan != "":
		obs.Res, obs.Err = 2, pan
		tags["res:FromEthereumTx-panic"] = true
		if !chainOut {
			fail("FromEthereumTx panicked (%s) on a transaction whose fields all fit 256 bits", pan)
		}
	case ferr != nil:
		obs.Res, obs.Err = 1, ferr.Error()
		tags["res:FromEthereumTx-error"] = true
		if !outOfBound {
			fail("FromEthereumTx failed (%s) on a transaction whose amounts all fit 256 bits", ferr)
		}
	default:
		obs.MsgHash = msg.Hash
		if msg.Hash != tx.Hash().Hex() {
			fail("hash recorded in the message %s != Ethereum hash %s", msg.Hash, tx.Hash().Hex())
		}
		// ---- build, encode, decode, unwrap
		cfg := tcConfig()
		var m2 *evmtypes.MsgEthereumTx
		var stx sdk.Tx
		var step string
		pan = catch(func() {
			built, err := msg.BuildTx(cfg.NewTxBuilder(), utils.BaseDenom)
			if err != nil {
				step = "BuildTx: " + err.Error()
				return
			}
			bz, err := cfg.TxEncoder()(built)
			if err != nil {
				step = "TxEncoder: " + err.Error()
				return
			}
			obs.TxBytes = len(bz)
			stx, err = cfg.TxDecoder()(bz)
			if err != nil {
				step = "TxDecoder: " + err.Error()
				return
			}
			msgs := stx.GetMsgs()
			if len(msgs) != 1 {
				step = fmt.Sprintf("decoded transaction has %d messages", len(msgs))
				return
			}
			var ok bool
			if m2, ok = msgs[0].(*evmtypes.MsgEthereumTx); !ok {
				step = fmt.Sprintf("decoded message is %T", msgs[0])
				return
			}
			// the JSON form of the same Cosmos transaction (REST / CLI path)
			jz, err := cfg.TxJSONEncoder()(built)
			if err != nil {
				step = "TxJSONEncoder: " + err.Error()
				return
			}
			jtx, err := cfg.TxJSONDecoder()(jz)
			if err != nil {
				step = "TxJSONDecoder: " + err.Error()
				return
			}
			if jm, ok := jtx.GetMsgs()[0].(*evmtypes.MsgEthereumTx); !ok || jm.AsTransaction().Hash() != tx.Hash() || jm.Hash != tx.Hash().Hex() {
				step = "the JSON round trip of the Cosmos transaction changes the Ethereum transaction"
			}
		})
		if pan != "" {
			obs.Res, obs.Err = 3, pan
			tags["res:BuildTx-panic"] = true
			if !feeOut {
				fail("building/encoding the Cosmos transaction panicked (%s) although gasPrice*gas fits 256 bits", pan)
			}
			// the message itself (no Cosmos envelope) is still observed
			m2 = msg
		} else if step != "" {
			obs.Res, obs.Err = 3, step
			fail("%s", step)
			m2 = msg
		}
		td, err = evmtypes.UnpackTxData(m2.Data)
		if err != nil {
			return c, fmt.Errorf("%s: UnpackTxData: %w", id, err)
		}
		coqTD = "(Some " + coqTxData(td) + ")"
		obs.ValidateOK = m2.ValidateBasic() == nil
		if obs.ValidateOK {
			// the recorded hash is the Ethereum hash in its canonical text: the same message recording any other text —
			// another spelling of the same digits, the digits inside junk — must not validate (the text is emitted
			// verbatim in events and compared as text by UnwrapEthereumMsg)
			canon := tx.Hash().Hex()
			digits := canon[2:]
			for _, v := range []string{"0x" + strings.ToUpper(digits), "0X" + strings.ToUpper(digits), digits, "0xdeadbeef" + digits,
				canon + "-not-a-hash", canon + "00", " " + canon, "0x0" + digits} {
				if v == canon {
					continue
				}
				cp := *m2
				cp.Hash = v
				if cp.ValidateBasic() == nil {
					fail("ValidateBasic accepts the message with the recorded Hash text %q, which is not the Ethereum hash %s", v, canon)
					break
				}
			}
		}
		if obs.Res == 3 && feeOut && obs.ValidateOK {
			fail("BuildTx panics on a fee above 256 bits but ValidateBasic accepts the message")
		}
		if p := catch(func() { back = m2.AsTransaction() }); p != "" || back == nil {
			fail("AsTransaction failed: %s", p)
		} else {
			coqBack = "(Some " + coqEthTx(back) + ")"
			obs.BackHash = back.Hash().Hex()
			obs.BackSender = senderStr(signer, back)
			if back.Hash() != tx.Hash() {
				fail("hash after the round trip %s != original hash %s", back.Hash().Hex(), tx.Hash().Hex())
			}
			if m2.Hash != tx.Hash().Hex() {
				fail("Hash field of the decoded message %s != Ethereum hash %s", m2.Hash, tx.Hash().Hex())
			}
			if obs.BackSender != obs.Sender {
				fail("recovered sender after the round trip %s != original %s", obs.BackSender, obs.Sender)
			}
			if d := tcFieldsDiff(tx, back); len(d) > 0 {
				fail("fields differ after the round trip: %s", strings.Join(d, ","))
			}
		}
		if in.Sig == "signed" {
			kb, _ := hex.DecodeString(in.Key)
			k, _ := crypto.ToECDSA(kb)
			if want := crypto.PubkeyToAddress(k.PublicKey).Hex(); obs.Sender != want {
				fail("sender recovered from the original transaction %s is not the signing key's address %s", obs.Sender, want)
			}
		}
		if obs.Res == 0 {
			// the Cosmos envelope carries the fee and gas of the message
			if ft, ok := stx.(sdk.FeeTx); ok {
				want := sdk.Coins{}
				if gethFee.Sign() > 0 {
					want = sdk.Coins{sdk.NewCoin(utils.BaseDenom, sdk.NewIntFromBigInt(gethFee))}
				}
				if !ft.GetFee().IsEqual(want) {
					fail("Cosmos fee %s != gasPrice*gas %s", ft.GetFee(), want)
				}
				if ft.GetGas() != tx.Gas() {
					fail("Cosmos gas limit %d != tx gas %d", ft.GetGas(), tx.Gas())
				}
			}
		}
	}

	// ---- figures
	var mf tcFigures
	coqFig := []string{"None", "None", "None", "None", "None", "None"}
	if td != nil {
		get := func(f func() *big.Int) *big.Int {
			var x *big.Int
			if p := catch(func() { x = f() }); p != "" {
				return nil
			}
			return x
		}
		m2 := &evmtypes.MsgEthereumTx{}
		m2.Data, _ = evmtypes.PackTxData(td)
		mf.Fee = get(func() *big.Int { return m2.GetFee() })
		mf.Cost = get(func() *big.Int { return td.Cost() })
		mf.PriceNil = get(func() *big.Int { return td.EffectiveGasPrice(nil) })
		mf.Price = get(func() *big.Int { return td.EffectiveGasPrice(baseFee) })
		mf.EffFee = get(func() *big.Int { return m2.GetEffectiveFee(baseFee) })
		mf.EffCost = get(func() *big.Int { return td.EffectiveCost(baseFee) })
		coqFig = []string{coqOptZ(mf.Fee), coqOptZ(mf.Cost), coqOptZ(mf.PriceNil), coqOptZ(mf.Price), coqOptZ(mf.EffFee), coqOptZ(mf.EffCost)}
		// go-ethereum's figures for the ORIGINAL transaction
		gm, _ := tx.AsMessage(signer, baseFee)
		gmNil, _ := tx.AsMessage(signer, nil)
		gas := new(big.Int).SetUint64(tx.Gas())
		gPrice := gm.GasPrice()
		gEffFee := new(big.Int).Mul(gPrice, gas)
		gEffCost := new(big.Int).Add(gEffFee, tx.Value())
		obs.Msg = map[string]string{"fee": optS(mf.Fee), "cost": optS(mf.Cost), "price_nil_basefee": optS(mf.PriceNil), "price": optS(mf.Price), "eff_fee": optS(mf.EffFee), "eff_cost": optS(mf.EffCost)}
		obs.Geth = map[string]string{"fee": gethFee.String(), "cost": tx.Cost().String(), "price_nil_basefee": gmNil.GasPrice().String(), "price": gPrice.String(), "eff_fee": gEffFee.String(), "eff_cost": gEffCost.String()}
		cmp := func(name string, got, want *big.Int) {
			if !txcBigEq(got, want) {
				fail("%s derived from the message is %s, go-ethereum's figure for the original transaction is %s", name, optS(got), want)
			}
		}
		cmp("fee", mf.Fee, gethFee)
		cmp("cost", mf.Cost, tx.Cost())
		cmp("effective price (base fee "+baseFee.String()+")", mf.Price, gPrice)
		cmp("effective fee", mf.EffFee, gEffFee)
		cmp("effective cost", mf.EffCost, gEffCost)
		if in.Type == 2 {
			// a nil base fee means London is not active; dynamic-fee transactions do not exist
			// there (the ante handler refuses them): recorded, not judged.
			if mf.PriceNil == nil {
				tags["obs:dynamic-fee EffectiveGasPrice(nil) panics"] = true
			}
		} else {
			cmp("effective price (nil base fee)", mf.PriceNil, gmNil.GasPrice())
		}
	}

	coq := fmt.Sprintf("(%s,\n    mkobs %d%%N %s\n    %s\n    %s %s %s %s)", coqEthTx(tx), obs.Res, coqTD, coqBack, coqHxWithData(signPre), coqHxWithData(hashPre),
		coqZ(baseFee), strings.Join(coqFig, " "))
	if coqSharedData != nil {
		coq = "(let d := " + coqHx(coqSharedData) + " in\n  " + coq + ")"
		coqSharedData = nil
	}
	tl := []string{}
	for t := range tags {
		tl = append(tl, t)
	}
	sort.Strings(tl)
	kb, _ := json.Marshal(in)
	list := "cases"
	if len(coq) > 60000 {
		list = "big" // evaluated in small shards of their own, so that they run in parallel
	}
	return Case{
		ID: id, Kind: "tx", Input: in, Obs: obs, Coq: coq, CoqList: list,
		OracleOK: len(oracle) == 0, OracleMsg: strings.Join(oracle, "; "),
		Nontrivial: obs.Res == 0, Key: string(kb), Tags: tl,
	}, nil
}

// ---------------------------------------------------------------- generator
func (r *Rng) Bytes(n int) []byte {
	b := make([]byte, n)
	for i := 0; i < n; i += 8 {
		x := r.U64()
		for j := 0; j < 8 && i+j < n; j++ {
			b[i+j] = byte(x >> (8 * j))
		}
	}
	return b
}

// tcAmount: nil / zero / small / boundary / maximal / (rarely) beyond 256 bits
func tcAmount(r *Rng, allowNil bool) string {
	switch k := r.Intn(20); {
	case k == 0 && allowNil:
		return ""
	case k <= 2:
		return "0"
	case k <= 4:
		return max256.String()
	case k == 5:
		return new(big.Int).Lsh(big.NewInt(1), 255).String()
	case k == 6 && r.Chance(40):
		return new(big.Int).Add(max256, big.NewInt(int64(1+r.Intn(3)))).String() // out of bound
	case k <= 9:
		return r.Big(64).String()
	case k <= 12:
		return r.Big(256).String()
	case k == 13:
		return big.NewInt(int64(127 + r.Intn(3))).String() // RLP single byte boundary
	default:
		return r.Big(100).String()
	}
}

func tcU64(r *Rng) uint64 {
	switch r.Intn(8) {
	case 0:
		return 0
	case 1:
		return ^uint64(0)
	case 2:
		return uint64(r.Intn(300))
	case 3:
		return 1 << uint(r.Intn(64))
	case 4:
		return 21000 + uint64(r.Intn(100000))
	}
	return r.U64() >> uint(r.Intn(64))
}

func tcGen(r *Rng) tcInput {
	in := tcInput{Type: r.Intn(3), Sig: "signed"}
	// chain ids: the two Haqq networks, small ones, large ones
	switch r.Intn(8) {
	case 0, 1:
		in.ChainID = "11235"
	case 2:
		in.ChainID = "54211"
	case 3:
		in.ChainID = "1"
	case 4:
		in.ChainID = r.Big(64).String()
	case 5:
		in.ChainID = r.Big(200).String()
	case 6:
		in.ChainID = "0"
	default:
		in.ChainID = big.NewInt(int64(1 + r.Intn(100000))).String()
	}
	if in.ChainID == "0" && in.Type != 0 {
		in.ChainID = "9000"
	}
	if in.Type != 0 && r.Chance(2) {
		in.ChainID = new(big.Int).Add(max256, big.NewInt(int64(r.Intn(3)))).String() // 2^256-1 fits, above it FromEthereumTx panics
	}
	in.Nonce, in.Gas = tcU64(r), tcU64(r)
	if in.Type == 2 {
		in.Tip, in.FeeCap = tcAmount(r, true), tcAmount(r, true)
	} else {
		in.GasPrice = tcAmount(r, true)
	}
	in.Value = tcAmount(r, true)
	// keep gasPrice*gas within 256 bits most of the time (beyond it BuildTx panics and
	// the transaction is invalid anyway)
	if p := tcBig(in.GasPrice + in.FeeCap); p != nil && p.BitLen()+new(big.Int).SetUint64(in.Gas).BitLen() > 256 && r.Chance(75) {
		in.Gas = uint64(r.Intn(2))
	}
	if !r.Chance(25) {
		a := r.Bytes(20)
		switch r.Intn(6) {
		case 0:
			a = make([]byte, 20) // zero address
		case 1:
			for i := range a {
				a[i] = 0xff
			}
		case 2:
			a[0], a[1] = 0, 0 // leading zero bytes
		}
		in.To = hex.EncodeToString(a)
	}
	var dl int
	switch r.Intn(14) {
	case 0, 1, 2:
		dl = 0
	case 3:
		dl = 1
	case 4:
		dl = 55 + r.Intn(3)
	case 5:
		dl = 255 + r.Intn(3)
	case 6:
		if r.Chance(12) {
			dl = 65535 + r.Intn(3)
		} else {
			dl = 1000 + r.Intn(3000)
		}
	default:
		dl = r.Intn(200)
	}
	data := r.Bytes(dl)
	if dl == 1 {
		data[0] = []byte{0, 0x7f, 0x80, 0xff}[r.Intn(4)]
	}
	in.Data = hex.EncodeToString(data)
	if in.Type != 0 && !r.Chance(15) {
		in.Access = []tcTuple{}
		n := r.Intn(5)
		if r.Chance(4) {
			n = 20 + r.Intn(60)
		}
		pool := [][]byte{r.Bytes(20), r.Bytes(20), make([]byte, 20)}
		for i := 0; i < n; i++ {
			a := pool[r.Intn(len(pool))] // repeated addresses
			if r.Chance(40) {
				a = r.Bytes(20)
			}
			t := tcTuple{Addr: hex.EncodeToString(a), Keys: []string{}}
			nk := r.Intn(4)
			if r.Chance(35) {
				nk = 0
			}
			if n < 10 && r.Chance(5) {
				nk = 10 + r.Intn(30)
			}
			for j := 0; j < nk; j++ {
				k := r.Bytes(32)
				if r.Chance(25) {
					k = make([]byte, 32)
					k[31] = byte(r.Intn(3))
				}
				t.Keys = append(t.Keys, hex.EncodeToString(k))
			}
			in.Access = append(in.Access, t)
		}
	}
	for {
		kb := r.Bytes(32)
		if r.Chance(5) {
			kb = make([]byte, 32)
			kb[31] = byte(1 + r.Intn(5)) // tiny keys
		}
		if _, err := crypto.ToECDSA(kb); err == nil {
			in.Key = hex.EncodeToString(kb)
			break
		}
	}
	in.BaseFee = []string{"0", "1", "7", "1000000000", r.Big(80).String(), max256.String()}[r.Intn(6)]
	// a stream of transactions with arbitrary (unsigned / malformed) signature values
	if r.Chance(12) {
		in.Sig = "raw"
		pick := func() string {
			switch r.Intn(6) {
			case 0:
				return ""
			case 1:
				return "0"
			case 2:
				return "1"
			case 3:
				return max256.String()
			}
			return r.Big(256).String()
		}
		in.R, in.S = pick(), pick()
		switch r.Intn(8) {
		case 0:
			in.V = ""
		case 1:
			in.V = "0"
		case 2:
			in.V = "1"
		case 3:
			in.V = "27"
		case 4:
			in.V = "28"
		case 5:
			in.V = big.NewInt(int64(29 + r.Intn(8))).String() // below 35: go-ethereum's uint64 wrap-around
		case 6:
			in.V = r.Big(80).String()
		default:
			in.V = big.NewInt(int64(35 + 2*11235 + r.Intn(2))).String()
		}
	}
	return in
}

func txcodecDriver(cfg Config, out *Out) error {
	if cfg.Replay != "" {
		i := 0
		return readReplayInputs(cfg.Replay, func(raw json.RawMessage) error {
			var probe map[string]json.RawMessage
			if err := json.Unmarshal(raw, &probe); err != nil {
				return err
			}
			var c Case
			var err error
			if _, isUnwrap := probe["lookups"]; isUnwrap {
				var in tcUnwrapInput
				if err := json.Unmarshal(raw, &in); err != nil {
					return err
				}
				c, err = tcRunUnwrap(fmt.Sprintf("replay-%d", i), in)
			} else {
				var in tcInput
				if err := json.Unmarshal(raw, &in); err != nil {
					return err
				}
				c, err = tcRunCase(fmt.Sprintf("replay-%d", i), in)
			}
			if err != nil {
				return err
			}
			out.Emit(c)
			i++
			return nil
		})
	}
	// One draw from r per transaction, as before the lookup cases existed: the orchestrator runs a
	// tier in batches whose seeds differ by the batch size, and splitmix64 streams of seeds s and
	// s+k are the same stream k draws apart, so batches continue each other without overlap.
	r := NewRng(cfg.Seed)
	// partners and foreign transactions of the by-hash lookups: short wrappable
	// transactions from the same generator (a stream of their own), refreshed as the run goes
	pr := NewRng(cfg.Seed ^ 0x5eedc18)
	partners := []tcInput{}
	for len(partners) < 8 {
		if in := tcGen(pr.Fork()); tcSmallWrappable(in) {
			partners = append(partners, in)
		}
	}
	for i := 0; i < cfg.N; i++ {
		cr := r.Fork()
		in := tcGen(cr)
		lr := cr.Fork()
		c, err := tcRunCase(fmt.Sprintf("s%d-%d", cfg.Seed, i), in)
		if err != nil {
			return err
		}
		out.Emit(c)
		if o, ok := c.Obs.(tcObs); ok && o.Res == 0 {
			// the same transaction as the target of lookups by hash
			p := tcPerm(lr, len(partners))
			uin := tcUnwrapInput{Txs: []tcInput{in, partners[p[0]], partners[p[1]], partners[p[2]], partners[p[3]]}, Lookups: tcGenLookups(lr)}
			uc, err := tcRunUnwrap(fmt.Sprintf("s%d-%d-unwrap", cfg.Seed, i), uin)
			if err != nil {
				return err
			}
			// quick tier: the property oracle judges every lookup; the Coq model is evaluated on the
			// lookups of every third transaction (parsing the case terms dominates the run time).
			// Thorough tier, corpus and replays: on all of them.
			if cfg.Tier == "quick" && i%3 != 0 {
				uc.Coq, uc.CoqList = "", ""
				uc.Tags = append(uc.Tags, "unwrap:model-not-evaluated(quick tier)")
			}
			out.Emit(uc)
			if tcSmallWrappable(in) {
				partners[lr.Intn(len(partners))] = in
			}
		}
	}
	return nil
}
