package main

// Part of driver "stakestates" (property C16): ARGUMENT VALUES as a dimension, and the method
// createValidator.
//
// (1) Number expressions.  Every numeric argument of a call is a small expression (terms joined by
//     + and -; a term is a decimal, A^B, or a name resolved on the state the script built: all, bal,
//     entry, vtok, max = 2^256-1, ...), so that a generated or hand-written input can say
//     "all+2^64" (the whole delegation, with one bit above bit 63 set), "2^255", "bal+2^128".
//     The ABI type of every amount and rate is uint256; the native message carries the same integer.
// (2) Address strings.  A validator / withdrawer argument is a string: besides the address of a
//     validator (or of an operator without a record) a call can pass a malformed string, a bech32
//     string of another chain (foreign prefix), the empty string, an account-prefix address, the
//     same address in upper case.  The native message carries the same string.
// (3) createValidator by the signer itself (caller = origin = delegator; a contract caller is
//     refused since c43fab9, F10) against the native MsgCreateValidator with the same values:
//     description strings (empty, at and above each length limit), three commission rates, minimum
//     self-delegation, value (each 0, 1, boundary, 2^63, 2^64 +- k, valid + 2^64, valid + 2^128,
//     2^255, 2^256-1), validator address string kinds, consensus key fresh / already in use / wrong
//     length.  The oracle is the one of every stakestates case: same success / failure and an empty
//     diff over every persistent store except the EVM module's own.  Model: coq/Staking/CreateValModel.v
//     (list "create").

import (
	"bytes"
	"fmt"
	"math/big"
	"strconv"
	"strings"

	sdkmath "cosmossdk.io/math"
	codectypes "github.com/cosmos/cosmos-sdk/codec/types"
	"github.com/cosmos/cosmos-sdk/crypto/keys/ed25519"
	cryptotypes "github.com/cosmos/cosmos-sdk/crypto/types"
	sdk "github.com/cosmos/cosmos-sdk/types"
	stakingtypes "github.com/cosmos/cosmos-sdk/x/staking/types"
	"github.com/ethereum/go-ethereum/accounts/abi"
	"github.com/ethereum/go-ethereum/common"

	stakingprecompile "github.com/haqq-network/haqq/precompiles/staking"
	"github.com/haqq-network/haqq/utils"
)

// ---------------------------------------------------------------- number expressions
func ssExpr(s string, syms map[string]*big.Int) (*big.Int, error) {
	acc := big.NewInt(0)
	if s == "" {
		return acc, nil
	}
	term := func(t string) (*big.Int, error) {
		if t == "" {
			return nil, fmt.Errorf("empty term in %q", s)
		}
		if i := strings.IndexByte(t, '^'); i >= 0 {
			a, ok1 := new(big.Int).SetString(t[:i], 10)
			b, err := strconv.Atoi(t[i+1:])
			if !ok1 || err != nil || b < 0 || b > 300 || a.Sign() < 0 || a.BitLen() > 8 {
				return nil, fmt.Errorf("bad power %q", t)
			}
			return new(big.Int).Exp(a, big.NewInt(int64(b)), nil), nil
		}
		if t[0] >= '0' && t[0] <= '9' {
			x, ok := new(big.Int).SetString(t, 10)
			if !ok {
				return nil, fmt.Errorf("bad number %q", t)
			}
			return x, nil
		}
		if v, ok := syms[t]; ok && v != nil {
			return v, nil
		}
		return nil, fmt.Errorf("unknown name %q", t)
	}
	sign, start := 1, 0
	flush := func(end int) error {
		v, err := term(s[start:end])
		if err != nil {
			return err
		}
		if sign > 0 {
			acc = new(big.Int).Add(acc, v)
		} else {
			acc = new(big.Int).Sub(acc, v)
		}
		return nil
	}
	for i := 0; i < len(s); i++ {
		if s[i] == '+' || s[i] == '-' {
			if err := flush(i); err != nil {
				return nil, err
			}
			sign = 1
			if s[i] == '-' {
				sign = -1
			}
			start = i + 1
		}
	}
	if err := flush(len(s)); err != nil {
		return nil, err
	}
	return acc, nil
}

// ssU256: an expression as an ABI uint256: below zero becomes zero, above 2^256-1 is not an argument
func ssU256(s string, syms map[string]*big.Int) (*big.Int, error) {
	a, err := ssExpr(s, syms)
	if err != nil {
		return nil, err
	}
	if a.Sign() < 0 {
		a = big.NewInt(0)
	}
	if a.Cmp(abi.MaxUint256) > 0 {
		return nil, fmt.Errorf("above 2^256-1")
	}
	return a, nil
}

// ---------------------------------------------------------------- address strings
// kind: "" the address itself | malformed | foreign | empty | acc | upper
func ssAddrString(val sdk.ValAddress, kind string) (string, error) {
	switch kind {
	case "":
		return val.String(), nil
	case "malformed":
		return "haqqvaloper1notavalidatoraddress", nil
	case "foreign":
		return sdk.Bech32ifyAddressBytes("cosmosvaloper", val)
	case "empty":
		return "", nil
	case "acc":
		return sdk.AccAddress(val).String(), nil
	case "upper":
		return strings.ToUpper(val.String()), nil
	}
	return "", fmt.Errorf("unknown address kind %q", kind)
}

// withdrawer string of setWithdrawAddress.  kind: "" | malformed | foreign | empty | valoper | upper
func ssAccString(a sdk.AccAddress, kind string) (string, error) {
	switch kind {
	case "":
		return a.String(), nil
	case "malformed":
		return "haqq1notanaccountaddress", nil
	case "foreign":
		return sdk.Bech32ifyAddressBytes("cosmos", a)
	case "empty":
		return "", nil
	case "valoper":
		return sdk.ValAddress(a).String(), nil
	case "upper":
		return strings.ToUpper(a.String()), nil
	}
	return "", fmt.Errorf("unknown address kind %q", kind)
}

// ---------------------------------------------------------------- createValidator: input
type ssCreate struct {
	Moniker   string `json:"moniker,omitempty"` // a literal, or "#N": N bytes
	Identity  string `json:"identity,omitempty"`
	Website   string `json:"website,omitempty"`
	Security  string `json:"security,omitempty"`
	Details   string `json:"details,omitempty"`
	Rate      string `json:"rate"`       // expressions over the 10^18-scaled integers; names: mincomm, one (10^18), m (the resolved maximum rate)
	MaxRate   string `json:"max_rate"`   // names: mincomm, one
	MaxChange string `json:"max_change"` // names: mincomm, one, m
	MinSelf   string `json:"min_self"`   // names: value, bal
	Value     string `json:"value"`      // names: bal
	ValAddr   string `json:"val_addr,omitempty"` // "" the signer's operator address | other | malformed | foreign | empty | acc | upper
	PubKey    string `json:"pubkey,omitempty"`   // "" = fresh:0 | fresh:N | used:V (the key of validator V) | short | long | empty
}

type ssCreateRes struct {
	Rate, MaxRate, MaxChange, MinSelf, Value string
	Desc                                     [5]string
	ValAddr                                  string
	ValAddrOK                                bool // a well-formed operator address of this chain whose bytes are the signer's
	Key                                      []byte
	PkKind                                   int // 0 fresh 32 bytes, 1 the key of an existing validator, 2 not 32 bytes
	MinComm                                  string
}

func ssText(s string) string {
	if strings.HasPrefix(s, "#") {
		if n, err := strconv.Atoi(s[1:]); err == nil && n >= 0 && n <= 100000 {
			return strings.Repeat("a", n)
		}
	}
	return s
}

func (e *ssEnv) resolveCreate(in ssInput, pre ssSnap) (*ssCreateRes, error) {
	cv := in.Call.CV
	if cv == nil {
		return nil, fmt.Errorf("createval without arguments")
	}
	r := &ssCreateRes{}
	minComm := e.App.StakingKeeper.MinCommissionRate(e.Ctx).BigInt()
	r.MinComm = minComm.String()
	one := new(big.Int).Exp(big.NewInt(10), big.NewInt(18), nil)
	bal := bigOf(pre.Bal)
	value, err := ssU256(cv.Value, map[string]*big.Int{"bal": bal, "max": abi.MaxUint256})
	if err != nil {
		return nil, err
	}
	minSelf, err := ssU256(cv.MinSelf, map[string]*big.Int{"bal": bal, "value": value, "max": abi.MaxUint256})
	if err != nil {
		return nil, err
	}
	syms := map[string]*big.Int{"mincomm": minComm, "one": one, "max": abi.MaxUint256}
	m, err := ssU256(cv.MaxRate, syms)
	if err != nil {
		return nil, err
	}
	syms["m"] = m
	rate, err := ssU256(cv.Rate, syms)
	if err != nil {
		return nil, err
	}
	change, err := ssU256(cv.MaxChange, syms)
	if err != nil {
		return nil, err
	}
	r.Rate, r.MaxRate, r.MaxChange, r.MinSelf, r.Value = rate.String(), m.String(), change.String(), minSelf.String(), value.String()
	r.Desc = [5]string{ssText(cv.Moniker), ssText(cv.Identity), ssText(cv.Website), ssText(cv.Security), ssText(cv.Details)}
	own := sdk.ValAddress(e.acc[in.Signer])
	switch cv.ValAddr {
	case "other":
		r.ValAddr = e.valStr[0]
	default:
		if r.ValAddr, err = ssAddrString(own, cv.ValAddr); err != nil {
			return nil, err
		}
	}
	if a, err := sdk.ValAddressFromBech32(r.ValAddr); err == nil && bytes.Equal(a, own) {
		r.ValAddrOK = true
	}
	pk := cv.PubKey
	if pk == "" {
		pk = "fresh:0"
	}
	switch {
	case strings.HasPrefix(pk, "fresh:"):
		n, err := strconv.Atoi(pk[6:])
		if err != nil || n < 0 || n > 255 {
			return nil, fmt.Errorf("bad key %q", pk)
		}
		seed := make([]byte, 32)
		seed[0], seed[1] = 0xC7, byte(n)
		r.Key = ed25519.GenPrivKeyFromSecret(seed).PubKey().Bytes()
	case strings.HasPrefix(pk, "used:"):
		v, err := strconv.Atoi(pk[5:])
		if err != nil || v < 0 || v >= ssNVal {
			return nil, fmt.Errorf("bad key %q", pk)
		}
		val, found := e.App.StakingKeeper.GetValidator(e.Ctx, e.vals[v])
		if !found {
			return nil, fmt.Errorf("validator %d has no record", v)
		}
		cpk, err := val.ConsPubKey()
		if err != nil {
			return nil, err
		}
		r.Key, r.PkKind = cpk.Bytes(), 1
	case pk == "short":
		r.Key, r.PkKind = bytes.Repeat([]byte{0x11}, 31), 2
	case pk == "long":
		r.Key, r.PkKind = bytes.Repeat([]byte{0x11}, 33), 2
	case pk == "empty":
		r.Key, r.PkKind = []byte{}, 2
	default:
		return nil, fmt.Errorf("bad key %q", pk)
	}
	return r, nil
}

func (e *ssEnv) packCreate(in ssInput, r *ssCreateRes) ([]byte, error) {
	desc := stakingprecompile.Description{Moniker: r.Desc[0], Identity: r.Desc[1], Website: r.Desc[2], SecurityContact: r.Desc[3], Details: r.Desc[4]}
	comm := stakingprecompile.Commission{Rate: bigOf(r.Rate), MaxRate: bigOf(r.MaxRate), MaxChangeRate: bigOf(r.MaxChange)}
	return e.sABI.Pack("createValidator", desc, comm, bigOf(r.MinSelf), common.BytesToAddress(e.acc[in.Signer]), r.ValAddr, base64Std(r.Key), bigOf(r.Value))
}

// the native message with the same values: a rate given as the integer x with 18 decimals is the LegacyDec x / 10^18
func (e *ssEnv) nativeCreate(in ssInput, r *ssCreateRes) (sdk.Msg, error) {
	var pk cryptotypes.PubKey = &ed25519.PubKey{Key: r.Key}
	anyPk, err := codectypes.NewAnyWithValue(pk)
	if err != nil {
		return nil, err
	}
	dec := func(s string) sdk.Dec { return sdkmath.LegacyNewDecFromBigIntWithPrec(bigOf(s), 18) }
	return &stakingtypes.MsgCreateValidator{
		Description:       stakingtypes.Description{Moniker: r.Desc[0], Identity: r.Desc[1], Website: r.Desc[2], SecurityContact: r.Desc[3], Details: r.Desc[4]},
		Commission:        stakingtypes.CommissionRates{Rate: dec(r.Rate), MaxRate: dec(r.MaxRate), MaxChangeRate: dec(r.MaxChange)},
		MinSelfDelegation: sdkmath.NewIntFromBigInt(bigOf(r.MinSelf)),
		DelegatorAddress:  e.acc[in.Signer].String(),
		ValidatorAddress:  r.ValAddr,
		Pubkey:            anyPk,
		Value:             sdk.Coin{Denom: utils.BaseDenom, Amount: sdkmath.NewIntFromBigInt(bigOf(r.Value))},
	}, nil
}

// ---------------------------------------------------------------- createValidator: observation
type ssNewVal struct {
	Rate      string `json:"rate"` // LegacyDec as its integer
	MaxRate   string `json:"max_rate"`
	MaxChange string `json:"max_change"`
	MinSelf   string `json:"min_self"`
	Tokens    string `json:"tokens"`
	Shares    string `json:"shares"`
	Del       string `json:"operator_shares"` // the operator's delegation shares ("0": none)
	Moniker   int    `json:"moniker_len"`
	Status    int    `json:"status"`
}

// ownerVal: the validator record of the signer as operator
func (e *ssEnv) ownerVal(signer int) *ssNewVal {
	va := sdk.ValAddress(e.acc[signer])
	v, found := e.App.StakingKeeper.GetValidator(e.Ctx, va)
	if !found {
		return nil
	}
	n := &ssNewVal{Rate: v.Commission.Rate.BigInt().String(), MaxRate: v.Commission.MaxRate.BigInt().String(),
		MaxChange: v.Commission.MaxChangeRate.BigInt().String(), MinSelf: v.MinSelfDelegation.String(), Tokens: v.Tokens.String(),
		Shares: v.DelegatorShares.BigInt().String(), Del: "0", Moniker: len(v.Description.Moniker), Status: int(v.Status)}
	if d, ok := e.App.StakingKeeper.GetDelegation(e.Ctx, e.acc[signer], va); ok {
		n.Del = d.Shares.BigInt().String()
	}
	return n
}

func ssCoqCreateOut(o ssRouteObs, hadOwner bool) string {
	nv := "None"
	if o.New != nil && !hadOwner {
		n := o.New
		nv = fmt.Sprintf("(Some (mk_cnew %s %s %s %s %s %s %s))", coqZ(bigOf(n.Rate)), coqZ(bigOf(n.MaxRate)), coqZ(bigOf(n.MaxChange)),
			coqZ(bigOf(n.MinSelf)), coqZ(bigOf(n.Tokens)), coqZ(bigOf(n.Shares)), coqZ(bigOf(n.Del)))
	}
	return fmt.Sprintf("mk_cout %s %s %s", coqBool(o.OK), nv, coqZ(bigOf(o.Bal)))
}

// (mk_cst mincomm owner bal, mk_cmsg ..., (eth), (native))
func ssCoqCreate(pre ssSnap, r *ssCreateRes, hadOwner bool, obs ssObs) string {
	st := fmt.Sprintf("mk_cst %s %s %s", coqZ(bigOf(r.MinComm)), coqBool(hadOwner), coqZ(bigOf(pre.Bal)))
	g := fmt.Sprintf("mk_cmsg %s %s %s %s %s %s %s %s %s %s %s %s", coqZ(bigOf(r.Rate)), coqZ(bigOf(r.MaxRate)), coqZ(bigOf(r.MaxChange)),
		coqZ(bigOf(r.MinSelf)), coqZ(bigOf(r.Value)), coqN(len(r.Desc[0])), coqN(len(r.Desc[1])), coqN(len(r.Desc[2])), coqN(len(r.Desc[3])),
		coqN(len(r.Desc[4])), coqBool(r.ValAddrOK), coqN(r.PkKind))
	return fmt.Sprintf("(%s, %s, (%s), (%s))", st, g, ssCoqCreateOut(obs.Eth, hadOwner), ssCoqCreateOut(obs.Native, hadOwner))
}

// ---------------------------------------------------------------- tags
func ssNumClass(x *big.Int) string {
	switch {
	case x.Sign() == 0:
		return "zero"
	case x.BitLen() <= 63:
		return "below-2^63"
	case x.BitLen() == 64:
		return "2^63..2^64"
	case x.BitLen() <= 128:
		return "2^64..2^128"
	case x.BitLen() <= 255:
		return "2^128..2^255"
	}
	return "from-2^255"
}

func ssCreateTags(in ssInput, r *ssCreateRes, hadOwner bool) []string {
	cv := in.Call.CV
	t := []string{"cv:rate:" + ssNumClass(bigOf(r.Rate)), "cv:max-rate:" + ssNumClass(bigOf(r.MaxRate)), "cv:max-change:" + ssNumClass(bigOf(r.MaxChange)),
		"cv:min-self:" + ssNumClass(bigOf(r.MinSelf)), "cv:value:" + ssNumClass(bigOf(r.Value))}
	one := new(big.Int).Exp(big.NewInt(10), big.NewInt(18), nil)
	if bigOf(r.MaxRate).Cmp(one) > 0 {
		t = append(t, "cv:max-rate-above-100%")
	}
	if bigOf(r.Rate).Cmp(bigOf(r.MaxRate)) > 0 {
		t = append(t, "cv:rate-above-max-rate")
	}
	if bigOf(r.MaxChange).Cmp(bigOf(r.MaxRate)) > 0 {
		t = append(t, "cv:max-change-above-max-rate")
	}
	if bigOf(r.Rate).Cmp(bigOf(r.MinComm)) < 0 {
		t = append(t, "cv:rate-below-min-commission")
	}
	if bigOf(r.MinSelf).Cmp(bigOf(r.Value)) > 0 {
		t = append(t, "cv:min-self-above-value")
	}
	lim := [5]int{70, 3000, 140, 140, 280}
	name := [5]string{"moniker", "identity", "website", "security", "details"}
	empty := true
	for i := range lim {
		switch {
		case len(r.Desc[i]) > lim[i]:
			t = append(t, "cv:"+name[i]+":over-long")
		case len(r.Desc[i]) == lim[i]:
			t = append(t, "cv:"+name[i]+":at-limit")
		}
		empty = empty && r.Desc[i] == ""
	}
	if empty {
		t = append(t, "cv:description-empty")
	}
	if cv.ValAddr != "" {
		t = append(t, "cv:val-addr:"+cv.ValAddr)
	}
	t = append(t, "cv:pubkey:"+[]string{"fresh", "in-use", "wrong-length"}[r.PkKind])
	if hadOwner {
		t = append(t, "cv:signer-is-an-operator-already")
	}
	return t
}

// ---------------------------------------------------------------- generator
var ssHuge = []string{"2^63-1", "2^63", "2^64-1", "2^64", "2^64+1", "2^127", "2^128", "2^128+1", "2^255", "2^255+1", "2^256-2", "2^256-1"}

// a value that differs from the valid expression only above bit 63 / bit 127 / bit 254
func ssHigh(r *Rng, valid string) string {
	return valid + "+" + []string{"2^64", "2^64", "2^65", "2^100", "2^128", "2^128", "2^200", "2^255", "2^64+2^128"}[r.Intn(9)]
}

func ssRateStr(r *Rng) string {
	// whole and odd percentages as 10^18-scaled integers
	if r.Chance(30) {
		return new(big.Int).Add(ssE15(int64(50+r.Intn(150))), big.NewInt(int64(r.Intn(1000)))).String()
	}
	return ssE15(int64(10 * (5 + r.Intn(15)))).String()
}

func ssGenCreate(r *Rng) ssInput {
	in := ssInput{Signer: []int{ssO, ssO, ssP, ssP, ssO, ssP, ssO, ssP, ssO, ssP, ssOp1, ssOp2}[r.Intn(12)]}
	s := in.Signer
	// sometimes the signer has a history: delegations, rewards, a moved balance
	if r.Chance(35) {
		for i, n := 0, 1+r.Intn(5); i < n; i++ {
			in.Script = append(in.Script, ssRandOp(r, s))
		}
	}
	if r.Chance(55) {
		in.Script = append(in.Script, ssOp{Op: "mincomm", Bp: []int{500, 500, 1000, 1}[r.Intn(4)]})
	}
	// a valid argument set ...
	cv := &ssCreate{Moniker: []string{"m", "node-7", "#70", "#1"}[r.Intn(4)], MaxRate: []string{"200000000000000000", "one", "500000000000000000"}[r.Intn(3)],
		MaxChange: []string{"10000000000000000", "m", "0", "50000000000000000"}[r.Intn(4)], MinSelf: []string{"1", "value", "1000000"}[r.Intn(3)],
		Value: ssAmtStr(r), PubKey: fmt.Sprintf("fresh:%d", r.Intn(4))}
	cv.Rate = []string{"mincomm", "m", ssRateStr(r), "100000000000000000"}[r.Intn(4)]
	if r.Chance(15) {
		cv.Value = []string{"bal", "2^64", "1000000000000000000"}[r.Intn(3)]
	}
	if r.Chance(25) {
		cv.Identity, cv.Website, cv.Security, cv.Details = "#16", "https://example.org", "sec@example.org", "#280"
	}
	// ... with zero to two arguments moved to a boundary or out of range
	nmut := []int{0, 0, 1, 1, 1, 1, 1, 2}[r.Intn(8)]
	for i := 0; i < nmut; i++ {
		switch ssPick(r, []string{"rate", "max", "change", "all-rates", "minself", "value", "text", "valaddr", "pubkey"}, []int{18, 14, 14, 8, 10, 12, 10, 8, 6}) {
		case "rate":
			cv.Rate = append([]string{"0", "1", "mincomm-1", "mincomm", "m", "m+1", "one", "one+1", ssHigh(r, cv.Rate), ssHigh(r, cv.Rate), ssHigh(r, "mincomm")}, ssHuge...)[r.Intn(11+len(ssHuge))]
		case "max":
			cv.MaxRate = append([]string{"0", "1", "mincomm", "mincomm-1", "one", "one+1", "one-1", ssHigh(r, cv.MaxRate), ssHigh(r, cv.MaxRate), ssHigh(r, "one")}, ssHuge...)[r.Intn(10+len(ssHuge))]
		case "change":
			cv.MaxChange = append([]string{"0", "1", "m", "m+1", "one", "one+1", ssHigh(r, cv.MaxChange), ssHigh(r, cv.MaxChange), ssHigh(r, "0")}, ssHuge...)[r.Intn(9+len(ssHuge))]
		case "all-rates":
			// every rate shifted by the same high bits: the low bits form a valid set
			h := []string{"2^64", "2^64", "2^128", "2^255", "2^65+2^130"}[r.Intn(5)]
			cv.Rate, cv.MaxRate, cv.MaxChange = cv.Rate+"+"+h, cv.MaxRate+"+"+h, cv.MaxChange+"+"+h
		case "minself":
			cv.MinSelf = append([]string{"0", "1", "value", "value+1", "value-1", "bal", "bal+1", ssHigh(r, "1"), ssHigh(r, "value")}, ssHuge...)[r.Intn(9+len(ssHuge))]
		case "value":
			cv.Value = append([]string{"0", "1", "bal", "bal+1", "bal-1", ssHigh(r, cv.Value), ssHigh(r, "1"), "2^64+2^62"}, ssHuge...)[r.Intn(8+len(ssHuge))]
		case "text":
			switch r.Intn(7) {
			case 0:
				cv.Moniker, cv.Identity, cv.Website, cv.Security, cv.Details = "", "", "", "", ""
			case 1:
				cv.Moniker = []string{"#71", "#70", "#300", ""}[r.Intn(4)]
			case 2:
				cv.Identity = []string{"#3000", "#3001"}[r.Intn(2)]
			case 3:
				cv.Website = []string{"#140", "#141"}[r.Intn(2)]
			case 4:
				cv.Security = []string{"#140", "#141"}[r.Intn(2)]
			case 5:
				cv.Details = []string{"#280", "#281", "#5000"}[r.Intn(3)]
			default:
				cv.Moniker, cv.Details = "", "only details"
			}
		case "valaddr":
			cv.ValAddr = []string{"other", "malformed", "foreign", "empty", "acc", "upper"}[r.Intn(6)]
		case "pubkey":
			cv.PubKey = []string{"used:0", "used:1", "used:2", "short", "long", "empty"}[r.Intn(6)]
		}
	}
	in.Call = ssCall{M: "createval", CV: cv}
	return in
}
