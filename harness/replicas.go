package main

// Driver "replicas" (property C01): two (thorough: three) independently
// constructed applications -- fresh MemDBs, constructed concurrently with
// different delays, different node-local settings (minimum-gas-prices, home
// directory, invariant-check period, IAVL cache size, inter-block cache,
// pruning, EVM max-tx-gas-wanted, trace) -- are fed the same random block
// history; in a part of the histories a further replica runs in a separate
// operating-system process.  ORACLE: after every block the BeginBlock response,
// every ResponseDeliverTx (code, codespace, data, gas wanted / used, events in
// order), the EndBlock response (validator updates, consensus-parameter
// updates, events) and the application hash are byte-identical.  The `log` and
// `info` strings are not compared: CometBFT documents them as non-deterministic
// and they are not part of the results hash (with trace on they carry a stack trace).

import (
	"bufio"
	"encoding/json"
	"fmt"
	"os"
	"os/exec"
	"sort"
	"strings"
	"sync"
	"time"

	abci "github.com/cometbft/cometbft/abci/types"
	tmproto "github.com/cometbft/cometbft/proto/tendermint/types"
)

func init() {
	register("replicas", replicasDriver)
	register("replica-child", replicaChildDriver)
}

var replicaOpts = []repOpts{
	{},
	{MinGasPrices: "20000000000aISLM", Home: "/nonexistent/verif-home-1", InvCheckPeriod: 3, IAVLCacheSize: 7, InterBlockCache: true, Pruning: "everything", MaxTxGasWanted: 500000},
	{MinGasPrices: "1aISLM", Home: "/nonexistent/verif-home-2", InvCheckPeriod: 1, IAVLCacheSize: 100000, Pruning: "nothing", Trace: true, MaxTxGasWanted: 1},
}

// wire format handed to the child process
type rawWire struct {
	Hdr   []byte   `json:"hdr"`
	Votes [][]byte `json:"votes"`
	Evid  [][]byte `json:"evid"`
	Txs   [][]byte `json:"txs"`
	Ops   []bhTx   `json:"ops"`
}
type childJob struct {
	Gen    bhGenesis `json:"gen"`
	Opts   repOpts   `json:"opts"`
	Blocks []rawWire `json:"blocks"`
}

func toWire(rb rawBlock, b bhBlock) rawWire {
	w := rawWire{Hdr: mustProto(&rb.Hdr), Txs: rb.Txs, Ops: b.Txs}
	for i := range rb.Votes {
		w.Votes = append(w.Votes, mustProto(&rb.Votes[i]))
	}
	for i := range rb.Evid {
		w.Evid = append(w.Evid, mustProto(&rb.Evid[i]))
	}
	return w
}

func fromWire(w rawWire) (rawBlock, bhBlock, error) {
	var rb rawBlock
	if err := rb.Hdr.Unmarshal(w.Hdr); err != nil {
		return rb, bhBlock{}, err
	}
	for _, v := range w.Votes {
		var x abci.VoteInfo
		if err := x.Unmarshal(v); err != nil {
			return rb, bhBlock{}, err
		}
		rb.Votes = append(rb.Votes, x)
	}
	for _, v := range w.Evid {
		var x abci.Misbehavior
		if err := x.Unmarshal(v); err != nil {
			return rb, bhBlock{}, err
		}
		rb.Evid = append(rb.Evid, x)
	}
	rb.Txs = w.Txs
	return rb, bhBlock{Txs: w.Ops}, nil
}

// follow runs recorded blocks on a freshly built replica.
func follow(g bhGenesis, o repOpts, raws []rawBlock, blocks []bhBlock, rep *Replica) []blockResult {
	h := &histRun{Rep: rep}
	set := bhInitialValSet(g)
	h.Track = valTracker{sets: [3][]valEntry{nil, set, set}}
	for i := range raws {
		b := blocks[i]
		h.runBlock(&b, &raws[i], nil)
		if h.Dead != "" {
			break
		}
	}
	return h.Blocks
}

func replicaChildDriver(cfg Config, out *Out) error {
	var job childJob
	dec := json.NewDecoder(bufio.NewReaderSize(os.Stdin, 1<<20))
	if err := dec.Decode(&job); err != nil {
		return err
	}
	var raws []rawBlock
	var blocks []bhBlock
	for _, w := range job.Blocks {
		rb, b, err := fromWire(w)
		if err != nil {
			return err
		}
		raws = append(raws, rb)
		blocks = append(blocks, b)
	}
	rep := newReplica(job.Gen, job.Opts)
	res := follow(job.Gen, job.Opts, raws, blocks, rep)
	bz, err := json.Marshal(res)
	if err != nil {
		return err
	}
	out.w.Write(bz)
	out.w.WriteByte('\n')
	return nil
}

func runChild(job childJob) ([]blockResult, error) {
	exe, err := os.Executable()
	if err != nil {
		return nil, err
	}
	cmd := exec.Command(exe, "replica-child")
	in, err := json.Marshal(job)
	if err != nil {
		return nil, err
	}
	cmd.Stdin = strings.NewReader(string(in))
	var errb strings.Builder
	cmd.Stderr = &errb
	outb, err := cmd.Output()
	if err != nil {
		return nil, fmt.Errorf("child: %v: %s", err, shortLog(errb.String()))
	}
	var res []blockResult
	for _, line := range strings.Split(string(outb), "\n") {
		if strings.HasPrefix(line, "[") {
			if err := json.Unmarshal([]byte(line), &res); err != nil {
				return nil, err
			}
			return res, nil
		}
	}
	return nil, fmt.Errorf("child printed no result")
}

type divergence struct {
	Replica string `json:"replica"`
	Height  int64  `json:"height"`
	What    string `json:"what"`
	Leader  string `json:"leader"`
	Other   string `json:"other"`
}

func compareRuns(name string, lead, other []blockResult) *divergence {
	for i := range lead {
		if i >= len(other) {
			return &divergence{name, lead[i].Height, "replica stopped early", "block executed", "missing"}
		}
		a, b := lead[i], other[i]
		switch {
		case a.Panic != b.Panic:
			return &divergence{name, a.Height, "panic", a.Panic, b.Panic}
		case a.BeginDig != b.BeginDig:
			return &divergence{name, a.Height, "BeginBlock response", a.BeginDig, b.BeginDig}
		}
		for j := range a.Txs {
			if j >= len(b.Txs) {
				return &divergence{name, a.Height, fmt.Sprintf("tx %d missing", j), a.Txs[j].Kind, ""}
			}
			x, y := a.Txs[j], b.Txs[j]
			if x.Digest != y.Digest || x.Direct != y.Direct {
				return &divergence{name, a.Height, fmt.Sprintf("ResponseDeliverTx of tx %d (%s)", j, x.Kind),
					fmt.Sprintf("code=%d gas=%d/%d events=%d digest=%s %s", x.Code, x.GasWanted, x.GasUsed, x.NEvents, x.Digest, x.Direct),
					fmt.Sprintf("code=%d gas=%d/%d events=%d digest=%s %s", y.Code, y.GasWanted, y.GasUsed, y.NEvents, y.Digest, y.Direct)}
			}
		}
		switch {
		case strings.Join(a.ValUpdates, ",") != strings.Join(b.ValUpdates, ","):
			return &divergence{name, a.Height, "validator updates", strings.Join(a.ValUpdates, ","), strings.Join(b.ValUpdates, ",")}
		case a.EndDig != b.EndDig:
			return &divergence{name, a.Height, "EndBlock response", a.EndDig, b.EndDig}
		case a.AppHash != b.AppHash:
			return &divergence{name, a.Height, "application hash", a.AppHash, b.AppHash}
		}
	}
	return nil
}

type repObs struct {
	invObs
	Replicas    []string     `json:"replicas"`
	Divergences []divergence `json:"divergences,omitempty"`
	ChildErr    string       `json:"child_err,omitempty"`
	Compared    int          `json:"responses_compared"`
}

func optsName(o repOpts) string {
	return fmt.Sprintf("mgp=%q home=%q inv=%d iavl=%d ibc=%v prune=%q maxgw=%d trace=%v", o.MinGasPrices, o.Home, o.InvCheckPeriod, o.IAVLCacheSize,
		o.InterBlockCache, o.Pruning, o.MaxTxGasWanted, o.Trace)
}

// selfTest (harness validation only, `-arg selftest=1`): the second replica gets a genesis that differs in one
// parameter; the comparison must then report a divergence.
var selfTest bool

func repRunCase(id string, in bhInput, gen *bhGenerator, nrep int, child bool, rng *Rng) Case {
	// construct the replicas concurrently, each after its own delay
	reps := make([]*Replica, nrep)
	var wg sync.WaitGroup
	for i := 0; i < nrep; i++ {
		wg.Add(1)
		delay := time.Duration(rng.Intn(30)) * time.Millisecond
		go func(i int, d time.Duration) {
			defer wg.Done()
			time.Sleep(d)
			g := in.Gen
			if selfTest && i == 1 {
				g.Coinomics = !g.Coinomics
			}
			reps[i] = newReplica(g, replicaOpts[i%len(replicaOpts)])
		}(i, delay)
	}
	wg.Wait()
	lead := &histRun{Rep: reps[0]}
	set := bhInitialValSet(in.Gen)
	lead.Track = valTracker{sets: [3][]valEntry{nil, set, set}}
	hooks := &stepHooks{}
	for bi := range in.Blocks {
		b := &in.Blocks[bi]
		if gen != nil {
			idx := bi
			hooks.NTx = func(*bhBlock) int { return gen.ntx(idx) }
			hooks.GenTx = func(h *histRun, b *bhBlock, i int) *bhTx { return gen.genTx(h, b, idx, i) }
		} else {
			hooks = nil
		}
		lead.runBlock(b, nil, hooks)
		if lead.Dead != "" {
			in.Blocks = in.Blocks[:bi+1]
			break
		}
	}
	obs := repObs{}
	summarise(lead, &obs.invObs)
	raws := lead.Raw
	blocks := in.Blocks[:len(raws)]
	results := make([][]blockResult, nrep)
	results[0] = lead.Blocks
	for i := 1; i < nrep; i++ {
		wg.Add(1)
		go func(i int) {
			defer wg.Done()
			results[i] = follow(in.Gen, replicaOpts[i%len(replicaOpts)], raws, blocks, reps[i])
		}(i)
	}
	var childRes []blockResult
	var childErr error
	if child {
		wg.Add(1)
		go func() {
			defer wg.Done()
			job := childJob{Gen: in.Gen, Opts: replicaOpts[1]}
			for i := range raws {
				job.Blocks = append(job.Blocks, toWire(raws[i], blocks[i]))
			}
			childRes, childErr = runChild(job)
		}()
	}
	wg.Wait()
	leadCmp := lead.Blocks
	if lead.Dead != "" && !lead.Stop && len(leadCmp) > len(raws) {
		leadCmp = leadCmp[:len(raws)] // the panicking block was not recorded as raw input
	}
	for i := 0; i < nrep; i++ {
		obs.Replicas = append(obs.Replicas, fmt.Sprintf("in-process %d: %s", i, optsName(replicaOpts[i%len(replicaOpts)])))
		if i == 0 {
			continue
		}
		if d := compareRuns(fmt.Sprintf("in-process %d", i), leadCmp, results[i]); d != nil {
			obs.Divergences = append(obs.Divergences, *d)
		}
	}
	if child {
		obs.Replicas = append(obs.Replicas, "separate process: "+optsName(replicaOpts[1]))
		if childErr != nil {
			obs.ChildErr = childErr.Error()
		} else if d := compareRuns("separate process", leadCmp, childRes); d != nil {
			obs.Divergences = append(obs.Divergences, *d)
		}
	}
	for _, b := range leadCmp {
		obs.Compared += (len(b.Txs) + 3) * (len(obs.Replicas) - 1)
	}
	c := Case{ID: id, Kind: "replicas", Input: in, Obs: obs}
	c.OracleOK = len(obs.Divergences) == 0 && obs.ChildErr == ""
	if len(obs.Divergences) > 0 {
		d := obs.Divergences[0]
		c.OracleMsg = fmt.Sprintf("replicas disagree at height %d on %s: leader %s, %s %s", d.Height, d.What, d.Leader, d.Replica, d.Other)
	} else if obs.ChildErr != "" {
		c.OracleMsg = "the separate-process replica failed: " + obs.ChildErr
	}
	if obs.Panic != "" && c.OracleOK {
		// all replicas halted identically: deterministic, but worth a tag
		c.Tags = append(c.Tags, "halted-identically")
	}
	for _, b := range in.Blocks {
		for _, t := range b.Txs {
			if t.K == "upgrade" {
				c.Tags = append(c.Tags, "upgrade-"+t.S)
			}
		}
	}
	okKinds := []string{}
	for k := range obs.OKByKind {
		okKinds = append(okKinds, k)
		c.Tags = append(c.Tags, "ok:"+k)
	}
	c.Nontrivial = obs.OKTxs >= 5 && len(okKinds) >= 3
	if obs.ValUpd > 0 {
		c.Tags = append(c.Tags, "validator-set-changed")
	}
	if child {
		c.Tags = append(c.Tags, "with-separate-process-replica")
	}
	c.Tags = append(c.Tags, fmt.Sprintf("replicas=%d", len(obs.Replicas)))
	if in.Focus != "" {
		c.Tags = append(c.Tags, "focus:"+in.Focus)
	}
	sort.Strings(c.Tags)
	kb, _ := json.Marshal(in)
	c.Key = string(kb)
	return c
}

func replicasDriver(cfg Config, out *Out) error {
	nrep := 2
	nb := 15
	if cfg.Tier == "thorough" {
		nrep, nb = 3, 40
	}
	if v := cfg.Args["blocks"]; v != "" {
		fmt.Sscan(v, &nb)
	}
	if v := cfg.Args["replicas"]; v != "" {
		fmt.Sscan(v, &nrep)
	}
	selfTest = cfg.Args["selftest"] == "1"
	if cfg.Replay != "" {
		i := 0
		r := NewRng(1)
		return readReplayInputs(cfg.Replay, func(raw json.RawMessage) error {
			var in bhInput
			if err := json.Unmarshal(raw, &in); err != nil {
				return err
			}
			out.Emit(repRunCase(fmt.Sprintf("replay-%d", i), in, nil, 3, true, r))
			i++
			return nil
		})
	}
	// undischarged map-range / goroutine / wall-clock sites bias the histories to the packages that hold them
	var focusDirs []string
	if cfg.Tier == "thorough" || cfg.Args["sites"] == "1" {
		focusDirs = undischargedPackages()
	}
	r := NewRng(cfg.Seed)
	for i := 0; i < cfg.N; i++ {
		cr := r.Fork()
		focus := cfg.Args["focus"]
		if focus == "" && len(focusDirs) > 0 && cr.Chance(70) {
			focus = focusDirs[cr.Intn(len(focusDirs))]
		}
		if focus == "" && cr.Chance(50) {
			fs := []string{"x/evm", "precompiles", "x/liquidvesting", "x/vesting", "x/erc20", "x/ucdao", "x/bank", "app"}
			focus = fs[cr.Intn(len(fs))]
		}
		g := newBhGenerator(cr, nb, focus)
		in := bhInput{Gen: g.genesis(), Focus: focus}
		for b := 0; b < nb; b++ {
			in.Blocks = append(in.Blocks, g.block(b))
		}
		child := i%4 == 0
		out.Emit(repRunCase(fmt.Sprintf("s%d-%d", cfg.Seed, i), in, g, nrep, child, cr))
	}
	return nil
}

var _ = tmproto.Header{}
