package main

// Driver "replicas" (property C01): two (thorough: three) independently
// constructed applications -- fresh MemDBs, constructed concurrently with
// different delays, different node-local settings (minimum-gas-prices, home
// directory, invariant-check period, IAVL cache size, inter-block cache,
// pruning, EVM max-tx-gas-wanted, trace) -- are fed the same random block
// history; in a part of the histories a further replica runs in a separate
// operating-system process.  ORACLE: after every block the BeginBlock response,
// every ResponseDeliverTx (code, codespace, data, gas wanted / used, events in
// order), the EndBlock response (validator updates, consensus-parameter
// updates, events) and the application hash are byte-identical.  The `log` and
// `info` strings are not compared: CometBFT documents them as non-deterministic
// and they are not part of the results hash (with trace on they carry a stack trace).
//
// The replicas also differ in their PROCESS HISTORY (replica_perturb.go): queries, CheckTx,
// restarts from the database and construction of further application objects happen to
// single replicas between the blocks, as named by the input; and the block contents are
// made sensitive to the execution environment by the probe contract of envprobe.go.  The
// zero / non-zero pattern of every BLOCKHASH the probe evaluated is handed to the Coq model
// (App/DeterminismModel.v, section 5) together with the HistoricalEntries parameter.

import (
	"bufio"
	"encoding/hex"
	"encoding/json"
	"fmt"
	"math/big"
	"os"
	"os/exec"
	"sort"
	"strings"
	"sync"
	"time"

	abci "github.com/cometbft/cometbft/abci/types"
	tmproto "github.com/cometbft/cometbft/proto/tendermint/types"
	"github.com/ethereum/go-ethereum/common"
)

func init() {
	register("replicas", replicasDriver)
	register("replica-child", replicaChildDriver)
}

var replicaOpts = []repOpts{
	{},
	{MinGasPrices: "20000000000aISLM", Home: "/nonexistent/verif-home-1", InvCheckPeriod: 3, IAVLCacheSize: 7, InterBlockCache: true, Pruning: "everything", MaxTxGasWanted: 500000, EVMTracer: "access_list"},
	{MinGasPrices: "1aISLM", Home: "/nonexistent/verif-home-2", InvCheckPeriod: 1, IAVLCacheSize: 100000, Pruning: "nothing", Trace: true, MaxTxGasWanted: 1},
}

// wire format handed to the child process
type rawWire struct {
	Hdr   []byte      `json:"hdr"`
	Votes [][]byte    `json:"votes"`
	Evid  [][]byte    `json:"evid"`
	Txs   [][]byte    `json:"txs"`
	Ops   []bhTx      `json:"ops"`
	Pre   []bhPerturb `json:"pre,omitempty"`
}
type childJob struct {
	Gen    bhGenesis `json:"gen"`
	Opts   repOpts   `json:"opts"`
	Blocks []rawWire `json:"blocks"`
	Idx    int       `json:"idx"`   // the replica index perturbations address this process by
	Probe  string    `json:"probe"` // address of the environment-probe contract (hex), "" = none
}

func toWire(rb rawBlock, b bhBlock) rawWire {
	w := rawWire{Hdr: mustProto(&rb.Hdr), Txs: rb.Txs, Ops: b.Txs, Pre: b.Pre}
	for i := range rb.Votes {
		w.Votes = append(w.Votes, mustProto(&rb.Votes[i]))
	}
	for i := range rb.Evid {
		w.Evid = append(w.Evid, mustProto(&rb.Evid[i]))
	}
	return w
}

func fromWire(w rawWire) (rawBlock, bhBlock, error) {
	var rb rawBlock
	if err := rb.Hdr.Unmarshal(w.Hdr); err != nil {
		return rb, bhBlock{}, err
	}
	for _, v := range w.Votes {
		var x abci.VoteInfo
		if err := x.Unmarshal(v); err != nil {
			return rb, bhBlock{}, err
		}
		rb.Votes = append(rb.Votes, x)
	}
	for _, v := range w.Evid {
		var x abci.Misbehavior
		if err := x.Unmarshal(v); err != nil {
			return rb, bhBlock{}, err
		}
		rb.Evid = append(rb.Evid, x)
	}
	rb.Txs = w.Txs
	return rb, bhBlock{Txs: w.Ops, Pre: w.Pre}, nil
}

// follow runs recorded blocks on a freshly built replica; before every block the perturbations
// addressed to replica idx happen to it.
func follow(g bhGenesis, o repOpts, raws []rawBlock, blocks []bhBlock, rep *Replica, idx int, probe common.Address, l *perturbLog) []blockResult {
	h := &histRun{Rep: rep}
	rep.Probe = probe
	set := bhInitialValSet(g)
	h.Track = valTracker{sets: [3][]valEntry{nil, set, set}}
	for i := range raws {
		b := blocks[i]
		if i == 0 {
			rep.Probe = common.Address{} // not deployed before the first block
		}
		runPre(rep, g, idx, &b, &raws[i], l)
		rep.Probe = probe
		h.runBlock(&b, &raws[i], nil)
		if h.Dead != "" {
			break
		}
	}
	return h.Blocks
}

func replicaChildDriver(cfg Config, out *Out) error {
	var job childJob
	dec := json.NewDecoder(bufio.NewReaderSize(os.Stdin, 1<<20))
	if err := dec.Decode(&job); err != nil {
		return err
	}
	var raws []rawBlock
	var blocks []bhBlock
	for _, w := range job.Blocks {
		rb, b, err := fromWire(w)
		if err != nil {
			return err
		}
		raws = append(raws, rb)
		blocks = append(blocks, b)
	}
	rep := newReplica(job.Gen, job.Opts)
	res := follow(job.Gen, job.Opts, raws, blocks, rep, job.Idx, common.HexToAddress(job.Probe), newPerturbLog())
	bz, err := json.Marshal(res)
	if err != nil {
		return err
	}
	out.w.Write(bz)
	out.w.WriteByte('\n')
	return nil
}

func runChild(job childJob) ([]blockResult, error) {
	exe, err := os.Executable()
	if err != nil {
		return nil, err
	}
	cmd := exec.Command(exe, "replica-child")
	// the separate process runs in a different process ENVIRONMENT: local time zone 14 hours ahead of UTC (falls back to
	// UTC where the zone database is missing), another locale and home directory — none of it is a block input
	cmd.Env = append(os.Environ(), "TZ=Pacific/Kiritimati", "LANG=tr_TR.UTF-8", "LC_ALL=tr_TR.UTF-8", "HOME=/nonexistent/verif-child-home", "GOMAXPROCS=1")
	in, err := json.Marshal(job)
	if err != nil {
		return nil, err
	}
	cmd.Stdin = strings.NewReader(string(in))
	var errb strings.Builder
	cmd.Stderr = &errb
	outb, err := cmd.Output()
	if err != nil {
		return nil, fmt.Errorf("child: %v: %s", err, shortLog(errb.String()))
	}
	var res []blockResult
	for _, line := range strings.Split(string(outb), "\n") {
		if line == "null" {
			return nil, nil
		}
		if strings.HasPrefix(line, "[") {
			if err := json.Unmarshal([]byte(line), &res); err != nil {
				return nil, err
			}
			return res, nil
		}
	}
	return nil, fmt.Errorf("child printed no result")
}

type divergence struct {
	Replica string `json:"replica"`
	Height  int64  `json:"height"`
	What    string `json:"what"`
	Leader  string `json:"leader"`
	Other   string `json:"other"`
}

// compareRuns compares the block results of the leading replica with those of another one and returns
// the first divergence (height = block index of the replay + 1, transaction index).
func compareRuns(name string, lead, other []blockResult) *divergence {
	for i := range lead {
		if i >= len(other) {
			return &divergence{name, lead[i].Height, "replica stopped early", "block executed", "missing"}
		}
		a, b := lead[i], other[i]
		switch {
		case a.Panic != b.Panic:
			return &divergence{name, a.Height, "panic", a.Panic, b.Panic}
		case a.BeginDig != b.BeginDig:
			return &divergence{name, a.Height, "BeginBlock response", a.BeginDig + " (base fee " + a.BaseFee + ")", b.BeginDig + " (base fee " + b.BaseFee + ")"}
		}
		for j := range a.Txs {
			if j >= len(b.Txs) {
				return &divergence{name, a.Height, fmt.Sprintf("tx %d missing", j), a.Txs[j].Kind, ""}
			}
			x, y := a.Txs[j], b.Txs[j]
			if x.Digest != y.Digest || x.Direct != y.Direct {
				return &divergence{name, a.Height, fmt.Sprintf("ResponseDeliverTx of tx %d (%s)", j, x.Kind),
					fmt.Sprintf("code=%d gas=%d/%d events=%d digest=%s %s", x.Code, x.GasWanted, x.GasUsed, x.NEvents, x.Digest, x.Direct),
					fmt.Sprintf("code=%d gas=%d/%d events=%d digest=%s %s", y.Code, y.GasWanted, y.GasUsed, y.NEvents, y.Digest, y.Direct)}
			}
		}
		switch {
		case strings.Join(a.ValUpdates, ",") != strings.Join(b.ValUpdates, ","):
			return &divergence{name, a.Height, "validator updates", strings.Join(a.ValUpdates, ","), strings.Join(b.ValUpdates, ",")}
		case a.EndDig != b.EndDig:
			return &divergence{name, a.Height, "EndBlock response", a.EndDig, b.EndDig}
		case a.AppHash != b.AppHash:
			return &divergence{name, a.Height, "application hash", a.AppHash, b.AppHash}
		}
	}
	return nil
}

type repObs struct {
	invObs
	Replicas    []string          `json:"replicas"`
	Divergences []divergence      `json:"divergences,omitempty"`
	ChildErr    string            `json:"child_err,omitempty"`
	Compared    int               `json:"responses_compared"`
	HistEntries string            `json:"historical_entries"`
	Perturbed   map[string]int    `json:"perturbations,omitempty"`         // kind:outcome -> count, all in-process replicas
	PerturbErrs map[string]string `json:"perturbation_problems,omitempty"` // a perturbation the harness could not perform
	Probes      []probeObs        `json:"probe_calls,omitempty"`           // what the probe contract saw in delivered transactions (leading replica)
	BHChecked   int               `json:"blockhash_answers_checked_by_model"`
	FeeRegime   string            `json:"fee_market_regime"`                 // genesis x/feemarket parameters and consensus Block.MaxGas
	BaseFees    string            `json:"base_fee_by_block,omitempty"`      // leading replica: height:value[branch of the update]
	FeeChecked  int               `json:"base_fee_updates_checked_by_model"` // BeginBlock updates re-evaluated by calc_base_fee in Coq
}

type probeObs struct {
	Height int64             `json:"height"`
	Tx     int               `json:"tx"`
	Asked  string            `json:"asked"`
	Env    map[string]string `json:"env"`
	Hashes string            `json:"blockhash_pattern"` // per asked height: requested=0 (zero) / requested=H (a hash)
}

func optsName(o repOpts) string {
	return fmt.Sprintf("mgp=%q home=%q inv=%d iavl=%d ibc=%v prune=%q maxgw=%d trace=%v evmtracer=%q", o.MinGasPrices, o.Home, o.InvCheckPeriod, o.IAVLCacheSize,
		o.InterBlockCache, o.Pruning, o.MaxTxGasWanted, o.Trace, o.EVMTracer)
}

// selfTest (harness validation only, `-arg selftest=1`): the second replica gets a genesis that differs in one
// parameter; the comparison must then report a divergence.
var selfTest bool

// buildReplicas constructs the in-process application objects as the input says: sequentially in the
// given order with throw-away instances before, or concurrently after random delays.
func buildReplicas(in bhInput, nrep int, rng *Rng, l *perturbLog) []*Replica {
	reps := make([]*Replica, nrep)
	genFor := func(i int) bhGenesis {
		g := in.Gen
		if selfTest && i == 1 {
			g.Coinomics = !g.Coinomics
		}
		return g
	}
	if in.Proc == nil || in.Proc.Concurrent {
		var wg sync.WaitGroup
		for i := 0; i < nrep; i++ {
			wg.Add(1)
			delay := time.Duration(rng.Intn(30)) * time.Millisecond
			go func(i int, d time.Duration) {
				defer wg.Done()
				time.Sleep(d)
				reps[i] = newReplica(genFor(i), replicaOpts[i%len(replicaOpts)])
			}(i, delay)
		}
		wg.Wait()
		return reps
	}
	for _, i := range buildOrder(in.Proc, nrep) {
		if i < len(in.Proc.Extra) {
			for k := 0; k < in.Proc.Extra[i] && k < 4; k++ {
				if msg := throwAway(in.Gen, i+k); msg != "" {
					l.problem("construct", msg)
				}
				l.note("construct", "before-replica")
			}
		}
		reps[i] = newReplica(genFor(i), replicaOpts[i%len(replicaOpts)])
	}
	return reps
}

func repRunCase(id string, in bhInput, gen *bhGenerator, pg *procGen, nrep int, child bool, rng *Rng) Case {
	plog := newPerturbLog()
	reps := buildReplicas(in, nrep, rng, plog)
	var wg sync.WaitGroup
	lead := &histRun{Rep: reps[0]}
	set := bhInitialValSet(in.Gen)
	lead.Track = valTracker{sets: [3][]valEntry{nil, set, set}}
	ft := newFeeTrack(in.Gen)
	for bi := range in.Blocks {
		b := &in.Blocks[bi]
		hooks := &stepHooks{TweakRaw: tweakHeader, AfterBeginBlock: ft.afterBeginBlock, AfterEndBlock: ft.afterEndBlock}
		if gen != nil {
			idx := bi
			var front, back []bhTx
			if pg != nil {
				front, back = pg.front(idx), pg.back(idx)
			}
			own := 0
			hooks.NTx = func(*bhBlock) int { own = gen.ntx(idx); return len(front) + own + len(back) }
			hooks.GenTx = func(h *histRun, b *bhBlock, i int) *bhTx {
				switch {
				case i < len(front):
					return &front[i]
				case i < len(front)+own:
					return gen.genTx(h, b, idx, i-len(front))
				}
				return &back[i-len(front)-own]
			}
		}
		runPre(lead.Rep, in.Gen, 0, b, nil, plog)
		lead.runBlock(b, nil, hooks)
		if lead.Dead != "" {
			in.Blocks = in.Blocks[:bi+1]
			break
		}
	}
	obs := repObs{HistEntries: "default (10000)"}
	entries := uint32(10000)
	if in.Gen.Hist != nil {
		entries = *in.Gen.Hist
		obs.HistEntries = fmt.Sprint(entries)
	}
	summarise(lead, &obs.invObs)
	raws := lead.Raw
	blocks := in.Blocks[:len(raws)]
	probe := lead.Rep.Probe
	results := make([][]blockResult, nrep)
	results[0] = lead.Blocks
	logs := make([]*perturbLog, nrep)
	for i := 1; i < nrep; i++ {
		wg.Add(1)
		logs[i] = newPerturbLog()
		go func(i int) {
			defer wg.Done()
			results[i] = follow(in.Gen, replicaOpts[i%len(replicaOpts)], raws, blocks, reps[i], i, probe, logs[i])
		}(i)
	}
	var childRes []blockResult
	var childErr error
	if child {
		wg.Add(1)
		go func() {
			defer wg.Done()
			job := childJob{Gen: in.Gen, Opts: replicaOpts[1], Idx: nrep}
			if probe != (common.Address{}) {
				job.Probe = probe.Hex()
			}
			for i := range raws {
				job.Blocks = append(job.Blocks, toWire(raws[i], blocks[i]))
			}
			childRes, childErr = runChild(job)
		}()
	}
	wg.Wait()
	for i := 1; i < nrep; i++ {
		plog.merge(logs[i])
	}
	leadCmp := lead.Blocks
	if lead.Dead != "" && !lead.Stop && len(leadCmp) > len(raws) {
		leadCmp = leadCmp[:len(raws)] // the panicking block was not recorded as raw input
	}
	for i := 0; i < nrep; i++ {
		obs.Replicas = append(obs.Replicas, fmt.Sprintf("in-process %d: %s", i, optsName(replicaOpts[i%len(replicaOpts)])))
		if i == 0 {
			continue
		}
		if d := compareRuns(fmt.Sprintf("in-process %d", i), leadCmp, results[i]); d != nil {
			obs.Divergences = append(obs.Divergences, *d)
		}
	}
	if child {
		obs.Replicas = append(obs.Replicas, fmt.Sprintf("separate process (replica %d): %s", nrep, optsName(replicaOpts[1])))
		if childErr != nil {
			obs.ChildErr = childErr.Error()
		} else if d := compareRuns("separate process", leadCmp, childRes); d != nil {
			obs.Divergences = append(obs.Divergences, *d)
		}
	}
	for _, b := range leadCmp {
		obs.Compared += (len(b.Txs) + 3) * (len(obs.Replicas) - 1)
	}
	// what the probe contract saw (leading replica), and the BLOCKHASH answers for the model
	bh := append([]bhObservation{}, plog.BH...)
	for bi, b := range leadCmp {
		if bi >= len(blocks) {
			break
		}
		for ti, t := range b.Txs {
			if t.Kind != "probe" || t.Ret == "" || ti >= len(blocks[bi].Txs) {
				continue
			}
			ret, _ := hex.DecodeString(t.Ret)
			asked := parseReqs(blocks[bi].Txs[ti].S)
			env, os, ok := probeDecode(ret, asked)
			if !ok {
				continue
			}
			bh = append(bh, os...)
			if len(obs.Probes) < 12 {
				var pat []string
				for _, o := range os[len(probeBacks):] {
					v := "0"
					if o.NonZero {
						v = "H"
					}
					pat = append(pat, fmt.Sprintf("%s=%s", shortBig(o.Req), v))
				}
				obs.Probes = append(obs.Probes, probeObs{Height: b.Height, Tx: ti, Asked: blocks[bi].Txs[ti].S, Env: env, Hashes: strings.Join(pat, " ")})
			}
		}
	}
	obs.Perturbed, obs.PerturbErrs = plog.Counts, plog.Errs
	obs.FeeRegime = "default (base fee 1000000000, denominator 8, elasticity 2, min gas price 0, min gas multiplier 0.5, Block.MaxGas -1)"
	if f := in.Gen.Fee; f != nil {
		fj, _ := json.Marshal(f)
		obs.FeeRegime = string(fj)
	}
	var bfs []string
	for _, st := range ft.Steps {
		bfs = append(bfs, fmt.Sprintf("%d:%s[%s]", st.Height, st.After, st.Kind))
	}
	obs.BaseFees = strings.Join(bfs, " ")
	c := Case{ID: id, Kind: "replicas", Input: in}
	c.Tags = append(c.Tags, ft.tags(blocks)...)
	if gen != nil && gen.fee != nil {
		c.Tags = append(c.Tags, "fee-regime:"+gen.fee.name)
	}
	// the closed formula of the model is for a constant HistoricalEntries: histories that change the staking
	// parameter on the way are compared between replicas only
	histConst := true
	for _, b := range in.Blocks {
		for _, t := range b.Txs {
			if t.K == "param" && t.S == "staking" {
				for _, kv := range t.X {
					if len(kv) > 0 && kv[0] == "HistoricalEntries" {
						histConst = false
					}
				}
			}
		}
	}
	bhTerm := "None"
	if len(bh) > 0 && histConst {
		var t string
		t, obs.BHChecked = coqBhCase(entries, bh)
		bhTerm = "(Some " + t + ")"
	} else if !histConst {
		c.Tags = append(c.Tags, "historical-entries-changed-on-the-way")
	}
	// every BeginBlock of the leading replica as a fee_obs: the model (calc_base_fee of property C17) must store the same base fee
	c.Coq = fmt.Sprintf("(%s, %s)", bhTerm, ft.coq())
	c.CoqList = "rep"
	obs.FeeChecked = len(ft.Steps)
	c.Obs = obs
	c.OracleOK = len(obs.Divergences) == 0 && obs.ChildErr == ""
	if len(obs.Divergences) > 0 {
		d := obs.Divergences[0]
		c.OracleMsg = fmt.Sprintf("replicas disagree at height %d (block index %d of the replay) on %s: leader %s, %s %s", d.Height, d.Height-1, d.What, d.Leader, d.Replica, d.Other)
	} else if obs.ChildErr != "" {
		c.OracleMsg = "the separate-process replica failed: " + obs.ChildErr
	}
	// K17 seen from C01: the replicas that evaluate the crisis invariants (node-local inv-check-period) halt in EndBlock
	// on the torn distribution records while the others go on.  The crisis module panics with whatever the broken
	// invariant route raises ("cannot set negative reference count", "no delegation distribution info", "negative coin
	// amount", ...), so the class is not recognised by that text: it is attributed only when (a) the history has the
	// input shape of K17, (b) every divergence is a halt in EndBlock of a replica while the leader goes on, and (c) the
	// same history, run by the C15 driver, breaks nothing but the distribution module's reward bookkeeping (its own
	// K17 verdict).  Anything else stays a violation.
	if len(obs.Divergences) > 0 && bhToleratedPrecompileShape(in) {
		all := true
		for _, d := range obs.Divergences {
			if d.What != "panic" || d.Leader != "" || !strings.Contains(d.Other, "EndBlock panic") {
				all = false
			}
		}
		if all && invRunCase(id+"#k17", in, nil).Class == classTornPrecompile {
			c.Class = classTornPrecompile
		}
	}
	if obs.Panic != "" && c.OracleOK {
		// all replicas halted identically: deterministic, but worth a tag
		c.Tags = append(c.Tags, "halted-identically")
	}
	for _, b := range in.Blocks {
		for _, t := range b.Txs {
			if t.K == "upgrade" {
				c.Tags = append(c.Tags, "upgrade-"+t.S)
			}
			if t.K == "param" && (t.S == "feemarket" || t.S == "consensus") {
				for _, kv := range t.X {
					c.Tags = append(c.Tags, "fee-param:"+t.S+"."+kv[0])
				}
			}
		}
	}
	okKinds := []string{}
	for k := range obs.OKByKind {
		okKinds = append(okKinds, k)
		c.Tags = append(c.Tags, "ok:"+k)
	}
	c.Nontrivial = obs.OKTxs >= 5 && len(okKinds) >= 3
	if obs.ValUpd > 0 {
		c.Tags = append(c.Tags, "validator-set-changed")
	}
	if child {
		c.Tags = append(c.Tags, "with-separate-process-replica")
	}
	c.Tags = append(c.Tags, fmt.Sprintf("replicas=%d", len(obs.Replicas)), "historical-entries="+obs.HistEntries)
	if in.Focus != "" {
		c.Tags = append(c.Tags, "focus:"+in.Focus)
	}
	for k := range plog.Counts {
		c.Tags = append(c.Tags, "perturb:"+k)
	}
	for k := range plog.Errs {
		c.Tags = append(c.Tags, "perturb-problem:"+k)
	}
	if pg != nil && pg.shape != "" {
		c.Tags = append(c.Tags, "shape:"+pg.shape)
	}
	if pg != nil && pg.feeShape != "" {
		c.Tags = append(c.Tags, "shape:"+pg.feeShape)
	}
	nz, z := 0, 0
	for _, o := range bh {
		if o.NonZero {
			nz++
		} else {
			z++
		}
	}
	if nz > 0 {
		c.Tags = append(c.Tags, "blockhash:some-non-zero")
	}
	if z > 0 {
		c.Tags = append(c.Tags, "blockhash:some-zero")
	}
	sort.Strings(c.Tags)
	kb, _ := json.Marshal(in)
	c.Key = string(kb)
	return c
}

func shortBig(x *big.Int) string {
	if x.BitLen() > 62 {
		return "huge"
	}
	return x.String()
}

func replicasDriver(cfg Config, out *Out) error {
	nrep := 2
	nb := 15
	if cfg.Tier == "thorough" {
		nrep, nb = 3, 40
	}
	if v := cfg.Args["blocks"]; v != "" {
		fmt.Sscan(v, &nb)
	}
	if v := cfg.Args["replicas"]; v != "" {
		fmt.Sscan(v, &nrep)
	}
	selfTest = cfg.Args["selftest"] == "1"
	if cfg.Replay != "" {
		i := 0
		r := NewRng(1)
		return readReplayInputs(cfg.Replay, func(raw json.RawMessage) error {
			var in bhInput
			if err := json.Unmarshal(raw, &in); err != nil {
				return err
			}
			out.Emit(repRunCase(fmt.Sprintf("replay-%d", i), in, nil, nil, 3, true, r))
			i++
			return nil
		})
	}
	// undischarged map-range / goroutine / wall-clock sites bias the histories to the packages that hold them
	var focusDirs []string
	if cfg.Tier == "thorough" || cfg.Args["sites"] == "1" {
		focusDirs = undischargedPackages()
	}
	r := NewRng(cfg.Seed)
	for i := 0; i < cfg.N; i++ {
		cr := r.Fork()
		focus := cfg.Args["focus"]
		if focus == "" && len(focusDirs) > 0 && cr.Chance(70) {
			focus = focusDirs[cr.Intn(len(focusDirs))]
		}
		if focus == "" && cr.Chance(50) {
			fs := []string{"x/evm", "precompiles", "x/liquidvesting", "x/vesting", "x/erc20", "x/ucdao", "x/bank", "app"}
			focus = fs[cr.Intn(len(fs))]
		}
		child := i%4 == 0
		addressable := nrep
		if child {
			addressable++
		}
		g := newBhGenerator(cr, nb, focus)
		pg := newProcGen(cr.Fork(), nb, addressable)
		if g.fee != nil && g.fee.fee != nil && pg.r.Chance(60) {
			pg.betweenHeavy(g.fee.heavy)
		}
		in := bhInput{Gen: g.genesis(), Focus: focus, Proc: pg.proc()}
		he := pg.entries
		in.Gen.Hist = &he
		for b := 0; b < nb; b++ {
			blk := g.block(b)
			blk.Pre = pg.pre[b]
			in.Blocks = append(in.Blocks, blk)
		}
		if child && nb >= 3 && cr.Chance(60) {
			// a jump of the block time into the hours around a new year (UTC) where the calendar year of a local time
			// zone differs from the UTC year, across leap / non-leap boundaries; the following blocks stay inside
			j := 1 + cr.Intn(nb-2)
			t := genesisTime.Unix()
			for b := 0; b < j; b++ {
				t += in.Blocks[b].DT
			}
			year := []int{2024, 2025, 2028, 2029}[cr.Intn(4)]
			target := time.Date(year, 1, 1, 0, 0, 0, 0, time.UTC).Unix() - int64(cr.Intn(14*3600)) + int64(cr.Intn(3))*3600
			if target > t {
				in.Blocks[j].DT = target - t
				for b := j + 1; b < nb; b++ {
					if in.Blocks[b].DT > 3600 {
						in.Blocks[b].DT = int64(1 + cr.Intn(600))
					}
				}
			}
		}
		out.Emit(repRunCase(fmt.Sprintf("s%d-%d", cfg.Seed, i), in, g, pg, nrep, child, cr))
	}
	return nil
}

var _ = tmproto.Header{}
