package main

// Driver "genesis" (property C19): a random block history on a real
// application, then ExportAppStateAndValidators -> fresh application InitChain at
// the exported height -> Commit -> export again.  Oracle = the property: for
// every Haqq module (evm, feemarket, erc20, vesting [accounts inside auth],
// liquidvesting, ucdao, coinomics, epochs; plus bank balances / supply) the
// second export is identical to the first and a fixed query set answers
// identically on both applications.

import (
	"encoding/hex"
	"encoding/json"
	"fmt"
	"math/big"
	"os"
	"sort"
	"strings"
	"time"

	sdkmath "cosmossdk.io/math"
	dbm "github.com/cometbft/cometbft-db"
	abci "github.com/cometbft/cometbft/abci/types"
	"github.com/cosmos/cosmos-sdk/codec"
	sdk "github.com/cosmos/cosmos-sdk/types"
	"github.com/cosmos/cosmos-sdk/types/query"
	authtypes "github.com/cosmos/cosmos-sdk/x/auth/types"
	sdkvesting "github.com/cosmos/cosmos-sdk/x/auth/vesting/types"
	banktypes "github.com/cosmos/cosmos-sdk/x/bank/types"
	stakingtypes "github.com/cosmos/cosmos-sdk/x/staking/types"
	upgradetypes "github.com/cosmos/cosmos-sdk/x/upgrade/types"
	"github.com/ethereum/go-ethereum/common"
	"github.com/ethereum/go-ethereum/crypto"
	"github.com/gogo/protobuf/proto"

	"github.com/haqq-network/haqq/app"
	stakingprecompile "github.com/haqq-network/haqq/precompiles/staking"
	"github.com/haqq-network/haqq/utils"
	coinomicstypes "github.com/haqq-network/haqq/x/coinomics/types"
	epochstypes "github.com/haqq-network/haqq/x/epochs/types"
	erc20types "github.com/haqq-network/haqq/x/erc20/types"
	evmtypes "github.com/haqq-network/haqq/x/evm/types"
	feemarkettypes "github.com/haqq-network/haqq/x/feemarket/types"
	liquidvestingtypes "github.com/haqq-network/haqq/x/liquidvesting/types"
	ucdaokeeper "github.com/haqq-network/haqq/x/ucdao/keeper"
	ucdaotypes "github.com/haqq-network/haqq/x/ucdao/types"
	vestingtypes "github.com/haqq-network/haqq/x/vesting/types"
)

func init() { register("genesis", genesisDriver) }

const hvUpgradeNames = 6

const classK8 = "genesis:epochs-start-height-rewritten"

// ---------------------------------------------------------------- input
type hOp struct {
	Op   string `json:"op"`
	A    int    `json:"a,omitempty"`
	B    int    `json:"b,omitempty"`
	K    uint64 `json:"k,omitempty"`
	V    uint64 `json:"v,omitempty"`
	Amt  string `json:"amt,omitempty"`
	Kind int    `json:"kind,omitempty"`
	End  int    `json:"end,omitempty"` // "deployc" / "create2": how the constructor ends (genesis_evm.go: endRuntime ...)
	// parameter-update ops of the restart driver ("params"): module and the fields to override
	Mod string          `json:"mod,omitempty"`
	P   json.RawMessage `json:"p,omitempty"`
}

type hBlock struct {
	Dt  int64 `json:"dt"` // seconds since the previous block
	Ops []hOp `json:"ops"`
	// restart driver: at the boundary BEFORE this block a node is restarted as a NEW OPERATING-SYSTEM PROCESS: a child
	// process opens a copy of the continuous node's database as of that boundary and executes this and all following
	// blocks (restart_proc.go).  Ignored on the first block (nothing is committed before it).
	Proc bool `json:"proc,omitempty"`
}

type hInput struct {
	Blocks []hBlock `json:"blocks"`
	// BaseAt: the genesis file additionally holds a plain SDK BaseAccount (not an EthAccount) at the CREATE
	// address of deployer B at nonce K.  Replay only (probe of an account type that does not implement
	// EthAccountI); the generator never sets it.
	BaseAt []hBaseAt `json:"base_at,omitempty"`
	// restart driver: fee-market regime of the chain (x/feemarket genesis parameters and the consensus Block.MaxGas,
	// feeregime.go); nil = the defaults of chain.go (base fee 10^9, Block.MaxGas 40,000,000)
	Fee *bhFeeMarket `json:"fee,omitempty"`
}

type hBaseAt struct {
	B int    `json:"b"`
	K uint64 `json:"k,omitempty"`
}

// hist is the run-time side of a history: what the ops created so far.
type hist struct {
	c         *Chain
	contracts []common.Address
	slots     map[common.Address]map[uint64]bool
	vest      []sdk.AccAddress
	vestKey   []int
	small     []common.Address // small contracts (op "deployc" / "create2", their CREATE children), with or without code
	factories []common.Address // CREATE2 factories (op "factory")
	planned   []common.Address // future CREATE addresses that were prepared (vesting account / funded ahead)
	liquid    []string
	coins     []string // registered cosmos coins (erc20 pairs by RegisterCoin)
	log       []string // per op: "op:ok" / "op:err"
	errs      []string
	gasUsed   int64
	pw        []string // restart driver: parameter updates (Coq terms) that reached a handler in the open block
}

var e18big = new(big.Int).Exp(big.NewInt(10), big.NewInt(18), nil)

func islm(n int64) *big.Int { return new(big.Int).Mul(big.NewInt(n), e18big) }

func amtOf(s string, def *big.Int) *big.Int {
	if s == "" {
		return def
	}
	v, ok := new(big.Int).SetString(s, 10)
	if !ok {
		return def
	}
	return v
}

func coinOf(denom string, v *big.Int) sdk.Coin {
	return sdk.Coin{Denom: denom, Amount: sdkmath.NewIntFromBigInt(v)}
}

func (h *hist) deliver(bz []byte, err error) error {
	if err != nil {
		return err
	}
	res := h.c.Deliver(bz)
	h.gasUsed += res.GasUsed
	if res.Code != 0 {
		return fmt.Errorf("code %d: %s", res.Code, trunc(res.Log, 200))
	}
	return nil
}

// ethOK reports whether the eth tx in a successful DeliverTx executed without VM error.
func ethFailed(res abci.ResponseDeliverTx) bool {
	for _, ev := range res.Events {
		if ev.Type == evmtypes.EventTypeEthereumTx {
			for _, at := range ev.Attributes {
				if at.Key == evmtypes.AttributeKeyEthereumTxFailed {
					return true
				}
			}
		}
	}
	return false
}

func (h *hist) apply(op hOp) error {
	c := h.c
	ctx := c.Ctx()
	a := ((op.A % chainNAccts) + chainNAccts) % chainNAccts
	b := ((op.B % chainNAccts) + chainNAccts) % chainNAccts
	if err, ok := h.applyEvm(op, a, b); ok {
		return err
	}
	switch op.Op {
	case "deploy":
		ca := chainAcct(a)
		nonce := c.App.EvmKeeper.GetNonce(ctx, ca.Eth)
		bz, _, err := c.EthTx(ctx, a, nil, big.NewInt(0), deployInit(scriptCode), 1_000_000, 0)
		if err != nil {
			return err
		}
		res := c.Deliver(bz)
		h.gasUsed += res.GasUsed
		if res.Code != 0 || ethFailed(res) {
			return fmt.Errorf("deploy failed: code %d %s", res.Code, trunc(res.Log, 200))
		}
		addr := crypto.CreateAddress(ca.Eth, nonce)
		h.contracts = append(h.contracts, addr)
		h.slots[addr] = map[uint64]bool{}
		return nil
	case "sstore":
		if len(h.contracts) == 0 {
			return fmt.Errorf("no contract")
		}
		to := h.contracts[((op.B%len(h.contracts))+len(h.contracts))%len(h.contracts)] // B = -1: the most recent one
		data := []byte{}
		n := 1 + op.Kind%3
		for i := 0; i < n; i++ {
			data = append(data, encSStore(op.K+uint64(i), op.V)...)
		}
		bz, _, err := c.EthTx(ctx, a, &to, amtOf(op.Amt, big.NewInt(0)), data, 400_000, 0)
		if err != nil {
			return err
		}
		res := c.Deliver(bz)
		h.gasUsed += res.GasUsed
		if res.Code != 0 || ethFailed(res) {
			return fmt.Errorf("sstore failed: code %d %s", res.Code, trunc(res.Log, 200))
		}
		for i := 0; i < n; i++ {
			h.slots[to][op.K+uint64(i)] = true
		}
		return nil
	case "ethsend":
		to := chainAcct(b).Eth
		if op.Kind == 1 {
			to = common.BytesToAddress(plainAddr("eoa", op.B))
		}
		bz, _, err := c.EthTx(ctx, a, &to, amtOf(op.Amt, big.NewInt(12345)), nil, 100_000, 0)
		return h.deliver(bz, err)
	case "banksend":
		to := chainAcct(b).Acc
		if op.Kind == 1 {
			to = plainAddr("bank", op.B)
		}
		bz, err := c.CosmosTx(ctx, a, 300_000, banktypes.NewMsgSend(chainAcct(a).Acc, to, sdk.NewCoins(coinOf(utils.BaseDenom, amtOf(op.Amt, big.NewInt(777))))))
		return h.deliver(bz, err)
	case "delegate":
		vals := c.App.StakingKeeper.GetAllValidators(ctx)
		msg := stakingtypes.NewMsgDelegate(chainAcct(a).Acc, vals[0].GetOperator(), coinOf(utils.BaseDenom, amtOf(op.Amt, islm(5))))
		bz, err := c.CosmosTx(ctx, a, 600_000, msg)
		return h.deliver(bz, err)
	case "vest":
		idx := len(h.vest)
		key := 100 + idx
		to := chainAcct(key).Acc
		amt := amtOf(op.Amt, islm(5000))
		half := new(big.Int).Quo(amt, big.NewInt(2))
		rest := new(big.Int).Sub(amt, half)
		q := new(big.Int).Quo(amt, big.NewInt(4))
		q4 := new(big.Int).Sub(amt, new(big.Int).Mul(q, big.NewInt(3)))
		p := func(l int64, v *big.Int) sdkvesting.Period {
			return sdkvesting.Period{Length: l, Amount: sdk.NewCoins(coinOf(utils.BaseDenom, v))}
		}
		var start time.Time
		var lock, vestp sdkvesting.Periods
		switch op.Kind % 3 {
		case 0: // vesting in progress, everything still locked
			start = c.Hdr.Time.Add(-100 * time.Second)
			vestp = sdkvesting.Periods{p(50, q), p(60, q), p(100000, q), p(100000, q4)}
			lock = sdkvesting.Periods{p(300000, amt)}
		case 1: // fully vested, lockup in progress (can be liquidated)
			start = c.Hdr.Time.Add(-1000 * time.Second)
			vestp = sdkvesting.Periods{p(1, amt)}
			lock = sdkvesting.Periods{p(500, half), p(500000, q), p(500000, new(big.Int).Sub(rest, q))}
		default: // lockup partly released, vesting instant
			start = c.Hdr.Time.Add(-10 * time.Second)
			vestp = sdkvesting.Periods{p(1, amt)}
			lock = sdkvesting.Periods{p(5, half), p(1000000, rest)}
		}
		msg := vestingtypes.NewMsgCreateClawbackVestingAccount(chainAcct(a).Acc, to, start, lock, vestp, false)
		bz, err := c.CosmosTx(ctx, a, 800_000, msg)
		if err := h.deliver(bz, err); err != nil {
			return err
		}
		h.vest = append(h.vest, to)
		h.vestKey = append(h.vestKey, key)
		return nil
	case "liquidate":
		if len(h.vest) == 0 {
			return fmt.Errorf("no vesting account")
		}
		from := h.vest[op.B%len(h.vest)]
		to := chainAcct(a).Acc
		if op.Kind == 1 {
			to = from
		}
		msg := liquidvestingtypes.NewMsgLiquidate(from, to, coinOf(utils.BaseDenom, amtOf(op.Amt, islm(1000))))
		n0 := c.App.LiquidVestingKeeper.GetDenomCounter(ctx)
		if err := c.RunMsg(msg); err != nil {
			return err
		}
		h.liquid = append(h.liquid, liquidvestingtypes.DenomBaseNameFromID(n0))
		return nil
	case "redeem":
		if len(h.liquid) == 0 {
			return fmt.Errorf("no liquid denom")
		}
		d := h.liquid[int(op.K)%len(h.liquid)]
		from := chainAcct(a).Acc
		to := chainAcct(b).Acc
		if op.Kind == 1 && len(h.vest) > 0 {
			to = h.vest[op.B%len(h.vest)]
		}
		if op.Kind == 2 {
			// redeem the WHOLE supply of the most recently created liquid denom (its only holder is
			// the account it was liquidated to): the denom record is deleted, the counter is not
			d = h.liquid[len(h.liquid)-1]
			sup := c.App.BankKeeper.GetSupply(ctx, d).Amount
			if !sup.IsPositive() {
				return fmt.Errorf("nothing to redeem")
			}
			return c.RunMsg(liquidvestingtypes.NewMsgRedeem(from, to, sdk.NewCoin(d, sup)))
		}
		return c.RunMsg(liquidvestingtypes.NewMsgRedeem(from, to, coinOf(d, amtOf(op.Amt, islm(100)))))
	case "daofund":
		denom := utils.BaseDenom
		if op.Kind == 1 && len(h.liquid) > 0 {
			denom = h.liquid[int(op.K)%len(h.liquid)]
			// liquid tokens sit on the erc20 side after liquidation: bring some back
			pairID := c.App.Erc20Keeper.GetTokenPairID(ctx, denom)
			if pair, ok := c.App.Erc20Keeper.GetTokenPair(ctx, pairID); ok {
				_ = c.RunMsg(erc20types.NewMsgConvertERC20(sdkmath.NewIntFromBigInt(amtOf(op.Amt, islm(10))), chainAcct(a).Acc, pair.GetERC20Contract(), chainAcct(a).Eth))
			}
		}
		msg := ucdaotypes.NewMsgFund(sdk.NewCoins(coinOf(denom, amtOf(op.Amt, islm(10)))), chainAcct(a).Acc)
		bz, err := c.CosmosTx(ctx, a, 500_000, msg)
		return h.deliver(bz, err)
	case "daotransfer":
		to := chainAcct(b).Acc
		if op.Kind == 1 {
			to = plainAddr("dao", op.B)
		}
		var msg sdk.Msg = ucdaotypes.NewMsgTransferOwnership(chainAcct(a).Acc, to)
		if op.Amt != "" {
			msg = ucdaotypes.NewMsgTransferOwnershipWithAmount(chainAcct(a).Acc, to, sdk.NewCoins(coinOf(utils.BaseDenom, amtOf(op.Amt, nil))))
		}
		bz, err := c.CosmosTx(ctx, a, 500_000, msg)
		return h.deliver(bz, err)
	case "regcoin":
		denom := fmt.Sprintf("utoken%d", len(h.coins))
		err := c.Direct(func(ctx sdk.Context) error {
			coins := sdk.NewCoins(coinOf(denom, amtOf(op.Amt, big.NewInt(1_000_000))))
			if err := c.App.BankKeeper.MintCoins(ctx, coinomicstypes.ModuleName, coins); err != nil {
				return err
			}
			if err := c.App.BankKeeper.SendCoinsFromModuleToAccount(ctx, coinomicstypes.ModuleName, chainAcct(a).Acc, coins); err != nil {
				return err
			}
			md := banktypes.Metadata{
				Description: "test coin", Base: denom, Display: denom[1:], Name: denom, Symbol: strings.ToUpper(denom[1:]),
				DenomUnits: []*banktypes.DenomUnit{{Denom: denom, Exponent: 0}, {Denom: denom[1:], Exponent: 6}},
			}
			_, err := c.App.Erc20Keeper.RegisterCoin(ctx, md)
			return err
		})
		if err == nil {
			h.coins = append(h.coins, denom)
		}
		return err
	case "manycoins":
		// more registered token pairs than one page of the SDK's paginated iteration (100)
		n := int(op.K)
		return c.Direct(func(ctx sdk.Context) error {
			for i := 0; i < n; i++ {
				denom := fmt.Sprintf("ubulk%d", len(h.coins)+i)
				coins := sdk.NewCoins(coinOf(denom, big.NewInt(1000)))
				if err := c.App.BankKeeper.MintCoins(ctx, coinomicstypes.ModuleName, coins); err != nil {
					return err
				}
				if err := c.App.BankKeeper.SendCoinsFromModuleToAccount(ctx, coinomicstypes.ModuleName, chainAcct(a).Acc, coins); err != nil {
					return err
				}
				md := banktypes.Metadata{
					Description: "bulk coin", Base: denom, Display: denom[1:], Name: denom, Symbol: strings.ToUpper(denom[1:]),
					DenomUnits: []*banktypes.DenomUnit{{Denom: denom, Exponent: 0}, {Denom: denom[1:], Exponent: 6}},
				}
				if _, err := c.App.Erc20Keeper.RegisterCoin(ctx, md); err != nil {
					return err
				}
			}
			return nil
		})
	case "convert":
		if len(h.coins) == 0 {
			return fmt.Errorf("no registered coin")
		}
		d := h.coins[int(op.K)%len(h.coins)]
		msg := erc20types.NewMsgConvertCoin(coinOf(d, amtOf(op.Amt, big.NewInt(1000))), chainAcct(b).Eth, chainAcct(a).Acc)
		bz, err := c.CosmosTx(ctx, a, 2_000_000, msg)
		return h.deliver(bz, err)
	case "toggle":
		all := append(append([]string{}, h.coins...), h.liquid...)
		if len(all) == 0 {
			return fmt.Errorf("no pair")
		}
		d := all[int(op.K)%len(all)]
		return c.Direct(func(ctx sdk.Context) error {
			_, err := c.App.Erc20Keeper.ToggleConversion(ctx, d)
			return err
		})
	case "stakingpc":
		// EOA -> staking precompile: delegate(address,string,uint256)
		pcAddr := common.HexToAddress("0x0000000000000000000000000000000000000800")
		var data []byte
		err := func() (err error) {
			defer func() {
				if r := recover(); r != nil {
					err = fmt.Errorf("panic: %v", r)
				}
			}()
			pc := c.App.EvmKeeper.Precompiles(pcAddr)[pcAddr].(*stakingprecompile.Precompile)
			vals := c.App.StakingKeeper.GetAllValidators(ctx)
			data, err = pc.ABI.Pack("delegate", chainAcct(a).Eth, vals[0].OperatorAddress, amtOf(op.Amt, islm(3)))
			return err
		}()
		if err != nil {
			return err
		}
		bz, _, err := c.EthTx(ctx, a, &pcAddr, big.NewInt(0), data, 600_000, 0)
		if err != nil {
			return err
		}
		res := c.Deliver(bz)
		h.gasUsed += res.GasUsed
		if res.Code != 0 || ethFailed(res) {
			return fmt.Errorf("precompile call failed: code %d %s", res.Code, trunc(res.Log, 200))
		}
		return nil
	case "upgrade":
		// schedule a software upgrade whose (no-op) handler every instance registers
		name := fmt.Sprintf("hvnoop%d", op.K%hvUpgradeNames)
		return c.Direct(func(ctx sdk.Context) error {
			// due at the very next block: a plan that is pending while its handler is registered makes the
			// upgrade module panic ("BINARY UPDATED BEFORE TRIGGER"), on every node alike
			return c.App.UpgradeKeeper.ScheduleUpgrade(ctx, upgradetypes.Plan{Name: name, Height: ctx.BlockHeight() + 1})
		})
	case "evmparams":
		return c.Direct(func(ctx sdk.Context) error {
			p := c.App.EvmKeeper.GetParams(ctx)
			switch op.K % 5 {
			case 0:
				p.AllowUnprotectedTxs = !p.AllowUnprotectedTxs
			case 1:
				if len(p.ExtraEIPs) == 0 {
					p.ExtraEIPs = []int64{2200}
				} else {
					p.ExtraEIPs = nil
				}
			case 2:
				if len(p.ActivePrecompiles) > 2 {
					p.ActivePrecompiles = p.ActivePrecompiles[:len(p.ActivePrecompiles)-1]
				} else {
					p.ActivePrecompiles = evmtypes.AvailableEVMExtensions
				}
			case 3:
				if len(p.EVMChannels) == 0 {
					p.EVMChannels = []string{"channel-7"}
				} else {
					p.EVMChannels = nil
				}
			case 4:
				p.EnableCall = true
				p.EnableCreate = true
			}
			return c.App.EvmKeeper.SetParams(ctx, p)
		})
	case "fmparams":
		return c.Direct(func(ctx sdk.Context) error {
			p := c.App.FeeMarketKeeper.GetParams(ctx)
			switch op.K % 4 {
			case 0:
				p.BaseFeeChangeDenominator = 4 + uint32(op.V%20)
			case 1:
				p.ElasticityMultiplier = 1 + uint32(op.V%4)
			case 2:
				p.MinGasPrice = sdkmath.LegacyNewDecWithPrec(int64(1+op.V%1000), 3)
			case 3:
				p.MinGasMultiplier = sdkmath.LegacyNewDecWithPrec(int64(op.V%100), 2)
			}
			if err := p.Validate(); err != nil {
				return err
			}
			return c.App.FeeMarketKeeper.SetParams(ctx, p)
		})
	case "coinparams":
		return c.Direct(func(ctx sdk.Context) error {
			p := c.App.CoinomicsKeeper.GetParams(ctx)
			switch op.K % 3 {
			case 0:
				p.EnableCoinomics = !p.EnableCoinomics
			case 1:
				p.RewardCoefficient = sdkmath.LegacyNewDecWithPrec(int64(1+op.V%2000), 2)
			case 2:
				p.EnableCoinomics = true
			}
			if err := p.Validate(); err != nil {
				return err
			}
			c.App.CoinomicsKeeper.SetParams(ctx, p)
			return nil
		})
	case "lvparams":
		return c.Direct(func(ctx sdk.Context) error {
			p := c.App.LiquidVestingKeeper.GetParams(ctx)
			if op.K%2 == 0 {
				p.MinimumLiquidationAmount = sdkmath.NewIntFromBigInt(islm(int64(1 + op.V%2000)))
			} else {
				p.EnableLiquidVesting = !p.EnableLiquidVesting
			}
			return c.App.LiquidVestingKeeper.SetParams(ctx, p)
		})
	case "daoparams":
		return c.Direct(func(ctx sdk.Context) error {
			bk, ok := c.App.DaoKeeper.(ucdaokeeper.BaseKeeper)
			if !ok {
				return fmt.Errorf("DaoKeeper is not a BaseKeeper")
			}
			p := bk.GetParams(ctx)
			p.EnableDao = !p.EnableDao
			return bk.SetParams(ctx, p)
		})
	case "erc20params":
		return c.Direct(func(ctx sdk.Context) error {
			p := c.App.Erc20Keeper.GetParams(ctx)
			if op.K%2 == 0 {
				p.EnableEVMHook = !p.EnableEVMHook
			} else {
				p.EnableErc20 = !p.EnableErc20
			}
			return c.App.Erc20Keeper.SetParams(ctx, p)
		})
	}
	return fmt.Errorf("unknown op %q", op.Op)
}

// runHistory executes the blocks of in on c.
func runHistory(c *Chain, in hInput) *hist {
	h := &hist{c: c, slots: map[common.Address]map[uint64]bool{}}
	for _, b := range in.Blocks {
		dt := b.Dt
		if dt <= 0 {
			dt = 1
		}
		c.Begin(time.Duration(dt) * time.Second)
		for _, op := range b.Ops {
			err := h.apply(op)
			if err != nil {
				h.log = append(h.log, op.Op+":err")
				h.errs = append(h.errs, op.Op+": "+trunc(err.Error(), 160))
			} else {
				h.log = append(h.log, op.Op+":ok")
			}
		}
		c.End()
	}
	return h
}

// ---------------------------------------------------------------- round trip
// The Haqq modules whose genesis section must round-trip verbatim.
var haqqModules = []string{
	evmtypes.ModuleName, feemarkettypes.ModuleName, erc20types.ModuleName, vestingtypes.ModuleName,
	liquidvestingtypes.ModuleName, ucdaotypes.ModuleName, coinomicstypes.ModuleName, epochstypes.ModuleName,
}

func exportState(a *app.Haqq) (map[string]json.RawMessage, int64, *abci.RequestInitChain, error) {
	exp, err := a.ExportAppStateAndValidators(false, nil, nil)
	if err != nil {
		return nil, 0, nil, err
	}
	var gs map[string]json.RawMessage
	if err := json.Unmarshal(exp.AppState, &gs); err != nil {
		return nil, 0, nil, err
	}
	req := &abci.RequestInitChain{
		ChainId: chainID, InitialHeight: exp.Height, ConsensusParams: exp.ConsensusParams,
		Validators: []abci.ValidatorUpdate{}, AppStateBytes: exp.AppState,
	}
	return gs, exp.Height, req, nil
}

// reimport: fresh application on a fresh MemDB, InitChain with the exported
// document at the exported height and the exporting chain's last block time, Commit.
func reimport(req *abci.RequestInitChain, t time.Time) (a *app.Haqq, err error) {
	defer func() {
		if r := recover(); r != nil {
			err = fmt.Errorf("InitChain panicked: %v", r)
		}
	}()
	a = openApp(dbm.NewMemDB())
	r := *req
	r.Time = t
	a.InitChain(r)
	a.Commit()
	return a, nil
}

// authSubset extracts from the auth section the accounts that are Haqq vesting accounts.
func authVesting(cdc codec.Codec, raw json.RawMessage) (string, int, error) {
	var gs authtypes.GenesisState
	if err := cdc.UnmarshalJSON(raw, &gs); err != nil {
		return "", 0, err
	}
	out := []string{}
	for _, any := range gs.Accounts {
		if strings.Contains(any.TypeUrl, "ClawbackVestingAccount") {
			bz, err := cdc.MarshalJSON(any)
			if err != nil {
				return "", 0, err
			}
			s, _ := canonJSON(bz)
			out = append(out, s)
		}
	}
	sort.Strings(out)
	return "[" + strings.Join(out, ",") + "]", len(out), nil
}

// epochsSplit returns the epochs section with CurrentEpochStartHeight blanked,
// and the list of those heights (the K8 field).
func epochsSplit(cdc codec.Codec, raw json.RawMessage) (string, []int64, error) {
	var gs epochstypes.GenesisState
	if err := cdc.UnmarshalJSON(raw, &gs); err != nil {
		return "", nil, err
	}
	hs := []int64{}
	for i := range gs.Epochs {
		hs = append(hs, gs.Epochs[i].CurrentEpochStartHeight)
		gs.Epochs[i].CurrentEpochStartHeight = 0
	}
	bz, err := cdc.MarshalJSON(&gs)
	if err != nil {
		return "", nil, err
	}
	s, err := canonJSON(bz)
	return s, hs, err
}

// ---------------------------------------------------------------- queries
type qReq struct {
	Name string
	Path string
	Req  proto.Message
}

func hexAddrs(h *hist) []common.Address {
	out := []common.Address{}
	for i := 0; i < chainNAccts; i++ {
		out = append(out, chainAcct(i).Eth)
	}
	out = append(out, h.contracts...)
	out = append(out, h.small...)
	out = append(out, h.factories...)
	out = append(out, h.planned...)
	for _, v := range h.vest {
		out = append(out, common.BytesToAddress(v))
	}
	return out
}

// querySet is the fixed query set per Haqq module, instantiated with the
// addresses / denominations / slots the history touched (and some it did not).
func querySet(ctx sdk.Context, a *app.Haqq, h *hist) []qReq {
	qs := []qReq{}
	add := func(name, path string, req proto.Message) { qs = append(qs, qReq{name, path, req}) }
	page := &query.PageRequest{Limit: 1000, CountTotal: true}
	// evm
	add("evm/params", "/ethermint.evm.v1.Query/Params", &evmtypes.QueryParamsRequest{})
	add("evm/base_fee", "/ethermint.evm.v1.Query/BaseFee", &evmtypes.QueryBaseFeeRequest{})
	pairs := a.Erc20Keeper.GetTokenPairs(ctx)
	addrs := hexAddrs(h)
	for _, p := range pairs {
		addrs = append(addrs, p.GetERC20Contract())
	}
	addrs = append(addrs, common.HexToAddress("0x00000000000000000000000000000000DeaDBeef"))
	for _, ad := range addrs {
		add("evm/account/"+ad.Hex(), "/ethermint.evm.v1.Query/Account", &evmtypes.QueryAccountRequest{Address: ad.Hex()})
		add("evm/code/"+ad.Hex(), "/ethermint.evm.v1.Query/Code", &evmtypes.QueryCodeRequest{Address: ad.Hex()})
		add("evm/balance/"+ad.Hex(), "/ethermint.evm.v1.Query/Balance", &evmtypes.QueryBalanceRequest{Address: ad.Hex()})
		add("evm/cosmos_account/"+ad.Hex(), "/ethermint.evm.v1.Query/CosmosAccount", &evmtypes.QueryCosmosAccountRequest{Address: ad.Hex()})
	}
	for _, ct := range h.contracts {
		ks := []uint64{0, 1, 0xC0DE0000}
		for k := range h.slots[ct] {
			ks = append(ks, k)
		}
		sort.Slice(ks, func(i, j int) bool { return ks[i] < ks[j] })
		for _, k := range ks {
			add(fmt.Sprintf("evm/storage/%s/%d", ct.Hex(), k), "/ethermint.evm.v1.Query/Storage",
				&evmtypes.QueryStorageRequest{Address: ct.Hex(), Key: common.BigToHash(new(big.Int).SetUint64(k)).Hex()})
		}
	}
	for _, p := range pairs {
		for k := uint64(0); k < 8; k++ {
			add(fmt.Sprintf("evm/storage/%s/%d", p.Erc20Address, k), "/ethermint.evm.v1.Query/Storage",
				&evmtypes.QueryStorageRequest{Address: p.Erc20Address, Key: common.BigToHash(new(big.Int).SetUint64(k)).Hex()})
		}
	}
	// feemarket
	add("feemarket/params", "/ethermint.feemarket.v1.Query/Params", &feemarkettypes.QueryParamsRequest{})
	add("feemarket/base_fee", "/ethermint.feemarket.v1.Query/BaseFee", &feemarkettypes.QueryBaseFeeRequest{})
	add("feemarket/block_gas", "/ethermint.feemarket.v1.Query/BlockGas", &feemarkettypes.QueryBlockGasRequest{})
	// erc20
	add("erc20/params", "/evmos.erc20.v1.Query/Params", &erc20types.QueryParamsRequest{})
	add("erc20/token_pairs", "/evmos.erc20.v1.Query/TokenPairs", &erc20types.QueryTokenPairsRequest{Pagination: page})
	for _, p := range pairs {
		add("erc20/token_pair/"+p.Denom, "/evmos.erc20.v1.Query/TokenPair", &erc20types.QueryTokenPairRequest{Token: p.Denom})
		add("erc20/token_pair/"+p.Erc20Address, "/evmos.erc20.v1.Query/TokenPair", &erc20types.QueryTokenPairRequest{Token: p.Erc20Address})
	}
	add("erc20/token_pair/unknown", "/evmos.erc20.v1.Query/TokenPair", &erc20types.QueryTokenPairRequest{Token: "unobtainium"})
	// vesting
	for _, v := range append(append([]sdk.AccAddress{}, h.vest...), chainAcct(0).Acc, chainAcct(1).Acc) {
		add("vesting/balances/"+v.String(), "/haqq.vesting.v1.Query/Balances", &vestingtypes.QueryBalancesRequest{Address: v.String()})
		add("auth/account/"+v.String(), "/cosmos.auth.v1beta1.Query/Account", &authtypes.QueryAccountRequest{Address: v.String()})
	}
	// liquidvesting
	add("liquidvesting/denoms", "/haqq.liquidvesting.v1.Query/Denoms", &liquidvestingtypes.QueryDenomsRequest{Pagination: page})
	for _, d := range append(append([]string{}, h.liquid...), "aLIQUID999") {
		add("liquidvesting/denom/"+d, "/haqq.liquidvesting.v1.Query/Denom", &liquidvestingtypes.QueryDenomRequest{Denom: d})
	}
	// ucdao
	add("ucdao/params", "/haqq.ucdao.v1.Query/Params", &ucdaotypes.QueryParamsRequest{})
	add("ucdao/total_balance", "/haqq.ucdao.v1.Query/TotalBalance", &ucdaotypes.QueryTotalBalanceRequest{Pagination: page})
	add("ucdao/holders", "/haqq.ucdao.v1.Query/Holders", &ucdaotypes.QueryHoldersRequest{Pagination: page})
	daoAddrs := []sdk.AccAddress{}
	for i := 0; i < chainNAccts; i++ {
		daoAddrs = append(daoAddrs, chainAcct(i).Acc)
	}
	for i := 0; i < 4; i++ {
		daoAddrs = append(daoAddrs, plainAddr("dao", i))
	}
	for _, ad := range daoAddrs {
		add("ucdao/all_balances/"+ad.String(), "/haqq.ucdao.v1.Query/AllBalances", &ucdaotypes.QueryAllBalancesRequest{Address: ad.String(), Pagination: page})
		for _, d := range append([]string{utils.BaseDenom}, h.liquid...) {
			add("ucdao/balance/"+ad.String()+"/"+d, "/haqq.ucdao.v1.Query/Balance", &ucdaotypes.QueryBalanceRequest{Address: ad.String(), Denom: d})
		}
	}
	// coinomics
	add("coinomics/params", "/haqq.coinomics.v1.Query/Params", &coinomicstypes.QueryParamsRequest{})
	add("coinomics/max_supply", "/haqq.coinomics.v1.Query/MaxSupply", &coinomicstypes.QueryMaxSupplyRequest{})
	add("coinomics/reward_coefficient", "/haqq.coinomics.v1.Query/RewardCoefficient", &coinomicstypes.QueryRewardCoefficientRequest{})
	// epochs
	add("epochs/epoch_infos", "/evmos.epochs.v1.Query/EpochInfos", &epochstypes.QueryEpochsInfoRequest{Pagination: page})
	for _, id := range []string{epochstypes.DayEpochID, epochstypes.WeekEpochID, "fortnight"} {
		add("epochs/current_epoch/"+id, "/evmos.epochs.v1.Query/CurrentEpoch", &epochstypes.QueryCurrentEpochRequest{Identifier: id})
	}
	// bank (balances / supply back the Haqq modules' escrow accounts)
	add("bank/total_supply", "/cosmos.bank.v1beta1.Query/TotalSupply", &banktypes.QueryTotalSupplyRequest{Pagination: page})
	add("bank/denoms_metadata", "/cosmos.bank.v1beta1.Query/DenomsMetadata", &banktypes.QueryDenomsMetadataRequest{Pagination: page})
	bankAddrs := append([]sdk.AccAddress{}, daoAddrs...)
	bankAddrs = append(bankAddrs, h.vest...)
	for _, m := range []string{ucdaotypes.ModuleName, liquidvestingtypes.ModuleName, erc20types.ModuleName, evmtypes.ModuleName, coinomicstypes.ModuleName, authtypes.FeeCollectorName} {
		bankAddrs = append(bankAddrs, authtypes.NewModuleAddress(m))
	}
	for _, ad := range bankAddrs {
		add("bank/all_balances/"+ad.String(), "/cosmos.bank.v1beta1.Query/AllBalances", &banktypes.QueryAllBalancesRequest{Address: ad.String(), Pagination: page})
	}
	return qs
}

// runQuery calls the registered gRPC handler directly with ctx.
func runQuery(a *app.Haqq, ctx sdk.Context, q qReq) (out string) {
	defer func() {
		if r := recover(); r != nil {
			out = fmt.Sprintf("panic: %v", r)
		}
	}()
	bz, err := proto.Marshal(q.Req)
	if err != nil {
		return "marshal: " + err.Error()
	}
	return runQueryRaw(a, ctx, q.Path, bz)
}

// runQueryRaw: the same with the request already encoded.
func runQueryRaw(a *app.Haqq, ctx sdk.Context, path string, bz []byte) (out string) {
	defer func() {
		if r := recover(); r != nil {
			out = fmt.Sprintf("panic: %v", r)
		}
	}()
	h := a.GRPCQueryRouter().Route(path)
	if h == nil {
		return "no-route"
	}
	cctx, _ := ctx.CacheContext()
	res, err := h(cctx, abci.RequestQuery{Data: bz, Path: path})
	if err != nil {
		return "err: " + trunc(err.Error(), 200)
	}
	if path == "/evmos.epochs.v1.Query/EpochInfos" {
		// the K8 field is reported separately
		var r epochstypes.QueryEpochsInfoResponse
		if err := proto.Unmarshal(res.Value, &r); err == nil {
			for i := range r.Epochs {
				r.Epochs[i].CurrentEpochStartHeight = 0
			}
			if b2, err := proto.Marshal(&r); err == nil {
				return hex.EncodeToString(b2)
			}
		}
	}
	return hex.EncodeToString(res.Value)
}

// ---------------------------------------------------------------- the case
type genObs struct {
	Height      int64             `json:"exported_height"`
	Ops         []string          `json:"ops"`
	Errs        []string          `json:"errs,omitempty"`
	ModuleDiff  map[string]string `json:"module_diff,omitempty"` // module -> first differing paths
	QueryDiff   []string          `json:"query_diff,omitempty"`
	NonHaqqDiff []string          `json:"non_haqq_modules_differing,omitempty"`
	NQueries    int               `json:"n_queries"`
	Sizes       map[string]int    `json:"sizes"`
	EpochH1     []int64           `json:"epoch_start_heights_exported"`
	EpochH2     []int64           `json:"epoch_start_heights_reexported"`
}

func genesisRunCase(id string, in hInput) []Case {
	c := newChain(dbm.NewMemDB(), genesisBaseAccounts(in.BaseAt))
	h := runHistory(c, in)
	obs := genObs{Ops: h.log, Errs: h.errs, ModuleDiff: map[string]string{}, Sizes: map[string]int{}}
	kb, _ := json.Marshal(in)
	mk := func(suffix string) Case {
		return Case{ID: id + suffix, Kind: "history", Input: in, Key: string(kb) + suffix, OracleOK: true}
	}
	main := mk("")
	fail := func(msg string) []Case {
		main.OracleOK, main.OracleMsg, main.Obs = false, msg, obs
		return []Case{main}
	}
	cdc := c.App.AppCodec()
	gs1, height, req, err := exportState(c.App)
	if err != nil {
		return fail("first export failed: " + err.Error())
	}
	obs.Height = height
	a2, err := reimport(req, c.Time)
	if err != nil {
		return fail("the exported state cannot be imported: " + err.Error())
	}
	gs2, _, _, err := exportState(a2)
	if err != nil {
		return fail("second export failed: " + err.Error())
	}
	msgs := []string{}
	if genesisDump {
		for _, m := range haqqModules {
			s1, _ := canonJSON(gs1[m])
			fmt.Fprintf(os.Stderr, "== %s\n%s\n", m, s1)
		}
	}
	// per module documents
	mods := map[string]bool{}
	for m := range gs1 {
		mods[m] = true
	}
	for m := range gs2 {
		mods[m] = true
	}
	isHaqq := map[string]bool{}
	for _, m := range haqqModules {
		isHaqq[m] = true
	}
	var eh1, eh2 []int64
	for m := range mods {
		s1, _ := canonJSON(gs1[m])
		s2, _ := canonJSON(gs2[m])
		switch {
		case m == epochstypes.ModuleName:
			s1, eh1, _ = epochsSplit(cdc, gs1[m])
			s2, eh2, _ = epochsSplit(cdc, gs2[m])
		case m == authtypes.ModuleName:
			var n int
			s1, n, _ = authVesting(cdc, gs1[m])
			s2, _, _ = authVesting(cdc, gs2[m])
			obs.Sizes["vesting_accounts"] = n
		case m == banktypes.ModuleName:
			// balances, supply, metadata (sorted by the export itself)
		case !isHaqq[m]:
			if s1 != s2 {
				obs.NonHaqqDiff = append(obs.NonHaqqDiff, m)
			}
			continue
		}
		if s1 != s2 {
			d := jsonPathsDiff(s1, s2, 6)
			obs.ModuleDiff[m] = strings.Join(d, " | ")
			msgs = append(msgs, fmt.Sprintf("module %s: second export differs from the first at %s", m, strings.Join(d, " | ")))
		}
	}
	sort.Strings(obs.NonHaqqDiff)
	sort.Strings(msgs)
	obs.EpochH1, obs.EpochH2 = eh1, eh2
	// queries
	hdr := c.header(c.Height, c.Time)
	ctx1 := c.App.BaseApp.NewContext(true, hdr).WithGasMeter(sdk.NewInfiniteGasMeter())
	ctx2 := a2.BaseApp.NewContext(true, hdr).WithGasMeter(sdk.NewInfiniteGasMeter())
	c.App.EvmKeeper.WithChainID(ctx1)
	a2.EvmKeeper.WithChainID(ctx2)
	// EVM state per holder: every address with a code hash or storage on either chain (found through the
	// auth accounts' concrete types and the raw storage prefix of the EVM store, not through the export)
	holders1, holders2 := evmHolders(c.App, ctx1), evmHolders(a2, ctx2)
	var evmGS evmtypes.GenesisState
	if err := cdc.UnmarshalJSON(gs1[evmtypes.ModuleName], &evmGS); err != nil {
		msgs = append(msgs, "the exported evm section cannot be decoded: "+err.Error())
	} else {
		dm := evmDocCheck(&evmGS, holders1)
		if len(dm) > 0 {
			obs.ModuleDiff["evm(document vs chain)"] = strings.Join(dm, " | ")
		}
		if len(dm) > 4 {
			dm = append(dm[:4], fmt.Sprintf("(and %d more)", len(dm)-4))
		}
		msgs = append(msgs, dm...)
	}
	qs := []qReq{}
	qseen := map[string]bool{}
	for _, q := range append(holderQueries(c, holders1, holders2), querySet(ctx1, c.App, h)...) {
		if !qseen[q.Name] {
			qseen[q.Name] = true
			qs = append(qs, q)
		}
	}
	obs.NQueries = len(qs)
	for _, q := range qs {
		r1 := runQuery(c.App, ctx1, q)
		r2 := runQuery(a2, ctx2, q)
		if r1 != r2 {
			obs.QueryDiff = append(obs.QueryDiff, q.Name)
			if len(obs.QueryDiff) <= 6 {
				who := ""
				if strings.HasPrefix(q.Name, "evm/") {
					parts := strings.Split(q.Name, "/")
					if len(parts) >= 3 {
						if hd, ok := holders1[common.HexToAddress(parts[2])]; ok {
							who = " [" + hd.describe() + " on the exporting chain]"
						}
					}
				}
				msgs = append(msgs, fmt.Sprintf("query %s answers differently after re-import (%s vs %s)%s", q.Name, showAnswer(q, r1), showAnswer(q, r2), who))
			}
		}
	}
	// sizes (distribution / non-triviality)
	nCode, nStor := 0, 0
	for _, acc := range evmGS.Accounts {
		if acc.Code != "" {
			nCode++
		}
		nStor += len(acc.Storage)
	}
	obs.Sizes["evm_accounts"], obs.Sizes["evm_with_code"], obs.Sizes["evm_storage"] = len(evmGS.Accounts), nCode, nStor
	for _, hd := range holders1 {
		obs.Sizes["evm_state_on_"+hd.Kind+"_account"]++
		if len(hd.Code) > 0 && len(hd.Slots) == 0 {
			obs.Sizes["evm_code_without_storage"]++
		}
		if len(hd.Code) > 0 && len(hd.Slots) > 0 && hd.Kind == "clawback" {
			obs.Sizes["evm_code_and_storage_on_clawback_account"]++
		}
		if len(hd.Code) == 0 && len(hd.Slots) > 0 {
			// not an externally owned account although its code is empty: a creation whose constructor stored
			// and returned no code
			obs.Sizes["evm_storage_without_code"]++
			obs.Sizes["evm_storage_without_code_on_"+hd.Kind+"_account"]++
		}
		if len(hd.Code) == 1 {
			obs.Sizes["evm_one_byte_code"]++
		}
		for _, v := range hd.Slots {
			if v == (common.Hash{}) {
				obs.Sizes["evm_zero_valued_slots"]++
			}
		}
	}
	obs.Sizes["token_pairs"] = len(c.App.Erc20Keeper.GetTokenPairs(ctx1))
	obs.Sizes["liquid_denoms"] = len(c.App.LiquidVestingKeeper.GetAllDenoms(ctx1))
	obs.Sizes["dao_holders"] = len(c.App.DaoKeeper.GetAccountsBalances(ctx1))
	obs.Sizes["blocks"] = len(in.Blocks)

	// the Coq evaluation of a state with 100+ token pairs takes close to a minute: generated bulk
	// histories are checked by the oracle only; the corpus witness of that size is also model-evaluated
	bulk := false
	for _, b := range in.Blocks {
		for _, o := range b.Ops {
			bulk = bulk || o.Op == "manycoins"
		}
	}
	if bulk && !strings.HasPrefix(id, "replay") {
		main.Tags = append(main.Tags, "bulk:oracle-only")
	} else if coq, err := genesisCoq(c.App, ctx1, gs1, gs2, height, c.Time); err == nil {
		main.Coq, main.CoqList = coq, "cases"
	} else {
		obs.Errs = append(obs.Errs, "coq rendering: "+err.Error())
	}
	main.Obs = obs
	main.OracleOK = len(msgs) == 0
	main.OracleMsg = strings.Join(msgs, "; ")
	nOK := 0
	tags := map[string]bool{}
	for _, l := range h.log {
		tags[l] = true
		if strings.HasSuffix(l, ":ok") {
			nOK++
		}
	}
	for _, m := range obs.NonHaqqDiff {
		tags["non-haqq-module-differs:"+m] = true
	}
	for k, v := range obs.Sizes {
		if v > 0 && k != "blocks" {
			tags["has:"+k] = true
		}
	}
	for t := range tags {
		main.Tags = append(main.Tags, t)
	}
	sort.Strings(main.Tags)
	main.Nontrivial = nOK >= 3 && len(in.Blocks) >= 2

	// K8: the single field CurrentEpochStartHeight, under its own class
	k8 := mk("#epoch-start-height")
	k8.Kind = "history/epochs.current_epoch_start_height"
	k8.Class = classK8
	k8.Obs = map[string]interface{}{"exported": eh1, "reexported": eh2, "init_height": height}
	k8.Nontrivial = len(eh1) > 0
	if fmt.Sprint(eh1) != fmt.Sprint(eh2) {
		k8.OracleOK = false
		k8.OracleMsg = fmt.Sprintf("epochs: current_epoch_start_height exported as %v, re-exported as %v (InitGenesis overwrites it with the init height %d)", eh1, eh2, height)
	}
	k8.Tags = []string{"k8-field"}
	return []Case{main, k8}
}

// ---------------------------------------------------------------- generator
func genHistory(r *Rng, nBlocks, opsPerBlock int) hInput {
	in := hInput{}
	big1 := func(lo, hi int64) string { return islm(lo + int64(r.Intn(int(hi-lo+1)))).String() }
	nVest, nLiquid, nContracts, nCoins := 0, 0, 0, 0
	bulkDone := false
	funded, liquidHolder, coinOwner := []int{}, []int{}, []int{}
	for b := 0; b < nBlocks; b++ {
		blk := hBlock{Dt: 1 + int64(r.Intn(20))}
		switch r.Intn(8) {
		case 0:
			blk.Dt = 86400 + int64(r.Intn(5000)) // a day passes: the day epoch ends
		case 1:
			blk.Dt = 3600
		}
		n := 1 + r.Intn(opsPerBlock)
		if b == nBlocks-1 && r.Chance(30) {
			n = 0 // an empty last block
		}
		for i := 0; i < n; i++ {
			a, bb := r.Intn(chainNAccts), r.Intn(chainNAccts)
			k := r.Intn(100)
			var op hOp
			switch {
			case k < 8:
				op = hOp{Op: "deploy", A: a}
				nContracts++
			case k < 22:
				if nContracts == 0 {
					op = hOp{Op: "deploy", A: a}
					nContracts++
				} else {
					v := uint64(r.Intn(4)) // 0 clears the slot
					if v > 0 {
						v = r.U64()
					}
					op = hOp{Op: "sstore", A: a, B: r.Intn(nContracts), K: uint64(r.Intn(6)), V: v, Kind: r.Intn(3)}
					if r.Chance(20) {
						op.Amt = fmt.Sprint(1 + r.Intn(1000))
					}
				}
			case k < 27:
				op = hOp{Op: "ethsend", A: a, B: bb, Amt: r.Big(70).String(), Kind: r.Intn(2)}
			case k < 32:
				op = hOp{Op: "banksend", A: a, B: bb, Amt: r.Big(70).String(), Kind: r.Intn(2)}
			case k < 36:
				op = hOp{Op: "delegate", A: a, Amt: big1(1, 1000000)}
			case k < 48:
				op = hOp{Op: "vest", A: a, Kind: r.Intn(3), Amt: big1(2000, 9000)}
				if nVest == 0 || r.Chance(40) {
					op.Kind = 1
				}
				nVest++
			case k < 58:
				if nVest == 0 {
					op = hOp{Op: "vest", A: a, Kind: 1, Amt: big1(2000, 9000)}
					nVest++
				} else if nLiquid > 0 && r.Chance(35) {
					d := r.Intn(nLiquid)
					op = hOp{Op: "redeem", A: liquidHolder[d], B: bb, K: uint64(d), Amt: big1(1, 300), Kind: r.Intn(2)}
					if r.Chance(35) {
						op = hOp{Op: "redeem", A: liquidHolder[nLiquid-1], B: bb, K: uint64(nLiquid - 1), Kind: 2}
					}
				} else {
					op = hOp{Op: "liquidate", A: a, B: r.Intn(nVest), Amt: big1(1000, 1500), Kind: r.Intn(3) / 2}
					if op.Kind == 0 { // the steering shadow assumes success; precision is irrelevant
						liquidHolder = append(liquidHolder, a)
						nLiquid++
					}
				}
			case k < 63:
				if nLiquid == 0 {
					op = hOp{Op: "daofund", A: a, Amt: big1(1, 50)}
					funded = append(funded, a)
				} else {
					d := r.Intn(nLiquid)
					op = hOp{Op: "redeem", A: liquidHolder[d], B: bb, K: uint64(d), Amt: big1(1, 300), Kind: r.Intn(2)}
					if r.Chance(15) {
						op.A = a
					}
				}
			case k < 73:
				op = hOp{Op: "daofund", A: a, Amt: big1(1, 50)}
				if nLiquid > 0 && r.Chance(45) {
					d := r.Intn(nLiquid)
					op = hOp{Op: "daofund", A: liquidHolder[d], K: uint64(d), Amt: big1(1, 40), Kind: 1}
				}
				funded = append(funded, op.A)
			case k < 79:
				if len(funded) > 0 && r.Chance(85) {
					a = funded[r.Intn(len(funded))]
				}
				op = hOp{Op: "daotransfer", A: a, B: bb, Kind: r.Intn(2)}
				if r.Bool() {
					op.Amt = big1(1, 3)
				}
				if op.Kind == 0 {
					funded = append(funded, bb)
				}
			case k < 83:
				op = hOp{Op: "regcoin", A: a, Amt: fmt.Sprint(1000 + r.Intn(1000000))}
				coinOwner = append(coinOwner, a)
				nCoins++
			case k < 87:
				if nCoins == 0 {
					op = hOp{Op: "regcoin", A: a, Amt: fmt.Sprint(1000 + r.Intn(1000000))}
					coinOwner = append(coinOwner, a)
					nCoins++
				} else {
					d := r.Intn(nCoins)
					op = hOp{Op: "convert", A: coinOwner[d], B: bb, K: uint64(d), Amt: fmt.Sprint(1 + r.Intn(300))}
				}
			case k < 89:
				op = hOp{Op: "toggle", K: uint64(r.Intn(nCoins + nLiquid + 1))}
				if !bulkDone && r.Chance(25) {
					bulkDone = true
					op = hOp{Op: "manycoins", A: a, K: uint64(96 + r.Intn(12))} // around the page size of 100
				}
			case k < 92:
				op = hOp{Op: "evmparams", K: uint64(r.Intn(5))}
			case k < 95:
				op = hOp{Op: "fmparams", K: uint64(r.Intn(4)), V: r.U64() % 100000}
			case k < 97:
				op = hOp{Op: "coinparams", K: uint64(r.Intn(3)), V: r.U64() % 100000}
			case k < 98:
				op = hOp{Op: "lvparams", K: uint64(r.Intn(2)), V: r.U64() % 100000}
			case k < 99:
				op = hOp{Op: "daoparams"}
			default:
				op = hOp{Op: "erc20params", K: uint64(r.Intn(2))}
			}
			blk.Ops = append(blk.Ops, op)
		}
		in.Blocks = append(in.Blocks, blk)
	}
	return in
}

var genesisDump bool

func genesisDriver(cfg Config, out *Out) error {
	genesisDump = cfg.Args["dump"] != ""
	emit := func(cs []Case) {
		for _, c := range cs {
			out.Emit(c)
		}
	}
	if cfg.Replay != "" {
		i := 0
		return readReplayInputs(cfg.Replay, func(raw json.RawMessage) error {
			var in hInput
			if err := json.Unmarshal(raw, &in); err != nil {
				return err
			}
			emit(genesisRunCase(fmt.Sprintf("replay-%d", i), in))
			i++
			return nil
		})
	}
	r := NewRng(cfg.Seed)
	for i := 0; i < cfg.N; i++ {
		cr := r.Fork()
		nb, per := 3+cr.Intn(5), 4
		if cfg.Tier == "thorough" {
			nb, per = 3+cr.Intn(10), 6
		}
		in := genHistory(cr, nb, per)
		if ns := cr.Intn(4); ns > 0 { // 3 of 4 histories: 1-3 scenarios putting EVM state on an account of a chosen type
			in = injectEvmScenarios(cr, in, ns)
		}
		emit(genesisRunCase(fmt.Sprintf("s%d-%d", cfg.Seed, i), in))
	}
	return nil
}
